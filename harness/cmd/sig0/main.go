//go:debug rsa1024min=0

// Command sig0 binds spec/Sig0.tla to the real SIG(0) code (property C18).
//
//	sig0 record <events.ndjson> <keys.json> <n> <alg,alg,...> <ar:0|1> [only-id]
//	    n seeded random messages x the algorithms: packs the message, calls the real SIG.Sign, logs
//	    inputs and result as "sign" events for Trace_Sig0 (pass 1).  Keys are generated with the real
//	    KEY.Generate once per algorithm and saved (PKCS#8) for the second stage.
//	sig0 finish <events.ndjson> <emit.ndjson> <keys.json> <verify.ndjson>
//	    emit.ndjson is what Trace_Sig0 derived from the sign events: the octets that are signed, the
//	    specified result with a placeholder signature, the tamper regions.  This stage
//	      (1) verifies the REAL signature over the SPECIFICATION's octets with crypto/rsa, ecdsa, ed25519;
//	      (2) signs the specification's octets itself and completes the specified result: a signed message
//	          that owes nothing to SIG.Sign;
//	      (3) runs the real SIG.Verify on both with right / wrong keys and owner names and logs "verify"
//	          events for Trace_Sig0 (pass 2);
//	      (4) flips every bit and cuts at every length >= 12: the outcome per region is the specification's
//	          (reject / no panic).
package main

import (
	"bufio"
	"bytes"
	"crypto"
	"crypto/ecdsa"
	"crypto/ed25519"
	"crypto/rand"
	"crypto/rsa"
	"crypto/sha1"
	"crypto/sha256"
	"crypto/sha512"
	"crypto/x509"
	"embed"
	"encoding/asn1"
	"encoding/base64"
	"encoding/binary"
	"encoding/json"
	"errors"
	"fmt"
	"math/big"
	mrand "math/rand"
	"net"
	"os"
	"strconv"
	"strings"
	"time"

	"github.com/miekg/dns"

	"verifharness/lib/hx"
)

// ------------------------------------------------------------------ primitives (standard library only)

func digest(hash string, data []byte) ([]byte, crypto.Hash) {
	switch hash {
	case "sha1":
		s := sha1.Sum(data)
		return s[:], crypto.SHA1
	case "sha256":
		s := sha256.Sum256(data)
		return s[:], crypto.SHA256
	case "sha384":
		s := sha512.Sum384(data)
		return s[:], crypto.SHA384
	case "sha512":
		s := sha512.Sum512(data)
		return s[:], crypto.SHA512
	case "none":
		return data, crypto.Hash(0)
	}
	hx.Die("hash %q", hash)
	return nil, 0
}

// stdVerify: does the primitive accept sig (DNS encoding: RFC 3110 / 6605 / 8080) over data?
func stdVerify(pub crypto.PublicKey, hash string, data, sig []byte) bool {
	d, h := digest(hash, data)
	switch p := pub.(type) {
	case *rsa.PublicKey:
		return rsa.VerifyPKCS1v15(p, h, d, sig) == nil
	case *ecdsa.PublicKey:
		n := (p.Curve.Params().BitSize + 7) / 8
		if len(sig) != 2*n {
			return false
		}
		return ecdsa.Verify(p, d, new(big.Int).SetBytes(sig[:n]), new(big.Int).SetBytes(sig[n:]))
	case ed25519.PublicKey:
		return ed25519.Verify(p, d, sig)
	}
	return false
}

func stdSign(priv crypto.Signer, hash string, data []byte) []byte {
	d, h := digest(hash, data)
	s, err := priv.Sign(rand.Reader, d, h)
	if err != nil {
		hx.Die("stdlib sign: %v", err)
	}
	if p, ok := priv.Public().(*ecdsa.PublicKey); ok {
		var rs struct{ R, S *big.Int }
		if _, err := asn1.Unmarshal(s, &rs); err != nil {
			hx.Die("asn1: %v", err)
		}
		n := (p.Curve.Params().BitSize + 7) / 8
		return append(rs.R.FillBytes(make([]byte, n)), rs.S.FillBytes(make([]byte, n))...)
	}
	return s
}

// ------------------------------------------------------------------ keys

type savedKey struct {
	Alg   int    `json:"alg"`
	Pkcs8 string `json:"pkcs8"`
	RR    string `json:"rr"` // the KEY record as text
}
type keyFile struct {
	Now  int64               `json:"now"`
	Keys map[string]savedKey `json:"keys"` // "<alg>/0" the signing key, "<alg>/1" another key of the same algorithm
}

type key struct {
	rr   *dns.KEY
	priv crypto.Signer
}

var algByName = map[string]uint8{"RSASHA1": dns.RSASHA1, "RSASHA256": dns.RSASHA256, "RSASHA512": dns.RSASHA512,
	"ECDSAP256SHA256": dns.ECDSAP256SHA256, "ECDSAP384SHA384": dns.ECDSAP384SHA384, "ED25519": dns.ED25519}

func bitsOf(alg uint8) int {
	switch alg {
	case dns.ECDSAP384SHA384:
		return 384
	case dns.ECDSAP256SHA256, dns.ED25519:
		return 256
	}
	return 1024
}

func sigLen(alg uint8) int {
	switch alg {
	case dns.ECDSAP384SHA384:
		return 96
	case dns.ECDSAP256SHA256, dns.ED25519:
		return 64
	}
	return 128
}

//go:embed testdata/*.private
var testdata embed.FS

// fixed RSA keys at the size limits of RFC 3110 (committed as BIND private-key text, made with crypto/rand
// primes by this harness): generating 4096-bit keys in every run would be slow
var fixedKeys = []string{"RSASHA1@4096", "RSASHA256@4096", "RSASHA512@4096", "RSASHA1@512", "RSASHA256@512"}

func baseAlg(name string) string {
	b, _, _ := strings.Cut(name, "@")
	return b
}

func fixedKey(name string) key {
	_, bits, _ := strings.Cut(name, "@")
	b, err := testdata.ReadFile("testdata/rsa-" + bits + "-e65537-1.private")
	if err != nil {
		hx.Die("test data: %v", err)
	}
	m := map[string]*big.Int{}
	sc := bufio.NewScanner(strings.NewReader(string(b)))
	sc.Buffer(make([]byte, 1<<16), 1<<20)
	for sc.Scan() {
		if f, v, ok := strings.Cut(sc.Text(), ": "); ok {
			if d, err := base64.StdEncoding.DecodeString(v); err == nil {
				m[f] = new(big.Int).SetBytes(d)
			}
		}
	}
	p := &rsa.PrivateKey{PublicKey: rsa.PublicKey{N: m["Modulus"], E: int(m["PublicExponent"].Int64())}, D: m["PrivateExponent"], Primes: []*big.Int{m["Prime1"], m["Prime2"]}}
	p.Precompute()
	if err := p.Validate(); err != nil {
		hx.Die("test data holds an invalid RSA key: %v", err)
	}
	e := big.NewInt(int64(p.E)).Bytes() // RFC 3110 section 2
	pub := append(append([]byte{byte(len(e))}, e...), p.N.Bytes()...)
	for _, flags := range []uint16{0, 256, 257, 1} { // Sign refuses key tag 0
		k := &dns.KEY{DNSKEY: dns.DNSKEY{Hdr: dns.RR_Header{Name: "key.example.", Rrtype: dns.TypeKEY, Class: dns.ClassINET, Ttl: 3600},
			Flags: flags, Protocol: 3, Algorithm: algByName[baseAlg(name)], PublicKey: base64.StdEncoding.EncodeToString(pub)}}
		if k.KeyTag() != 0 {
			return key{k, p}
		}
	}
	hx.Die("fixed key has key tag 0")
	return key{}
}

// signature length of a key: the modulus length for RSA (RFC 3110 section 3)
func sigLenOf(k key) int {
	if p, ok := k.priv.Public().(*rsa.PublicKey); ok {
		return (p.N.BitLen() + 7) / 8
	}
	return sigLen(k.rr.Algorithm)
}

// collidingKEY: another RSA KEY record with the same owner, algorithm and KEY TAG: two 16-bit aligned words of
// the modulus exchanged (the sum of RFC 4034 Appendix B does not see the order of the words).  nil: not RSA.
func collidingKEY(k *dns.KEY) (*dns.KEY, crypto.PublicKey) {
	pk, err := base64.StdEncoding.DecodeString(k.PublicKey)
	if err != nil || (k.Algorithm != dns.RSASHA1 && k.Algorithm != dns.RSASHA256 && k.Algorithm != dns.RSASHA512) || pk[0] == 0 {
		return nil, nil
	}
	modoff := 1 + int(pk[0])
	i := modoff + 2
	if (4+i)%2 == 1 {
		i++
	}
	for j := i + 2; j+1 < len(pk); j += 2 {
		if pk[i] != pk[j] || pk[i+1] != pk[j+1] {
			b := append([]byte(nil), pk...)
			b[i], b[i+1], b[j], b[j+1] = pk[j], pk[j+1], pk[i], pk[i+1]
			pub := &rsa.PublicKey{N: new(big.Int).SetBytes(b[modoff:]), E: int(new(big.Int).SetBytes(b[1:modoff]).Int64())}
			return withPublic(k, b), pub
		}
	}
	return nil, nil
}

func genKey(alg uint8) key {
	for {
		k := &dns.KEY{DNSKEY: dns.DNSKEY{Hdr: dns.RR_Header{Name: "key.example.", Rrtype: dns.TypeKEY, Class: dns.ClassINET, Ttl: 3600},
			Flags: 0, Protocol: 3, Algorithm: alg}}
		p, err := k.Generate(bitsOf(alg))
		if err != nil {
			hx.Die("Generate(%d): %v", alg, err)
		}
		if k.KeyTag() != 0 { // Sign refuses key tag 0
			return key{k, p.(crypto.Signer)}
		}
	}
}

func saveKeys(path string, now int64, ks map[string]key) {
	kf := keyFile{Now: now, Keys: map[string]savedKey{}}
	for n, k := range ks {
		der, err := x509.MarshalPKCS8PrivateKey(k.priv)
		if err != nil {
			hx.Die("pkcs8: %v", err)
		}
		kf.Keys[n] = savedKey{int(k.rr.Algorithm), base64.StdEncoding.EncodeToString(der), k.rr.String()}
	}
	b, _ := json.Marshal(kf)
	if err := os.WriteFile(path, b, 0o600); err != nil {
		hx.Die("write keys: %v", err)
	}
}

func loadKeys(path string) (int64, map[string]key) {
	b, err := os.ReadFile(path)
	if err != nil {
		hx.Die("read keys: %v", err)
	}
	var kf keyFile
	if err := json.Unmarshal(b, &kf); err != nil {
		hx.Die("keys: %v", err)
	}
	ks := map[string]key{}
	for n, s := range kf.Keys {
		der, _ := base64.StdEncoding.DecodeString(s.Pkcs8)
		p, err := x509.ParsePKCS8PrivateKey(der)
		if err != nil {
			hx.Die("pkcs8: %v", err)
		}
		rr, err := dns.NewRR(s.RR)
		if err != nil {
			hx.Die("key rr: %v", err)
		}
		ks[n] = key{rr.(*dns.KEY), p.(crypto.Signer)}
	}
	return kf.Now, ks
}

// ------------------------------------------------------------------ messages

var zones = []string{"example.org.", "Sub.Example.ORG.", "a.", "xn--0.long-label-aaaaaaaaaaaaaaaaaaaaaaaaaaaaaaaaaaaaaaaaaaaaaaa.test."}

func randRR(r *mrand.Rand, zone string, small bool) dns.RR {
	owner := []string{"", "www.", "Mail.", "a.b.c.", "_sip._tcp."}[r.Intn(5)] + zone
	h := func(t uint16) dns.RR_Header {
		return dns.RR_Header{Name: owner, Rrtype: t, Class: dns.ClassINET, Ttl: uint32(r.Intn(100000))}
	}
	k := r.Intn(11)
	if small {
		k = 0
	}
	sigData := func(t uint16) dns.RRSIG { // a signature record carried as data (not the transaction signature)
		b := make([]byte, 20+r.Intn(50))
		r.Read(b)
		return dns.RRSIG{Hdr: h(t), TypeCovered: dns.TypeA, Algorithm: 8, Labels: 2, OrigTtl: 300, Expiration: r.Uint32(), Inception: r.Uint32(),
			KeyTag: uint16(r.Intn(65536)), SignerName: zone, Signature: base64.StdEncoding.EncodeToString(b)}
	}
	switch k {
	case 8:
		return &dns.SIG{RRSIG: sigData(dns.TypeSIG)}
	case 9:
		return &dns.RRSIG{Hdr: sigData(dns.TypeRRSIG).Hdr, TypeCovered: dns.TypeA, Algorithm: 13, Labels: 2, OrigTtl: 300, Expiration: r.Uint32(), Inception: r.Uint32(),
			KeyTag: uint16(r.Intn(65536)), SignerName: zone, Signature: sigData(dns.TypeRRSIG).Signature}
	case 10:
		b := make([]byte, 32)
		r.Read(b)
		return &dns.KEY{DNSKEY: dns.DNSKEY{Hdr: h(dns.TypeKEY), Flags: 256, Protocol: 3, Algorithm: 15, PublicKey: base64.StdEncoding.EncodeToString(b)}}
	case 0:
		return &dns.A{Hdr: h(dns.TypeA), A: net.IPv4(192, 0, 2, byte(r.Intn(256))).To4()}
	case 1:
		return &dns.AAAA{Hdr: h(dns.TypeAAAA), AAAA: net.ParseIP(fmt.Sprintf("2001:db8::%x", r.Intn(65536)))}
	case 2:
		return &dns.MX{Hdr: h(dns.TypeMX), Preference: uint16(r.Intn(100)), Mx: "mail." + zone}
	case 3:
		return &dns.NS{Hdr: h(dns.TypeNS), Ns: "ns" + strconv.Itoa(r.Intn(3)) + "." + zone}
	case 4:
		return &dns.CNAME{Hdr: h(dns.TypeCNAME), Target: "target." + zones[r.Intn(len(zones))]}
	case 5:
		var txt []string
		for j := r.Intn(3); j >= 0; j-- {
			b := make([]byte, r.Intn(60))
			for x := range b {
				b[x] = byte('a' + r.Intn(26))
			}
			txt = append(txt, string(b))
		}
		return &dns.TXT{Hdr: h(dns.TypeTXT), Txt: txt}
	case 6:
		return &dns.SOA{Hdr: h(dns.TypeSOA), Ns: "ns0." + zone, Mbox: "hostmaster." + zone, Serial: r.Uint32(), Refresh: 7200, Retry: 600, Expire: 86400, Minttl: 60}
	default:
		return &dns.SRV{Hdr: h(dns.TypeSRV), Priority: 1, Weight: 2, Port: uint16(r.Intn(65536)), Target: "srv." + zone}
	}
}

// the signer names: letters in both cases (every name holds an s or a k: the two ASCII letters some non-ASCII character folds
// onto under Unicode case folding), a one-label name, a long one, and one with octets that are 0x20 away from another
// printable octet without being letters ([ ] ^ and { } ~)
var signers = []string{"key.example.", "KeY.Example.ORG.", "k.", "signer.with.a.rather.long.name.to.make.the.rdata.bigger.example.net.", "Sig[0]^k.example."}

// signer names whose text is not as long as their wire form: an escaped dot, quote and backslash, octets spelled \DDD (each
// one octet on the wire, two to four characters in the Go string) and the root (one octet, one character, no label): whatever
// sizes a buffer from len(SignerName) instead of the packed length is off for these.  Spelled the way the library prints names.
var spelledSigners = []string{"host\\.name.example.org.", ".", "\\000\\255s.k.example.", "quo\\\"te\\\\k.example."}

// below: prefix + name, for the root as well ("other." + "." is no name)
func below(prefix, name string) string {
	if name == "." {
		return prefix
	}
	return prefix + name
}

// what a SIG value may hold before Sign besides the five fields Sign reads (SignerName, KeyTag, Algorithm, Inception,
// Expiration): the header filled in like that of any other record, the remaining RDATA fields.  Sign's result is a
// function of the message and the five fields (spec: LayoutFault takes nothing else).
var presetKinds = []string{"owner", "header", "rdata-fields", "all"}

func applyPreset(sig *dns.SIG, kind, signer string) {
	switch kind {
	case "owner":
		sig.Hdr.Name = "key.example."
	case "header":
		sig.Hdr = dns.RR_Header{Name: signer, Rrtype: dns.TypeSIG, Class: dns.ClassINET, Ttl: 3600, Rdlength: 77}
	case "rdata-fields":
		sig.TypeCovered, sig.Labels, sig.OrigTtl = dns.TypeSOA, 3, 86400
	case "all":
		sig.Hdr = dns.RR_Header{Name: "a.rather.long.owner.name.for.the.sig.record.example.net.", Rrtype: dns.TypeRRSIG, Class: dns.ClassCHAOS, Ttl: 1, Rdlength: 65535}
		sig.TypeCovered, sig.Labels, sig.OrigTtl = dns.TypeANY, 255, 0xffffffff
	}
}

type msgCase struct {
	m      *dns.Msg
	signer string
	window int
}

// additional-section sizes around the octet boundaries of ARCOUNT (before the SIG RR is added)
var arBoundary = []int{254, 255, 256, 257, 511, 512}

// arMsg: a query with n small additional records, always with a window that holds
func arMsg(r *mrand.Rand, i int) msgCase {
	m := new(dns.Msg)
	m.Id = uint16(r.Intn(65536))
	m.Compress = i%2 == 1
	m.Question = []dns.Question{{Name: "a.", Qtype: dns.TypeA, Qclass: dns.ClassINET}}
	for j := 0; j < arBoundary[i]; j++ {
		m.Extra = append(m.Extra, randRR(r, "a.", true))
	}
	return msgCase{m, "key.example.", 0}
}

// the messages every run starts with when asked to (record ... 1): the ARCOUNT boundaries, a message of about
// 3 kB and one of about 20 kB (signed with EVERY algorithm), and one that already carries SIG / KEY / RRSIG
// records -- among them a SIG(0)-shaped record at the end of the additional section, as after signing twice
const (
	idxLarge3k   = 6
	idxLarge20k  = 7
	idxPresigned = 8
	idxFixedKeys = 9 // a small message signed with the committed 4096-bit and 512-bit RSA keys
	nSpecial     = 10
)

func specialMsg(r *mrand.Rand, i int) (msgCase, bool) {
	if i < len(arBoundary) {
		return arMsg(r, i), false
	}
	m := new(dns.Msg)
	m.Id = uint16(r.Intn(65536))
	m.Response = true
	m.Question = []dns.Question{{Name: "www.example.org.", Qtype: dns.TypeANY, Qclass: dns.ClassINET}}
	switch i {
	case idxLarge3k, idxLarge20k:
		target := 3000
		if i == idxLarge20k {
			target, m.Compress = 20000, true
		}
		for m.Len() < target {
			m.Answer = append(m.Answer, randRR(r, zones[r.Intn(2)], false))
		}
		return msgCase{m, "key.example.", 0}, true
	case idxFixedKeys:
		m.Answer = append(m.Answer, randRR(r, "example.org.", true), randRR(r, "example.org.", false))
		return msgCase{m, "key.example.", 0}, false
	default: // idxPresigned
		m.Compress = r.Intn(2) == 0
		old := &dns.SIG{RRSIG: dns.RRSIG{Hdr: dns.RR_Header{Name: ".", Rrtype: dns.TypeSIG, Class: dns.ClassANY}, Algorithm: 15, Expiration: r.Uint32(), Inception: r.Uint32(),
			KeyTag: 4711, SignerName: "first.signer.example.", Signature: base64.StdEncoding.EncodeToString(make([]byte, 64))}}
		for k := 8; k <= 10; k++ {
			for rr := randRR(r, "example.org.", false); ; rr = randRR(r, "example.org.", false) {
				if rr.Header().Rrtype == []uint16{dns.TypeSIG, dns.TypeRRSIG, dns.TypeKEY}[k-8] {
					m.Answer = append(m.Answer, rr)
					m.Extra = append(m.Extra, dns.Copy(rr))
					break
				}
			}
		}
		m.Extra = append(m.Extra, randRR(r, "example.org.", true), old)
		return msgCase{m, "KeY.Example.ORG.", 0}, false
	}
}

// the i-th message of a run: a function of the seeded generator only (no key material, no clock)
func randMsg(r *mrand.Rand, i int) msgCase {
	m := new(dns.Msg)
	zone := zones[r.Intn(len(zones))]
	m.Id = uint16(r.Intn(65536))
	m.Response = r.Intn(2) == 0
	m.Opcode = []int{0, 0, 0, 4, 5}[r.Intn(5)]
	m.Authoritative, m.Truncated, m.RecursionDesired, m.RecursionAvailable = r.Intn(2) == 0, r.Intn(8) == 0, r.Intn(2) == 0, r.Intn(2) == 0
	m.AuthenticatedData, m.CheckingDisabled, m.Zero = r.Intn(4) == 0, r.Intn(4) == 0, r.Intn(8) == 0
	m.Rcode = []int{0, 0, 0, 2, 3, 5}[r.Intn(6)]
	m.Compress = r.Intn(2) == 0
	nq := []int{0, 1, 1, 1, 2}[r.Intn(5)]
	nan := []int{0, 0, 1, 2, 5, 20}[r.Intn(6)]
	nns := []int{0, 0, 2, 4}[r.Intn(4)]
	nar := []int{0, 0, 1, 2, 3}[r.Intn(5)]
	small := false
	switch i % 10 {
	case 3: // additional-section counts around the one-octet boundary
		nar, small = []int{255, 256, 257}[(i/10)%3], true
		nan, nns = r.Intn(2), 0
	case 7: // a large answer
		if i%20 == 7 {
			nan = 120 + r.Intn(60)
		}
	case 0:
		if i == 0 { // the plain query of the existing test suite
			nq, nan, nns, nar, m.Compress = 1, 0, 0, 0, false
		}
	}
	for j := 0; j < nq; j++ {
		m.Question = append(m.Question, dns.Question{Name: []string{"", "www.", "q.r."}[r.Intn(3)] + zone, Qtype: []uint16{dns.TypeA, dns.TypeSOA, dns.TypeANY}[r.Intn(3)], Qclass: dns.ClassINET})
	}
	for j := 0; j < nan; j++ {
		m.Answer = append(m.Answer, randRR(r, zone, false))
	}
	for j := 0; j < nns; j++ {
		m.Ns = append(m.Ns, randRR(r, zone, false))
	}
	for j := 0; j < nar; j++ {
		if small {
			m.Extra = append(m.Extra, randRR(r, "a.", true))
		} else {
			m.Extra = append(m.Extra, randRR(r, zone, false))
		}
	}
	signer := signers[r.Intn(len(signers))]
	if i%4 == 3 { // every fourth message: a signer whose presentation form and wire form differ in length (all four within 16 messages)
		signer = spelledSigners[(i/4)%len(spelledSigners)]
	}
	window := []int{0, 4, 0, 1, 0, 5, 2, 0, 6, 0, 3, 0, 1, 0}[i%14] // every kind within any 14 consecutive messages
	return msgCase{m, signer, window}
}

func be32(v uint32) hx.B {
	var b [4]byte
	binary.BigEndian.PutUint32(b[:], v)
	return hx.FromBytes(b[:])
}

func window(kind int, now int64) (inc, exp uint32) {
	switch kind {
	case 0:
		return uint32(now - 3600), uint32(now + 3600)
	case 1:
		return uint32(now - 90), uint32(now + 1500)
	case 2:
		return uint32(now - 3600), uint32(now - 90)
	case 3:
		return uint32(now + 1500), uint32(now + 3600)
	// inverted windows (inception later than expiration): no instant is inside
	case 4:
		return uint32(now - 3600), uint32(now - 7200) // both in the past
	case 5:
		return uint32(now + 7200), uint32(now + 3600) // both in the future
	default:
		return uint32(now + 3600), uint32(now - 3600) // now between expiration and inception
	}
}

// ------------------------------------------------------------------ record

type evSign struct {
	Ev       string `json:"ev"`
	Id       int    `json:"id"`
	Msg      hx.B   `json:"msg"`
	Compress bool   `json:"compress"`
	AlgName  string `json:"algname"`
	Alg      int    `json:"alg"`
	Exp      hx.B   `json:"exp"`
	Inc      hx.B   `json:"inc"`
	KeyTag   int    `json:"keytag"`
	Signer   hx.B   `json:"signer"`
	SigLen   int    `json:"siglen"`
	Window   int    `json:"window"`
	Reused   bool   `json:"reused"` // the SIG value had signed another message before
	Preset   string `json:"preset"` // "" | what the SIG value held before Sign besides the five fields Sign reads (presetKinds)
	Ok       bool   `json:"ok"`
	ErrClass string `json:"errclass"`
	Err      string `json:"err"`
	Out      hx.B   `json:"out"`
	// the octets Sign returned are the same after the next Sign call (another message, a fresh SIG value, the same key) and at
	// the end of the run, after every later one
	Stable bool `json:"stable"`
}

// ar: the first len(arBoundary) messages are the ARCOUNT boundary ones (quick: first algorithm only)
func record(out, keysPath string, n int, algs []string, ar bool, only int) {
	r := hx.Rand()
	w := hx.NewWriter(out)
	defer w.Close()
	var sum hx.Summary
	now := time.Now().Unix()
	ks := map[string]key{}
	all := []string{"RSASHA1", "RSASHA256", "RSASHA512", "ECDSAP256SHA256", "ECDSAP384SHA384", "ED25519"}
	keyAlgs := algs
	if ar {
		keyAlgs = all
	}
	for _, a := range keyAlgs {
		alg, ok := algByName[a]
		if !ok {
			hx.Die("algorithm %q", a)
		}
		ks[a+"/0"], ks[a+"/1"] = genKey(alg), genKey(alg)
	}
	if ar {
		for _, f := range fixedKeys {
			ks[f+"/0"], ks[f+"/1"] = fixedKey(f), ks[baseAlg(f)+"/1"]
		}
	}
	saveKeys(keysPath, now, ks)
	seen := map[string]bool{}
	type held struct {
		e   evSign
		res []byte // what Sign returned, kept the way a caller keeps it: the slice itself
	}
	var kept []*held
	for i := 0; i < n; i++ {
		c := randMsg(r, i)
		isAR := ar && i < len(arBoundary)
		msgAlgs := algs
		if ar && i < nSpecial {
			var every bool
			if c, every = specialMsg(r, i); i == idxFixedKeys {
				msgAlgs = fixedKeys
			} else if every {
				msgAlgs = all
				if i == idxLarge20k && !hx.Thorough() { // quick: ED25519 (its "hash" is the message itself) and one more
					msgAlgs = []string{"ED25519", algs[0]}
					if algs[0] == "ED25519" {
						msgAlgs[1] = algs[len(algs)-1]
					}
				}
			}
		}
		packed, err := c.m.Pack()
		if err != nil {
			hx.Die("message %d does not pack: %v", i, err)
		}
		for ai, a := range msgAlgs {
			id := i*10 + ai
			if only >= 0 && id != only {
				continue
			}
			if isAR && ai > 0 && !hx.Thorough() {
				continue
			}
			sum.Evaluations++
			k := ks[a+"/0"]
			inc, exp := window(c.window, now)
			sig := &dns.SIG{RRSIG: dns.RRSIG{Algorithm: k.rr.Algorithm, Inception: inc, Expiration: exp, KeyTag: k.rr.KeyTag(), SignerName: c.signer}}
			// every fourth random message: the SIG value has been used to sign another message before (the natural
			// way to use the API: fill the fields in again, sign the next message)
			reused := !(ar && i < nSpecial) && i%4 == 1
			if reused {
				warm := new(dns.Msg)
				warm.SetQuestion("earlier.message.example.", dns.TypeSOA)
				if _, err := sig.Sign(k.priv, warm); err != nil {
					hx.Die("signing the warm-up query: %v", err)
				}
				sig.Algorithm, sig.Inception, sig.Expiration, sig.KeyTag, sig.SignerName = k.rr.Algorithm, inc, exp, k.rr.KeyTag(), c.signer
			}
			// every fourth random message: the SIG value arrives with its header / remaining RDATA fields filled in
			preset := ""
			if !(ar && i < nSpecial) && i%4 == 2 {
				preset = presetKinds[(i/4)%len(presetKinds)]
				applyPreset(sig, preset, c.signer)
			}
			e := evSign{Ev: "sign", Id: id, Msg: hx.FromBytes(packed), Compress: c.m.Compress, AlgName: a, Alg: int(k.rr.Algorithm), Reused: reused, Preset: preset,
				Exp: be32(exp), Inc: be32(inc), KeyTag: int(sig.KeyTag), Signer: hx.FromString(c.signer), SigLen: sigLenOf(k), Window: c.window}
			var res []byte
			var serr error
			if p := hx.Catch(func() { res, serr = sig.Sign(k.priv, c.m) }); p != "" {
				serr = errors.New("panic: " + p)
				e.ErrClass = "panic"
			}
			if serr == nil {
				e.Ok, e.Out = true, hx.FromBytes(res)
			} else {
				e.Err = serr.Error()
				if e.ErrClass == "" {
					e.ErrClass = "error"
					if errors.Is(serr, dns.ErrBuf) {
						e.ErrClass = "errbuf"
					}
				}
			}
			seen[string(packed)+a] = true
			e.Stable = true
			if serr == nil {
				// the next caller: another (small) message, a SIG value of its own, the same key -- then look at what the first one holds
				next := new(dns.Msg)
				next.SetQuestion("next.message.example.", dns.TypeTXT)
				next.Id = ^c.m.Id
				nsig := &dns.SIG{RRSIG: dns.RRSIG{Algorithm: k.rr.Algorithm, Inception: inc, Expiration: exp, KeyTag: k.rr.KeyTag(), SignerName: "key.example."}}
				hx.Catch(func() { nsig.Sign(k.priv, next) }) // its outcome is not this event's business
				e.Stable = bytes.Equal(res, e.Out.Bytes())
			}
			kept = append(kept, &held{e, res})
			if id < 2 {
				sum.Sample(map[string]interface{}{"id": id, "alg": a, "msglen": len(packed), "ok": e.Ok, "outlen": len(res)})
			}
		}
	}
	for _, h := range kept { // ... and after every later call of the run
		if h.e.Ok && !bytes.Equal(h.res, h.e.Out.Bytes()) {
			h.e.Stable = false
		}
		w.Emit(h.e)
	}
	sum.Nontrivial = len(seen)
	sum.Note("sign_events", w.N)
	sum.Print()
}

// ------------------------------------------------------------------ finish

type region struct {
	From int    `json:"from"`
	To   int    `json:"to"`
	Must string `json:"must"`
	What string `json:"what"`
}
type emitted struct {
	Id         int      `json:"id"`
	Hash       string   `json:"hash"`
	RealOk     bool     `json:"realok"`
	Signed     hx.B     `json:"signed"`
	SigOff     int      `json:"sigoff"`
	SpecOut    hx.B     `json:"specout"`
	SpecSigned hx.B     `json:"specsigned"`
	Regions    []region `json:"regions"`
	Fields     []region `json:"fields"` // the SIG RDATA fields in front of the signature, by name
}
type evVerify struct {
	Ev       string `json:"ev"`
	Id       int    `json:"id"`
	Variant  string `json:"variant"`
	Buf      hx.B   `json:"buf"`
	KeyOwner hx.B   `json:"keyowner"`
	Now      hx.B   `json:"now"`
	Signed   hx.B   `json:"signed"`
	KeyOk    bool   `json:"keyok"` // the KEY record holds the signer's or another well-formed public key
	SigValid bool   `json:"sigvalid"`
	Accepted bool   `json:"accepted"`
	// the octets handed to Verify are the same after the call (for an "after-" event: after both calls)
	Unchanged bool   `json:"unchanged"`
	Err       string `json:"err"`
	// the SIG value Verify was called on, when it is not the record unpacked from buf (a signing template that has signed
	// another message since): the specification judges by the received octets alone
	RR *sigStruct `json:"rr,omitempty"`
}

type sigStruct struct {
	Inc    hx.B `json:"inc"`
	Exp    hx.B `json:"exp"`
	KeyTag int  `json:"keytag"`
	Signer hx.B `json:"signer"`
}

// the receiver: unpack, take the last additional record as the SIG, verify.  err != nil = rejected.
// modified: did the last receive/direct call change the octets it was given?  (Verify has no business writing
// to its input, whatever it returns.)
var modified bool

func receive(k *dns.KEY, buf []byte) (err error, panicked string) {
	before := append([]byte(nil), buf...)
	defer func() { modified = !bytes.Equal(before, buf) }()
	panicked = hx.Catch(func() {
		m := new(dns.Msg)
		if e := m.Unpack(buf); e != nil {
			err = e
			return
		}
		if len(m.Extra) == 0 {
			err = errors.New("no additional record")
			return
		}
		s, ok := m.Extra[len(m.Extra)-1].(*dns.SIG)
		if !ok {
			err = errors.New("last additional record is not a SIG")
			return
		}
		err = s.Verify(k, buf)
	})
	return
}

func direct(rr *dns.SIG, k *dns.KEY, buf []byte) (err error, panicked string) {
	before := append([]byte(nil), buf...)
	defer func() { modified = !bytes.Equal(before, buf) }()
	panicked = hx.Catch(func() { err = rr.Verify(k, buf) })
	return
}

func swapCase(s string) string {
	b := []byte(s)
	for i, c := range b {
		if c >= 'a' && c <= 'z' {
			b[i] = c - 32
		} else if c >= 'A' && c <= 'Z' {
			b[i] = c + 32
		}
	}
	return string(b)
}

// unicodeFold: the name with its first s / S replaced by U+017F LATIN SMALL LETTER LONG S, resp. its first k / K by
// U+212A KELVIN SIGN, as raw UTF-8 in the Go string: another domain name (other octets, another length) that Unicode
// case folding -- not the DNS's -- takes for the same.  "" when the name has no such letter.
func unicodeFold(name string, letter byte) string {
	repl := map[byte]string{'s': "\u017f", 'k': "\u212a"}[letter]
	for i := 0; i < len(name); i++ {
		if name[i] == '\\' {
			i++
			continue
		}
		if name[i]|0x20 == letter {
			return name[:i] + repl + name[i+1:]
		}
	}
	return ""
}

// xor20NonLetter: the name with its first octet among [ ] ^ { } ~ moved by 0x20 (another name: only letters have two cases)
func xor20NonLetter(name string) string {
	for i := 0; i < len(name); i++ {
		if name[i] == '\\' {
			i++
			continue
		}
		if strings.IndexByte("[]^{}~", name[i]) >= 0 {
			return name[:i] + string(name[i]^0x20) + name[i+1:]
		}
	}
	return ""
}

func withPublic(k *dns.KEY, pub []byte) *dns.KEY {
	c := *k
	c.PublicKey = base64.StdEncoding.EncodeToString(pub)
	return &c
}

func withOwner(k *dns.KEY, owner string) *dns.KEY {
	c := *k
	c.Hdr.Name = owner
	return &c
}

// template: the SIG value of a signer who has, after the message under test, signed another message with the same key and
// signer name but validity window `kind' (real Sign, so that the value carries that message's header fields and signature).
// What Sign says about that other message is not this function's business (it is judged where it is the subject).
var templates = map[string]*dns.SIG{}

func template(e *evSign, k key, signer string, kind int, now int64) *dns.SIG {
	ck := fmt.Sprintf("%s|%s|%d", e.AlgName, signer, kind)
	if t := templates[ck]; t != nil {
		c := *t
		return &c
	}
	inc, exp := window(kind, now)
	t := &dns.SIG{RRSIG: dns.RRSIG{Algorithm: k.rr.Algorithm, Inception: inc, Expiration: exp, KeyTag: uint16(e.KeyTag), SignerName: signer}}
	later := new(dns.Msg)
	later.SetQuestion("later.message.example.", dns.TypeSOA)
	hx.Catch(func() { t.Sign(k.priv, later) })
	// the five fields a caller sets are what he set, whatever Sign did
	t.Algorithm, t.Inception, t.Expiration, t.KeyTag, t.SignerName = k.rr.Algorithm, inc, exp, uint16(e.KeyTag), signer
	templates[ck] = t
	c := *t
	return &c
}

func finish(eventsPath, emitPath, keysPath, verifyPath string) {
	var sum hx.Summary
	recNow, ks := loadKeys(keysPath)
	ems := map[int]*emitted{}
	hx.ReadNDJSON(emitPath, func(i int, e *emitted) { ems[e.Id] = e })
	w := hx.NewWriter(verifyPath)
	defer w.Close()
	tampered, truncated, stdchecked, built := 0, 0, 0, 0
	collideFirst := map[string]bool{}
	var later []func()
	hx.ReadNDJSON(eventsPath, func(i int, e *evSign) {
		em := ems[e.Id]
		if em == nil {
			hx.Die("no emitted record for sign event %d", e.Id)
		}
		if time.Now().Unix()-recNow > 600 {
			hx.Die("more than 600 s since the messages were signed: the validity margins no longer hold")
		}
		k0, k1 := ks[e.AlgName+"/0"], ks[e.AlgName+"/1"]
		signer := e.Signer.String()
		keyrr := withOwner(k0.rr, signer)
		// (1) the real signature, checked over the specification's octets by the standard library
		var bufs [][]byte
		var names []string
		if e.Ok && em.RealOk {
			out := e.Out.Bytes()
			stdchecked++
			sum.Evaluations++
			if !stdVerify(k0.priv.Public(), em.Hash, em.Signed.Bytes(), out[em.SigOff:]) {
				sum.Mis("sig0/sign-signature-not-over-specified-octets", fmt.Sprintf("%s signature returned by Sign does not verify over SIG RDATA | message (event %d)", e.AlgName, e.Id), e)
			}
			bufs, names = append(bufs, out), append(names, "real")
		}
		// (2) the specified result, signed here
		spec := em.SpecOut.Bytes()
		sig := stdSign(k0.priv, em.Hash, em.SpecSigned.Bytes())
		if len(spec)-em.SigOff != len(sig) {
			hx.Die("event %d: placeholder of %d octets, signature of %d", e.Id, len(spec)-em.SigOff, len(sig))
		}
		copy(spec[em.SigOff:], sig)
		bufs, names = append(bufs, spec), append(names, "built")
		built++
		// (3) verification events for pass 2
		other := ks[otherAlg(e.AlgName, ks)+"/0"]
		for bi, buf := range bufs {
			signed := em.SpecSigned
			if names[bi] == "real" {
				signed = em.Signed
			}
			type variant struct {
				name string
				k    *dns.KEY
				pub  crypto.PublicKey // nil: the KEY record does not hold a public key of its algorithm
				rr   *dns.SIG         // non-nil: Verify is called on THIS value (not on the SIG unpacked from the octets)
			}
			vs := []variant{{"same", keyrr, k0.priv.Public(), nil},
				{"owner-case", withOwner(k0.rr, swapCase(signer)), k0.priv.Public(), nil}}
			// Verify called on a SIG value that is not the record in the message: the signing template, which has signed
			// another message -- with another validity window -- since (a sign / re-window / sign / verify sequence).  One
			// template whose own window holds and one whose window does not (expired, not yet valid, inverted in turn);
			// the verdict is that of the received octets.  Messages of 2.5 .. 4 kB (the ~3 kB one, signed with every algorithm):
			// on the real one only, the template whose window does not hold; not on longer ones (each costs trace validation
			// seconds, and the length of the message has no part in this).
			if len(buf) <= 2500 || names[bi] == "real" && len(buf) <= 4000 {
				for _, wk := range []int{[]int{2, 3, 6}[(e.Id+bi)%3], 0} {
					vs = append(vs, variant{"struct-window-" + strconv.Itoa(wk), keyrr, k0.priv.Public(), template(e, k0, signer, wk, recNow)})
					if len(buf) > 2500 {
						break
					}
				}
			}
			if len(buf) > 2500 { // long messages: the accepting variants, and on the real one a wrong and a damaged key
				if names[bi] == "real" {
					pk, _ := base64.StdEncoding.DecodeString(k0.rr.PublicKey)
					vs = append(vs, variant{"key-other", withOwner(k1.rr, signer), k1.priv.Public(), nil}, variant{"key-short", withPublic(keyrr, pk[:len(pk)-1]), nil, nil})
				} else {
					vs = vs[:1]
				}
			} else {
				pk, err := base64.StdEncoding.DecodeString(k0.rr.PublicKey)
				if err != nil {
					hx.Die("KEY public key: %v", err)
				}
				otherLen := map[int]int{64: 96, 96: 64, 32: 64}[len(pk)]
				if otherLen == 0 {
					otherLen = 32
				}
				ol := make([]byte, otherLen)
				copy(ol, pk)
				if cb, cpub := collidingKEY(keyrr); cb != nil {
					// a different RSA KEY with the same owner, algorithm and key tag; which of the two is tried first
					// alternates from one (signer, key) to the next
					ck := signer + "|" + e.AlgName
					if _, ok := collideFirst[ck]; !ok {
						collideFirst[ck] = len(collideFirst)%2 == 1
					}
					if collideFirst[ck] {
						vs = append([]variant{{"key-collide", cb, cpub, nil}}, vs...)
					} else {
						vs = append(vs, variant{"key-collide", cb, cpub, nil})
					}
				}
				vs = append(vs,
					variant{"owner-other", withOwner(k0.rr, below("other.", signer)), k0.priv.Public(), nil},
					variant{"owner-parent", withOwner(k0.rr, "example."), k0.priv.Public(), nil},
					variant{"key-other", withOwner(k1.rr, signer), k1.priv.Public(), nil},
					variant{"key-other-alg", withOwner(other.rr, signer), other.priv.Public(), nil},
					// the signer's key damaged: one octet short, one octet long, empty, the length of another algorithm
					variant{"key-short", withPublic(keyrr, pk[:len(pk)-1]), nil, nil},
					variant{"key-long", withPublic(keyrr, append(append([]byte{}, pk...), 1)), nil, nil},
					variant{"key-empty", withPublic(keyrr, nil), nil, nil},
					variant{"key-otherlen", withPublic(keyrr, ol), nil, nil})
				// KEY owners that are other domain names although some notion of "the same letters" other than the DNS's
				// (RFC 4343: the 26 ASCII letter pairs, nothing else) takes them for the signer's name: the two non-ASCII
				// characters Unicode folds onto s and k, spelled raw in the Go string; a non-letter moved by 0x20
				for _, o := range []struct{ tag, name string }{{"owner-unicode-fold-s", unicodeFold(signer, 's')}, {"owner-unicode-fold-k", unicodeFold(signer, 'k')},
					{"owner-unicode-fold-k-case", unicodeFold(swapCase(signer), 'k')}, {"owner-xor20-nonletter", xor20NonLetter(signer)}} {
					if o.name != "" {
						vs = append(vs, variant{o.tag, withOwner(k0.rr, o.name), k0.priv.Public(), nil})
					}
				}
			}
			rightValid := stdVerify(k0.priv.Public(), em.Hash, signed.Bytes(), buf[em.SigOff:])
			for _, v := range vs {
				sum.Evaluations++
				now := time.Now().Unix()
				b := append([]byte(nil), buf...) // the caller's buffer: used for this call and, if it fails, for the next one
				var err error
				var pan string
				if v.rr != nil {
					err, pan = direct(v.rr, v.k, b)
				} else {
					err, pan = receive(v.k, b)
				}
				if pan != "" {
					sum.Mis("sig0/verify-panics:"+v.name, "panic: "+pan, map[string]interface{}{"id": e.Id, "variant": v.name})
					continue
				}
				ev := evVerify{Ev: "verify", Id: e.Id, Variant: names[bi] + "/" + v.name, Buf: hx.FromBytes(buf), KeyOwner: hx.FromString(v.k.Hdr.Name), Now: be32(uint32(now)),
					Signed: signed, KeyOk: v.pub != nil, SigValid: v.pub != nil && stdVerify(v.pub, em.Hash, signed.Bytes(), buf[em.SigOff:]), Accepted: err == nil, Unchanged: !modified}
				if err != nil {
					ev.Err = err.Error()
				}
				if v.rr != nil {
					ev.RR = &sigStruct{Inc: be32(v.rr.Inception), Exp: be32(v.rr.Expiration), KeyTag: int(v.rr.KeyTag), Signer: hx.FromString(v.rr.SignerName)}
				}
				w.Emit(ev)
				if err == nil || len(buf) > 1000 && v.name != "key-other" || v.rr != nil || strings.HasPrefix(v.name, "owner-unicode") || strings.HasPrefix(v.name, "owner-xor20") {
					continue
				}
				// a failed verification, then the matching KEY on the very same buffer: Verify is a function of the
				// octets, the KEY and the time, so the outcome is that of verifying the message as it was received
				sum.Evaluations++
				now = time.Now().Unix()
				err2, pan2 := receive(keyrr, b)
				if pan2 != "" {
					sum.Mis("sig0/verify-panics:after-"+v.name, "panic: "+pan2, map[string]interface{}{"id": e.Id, "variant": v.name})
					continue
				}
				ev2 := evVerify{Ev: "verify", Id: e.Id, Variant: names[bi] + "/after-" + v.name, Buf: hx.FromBytes(buf), KeyOwner: hx.FromString(keyrr.Hdr.Name), Now: be32(uint32(now)),
					Signed: signed, KeyOk: true, SigValid: rightValid, Accepted: err2 == nil, Unchanged: bytes.Equal(b, buf)}
				if err2 != nil {
					ev2.Err = err2.Error()
				}
				w.Emit(ev2)
			}
		}
		later = append(later, func() { tamper(e, em, keyrr, bufs, names, &sum, &tampered, &truncated) })
	})
	// (4) after every time-dependent assertion has been made: tampering and truncation
	for _, f := range later {
		f()
	}
	sum.Nontrivial = tampered + truncated + stdchecked + w.N
	sum.Note("tampered_inputs", tampered)
	sum.Note("truncated_inputs", truncated)
	sum.Note("real_signatures_checked_by_stdlib", stdchecked)
	sum.Note("messages_built_from_spec", built)
	sum.Note("verify_events", w.N)
	sum.Print()
}

var sweptAll int // messages whose SIG RDATA fields have all been swept through every octet value

// tampering and truncation, on a message the real Verify accepts: every expectation here is a rejection,
// so a validity window running out meanwhile cannot turn into a false alarm
func tamper(e *evSign, em *emitted, keyrr *dns.KEY, bufs [][]byte, names []string, sum *hx.Summary, tampered, truncated *int) {
	for bi, buf := range bufs {
		if bi > 0 && (!hx.Thorough() || len(buf) > 500) {
			break // the real one if Sign produced it, else the built one; thorough: both when short
		}
		if err, _ := receive(keyrr, buf); err != nil {
			continue // rejected as it is (judged in pass 2): nothing to learn from altering it
		}
		m := new(dns.Msg)
		m.Unpack(buf)
		orig := m.Extra[len(m.Extra)-1].(*dns.SIG)
		stride := 1
		if !hx.Thorough() && e.SigLen == 96 && len(buf) > 300 { // P-384 verification is ten times slower than the others
			stride = 1 + len(buf)/120
		} else if !hx.Thorough() && len(buf) > 700 {
			stride = 1 + len(buf)/350
		} else if len(buf) > 1200 {
			stride = 1 + len(buf)/600
		}
		if stride > 37 { // however long the message: every 37th octet over its whole length, at least
			stride = 37
		}
		bits := 8
		if len(buf) > 2500 && e.SigLen == 96 {
			bits = 2
		}
		for _, rg := range em.Regions {
			for off := rg.From; off <= rg.To && off < len(buf); off++ {
				if stride > 1 && off >= 14 && off%stride != 0 && off < rg.To-90 && off > rg.From+2 {
					continue
				}
				for b := 0; b < bits; b++ {
					bit := (b*3 + off) % 8
					t := append([]byte(nil), buf...)
					t[off] ^= 1 << bit
					*tampered++
					sum.Evaluations++
					e1, p1 := direct(orig, keyrr, t)
					m1 := modified
					e2, p2 := receive(keyrr, t)
					c := map[string]interface{}{"id": e.Id, "buf": names[bi], "offset": off, "bit": bit, "region": rg.What}
					if m1 || modified {
						sum.Mis("sig0/verify-modifies-input:tampered", fmt.Sprintf("Verify changed the octets it was given (bit %d of octet %d altered beforehand)", bit, off), c)
					}
					if p1 != "" || p2 != "" {
						sum.Mis("sig0/verify-panics:tampered:"+rg.What, "panic: "+p1+p2, c)
					} else if rg.Must == "reject" && (e1 == nil || e2 == nil) {
						sum.Mis("sig0/verify-accepts-tampered:"+rg.What, fmt.Sprintf("bit %d of octet %d (%s) altered, Verify still accepts (direct=%v, via Unpack=%v)", bit, off, rg.What, e1, e2), c)
					}
				}
			}
		}
		// every OTHER VALUE of an octet of the SIG RDATA fields (the specification: RdataFields, all "reject"): the one-octet
		// fields -- algorithm, labels -- on every message; the others on the first messages of the run that Verify accepts
		// (two; one when the curve is P-384), every value as well
		sweepAll := sweptAll < 2 && len(buf) <= 2500 && !(e.SigLen == 96 && sweptAll >= 1)
		if sweepAll {
			sweptAll++
		}
		for _, fd := range em.Fields {
			if !sweepAll && fd.To > fd.From {
				continue
			}
			for off := fd.From; off <= fd.To && off < len(buf); off++ {
				for v := 0; v < 256; v++ {
					if byte(v) == buf[off] {
						continue
					}
					t := append([]byte(nil), buf...)
					t[off] = byte(v)
					*tampered++
					sum.Evaluations++
					e1, p1 := direct(orig, keyrr, t)
					m1 := modified
					e2, p2 := receive(keyrr, t)
					c := map[string]interface{}{"id": e.Id, "buf": names[bi], "offset": off, "value": v, "field": fd.What}
					if m1 || modified {
						sum.Mis("sig0/verify-modifies-input:tampered", fmt.Sprintf("Verify changed the octets it was given (octet %d set to %d beforehand)", off, v), c)
					}
					if p1 != "" || p2 != "" {
						sum.Mis("sig0/verify-panics:octet-value:"+fd.What, fmt.Sprintf("octet %d (%s) set to %d: panic: %s%s", off, fd.What, v, p1, p2), c)
					} else if fd.Must == "reject" && (e1 == nil || e2 == nil) {
						sum.Mis("sig0/verify-accepts-altered-octet:"+fd.What, fmt.Sprintf("octet %d (%s) set to %d instead of %d, Verify still accepts (direct=%v, via Unpack=%v)", off, fd.What, v, buf[off], e1, e2), c)
					}
				}
			}
		}
		for n := 12; n < len(buf); n++ {
			if len(buf) > 2500 && n%37 != 0 && n < len(buf)-200 && (n < em.Regions[1].From-2 || n > em.Regions[2].From+2) {
				continue // long messages: every 37th length, around the SIG RR header, and the last 200
			}
			*truncated++
			sum.Evaluations++
			t := append([]byte(nil), buf[:n]...)
			e1, p1 := direct(orig, keyrr, t)
			m1 := modified
			e2, p2 := receive(keyrr, t)
			if m1 || modified {
				sum.Mis("sig0/verify-modifies-input:truncated", fmt.Sprintf("Verify changed the octets it was given (message cut to %d of %d octets)", n, len(buf)), map[string]interface{}{"id": e.Id, "buf": names[bi], "length": n, "of": len(buf)})
			}
			c := map[string]interface{}{"id": e.Id, "buf": names[bi], "length": n, "of": len(buf)}
			if p1 != "" || p2 != "" {
				sum.Mis("sig0/verify-panics:truncated", fmt.Sprintf("cut to %d of %d octets: panic: %s%s", n, len(buf), p1, p2), c)
			} else if e1 == nil || e2 == nil {
				sum.Mis("sig0/verify-accepts-truncated", fmt.Sprintf("cut to %d of %d octets, Verify still accepts", n, len(buf)), c)
			}
		}
	}
}

func otherAlg(a string, ks map[string]key) string {
	best := ""
	for n := range ks {
		if b := strings.TrimSuffix(n, "/0"); b != n && b != a && (best == "" || b < best) {
			best = b
		}
	}
	if best == "" {
		return a
	}
	return best
}

func main() {
	if len(os.Args) < 2 {
		hx.Die("usage: sig0 record|finish ...")
	}
	switch os.Args[1] {
	case "record":
		n, _ := strconv.Atoi(os.Args[4])
		only := -1
		if len(os.Args) > 7 {
			only, _ = strconv.Atoi(os.Args[7])
		}
		record(os.Args[2], os.Args[3], n, strings.Split(os.Args[5], ","), os.Args[6] == "1", only)
	case "finish":
		finish(os.Args[2], os.Args[3], os.Args[4], os.Args[5])
	default:
		hx.Die("unknown mode %s", os.Args[1])
	}
}
