// Command clienttimeouts binds spec/ClientTimeouts.tla to dns.Client.
//
//	clienttimeouts replay <vectors.ndjson>     every case of Gen_ClientTimeouts against a real dns.Client
//	clienttimeouts record <out.ndjson> <n>     random numeric settings; observations go to Trace_ClientTimeouts
//	clienttimeouts reexec <in.ndjson> <out>    redo recorded events' inputs, write the fresh observations
//
// Nothing waits for a deadline.  Exchange deadlines are read off an in-memory connection as the ARGUMENT of
// Set*Deadline minus the clock at that call; the dial deadline is read off the context the TLS handshake
// runs under (tls.CertificateRequestInfo.Context, documented to descend from the dial's context) or, when the
// caller supplies the net.Dialer, off the context handed to Dialer.ControlContext -- both dials are aborted
// by the observer, nothing is ever connected further.  Observed durations are snapped to the nearest of the
// durations that occur in the case (10 %), so the microseconds between the library's time.Now() and the
// observation do not matter; a case whose observation does not fit is re-run twice before it is reported.
package main

import (
	"context"
	"crypto/ecdsa"
	"crypto/elliptic"
	"crypto/rand"
	"crypto/tls"
	"crypto/x509"
	"crypto/x509/pkix"
	"errors"
	"fmt"
	"math"
	"math/big"
	"net"
	"os"
	"strconv"
	"syscall"
	"time"

	"github.com/miekg/dns"

	"verifharness/lib/hx"
	"verifharness/lib/obsnet"
)

type Settings struct {
	Timeout int `json:"timeout"`
	Dial    int `json:"dial"`
	Read    int `json:"read"`
	Write   int `json:"write"`
	Dialer  int `json:"dialer"`
	Ctx     int `json:"ctx"`
}

type Vector struct {
	Kind string   `json:"kind"`
	Tr   string   `json:"tr"`
	Net  string   `json:"net"`
	S    Settings `json:"s"`
	Grid []int    `json:"grid"`
	Wdl  int      `json:"wdl"`
	Rdl  int      `json:"rdl"`
	Dls  []int    `json:"dls"`
	Amb  bool     `json:"ambig"`
	// buf
	Opt     bool  `json:"opt"`
	OptSize int   `json:"optsize"`
	Client  int   `json:"client"`
	Conn    int   `json:"conn"`
	Sizes   []int `json:"sizes"`
}

// Event is one recorded observation (Trace_ClientTimeouts).
type Event struct {
	Ev      string    `json:"ev"`
	Tr      string    `json:"tr,omitempty"`
	Net     *string   `json:"net,omitempty"`
	S       *Settings `json:"s,omitempty"`
	Wdl     *int      `json:"wdl,omitempty"`
	Rdl     *int      `json:"rdl,omitempty"`
	Dl      *int      `json:"dl,omitempty"`
	Opt     *bool     `json:"opt,omitempty"`
	OptSize *int      `json:"optsize,omitempty"`
	Client  *int      `json:"client,omitempty"`
	Conn    *int      `json:"conn,omitempty"`
	Size    *int      `json:"size,omitempty"`
}

func ip(i int) *int { return &i }

const (
	none    = -1 // no deadline
	offGrid = -2 // a deadline that is near none of the case's durations
)

func ms(n int) time.Duration { return time.Duration(n) * time.Millisecond }

// snap maps an observed relative deadline to the nearest grid duration (within 10 %).
func snap(d time.Duration, grid []int) int {
	for _, g := range grid {
		if g > 0 && math.Abs(float64(d-ms(g))) <= 0.1*float64(ms(g)) {
			return g
		}
	}
	return offGrid
}

func snapRel(r obsnet.Rel, has bool, grid []int) int {
	if !has || r.Zero {
		return none
	}
	return snap(r.D, grid)
}

func gridOf(s Settings) []int {
	g := []int{2000}
	for _, x := range []int{s.Timeout, s.Dial, s.Read, s.Write, s.Dialer, s.Ctx} {
		if x > 0 {
			g = append(g, x)
		}
	}
	return g
}

func clientOf(s Settings) *dns.Client {
	c := &dns.Client{Timeout: ms(s.Timeout), DialTimeout: ms(s.Dial), ReadTimeout: ms(s.Read), WriteTimeout: ms(s.Write)}
	if s.Dialer >= 0 {
		c.Dialer = &net.Dialer{Timeout: ms(s.Dialer)}
	}
	return c
}

func ctxOf(s Settings) (context.Context, context.CancelFunc) {
	if s.Ctx > 0 {
		return context.WithTimeout(context.Background(), ms(s.Ctx))
	}
	return context.WithCancel(context.Background())
}

// echo answers a query with itself, QR set (off = position of the DNS header in the written octets).
func echo(off int) func([]byte) []byte {
	return func(w []byte) []byte {
		if len(w) < off+12 {
			return nil
		}
		w[off+2] |= 0x80
		return w
	}
}

// exchange runs ExchangeWithConnContext on an in-memory connection and reports the deadlines in force at
// the first Write and the first Read, and the size of the first Read's buffer.
func exchange(s Settings, tr string, grid []int, m *dns.Msg, c *dns.Client, connSize int) (wdl, rdl, size int, err error) {
	var raw *obsnet.ClientConn
	co := &dns.Conn{UDPSize: uint16(connSize)}
	if tr == "pc" {
		p := obsnet.NewPacketClient(echo(0))
		raw, co.Conn = p.ClientConn, p
	} else {
		raw = obsnet.NewClientConn(echo(2))
		co.Conn = raw
	}
	ctx, cancel := ctxOf(s)
	defer cancel()
	_, _, err = c.ExchangeWithConnContext(ctx, m, co)
	wdl, rdl, size = offGrid, offGrid, -1
	seenW, seenR := false, false
	for _, cl := range raw.Calls() {
		if cl.Kind == "write" && !seenW {
			seenW, wdl = true, snapRel(cl.Deadline, cl.HasDL, grid)
		}
		if cl.Kind == "read" && !seenR {
			seenR, rdl, size = true, snapRel(cl.Deadline, cl.HasDL, grid), cl.N
		}
	}
	return
}

func query() *dns.Msg {
	m := new(dns.Msg)
	m.SetQuestion("x.", dns.TypeA)
	return m
}

// ---------------------------------------------------------------- dial observation

var (
	tlsAddr string
	errStop = errors.New("clienttimeouts: observed, stop")
)

// startTLS starts a loopback TLS listener that asks for a client certificate.
func startTLS() {
	key, err := ecdsa.GenerateKey(elliptic.P256(), rand.Reader)
	if err != nil {
		hx.Die("key: %v", err)
	}
	tmpl := &x509.Certificate{SerialNumber: big.NewInt(1), Subject: pkix.Name{CommonName: "x07"},
		NotBefore: time.Now().Add(-time.Hour), NotAfter: time.Now().Add(24 * time.Hour),
		IPAddresses: []net.IP{net.IPv4(127, 0, 0, 1)}}
	der, err := x509.CreateCertificate(rand.Reader, tmpl, tmpl, &key.PublicKey, key)
	if err != nil {
		hx.Die("cert: %v", err)
	}
	cfg := &tls.Config{Certificates: []tls.Certificate{{Certificate: [][]byte{der}, PrivateKey: key}}, ClientAuth: tls.RequestClientCert}
	ln, err := tls.Listen("tcp", "127.0.0.1:0", cfg)
	if err != nil {
		hx.Die("tls listen: %v", err)
	}
	tlsAddr = ln.Addr().String()
	go func() {
		for {
			c, err := ln.Accept()
			if err != nil {
				return
			}
			go func() {
				c.SetDeadline(time.Now().Add(30 * time.Second))
				c.(*tls.Conn).Handshake()
				c.Close()
			}()
		}
	}()
}

// dial runs DialContext and reports the deadline the dial ran under.
func dial(s Settings, network string, grid []int) (dl int, how string) {
	c := clientOf(s)
	c.Net = network
	dl = offGrid
	seen := false
	see := func(ctx context.Context) {
		if seen {
			return
		}
		seen = true
		if t, ok := ctx.Deadline(); ok {
			dl = snap(time.Until(t), grid)
		} else {
			dl = none
		}
	}
	ctx, cancel := ctxOf(s)
	defer cancel()
	if network == "tcp-tls" {
		c.TLSConfig = &tls.Config{InsecureSkipVerify: true, GetClientCertificate: func(cri *tls.CertificateRequestInfo) (*tls.Certificate, error) {
			see(cri.Context())
			return nil, errStop
		}}
		co, err := c.DialContext(ctx, tlsAddr)
		if co != nil {
			co.Close()
		}
		if !seen {
			hx.Die("TLS dial ended without the certificate request being seen: %v", err)
		}
		return dl, "tls"
	}
	if c.Dialer == nil {
		hx.Die("a non-TLS dial is only observable through the caller's Dialer")
	}
	c.Dialer.ControlContext = func(ctx context.Context, network, address string, _ syscall.RawConn) error {
		see(ctx)
		return errStop
	}
	co, err := c.DialContext(ctx, "127.0.0.1:53")
	if co != nil {
		co.Close()
	}
	if !seen {
		hx.Die("dial ended without ControlContext being called: %v", err)
	}
	return dl, "control"
}

// ---------------------------------------------------------------- modes

func in(x int, xs []int) bool {
	for _, y := range xs {
		if x == y {
			return true
		}
	}
	return false
}

func dialerClass(s Settings) string {
	switch {
	case s.Dialer < 0:
		return "dialer-nil"
	case s.Dialer == 0:
		return "dialer-timeout-unset"
	default:
		return "dialer-timeout-set"
	}
}

func replay(path string, sum *hx.Summary) {
	hx.ReadNDJSON(path, func(i int, v *Vector) {
		sum.Evaluations++
		switch v.Kind {
		case "xchg":
			var wdl, rdl int
			var err error
			for try := 0; try < 3; try++ { // an observation that does not fit must reproduce
				wdl, rdl, _, err = exchange(v.S, v.Tr, v.Grid, query(), clientOf(v.S), 0)
				if wdl == v.Wdl && rdl == v.Rdl {
					break
				}
			}
			if err != nil {
				sum.Mis("client/xchg:error:"+v.Tr, fmt.Sprintf("the exchange over the in-memory connection failed: %v", err), v)
			}
			if wdl != v.Wdl {
				sum.Mis("client/xchg:write-deadline:"+dialerClass(v.S)+":"+v.Tr,
					fmt.Sprintf("write deadline in force at the first Write: %d ms, the specification says %d ms (-1 none, -2 other)", wdl, v.Wdl), v)
			}
			if rdl != v.Rdl {
				sum.Mis("client/xchg:read-deadline:"+dialerClass(v.S)+":"+v.Tr,
					fmt.Sprintf("read deadline in force at the first Read: %d ms, the specification says %d ms (-1 none, -2 other)", rdl, v.Rdl), v)
			}
			if i%1999 == 0 {
				sum.Sample(map[string]interface{}{"case": v, "wdl": wdl, "rdl": rdl})
			}
		case "dial":
			var dl int
			var how string
			for try := 0; try < 3; try++ {
				dl, how = dial(v.S, v.Net, v.Grid)
				if in(dl, v.Dls) {
					break
				}
			}
			if !in(dl, v.Dls) {
				sum.Mis("client/dial:deadline:"+dialerClass(v.S)+":"+how,
					fmt.Sprintf("the dial ran under a deadline of %d ms, the specification admits %v (-1 none, -2 other)", dl, v.Dls), v)
			}
			if i%499 == 0 {
				sum.Sample(map[string]interface{}{"case": v, "dl": dl, "via": how})
			}
		case "buf":
			m := query()
			if v.Opt {
				m.SetEdns0(uint16(v.OptSize), false)
			}
			c := &dns.Client{UDPSize: uint16(v.Client), Timeout: time.Hour}
			_, _, size, err := exchange(Settings{Timeout: 3600000}, "pc", []int{3600000}, m, c, v.Conn)
			if err != nil {
				sum.Mis("client/buf:error", fmt.Sprintf("the exchange over the in-memory connection failed: %v", err), v)
			}
			if !in(size, v.Sizes) {
				cls := "no-opt"
				if v.Opt {
					cls = "opt>=512"
					if v.OptSize < 512 {
						cls = "opt<512"
					}
				}
				sum.Mis("client/buf:size:"+cls, fmt.Sprintf("the datagram Read was offered %d octets, the specification admits %v", size, v.Sizes), v)
			}
		default:
			hx.Die("unknown vector kind %q", v.Kind)
		}
	})
	sum.Nontrivial = sum.Evaluations
}

func record(out string, n int, sum *hx.Summary) {
	rng := hx.Rand()
	w := hx.NewWriter(out)
	defer w.Close()
	// distinct whole seconds between 5 s and 10 h, at least 25 % apart so that snapping is unambiguous
	dur := func(used *[]int) int {
		for {
			d := (5 + rng.Intn(36000)) * 1000
			ok := true
			for _, u := range append(*used, 2000) {
				lo, hi := float64(u)*0.75, float64(u)*1.25
				if float64(d) >= lo && float64(d) <= hi {
					ok = false
				}
			}
			if ok {
				*used = append(*used, d)
				return d
			}
		}
	}
	maybe := func(p int, used *[]int) int {
		if rng.Intn(100) < p {
			return dur(used)
		}
		return 0
	}
	for i := 0; i < n; i++ {
		var used []int
		s := Settings{Timeout: maybe(35, &used), Dial: maybe(50, &used), Read: maybe(60, &used), Write: maybe(60, &used), Ctx: maybe(50, &used)}
		switch rng.Intn(3) {
		case 0:
			s.Dialer = -1
		case 1:
			s.Dialer = 0
		default:
			s.Dialer = dur(&used)
		}
		grid := gridOf(s)
		switch k := rng.Intn(10); {
		case k < 5:
			tr := []string{"pc", "stream"}[rng.Intn(2)]
			var wdl, rdl int
			for try := 0; try < 3; try++ { // an observation near none of the durations involved must reproduce
				if wdl, rdl, _, _ = exchange(s, tr, grid, query(), clientOf(s), 0); wdl != offGrid && rdl != offGrid {
					break
				}
			}
			sc := s
			w.Emit(Event{Ev: "xchg", Tr: tr, S: &sc, Wdl: ip(wdl), Rdl: ip(rdl)})
		case k < 7:
			network := []string{"tcp-tls", "tcp", "udp", ""}[rng.Intn(4)]
			if s.Dialer < 0 {
				network = "tcp-tls"
			}
			var dl int
			for try := 0; try < 3; try++ {
				if dl, _ = dial(s, network, grid); dl != offGrid {
					break
				}
			}
			sc := s
			w.Emit(Event{Ev: "dial", Net: &network, S: &sc, Dl: ip(dl)})
		default:
			opt := rng.Intn(2) == 0
			sz := func() int {
				switch rng.Intn(4) {
				case 0:
					return 0
				case 1:
					return 505 + rng.Intn(15)
				default:
					return rng.Intn(65536)
				}
			}
			os, cl, co := sz(), sz(), sz()
			if !opt {
				os = 0
			}
			m := query()
			if opt {
				m.SetEdns0(uint16(os), rng.Intn(2) == 0)
			}
			c := &dns.Client{UDPSize: uint16(cl), Timeout: time.Hour}
			_, _, size, _ := exchange(Settings{Timeout: 3600000}, "pc", []int{3600000}, m, c, co)
			w.Emit(Event{Ev: "buf", Opt: &opt, OptSize: ip(os), Client: ip(cl), Conn: ip(co), Size: ip(size)})
		}
		sum.Evaluations++
	}
	sum.Nontrivial = n
}

// reexec redoes the inputs of recorded events.
func reexec(inp, out string, sum *hx.Summary) {
	w := hx.NewWriter(out)
	defer w.Close()
	hx.ReadNDJSON(inp, func(i int, e *Event) {
		sum.Evaluations++
		switch e.Ev {
		case "xchg":
			wdl, rdl, _, _ := exchange(*e.S, e.Tr, gridOf(*e.S), query(), clientOf(*e.S), 0)
			w.Emit(Event{Ev: "xchg", Tr: e.Tr, S: e.S, Wdl: ip(wdl), Rdl: ip(rdl)})
		case "dial":
			dl, _ := dial(*e.S, *e.Net, gridOf(*e.S))
			w.Emit(Event{Ev: "dial", Net: e.Net, S: e.S, Dl: ip(dl)})
		case "buf":
			m := query()
			if *e.Opt {
				m.SetEdns0(uint16(*e.OptSize), false)
			}
			c := &dns.Client{UDPSize: uint16(*e.Client), Timeout: time.Hour}
			_, _, size, _ := exchange(Settings{Timeout: 3600000}, "pc", []int{3600000}, m, c, *e.Conn)
			w.Emit(Event{Ev: "buf", Opt: e.Opt, OptSize: e.OptSize, Client: e.Client, Conn: e.Conn, Size: ip(size)})
		}
	})
}

func main() {
	if len(os.Args) < 3 {
		hx.Die("usage: clienttimeouts replay <vectors> | record <out> <n> | reexec <in> <out>")
	}
	startTLS()
	var sum hx.Summary
	switch os.Args[1] {
	case "replay":
		replay(os.Args[2], &sum)
	case "record":
		n := 1000
		if len(os.Args) > 3 {
			n, _ = strconv.Atoi(os.Args[3])
		}
		record(os.Args[2], n, &sum)
	case "reexec":
		reexec(os.Args[2], os.Args[3], &sum)
	default:
		hx.Die("unknown mode %s", os.Args[1])
	}
	sum.Print()
}
