// Command xfr binds spec/Xfr.tla to the real zone-transfer code (property C15).
//
//	xfr replay <vectors.ndjson>          MC_Xfr behaviours (stream, partition, fault, expected observation) ->
//	                                     real Transfer.In over a scripted in-memory connection
//	xfr record in  <out.ndjson> <n>      random larger transfers / partitions / faults through Transfer.In,
//	                                     inputs and observations logged for Trace_Xfr
//	xfr record out <out.ndjson> <n>      a real dns.Server (in-memory listener) whose handler runs Transfer.Out:
//	                                     the octets of every envelope on the wire are logged for Trace_Tsig
//	                                     (<out.ndjson>: q / env / verify events) and their records for Trace_Xfr
//	                                     (<out.ndjson>.xfr: out events)
//
// The expected observation always comes from the specification (vector fields, or TLC judging the event).
package main

import (
	"encoding/base64"
	"encoding/binary"
	"encoding/hex"
	"fmt"
	"os"
	"strconv"
	"strings"
	"sync"
	"time"

	"github.com/miekg/dns"

	"verifharness/lib/hx"
	"verifharness/lib/pipe"
)

func main() {
	if len(os.Args) < 3 {
		hx.Die("usage: xfr replay <vectors> | record in|out <out> <n>")
	}
	switch os.Args[1] {
	case "replay":
		replay(os.Args[2])
	case "record":
		n, _ := strconv.Atoi(os.Args[4])
		switch os.Args[2] {
		case "in":
			recordIn(os.Args[3], n)
		case "out":
			recordOut(os.Args[3], n)
		default:
			hx.Die("unknown recorder %s", os.Args[2])
		}
	default:
		hx.Die("unknown mode %s", os.Args[1])
	}
}

// ---------------------------------------------------------------- vocabulary

const (
	zone    = "example."
	keyName = "xfr.example."
	keyAlg  = dns.HmacSHA256
)

var (
	secretGood = base64.StdEncoding.EncodeToString([]byte("the transfer key 0123456789"))
	secretBad  = base64.StdEncoding.EncodeToString([]byte("not the transfer key"))
)

// A record of the specification: [1, hi, lo] = SOA(serial), [0, id] = Rec(id).
type rec []int

func serialOf(hi, lo int) uint32 { return uint32(hi)<<16 | uint32(lo) }

const fatRec = 1000

// spelled: the zone name in one of the specification's Spellings (Xfr!Spellings; "" = lower).
func spelled(how string) string {
	switch how {
	case "upper":
		return strings.ToUpper(zone)
	case "mixed", "mixed2":
		b := []byte(zone)
		for i := range b {
			if (i%2 == 0) == (how == "mixed") && b[i] >= 'a' && b[i] <= 'z' {
				b[i] -= 'a' - 'A'
			}
		}
		return string(b)
	case "", "lower":
		return zone
	}
	hx.Die("unknown spelling %q", how)
	return ""
}

func toRR(r rec) dns.RR { return toRRz(r, zone) }

// toRRz: the record of the zone whose name is spelled z.
func toRRz(r rec, z string) dns.RR {
	var s string
	if r[0] == 1 {
		s = fmt.Sprintf("%s 3600 IN SOA ns.example. host.example. %d 7200 3600 1209600 3600", z, serialOf(r[1], r[2]))
	} else {
		s = fmt.Sprintf("r%d.%s 3600 IN TXT \"record %d\"", r[1], z, r[1])
		if r[1] >= fatRec { // a record of about 800 octets: ninety of them do not fit one message
			x := strings.Repeat("x", 255)
			s += fmt.Sprintf(" \"%s\" \"%s\" \"%s\"", x, x, x)
		}
	}
	rr, err := dns.NewRR(s)
	if err != nil {
		hx.Die("NewRR(%q): %v", s, err)
	}
	return rr
}

// fromRR projects a received record back to the specification's vocabulary ([2] = anything else).
func fromRR(rr dns.RR) rec { return fromRRz(rr, zone) }

// fromRRz: the owner names must come out in the spelling z in which they were sent.
func fromRRz(rr dns.RR, z string) rec {
	switch x := rr.(type) {
	case *dns.SOA:
		if x.Hdr.Name != z {
			return rec{2}
		}
		return rec{1, int(x.Serial >> 16), int(x.Serial & 0xffff)}
	case *dns.TXT:
		var id int
		if _, err := fmt.Sscanf(x.Hdr.Name, "r%d."+z, &id); err == nil && x.Hdr.Name == fmt.Sprintf("r%d.%s", id, z) && len(x.Txt) >= 1 && x.Txt[0] == fmt.Sprintf("record %d", id) &&
			((id < fatRec && len(x.Txt) == 1) || (id >= fatRec && len(x.Txt) == 4 && len(x.Txt[1])+len(x.Txt[2])+len(x.Txt[3]) == 765)) {
			return rec{0, id}
		}
	}
	return rec{2}
}

func fromRRs(rrs []dns.RR) []rec { return fromRRsz(rrs, zone) }

func fromRRsz(rrs []dns.RR, z string) []rec {
	out := []rec{}
	for _, rr := range rrs {
		out = append(out, fromRRz(rr, z))
	}
	return out
}

func sameRecs(a, b []rec) bool {
	if len(a) != len(b) {
		return false
	}
	for i := range a {
		if len(a[i]) != len(b[i]) {
			return false
		}
		for j := range a[i] {
			if a[i][j] != b[i][j] {
				return false
			}
		}
	}
	return true
}

// ---------------------------------------------------------------- the scripted sender

type fault struct {
	Kind string `json:"kind"`
	Pos  int    `json:"pos"`
}

// envelope as sent: what the specification needs to know about it (Trace_Xfr), and its octets
type envelope struct {
	Recs  []rec `json:"recs"`
	ID    bool  `json:"id"`
	Rcode int   `json:"rcode"`
	Sig   []int `json:"sig"` // [] or [key, mid of the envelope chained on, timers, intact]
	Mid   int   `json:"mid"`
	Cut   bool  `json:"cut"`
	Gap   int   `json:"gap"` // ticks between the moment the receiver starts to wait for the envelope and its arrival
	wire  []byte
}

type script struct {
	mode   string
	q      [2]int
	chunks [][]rec
	tsig   bool
	faults []fault
	tail   bool
	cutAt  int  // where the frame of a "cut" envelope ends: n > 0 after n octets, 0 in the middle, n < 0 -n octets short
	eof    bool // after the script: connection closed (true) or silent (false)
	// how the stream reaches the reader (TCP segmentation): "" as fed, "byte" one octet per read, "prefix" a segment
	// boundary between the two length octets of every envelope, "at" a single boundary at stream offset segAt
	seg   string
	segAt int
	// envelope fatEnv (1-based, 0 = none) is padded to exactly fatSize wire octets (TSIG included) with a filler TXT
	// record in the additional section: the answer section, hence the transfer, is unchanged
	fatEnv, fatSize int
	// the consumer of the channel pauses for `pause' after it received its slowAfter-th envelope (0 = never);
	// the transfer runs with ReadTimeout = readTimeout (0 = default)
	qd          string // question section of every envelope after the first: "" as in the query, "none" omitted, "two" two questions
	slowAfter   int
	pause       time.Duration
	readTimeout time.Duration
	// the zone name as spelled in the query / in the owner names of the answer (Xfr!Spellings; "" = lower)
	spellQ, spellA string
	// the pace of the sender, in ticks of the specification (Xfr!TimeoutTicks = the transfer's ReadTimeout): every envelope
	// arrives `pace' ticks after the receiver started to wait for it, the envelopes of a "stall" fault stallTicks; the clock
	// is virtual (timedConn), a tick stands for a minute
	pace, stallTicks, timeoutTicks int
	gaps                           []int // recorder: the gap of every envelope built (overrides pace)
	guard                          time.Duration
}

func (s *script) timed() bool { return s.timeoutTicks > 0 }

// guardFor: how long run waits for the channel to be closed before it calls the run a hang (wall clock).
func (s *script) guardFor() time.Duration {
	if s.guard > 0 {
		return s.guard
	}
	return 30 * time.Second
}

const tick = time.Minute

// timedConn puts a virtual clock under the scripted connection: frame k of the script arrives at arrive[k]; a Read that
// has to wait for it does not sleep, it moves the clock -- to the arrival, or to the read deadline if that comes first
// (then it fails with the deadline error, as a socket does).  A deadline set by the code under test (a real instant,
// time.Now() + timeout) is taken as "so much from now" on the virtual clock, so the only real time that enters is what
// the code spends between computing the deadline and setting it: nothing, against ticks of a minute.
type timedConn struct {
	*pipe.Conn
	mu     sync.Mutex
	starts []int           // stream offset of the first octet of every frame
	arrive []time.Duration // virtual time at which it is there
	vnow   time.Duration
	vdl    time.Duration
	hasDL  bool
	everDL bool // some deadline was set on the connection: the code under test bounds its reads through the connection
	pos    int
}

func (c *timedConn) SetReadDeadline(t time.Time) error {
	c.mu.Lock()
	defer c.mu.Unlock()
	c.hasDL = !t.IsZero()
	if c.hasDL {
		c.everDL = true
		c.vdl = c.vnow + time.Until(t)
	}
	return nil
}

func (c *timedConn) SetDeadline(t time.Time) error { return c.SetReadDeadline(t) }

func (c *timedConn) Read(p []byte) (int, error) {
	c.mu.Lock()
	k := -1
	for i, st := range c.starts {
		if st <= c.pos {
			k = i
		}
	}
	if k >= 0 && c.arrive[k] > c.vnow {
		if c.hasDL && c.arrive[k] > c.vdl {
			if c.vdl > c.vnow {
				c.vnow = c.vdl
			}
			c.mu.Unlock()
			return 0, os.ErrDeadlineExceeded
		}
		c.vnow = c.arrive[k]
	}
	c.mu.Unlock()
	n, err := c.Conn.Read(p)
	c.mu.Lock()
	c.pos += n
	c.mu.Unlock()
	return n, err
}

// macShapes: fault kind -> number of MAC octets kept, given the length of the full MAC
var macShapes = map[string]func(int) int{
	"macempty":  func(n int) int { return 0 },
	"mac1":      func(n int) int { return 1 },
	"mac9":      func(n int) int { return 9 },
	"mac10":     func(n int) int { return 10 },
	"machalf":   func(n int) int { return n / 2 },
	"macminus1": func(n int) int { return n - 1 },
	"macext":    func(n int) int { return n + 1 },
}

func has(fs []fault, kind string, pos int) bool {
	for _, f := range fs {
		if f.Kind == kind && f.Pos == pos {
			return true
		}
	}
	return false
}

func query(s *script) *dns.Msg {
	q := new(dns.Msg)
	if s.mode == "ixfr" {
		q.SetIxfr(spelled(s.spellQ), serialOf(s.q[0], s.q[1]), "ns.example.", "host.example.")
	} else {
		q.SetAxfr(spelled(s.spellQ))
	}
	q.Id = 0x5151
	if s.tsig {
		q.SetTsig(keyName, keyAlg, 300, time.Now().Unix())
	}
	return q
}

// build produces what the network delivers for the query on the wire: the envelopes with their octets,
// after the faults of the script.
func build(s *script, queryOctets []byte) []envelope {
	qm := new(dns.Msg)
	if err := qm.Unpack(queryOctets); err != nil {
		hx.Die("the query written by Transfer.In does not unpack: %v", err)
	}
	prevMAC := ""
	if s.tsig {
		if qm.IsTsig() == nil {
			hx.Die("Transfer.In sent an unsigned query although a key is configured")
		}
		prevMAC = qm.IsTsig().MAC
	}
	chunks := append([][]rec(nil), s.chunks...)
	if s.tail {
		chunks = append(chunks, []rec{{0, 77}})
	}
	now := time.Now().Unix()
	var envs []envelope
	for i := 1; i <= len(chunks); i++ {
		e := envelope{Recs: append([]rec{}, chunks[i-1]...), ID: true, Mid: i, Sig: []int{}, Gap: s.pace}
		if i <= len(s.gaps) {
			e.Gap = s.gaps[i-1]
		}
		if has(s.faults, "stall", i) {
			e.Gap = s.stallTicks
		}
		if i == 1 && has(s.faults, "nosoa", 1) && len(e.Recs) > 0 {
			e.Recs[0] = rec{0, 0}
		}
		m := new(dns.Msg)
		m.SetReply(qm)
		m.Extra = nil
		m.Ns = nil
		m.Authoritative = true
		if i > 1 { // RFC 5936 2.2.2: only the first message must repeat the question
			switch s.qd {
			case "none":
				m.Question = nil
			case "two":
				m.Question = append(m.Question, dns.Question{Name: "second." + zone, Qtype: dns.TypeTXT, Qclass: dns.ClassINET})
			}
		}
		for _, r := range e.Recs {
			m.Answer = append(m.Answer, toRRz(r, spelled(s.spellA)))
		}
		if has(s.faults, "rcode", i) {
			m.Rcode, e.Rcode = dns.RcodeServerFailure, 2
		}
		if has(s.faults, "id", i) {
			m.Id, e.ID = qm.Id+1, false
		}
		var out []byte
		var err error
		emit := func() string { // packs (and signs) m as it stands; returns the MAC
			if !s.tsig {
				out, err = m.Pack()
				return ""
			}
			sec := secretGood
			if has(s.faults, "wrongkey", i) {
				sec = secretBad
			}
			m.SetTsig(keyName, keyAlg, 300, now)
			var mac string
			out, mac, err = dns.TsigGenerate(m, sec, prevMAC, i > 1) // (removes the TSIG stub from m again)
			return mac
		}
		mac := emit()
		if err == nil && i == s.fatEnv && s.fatSize > len(out)+16 {
			m.Extra = append(m.Extra, filler(s.fatSize-len(out)))
			mac = emit()
			if err == nil && len(out) != s.fatSize {
				hx.Die("padding envelope %d to %d octets gave %d", i, s.fatSize, len(out))
			}
		}
		if err != nil {
			hx.Die("building envelope %d: %v", i, err)
		}
		if s.tsig {
			key, timers := 1, 0
			if has(s.faults, "wrongkey", i) {
				key = 2
			}
			if i > 1 {
				timers = 1
			}
			prevMAC = mac
			e.Sig = []int{key, i - 1, timers, 1}
		}
		if has(s.faults, "hdrid", i) { // the header ID rewritten on the way, the TSIG's original ID untouched: the MAC still verifies
			binary.BigEndian.PutUint16(out, qm.Id+1)
			e.ID = false
		}
		if has(s.faults, "alter", i) {
			out[3] ^= 0x80 // the RA flag: the message still parses, its content is no longer what was signed
			e.Sig[3] = 0
		}
		for kind, keep := range macShapes {
			if !has(s.faults, kind, i) {
				continue
			}
			m2 := new(dns.Msg)
			if err := m2.Unpack(out); err != nil || m2.IsTsig() == nil {
				hx.Die("cannot reshape the MAC of envelope %d: %v", i, err)
			}
			t := m2.IsTsig()
			cut := len(out) - dns.Len(t)
			mac, _ := hex.DecodeString(t.MAC)
			full := len(mac)
			n := keep(full)
			for len(mac) < n {
				mac = append(mac, 0x5a)
			}
			t.MAC, t.MACSize = hex.EncodeToString(mac[:n]), uint16(n)
			buf := make([]byte, dns.Len(t)+16)
			off, err := dns.PackRR(t, buf, 0, nil, false)
			if err != nil {
				hx.Die("repacking the TSIG of envelope %d: %v", i, err)
			}
			out = append(append([]byte(nil), out[:cut]...), buf[:off]...)
			if n >= 10 && 2*n >= full && n < full && e.Sig[3] == 1 { // RFC 8945 5.2.2.1: an admissible truncation (AMBIG)
				e.Sig[3] = 2
			} else {
				e.Sig[3] = 0
			}
		}
		if has(s.faults, "unsign", i) {
			m2 := new(dns.Msg)
			if err := m2.Unpack(out); err != nil || m2.IsTsig() == nil {
				hx.Die("cannot unsign envelope %d: %v", i, err)
			}
			cut := len(out) - dns.Len(m2.IsTsig())
			out = append([]byte(nil), out[:cut]...)
			binary.BigEndian.PutUint16(out[10:], binary.BigEndian.Uint16(out[10:])-1)
			e.Sig = []int{}
		}
		e.wire = out
		envs = append(envs, e)
	}
	for _, f := range s.faults {
		i := f.Pos - 1
		switch f.Kind {
		case "drop":
			envs = append(envs[:i:i], envs[i+1:]...)
		case "dup":
			envs = append(envs[:i+1:i+1], envs[i:]...)
		case "swap":
			envs[i], envs[i+1] = envs[i+1], envs[i]
		case "close":
			envs = envs[:i:i]
		case "cut":
			envs = envs[: i+1 : i+1]
			envs[i].Cut = true
		}
	}
	return envs
}

// filler: a TXT record "pad.example." that takes exactly n wire octets (n >= 24).
func filler(n int) dns.RR {
	t := &dns.TXT{Hdr: dns.RR_Header{Name: "pad." + zone, Rrtype: dns.TypeTXT, Class: dns.ClassINET, Ttl: 0}}
	rd := n - (len("pad."+zone) + 1 + 10) // owner name on the wire, type, class, ttl, rdlength
	if rd < 1 {
		hx.Die("filler of %d octets", n)
	}
	for rd > 256 {
		t.Txt = append(t.Txt, strings.Repeat("x", 255))
		rd -= 256
	}
	t.Txt = append(t.Txt, strings.Repeat("x", rd-1)) // 1 .. 256 octets left: a string of 0 .. 255 characters
	return t
}

type observation struct {
	Delivered [][]rec `json:"delivered"`
	Err       bool    `json:"err"`
	ErrText   string  `json:"errtext"`
	ChClosed  bool    `json:"chclosed"`
	ConnClose bool    `json:"connclosed"`
	Extra     int     `json:"extra"`  // envelopes received after an error envelope
	Unread    int     `json:"unread"` // scripted octets nobody read
	// a timed run in which the code never set a deadline on the connection: if it bounds its reads at all it does so by
	// other means (a timer of its own), which the virtual clock cannot see -- a stall is then not judged
	unbound bool
}

// run executes one script against the real Transfer.In and returns what a user of the channel sees.
func run(s *script) (envs []envelope, frames [][]byte, obs observation, fatal string) {
	fc := pipe.New()
	tc := &timedConn{Conn: fc}
	fc.OnWrite = func(c *pipe.Conn, p []byte) {
		if len(p) < 2 {
			hx.Die("short write from Transfer.In")
		}
		envs = build(s, p[2:])
		off := 0
		for _, e := range envs {
			fr := pipe.Frame(e.wire)
			if e.Cut {
				at := s.cutAt
				if at < 0 {
					at += len(fr)
				}
				if at <= 0 || at >= len(fr) {
					at = len(fr) / 2
				}
				fr = fr[:at]
			}
			if s.seg == "prefix" { // a segment ends after the first length octet of this envelope
				c.Bounds = append(c.Bounds, off+1)
			}
			if s.timed() { // the frame arrives e.Gap ticks after the previous one was read
				at := time.Duration(e.Gap) * tick
				if n := len(tc.arrive); n > 0 {
					at += tc.arrive[n-1]
				}
				tc.starts, tc.arrive = append(tc.starts, off), append(tc.arrive, at)
				c.Bounds = append(c.Bounds, off)
			}
			off += len(fr)
			frames = append(frames, fr)
			c.Feed(fr)
		}
		switch s.seg {
		case "byte":
			c.MaxRead = 1
		case "at":
			c.Bounds = []int{s.segAt}
		}
		c.EOF = s.eof
	}
	tr := &dns.Transfer{Conn: &dns.Conn{Conn: fc}, ReadTimeout: s.readTimeout}
	if s.timed() {
		tr = &dns.Transfer{Conn: &dns.Conn{Conn: tc}, ReadTimeout: time.Duration(s.timeoutTicks) * tick}
	}
	if s.tsig {
		tr.TsigSecret = map[string]string{keyName: secretGood}
	}
	ch, err := tr.In(query(s), "pipe")
	if err != nil {
		return envs, frames, obs, "Transfer.In: " + err.Error()
	}
	obs.Delivered = [][]rec{}
	got := 0
	guard := time.After(s.guardFor())
	for {
		select {
		case e, ok := <-ch:
			if !ok {
				obs.ChClosed = true
				tc.mu.Lock()
				obs.unbound = s.timed() && !tc.everDL
				tc.mu.Unlock()
				obs.ConnClose = fc.IsClosed()
				obs.Unread = fc.Unread()
				return envs, frames, obs, ""
			}
			switch {
			case obs.Err:
				obs.Extra++
			case e.Error != nil:
				obs.Err, obs.ErrText = true, e.Error.Error()
			default:
				obs.Delivered = append(obs.Delivered, fromRRsz(e.RR, spelled(s.spellA)))
			}
			if got++; got == s.slowAfter {
				time.Sleep(s.pause) // a slow consumer: the transfer has to wait for it
			}
		case <-guard:
			return envs, frames, obs, "hang"
		}
	}
}

// ---------------------------------------------------------------- replay

type vec struct {
	Kind      string  `json:"kind"`
	Mode      string  `json:"mode"`
	Q         []int   `json:"q"`
	R         []rec   `json:"R"`
	Lens      []int   `json:"lens"`
	Tsig      bool    `json:"tsig"`
	Fault     fault   `json:"fault"`
	Tail      bool    `json:"tail"`
	Sq        string  `json:"sq"` // spelling of the zone name in the query / in the answer (absent = lower)
	Sa        string  `json:"sa"`
	Pace      int     `json:"pace"`    // ticks between envelopes
	Timeout   int     `json:"timeout"` // Xfr!TimeoutTicks
	Stall     int     `json:"stall"`   // the gap of a "stall" fault, in ticks
	Delivered [][]rec `json:"delivered"`
	Err       bool    `json:"err"`
	Ambig     bool    `json:"ambig"`
	Used      int     `json:"used"`
}

// scriptOf: the behaviour of a vector as a script (delivery details left to the caller).
func scriptOf(v *vec) script {
	s := script{mode: v.Mode, q: [2]int{v.Q[0], v.Q[1]}, chunks: chunksOf(v.R, v.Lens), tsig: v.Tsig, tail: v.Tail,
		spellQ: v.Sq, spellA: v.Sa, pace: v.Pace, stallTicks: v.Stall}
	if v.Fault.Kind != "none" {
		s.faults = []fault{v.Fault}
	}
	if v.Pace > 0 || v.Fault.Kind == "stall" {
		if v.Timeout <= 0 || (v.Fault.Kind == "stall" && v.Stall <= v.Timeout) {
			hx.Die("timed vector without timeout / stall ticks: %+v", *v)
		}
		s.timeoutTicks = v.Timeout
	}
	return s
}

func chunksOf(R []rec, lens []int) [][]rec {
	var out [][]rec
	off := 0
	for _, l := range lens {
		out = append(out, R[off:off+l])
		off += l
	}
	if off != len(R) {
		hx.Die("partition %v does not cover a stream of %d records", lens, len(R))
	}
	return out
}

func replay(path string) {
	var sum hx.Summary
	seen := map[string]bool{}
	var slow []*vec
	nslow := 40
	if hx.Thorough() {
		nslow = 400
	}
	hx.ReadNDJSON(path, func(i int, v *vec) {
		if len(slow) < nslow && len(v.Delivered) >= 1 && !v.Ambig && v.Pace == 0 && v.Fault.Kind != "stall" && i%(97+len(slow)) == 0 {
			slow = append(slow, v)
		}
		if v.Kind != "xfr" {
			hx.Die("unknown vector kind %q", v.Kind)
		}
		seen[fmt.Sprintf("%s|%v|%v|%v|%v|%v|%v|%s|%s|%d", v.Mode, v.Q, v.R, v.Lens, v.Tsig, v.Fault, v.Tail, v.Sq, v.Sa, v.Pace)] = true
		s := scriptOf(v)
		cuts := []int{0}
		if v.Fault.Kind == "cut" { // inside the length prefix, after it, after the header, in the middle, one octet short
			cuts = []int{1, 2, 14, 0, -1}
			if hx.Thorough() && i%29 == 0 { // ... and for a sample of the behaviours at every octet
				cuts = nil
				for c := 1; c < 260; c++ {
					cuts = append(cuts, c) // positions past the end of the frame fall back to the middle
				}
			}
		}
		try := func() {
			sum.Evaluations++
			if p := hx.Catch(func() { one(v, &s, &sum) }); p != "" {
				sum.Mis("xfr/in-"+v.Mode+":panic", "panic: "+p, v)
			}
		}
		// every behaviour: connection closed / silent at the end x stream as fed, one octet per read, a segment
		// boundary inside every length prefix
		for _, eof := range []bool{true, false} {
			for _, c := range cuts {
				s.eof, s.cutAt = eof, c
				s.seg = []string{"", "prefix", "byte"}[(i+len(cuts)+b2i(eof))%3]
				s.qd = []string{"", "none", "two", "none"}[(i/3+b2i(eof))%4]
				try()
				if len(cuts) == 1 {
					s.seg = []string{"byte", "", "prefix"}[(i+b2i(eof))%3]
					try()
				}
			}
		}
		s.eof, s.cutAt, s.seg, s.qd = i%2 == 0, 0, "", ""
		// a sample: one segment boundary at every offset of the stream
		if every := 307; (hx.Thorough() && i%61 == 0) || i%every == 0 {
			probe := s
			_, frames, _, _ := run(&probe)
			total := 0
			for _, f := range frames {
				total += len(f)
			}
			for o := 1; o < total && o < 1500; o++ {
				s.seg, s.segAt = "at", o
				try()
			}
			s.seg = ""
		}
		// a sample: one envelope (first, middle, last) padded to a size around the 4096 mark, to 16 KiB, to nearly 64 KiB
		if every := 151; (hx.Thorough() && i%41 == 0) || i%every == 0 {
			k := len(v.Lens)
			for _, pos := range uniq([]int{1, (k + 1) / 2, k}) {
				for _, size := range []int{4095, 4096, 4097, 16383, 16384, 16385, 65534, 65535} {
					if size > 60000 && pos != (i/151)%k+1 { // the largest envelopes at one position per behaviour
						continue
					}
					s.fatEnv, s.fatSize = pos, size
					s.seg = []string{"", "prefix", "byte"}[(pos+size)%3]
					if size > 20000 {
						s.seg = ""
					}
					try()
				}
			}
			s.fatEnv, s.fatSize, s.seg = 0, 0, ""
		}
		if i%1499 == 0 {
			sum.Sample(v)
		}
	})
	// slow consumers (the consumer is a process of its own in MC_Xfr: whatever its pace it gets every envelope and the
	// error): a sample of behaviours with ReadTimeout 40 ms and a consumer that pauses 300 ms after its k-th envelope, for
	// every k; the runs wait on the clock, so they go side by side
	var wg sync.WaitGroup
	var mu sync.Mutex
	for _, v := range slow {
		for k := 1; k <= len(v.Delivered); k++ {
			s := scriptOf(v)
			s.eof, s.slowAfter, s.pause, s.readTimeout = k%2 == 0, k, 300*time.Millisecond, 40*time.Millisecond
			wg.Add(1)
			go func(v *vec, s script) {
				defer wg.Done()
				var local hx.Summary
				if p := hx.Catch(func() { one(v, &s, &local) }); p != "" {
					local.Mis("xfr/in-"+v.Mode+":panic", "panic: "+p, v)
				}
				mu.Lock()
				sum.Evaluations++
				for _, m := range local.Mismatches {
					sum.Mis(strings.Replace(m.Key, "xfr/in-", "xfr/in-slow-consumer-", 1), fmt.Sprintf("consumer pausing after envelope %d: %s", s.slowAfter, m.What), m.Case)
				}
				mu.Unlock()
			}(v, s)
		}
	}
	wg.Wait()
	sum.Nontrivial = len(seen)
	sum.Print()
}

func b2i(b bool) int {
	if b {
		return 1
	}
	return 0
}

func uniq(xs []int) []int {
	var out []int
	for _, x := range xs {
		dup := x < 1
		for _, y := range out {
			dup = dup || x == y
		}
		if !dup {
			out = append(out, x)
		}
	}
	return out
}

func numeric(q []int) uint32 { return serialOf(q[0], q[1]) }

func one(v *vec, s *script, sum *hx.Summary) {
	envs, frames, obs, fatal := run(s)
	// the guard is wall-clock time: on an overloaded machine a starved process can exceed it without any hang in the
	// code -- the scripted connection is deterministic, so a real hang reproduces: two more runs with a longer guard,
	// the first one that ends is judged
	for try := 0; fatal == "hang" && try < 2; try++ {
		s2 := *s
		s2.guard = 4 * time.Minute
		envs, frames, obs, fatal = run(&s2)
	}
	if fatal == "hang" {
		sum.Mis("xfr/in-"+v.Mode+":hang", "Transfer.In did not close its channel on an in-memory connection", v)
		return
	}
	if fatal != "" {
		sum.Mis("xfr/in-"+v.Mode+":in-error", fatal, v)
		return
	}
	pre := "xfr/in-" + v.Mode + ":"
	what := fmt.Sprintf("%s of %q q=%d stream=%v (owner names under %q) partition=%v tsig=%v fault=%v tail=%v eof=%v seg=%s@%d fat=%d:%d later-questions=%q, an envelope every %d ticks, ReadTimeout %d ticks: ", v.Mode, spelled(s.spellQ), numeric(v.Q), v.R, spelled(s.spellA), v.Lens, v.Tsig, v.Fault, v.Tail, s.eof, s.seg, s.segAt, s.fatEnv, s.fatSize, s.qd, s.pace, s.timeoutTicks)
	got := fmt.Sprintf("delivered %v, error %q", obs.Delivered, obs.ErrText)
	if !obs.ChClosed || !obs.ConnClose {
		sum.Mis(pre+"not-closed", what+fmt.Sprintf("channel closed %v, connection closed %v", obs.ChClosed, obs.ConnClose), v)
		return
	}
	if obs.Extra > 0 {
		sum.Mis(pre+"envelope-after-error", what+got, v)
		return
	}
	if obs.unbound && v.Fault.Kind == "stall" {
		return
	}
	if v.Ambig { // a validly truncated MAC: RFC 8945 leaves acceptance to policy; only the closure is asserted
		return
	}
	if sameRecs2(obs.Delivered, v.Delivered) && obs.Err == v.Err {
		if !v.Err { // complete: nothing was consumed past the envelope with the closing SOA
			rest := 0
			for _, f := range frames[min(v.Used, len(frames)):] {
				rest += len(f)
			}
			if obs.Unread != rest {
				sum.Mis(pre+"read-past-end", what+fmt.Sprintf("%d scripted octets left unread, expected %d (envelopes after the closing SOA)", obs.Unread, rest), v)
			}
		}
		return
	}
	_ = envs
	// classify the discrepancy: call site + violated clause + parameter class
	server := uint32(0)
	if len(v.R) > 0 && v.R[0][0] == 1 {
		server = serialOf(v.R[0][1], v.R[0][2])
	}
	key := ""
	switch {
	case v.Mode == "ixfr" && numeric(v.Q) >= server && len(v.Lens) > 1 && !obs.Err && len(obs.Delivered) == 1 && v.Fault.Kind != "nosoa":
		// stopped after the first envelope although the server's serial is newer in RFC 1982 terms
		key = pre + "incomplete-reported-complete:client-serial-numerically>=server"
	case v.Mode == "ixfr" && numeric(v.Q) < server && len(v.R) == 1 && !v.Err && obs.Err:
		key = pre + "uptodate-answer-not-recognised:client-serial-numerically<server"
	case v.Fault.Kind == "rcode" && v.Fault.Pos > 1 && v.Mode == "axfr" && !obs.Err:
		key = pre + "rcode-not-reported:envelope>1"
	case v.Err && !obs.Err:
		key = pre + "fault-not-reported:" + v.Fault.Kind
	case !v.Err && obs.Err:
		key = pre + "error-on-clean-transfer:" + v.Fault.Kind
	default:
		key = pre + "records-differ:" + v.Fault.Kind
	}
	// parameter class of the behaviour, where it is one of the variants
	switch {
	case v.Pace > 0:
		key += ":paced-sender"
	case v.Sq != v.Sa:
		key += ":zone-name-case"
	case server == 0 && len(v.R) > 0 && v.R[0][0] == 1 && v.Fault.Kind == "none":
		key += ":server-serial-0"
	}
	sum.Mis(key, what+got+fmt.Sprintf("; specification: delivered %v, error %v", v.Delivered, v.Err), v)
}

func sameRecs2(a, b [][]rec) bool {
	if len(a) != len(b) {
		return false
	}
	for i := range a {
		if !sameRecs(a[i], b[i]) {
			return false
		}
	}
	return true
}

// ---------------------------------------------------------------- record in

type inEvent struct {
	Ev   string      `json:"ev"`
	I    int         `json:"i"`
	Mode string      `json:"mode"`
	Q    []int       `json:"q"`
	Tsig bool        `json:"tsig"`
	EOF  bool        `json:"eof"`
	Envs []envelope  `json:"envs"`
	Obs  observation `json:"obs"`
	Desc string      `json:"desc"`
}

func lim(s uint32) []int { return []int{int(s >> 16), int(s & 0xffff)} }

// recordIn: transfers beyond the bounds of MC_Xfr -- zones of up to 40 records, up to 5 difference
// sequences, random partitions (with empty envelopes), up to 2 faults -- judged by Trace_Xfr.
func recordIn(out string, n int) {
	rnd := hx.Rand()
	w := hx.NewWriter(out)
	defer w.Close()
	var sum hx.Summary
	for c := 0; c < n; c++ {
		s := script{tsig: rnd.Intn(2) == 0, eof: rnd.Intn(2) == 0, tail: rnd.Intn(5) == 0}
		// serials as offsets from a base that is, one time in three, just below 2^32: the serial then wraps
		// inside the transfer and its order differs between integers and RFC 1982
		base := uint32(rnd.Intn(1 << 30))
		if rnd.Intn(3) == 0 {
			base = uint32(1<<32 - 1 - rnd.Intn(500))
		}
		top := 10 + rnd.Intn(1000) // the server's serial is base + top (mod 2^32)
		switch rnd.Intn(12) {      // the zero value is a serial like any other
		case 0:
			base = -uint32(top) // the server's serial is exactly 0
		case 1:
			base = 0 // the client's is
		}
		serial := base + uint32(top)
		var R []rec
		id := 1
		some := func(max int) {
			for k := rnd.Intn(max + 1); k > 0; k-- {
				R = append(R, rec{0, id})
				id++
			}
		}
		soa := func(x uint32) { R = append(R, rec{1, int(x >> 16), int(x & 0xffff)}) }
		desc := ""
		switch rnd.Intn(4) {
		case 0:
			s.mode, desc = "axfr", "axfr"
			soa(serial)
			some(40)
			soa(serial)
		case 1:
			s.mode, desc = "ixfr", "ixfr up to date"
			q := serial + uint32(rnd.Intn(3)) // same or ahead
			s.q = [2]int{int(q >> 16), int(q & 0xffff)}
			soa(serial)
		case 2:
			s.mode, desc = "ixfr", "ixfr axfr-style"
			s.q = [2]int{int(base >> 16), int(base & 0xffff)}
			soa(serial)
			some(30)
			soa(serial)
		default:
			s.mode, desc = "ixfr", "ixfr incremental"
			s.q = [2]int{int(base >> 16), int(base & 0xffff)}
			soa(serial)
			k := 1 + rnd.Intn(5)
			cur := 0 // offset of the version the next difference sequence starts from
			for j := 1; j <= k && cur < top; j++ {
				soa(base + uint32(cur))
				some(6)
				next := cur + 1 + rnd.Intn(3)
				if j == k || next >= top {
					next = top
				}
				soa(base + uint32(next))
				some(6)
				cur = next
			}
			soa(serial)
		}
		// partition
		var lens []int
		for rest := len(R); rest > 0; {
			l := 1 + rnd.Intn(min(rest, 1+rnd.Intn(12)))
			lens = append(lens, l)
			rest -= l
			if rest > 0 && rnd.Intn(12) == 0 {
				lens = append(lens, 0)
			}
		}
		s.chunks = chunksOf(R, lens)
		// faults
		k := len(s.chunks)
		kinds := []string{"nosoa", "rcode", "id", "close", "cut"}
		// one transfer in three on the clock: the sender paces the envelopes (each within the read timeout of Xfr!TimeoutTicks
		// = 3 ticks, whatever that adds up to); fault "stall": silent for longer
		if rnd.Intn(3) == 0 {
			s.timeoutTicks = 3
			for i := 0; i <= k; i++ {
				s.gaps = append(s.gaps, []int{0, 1, 2, 2}[rnd.Intn(4)])
			}
			s.stallTicks = []int{4, 5, 9, 1000}[rnd.Intn(4)]
			kinds = append(kinds, "stall")
		}
		s.spellQ = []string{"lower", "lower", "upper", "mixed", "mixed2"}[rnd.Intn(5)]
		s.spellA = []string{"lower", "lower", "upper", "mixed", "mixed2"}[rnd.Intn(5)]
		if s.tsig {
			kinds = append(kinds, "alter", "unsign", "wrongkey", "drop", "dup", "swap", "hdrid", "macempty", "mac1", "mac9", "mac10", "machalf", "macminus1", "macext")
		}
		for nf := []int{0, 0, 1, 1, 1, 2}[rnd.Intn(6)]; nf > 0; nf-- {
			f := fault{Kind: kinds[rnd.Intn(len(kinds))], Pos: 1 + rnd.Intn(k)}
			switch {
			case f.Kind == "nosoa":
				f.Pos = 1
			case f.Kind == "swap" && f.Pos == k:
				continue
			}
			seq := func(k string) bool {
				return k == "drop" || k == "dup" || k == "swap" || k == "close" || k == "cut"
			}
			clash := false
			for _, g := range s.faults { // one fault that reshapes the sequence at most: positions stay meaningful
				_, gm := macShapes[g.Kind]
				_, fm := macShapes[f.Kind]
				clash = clash || (seq(g.Kind) && seq(f.Kind)) || (g.Kind == f.Kind && g.Pos == f.Pos) || (gm && fm)
			}
			if !clash {
				s.faults = append(s.faults, f)
			}
		}
		s.cutAt = 0
		if rnd.Intn(2) == 0 {
			s.cutAt = 1 + rnd.Intn(40)
		}
		s.seg = []string{"", "byte", "prefix", "at"}[rnd.Intn(4)]
		s.segAt = 1 + rnd.Intn(300)
		s.qd = []string{"", "none", "two"}[rnd.Intn(3)]
		if rnd.Intn(4) == 0 {
			s.fatEnv = 1 + rnd.Intn(k)
			s.fatSize = []int{4095, 4096, 4097, 5000, 16383, 16384, 16385, 40000, 65534, 65535}[rnd.Intn(10)]
			if s.seg == "byte" && s.fatSize > 20000 {
				s.seg = "prefix"
			}
		}
		if rnd.Intn(25) == 0 && !s.timed() { // a consumer that pauses well beyond the transfer's read timeout
			s.slowAfter, s.pause, s.readTimeout = 1+rnd.Intn(k), 250*time.Millisecond, 40*time.Millisecond
		}
		envs, _, obs, fatal := run(&s)
		for try := 0; fatal == "hang" && try < 2; try++ { // (wall-clock guard: see one)
			s.guard = 4 * time.Minute
			envs, _, obs, fatal = run(&s)
		}
		sum.Evaluations++
		if fatal != "" {
			sum.Mis("xfr/in-"+s.mode+":"+strings.SplitN(fatal, ":", 2)[0], fatal, desc)
			continue
		}
		if obs.unbound && len(s.faults) > 0 { // (a stall may be among them)
			continue
		}
		w.Emit(inEvent{Ev: "in", I: c + 1, Mode: s.mode, Q: []int{s.q[0], s.q[1]}, Tsig: s.tsig, EOF: s.eof, Envs: envs, Obs: obs,
			Desc: fmt.Sprintf("%s, %d records in %d envelopes, faults %v, tail %v, segmentation %s@%d, envelope %d padded to %d octets, consumer pausing after envelope %d, later questions %q, zone spelled %q in the query and %q in the answer, gaps %v stall %d ReadTimeout %d ticks", desc, len(R), len(lens), s.faults, s.tail, s.seg, s.segAt, s.fatEnv, s.fatSize, s.slowAfter, s.qd, spelled(s.spellQ), spelled(s.spellA), s.gaps, s.stallTicks, s.timeoutTicks)})
	}
	sum.Nontrivial = w.N
	sum.Print()
}

// ---------------------------------------------------------------- record out

type tsigEv struct {
	Ev      string         `json:"ev"`
	I       int            `json:"i"`
	What    string         `json:"what"`
	Octets  hx.B           `json:"octets"`
	Reqmac  hx.B           `json:"reqmac"`
	Timers  bool           `json:"timers"`
	Now     []int          `json:"now"`
	Via     string         `json:"via"`
	Secrets map[string]int `json:"secrets"`
	Got     string         `json:"got"`
	Signed  bool           `json:"signed"`
	Handed  []int          `json:"handed,omitempty"` // env: the clock when the envelope was handed to Transfer.Out
}

type outEvent struct {
	Ev      string  `json:"ev"`
	I       int     `json:"i"`
	Mode    string  `json:"mode"`
	Q       []int   `json:"q"`
	Chunks  [][]rec `json:"chunks"`  // what the handler fed to Transfer.Out
	Wire    [][]rec `json:"wire"`    // the answer sections observed on the wire, per message
	IDs     bool    `json:"ids"`     // every message carried the query's ID, QR and AA set, RCODE 0
	Signed  int     `json:"signed"`  // messages carrying a TSIG
	Variant string  `json:"variant"` // the request was "signed" (and verifies), signed with a "badsecret", or "unsigned"
	OutErr  bool    `json:"outerr"`  // Transfer.Out returned an error to the handler
	Desc    string  `json:"desc"`
}

func limbs48(t uint64) []int {
	return []int{int(t >> 32 & 0xffff), int(t >> 16 & 0xffff), int(t & 0xffff)}
}

// recordOut drives the sending side: a real dns.Server on an in-memory listener, handler = Transfer.Out.
// Every connection carries one to three requests back to back (RFC 5936 4.1) -- the server keeps one
// response object per TCP connection, so the second answer shows whether the per-request TSIG state
// (request MAC, timers-only switch) starts afresh.  Each answer is validated from scratch: its first
// envelope must be signed over the MAC of ITS request with the full variables, the following ones over
// the previous envelope with the timers only.
// The secrets are those of harness/cmd/tsig (`tsig judge' computes the HMACs): index 1.
func recordOut(out string, n int) {
	rnd := hx.Rand()
	w := hx.NewWriter(out)
	wx := hx.NewWriter(out + ".xfr")
	defer w.Close()
	defer wx.Close()
	var sum hx.Summary
	secret := base64.StdEncoding.EncodeToString([]byte("0123456789abcdefghij")) // = secrets[1] of cmd/tsig
	tab := map[string]int{keyName: 1}

	var mu sync.Mutex
	var feed [][]rec
	var status struct {
		err    error
		signed bool
	}
	handlerDone := make(chan struct{}, 16)
	var pauseBefore int // the handler waits 2.1 s before handing over this chunk (-1: never)
	var handed []uint64 // the clock when each chunk was handed to Transfer.Out
	var outErr error
	handler := dns.HandlerFunc(func(rw dns.ResponseWriter, req *dns.Msg) {
		mu.Lock()
		chunks, pb := feed, pauseBefore
		status.err, status.signed = rw.TsigStatus(), req.IsTsig() != nil
		mu.Unlock()
		ch := make(chan *dns.Envelope)
		tr := new(dns.Transfer)
		done := make(chan error, 1)
		go func() { done <- tr.Out(rw, req, ch) }()
		var times []uint64
		var err error
		returned := false
	feeding:
		for k, c := range chunks {
			e := &dns.Envelope{}
			for _, r := range c {
				e.RR = append(e.RR, toRR(r))
			}
			if k == pb {
				time.Sleep(2100 * time.Millisecond)
			}
			times = append(times, uint64(time.Now().Unix()))
			select {
			case ch <- e:
			case err = <-done: // Out gave up (an envelope that does not fit a message, a write error)
				returned = true
				break feeding
			}
		}
		close(ch)
		if !returned {
			err = <-done
		}
		mu.Lock()
		handed, outErr = times, err
		mu.Unlock()
		handlerDone <- struct{}{}
		if err != nil {
			rw.Close() // the transfer is aborted; otherwise the connection is left to the server loop: the next request may follow
		}
	})
	ln := pipe.NewListener()
	srv := &dns.Server{Listener: ln, Handler: handler, TsigSecret: map[string]string{keyName: secret}}
	started := make(chan struct{})
	srv.NotifyStartedFunc = func() { close(started) }
	go srv.ActivateAndServe()
	<-started
	defer srv.Shutdown()

	idx, serialNo := 0, 0
	for c := 0; c < n; c++ {
		conn, err := ln.Dial()
		if err != nil {
			hx.Die("dial: %v", err)
		}
		nreq := 1 + rnd.Intn(3)
		for rq := 0; rq < nreq; rq++ {
			// a valid transfer, randomly cut
			serial := uint32(rnd.Intn(1 << 31))
			var R []rec
			R = append(R, rec{1, int(serial >> 16), int(serial & 0xffff)})
			for k, id := rnd.Intn(12), 1; k > 0; k, id = k-1, id+1 {
				R = append(R, rec{0, id})
			}
			R = append(R, R[0])
			var lens []int
			for rest := len(R); rest > 0; {
				l := 1 + rnd.Intn(min(rest, 5))
				lens = append(lens, l)
				rest -= l
			}
			chunks := chunksOf(R, lens)
			special := ""
			switch {
			case serialNo == 0:
				// ONE transfer whose last envelope is handed over 2.1 s after the others: the time signed of every
				// envelope must be the time of ITS signing (a stub shared by all envelopes keeps the first one's)
				special = "late last envelope"
				if len(chunks) < 2 {
					chunks = [][]rec{R[:1], R[1:]}
				}
			case serialNo == 1 || rnd.Intn(12) == 0:
				// an envelope of ninety 800-octet records: it cannot be packed into one 64 KiB message; the sender must
				// say so (Out returns an error) -- or get every record across
				special = "oversized envelope"
				big := []rec{}
				for id := 0; id < 90; id++ {
					big = append(big, rec{0, fatRec + id})
				}
				chunks = [][]rec{R[:1], big, R[len(R)-1:]}
			}
			mu.Lock()
			feed, pauseBefore = chunks, -1
			if special == "late last envelope" {
				pauseBefore = len(chunks) - 1
			}
			mu.Unlock()
			// the signing of the request: honest (mostly), wrong secret, or none
			variant := []string{"signed", "signed", "signed", "signed", "badsecret", "unsigned"}[rnd.Intn(6)]
			if special == "late last envelope" {
				variant = "signed"
			}
			// other records in the additional section of the request: an EDNS0 OPT record (RFC 6891; what dig and the
			// common secondaries send) -- before the TSIG, which stays the last record (RFC 8945 5.1); whatever the
			// sender makes of it, the rules for the answer are the same
			edns := serialNo == 2 || rnd.Intn(3) == 0
			if serialNo == 2 {
				variant = "signed"
			}
			q := new(dns.Msg)
			q.SetAxfr(zone)
			q.Id = uint16(rnd.Intn(1 << 16))
			if edns {
				q.SetEdns0([]uint16{512, 1232, 4096, 65535}[rnd.Intn(4)], rnd.Intn(2) == 0)
				if rnd.Intn(3) == 0 {
					o := q.IsEdns0()
					o.Option = append(o.Option, &dns.EDNS0_COOKIE{Code: dns.EDNS0COOKIE, Cookie: "24a5ac1223344556"})
				}
			}
			var qo []byte
			now := uint64(time.Now().Unix())
			switch variant {
			case "unsigned":
				qo, err = q.Pack()
			default:
				q.SetTsig(keyName, keyAlg, 300, int64(now))
				sec := secret
				if variant == "badsecret" {
					sec = secretBad
				}
				qo, _, err = dns.TsigGenerate(q, sec, "", false)
			}
			if err != nil {
				hx.Die("query: %v", err)
			}
			conn.SetDeadline(time.Now().Add(20 * time.Second))
			if _, err := conn.Write(pipe.Frame(qo)); err != nil {
				hx.Die("write query: %v", err)
			}
			var msgs [][]byte
			for len(msgs) < len(chunks) { // the sender writes one message per chunk; fewer shows as a deadline error
				p, err := pipe.ReadFrame(conn)
				if err != nil {
					break
				}
				msgs = append(msgs, p)
			}
			sum.Evaluations++
			serialNo++
			select {
			case <-handlerDone:
			case <-time.After(30 * time.Second):
				hx.Die("the transfer handler did not return")
			}
			mu.Lock()
			st, times, oerr := status, handed, outErr
			mu.Unlock()
			what := fmt.Sprintf("%s, request %d of %d on its connection", variant, rq+1, nreq)
			if special != "" {
				what += ", " + special
			}
			if edns {
				what += ", request with an EDNS0 OPT record"
			}
			// (1) what the server said about the request's TSIG: judged like any verification
			idx++
			w.Emit(tsigEv{Ev: "verify", I: idx, What: "server:" + what, Octets: hx.FromBytes(qo), Reqmac: hx.B{}, Now: limbs48(now),
				Via: "server", Secrets: tab, Got: errTextOf(st.err), Signed: st.signed})
			// (2) the envelopes on the wire: a session chained on the MAC of this request
			ev := outEvent{Ev: "out", I: serialNo, Mode: "axfr", Q: []int{0, 0}, Chunks: chunks, Wire: [][]rec{}, IDs: true, Variant: variant, OutErr: oerr != nil, Desc: what}
			w.Emit(tsigEv{Ev: "q", I: 0, What: what, Octets: hx.FromBytes(qo), Reqmac: hx.B{}, Now: limbs48(now), Secrets: tab})
			prevMAC := ""
			if qm := new(dns.Msg); qm.Unpack(qo) == nil && qm.IsTsig() != nil {
				prevMAC = qm.IsTsig().MAC
			}
			for _, p := range msgs {
				m := new(dns.Msg)
				if err := m.Unpack(p); err != nil {
					sum.Mis("xfr/out:unparsable-envelope", fmt.Sprintf("an envelope written by Transfer.Out does not unpack: %v", err), hx.FromBytes(p))
					continue
				}
				ev.Wire = append(ev.Wire, fromRRs(m.Answer))
				ev.IDs = ev.IDs && m.Id == q.Id && m.Response && m.Authoritative && m.Rcode == dns.RcodeSuccess
				if m.IsTsig() != nil {
					ev.Signed++
				}
				if variant != "signed" {
					continue
				}
				// the server answers a verified request with a signed chain
				idx++
				tnow := uint64(time.Now().Unix())
				ee := tsigEv{Ev: "env", I: idx, What: "out: " + what, Octets: hx.FromBytes(p), Reqmac: hx.B{}, Now: limbs48(tnow),
					Via: "server-out", Secrets: tab, Got: ""}
				if k := len(ev.Wire) - 1; k < len(times) {
					ee.Handed = limbs48(times[k])
				}
				w.Emit(ee)
				// ... and single-bit alterations of the envelope, verified the way Transfer.ReadMsg does it: against the MAC
				// of the previous message, timers only from the second envelope on (every bit of the first two
				// envelopes of the first transfers, a sample elsewhere)
				first := len(ev.Wire) == 1
				for b := 0; b < 8*len(p); b++ {
					if (serialNo > 4 || len(ev.Wire) > 2 || len(p) > 2000) && rnd.Intn(8*len(p)) >= 64 {
						continue
					}
					o := append([]byte(nil), p...)
					o[b/8] ^= 0x80 >> uint(b%8)
					idx++
					prev, _ := hex.DecodeString(prevMAC)
					got := dns.VerifTsigVerifyAt(append([]byte(nil), o...), dns.VerifTsigSecretProvider(map[string]string{keyName: secret}), prevMAC, !first, tnow)
					w.Emit(tsigEv{Ev: "verify", I: idx, What: "envelope-bit", Octets: hx.FromBytes(o), Reqmac: hx.FromBytes(prev), Timers: !first,
						Now: limbs48(tnow), Via: "hook", Secrets: tab, Got: errTextOf(got)})
				}
				if t := m.IsTsig(); t != nil {
					prevMAC = t.MAC
				}
			}
			wx.Emit(ev)
			if len(msgs) != len(chunks) || oerr != nil {
				break // the connection is out of step or closed by the handler: abandon it (Trace_Xfr reports the short answer)
			}
		}
		conn.Close()
	}
	sum.Nontrivial = idx
	sum.Print()
}

func errTextOf(err error) string {
	if err == nil {
		return ""
	}
	return err.Error()
}
