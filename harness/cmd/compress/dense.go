package main

// compress dense <layout> <events.ndjson> <n>
//
// DENSE messages: as many DIFFERENT names of one presentation length as a 64 kB message holds, with nothing in common but the
// root (single labels of k letters): in the question section, as owners of A records, as NS targets under a root owner.  No
// name of such a message is a suffix of another one, so a packer that keeps names apart has nothing to point at, and the
// octets packed with Compress = true ARE the octets packed with Compress = false.  Whatever the packer's dictionary is keyed
// by, a packer that takes two different names for the same one emits a pointer for the later one.  The first quarter of a
// message (offsets below 16384) fills the dictionary with about 16384 / (k + 6) names, every later name is looked up
// against all of them: about 6 million pairs of different equal-length names per message, several 10^10 per run -- the
// birthday bound of any 32-bit digest of a name is passed several times over, without knowing the digest.
//
// Nothing is decided here.  A message whose two packings are the same octets is counted (identical octets are the same
// message under every reader; the pointer-free-ness of uncompressed packings is judged on every other event of the check).  A
// message whose packings DIFFER is first shrunk -- records are dropped while the real packer still gives two different
// packings -- and the small message goes the way of every other event: packBoth (sequences, PackBuffer sizes) and the
// judge in TLC (Compress!JudgeStreamsH on the part streams of both packings).  A few whole messages per run are judged as
// they are (sampled), so that the family itself is seen by the judge.

import (
	"bytes"
	"fmt"
	"math/rand"

	"github.com/miekg/dns"

	"verifharness/lib/hx"
)

const denseAlphabet = "abcdefghijklmnopqrstuvwxyzABCDEFGHIJKLMNOPQRSTUVWXYZ0123456789-"

// denseNames: cnt different names of k letters.  Name number i is the base-63 spelling of (a*i + b) mod 63^k with a prime to
// 63: different i, different names (no digest, no table).
func denseNames(r *rand.Rand, k, cnt int) []string {
	mod := uint64(1)
	for i := 0; i < k; i++ {
		mod *= 63
	}
	a := (r.Uint64()%mod)*63 + 1 // = 1 mod 3 and mod 7: a unit mod 63^k
	a %= mod
	b := r.Uint64() % mod
	out := make([]string, cnt)
	buf := make([]byte, k+1)
	buf[k] = '.'
	for i := 0; i < cnt; i++ {
		x := (mulmod(a, uint64(i), mod) + b) % mod
		for j := 0; j < k; j++ {
			buf[j] = denseAlphabet[x%63]
			x /= 63
		}
		if buf[0] == '-' {
			buf[0] = 'x' // may repeat a name once in a while: then the judge sees a pointer that is allowed
		}
		out[i] = string(buf)
	}
	return out
}

func mulmod(a, b, m uint64) uint64 {
	var res uint64
	a %= m
	for b > 0 {
		if b&1 == 1 {
			res = (res + a) % m
		}
		a = (a * 2) % m
		b >>= 1
	}
	return res
}

// one slot = one name of the message and where it sits: "q" question, "o" owner of an A record, "n" NS target under a root owner
type slot struct{ name, sh string }

type denseMsg struct {
	shape string // "q", "o", "n", or "x": a third each
	slots []slot
}

func (d *denseMsg) fill(names []string) {
	d.slots = make([]slot, len(names))
	for i, s := range names {
		sh := d.shape
		if sh == "x" {
			sh = []string{"q", "o", "n"}[i*3/len(names)]
		}
		d.slots[i] = slot{s, sh}
	}
}

func (d *denseMsg) build() *dns.Msg {
	m := new(dns.Msg)
	m.Id = 4711
	m.Response = true
	for i, s := range d.slots {
		switch s.sh {
		case "q":
			m.Question = append(m.Question, dns.Question{Name: s.name, Qtype: dns.TypeA, Qclass: 1})
		case "o":
			m.Answer = append(m.Answer, &dns.A{Hdr: dns.RR_Header{Name: s.name, Rrtype: dns.TypeA, Class: 1, Ttl: 60}, A: []byte{192, 0, 2, byte(i)}})
		default:
			m.Ns = append(m.Ns, &dns.NS{Hdr: dns.RR_Header{Name: ".", Rrtype: dns.TypeNS, Class: 1, Ttl: 60}, Ns: s.name})
		}
	}
	if len(m.Question) == 0 {
		m.Question = []dns.Question{{Name: ".", Qtype: dns.TypeNS, Qclass: 1}}
	}
	return m
}

func (d *denseMsg) perName(k int) int {
	switch d.shape {
	case "q":
		return k + 6
	case "o":
		return k + 16
	case "n":
		return k + 13
	}
	return k + 12
}

// differs: do the two packings of the message differ?  (errors: no)
func differs(m *dns.Msg) (bool, int) {
	m.Compress = false
	bu, eu := m.Pack()
	m.Compress = true
	bc, ec := m.Pack()
	m.Compress = false
	if eu != nil || ec != nil {
		return false, 0
	}
	return !bytes.Equal(bu, bc), len(bu)
}

// shrink drops names while the real packer still gives two different packings (ddmin over the slots).
func shrink(d *denseMsg) *denseMsg {
	cur := append([]slot(nil), d.slots...)
	test := func(ss []slot) bool {
		if len(ss) == 0 {
			return false
		}
		x, _ := differs((&denseMsg{shape: d.shape, slots: ss}).build())
		return x
	}
	for chunk := (len(cur) + 1) / 2; ; chunk = (chunk + 1) / 2 {
		for lo := 0; lo < len(cur); {
			hi := lo + chunk
			if hi > len(cur) {
				hi = len(cur)
			}
			cand := append(append([]slot(nil), cur[:lo]...), cur[hi:]...)
			if test(cand) {
				cur = cand
			} else {
				lo = hi
			}
		}
		if chunk == 1 {
			break
		}
	}
	return &denseMsg{shape: d.shape, slots: cur}
}

func dense(out string, n int) {
	r := hx.Rand()
	w := hx.NewWriter(out)
	defer w.Close()
	var sum hx.Summary
	shapes := []string{"q", "q", "q", "q", "o", "n", "x", "q"}
	var namesPut, pairs, same, diff, octets int64
	judged := 0
	emit := func(d *denseMsg, v []int) {
		e := event{G: "dense", V: v, Ddd: []int{}, Key: "dense-" + d.shape, Implen: -1}
		for _, ne := range packBoth(d.build(), &e, &sum, nil) {
			if len(ne.BytesC) < len(ne.BytesU) {
				sum.Nontrivial++
			}
			w.Emit(ne)
		}
	}
	for i := 0; i < n; i++ {
		sum.Evaluations++
		k := 4 + r.Intn(6) // 4..9 letters
		d := &denseMsg{shape: shapes[r.Intn(len(shapes))]}
		per := d.perName(k)
		cnt := (65535 - 12 - 5) / per
		if i%16 == 3 { // a small one now and then: judged as it is
			cnt = 40 + r.Intn(200)
		}
		d.fill(denseNames(r, k, cnt))
		m := d.build()
		df, ulen := differs(m)
		if ulen == 0 {
			sum.Note("dense_unpackable", fmt.Sprintf("shape %s k %d", d.shape, k))
			continue
		}
		namesPut += int64(cnt)
		octets += int64(ulen)
		filled := int64(16384 / per)
		if filled > int64(cnt) {
			filled = int64(cnt)
		}
		pairs += filled*(int64(cnt)-filled) + filled*(filled-1)/2
		if !df {
			same++
			if cnt <= 240 && judged < 3 {
				judged++
				emit(d, []int{i, k, cnt})
			}
			continue
		}
		diff++
		if diff <= 4 {
			s := shrink(d)
			emit(s, []int{i, k, len(s.slots)})
		}
	}
	sum.Note("events", w.N)
	sum.Note("dense", map[string]int64{"messages": int64(n), "names": namesPut, "octets_uncompressed": octets,
		"pairs_of_different_names_filed_then_looked_up": pairs, "packings_identical": same, "packings_differ": diff})
	sum.Print()
}
