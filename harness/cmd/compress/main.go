// Command compress binds spec/Compress.tla to the real packer / unpacker (property C04).
//
//	compress replay <layout> <vectors.ndjson> <events.ndjson>   Gen_Compress vectors -> Pack with Compress true and false -> events;
//	                                                            hand-compressed octets of the vector -> Unpack must accept and read the vector's message
//	compress record <layout> <events.ndjson> <n> <big>          random messages from the record zoo (big: 150-600 records) -> events
//	compress reexec <layout> <in.ndjson> <out.ndjson>           the messages of recorded events through the real code again
//	compress dense <layout> <events.ndjson> <n>                 n dense messages (thousands of different equal-length names): see dense.go
//
// An event is {bytesC, bytesU, sc, su [, msg]}: the octets packed with and without compression and their
// part streams (lib/walker).  The judge is TLC (Trace_Compress: Compress!JudgeStreams / ValidCompressed);
// nothing about compression is decided here.
package main

import (
	"bytes"
	"fmt"
	"math/rand"
	"os"
	"runtime"
	"strconv"
	"strings"

	"github.com/miekg/dns"

	"verifharness/lib/hx"
	"verifharness/lib/walker"
	"verifharness/lib/wire"
	"verifharness/lib/zoo"
)

type vec struct {
	G      string   `json:"g"`
	V      []int    `json:"v"`
	Msg    wire.Msg `json:"msg"`
	Ddd    []int    `json:"ddd"`
	Hand   hx.B     `json:"hand"`
	Implen int      `json:"implen"`
	Ulen   int      `json:"ulen"` // the specification's length of the message packed without compression (0: not given)
	Hands  []hand   `json:"hands"` // mode "foreign": compressed forms of other encoders (Compress!Recompress), by strategy
	Sp     [][]int  `json:"sp"`    // mode "spell": <<owner index, style>>: how the harness spells that name (spell)
	NoWF   bool     `json:"nowf"`  // mode "overlong": the specification says the message is NOT well-formed (WFMsg fails)
}

type hand struct {
	S string `json:"s"`
	B hx.B   `json:"b"`
}

type event struct {
	G      string        `json:"g"`
	V      []int         `json:"v"`
	Ddd    []int         `json:"ddd"`
	Sp     [][]int       `json:"sp"`
	Key    string        `json:"key"`
	HasMsg bool          `json:"hasmsg"`
	Msg    *wire.Msg     `json:"msg,omitempty"`
	BytesC hx.B          `json:"bytesC"`
	BytesU hx.B          `json:"bytesU"`
	Sc     []walker.Part `json:"sc"`
	Su     []walker.Part `json:"su"`
	Implen int           `json:"implen"` // -1: unknown
}

var L *wire.Layout

func main() {
	if len(os.Args) < 5 {
		hx.Die("usage: compress replay|record|reexec <layout> ...")
	}
	L = wire.LoadLayout(os.Args[2])
	wire.RegisterPrivate()
	runtime.GOMAXPROCS(1) // sequences of packings on one goroutine, one P: a pooled object comes back to the next call (not relied on: repeated)
	switch os.Args[1] {
	case "replay":
		replay(os.Args[3], os.Args[4])
	case "record":
		n, _ := strconv.Atoi(os.Args[4])
		big := len(os.Args) > 5 && os.Args[5] == "big"
		record(os.Args[3], n, big)
	case "reexec":
		reexec(os.Args[3], os.Args[4])
	case "dense":
		n, _ := strconv.Atoi(os.Args[4])
		dense(os.Args[3], n)
	default:
		hx.Die("unknown mode %s", os.Args[1])
	}
}

// ddd spells every letter 'a' of a presentation name as \097: the same name, another text.
func dddSpell(s string) string {
	var sb strings.Builder
	for i := 0; i < len(s); i++ {
		if s[i] == '\\' && i+1 < len(s) { // keep escapes as they are
			if i+3 < len(s) && s[i+1] >= '0' && s[i+1] <= '9' {
				sb.WriteString(s[i : i+4])
				i += 3
			} else {
				sb.WriteString(s[i : i+2])
				i++
			}
			continue
		}
		if s[i] == 'a' {
			sb.WriteString("\\097")
		} else {
			sb.WriteByte(s[i])
		}
	}
	return sb.String()
}

// spell writes a presentation name (canonical: as wire.PresentName gives it) in another SPELLING of the same labels:
//
//	1  every letter 'a' as \097 (dddSpell)
//	2  every escape sequence in its decimal form: \. -> \046, \\ -> \092, \" -> \034 ... (\DDD stays)
//	3  every octet of every label as \DDD
//
// The dots that separate labels stay.  Whether the real packer reads the spelling as the same labels shows in the
// uncompressed packing, which Trace_Compress compares with the vector's names.
func spell(s string, style int) string {
	if style == 1 {
		return dddSpell(s)
	}
	if style != 2 && style != 3 {
		return s
	}
	var sb strings.Builder
	for i := 0; i < len(s); i++ {
		c := s[i]
		switch {
		case c == '\\' && i+3 < len(s) && s[i+1] >= '0' && s[i+1] <= '9':
			sb.WriteString(s[i : i+4])
			i += 3
		case c == '\\' && i+1 < len(s):
			fmt.Fprintf(&sb, "\\%03d", s[i+1])
			i++
		case c == '.':
			sb.WriteByte('.')
		case style == 3:
			fmt.Fprintf(&sb, "\\%03d", c)
		default:
			sb.WriteByte(c)
		}
	}
	return sb.String()
}

func respellSp(m *dns.Msg, sp [][]int) {
	var owners []*string
	for i := range m.Question {
		owners = append(owners, &m.Question[i].Name)
	}
	for _, sec := range [][]dns.RR{m.Answer, m.Ns, m.Extra} {
		for _, rr := range sec {
			owners = append(owners, &rr.Header().Name)
		}
	}
	for _, p := range sp {
		if len(p) == 2 && p[0] >= 0 && p[0] < len(owners) {
			*owners[p[0]] = spell(*owners[p[0]], p[1])
		}
	}
}

func respell(m *dns.Msg, idx []int) {
	var owners []*string
	for i := range m.Question {
		owners = append(owners, &m.Question[i].Name)
	}
	for _, sec := range [][]dns.RR{m.Answer, m.Ns, m.Extra} {
		for _, rr := range sec {
			owners = append(owners, &rr.Header().Name)
		}
	}
	for _, i := range idx {
		if i >= 0 && i < len(owners) {
			*owners[i] = dddSpell(*owners[i])
		}
	}
}

// poison derives from m a message that CANNOT be packed and fails late: the same records in reverse order under a longer
// question name (so every shared name lies at another offset), followed by a record the wire format refuses.  Packing it
// with Compress = true right before m, on the same goroutine, leaves no trace in a correct packer.
var poisonKinds = []string{"label64", "name256", "txt256", "rcode"}

func poison(m *dns.Msg, kind string) *dns.Msg {
	p := new(dns.Msg)
	p.MsgHdr = m.MsgHdr
	p.Compress = true
	for _, q := range m.Question {
		qq := q
		if len(q.Name) < 200 {
			qq.Name = "poisoned-by-an-earlier-message." + strings.TrimPrefix(q.Name, ".")
			if q.Name == "." {
				qq.Name = "poisoned-by-an-earlier-message."
			}
		}
		p.Question = append(p.Question, qq)
	}
	rev := func(rs []dns.RR) []dns.RR {
		var out []dns.RR
		for i := len(rs) - 1; i >= 0; i-- {
			if rs[i] != nil {
				out = append(out, dns.Copy(rs[i]))
			}
		}
		return out
	}
	p.Answer, p.Ns, p.Extra = rev(m.Extra), rev(m.Answer), rev(m.Ns)
	base := "example.org."
	if len(m.Question) > 0 && len(m.Question[0].Name) < 100 {
		base = m.Question[0].Name
	}
	under := func(l string) string {
		if base == "." {
			return l + "."
		}
		return l + "." + base
	}
	switch kind {
	case "label64":
		p.Extra = append(p.Extra, &dns.A{Hdr: dns.RR_Header{Name: under(strings.Repeat("a", 64)), Rrtype: dns.TypeA, Class: 1}, A: []byte{192, 0, 2, 1}})
	case "name256":
		l := strings.Repeat("b", 63)
		p.Extra = append(p.Extra, &dns.NS{Hdr: dns.RR_Header{Name: base, Rrtype: dns.TypeNS, Class: 1}, Ns: l + "." + l + "." + l + "." + l + ".x."})
	case "txt256":
		p.Extra = append(p.Extra, &dns.TXT{Hdr: dns.RR_Header{Name: base, Rrtype: dns.TypeTXT, Class: 1}, Txt: []string{strings.Repeat("t", 300)}})
	case "rcode":
		p.Rcode = 16 // extended RCODE without an OPT record
		var keep []dns.RR
		for _, rr := range p.Extra {
			if rr.Header().Rrtype != dns.TypeOPT {
				keep = append(keep, rr)
			}
		}
		p.Extra = keep
		var k2, k3 []dns.RR
		for _, rr := range p.Answer {
			if rr.Header().Rrtype != dns.TypeOPT {
				k2 = append(k2, rr)
			}
		}
		for _, rr := range p.Ns {
			if rr.Header().Rrtype != dns.TypeOPT {
				k3 = append(k3, rr)
			}
		}
		p.Answer, p.Ns = k2, k3
	}
	return p
}

var poisonStats = map[string]int{}

// packBoth packs m with Compress on and off and walks both results.  Each packing with compression is preceded, on the same
// goroutine, by the packing of an unpackable relative of m (poison): a sequence, repeated with every kind of failure.  Every
// DISTINCT compressed form seen is returned as its own event (a correct packer gives one).
func packBoth(m *dns.Msg, e *event, sum *hx.Summary, c interface{}) []event {
	return packBothU(m, e, sum, c, 0)
}

var refThroughBuffer int

// refBuffer: size of the caller buffer for the reference packing: the specification's uncompressed length + 1 when the
// vector gives it, else 1 MB.
func refBuffer(ulen int) int {
	if ulen > 0 {
		return ulen + 1
	}
	return 1 << 20
}

func packBothU(m *dns.Msg, e *event, sum *hx.Summary, c interface{}, ulen int) []event {
	var bu []byte
	var eu error
	var forms [][]byte
	var ec error
	if p := hx.Catch(func() {
		m.Compress = false
		bu, eu = m.Pack()
		if eu != nil {
			// the reference packing through a caller buffer that holds the message spelled out (the library sizes its own
			// buffer from the uncompressed length; a refusal to allocate it is not a refusal of the message)
			if b2, e2 := m.PackBuffer(make([]byte, refBuffer(ulen))); e2 == nil {
				bu, eu = append([]byte(nil), b2...), nil
				refThroughBuffer++
			}
		}
		if eu != nil {
			return
		}
		for round := 0; round < 2; round++ {
			for _, kind := range poisonKinds {
				if _, perr := poison(m, kind).Pack(); perr == nil {
					poisonStats["packed:"+kind]++
				} else {
					poisonStats["failed:"+kind]++
				}
				m.Compress = true
				var bc []byte
				bc, ec = m.Pack()
				m.Compress = false
				if ec != nil {
					return
				}
				dup := false
				for _, f := range forms {
					if bytes.Equal(f, bc) {
						dup = true
					}
				}
				if !dup {
					forms = append(forms, bc)
				}
			}
		}
	}); p != "" {
		sum.Mis("compress/panic:"+e.G, "Pack panicked: "+p, c)
		return nil
	}
	if eu != nil { // not this property's business (C01 / C08 report what cannot be packed)
		sum.Note("unpackable_skipped", fmt.Sprintf("%v", eu))
		return nil
	}
	if !e.HasMsg { // a zoo message is re-executed from its own uncompressed octets
		c = map[string]interface{}{"event": map[string]interface{}{"g": e.G, "v": e.V, "key": e.Key, "hasmsg": false, "bytesU": hx.FromBytes(bu)}}
	}
	if ec != nil {
		sum.Mis("compress/pack-error:"+e.G, fmt.Sprintf("Pack() with Compress = true fails (%v) on a message that packs without compression (%d octets)", ec, len(bu)), c)
		return nil
	}
	su, err := walker.Walk(L, bu)
	if err != nil {
		// the uncompressed octets do not follow the RFC layout: a wire-format matter (C01), the walker cannot serve
		sum.Note("unwalkable_uncompressed", fmt.Sprintf("%s: %v", e.Key, err))
		return nil
	}
	var out []event
	for _, bc := range forms {
		ne := *e
		ne.BytesC, ne.BytesU, ne.Su = hx.FromBytes(bc), hx.FromBytes(bu), su
		if ne.Sc, err = walker.Walk(L, bc); err != nil {
			sum.Mis("compress/compressed-unreadable:"+e.G, fmt.Sprintf("the octets packed with Compress = true cannot be read by an independent reader: %v", err), c)
			continue
		}
		rereadOwn(bc, bu, ne.Sc, e, sum, c)
		out = append(out, ne)
	}
	if len(forms) > 1 {
		sum.Note("compressed_forms_differ_between_packings", e.Key)
	} else if len(forms) == 1 {
		packBufferSizes(m, forms[0], len(bu), e, sum, c)
	}
	return out
}

// packBufferSizes: PackBuffer with caller-supplied buffers of every size around the two lengths that matter -- from the
// compressed length to the uncompressed length + 2 (sampled when that is a long way) -- must give the octets Pack() gave
// (those are what TLC judges).  "If buf is too small a new buffer is allocated": an error is tolerated only for buffers
// smaller than the compressed form.
func packBufferSizes(m *dns.Msg, bc []byte, ulen int, e *event, sum *hx.Summary, c interface{}) {
	lo, hi := len(bc)-2, ulen+2
	if lo < 0 {
		lo = 0
	}
	var sizes []int
	if hi-lo <= 96 {
		for n := lo; n <= hi; n++ {
			sizes = append(sizes, n)
		}
	} else {
		for n := lo; n < lo+72; n++ { // a name that shrinks to a pointer near the end needs up to 64 octets of slack to show
			sizes = append(sizes, n)
		}
		for n := lo + 72; n < hi-8; n += 1 + (hi-lo)/24 {
			sizes = append(sizes, n)
		}
		for n := hi - 8; n <= hi; n++ {
			sizes = append(sizes, n)
		}
	}
	m.Compress = true
	defer func() { m.Compress = false }()
	for _, n := range sizes {
		buf := make([]byte, n)
		for i := range buf {
			buf[i] = 0xAA
		}
		var got []byte
		var err error
		if p := hx.Catch(func() { got, err = m.PackBuffer(buf) }); p != "" {
			sum.Mis("compress/packbuffer-panic:"+e.G, fmt.Sprintf("PackBuffer with a %d-octet buffer panicked: %s", n, p), c)
			return
		}
		packBufferTried++
		if err != nil {
			if n >= len(bc) {
				sum.Mis("compress/packbuffer-error:"+e.G, fmt.Sprintf("PackBuffer with a %d-octet buffer fails (%v); Pack() gives %d octets compressed, %d uncompressed", n, err, len(bc), ulen), c)
				return
			}
			continue
		}
		if !bytes.Equal(got, bc) {
			sum.Mis("compress/packbuffer-differs-from-pack:"+e.G, fmt.Sprintf("PackBuffer with a %d-octet buffer gives %d octets that are not Pack()'s %d", n, len(got), len(bc)), c)
			return
		}
	}
}

var packBufferTried int

func typesKey(m *dns.Msg) string {
	set := map[string]bool{}
	var ks []string
	for _, sec := range [][]dns.RR{m.Answer, m.Ns, m.Extra} {
		for _, rr := range sec {
			k := L.Mnemonic(int(rr.Header().Rrtype))
			if !set[k] {
				set[k] = true
				ks = append(ks, k)
			}
		}
	}
	if len(ks) > 3 {
		return "multi"
	}
	return strings.Join(ks, "+")
}

func observeVec(v *vec, sum *hx.Summary) []event {
	e := event{G: v.G, V: v.V, Ddd: v.Ddd, Sp: v.Sp, HasMsg: true, Msg: &v.Msg, Implen: v.Implen}
	if e.Ddd == nil {
		e.Ddd = []int{}
	}
	if e.Sp == nil {
		e.Sp = [][]int{}
	}
	m, err := L.BuildMsg(&v.Msg)
	if err != nil {
		hx.Die("vector %s %v: %v", v.G, v.V, err)
	}
	respell(m, v.Ddd)
	respellSp(m, v.Sp)
	e.Key = typesKey(m)
	if v.NoWF {
		unpackable(v, m, sum)
		return nil
	}
	var c interface{} = v
	if v.Ulen > 8192 { // a large vector is regenerated from the specification when a finding is re-executed
		c = map[string]interface{}{"g": v.G, "v": v.V, "regen": true}
	}
	return packBothU(m, &e, sum, c, v.Ulen)
}

// unpackable: a message the specification calls ill-formed (no wire form exists: a name beyond 255 octets / 127 labels,
// a label beyond 63) and that Pack() refuses without compression must be refused with compression too: the statement
// compares the two packings of "any message", and octets that come out of one of them only are not "exactly the same
// message".  What the compressed octets are (the independent reader's view) is part of the finding's text.  A message
// that packs WITHOUT compression against the specification is not a matter of compression (C01 / C03): counted.
var unpackableStats = map[string]int{}

func unpackable(v *vec, m *dns.Msg, sum *hx.Summary) {
	pos := "?"
	if len(v.V) >= 2 {
		pos = [...]string{"?", "question", "owner", "rdata:NS", "rdata:MX", "rdata:CNAME", "rdata:SRV"}[v.V[1]%7]
	}
	var eu, ec error
	var bc []byte
	if p := hx.Catch(func() {
		m.Compress = false
		_, eu = m.Pack()
		m.Compress = true
		bc, ec = m.Pack()
		m.Compress = false
	}); p != "" {
		sum.Mis("compress/panic:"+v.G, "Pack panicked on an ill-formed message: "+p, v)
		return
	}
	switch {
	case eu == nil:
		unpackableStats["packs-uncompressed"]++ // not this property's business
	case ec != nil:
		unpackableStats["refused-both-ways"]++
	default:
		unpackableStats["packs-compressed-only"]++
		what := "the independent reader reads them"
		if _, err := walker.Walk(L, bc); err != nil {
			what = fmt.Sprintf("the independent reader cannot read them: %v", err)
		}
		sum.Mis("compress/packs-what-uncompressed-refuses:"+v.G+":"+pos, fmt.Sprintf("the specification gives this message no wire form (WFMsg fails) and Pack() "+
			"without compression refuses it (%v), but Pack() with Compress = true yields %d octets; %s", eu, len(bc), what), v)
	}
}

// chainClass: the longest pointer chain of a part stream (read off the walker's hints), as a class for finding keys.
func chainClass(parts []walker.Part) string {
	hops := make([]int, len(parts)+1)
	max := 0
	for i, p := range parts {
		if p.K == "n" && p.Ptr >= 0 {
			hops[i+1] = 1
			if p.Tk >= 1 && p.Tk <= i {
				hops[i+1] = 1 + hops[p.Tk]
			}
			if hops[i+1] > max {
				max = hops[i+1]
			}
		}
	}
	switch {
	case max <= 126:
		return "chain-upto-126"
	case max == 127:
		return "chain-127"
	}
	return "chain-over-127"
}

// rereadOwn: "decode to exactly the same message" and "compressed names are still accepted on input" said of the library's
// own reader: the octets it packed with Compress = true (which the independent reader could read) must be accepted by
// Unpack and, for a vector, read as the vector's message (the specification's value, as in accept).  A random message has
// no abstract value here: only a refusal is reported, and only when the uncompressed octets of the same message are taken.
var rereads int

func rereadOwn(bc, bu []byte, sc []walker.Part, e *event, sum *hx.Summary, c interface{}) {
	rereads++
	u := new(dns.Msg)
	var err error
	if p := hx.Catch(func() { err = u.Unpack(bc) }); p != "" {
		sum.Mis("compress/own-output-panic:"+e.G, "Unpack panicked on octets Pack() produced with Compress = true: "+p, c)
		return
	}
	if err != nil {
		if e.Msg == nil {
			if hx.Catch(func() { err = new(dns.Msg).Unpack(bu) }) != "" || err != nil {
				return // the library does not read the message spelled out either: not a matter of compression
			}
		}
		sum.Mis("compress/own-output-rejected:"+e.G+":"+chainClass(sc), fmt.Sprintf("Unpack refuses the octets Pack() produced with Compress = true (%d octets; the independent reader reads them): %v", len(bc), err), c)
		return
	}
	if e.Msg == nil {
		return
	}
	proj, errs := L.ProjectMsg(u, e.Msg)
	if len(errs) > 0 {
		sum.Mis("compress/own-output-misread:"+e.G, fmt.Sprintf("Unpack of the octets packed with Compress = true: %v", errs[0]), c)
		return
	}
	if a, b := wire.Canon(proj), wire.Canon(wire.Normalize(e.Msg)); a != b {
		sum.Mis("compress/own-output-misread:"+e.G, fmt.Sprintf("Unpack of the octets packed with Compress = true reads %.300s, the specification %.300s", a, b), c)
	}
}

func replay(vectors, out string) {
	w := hx.NewWriter(out)
	defer w.Close()
	var sum hx.Summary
	implDev := 0
	hx.ReadNDJSON(vectors, func(i int, v *vec) {
		sum.Evaluations++
		for _, e := range observeVec(v, &sum) {
			w.Emit(e)
			if len(e.BytesC) < len(e.BytesU) {
				sum.Nontrivial++
			}
			if len(e.BytesC) != v.Implen {
				implDev++
				if implDev <= 3 {
					sum.Note(fmt.Sprintf("packimpl_deviation_%d", implDev), fmt.Sprintf("%s %v: len(Pack()) = %d, PackImpl %d", v.G, v.V, len(e.BytesC), v.Implen))
				}
			}
			if i%397 == 0 && len(e.BytesC) < 200 {
				sum.Sample(map[string]interface{}{"g": v.G, "v": v.V, "bytesC": e.BytesC, "bytesU": e.BytesU})
			}
		}
		if len(v.Hand) > 0 {
			accept(v, v.Hand, "", &sum)
		}
		for _, h := range v.Hands {
			accept(v, h.B, ":"+h.S, &sum)
			foreignForms++
		}
	})
	sum.Note("foreign_forms_unpacked", foreignForms)
	sum.Note("ill_formed_messages", unpackableStats)
	sum.Note("packimpl_deviations", implDev)
	sum.Note("poison_packings", poisonStats)
	sum.Note("packbuffer_calls", packBufferTried)
	sum.Note("own_reader_on_compressed", rereads)
	sum.Note("reference_through_caller_buffer", refThroughBuffer)
	sum.Note("events", w.N)
	sum.Print()
}

// accept: hand-compressed RDATA names must be accepted on input for every type, and read as the pointed-to name.
var foreignForms int

func accept(v *vec, hand hx.B, strategy string, sum *hx.Summary) {
	sum.Evaluations++
	rrs := v.Msg.RRs()
	key := L.Mnemonic(rrs[len(rrs)-1].Type) + strategy
	what := "a message whose RDATA names are compression pointers"
	if strategy != "" {
		what = "a compressed form of the message that the specification's judge accepts (foreign encoder, strategy " + strategy[1:] + ": Compress!Recompress)"
	}
	u := new(dns.Msg)
	var err error
	if p := hx.Catch(func() { err = u.Unpack(hand.Bytes()) }); p != "" {
		sum.Mis("compress/input-panic:"+key, "Unpack panicked on a compressed RDATA name: "+p, v)
		return
	}
	if err != nil {
		sum.Mis("compress/input-rejected:"+key, fmt.Sprintf("Unpack refuses %s: %v", what, err), v)
		return
	}
	proj, errs := L.ProjectMsg(u, &v.Msg)
	if len(errs) > 0 {
		sum.Mis("compress/input-misread:"+key, fmt.Sprintf("Unpack of compressed RDATA names: %v", errs[0]), v)
		return
	}
	if a, b := wire.Canon(proj), wire.Canon(wire.Normalize(&v.Msg)); a != b {
		sum.Mis("compress/input-misread:"+key, fmt.Sprintf("Unpack of compressed RDATA names reads %.300s, the specification %.300s", a, b), v)
	}
}

// ---------------------------------------------------------------- record

var families = []string{"example.org.", "EXAMPLE.org.", "www.example.org.", "a.b.c.example.org.", "A.b.C.example.org.", "c.example.org.",
	"esc\\.aped.example.org.", "x\\200y.example.org.", "mail.example.org.", "other.test.", "a.other.test.", ".", "org.", "ORG.",
	"very-long-label-aaaaaaaaaaaaaaaaaaaaaaaaaaaaaaaaaaaaaaaaaaaa.example.org.", "b.very-long-label-aaaaaaaaaaaaaaaaaaaaaaaaaaaaaaaaaaaaaaaaaaaa.example.org."}

func randomMsg(r *rand.Rand, pools [][]dns.RR, big bool) *dns.Msg {
	m := new(dns.Msg)
	m.Id = uint16(r.Intn(65536))
	m.Response = true
	nq := 1
	if r.Intn(4) == 0 {
		nq = 2 + r.Intn(2)
	}
	for i := 0; i < nq; i++ {
		m.Question = append(m.Question, dns.Question{Name: families[r.Intn(len(families))], Qtype: uint16(1 + r.Intn(60)), Qclass: 1})
	}
	total := 1 + r.Intn(12)
	if big {
		total = 150 + r.Intn(451)
	}
	for i := 0; i < total; i++ {
		pool := pools[r.Intn(len(pools))]
		rr := dns.Copy(pool[r.Intn(len(pool))])
		switch x := r.Intn(10); {
		case x < 5:
			m.Answer = append(m.Answer, rr)
		case x < 7:
			m.Ns = append(m.Ns, rr)
		default:
			m.Extra = append(m.Extra, rr)
		}
	}
	if r.Intn(3) == 0 {
		m.Extra = append(m.Extra, zoo.Opt())
	}
	return m
}

func record(out string, n int, big bool) {
	r := hx.Rand()
	var pools [][]dns.RR
	for _, o := range families {
		all, err := zoo.All(o)
		if err != nil {
			hx.Die("%v", err)
		}
		var keep []dns.RR
		for _, rr := range all {
			if rr.Header().Rrtype != dns.TypeOPT {
				keep = append(keep, rr)
			}
		}
		pools = append(pools, keep)
	}
	w := hx.NewWriter(out)
	defer w.Close()
	var sum hx.Summary
	crossed := 0
	for i := 0; i < n; i++ {
		sum.Evaluations++
		m := randomMsg(r, pools, big)
		e := event{G: "zoo", V: []int{i}, Ddd: []int{}, Key: typesKey(m), Implen: -1}
		for _, e := range packBoth(m, &e, &sum, nil) {
			if len(e.BytesC) > 16384 {
				crossed++
			}
			if len(e.BytesC) < len(e.BytesU) {
				sum.Nontrivial++
			}
			w.Emit(e)
			if i < 2 && len(e.BytesC) < 300 {
				sum.Sample(map[string]interface{}{"bytesC": e.BytesC, "bytesU": e.BytesU})
			}
		}
	}
	sum.Note("events", w.N)
	sum.Note("compressed_beyond_16384", crossed)
	sum.Note("poison_packings", poisonStats)
	sum.Print()
}

// reexec: the message of each event through the real code again, in a fresh process.  Vector events are rebuilt from
// the abstract message; zoo events from their own uncompressed octets (Unpack, then Pack with Compress on and off).
func reexec(in, out string) {
	w := hx.NewWriter(out)
	defer w.Close()
	var sum hx.Summary
	hx.ReadNDJSON(in, func(i int, e *event) {
		sum.Evaluations++
		if e.HasMsg && e.Msg != nil {
			v := &vec{G: e.G, V: e.V, Msg: *e.Msg, Ddd: e.Ddd, Sp: e.Sp, Implen: e.Implen, Ulen: len(e.BytesU)}
			for _, ne := range observeVec(v, &sum) {
				w.Emit(ne)
			}
			return
		}
		m := new(dns.Msg)
		if err := m.Unpack(e.BytesU.Bytes()); err != nil {
			hx.Die("event %d: own uncompressed octets do not unpack: %v", i, err)
		}
		ne := event{G: e.G, V: e.V, Ddd: []int{}, Key: e.Key, Implen: -1}
		for _, x := range packBoth(m, &ne, &sum, nil) {
			w.Emit(x)
		}
	})
	sum.Note("events", w.N)
	sum.Print()
}
