// Command reverse binds spec/Reverse.tla to ReverseAddr, dnsutil.AddOrigin / TrimDomainName and
// TimeToString / StringToTime (extra check X04).
//
//	reverse replay <vectors.ndjson>     TLC vectors -> real functions, compared with the spec's values
//	reverse record <out.ndjson> <n>     random / boundary inputs through the real functions, for Trace_Reverse
package main

import (
	"fmt"
	"net"
	"os"
	"strconv"
	"strings"

	"github.com/miekg/dns"
	"github.com/miekg/dns/dnsutil"

	"verifharness/lib/hx"
)

type vec struct {
	Kind string `json:"kind"`
	Text hx.B   `json:"text"`
	Ok   bool   `json:"ok"`
	Arpa []hx.B `json:"arpa"`
	T    []int  `json:"t"`
	S    hx.B   `json:"s"`
	Orig hx.B   `json:"origin"`
	Add  hx.B   `json:"add"`
	Trim []hx.B `json:"trim"`
}

func limbs(t uint32) []int { return []int{int(t >> 16), int(t & 0xFFFF)} }

func main() {
	if len(os.Args) < 3 {
		hx.Die("usage: reverse replay <vectors> | record <out> <n>")
	}
	switch os.Args[1] {
	case "replay":
		replay(os.Args[2])
	case "record":
		n, _ := strconv.Atoi(os.Args[3])
		record(os.Args[2], n)
	case "reexec": // reexec <events-in> <events-out>
		reexec(os.Args[2], os.Args[3])
	default:
		hx.Die("unknown mode %s", os.Args[1])
	}
}

func replay(path string) {
	var sum hx.Summary
	seen := map[string]bool{}
	hx.ReadNDJSON(path, func(i int, v *vec) {
		sum.Evaluations++
		if p := hx.Catch(func() { one(v, &sum, seen) }); p != "" {
			sum.Mis(panicKey(v), "panic: "+p, v)
		}
		if i%1999 == 0 {
			sum.Sample(v)
		}
	})
	sum.Nontrivial = len(seen)
	sum.Print()
}

func panicKey(v *vec) string {
	if v.Kind == "origin" && len(v.Orig) == 0 {
		return "dnsutil/trim:panic:origin-empty"
	}
	return "reverse/panic:" + v.Kind
}

func stampClass(s string) string {
	if len(s) == 14 {
		if y, err := strconv.Atoi(s[:4]); err == nil && (y > 2106 || (y == 2106 && s[4:] >= "0207062816")) {
			return ":year>=2106"
		}
	}
	return ""
}

func one(v *vec, sum *hx.Summary, seen map[string]bool) {
	switch v.Kind {
	case "addr":
		text := v.Text.String()
		seen["a:"+text] = true
		got, err := dns.ReverseAddr(text)
		fam := "v4"
		if strings.Contains(text, ":") {
			fam = "v6"
		}
		if (err == nil) != v.Ok {
			k := "reverse/addr:rejects-valid:" + fam
			if err == nil {
				k = "reverse/addr:accepts-invalid:" + fam
			}
			sum.Mis(k, fmt.Sprintf("ReverseAddr(%q) = %q, %v; spec ok=%v", text, got, err, v.Ok), v)
			return
		}
		if err != nil {
			if got != "" {
				sum.Mis("reverse/addr:error-with-name", fmt.Sprintf("ReverseAddr(%q) = %q with error %v", text, got, err), v)
			}
			return
		}
		ok := false
		for _, a := range v.Arpa {
			ok = ok || strings.ToLower(got) == a.String()
		}
		if !ok {
			sum.Mis("reverse/addr:name:"+fam, fmt.Sprintf("ReverseAddr(%q) = %q, spec admits %q", text, got, strs(v.Arpa)), v)
		}
	case "stamp":
		text := v.Text.String()
		seen["s:"+text] = true
		got, err := dns.StringToTime(text)
		if (err == nil) != v.Ok {
			k := "reverse/stringtotime:rejects-valid"
			if err == nil {
				k = "reverse/stringtotime:accepts-invalid"
			}
			sum.Mis(k, fmt.Sprintf("StringToTime(%q) = %d, %v; spec ok=%v", text, got, err, v.Ok), v)
			return
		}
		if err == nil && fmt.Sprint(limbs(got)) != fmt.Sprint(v.T) {
			sum.Mis("reverse/stringtotime:value"+stampClass(text), fmt.Sprintf("StringToTime(%q) = %d (limbs %v), spec limbs %v", text, got, limbs(got), v.T), v)
		}
	case "origin":
		s, o := v.S.String(), v.Orig.String()
		seen["o:"+s+"|"+o] = true
		if got := dnsutil.AddOrigin(s, o); got != v.Add.String() {
			sum.Mis("dnsutil/addorigin-full", fmt.Sprintf("AddOrigin(%q, %q) = %q, spec %q", s, o, got, v.Add.String()), v)
		}
		got := dnsutil.TrimDomainName(s, o) // a panic is caught by the caller
		ok := false
		for _, t := range v.Trim {
			ok = ok || got == t.String()
		}
		if !ok {
			k := "dnsutil/trim"
			if got == "" {
				k = "dnsutil/trim:returns-empty"
				if s == "." && o == "." {
					k += ":root"
				}
			}
			sum.Mis(k, fmt.Sprintf("TrimDomainName(%q, %q) = %q, spec admits %q", s, o, got, strs(v.Trim)), v)
		}
	default:
		hx.Die("unknown vector kind %q", v.Kind)
	}
}

func strs(bs []hx.B) []string {
	var r []string
	for _, b := range bs {
		r = append(r, b.String())
	}
	return r
}

// ---------------------------------------------------------------------------- record

type event struct {
	Ev     string `json:"ev"`
	Text   hx.B   `json:"text"`
	Ok     bool   `json:"ok"`
	Arpa   hx.B   `json:"arpa"`
	T      []int  `json:"t"`
	S      hx.B   `json:"s"`
	Origin hx.B   `json:"origin"`
	R      hx.B   `json:"r"`
	Panic  bool   `json:"panic"`
}

func record(out string, n int) {
	r := hx.Rand()
	w := hx.NewWriter(out)
	var sum hx.Summary
	seen := map[string]bool{}
	emit := func(e *event) {
		if e.T == nil {
			e.T = []int{0, 0}
		}
		w.Emit(e)
		sum.Evaluations++
		if w.N%499 == 1 {
			sum.Sample(e)
		}
	}
	rndIP := func() net.IP {
		k := 4
		if r.Intn(3) > 0 {
			k = 16
		}
		ip := make(net.IP, k)
		for i := range ip {
			switch r.Intn(3) {
			case 0:
				ip[i] = 0
			case 1:
				ip[i] = byte(r.Intn(256))
			default:
				ip[i] = []byte{0, 1, 9, 10, 99, 100, 255, 0xff, 0xab}[r.Intn(9)]
			}
		}
		if k == 16 && r.Intn(6) == 0 { // IPv4-mapped
			copy(ip, []byte{0, 0, 0, 0, 0, 0, 0, 0, 0, 0, 0xff, 0xff})
		}
		if k == 16 && r.Intn(8) == 0 { // link-local
			ip[0], ip[1] = 0xfe, 0x80
		}
		if k == 16 && r.Intn(3) == 0 { // a run of zero groups
			a, b := r.Intn(8), r.Intn(8)
			for i := min(a, b); i <= max(a, b); i++ {
				ip[2*i], ip[2*i+1] = 0, 0
			}
		}
		return ip
	}
	spell := func(ip net.IP) string {
		if len(ip) == 4 {
			return ip.String()
		}
		switch r.Intn(4) {
		case 0: // fully expanded
			var gs []string
			for i := 0; i < 16; i += 2 {
				gs = append(gs, fmt.Sprintf("%02x%02x", ip[i], ip[i+1]))
			}
			return strings.Join(gs, ":")
		case 1:
			return strings.ToUpper(ip.String())
		case 2: // no compression, no leading zeros
			var gs []string
			for i := 0; i < 16; i += 2 {
				gs = append(gs, strconv.FormatUint(uint64(ip[i])<<8|uint64(ip[i+1]), 16))
			}
			return strings.Join(gs, ":")
		}
		return ip.String() // RFC 5952 (IPv4-mapped ones come out as ::ffff:a.b.c.d)
	}
	mutate := func(s string) string {
		b := []byte(s)
		alphabet := ".:0123456789abcdefg%: ."
		switch r.Intn(3) {
		case 0:
			if len(b) > 0 {
				i := r.Intn(len(b))
				b = append(b[:i], b[i+1:]...)
			}
		case 1:
			i := r.Intn(len(b) + 1)
			b = append(b[:i], append([]byte{alphabet[r.Intn(len(alphabet))]}, b[i:]...)...)
		default:
			if len(b) > 0 {
				b[r.Intn(len(b))] = alphabet[r.Intn(len(alphabet))]
			}
		}
		return string(b)
	}
	tb := []uint32{0, 1, 0x7fffffff, 0x80000000, 0x80000001, 0xffffffff, 0xfffffffe, 951868800, 1301845310, 86399, 86400, 68255999, 4102444800}
	labels := []string{"foo", "b", "origin", "ORIGIN", "www", "x-1", "a\\.b"}
	rndName := func() string {
		switch r.Intn(8) {
		case 0:
			return ""
		case 1:
			return "@"
		case 2:
			return "."
		}
		var ls []string
		for k := r.Intn(4); k >= 0; k-- {
			ls = append(ls, labels[r.Intn(len(labels))])
		}
		s := strings.Join(ls, ".")
		if r.Intn(2) == 0 {
			s += "."
		}
		return s
	}
	for w.N < n {
		switch r.Intn(5) {
		case 0, 1:
			text := spell(rndIP())
			for k := r.Intn(3); k > 1; k-- { // one third of the texts get one mutation
				text = mutate(text)
			}
			if len(text) >= 2 && text[0] == '0' && text[1] != '.' && text[1] != ':' && !strings.Contains(text, ":") {
				continue // octal-looking IPv4: AMBIG, outside the universe
			}
			e := &event{Ev: "reverse", Text: hx.FromString(text)}
			a, err := dns.ReverseAddr(text)
			e.Ok, e.Arpa = err == nil, hx.FromString(a)
			seen["a:"+text] = true
			emit(e)
		case 2:
			var t uint32
			if r.Intn(3) == 0 {
				t = tb[r.Intn(len(tb))]
			} else {
				t = r.Uint32()
			}
			seen["t:"+strconv.Itoa(int(t))] = true
			emit(&event{Ev: "t2s", T: limbs(t), S: hx.FromString(dns.TimeToString(t))})
		case 3:
			y := []int{1, 1600, 1900, 1969, 1970, 2000, 2024, 2026, 2038, 2105, 2106, 2107, 2200, 2300, 5000, 9999, r.Intn(9999) + 1, r.Intn(300) + 1900}[r.Intn(18)]
			text := fmt.Sprintf("%04d%02d%02d%02d%02d%02d", y, r.Intn(13)+r.Intn(2), r.Intn(32)+r.Intn(2), r.Intn(25), r.Intn(61), r.Intn(61))
			if r.Intn(10) == 0 {
				text = mutate(text)
			}
			t, err := dns.StringToTime(text)
			seen["s:"+text] = true
			emit(&event{Ev: "s2t", Text: hx.FromString(text), Ok: err == nil, T: limbs(t)})
		default:
			s, o := rndName(), rndName()
			if o == "@" {
				o = "origin."
			}
			seen["o:"+s+"|"+o] = true
			emit(&event{Ev: "add", S: hx.FromString(s), Origin: hx.FromString(o), R: hx.FromString(dnsutil.AddOrigin(s, o))})
			e := &event{Ev: "trim", S: hx.FromString(s), Origin: hx.FromString(o)}
			if p := hx.Catch(func() { e.R = hx.FromString(dnsutil.TrimDomainName(s, o)) }); p != "" {
				e.Panic = true
			}
			emit(e)
		}
	}
	w.Close()
	sum.Nontrivial = len(seen)
	sum.Print()
}

func reexec(in, out string) {
	var sum hx.Summary
	w := hx.NewWriter(out)
	hx.ReadNDJSON(in, func(i int, e *event) {
		switch e.Ev {
		case "reverse":
			a, err := dns.ReverseAddr(e.Text.String())
			e.Ok, e.Arpa = err == nil, hx.FromString(a)
		case "t2s":
			e.S = hx.FromString(dns.TimeToString(uint32(e.T[0])<<16 | uint32(e.T[1])))
		case "s2t":
			t, err := dns.StringToTime(e.Text.String())
			e.Ok, e.T = err == nil, limbs(t)
		case "add":
			e.R = hx.FromString(dnsutil.AddOrigin(e.S.String(), e.Origin.String()))
		case "trim":
			e.R, e.Panic = nil, false
			if p := hx.Catch(func() { e.R = hx.FromString(dnsutil.TrimDomainName(e.S.String(), e.Origin.String())) }); p != "" {
				e.Panic = true
			}
		default:
			hx.Die("unknown event %q", e.Ev)
		}
		w.Emit(e)
		sum.Evaluations++
	})
	w.Close()
	sum.Print()
}
