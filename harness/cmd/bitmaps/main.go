// Command bitmaps binds spec/Bitmaps.tla (and WireRR's bitmap / APL encoders) to the real code.
//
//	bitmaps replay <vectors.ndjson> <events.ndjson>
//
// Every vector of Gen_Bitmaps goes through the wire side (PackRR / UnpackRR) and the text side (String / NewRR) of the
// record types that carry the sub-encoding (NSEC, NSEC3, CSYNC; APL; LOC; EUI48, EUI64, NID, L64) and the result is
// compared with the vector's.  The texts String() produces are written as events: Trace_Bitmaps READS them.
package main

import (
	"bytes"
	"fmt"
	"net"
	"os"
	"strings"

	"github.com/miekg/dns"

	"verifharness/lib/hx"
)

type Item struct {
	Fam    int  `json:"fam"`
	Neg    bool `json:"neg"`
	Prefix int  `json:"prefix"`
	Addr   hx.B `json:"addr"`
}

type Vector struct {
	Kind      string `json:"kind"`
	Rtype     int    `json:"rtype"`
	Octets    hx.B   `json:"octets"`
	St        string `json:"st"`
	Types     []int  `json:"types"`
	Wire      hx.B   `json:"wire"`
	MayRefuse bool   `json:"mayrefuse"`
	Items     []Item `json:"items"`
	Text      hx.B   `json:"text"`
	Ok        bool   `json:"ok"`
	Lax       bool   `json:"lax"`
	B         int    `json:"b"`
	Valid     bool   `json:"valid"`
	Value     hx.B   `json:"value"`
	N         int    `json:"n"`
	Eui       []hx.B `json:"eui"`
	Ilnp      []hx.B `json:"ilnp"`
}

// UnmarshalJSON: "octets" of a sizetext vector is a list of admissible size octets, "value" of a size vector a pair --
// both are lists of small integers, as hx.B is.

type Event struct {
	Ev    string `json:"ev"`
	Kind  string `json:"kind"`
	B     int    `json:"b"`
	Value hx.B   `json:"value"`
	Items []Item `json:"items"`
	Text  hx.B   `json:"text"`
	Cls   string `json:"cls"`
}

var (
	sum hx.Summary
	w   *hx.Writer
)

const hdr = "o. 0 IN "

func mnemonic(t int) string { return dns.TypeToString[uint16(t)] }

// rrWire builds the wire form of a record o. <type> IN 0 with the given RDATA.
func rrWire(t int, rdata []byte) []byte {
	b := []byte{1, 'o', 0, byte(t >> 8), byte(t), 0, 1, 0, 0, 0, 0, byte(len(rdata) >> 8), byte(len(rdata))}
	return append(b, rdata...)
}

func rdataOf(rr dns.RR) ([]byte, error) {
	buf := make([]byte, 70000)
	off, err := dns.PackRR(rr, buf, 0, nil, false)
	if err != nil {
		return nil, err
	}
	return buf[13:off], nil
}

func rdText(rr dns.RR) string {
	parts := strings.SplitN(rr.String(), "\t", 5)
	if len(parts) != 5 {
		return ""
	}
	return parts[4]
}

// fixed RDATA in front of the bitmap, per type
var prefixOf = map[int][]byte{47: {1, 'n', 0}, 50: {1, 0, 0, 0, 0, 1, 0xaa}, 62: {0, 0, 0, 7, 0, 3}}

func bitmapOf(rr dns.RR) []uint16 {
	switch r := rr.(type) {
	case *dns.NSEC:
		return r.TypeBitMap
	case *dns.NSEC3:
		return r.TypeBitMap
	case *dns.CSYNC:
		return r.TypeBitMap
	}
	return nil
}

func sameTypes(a []uint16, b []int) bool {
	if len(a) != len(b) {
		return false
	}
	for i := range a {
		if int(a[i]) != b[i] {
			return false
		}
	}
	return true
}

func itemsOf(rr dns.RR) []Item {
	out := []Item{}
	for _, p := range rr.(*dns.APL).Prefixes {
		ones, _ := p.Network.Mask.Size()
		fam := 1
		if len(p.Network.IP) == net.IPv6len {
			fam = 2
		}
		out = append(out, Item{fam, p.Negation, ones, hx.FromBytes(p.Network.IP)})
	}
	return out
}

func sameItems(a, b []Item) bool {
	if len(a) != len(b) {
		return false
	}
	for i := range a {
		if a[i].Fam != b[i].Fam || a[i].Neg != b[i].Neg || a[i].Prefix != b[i].Prefix || !bytes.Equal(a[i].Addr.Bytes(), b[i].Addr.Bytes()) {
			return false
		}
	}
	return true
}

func one(v *Vector) {
	sum.Evaluations++
	switch v.Kind {
	case "bmdec":
		mn := mnemonic(v.Rtype)
		rr, _, err := dns.UnpackRR(rrWire(v.Rtype, append(append([]byte{}, prefixOf[v.Rtype]...), v.Octets.Bytes()...)), 0)
		c := map[string]interface{}{"kind": v.Kind, "type": mn, "bitmap": v.Octets, "spec": v.St}
		switch {
		case v.St == "ok" && err != nil:
			sum.Mis("bitmaps/bmdec:rejects:"+mn, fmt.Sprintf("a conforming type bitmap is refused: %v", err), c)
		case v.St == "bad" && err == nil:
			sum.Mis("bitmaps/bmdec:accepts-bad:"+mn, fmt.Sprintf("a malformed type bitmap is accepted as %v", bitmapOf(rr)), c)
		case err == nil && v.St != "bad" && !sameTypes(bitmapOf(rr), v.Types):
			sum.Mis("bitmaps/bmdec:types:"+mn, fmt.Sprintf("decoded as %v, the specification reads %v", bitmapOf(rr), v.Types), c)
		}
	case "bmenc":
		ts := make([]uint16, len(v.Types))
		for i, t := range v.Types {
			ts[i] = uint16(t)
		}
		c := map[string]interface{}{"kind": v.Kind, "types": v.Types}
		for _, rr := range []dns.RR{&dns.NSEC{Hdr: dns.RR_Header{Name: "o.", Rrtype: dns.TypeNSEC, Class: 1}, NextDomain: "n.", TypeBitMap: ts},
			&dns.CSYNC{Hdr: dns.RR_Header{Name: "o.", Rrtype: dns.TypeCSYNC, Class: 1}, Serial: 7, Flags: 3, TypeBitMap: ts}} {
			mn := mnemonic(int(rr.Header().Rrtype))
			pre := prefixOf[int(rr.Header().Rrtype)]
			rd, err := rdataOf(rr)
			switch {
			case err != nil && !v.MayRefuse:
				sum.Mis("bitmaps/bmenc:rejects:"+mn, fmt.Sprintf("an increasing type list is refused: %v", err), c)
			case err == nil && !bytes.Equal(rd, append(append([]byte{}, pre...), v.Wire.Bytes()...)):
				sum.Mis("bitmaps/bmenc:octets:"+mn, fmt.Sprintf("packed as %x, the specification says %x after the fixed part", rd, v.Wire.Bytes()), c)
			case err == nil && !v.MayRefuse:
				// the text side: print, parse, pack
				rr2, perr := dns.NewRR(rr.String())
				if perr != nil || rr2 == nil {
					for _, t := range v.Types {
						if t == 0 || t == 65535 {
							mn += ":reserved-type-code"
							break
						}
					}
					sum.Mis("bitmaps/bmenc:text-reparse:"+mn, fmt.Sprintf("String() %q does not parse: %v", rr.String(), perr), c)
				} else if rd2, err2 := rdataOf(rr2); err2 != nil || !bytes.Equal(rd2, rd) {
					sum.Mis("bitmaps/bmenc:text-octets:"+mn, fmt.Sprintf("String() %q parses to %x, packed %x", rr.String(), rd2, rd), c)
				}
			}
		}
	case "apldec":
		rr, _, err := dns.UnpackRR(rrWire(42, v.Octets.Bytes()), 0)
		c := map[string]interface{}{"kind": v.Kind, "rdata": v.Octets, "spec": v.St}
		switch {
		case v.St == "ok" && err != nil:
			sum.Mis("bitmaps/apldec:rejects", fmt.Sprintf("conforming APL RDATA is refused: %v", err), c)
		case v.St == "bad" && err == nil:
			sum.Mis("bitmaps/apldec:accepts-bad", fmt.Sprintf("malformed APL RDATA is accepted as %v", rdText(rr)), c)
		case err == nil && v.St != "bad" && len(v.Items) > 0 && !sameItems(itemsOf(rr), v.Items):
			sum.Mis("bitmaps/apldec:items", fmt.Sprintf("decoded as %+v, the specification reads %+v", itemsOf(rr), v.Items), c)
		case err == nil && v.St == "ok" && len(v.Items) == 0 && len(itemsOf(rr)) != 0:
			sum.Mis("bitmaps/apldec:items", "items decoded from empty RDATA", c)
		}
	case "aplenc":
		rr := &dns.APL{Hdr: dns.RR_Header{Name: "o.", Rrtype: dns.TypeAPL, Class: 1}}
		for _, it := range v.Items {
			rr.Prefixes = append(rr.Prefixes, dns.APLPrefix{Negation: it.Neg, Network: net.IPNet{IP: net.IP(it.Addr.Bytes()), Mask: net.CIDRMask(it.Prefix, 8*len(it.Addr))}})
		}
		c := map[string]interface{}{"kind": v.Kind, "items": v.Items}
		rd, err := rdataOf(rr)
		switch {
		case err != nil:
			sum.Mis("bitmaps/aplenc:rejects", fmt.Sprintf("APL items are refused by Pack: %v", err), c)
		case !bytes.Equal(rd, v.Wire.Bytes()):
			sum.Mis("bitmaps/aplenc:octets", fmt.Sprintf("packed as %x, the specification says %x", rd, v.Wire.Bytes()), c)
		default:
			cls := ""
			for _, it := range v.Items {
				ip := net.IP(it.Addr.Bytes())
				if !ip.Mask(net.CIDRMask(it.Prefix, 8*len(ip))).Equal(ip) {
					cls = ":bits-beyond-prefix"
				}
			}
			w.Emit(Event{Ev: "text", Kind: "apl", Items: v.Items, Text: hx.FromString(rdText(rr)), Value: hx.B{}, Cls: "apl" + cls})
			if rr2, perr := dns.NewRR(rr.String()); perr != nil || rr2 == nil {
				sum.Mis("bitmaps/aplenc:text-reparse"+cls, fmt.Sprintf("String() %q does not parse: %v", rr.String(), perr), c)
			} else if rd2, err2 := rdataOf(rr2); err2 != nil || !bytes.Equal(rd2, rd) {
				sum.Mis("bitmaps/aplenc:text-octets", fmt.Sprintf("String() %q parses to %x, packed %x", rr.String(), rd2, rd), c)
			}
		}
	case "apltext":
		t := v.Text.String()
		rr, err := dns.NewRR(hdr + "APL " + t)
		c := map[string]interface{}{"kind": v.Kind, "text": t}
		var rd []byte
		if err == nil && rr != nil {
			rd, err = rdataOf(rr)
		}
		switch {
		case v.Ok && !v.Lax && err != nil:
			sum.Mis("bitmaps/apltext:rejects", fmt.Sprintf("%q is refused: %v", t, err), c)
		case !v.Ok && err == nil:
			sum.Mis("bitmaps/apltext:accepts", fmt.Sprintf("%q is accepted (RDATA %x)", t, rd), c)
		case v.Ok && err == nil && !bytes.Equal(rd, v.Wire.Bytes()):
			sum.Mis("bitmaps/apltext:octets", fmt.Sprintf("%q packs as %x, the specification says %x", t, rd, v.Wire.Bytes()), c)
		}
	case "size":
		b := uint8(v.B)
		rr := &dns.LOC{Hdr: dns.RR_Header{Name: "o.", Rrtype: dns.TypeLOC, Class: 1}, Size: b, HorizPre: b, VertPre: b, Latitude: 1 << 31, Longitude: 1 << 31, Altitude: 10000000}
		var s string
		if p := hx.Catch(func() { s = rr.String() }); p != "" {
			sum.Mis("bitmaps/size:string-panic", "LOC.String panics: "+p, v.B)
			return
		}
		f := strings.Fields(s)
		if len(f) < 3 {
			hx.Die("unexpected LOC text %q", s)
		}
		for k, pos := range []string{"size", "horizpre", "vertpre"} {
			w.Emit(Event{Ev: "text", Kind: "size:" + pos, B: v.B, Text: hx.FromString(f[len(f)-3+k]), Value: hx.B{}, Items: []Item{}})
		}
		// the wire side carries the octet as it is
		rd, err := rdataOf(rr)
		if err != nil || len(rd) != 16 || rd[1] != b || rd[2] != b || rd[3] != b {
			sum.Mis("bitmaps/size:pack", fmt.Sprintf("size octet %#x packs as %x (%v)", b, rd, err), v.B)
		}
	case "sizetext":
		t := v.Text.String()
		c := map[string]interface{}{"kind": v.Kind, "text": t}
		for k, pos := range []string{"size", "horizpre", "vertpre"} {
			toks := []string{"1m", "1m", "1m"}
			toks[k] = t
			var rr dns.RR
			var err error
			if p := hx.Catch(func() { rr, err = dns.NewRR(hdr + "LOC 1 2 3 N 4 5 6 E 10m " + strings.Join(toks, " ")) }); p != "" {
				sum.Mis("bitmaps/sizetext:panic", fmt.Sprintf("parsing LOC with %s %q panics: %s", pos, t, p), c)
				continue
			}
			got := -1
			if err == nil && rr != nil {
				l := rr.(*dns.LOC)
				got = int([]uint8{l.Size, l.HorizPre, l.VertPre}[k])
			}
			adm := false
			for _, o := range v.Octets {
				adm = adm || o == got
			}
			switch {
			case v.Ok && got == -1:
				sum.Mis("bitmaps/sizetext:rejects:"+pos, fmt.Sprintf("%q is refused: %v", t, err), c)
			case !v.Ok && got != -1:
				sum.Mis("bitmaps/sizetext:accepts:"+pos, fmt.Sprintf("%q is accepted as octet %#x", t, got), c)
			case v.Ok && !adm:
				sum.Mis("bitmaps/sizetext:octet:"+pos, fmt.Sprintf("%q becomes octet %#x, the specification admits %v", t, got, v.Octets), c)
			}
		}
	case "hex":
		var u uint64
		for _, o := range v.Value {
			u = u<<8 | uint64(o)
		}
		if len(v.Value) == 6 {
			w.Emit(Event{Ev: "text", Kind: "eui48", Value: v.Value, Text: hx.FromString(rdText(&dns.EUI48{Hdr: dns.RR_Header{Name: "o.", Rrtype: dns.TypeEUI48, Class: 1}, Address: u})), Items: []Item{}})
		} else {
			w.Emit(Event{Ev: "text", Kind: "eui64", Value: v.Value, Text: hx.FromString(rdText(&dns.EUI64{Hdr: dns.RR_Header{Name: "o.", Rrtype: dns.TypeEUI64, Class: 1}, Address: u})), Items: []Item{}})
			nid := strings.Fields(rdText(&dns.NID{Hdr: dns.RR_Header{Name: "o.", Rrtype: dns.TypeNID, Class: 1}, Preference: 10, NodeID: u}))
			l64 := strings.Fields(rdText(&dns.L64{Hdr: dns.RR_Header{Name: "o.", Rrtype: dns.TypeL64, Class: 1}, Preference: 10, Locator64: u}))
			w.Emit(Event{Ev: "text", Kind: "nid", Value: v.Value, Text: hx.FromString(nid[len(nid)-1]), Items: []Item{}})
			w.Emit(Event{Ev: "text", Kind: "l64", Value: v.Value, Text: hx.FromString(l64[len(l64)-1]), Items: []Item{}})
		}
	case "hextext":
		t := v.Text.String()
		type form struct {
			typ, pre string
			exp      []hx.B
			get      func(dns.RR) uint64
		}
		var forms []form
		if v.N == 6 {
			forms = []form{{"EUI48", "", v.Eui, func(r dns.RR) uint64 { return r.(*dns.EUI48).Address }}}
		} else {
			forms = []form{{"EUI64", "", v.Eui, func(r dns.RR) uint64 { return r.(*dns.EUI64).Address }},
				{"NID", "10 ", v.Ilnp, func(r dns.RR) uint64 { return r.(*dns.NID).NodeID }},
				{"L64", "10 ", v.Ilnp, func(r dns.RR) uint64 { return r.(*dns.L64).Locator64 }}}
		}
		for _, f := range forms {
			c := map[string]interface{}{"kind": v.Kind, "type": f.typ, "text": t}
			var rr dns.RR
			var err error
			if p := hx.Catch(func() { rr, err = dns.NewRR(hdr + f.typ + " " + f.pre + t) }); p != "" {
				sum.Mis("bitmaps/hextext:panic:"+f.typ, fmt.Sprintf("%q panics: %s", t, p), c)
				continue
			}
			ok := err == nil && rr != nil
			switch {
			case len(f.exp) == 1 && !ok:
				sum.Mis("bitmaps/hextext:rejects:"+f.typ, fmt.Sprintf("%q is refused: %v", t, err), c)
			case len(f.exp) == 0 && ok:
				cls := ":separator"
				if (f.typ == "NID" || f.typ == "L64") && len(t) > 19 {
					cls = ":trailing-characters"
				}
				sum.Mis("bitmaps/hextext:accepts:"+f.typ+cls, fmt.Sprintf("%q is accepted as %#x", t, f.get(rr)), c)
			case len(f.exp) == 1 && ok:
				var u uint64
				for _, o := range f.exp[0] {
					u = u<<8 | uint64(o)
				}
				if f.get(rr) != u {
					sum.Mis("bitmaps/hextext:value:"+f.typ, fmt.Sprintf("%q becomes %#x, the specification reads %#x", t, f.get(rr), u), c)
				}
			}
		}
	default:
		hx.Die("unknown vector kind %q", v.Kind)
	}
}

func main() {
	if len(os.Args) < 4 || os.Args[1] != "replay" {
		hx.Die("usage: bitmaps replay <vectors> <events>")
	}
	w = hx.NewWriter(os.Args[3])
	hx.ReadNDJSON(os.Args[2], func(i int, v *Vector) {
		if p := hx.Catch(func() { one(v) }); p != "" {
			sum.Mis("bitmaps/"+v.Kind+":panic", "the library panics: "+p, v)
		}
	})
	w.Close()
	sum.Nontrivial = sum.Evaluations
	sum.Print()
}
