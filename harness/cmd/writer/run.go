package main

import (
	"bytes"
	"encoding/binary"
	"encoding/hex"
	"fmt"
	"math"
	"strings"
	"sync"
	"time"

	"github.com/miekg/dns"

	"verifharness/lib/hx"
	"verifharness/lib/obsnet"
)

const (
	keyName   = "k."
	goodKey   = "c2VjcmV0LXNlY3JldC1zZWNyZXQ="
	wrongKey  = "d3Jvbmctd3Jvbmctd3Jvbmctd3Jvbmc="
	waitLimit = 10 * time.Second
)

// names of durations (Writer.tla speaks of durations by name only)
var durations = map[string]time.Duration{"2s": 2 * time.Second, "8s": 8 * time.Second, "1h": time.Hour, "3h": 3 * time.Hour}

// nameOf maps an observed relative deadline to the nearest name (within 10 %), so that the
// few microseconds between time.Now() in the server and the observation do not matter.
func nameOf(r obsnet.Rel) string {
	if r.Zero {
		return "none"
	}
	if r.Past() {
		return "past"
	}
	for n, d := range durations {
		if math.Abs(float64(r.D-d)) <= 0.1*float64(d) {
			return n
		}
	}
	return "other:" + r.D.Round(100*time.Millisecond).String()
}

// run is one script on one fresh server.
type run struct {
	sc   *Script
	srv  *dns.Server
	conn *obsnet.Conn
	pc   *obsnet.PacketConn

	mu     sync.Mutex
	evs    []Event
	dls    []string // every read deadline (pc: reported at the end)
	live   bool     // events are being recorded
	inop   int      // closes seen inside operations
	sig    chan string
	cur    *Req
	w      dns.ResponseWriter
	req    *dns.Msg
	served bool
}

var (
	hookMu  sync.Mutex
	current *run
	hangs   int // scripts on which the server did not reach the awaited point
)

// tooManyHangs: every further script would cost another time-out and say the same
func tooManyHangs() bool { return hangs >= 3 }

// installHook routes the server's verification events of the current run to its signal channel.
func installHook() {
	dns.VerifHook = func(ev string, srv *dns.Server, a, b uintptr) {
		if ev != dns.VerifEvHandlerExit && ev != dns.VerifEvWorkerExit {
			return
		}
		hookMu.Lock()
		r := current
		hookMu.Unlock()
		if r == nil || r.srv != srv {
			return
		}
		if ev == dns.VerifEvHandlerExit {
			r.signal("hexit")
		} else {
			r.signal("wexit")
		}
	}
}

func (r *run) signal(s string) {
	select {
	case r.sig <- s:
	default:
		hx.Die("signal channel overflow")
	}
}

// wait blocks until one of the wanted signals arrives ("" on time-out); others are dropped.
func (r *run) wait(want ...string) string {
	t := time.NewTimer(waitLimit)
	defer t.Stop()
	for {
		select {
		case s := <-r.sig:
			for _, w := range want {
				if s == w {
					return s
				}
			}
		case <-t.C:
			return ""
		}
	}
}

func (r *run) emit(e Event) {
	r.mu.Lock()
	if r.live {
		r.evs = append(r.evs, e)
	}
	r.mu.Unlock()
}

// sink receives the transport's observations (under the transport's mutex).
func (r *run) sink(kind string, rel obsnet.Rel, n int) {
	switch kind {
	case "rdl", "dl":
		name := nameOf(rel)
		r.mu.Lock()
		live := r.live
		if live {
			r.dls = append(r.dls, name)
			if stream(r.sc.Tr) {
				r.evs = append(r.evs, Event{Ev: "dl", D: name})
			}
		}
		r.mu.Unlock()
		if live {
			r.signal("dl")
		}
	}
}

func queryBytes(rq *Req, id uint16) []byte {
	m := new(dns.Msg)
	m.SetQuestion("x.", dns.TypeA)
	m.Id = id
	if rq.Kind == "ign" {
		m.Response = true // DefaultMsgAcceptFunc: a response is dropped
	}
	var b []byte
	var err error
	switch rq.Tsig {
	case "good", "bad":
		m.SetTsig(keyName, dns.HmacSHA256, 300, time.Now().Unix())
		k := goodKey
		if rq.Tsig == "bad" {
			k = wrongKey
		}
		b, _, err = dns.TsigGenerate(m, k, "", false)
	default:
		b, err = m.Pack()
	}
	if err != nil {
		hx.Die("building the query: %v", err)
	}
	return b
}

// replyOf builds a reply to req whose wire form has exactly n octets (n >= 30), or one that
// cannot be packed.
func replyOf(req *dns.Msg, n int, ok bool) (*dns.Msg, []byte) {
	m := new(dns.Msg)
	m.SetReply(req)
	if !ok {
		m.Rcode = 0xF00 // an extended RCODE without an OPT record: Pack refuses
		return m, nil
	}
	base, err := m.Pack()
	if err != nil {
		hx.Die("packing the bare reply: %v", err)
	}
	pad := n - len(base) - 11
	if pad < 0 {
		hx.Die("reply length %d is below the minimum %d", n, len(base)+11)
	}
	m.Answer = []dns.RR{&dns.RFC3597{Hdr: dns.RR_Header{Name: ".", Rrtype: 65280, Class: dns.ClassINET, Ttl: 1},
		Rdata: hex.EncodeToString(bytes.Repeat([]byte{0xA5}, pad))}}
	b, err := m.Pack()
	if err != nil || len(b) != n {
		hx.Die("padded reply has %d octets, wanted %d (%v)", len(b), n, err)
	}
	return m, b
}

func rawOf(n int) []byte {
	b := make([]byte, n)
	for i := range b {
		b[i] = byte(i*7 + 3)
	}
	return b
}

func errText(err error) string {
	if err == nil {
		return ""
	}
	if s := err.Error(); s != "" {
		return s
	}
	return "(empty error text)"
}

// transport log positions
func (r *run) marks() (int, int) {
	if r.conn != nil {
		return len(r.conn.Writes()), r.conn.Closes()
	}
	return len(r.pc.Out()), r.pc.Closes()
}

// frames describes the transport writes since position w0 against the payload handed to the writer.
func (r *run) frames(w0 int, payload []byte) []Frame {
	fs := []Frame{}
	if r.conn != nil {
		for _, b := range r.conn.Writes()[w0:] {
			f := Frame{Pre: hx.B{}, Len: -1}
			body := b
			if len(b) >= 2 {
				f.Pre, body = hx.FromBytes(b[:2]), b[2:]
			} else {
				f.Pre, body = hx.FromBytes(b), nil
			}
			if bytes.Equal(body, payload) {
				f.Len = len(body)
			}
			fs = append(fs, f)
		}
		return fs
	}
	for _, d := range r.pc.Out()[w0:] {
		f := Frame{Pre: hx.B{}, Len: -1}
		if bytes.Equal(d.Data, payload) {
			f.Len = len(d.Data)
		}
		if d.To != nil {
			f.To = d.To.String()
		} else {
			f.To = "(nil)"
		}
		fs = append(fs, f)
	}
	return fs
}

// do performs one operation on the writer and reports everything observable about it.
func (r *run) do(tag string, op Op) {
	w, req := r.w, r.req
	w0, c0 := r.marks()
	res := Res{}
	var payload []byte
	p := hx.Catch(func() {
		switch op.Op {
		case "WriteMsg":
			m, b := replyOf(req, op.Len, op.Ok)
			payload = b
			res.Err = errText(w.WriteMsg(m))
		case "Write":
			payload = rawOf(op.Len)
			n, err := w.Write(payload)
			res.N, res.Err = n, errText(err)
		case "Close":
			res.Err = errText(w.Close())
		case "Hijack":
			w.Hijack()
		case "TsigStatus":
			res.Err = errText(w.TsigStatus())
		case "LocalAddr":
			a := w.LocalAddr()
			var own string
			if r.conn != nil {
				own = r.conn.LocalAddr().String()
			} else {
				own = r.pc.LocalAddr().String()
			}
			switch {
			case a == nil:
				res.Val = "(nil)"
			case a.String() == own:
				res.Val = "local"
			default:
				res.Val = a.String()
			}
		case "RemoteAddr":
			a := w.RemoteAddr()
			switch {
			case a == nil:
				res.Val = "(nil)"
			case r.conn != nil && a.String() == r.conn.RemoteAddr().String():
				res.Val = "peer"
			default:
				res.Val = a.String()
			}
		case "ConnectionState":
			cs, ok := w.(dns.ConnectionStater)
			switch {
			case !ok:
				res.Val = "(no ConnectionStater)"
			default:
				st := cs.ConnectionState()
				switch {
				case st == nil:
					res.Val = "nil"
				case st.ServerName == obsnet.TLSMarker:
					res.Val = "state"
				default:
					res.Val = "(foreign state)"
				}
			}
		default:
			hx.Die("unknown operation %q", op.Op)
		}
	})
	if p != "" {
		res.Err = "panic: " + p
	}
	_, c1 := r.marks()
	res.Writes = r.frames(w0, payload)
	res.Closes = c1 - c0
	r.mu.Lock()
	r.inop += res.Closes
	r.mu.Unlock()
	r.emit(Event{Ev: tag, Op: op.Op, Len: ip(op.Len), Ok: bp(op.Ok), R: &res})
}

func (r *run) handle(w dns.ResponseWriter, req *dns.Msg) {
	r.w, r.req, r.served = w, req, true
	rq := r.cur
	if rq == nil {
		return
	}
	for _, op := range rq.Ops {
		r.do("op", op)
	}
	r.emit(Event{Ev: "ret"})
}

// runScript runs sc against a fresh dns.Server and returns the observed events.
func runScript(sc *Script, sum *hx.Summary) []Event {
	r := &run{sc: sc, sig: make(chan string, 4096), live: true}
	srv := &dns.Server{MaxTCPQueries: sc.MaxQ, TsigSecret: map[string]string{keyName: goodKey}}
	srv.Handler = dns.HandlerFunc(r.handle)
	if sc.RT != "" {
		srv.ReadTimeout = durations[sc.RT]
	}
	if sc.Idle != "" {
		d := durations[sc.Idle]
		srv.IdleTimeout = func() time.Duration { return d }
	}
	started := make(chan struct{}, 1)
	srv.NotifyStartedFunc = func() { started <- struct{}{} }
	r.srv = srv
	hookMu.Lock()
	current = r
	hookMu.Unlock()

	var ln *obsnet.Listener
	if stream(sc.Tr) {
		ln = obsnet.NewListener()
		srv.Listener = ln
		r.conn = obsnet.NewConn("c", r.sink)
	} else {
		r.pc = obsnet.NewPacketConn("p", r.sink)
		srv.PacketConn = r.pc
	}
	done := make(chan error, 1)
	go func() { done <- srv.ActivateAndServe() }()
	select {
	case <-started:
	case <-time.After(waitLimit):
		hx.Die("the server did not start")
	}

	hang := func(what string) {
		hangs++
		sum.Mis("writer/hang:"+what+":"+trclass(sc.Tr), "the server did not reach the awaited point within 10 s: "+what, brief(sc))
	}
	gone := false
	if stream(sc.Tr) {
		var c interface{} = r.conn
		if sc.Tr == "tls" {
			ln.Connect(obsnet.TLSConn{Conn: r.conn})
		} else {
			ln.Connect(r.conn)
		}
		_ = c
		switch r.wait("dl", "wexit") {
		case "":
			hang("first-read")
			gone = true
		case "wexit":
			gone = true
			r.fin()
		}
		for i := range sc.Reqs {
			if gone {
				break
			}
			rq := &sc.Reqs[i]
			r.cur = rq
			r.emit(Event{Ev: "msg", Kind: rq.Kind, Src: sp(rq.Src), Tsig: sp(rq.Tsig)})
			b := queryBytes(rq, uint16(i+1))
			fr := make([]byte, 2+len(b))
			binary.BigEndian.PutUint16(fr, uint16(len(b)))
			copy(fr[2:], b)
			r.conn.ClientSend(fr)
			// the worker reads the message, (runs the handler,) and then either blocks in its next read or ends
			switch r.wait("dl", "wexit") {
			case "":
				hang("after-message")
				gone = true
			case "wexit":
				gone = true
				r.fin()
			}
		}
		if !gone && sc.CliClose {
			r.emit(Event{Ev: "eof"})
			r.conn.ClientClose()
			if r.wait("wexit") == "" {
				hang("after-eof")
			} else {
				gone = true
				r.fin()
			}
		}
	} else {
		reads := 0
		for i := range sc.Reqs {
			rq := &sc.Reqs[i]
			r.cur = rq
			r.emit(Event{Ev: "msg", Kind: rq.Kind, Src: sp(rq.Src), Tsig: sp(rq.Tsig)})
			r.pc.ClientSend(queryBytes(rq, uint16(i+1)), obsnet.Addr(rq.Src))
			reads++
			if r.wait("wexit") == "" {
				hang("after-datagram")
				break
			}
		}
		// the loop sets one deadline per read; the last one belongs to the read it is blocked in now
		deadline := time.Now().Add(waitLimit)
		for {
			r.mu.Lock()
			n := len(r.dls)
			r.mu.Unlock()
			if n >= reads+1 || time.Now().After(deadline) {
				break
			}
			time.Sleep(50 * time.Microsecond) // waiting for a condition, not measuring time
		}
		r.mu.Lock()
		ds := append([]string{}, r.dls...)
		r.mu.Unlock()
		r.emit(Event{Ev: "pcdls", Ds: ds})
	}
	// operations after the worker has gone
	if r.served && (gone || !stream(sc.Tr)) {
		for _, op := range sc.Post {
			r.do("post", op)
		}
	}
	r.mu.Lock()
	r.live = false
	evs := r.evs
	r.mu.Unlock()

	// tear down
	sd := make(chan error, 1)
	go func() { sd <- srv.Shutdown() }()
	select {
	case <-sd:
	case <-time.After(waitLimit):
		hang("shutdown")
		return evs
	}
	select {
	case <-done:
	case <-time.After(waitLimit):
		hang("serve-return")
		return evs
	}
	hookMu.Lock()
	current = nil
	hookMu.Unlock()
	if n := srv.VerifConnCount(); n != 0 {
		sum.Mis("writer/conns-left:"+trclass(sc.Tr), fmt.Sprintf("%d connections still registered after shutdown", n), brief(sc))
	}
	return evs
}

// fin reports how the worker disposed of the connection.
func (r *run) fin() {
	r.mu.Lock()
	in := r.inop
	r.mu.Unlock()
	r.emit(Event{Ev: "fin", Closes: ip(r.conn.Closes() - in), Open: bp(!r.conn.Closed())})
}

var _ = strings.TrimSpace
