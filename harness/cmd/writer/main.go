// Command writer binds spec/Writer.tla to the real dns.Server / ResponseWriter.
//
//	writer replay <vectors.ndjson>      run every script of Gen_Writer against a fresh dns.Server on an
//	                                    in-memory transport and compare the observed events with the spec's
//	writer record <out.ndjson> <n>      n random scripts; the observed events go to Trace_Writer
//	writer reexec <in.ndjson> <out>     re-run the scripts of a replay file, write the observed events
//
// The harness never decides what is right: the expected events come from the vector, or TLC judges the
// recorded ones.
package main

import (
	"encoding/json"
	"fmt"
	"os"
	"reflect"
	"strconv"
	"strings"

	"verifharness/lib/hx"
)

// Op is one call on the ResponseWriter.
type Op struct {
	Op  string `json:"op"`
	Len int    `json:"len"`
	Ok  bool   `json:"ok"`
}

type Req struct {
	Kind string `json:"kind"`
	Src  string `json:"src"`
	Tsig string `json:"tsig"`
	Ops  []Op   `json:"ops"`
}

type Script struct {
	Tr       string  `json:"tr"`
	MaxQ     int     `json:"maxq"`
	RT       string  `json:"rt"`
	Idle     string  `json:"idle"`
	Reqs     []Req   `json:"reqs"`
	CliClose bool    `json:"cliclose"`
	Post     []Op    `json:"post"`
	Exp      []Event `json:"exp,omitempty"`
}

type Frame struct {
	Pre hx.B   `json:"pre"`
	Len int    `json:"len"`
	To  string `json:"to"`
}

type Res struct {
	Err    string  `json:"err"`
	N      int     `json:"n"`
	Writes []Frame `json:"writes"`
	Closes int     `json:"closes"`
	Val    string  `json:"val"`
}

// Event is one line of the trace (and of a vector's `exp`).
type Event struct {
	Ev string `json:"ev"`
	// conn
	Tr   string `json:"tr,omitempty"`
	MaxQ *int   `json:"maxq,omitempty"`
	RT   *string `json:"rt,omitempty"`
	Idle *string `json:"idle,omitempty"`
	// dl
	D string `json:"d,omitempty"`
	// msg
	Kind string  `json:"kind,omitempty"`
	Src  *string `json:"src,omitempty"`
	Tsig *string `json:"tsig,omitempty"`
	// op / post
	Op  string `json:"op,omitempty"`
	Len *int   `json:"len,omitempty"`
	Ok  *bool  `json:"ok,omitempty"`
	R   *Res   `json:"r,omitempty"`
	// fin
	Closes *int  `json:"closes,omitempty"`
	Open   *bool `json:"open,omitempty"`
	// pcdls
	Ds []string `json:"ds,omitempty"`
}

func ip(i int) *int          { return &i }
func bp(b bool) *bool        { return &b }
func sp(s string) *string    { return &s }
func stream(tr string) bool  { return tr == "tcp" || tr == "tls" }
func trclass(tr string) string {
	if stream(tr) {
		return "stream"
	}
	return "pc"
}

func main() {
	if len(os.Args) < 3 {
		hx.Die("usage: writer replay <vectors> | record <out> <n> | reexec <in> <out>")
	}
	installHook()
	var sum hx.Summary
	switch os.Args[1] {
	case "replay":
		replay(os.Args[2], &sum)
	case "record":
		n := 200
		if len(os.Args) > 3 {
			n, _ = strconv.Atoi(os.Args[3])
		}
		record(os.Args[2], n, &sum)
	case "reexec":
		w := hx.NewWriter(os.Args[3])
		hx.ReadNDJSON(os.Args[2], func(i int, sc *Script) {
			for _, e := range runScript(sc, &sum) {
				w.Emit(e)
			}
			sum.Evaluations++
		})
		w.Close()
	default:
		hx.Die("unknown mode %s", os.Args[1])
	}
	sum.Print()
}

// ---------------------------------------------------------------- replay

func errMatches(exp, obs string) bool {
	if exp == "*" {
		return obs != ""
	}
	return exp == obs
}

// diff names the first field in which the observed event departs from the expected one ("" = none).
func diff(exp, obs *Event) string {
	if exp.Ev != obs.Ev {
		return "kind"
	}
	switch exp.Ev {
	case "dl":
		if exp.D != obs.D {
			return "d"
		}
	case "msg", "ret", "eof":
	case "op", "post":
		if exp.Op != obs.Op {
			return "kind"
		}
		e, o := exp.R, obs.R
		switch {
		case !errMatches(e.Err, o.Err):
			if e.Err == "" {
				return "err:unexpected"
			}
			if o.Err == "" {
				return "err:missing"
			}
			return "err:text"
		case len(e.Writes) != len(o.Writes):
			return "writes:count"
		case e.Closes != o.Closes:
			return "closes"
		case e.Val != o.Val:
			return "val"
		}
		for i := range e.Writes {
			a, b := e.Writes[i], o.Writes[i]
			if !reflect.DeepEqual(a.Pre.Bytes(), b.Pre.Bytes()) {
				return "writes:prefix"
			}
			if a.Len != b.Len {
				return "writes:body"
			}
			if a.To != b.To {
				return "writes:to"
			}
		}
		if e.N != o.N {
			return fmt.Sprintf("n-len=%+d", o.N-e.N)
		}
	case "fin":
		if *exp.Closes != *obs.Closes {
			return "closes"
		}
		if *exp.Open != *obs.Open {
			return "open"
		}
	case "pcdls":
		if !reflect.DeepEqual(exp.Ds, obs.Ds) {
			return "ds"
		}
	}
	return ""
}

func evName(e *Event) string {
	if e.Ev == "op" || e.Ev == "post" {
		return e.Ev + ":" + e.Op
	}
	return e.Ev
}

func replay(path string, sum *hx.Summary) {
	seen := map[string]bool{}
	hx.ReadNDJSON(path, func(i int, sc *Script) {
		if tooManyHangs() {
			return
		}
		exp := sc.Exp
		obs := runScript(sc, sum)
		sum.Evaluations++
		sig := fmt.Sprint(sc.Tr, sc.MaxQ, len(sc.Reqs), len(exp))
		if !seen[sig] {
			seen[sig] = true
			sum.Nontrivial++
		}
		if i%997 == 0 {
			sum.Sample(map[string]interface{}{"script": brief(sc), "observed": obs})
		}
		cs := brief(sc)
		n := len(exp)
		if len(obs) < n {
			n = len(obs)
		}
		for k := 0; k < n; k++ {
			if d := diff(&exp[k], &obs[k]); d != "" {
				if strings.HasPrefix(d, "n-len=") {
					// only Write's count is off: the connection's state is as expected, go on comparing
					sum.Mis("writer/"+evName(&exp[k])+":"+d+":"+trclass(sc.Tr),
						fmt.Sprintf("event %d: the specification expects %s, observed %s", k+1, js(exp[k]), js(obs[k])), cs)
					continue
				}
				if d == "kind" {
					sum.Mis("writer/next:"+evName(&exp[k])+":got:"+evName(&obs[k])+":"+trclass(sc.Tr),
						fmt.Sprintf("event %d: the specification expects %s, observed %s", k+1, js(exp[k]), js(obs[k])), cs)
				} else {
					sum.Mis("writer/"+evName(&exp[k])+":"+d+":"+trclass(sc.Tr),
						fmt.Sprintf("event %d: the specification expects %s, observed %s", k+1, js(exp[k]), js(obs[k])), cs)
				}
				return
			}
		}
		if len(obs) > len(exp) {
			sum.Mis("writer/next:nothing:got:"+evName(&obs[n])+":"+trclass(sc.Tr),
				fmt.Sprintf("after event %d the specification expects nothing more, observed %s", n, js(obs[n])), cs)
		} else if len(exp) > len(obs) {
			sum.Mis("writer/next:"+evName(&exp[n])+":got:nothing:"+trclass(sc.Tr),
				fmt.Sprintf("after event %d the specification expects %s, nothing was observed", n, js(exp[n])), cs)
		}
	})
}

func brief(sc *Script) *Script {
	c := *sc
	c.Exp = nil
	return &c
}

func js(v interface{}) string {
	b, _ := json.Marshal(v)
	return string(b)
}

// ---------------------------------------------------------------- record

func record(out string, n int, sum *hx.Summary) {
	rng := hx.Rand()
	w := hx.NewWriter(out)
	defer w.Close()
	ops := []string{"WriteMsg", "WriteMsg", "WriteMsg", "Write", "Write", "Close", "Hijack", "TsigStatus", "LocalAddr", "RemoteAddr", "ConnectionState"}
	lens := []int{30, 31, 40, 255, 256, 257, 511, 512, 513, 1232, 4096, 65535}
	rndOp := func(tr string) Op {
		o := Op{Op: ops[rng.Intn(len(ops))], Ok: true}
		switch o.Op {
		case "WriteMsg":
			o.Len = lens[rng.Intn(len(lens))]
			if rng.Intn(3) == 0 {
				o.Len = 30 + rng.Intn(3000)
			}
			o.Ok = rng.Intn(8) != 0
		case "Write":
			switch rng.Intn(6) {
			case 0:
				o.Len = 65536 + rng.Intn(3)
			case 1:
				o.Len = rng.Intn(3)
			case 2:
				o.Len = 65533 + rng.Intn(3)
			default:
				o.Len = rng.Intn(2000)
			}
		}
		return o
	}
	trs := []string{"tcp", "tcp", "tls", "pc"}
	for i := 0; i < n && !tooManyHangs(); i++ {
		sc := &Script{Tr: trs[rng.Intn(len(trs))]}
		sc.MaxQ = []int{0, 0, -1, 1, 2, 3, 4}[rng.Intn(7)]
		sc.RT = []string{"", "1h"}[rng.Intn(2)]
		sc.Idle = []string{"", "3h"}[rng.Intn(2)]
		sc.CliClose = rng.Intn(3) != 0
		nreq := rng.Intn(6)
		for k := 0; k < nreq; k++ {
			r := Req{Kind: "query", Src: fmt.Sprintf("cli:%d", 1+rng.Intn(5)), Tsig: []string{"", "", "good", "bad"}[rng.Intn(4)]}
			// a dropped message under a finite limit is the AMBIG case of Writer!Deliver: Trace_Writer admits both
			// readings, so it may be generated freely
			if rng.Intn(7) == 0 {
				r.Kind, r.Tsig = "ign", ""
			} else {
				for j := rng.Intn(6); j > 0; j-- {
					r.Ops = append(r.Ops, rndOp(sc.Tr))
				}
			}
			sc.Reqs = append(sc.Reqs, r)
		}
		for j := rng.Intn(4); j > 0; j-- {
			sc.Post = append(sc.Post, rndOp(sc.Tr))
		}
		w.Emit(Event{Ev: "conn", Tr: sc.Tr, MaxQ: ip(sc.MaxQ), RT: sp(sc.RT), Idle: sp(sc.Idle)})
		evs := runScript(sc, sum)
		for _, e := range evs {
			e.Tr = sc.Tr
			w.Emit(e)
		}
		sum.Evaluations += 1 + len(evs)
		if i < 2 {
			sum.Sample(map[string]interface{}{"script": sc, "observed": evs})
		}
	}
	sum.Nontrivial = n
}
