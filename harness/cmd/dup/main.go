// Command dup binds spec/Dup.tla to the real code (property C20).
//
//	dup replay <vectors.ndjson> <shard> <nshards> [kind]
//	    pair / triple vectors: abstract records [t, c, o, ttl, n, v] with the verdict of
//	    Dup.tla; instantiated for every record type and every field of it (reflection:
//	    n ranges over the fields tagged as domain names, v over every other scalar cell)
//	    and compared with dns.IsDuplicate.  list vectors: lists over the six Dedup
//	    symbols with the surviving indexes and TTLs; compared with dns.Dedup(list, nil).
//	    lens vectors: two selections of the elements of a base list, applied to EVERY slice of
//	    every type; hdrbit vectors: two values of the class / type / TTL differing in one bit.
//	dup record <out.ndjson> <n>
//	    random pairs of records obtained from the wire (their uncompressed owner/RDATA
//	    octets from the real Pack, spans of embedded names) with the real IsDuplicate in
//	    both orders, and random lists with the real Dedup result, for Trace_Dup.
//	dup sweep <out.ndjson> <shard> <nshards>
//	    exhaustive single-octet RDATA overwrites, address / text spellings, every slice with
//	    elements dropped or repeated, every bit of the type / class / TTL octets flipped.
//	dup kinds
package main

import (
	"bytes"
	"fmt"
	"math/rand"
	"net"
	"os"
	"reflect"
	"sort"
	"strconv"
	"strings"

	"github.com/miekg/dns"

	"verifharness/lib/hx"
	rw "verifharness/lib/reflectwalk"
)

// ---------------------------------------------------------------------------
// kinds: every type, plus the gateway variants of IPSECKEY / AMTRELAY

func kinds() []rw.Kind {
	ks := rw.Kinds()
	ipsec := func(name string, gt uint8, addr []byte, host string) rw.Kind {
		return rw.Kind{Name: name, Type: dns.TypeIPSECKEY, Build: func() dns.RR {
			rr := &dns.IPSECKEY{}
			rw.Populate(rr, dns.TypeIPSECKEY)
			rr.GatewayType, rr.GatewayAddr, rr.GatewayHost = gt, append([]byte(nil), addr...), host
			return rr
		}}
	}
	amt := func(name string, gt uint8, addr []byte, host string) rw.Kind {
		return rw.Kind{Name: name, Type: dns.TypeAMTRELAY, Build: func() dns.RR {
			rr := &dns.AMTRELAY{}
			rw.Populate(rr, dns.TypeAMTRELAY)
			rr.GatewayType, rr.GatewayAddr, rr.GatewayHost = gt, append([]byte(nil), addr...), host
			return rr
		}}
	}
	v4 := []byte{192, 0, 2, 53}
	v6 := []byte{0x20, 0x01, 0x0d, 0xb8, 0, 0, 0, 0, 0, 0, 0, 0, 0, 0, 0, 0x35}
	ks = append(ks,
		ipsec("IPSECKEY/none", 0, nil, ""), ipsec("IPSECKEY/v4", 1, v4, ""), ipsec("IPSECKEY/host", 3, nil, "Gw.Example.ORG."),
		amt("AMTRELAY/none", 0, nil, ""), amt("AMTRELAY/v6", 2, v6, ""), amt("AMTRELAY/host", 3, nil, "Gw.Example.ORG."),
		amt("AMTRELAY/v4+D", 0x81, v4, ""), amt("AMTRELAY/host+D", 0x83, nil, "Gw.Example.ORG."),
		// an alpn list whose first protocol id is the single octet 0x00
		rw.Kind{Name: "SVCB/alpn-nul", Type: dns.TypeSVCB, Build: func() dns.RR {
			rr := &dns.SVCB{}
			rw.Populate(rr, dns.TypeSVCB)
			rr.Value = []dns.SVCBKeyValue{&dns.SVCBAlpn{Alpn: []string{"\x00", "h2"}}, &dns.SVCBPort{Port: 443}}
			return rr
		}})
	return ks
}

func keyName(kind string) string {
	k := strings.ToLower(kind)
	if k == "verifpriv" {
		return "privaterr"
	}
	return k
}

func isNameTag(t string) bool {
	return t == "domain-name" || t == "cdomain-name" || t == "ipsechost" || t == "amtrelayhost"
}

func swapCase(s string) string {
	b := []byte(s)
	for i, c := range b {
		if c >= 'a' && c <= 'z' {
			b[i] = c - 32
		} else if c >= 'A' && c <= 'Z' {
			b[i] = c + 32
		}
	}
	return string(b)
}

func packRR(rr dns.RR) ([]byte, error) {
	b := make([]byte, dns.Len(rr)+64)
	off, err := dns.PackRR(rr, b, 0, nil, false)
	if err != nil {
		return nil, err
	}
	return b[:off], nil
}

// rdataOf splits an uncompressed packed RR into owner octets and RDATA octets.
func rdataOf(w []byte) (ow, rd []byte) {
	i := 0
	for i < len(w) && w[i] != 0 {
		i += int(w[i]) + 1
	}
	i++
	return w[:i], w[i+10:]
}

// change puts a different, still well-formed value into a cell.
func change(c *rw.Cell) {
	v := c.V
	switch c.Kind {
	case reflect.Bool:
		v.SetBool(!v.Bool())
	case reflect.Int, reflect.Int8, reflect.Int16, reflect.Int32, reflect.Int64:
		v.SetInt(v.Int() ^ 1)
	case reflect.Uint, reflect.Uint8, reflect.Uint16, reflect.Uint32, reflect.Uint64:
		v.SetUint(v.Uint() ^ 1)
	case reflect.String:
		s := v.String()
		switch c.Tag {
		case "hex", "size-hex", "base64", "size-base64", "size-base32":
			if len(s) > 0 {
				r := map[byte]byte{'a': 'b', 'A': 'B', '0': '1'}[s[0]]
				if r == 0 {
					r = 'a'
					if s[0] == 'a' {
						r = 'b'
					}
				}
				s = string(r) + s[1:]
			}
		default:
			s += "x"
		}
		v.SetString(s)
	}
}

// inst maps abstract records to concrete records of one kind, varying one name cell
// and one value cell.
type inst struct {
	kind     rw.Kind
	namePath string // "" = the kind has no embedded name
	valPath  string // "" = no other field
}

func cellAt(rr dns.RR, path string) *rw.Cell {
	_, cells := rw.WalkCells(rr)
	for i := range cells {
		if cells[i].Path == path {
			return &cells[i]
		}
	}
	hx.Die("cell %s not found", path)
	return nil
}

// abstract record: t, c, o, ttl, n, v
type abs [6]int

func (in *inst) make(a abs) dns.RR {
	rr := in.kind.Build()
	h := rr.Header()
	if a[0] != 1 {
		h.Rrtype = 65001 // "another type": the header says so
	}
	if a[1] != 1 {
		h.Class = dns.ClassCHAOS
	}
	switch a[2] {
	case 'A':
		h.Name = swapCase(h.Name)
	case 'b':
		h.Name = "Other." + h.Name
	}
	h.Ttl = uint32(a[3]) * 3600
	if in.namePath != "" && a[4] != 'x' {
		c := cellAt(rr, in.namePath)
		if a[4] == 'X' {
			c.V.SetString(swapCase(c.V.String()))
		} else {
			c.V.SetString("y" + c.V.String())
		}
	}
	if in.valPath != "" && a[5] != 0 {
		change(cellAt(rr, in.valPath))
	}
	return rr
}

// classify the cells of a kind: embedded names, other fields (header excluded)
func cellsOf(k rw.Kind) (names, vals []string) {
	rr := k.Build()
	_, cells := rw.WalkCells(rr)
	for _, c := range cells {
		if c.Ref || strings.Contains(c.Path, ".Hdr.") {
			continue
		}
		if c.Kind == reflect.String && isNameTag(c.Tag) {
			names = append(names, c.Path)
		} else {
			vals = append(vals, c.Path)
		}
	}
	return
}

// valid reports whether the instantiation is faithful: the concrete records for all
// (n, v) combinations pack, and their octets differ exactly where the abstract records
// do (a cell that is not on the wire -- GatewayHost of an IPSECKEY with an address gateway,
// address bits beyond the prefix -- or that changes what another cell means is not an
// independent field of the record's value).
func (in *inst) valid() bool {
	ns := []int{'x'}
	if in.namePath != "" {
		ns = []int{'x', 'X', 'y'}
	}
	vs := []int{0}
	if in.valPath != "" {
		vs = []int{0, 1}
	}
	type pk struct {
		n, v int
		w    []byte
	}
	var all []pk
	for _, n := range ns {
		for _, v := range vs {
			w, err := packRR(in.make(abs{1, 1, 'a', 1, n, v}))
			if err != nil {
				return false
			}
			all = append(all, pk{n, v, w})
		}
	}
	for i := range all {
		for j := i + 1; j < len(all); j++ {
			a, b := all[i], all[j]
			if bytes.Equal(a.w, b.w) {
				return false
			}
			fold := foldASCII(a.w, b.w)
			if fold != (a.v == b.v && a.n|32 == b.n|32) {
				return false
			}
		}
	}
	return true
}

func foldASCII(a, b []byte) bool {
	if len(a) != len(b) {
		return false
	}
	for i := range a {
		x, y := a[i], b[i]
		if x >= 'A' && x <= 'Z' {
			x += 32
		}
		if y >= 'A' && y <= 'Z' {
			y += 32
		}
		if x != y {
			return false
		}
	}
	return true
}

// unsortOK: reversing the record's lists gives another spelling of the SAME record (the
// packed octets do not change: SVCB/HTTPS parameters are sorted by key on the wire).
func (in *inst) unsortOK() bool {
	return respell(in.make(abs{1, 1, 'a', 1, 'x', 0}))
}

// respell reverses every list of rr whose order is not part of the record: the packed octets
// stay the same.
func respell(rr dns.RR) bool {
	w0, err := packRR(rr)
	if err != nil {
		return false
	}
	return rw.UnsortIf(rr, func() bool {
		w1, err := packRR(rr)
		return err == nil && bytes.Equal(w0, w1)
	})
}

// textual reports whether changing the value cell changes the record's text (Dedup works on text).
func (in *inst) textual() bool {
	a := in.make(abs{1, 1, 'a', 1, 'x', 0})
	b := in.make(abs{1, 1, 'a', 1, 'x', 1})
	return a.String() != b.String()
}

// ---------------------------------------------------------------------------
// replay

type vec struct {
	Kind   string `json:"kind"`
	A      abs    `json:"a"`
	B      abs    `json:"b"`
	C      abs    `json:"c"`
	Dup    bool   `json:"dup"`
	AB     bool   `json:"ab"`
	BC     bool   `json:"bc"`
	AC     bool   `json:"ac"`
	Q      []int  `json:"q"`
	Names  bool   `json:"names"`
	Keep   []int  `json:"keep"`
	Ttls   []int  `json:"ttls"`
	Q2     []int  `json:"q2"`
	Keep2  []int  `json:"keep2"`
	Ttls2  []int  `json:"ttls2"`
	Shape  int    `json:"shape"`
	Owners []hx.B `json:"owners"`
	Oct    int    `json:"oct"`
	W      int    `json:"w"`
	Ta     hx.B   `json:"ta"`
	Tb     hx.B   `json:"tb"`
	Ra     hx.B   `json:"ra"` // octet / rawname: the same two names spelled with RAW octets (only . and \ escaped)
	Rb     hx.B   `json:"rb"`
	Wa     hx.B   `json:"wa"` // ... and their wire form
	Wb     hx.B   `json:"wb"`
	N      int    `json:"n"`  // lens: length of the base list
	La     []int  `json:"la"` // lens: element numbers of the first / second record's list
	Lb     []int  `json:"lb"`
	F      string `json:"f"`   // hdrbit: class | type | ttl
	Bit    int    `json:"bit"` // hdrbit: the bit in which the two header values differ
	Va     []int  `json:"va"`  // hdrbit: the value in the first / second record (TTL: two 16-bit limbs)
	Vb     []int  `json:"vb"`
	// replay files
	UA    bool   `json:"ua,omitempty"`
	UB    bool   `json:"ub,omitempty"`
	RKind string `json:"rkind,omitempty"`
	NameP string `json:"namep,omitempty"`
	ValP  string `json:"valp,omitempty"`
	ListP string `json:"listp,omitempty"` // lens: the slice the selection is applied to
	How   string `json:"how,omitempty"`   // lens / hdrbit: as-built | from-the-wire
}

func rel(a, b abs) string {
	var d []string
	names := []string{"type", "class", "owner", "ttl", "name", "value"}
	for i := range a {
		if a[i] != b[i] {
			s := names[i]
			if (i == 2 || i == 4) && (a[i]|32) == (b[i]|32) {
				s += "-case"
			}
			d = append(d, s)
		}
	}
	if len(d) == 0 {
		return "identical"
	}
	return strings.Join(d, "+")
}

func fieldOf(path string) string {
	// *.Value[3].(*dns.SVCBPort)*.Port -> value-svcbport-port ; *.Mx -> mx
	p := strings.NewReplacer("*dns.", "", "*", "", "(", "", ")", "", "[", "", "]", "").Replace(path)
	p = strings.Trim(p, ".")
	out := make([]rune, 0, len(p))
	for _, r := range strings.ToLower(p) {
		if r >= '0' && r <= '9' {
			continue
		}
		if r == '.' {
			r = '-'
		}
		out = append(out, r)
	}
	return strings.ReplaceAll(string(out), "--", "-")
}

type replayer struct {
	noTriples bool // quick tier: triples for the first two instantiations of a kind only
	ua, ub    bool
	sum       *hx.Summary
	seen      map[string]bool
	skips     map[string]int
	lskips    int
}

func (rp *replayer) caseOf(in *inst, v *vec) map[string]interface{} {
	c := *v
	c.RKind, c.NameP, c.ValP = in.kind.Name, in.namePath, in.valPath
	c.UA, c.UB = rp.ua, rp.ub
	return map[string]interface{}{"vector": c}
}

func (rp *replayer) pairs(in *inst, vecs []*vec, useName, useVal bool) {
	rp.pairsU(in, vecs, useName, useVal, false, false)
}

// pairsU: ua / ub = the first / second argument is given with its lists in reversed order.
func (rp *replayer) pairsU(in *inst, vecs []*vec, useName, useVal, ua, ub bool) {
	rp.ua, rp.ub = ua, ub
	defer func() { rp.ua, rp.ub = false, false }()
	type ck struct {
		a abs
		u bool
	}
	cache := map[ck]dns.RR{}
	mk := func(a abs, u bool) dns.RR {
		r := in.make(a)
		if u {
			respell(r)
		}
		return r
	}
	getU := func(a abs, u bool) dns.RR {
		if r, ok := cache[ck{a, u}]; ok {
			return r
		}
		r := mk(a, u)
		cache[ck{a, u}] = r
		return r
	}
	get := func(a abs) dns.RR { return getU(a, ua) }
	order := ""
	if ua {
		order += ":first-unsorted"
	}
	if ub {
		order += ":second-unsorted"
	}
	base := abs{1, 1, 'a', 1, 'x', 0}
	never := !dns.IsDuplicate(in.make(base), in.make(base))
	kn := keyName(in.kind.Name)
	check := func(a, b abs, exp bool, v *vec) bool {
		ra, rb := get(a), getU(b, ub)
		if a == b {
			rb = mk(b, ub) // a separately built equal record, and a copy
			if !dns.IsDuplicate(ra, dns.Copy(ra)) {
				key := "isduplicate/false-negative:" + kn + ":copy" + order
				if never {
					key = "isduplicate/" + kn + "-never-duplicate"
				}
				rp.sum.Mis(key, fmt.Sprintf("%s: IsDuplicate(x, Copy(x)) = false", in.kind.Name), rp.caseOf(in, v))
			}
		}
		got := dns.IsDuplicate(ra, rb)
		rp.sum.Evaluations++
		rp.seen[kn+"/"+rel(a, b)+order+"/"+strconv.FormatBool(got)] = true
		if got == exp {
			return got
		}
		var key string
		switch {
		case exp && never:
			key = "isduplicate/" + kn + "-never-duplicate"
		case exp:
			key = "isduplicate/false-negative:" + kn + ":" + rel(a, b)
			if a[4] != b[4] {
				key += ":" + fieldOf(in.namePath)
			}
		default:
			key = "isduplicate/false-positive:" + kn + ":" + rel(a, b)
			if a[4] != b[4] {
				key += ":" + fieldOf(in.namePath)
			}
			if a[5] != b[5] {
				key += ":" + fieldOf(in.valPath)
			}
		}
		if !(exp && never) {
			key += order
		}
		rp.sum.Mis(key, fmt.Sprintf("%s: IsDuplicate = %v, Dup.tla says %v for records differing in {%s} (name field %s, value field %s)",
			in.kind.Name, got, exp, rel(a, b), in.namePath, in.valPath), rp.caseOf(in, v))
		return got
	}
	ok := func(a abs) bool { return (useName || a[4] == 'x') && (useVal || a[5] == 0) }
	for _, v := range vecs {
		switch v.Kind {
		case "pair":
			if ok(v.A) && ok(v.B) {
				check(v.A, v.B, v.Dup, v)
			}
		case "triple":
			if !rp.noTriples && ok(v.A) && ok(v.B) && ok(v.C) {
				ab := check(v.A, v.B, v.AB, v)
				bc := check(v.B, v.C, v.BC, v)
				ac := check(v.A, v.C, v.AC, v)
				if ab && bc && !ac {
					rp.sum.Mis("isduplicate/not-transitive:"+kn, in.kind.Name+": IsDuplicate(a,b), IsDuplicate(b,c) but not IsDuplicate(a,c)", rp.caseOf(in, v))
				}
			}
		}
	}
}

// judgeDedup compares one Dedup result with the vector: "" or what is wrong.
func judgeDedup(out, orig []dns.RR, keep, ttls []int) string {
	if len(out) != len(keep) {
		return "count"
	}
	for k := range out {
		if out[k] != orig[keep[k]-1] {
			return "order-or-identity"
		}
		if out[k].Header().Ttl != uint32(ttls[k]) {
			return "ttl"
		}
	}
	return ""
}

// seqs: two Dedup calls in a row -- scratch map nil both times, a fresh map each time, ONE map
// for both calls.  Each result must be what Dup.tla says for that call's argument alone, and
// the second call must leave the first result alone.
func (rp *replayer) seqs(in *inst, vecs []*vec, hasName, hasVal bool) {
	kn := keyName(in.kind.Name)
	for _, v := range vecs {
		if v.Kind != "seq" || v.Names != hasName {
			continue
		}
		for _, mode := range []string{"nil-map", "fresh-maps", "reused-map"} {
			mkList := func(q []int) []dns.RR {
				l := make([]dns.RR, len(q))
				for i, s := range q {
					l[i] = in.symbol(s, hasName, hasVal)
				}
				return l
			}
			l1, l2 := mkList(v.Q), mkList(v.Q2)
			o1, o2 := append([]dns.RR(nil), l1...), append([]dns.RR(nil), l2...)
			var m1, m2 map[string]dns.RR
			switch mode {
			case "fresh-maps":
				m1, m2 = map[string]dns.RR{}, map[string]dns.RR{}
			case "reused-map":
				m1 = map[string]dns.RR{}
				m2 = m1
			}
			out1 := dns.Dedup(l1, m1)
			bad1 := judgeDedup(out1, o1, v.Keep, v.Ttls)
			out2 := dns.Dedup(l2, m2)
			bad2 := judgeDedup(out2, o2, v.Keep2, v.Ttls2)
			after := judgeDedup(out1, o1, v.Keep, v.Ttls) // the earlier result, looked at again
			rp.sum.Evaluations += 2
			rp.seen[kn+"/dedup-seq/"+mode+"/"+strconv.Itoa(len(out1))+","+strconv.Itoa(len(out2))] = true
			first := "after-a-call-that-removed-duplicates"
			if len(v.Keep) == len(v.Q) {
				first = "after-an-all-distinct-call"
			}
			c := rp.caseOf(in, v)
			what := fmt.Sprintf("%s, %s: Dedup(%v) then Dedup(%v): ", in.kind.Name, mode, v.Q, v.Q2)
			if bad1 != "" {
				rp.sum.Mis("dedup/"+bad1+":"+kn, what+"first result wrong ("+bad1+")", c)
				continue
			}
			if bad2 != "" {
				key := "dedup/" + bad2 + ":second-call:" + mode + ":" + kn
				if mode == "reused-map" {
					key = "dedup/reused-map:" + first + ":" + bad2
				}
				rp.sum.Mis(key, what+fmt.Sprintf("second result wrong (%s): %d records, Dup.tla keeps %v with TTLs %v", bad2, len(out2), v.Keep2, v.Ttls2), c)
			}
			if after != "" {
				key := "dedup/earlier-result-changed:" + mode + ":" + kn
				if mode == "reused-map" {
					key = "dedup/reused-map:" + first + ":earlier-result-" + after
				}
				rp.sum.Mis(key, what+"the second call changed the first call's result ("+after+")", c)
			}
		}
	}
}

// octets: names that differ in one octet c / c XOR 0x20 ("octet"), names as label sequences
// ("name2"), names of raw octets related by Unicode -- not DNS -- case folding ("rawname"), as
// owner and in every embedded name.  Two spellings: escaped (the presentation form Unpack gives)
// and raw (every octet itself, what a hand-built record or the zone parser holds for an octet
// >= 0x80); a raw spelling is used where the library packs it to the wire form of the vector.
func (rp *replayer) octets(k rw.Kind, names []string, vecs []*vec) {
	kn := keyName(k.Name)
	base := &inst{kind: k}
	never := !dns.IsDuplicate(base.make(abs{1, 1, 'a', 1, 'x', 0}), base.make(abs{1, 1, 'a', 1, 'x', 0}))
	var usable []string
	for _, n := range names {
		if (&inst{kind: k, namePath: n}).valid() {
			usable = append(usable, n)
		}
	}
	// one pair of records per place; the name under test is set anew for every vector
	type place struct {
		where, field string
		ra, rb       dns.RR
		seta, setb   func(s string)
	}
	var places [3][]*place // by v.W
	{
		ra, rb := k.Build(), k.Build()
		places[1] = append(places[1], &place{"owner", "", ra, rb, func(s string) { ra.Header().Name = s }, func(s string) { rb.Header().Name = s }})
	}
	for _, n := range usable {
		ra, rb := k.Build(), k.Build()
		ca, cb := cellAt(ra, n), cellAt(rb, n)
		places[2] = append(places[2], &place{"name", ":" + fieldOf(n), ra, rb, func(s string) { ca.V.SetString(s) }, func(s string) { cb.V.SetString(s) }})
	}
	packs := func(s string, w []byte) bool {
		buf := make([]byte, 300)
		off, err := dns.PackDomainName(s, buf, 0, nil, false)
		return err == nil && bytes.Equal(buf[:off], w)
	}
	for _, v := range vecs {
		if v.Kind != "octet" && v.Kind != "name2" && v.Kind != "rawname" {
			continue
		}
		what := "octet-xor-0x20"
		switch v.Kind {
		case "name2": // two label sequences: a dot octet inside a label is not a label boundary
			what = "label-sequence"
		case "rawname": // octet strings that only a Unicode-aware comparison relates
			what = "non-ascii-octets"
		}
		if v.W < 1 || v.W > 2 {
			continue
		}
		for _, sp := range []string{"escaped", "raw"} {
			ta, tb := v.Ta.String(), v.Tb.String()
			if sp == "raw" {
				if len(v.Ra) == 0 || len(v.Rb) == 0 {
					continue
				}
				ta, tb = v.Ra.String(), v.Rb.String()
				if ta == v.Ta.String() && tb == v.Tb.String() {
					continue // nothing to escape: one spelling
				}
				if !packs(ta, v.Wa.Bytes()) || !packs(tb, v.Wb.Bytes()) {
					rp.skips["raw-spelling-not-packed-as-such"]++
					continue
				}
			} else if v.Kind == "rawname" && (!packs(ta, v.Wa.Bytes()) || !packs(tb, v.Wb.Bytes())) {
				rp.skips["escaped-spelling-not-packed-as-such"]++
				continue
			}
			suffix := ""
			if sp == "raw" {
				suffix = ":raw-octets"
			}
			for _, pl := range places[v.W] {
				pl.seta(ta)
				pl.setb(tb)
				g1, g2 := dns.IsDuplicate(pl.ra, pl.rb), dns.IsDuplicate(pl.rb, pl.ra)
				rp.sum.Evaluations += 2
				rp.seen[kn+"/"+what+"-"+pl.where+"/"+sp+"/"+strconv.FormatBool(g1)] = true
				if g1 == v.Dup && g2 == v.Dup {
					continue
				}
				key := "isduplicate/false-positive:" + kn + ":" + pl.where + "-" + what + pl.field + suffix
				if v.Dup {
					key = "isduplicate/false-negative:" + kn + ":" + pl.where + "-case" + pl.field + suffix
					if never {
						key = "isduplicate/" + kn + "-never-duplicate"
					}
				}
				c := *v
				c.RKind = k.Name
				rp.sum.Mis(key, fmt.Sprintf("%s: IsDuplicate = %v / %v for %s %q vs %q (%s, %s spelling), Dup.tla says %v",
					k.Name, g1, g2, pl.where, ta, tb, what, sp, v.Dup), map[string]interface{}{"vector": c})
			}
		}
	}
}

// ---------------------------------------------------------------------------
// lists of different length, single header bits

// listPaths: every slice of the kind's populated record (the lists -- texts, type bitmaps,
// prefixes, parameters, options, names -- and the octet strings), outside the header.
func listPaths(k rw.Kind) []string {
	_, cells := rw.WalkCells(k.Build())
	var out []string
	for _, c := range cells {
		if c.Kind == reflect.Slice && !strings.HasSuffix(c.Path, "[append]") && !strings.Contains(c.Path, ".Hdr.") && c.V.Len() > 0 {
			out = append(out, c.Path)
		}
	}
	return out
}

// withList builds the kind's record with the slice at path replaced by the selection sel
// (1-based element numbers of the populated slice) in a backing array of its own.
func withList(k rw.Kind, path string, sel []int) dns.RR {
	rr := k.Build()
	c := cellAt(rr, path)
	nv := reflect.MakeSlice(c.V.Type(), len(sel), len(sel))
	for i, e := range sel {
		nv.Index(i).Set(c.V.Index(e - 1))
	}
	c.V.Set(nv)
	return rr
}

func viaWire(w []byte) dns.RR {
	u, off, err := dns.UnpackRR(w, 0)
	if err != nil || off != len(w) {
		return nil
	}
	return u
}

// isDup2 calls IsDuplicate in both argument orders; a panic is an observation of its own.
func isDup2(a, b dns.RR) (ab, ba bool, pab, pba string) {
	pab = hx.Catch(func() { ab = dns.IsDuplicate(a, b) })
	pba = hx.Catch(func() { ba = dns.IsDuplicate(b, a) })
	return
}

// judge2 files what the two calls showed against the expected verdict exp: a panic, or a wrong
// answer, of either call; keys are built from the clause violated, mid (kind and what differs).
func judge2(sum *hx.Summary, exp, never bool, kn, mid string, ab, ba bool, pab, pba, what string, cs map[string]interface{}) {
	for i, p := range []string{pab, pba} {
		if p != "" {
			sum.Mis("isduplicate/panics:"+mid, fmt.Sprintf("%s: IsDuplicate(%s) panics: %s", what, []string{"a, b", "b, a"}[i], firstLine(p)), cs)
		}
	}
	okAB, okBA := pab != "" || ab == exp, pba != "" || ba == exp
	if okAB && okBA {
		return
	}
	var key string
	switch {
	case exp && never:
		key = "isduplicate/" + kn + "-never-duplicate"
	case pab == "" && pba == "" && ab != ba:
		key = "isduplicate/asymmetric:" + mid
	case exp:
		key = "isduplicate/false-negative:" + mid
	default:
		key = "isduplicate/false-positive:" + mid
	}
	sum.Mis(key, fmt.Sprintf("%s: IsDuplicate(a, b) = %v, IsDuplicate(b, a) = %v (a panicking call has no answer), Dup.tla says %v", what, ab, ba, exp), cs)
}

func firstLine(s string) string {
	if i := strings.IndexByte(s, '\n'); i >= 0 {
		return s[:i]
	}
	return s
}

// lens: for every slice of the kind, the records whose slice holds a selection of the
// populated slice's elements (vector: element numbers of both records and the verdict of
// Dup.tla); as built and as decoded from their packing.  An instantiation is used where both
// records pack and their octets are equal exactly where the vector says "duplicates".
func (rp *replayer) lens(k rw.Kind, vecs []*vec, onlyPath string) {
	kn := keyName(k.Name)
	never := neverDupBuilt(k)
	for _, path := range listPaths(k) {
		if onlyPath != "" && path != onlyPath {
			continue
		}
		n := cellAt(k.Build(), path).V.Len()
		if n > 3 {
			n = 3
		}
		field := fieldOf(path)
		packed := map[string][]byte{} // selection -> packing (nil: the library refuses to pack it)
		wire := func(sel []int) []byte {
			key := fmt.Sprint(sel)
			if w, ok := packed[key]; ok {
				return w
			}
			w, err := packRR(withList(k, path, sel))
			if err != nil {
				w = nil
			}
			packed[key] = w
			return w
		}
		for _, v := range vecs {
			if v.Kind != "lens" || v.N != n {
				continue
			}
			wa, wb := wire(v.La), wire(v.Lb)
			if wa == nil || wb == nil || bytes.Equal(wa, wb) != v.Dup {
				rp.lskips++ // the library does not pack the variant, or packs two different lists to the same octets
				continue
			}
			for _, how := range []string{"as-built", "from-the-wire"} {
				if v.How != "" && v.How != how {
					continue
				}
				var a, b dns.RR
				if how == "as-built" {
					a, b = withList(k, path, v.La), withList(k, path, v.Lb)
				} else if a, b = viaWire(wa), viaWire(wb); a == nil || b == nil {
					continue
				}
				ab, ba, pab, pba := isDup2(a, b)
				rp.sum.Evaluations += 2
				rel := "list-element"
				switch {
				case len(v.La) != len(v.Lb):
					rel = "list-length"
				case v.Dup:
					rel = "list-identical"
				}
				rp.seen[kn+"/"+rel+"/"+how+"/"+strconv.FormatBool(ab)] = true
				c := *v
				c.RKind, c.ListP, c.How = k.Name, path, how
				judge2(rp.sum, v.Dup, never, kn, kn+":"+rel+":"+field, ab, ba, pab, pba,
					fmt.Sprintf("%s (%s), %s holding the elements %v / %v", k.Name, how, path, v.La, v.Lb), map[string]interface{}{"vector": c})
			}
		}
	}
}

func neverDupBuilt(k rw.Kind) bool { return !dns.IsDuplicate(k.Build(), k.Build()) }

// hdrbits: two records of the kind that differ in ONE BIT of the class, of the type or of
// the TTL in their header (the values are the vector's), as built and as decoded from their
// packing where the library reads both back.
func (rp *replayer) hdrbits(k rw.Kind, vecs []*vec) {
	kn := keyName(k.Name)
	never := neverDupBuilt(k)
	set := func(rr dns.RR, f string, val []int) {
		h := rr.Header()
		switch f {
		case "class":
			h.Class = uint16(val[0])
		case "type":
			h.Rrtype = uint16(val[0])
		case "ttl":
			h.Ttl = uint32(val[0])<<16 | uint32(val[1])
		}
	}
	for _, v := range vecs {
		if v.Kind != "hdrbit" {
			continue
		}
		if k.Type == dns.TypeOPT && v.F == "ttl" {
			continue // the TTL field of an OPT is not a TTL
		}
		for _, how := range []string{"as-built", "from-the-wire"} {
			if v.How != "" && v.How != how {
				continue
			}
			a, b := k.Build(), k.Build()
			set(a, v.F, v.Va)
			set(b, v.F, v.Vb)
			if how == "from-the-wire" {
				wa, ea := packRR(a)
				wb, eb := packRR(b)
				if ea != nil || eb != nil || bytes.Equal(wa, wb) {
					continue
				}
				if a, b = viaWire(wa), viaWire(wb); a == nil || b == nil {
					continue
				}
			}
			ab, ba, pab, pba := isDup2(a, b)
			rp.sum.Evaluations += 2
			what := v.F + "-bit"
			if v.Bit == 15 && v.F != "ttl" || v.Bit == 31 {
				what = v.F + "-top-bit"
			}
			rp.seen[kn+"/"+what+"/"+how+"/"+strconv.FormatBool(ab)] = true
			c := *v
			c.RKind, c.How = k.Name, how
			judge2(rp.sum, v.Dup, never, kn, kn+":"+what, ab, ba, pab, pba,
				fmt.Sprintf("%s (%s), %s %v / %v (bit %d differs)", k.Name, how, v.F, v.Va, v.Vb, v.Bit), map[string]interface{}{"vector": c})
		}
	}
}

// the six Dedup symbols for one kind
func (in *inst) symbol(s int, hasName, hasVal bool) dns.RR {
	a := abs{1, 1, 'a', 5, 'x', 0}
	switch s {
	case 2:
		a[3] = 2
	case 3:
		a[2], a[3] = 'A', 4
	case 4:
		a[3] = 3
		if hasName {
			a[4] = 'X'
		}
	case 5:
		a[2], a[3] = 'b', 1
	case 6:
		a[3] = 6
		switch {
		case hasVal:
			a[5] = 1
		case hasName:
			a[4] = 'y'
		default:
			a[1] = 3
		}
	}
	rr := in.make(a)
	rr.Header().Ttl = uint32(a[3])
	return rr
}

func (rp *replayer) lists(in *inst, vecs []*vec, hasName, hasVal bool) {
	kn := keyName(in.kind.Name)
	for _, v := range vecs {
		if v.Kind != "list" || v.Names != hasName {
			continue
		}
		for alias := 0; alias < 3; alias++ {
			// alias 0: every occurrence of a symbol is a Go value of its own; 1: the occurrences of a
			// symbol are THE SAME value (pointer) at several positions; 2: mixed (symbols r and r2 aliased)
			if alias > 0 && (v.Shape > 1 && !hx.Thorough() || len(v.Q) < 2) {
				continue
			}
			list := make([]dns.RR, len(v.Q))
			shared := map[int]dns.RR{}
			for i, s := range v.Q {
				if r, ok := shared[s]; ok && (alias == 1 || alias == 2 && (s == 1 || s == 5)) {
					list[i] = r
					continue
				}
				list[i] = in.symbol(s, hasName, hasVal)
				if len(v.Owners) == 3 { // the owner spellings of the vector: r / other case / another owner
					list[i].Header().Name = v.Owners[map[int]int{3: 1, 5: 2}[s]].String()
				}
				shared[s] = list[i]
			}
			orig := append([]dns.RR(nil), list...)
			out := dns.Dedup(list, nil)
			rp.sum.Evaluations++
			rp.seen[kn+"/dedup/"+strconv.Itoa(len(v.Q))+">"+strconv.Itoa(len(out))] = true
			bad := ""
			if len(out) != len(v.Keep) {
				bad = "count"
			} else {
				for k := range out {
					if out[k] != orig[v.Keep[k]-1] {
						bad = "order-or-identity"
						break
					}
					if out[k].Header().Ttl != uint32(v.Ttls[k]) {
						bad = "ttl"
						break
					}
				}
			}
			if bad != "" {
				var got []string
				for _, r := range out {
					idx := -1
					for i := range orig {
						if orig[i] == r {
							idx = i + 1
							break
						}
					}
					got = append(got, fmt.Sprintf("%d/ttl=%d", idx, r.Header().Ttl))
				}
				how := ""
				if alias > 0 {
					how = ":same-value-repeated"
				}
				c := rp.caseOf(in, v)
				rp.sum.Mis("dedup/"+bad+how+":"+kn, fmt.Sprintf("%s: Dedup(%v) = %v, Dup.tla keeps %v with TTLs %v (aliasing mode %d)", in.kind.Name, v.Q, got, v.Keep, v.Ttls, alias), c)
			}
		}
	}
}

func replay(path string, shard, nshards int, only string) {
	sum := &hx.Summary{}
	rp := &replayer{sum: sum, seen: map[string]bool{}, skips: map[string]int{}}
	var vecs []*vec
	hx.ReadNDJSON(path, func(i int, v *vec) { vecs = append(vecs, v) })
	one := len(vecs) == 1 && vecs[0].RKind != ""
	for ki, k := range kinds() {
		if one {
			if k.Name != vecs[0].RKind {
				continue
			}
		} else if ki%nshards != shard || (only != "" && k.Name != only) {
			continue
		}
		names, vals := cellsOf(k)
		if one {
			in := &inst{kind: k, namePath: vecs[0].NameP, valPath: vecs[0].ValP}
			rp.pairsU(in, vecs, in.namePath != "", in.valPath != "", vecs[0].UA, vecs[0].UB)
			rp.lists(in, vecs, in.namePath != "", in.valPath != "")
			rp.seqs(in, vecs, in.namePath != "", in.valPath != "")
			rp.octets(k, names, vecs)
			rp.lens(k, vecs, vecs[0].ListP)
			rp.hdrbits(k, vecs)
			continue
		}
		// every name cell and every other cell is the cell under test once, accompanied by
		// the first cell of the other class with which the instantiation is faithful
		covered := map[string]bool{}
		unsorted, ninst := 0, 0
		run := func(in *inst) {
			ninst++
			rp.noTriples = ninst > 2 && !hx.Thorough()
			defer func() { rp.noTriples = false }()
			rp.pairs(in, vecs, in.namePath != "", in.valPath != "")
			covered[in.namePath], covered[in.valPath] = true, true
			// the same records with their lists in another order, where the order is not part of
			// the record (first instantiations of the kind; all of them in the thorough tier)
			if (unsorted < 3 || hx.Thorough()) && in.unsortOK() {
				unsorted++
				rp.pairsU(in, vecs, in.namePath != "", in.valPath != "", false, true)
				rp.pairsU(in, vecs, in.namePath != "", in.valPath != "", true, false)
				rp.pairsU(in, vecs, in.namePath != "", in.valPath != "", true, true)
			}
		}
		var listInst *inst
		for _, n := range names {
			var pick *inst
			for _, vp := range append(append([]string{}, vals...), "") {
				if in := (&inst{kind: k, namePath: n, valPath: vp}); in.valid() {
					pick = in
					break
				}
			}
			if pick == nil {
				rp.skips[k.Name+":"+n]++
				continue
			}
			run(pick)
			if listInst == nil && (pick.valPath == "" || pick.textual()) {
				listInst = pick
			}
		}
		for _, vp := range vals {
			if covered[vp] {
				continue
			}
			var pick *inst
			for _, n := range append(append([]string{}, names...), "") {
				if in := (&inst{kind: k, namePath: n, valPath: vp}); in.valid() {
					pick = in
					break
				}
			}
			if pick == nil {
				rp.skips[k.Name+":"+vp]++
				continue
			}
			run(pick)
			if (listInst == nil || listInst.valPath == "") && pick.textual() && (len(names) == 0 || pick.namePath != "") {
				listInst = pick
			}
		}
		if len(covered) == 0 {
			run(&inst{kind: k})
		}
		if listInst == nil {
			listInst = &inst{kind: k}
		}
		if k.Type != dns.TypeOPT { // the TTL of an OPT is not a TTL
			rp.lists(listInst, vecs, listInst.namePath != "", listInst.valPath != "")
			rp.seqs(listInst, vecs, listInst.namePath != "", listInst.valPath != "")
		}
		rp.octets(k, names, vecs)
		rp.lens(k, vecs, "")
		rp.hdrbits(k, vecs)
	}
	sum.Nontrivial = len(rp.seen)
	sk := make([]string, 0, len(rp.skips))
	for k := range rp.skips {
		sk = append(sk, k)
	}
	sort.Strings(sk)
	sum.Note("cells_not_on_the_wire", sk)
	sum.Note("list_variants_not_usable", rp.lskips)
	sum.Print()
}

// ---------------------------------------------------------------------------
// record

type wireRec struct {
	T     int      `json:"t"`
	C     int      `json:"c"`
	Ow    hx.B     `json:"ow"`
	Rd    hx.B     `json:"rd"`
	Spans [][2]int `json:"spans"`
}

type textRec struct {
	O   hx.B   `json:"o"`
	C   int    `json:"c"`
	T   int    `json:"t"`
	Rd  hx.B   `json:"rd"`
	Ttl [2]int `json:"ttl"`
}

type outRec struct {
	I   int    `json:"i"`
	Ttl [2]int `json:"ttl"`
}

type event struct {
	I      int       `json:"i"`
	Ev     string    `json:"ev"`
	K      string    `json:"k"`
	Rel    string    `json:"rel,omitempty"`
	A      *wireRec  `json:"a,omitempty"`
	B      *wireRec  `json:"b,omitempty"`
	Dup    bool      `json:"dup"`
	RDup   bool      `json:"rdup"`
	Self   bool      `json:"self"`   // IsDuplicate(a, a') for a second decoding a' of the same octets
	Never  bool      `json:"never"`  // IsDuplicate(x, x') is false already for the kind's unmodified record
	Repack bool      `json:"repack"` // the decoded record a packs again
	Mut    string    `json:"mut,omitempty"`
	La     []int     `json:"la"` // law: the element numbers the lists of the two records hold
	Lb     []int     `json:"lb"`
	Copy   bool      `json:"copy"` // law: IsDuplicate(a, Copy(a)) and IsDuplicate(Copy(a), a)
	List   []textRec `json:"list"`
	Out    []outRec  `json:"out"`
}

// spans finds the embedded names of the RDATA: replacing a name field by the root
// shortens the packed RDATA at exactly the place where the name starts.
func spans(rr dns.RR, rd []byte) [][2]int {
	var sp [][2]int
	_, cells := rw.WalkCells(rr)
	for i := range cells {
		c := &cells[i]
		if c.Ref || c.Kind != reflect.String || !isNameTag(c.Tag) || strings.Contains(c.Path, ".Hdr.") {
			continue
		}
		old := c.V.String()
		c.V.SetString(".")
		w, err := packRR(rr)
		c.V.SetString(old)
		if err != nil {
			continue
		}
		_, rd2 := rdataOf(w)
		if bytes.Equal(rd, rd2) {
			continue
		}
		p := 0
		for p < len(rd) && p < len(rd2) && rd[p] == rd2[p] {
			p++
		}
		if n := len(rd) - len(rd2) + 1; n >= 1 {
			sp = append(sp, [2]int{p, n})
		}
	}
	sort.Slice(sp, func(a, b int) bool { return sp[a][0] < sp[b][0] })
	return sp
}

// rdataText is the record's text after owner, TTL, class and type (the fields of the
// presentation form are separated by tabs; a tab inside a name is printed escaped).
func rdataText(s string) string {
	for k := 0; k < 4; k++ {
		i := strings.IndexByte(s, '\t')
		if i < 0 {
			return s
		}
		s = s[i+1:]
	}
	return s
}

// owner spellings for random Dedup lists: {r, the same in the other case, another owner};
// escaped octets next to the letters whose case changes (index 0: the kind's own owner)
var ownerShapes = [][3]string{
	{},
	{"a\\\\B.example.nl.", "A\\\\b.Example.NL.", "a\\\\c.example.nl."},
	{"a\\.B.example.nl.", "A\\.b.example.nl.", "a\\.c.example.nl."},
	{"a\\007B.example.nl.", "A\\007b.example.nl.", "a\\007c.example.nl."},
	{"\\\\\\\\B.example.nl.", "\\\\\\\\b.example.nl.", "\\\\\\\\c.example.nl."},
	{"B\\\\\\\\\\\\.example.nl.", "b\\\\\\\\\\\\.example.nl.", "c\\\\\\\\\\\\.example.nl."},
	{"\\\\B\\\"Z\\;q.example.nl.", "\\\\b\\\"z\\;Q.example.nl.", "\\\\c\\\"Z\\;q.example.nl."},
}

func limbs(t uint32) [2]int { return [2]int{int(t >> 16), int(t & 0xffff)} }

func record(out string, n int) {
	rng := hx.Rand()
	sum := &hx.Summary{}
	w := hx.NewWriter(out)
	ks := kinds()
	type plan struct {
		k           rw.Kind
		names, vals []string
		never       bool
	}
	var plans []plan
	for _, k := range ks {
		var p plan
		p.k = k
		p.never = neverDup(k)
		ns, vs := cellsOf(k)
		for _, x := range ns {
			if (&inst{kind: k, namePath: x}).valid() {
				p.names = append(p.names, x)
			}
		}
		for _, x := range vs {
			if (&inst{kind: k, valPath: x}).valid() {
				p.vals = append(p.vals, x)
			}
		}
		plans = append(plans, p)
	}
	seen := map[string]bool{}
	randAbs := func(p *plan, r *rand.Rand) abs {
		a := abs{1, 1, 'a', 1 + r.Intn(2), 'x', 0}
		if r.Intn(8) == 0 {
			a[0] = 2
		}
		if r.Intn(8) == 0 {
			a[1] = 3
		}
		a[2] = []int{'a', 'a', 'A', 'b'}[r.Intn(4)]
		if len(p.names) > 0 {
			a[4] = []int{'x', 'x', 'X', 'y'}[r.Intn(4)]
		}
		if len(p.vals) > 0 && r.Intn(3) == 0 {
			a[5] = 1
		}
		return a
	}
	// fromWire packs rr (real Pack, uncompressed), optionally overwrites one RDATA octet outside
	// the embedded names, and decodes the octets: the record "obtained from the wire" and
	// its description for the specification.
	fromWire := func(rr dns.RR, mutate bool) (u dns.RR, d *wireRec, wb []byte, mut string) {
		wb, err := packRR(rr)
		if err != nil {
			return nil, nil, nil, ""
		}
		ow, rd := rdataOf(wb)
		var sp [][2]int
		if mutate {
			sp = spans(rr, rd)
			if len(rd) == 0 {
				return nil, nil, nil, ""
			}
			var free []int
			for p := range rd {
				in := false
				for _, s := range sp {
					if p >= s[0] && p < s[0]+s[1] {
						in = true
					}
				}
				if !in {
					free = append(free, p)
				}
			}
			if len(free) == 0 {
				return nil, nil, nil, ""
			}
			p := free[rng.Intn(len(free))]
			old := rd[p]
			rd[p] = []byte{0, 0xff, old ^ 1, old ^ 0x20, byte(rng.Intn(256))}[rng.Intn(5)]
			if rd[p] == old {
				return nil, nil, nil, ""
			}
			mut = fmt.Sprintf("rdata[%d]:%d->%d", p, old, rd[p])
		}
		u, off, err := dns.UnpackRR(wb, 0)
		if err != nil || off != len(wb) {
			return nil, nil, nil, ""
		}
		if !mutate {
			// the names the library sees in what it decoded
			w2, err := packRR(u)
			if err != nil || !bytes.Equal(w2, wb) {
				return nil, nil, nil, ""
			}
			sp = spans(u, rd)
		} else if _, ok := u.(*dns.RFC3597); ok {
			sp = nil
		}
		fx := wb[len(ow):] // type and class as they are in the octets
		return u, &wireRec{T: int(fx[0])<<8 | int(fx[1]), C: int(fx[2])<<8 | int(fx[3]), Ow: hx.FromBytes(ow), Rd: hx.FromBytes(rd), Spans: sp}, wb, mut
	}
	for i := 0; i < n; i++ {
		p := &plans[rng.Intn(len(plans))]
		in := &inst{kind: p.k}
		if len(p.names) > 0 {
			in.namePath = p.names[rng.Intn(len(p.names))]
		}
		if len(p.vals) > 0 {
			in.valPath = p.vals[rng.Intn(len(p.vals))]
		}
		if i%4 != 3 {
			a, b := randAbs(p, rng), randAbs(p, rng)
			if rng.Intn(3) == 0 {
				b = a
				b[3] = 1 + rng.Intn(2)
			}
			mutate := rng.Intn(4) == 0
			if mutate {
				a[0] = 1
			}
			rra, rrb := in.make(a), in.make(b)
			r := rel(a, b)
			if !mutate && rng.Intn(6) == 0 {
				// names that differ in one octet c / c XOR 0x20, in the owner or in an embedded name
				c := rng.Intn(256)
				ta, tb := fmt.Sprintf("x\\%03dy.nl.", c), fmt.Sprintf("x\\%03dy.nl.", c^0x20)
				b = a
				rrb = in.make(b)
				if in.namePath != "" && rng.Intn(2) == 0 {
					cellAt(rra, in.namePath).V.SetString(ta)
					cellAt(rrb, in.namePath).V.SetString(tb)
					r = "name-octet-xor-0x20"
				} else {
					rra.Header().Name, rrb.Header().Name = ta, tb
					r = "owner-octet-xor-0x20"
				}
			} else if !mutate && rng.Intn(8) == 0 {
				// the same record in two classes that differ in ONE bit (any base class, any bit)
				c := []uint16{dns.ClassINET, dns.ClassCHAOS, dns.ClassNONE, dns.ClassANY, 0, 0x8001, uint16(rng.Intn(65536))}[rng.Intn(7)]
				bit := rng.Intn(16)
				b = a
				b[3] = 1 + rng.Intn(2)
				rrb = in.make(b)
				rra.Header().Class, rrb.Header().Class = c, c^(1<<uint(bit))
				r = "class-bit"
				if bit == 15 {
					r = "class-top-bit"
				}
			}
			ra, wa, bytesA, mut := fromWire(rra, mutate)
			if ra == nil {
				continue
			}
			var rb dns.RR
			var wb *wireRec
			if mutate && rng.Intn(2) == 0 { // the same octets, decoded again
				rb, _, _ = dns.UnpackRR(bytesA, 0)
				wb = wa
				r = "identical-wire"
			} else {
				if mutate {
					b = a
					r = "one-octet"
				}
				rb, wb, _, _ = fromWire(rrb, false)
			}
			if rb == nil {
				continue
			}
			if rng.Intn(4) == 0 {
				// another spelling of the same octets: the lists of the decoded record reversed,
				// where the library packs that to the same wire form
				for _, side := range []dns.RR{ra, rb}[rng.Intn(2):][:1] {
					if respell(side) {
						r += "+reordered"
					}
				}
			}
			ra2, _, _ := dns.UnpackRR(bytesA, 0)
			sum.Evaluations++
			e := &event{Ev: "pair", K: p.k.Name, Rel: r, A: wa, B: wb, Dup: dns.IsDuplicate(ra, rb), RDup: dns.IsDuplicate(rb, ra),
				Self: dns.IsDuplicate(ra, ra2), Mut: mut, Never: p.never, Repack: repacks(ra)}
			seen[p.k.Name+"/"+e.Rel+"/"+strconv.FormatBool(e.Dup)] = true
			e.I = w.N + 1
			w.Emit(e)
			continue
		}
		// a list: variants of one or two kinds, random TTLs (also >= 2^31)
		if p.k.Type == dns.TypeOPT {
			continue
		}
		// one call, or two calls in a row over records of the same kind; the scratch map is nil,
		// fresh for each call, or one map for both
		shape := rng.Intn(2 * len(ownerShapes))
		if shape >= len(ownerShapes) {
			shape = 0
		}
		calls := 1 + rng.Intn(2)
		mapMode := []string{"nil-map", "nil-map", "fresh-maps", "reused-map", "reused-map"}[rng.Intn(5)]
		var shared map[string]dns.RR
		if mapMode == "reused-map" {
			shared = map[string]dns.RR{}
		}
		hist := mapMode + ":first-use"
		var earlier []dns.RR // the result of the first call: the second list may hold some of these very values
		for call := 0; call < calls; call++ {
			m := 1 + rng.Intn(6)
			list := make([]dns.RR, m)
			for j := range list {
				if j > 0 && rng.Intn(5) == 0 { // the very same value once more
					list[j] = list[rng.Intn(j)]
					continue
				}
				if len(earlier) > 0 && rng.Intn(4) == 0 {
					list[j] = earlier[rng.Intn(len(earlier))]
					continue
				}
				a := randAbs(p, rng)
				a[0] = 1
				rr := in.make(a)
				if shape > 0 {
					rr.Header().Name = ownerShapes[shape][map[int]int{'a': 0, 'A': 1, 'b': 2}[a[2]]]
				}
				rr.Header().Ttl = []uint32{0, 1, 300, 3600, 0x7fffffff, 0x80000000, 0xffffffff, uint32(rng.Intn(100000))}[rng.Intn(8)]
				list[j] = rr
			}
			texts := make([]textRec, m) // the argument as it is right before the call
			for j, rr := range list {
				h := rr.Header()
				texts[j] = textRec{O: hx.FromString(h.Name), C: int(h.Class), T: int(h.Rrtype),
					Rd: hx.FromString(rdataText(rr.String())), Ttl: limbs(h.Ttl)}
			}
			orig := append([]dns.RR(nil), list...)
			var mm map[string]dns.RR
			switch mapMode {
			case "fresh-maps":
				mm = map[string]dns.RR{}
			case "reused-map":
				mm = shared
			}
			res := dns.Dedup(list, mm)
			e := &event{Ev: "dedup", K: p.k.Name, Rel: hist, List: texts, Out: []outRec{}}
			for _, r := range res {
				idx := 0
				for j := range orig {
					if orig[j] == r { // a value that occurs several times is named by its first position
						idx = j + 1
						break
					}
				}
				e.Out = append(e.Out, outRec{I: idx, Ttl: limbs(r.Header().Ttl)})
			}
			sum.Evaluations++
			seen[p.k.Name+"/dedup/"+hist+"/"+strconv.Itoa(m)+">"+strconv.Itoa(len(res))] = true
			e.I = w.N + 1
			w.Emit(e)
			hist = mapMode + ":after-a-call-that-removed-duplicates"
			if len(res) == m {
				hist = mapMode + ":after-an-all-distinct-call"
			}
			earlier = append([]dns.RR(nil), res...)
		}
	}
	w.Close()
	sum.Nontrivial = len(seen)
	sum.Note("events", w.N)
	sum.Print()
}

// sweep overwrites, for every kind, every RDATA octet outside the embedded names with 0, 0xff
// and its value with the lowest bit flipped; every variant the library decodes is compared
// with a second decoding of the same octets (identical wire) and with the unmodified record.
var ipType = reflect.TypeOf(net.IP{})

// addrSweep: for every address-valued cell of the kind, spellings that a lossy rendering
// cannot tell apart -- an IPv4 address in 4 and in 16 octets (IPv4-mapped), with the prefix
// length / family selector / gateway type following or not.  Whether two spellings are
// the same record is decided by the specification on their packed octets; IsDuplicate is
// observed on the records as built and on their decodings.
func addrSweep(k rw.Kind, never bool, w *hx.Writer, sum *hx.Summary, seen map[string]bool) {
	if k.Type == dns.TypeOPT {
		return
	}
	base := k.Build()
	_, cells := rw.WalkCells(base)
	var paths []string
	for _, c := range cells {
		if c.Kind == reflect.Slice && c.V.Type() == ipType && !strings.HasSuffix(c.Path, "[append]") {
			paths = append(paths, c.Path)
		}
	}
	type tf struct {
		name string
		f    func(rr dns.RR, c *rw.Cell) bool
	}
	mapped := func(ip net.IP) net.IP {
		return append(net.IP{0, 0, 0, 0, 0, 0, 0, 0, 0, 0, 0xff, 0xff}, ip...)
	}
	maskOf := func(rr dns.RR, c *rw.Cell) *rw.Cell { // the mask next to an APL address
		if !strings.HasSuffix(c.Path, ".Network.IP") {
			return nil
		}
		return cellAt(rr, strings.TrimSuffix(c.Path, ".IP")+".Mask")
	}
	tfs := []tf{
		{"4-as-16", func(rr dns.RR, c *rw.Cell) bool { // the same IPv4 address spelled in 16 octets
			ip := c.V.Interface().(net.IP)
			if len(ip) != 4 {
				return false
			}
			c.V.Set(reflect.ValueOf(mapped(ip)))
			return true
		}},
		{"4-as-mapped-v6", func(rr dns.RR, c *rw.Cell) bool { // ... and everything that says "IPv6" following: prefix + 96, gateway type 2
			ip := c.V.Interface().(net.IP)
			if len(ip) != 4 {
				return false
			}
			c.V.Set(reflect.ValueOf(mapped(ip)))
			if m := maskOf(rr, c); m != nil {
				ones, _ := m.V.Interface().(net.IPMask).Size()
				m.V.Set(reflect.ValueOf(net.CIDRMask(ones+96, 128)))
				return true
			}
			switch x := rr.(type) {
			case *dns.IPSECKEY:
				x.GatewayType = dns.IPSECGatewayIPv6
				return true
			case *dns.AMTRELAY:
				x.GatewayType = x.GatewayType&0x80 | dns.IPSECGatewayIPv6
				return true
			}
			return false
		}},
		{"mask-4-as-16", func(rr dns.RR, c *rw.Cell) bool { // only the mask in the long spelling
			m := maskOf(rr, c)
			if m == nil || len(m.V.Interface().(net.IPMask)) != 4 {
				return false
			}
			ones, _ := m.V.Interface().(net.IPMask).Size()
			m.V.Set(reflect.ValueOf(net.CIDRMask(ones+96, 128)))
			return true
		}},
	}
	describe := func(rr dns.RR) (dns.RR, *wireRec) {
		wb, err := packRR(rr)
		if err != nil {
			return nil, nil
		}
		u, off, err := dns.UnpackRR(wb, 0)
		if err != nil || off != len(wb) {
			return nil, nil
		}
		ow, rd := rdataOf(wb)
		h := u.Header()
		return u, &wireRec{T: int(h.Rrtype), C: int(h.Class), Ow: hx.FromBytes(ow), Rd: hx.FromBytes(rd), Spans: spans(rr, rd)}
	}
	ua, wa := describe(base)
	if ua == nil {
		return
	}
	for _, p := range paths {
		for _, t := range tfs {
			b := k.Build()
			if !t.f(b, cellAt(b, p)) {
				continue
			}
			ub, wb := describe(b)
			if ub == nil {
				continue
			}
			ub2, _ := describe(b)
			for _, mode := range []string{"as-built", "from-the-wire"} {
				x, y := base, b
				if mode == "from-the-wire" {
					x, y = ua, ub
				}
				e := &event{Ev: "pair", K: k.Name, Rel: "address-" + t.name + ":" + mode, A: wa, B: wb,
					Dup: dns.IsDuplicate(x, y), RDup: dns.IsDuplicate(y, x), Self: dns.IsDuplicate(ub, ub2), Never: never, Repack: true,
					Mut: fieldOf(p)}
				e.I = w.N + 1
				w.Emit(e)
				sum.Evaluations++
				seen[k.Name+"/"+e.Rel+"/"+strconv.FormatBool(e.Dup)] = true
			}
		}
	}
}

// spellSweep: for every field whose text is an ENCODING (hex, base64, base32hex) the partner
// whose text differs in letter case only -- the octets differ for base64 and are the same for
// hex and base32hex -- and for the owner and every embedded name spellings that differ in
// escaping only (\. / \046, \097 / a: the same octets) or in a label boundary against a dot
// octet (a\.b / a.b: different octets).  The verdict is the specification's, on the packed
// octets.  Records as built are observed only where the octets differ (whether two spellings
// of the same octets are "duplicates" before they ever were on the wire is AMBIG in the
// statement); the records decoded from those octets always.
func spellSweep(k rw.Kind, never bool, w *hx.Writer, sum *hx.Summary, seen map[string]bool) {
	if k.Type == dns.TypeOPT {
		return
	}
	base := k.Build()
	_, cells := rw.WalkCells(base)
	type job struct {
		path, rel string
		a, b      func(old string) string
	}
	var jobs []job
	id := func(s string) string { return s }
	flipOne := func(s string) string { // the case of the first letter only
		for i := 0; i < len(s); i++ {
			if c := s[i] | 0x20; c >= 'a' && c <= 'z' {
				return s[:i] + swapCase(s[i:i+1]) + s[i+1:]
			}
		}
		return s
	}
	names := [][3]string{
		{"label-boundary-vs-dot-octet", "a\\.b.example.", "a.b.example."},
		{"label-boundary-vs-dot-octet", "a\\046b.example.", "a.b.example."},
		{"escaping-only", "a\\.b.example.", "a\\046b.example."},
		{"escaping-only", "\\097.b.example.", "a.b.example."},
		{"escaping-only", "a\\\\b.example.", "a\\092b.example."},
		{"escaped-backslash-vs-none", "a\\\\b.example.", "ab.example."},
	}
	for _, c := range cells {
		if c.Ref || c.Kind != reflect.String || strings.Contains(c.Path, ".Hdr.") {
			continue
		}
		switch {
		case isNameTag(c.Tag):
			for _, n := range names {
				n := n
				jobs = append(jobs, job{c.Path, "name-" + n[0], func(string) string { return n[1] }, func(string) string { return n[2] }})
			}
		case c.Tag == "hex" || c.Tag == "size-hex" || c.Tag == "base64" || c.Tag == "size-base64" || c.Tag == "size-base32" || c.Tag == "base32":
			jobs = append(jobs, job{c.Path, "encoded-text-case:" + c.Tag, id, swapCase}, job{c.Path, "encoded-text-one-letter-case:" + c.Tag, id, flipOne})
		}
	}
	for _, n := range names {
		n := n
		jobs = append(jobs, job{"", "owner-" + n[0], func(string) string { return n[1] }, func(string) string { return n[2] }})
	}
	describe := func(rr dns.RR) (dns.RR, *wireRec) {
		wb, err := packRR(rr)
		if err != nil {
			return nil, nil
		}
		u, off, err := dns.UnpackRR(wb, 0)
		if err != nil || off != len(wb) {
			return nil, nil
		}
		ow, rd := rdataOf(wb)
		h := u.Header()
		return u, &wireRec{T: int(h.Rrtype), C: int(h.Class), Ow: hx.FromBytes(ow), Rd: hx.FromBytes(rd), Spans: spans(rr, rd)}
	}
	for _, j := range jobs {
		mk := func(f func(string) string) dns.RR {
			rr := k.Build()
			if j.path == "" {
				rr.Header().Name = f(rr.Header().Name)
			} else {
				c := cellAt(rr, j.path)
				c.V.SetString(f(c.V.String()))
			}
			return rr
		}
		a, b := mk(j.a), mk(j.b)
		ua, wa := describe(a)
		ub, wb := describe(b)
		if ua == nil || ub == nil {
			continue
		}
		ub2, _ := describe(b)
		same := bytes.Equal(wa.Rd.Bytes(), wb.Rd.Bytes()) && bytes.Equal(wa.Ow.Bytes(), wb.Ow.Bytes())
		for _, mode := range []string{"as-built", "from-the-wire"} {
			x, y := a, b
			if mode == "from-the-wire" {
				x, y = ua, ub
			} else if same {
				continue // AMBIG
			}
			e := &event{Ev: "pair", K: k.Name, Rel: j.rel + ":" + mode, A: wa, B: wb,
				Dup: dns.IsDuplicate(x, y), RDup: dns.IsDuplicate(y, x), Self: dns.IsDuplicate(ub, ub2), Never: never, Repack: true, Mut: fieldOf(j.path)}
			e.I = w.N + 1
			w.Emit(e)
			sum.Evaluations++
			seen[k.Name+"/"+e.Rel+"/"+strconv.FormatBool(e.Dup)] = true
		}
	}
}

// lenSweep: for every slice of the kind the records whose slice lost its last / its first
// element / every element, or holds its last element twice, against the unmodified record and
// against a second building of the same variant.  Described by their packed octets; the verdict
// is the specification's.  As built (where the octets differ) and as decoded.
func lenSweep(k rw.Kind, never bool, w *hx.Writer, sum *hx.Summary, seen map[string]bool) {
	if k.Type == dns.TypeOPT {
		return
	}
	describe := func(rr dns.RR) (dns.RR, *wireRec) {
		wb, err := packRR(rr)
		if err != nil {
			return nil, nil
		}
		u := viaWire(wb)
		if u == nil {
			return nil, nil
		}
		ow, rd := rdataOf(wb)
		h := u.Header()
		return u, &wireRec{T: int(h.Rrtype), C: int(h.Class), Ow: hx.FromBytes(ow), Rd: hx.FromBytes(rd), Spans: spans(rr, rd)}
	}
	base := k.Build()
	ua, wa := describe(base)
	if ua == nil {
		return
	}
	for _, path := range listPaths(k) {
		n := cellAt(k.Build(), path).V.Len()
		all := make([]int, n)
		for i := range all {
			all[i] = i + 1
		}
		for _, vr := range []struct {
			name string
			sel  []int
		}{{"drop-last", all[:n-1]}, {"drop-first", all[1:]}, {"drop-all", nil}, {"last-twice", append(append([]int{}, all...), n)}} {
			if n == 1 && vr.name == "drop-first" {
				continue
			}
			b := withList(k, path, vr.sel)
			ub, wb := describe(b)
			if ub == nil {
				continue
			}
			ub2, _ := describe(b)
			same := bytes.Equal(wa.Rd.Bytes(), wb.Rd.Bytes())
			for _, mode := range []string{"as-built", "from-the-wire"} {
				x, y := base, b
				if mode == "from-the-wire" {
					x, y = ua, ub
				} else if same {
					continue // AMBIG: two spellings of the same octets that never were on the wire
				}
				// the shorter (changed) list first, then the other order
				yx, xy, pyx, pxy := isDup2(y, x)
				var self bool
				pself := hx.Catch(func() { self = dns.IsDuplicate(ub, ub2) })
				sum.Evaluations++
				rel := "list-length:" + vr.name + ":" + mode
				if pyx != "" || pxy != "" || pself != "" {
					sum.Mis("isduplicate/panics:"+keyName(k.Name)+":list-length:"+fieldOf(path), fmt.Sprintf("%s (%s): IsDuplicate panics for %s %s: %s",
						k.Name, mode, path, vr.name, firstLine(pyx+pxy+pself)), map[string]interface{}{"sweep": map[string]interface{}{"kind": k.Name, "path": path, "variant": vr.name, "mode": mode}})
					continue
				}
				e := &event{Ev: "pair", K: k.Name, Rel: rel, A: wb, B: wa, Dup: yx, RDup: xy, Self: self, Never: never, Repack: true, Mut: fieldOf(path)}
				e.I = w.N + 1
				w.Emit(e)
				seen[k.Name+"/"+rel+"/"+strconv.FormatBool(e.Dup)] = true
			}
		}
	}
}

// lawSweep: records that have NO wire form.  For every slice of the kind, every ordered pair of
// lists of at most maxLen elements drawn (with repetition, in any order) from its first three
// elements where the library refuses to pack at least one of the two records (a repeated SVCB
// key, ...): such records are not described by octets, so Dup.tla judges what the statement
// says of ALL records (event "law"): the answer is the same in both argument orders, a record
// is a duplicate of itself, of its copy and of a second record built the same way.
func lawSweep(k rw.Kind, never bool, w *hx.Writer, sum *hx.Summary, seen map[string]bool) {
	if never || neverDupBuilt(k) {
		return
	}
	maxLen := 2
	if hx.Thorough() {
		maxLen = 3
	}
	for _, path := range listPaths(k) {
		n := cellAt(k.Build(), path).V.Len()
		if n > 3 {
			n = 3
		}
		var sels [][]int
		var grow func(cur []int)
		grow = func(cur []int) {
			sels = append(sels, append([]int{}, cur...))
			if len(cur) == maxLen {
				return
			}
			for e := 1; e <= n; e++ {
				grow(append(cur, e))
			}
		}
		grow(nil)
		packsSel := make([]bool, len(sels))
		any := false
		for i, sel := range sels {
			packsSel[i] = repacks(withList(k, path, sel))
			any = any || !packsSel[i]
		}
		if !any {
			continue
		}
		for i, la := range sels {
			for j, lb := range sels {
				if packsSel[i] && packsSel[j] {
					continue // both have a wire form: judged on their octets (lens, lenSweep)
				}
				a, a2, b := withList(k, path, la), withList(k, path, la), withList(k, path, lb)
				var ab, ba, self, cp bool
				p := hx.Catch(func() {
					ab, ba = dns.IsDuplicate(a, b), dns.IsDuplicate(b, a)
					self = dns.IsDuplicate(a, a) && dns.IsDuplicate(a, a2) && dns.IsDuplicate(a2, a)
					c := dns.Copy(a)
					cp = dns.IsDuplicate(a, c) && dns.IsDuplicate(c, a)
				})
				sum.Evaluations += 7
				mid := keyName(k.Name) + ":no-wire-form:" + fieldOf(path)
				if p != "" {
					sum.Mis("isduplicate/panics:"+mid, fmt.Sprintf("%s: IsDuplicate panics for %s holding the elements %v / %v: %s", k.Name, path, la, lb, firstLine(p)),
						map[string]interface{}{"sweep": map[string]interface{}{"kind": k.Name, "path": path, "la": la, "lb": lb}})
					continue
				}
				e := &event{Ev: "law", K: k.Name, Rel: "no-wire-form", La: la, Lb: lb, Dup: ab, RDup: ba, Self: self, Copy: cp, Never: never, Mut: fieldOf(path)}
				if e.La == nil {
					e.La = []int{}
				}
				if e.Lb == nil {
					e.Lb = []int{}
				}
				e.I = w.N + 1
				w.Emit(e)
				seen[k.Name+"/law/"+strconv.FormatBool(ab)+strconv.FormatBool(ba)] = true
			}
		}
	}
}

// hdrSweep: the packed record with ONE BIT of its type, class or TTL octets flipped (every bit of
// type and class; `ttlBits' of the TTL), decoded and compared with the decoding of the unmodified
// octets.  Type and class of the description are read from the octets.
func hdrSweep(k rw.Kind, never bool, w *hx.Writer, sum *hx.Summary, seen map[string]bool) {
	wb, err := packRR(k.Build())
	if err != nil {
		return
	}
	ub := viaWire(wb)
	if ub == nil {
		return
	}
	ow, rd := rdataOf(wb)
	sp := spans(k.Build(), rd)
	fixed := len(ow) // type(2) class(2) ttl(4) follow the owner
	desc := func(m []byte, spn [][2]int) *wireRec {
		return &wireRec{T: int(m[fixed])<<8 | int(m[fixed+1]), C: int(m[fixed+2])<<8 | int(m[fixed+3]), Ow: hx.FromBytes(ow), Rd: hx.FromBytes(rd), Spans: spn}
	}
	wbase := desc(wb, sp)
	ttlBits := []int{0, 15, 16, 31}
	if hx.Thorough() {
		ttlBits = nil
		for i := 0; i < 32; i++ {
			ttlBits = append(ttlBits, i)
		}
	}
	type flip struct {
		f        string
		off, bit int
		top      bool
	}
	var flips []flip
	for b := 0; b < 16; b++ {
		flips = append(flips, flip{"type", fixed + 1 - b/8, b % 8, b == 15}, flip{"class", fixed + 3 - b/8, b % 8, b == 15})
	}
	for _, b := range ttlBits {
		if k.Type != dns.TypeOPT {
			flips = append(flips, flip{"ttl", fixed + 7 - b/8, b % 8, b == 31})
		}
	}
	for _, fl := range flips {
		m := append([]byte(nil), wb...)
		m[fl.off] ^= 1 << uint(fl.bit)
		u1 := viaWire(m)
		if u1 == nil {
			continue
		}
		u2 := viaWire(m)
		spn := sp
		if _, ok := u1.(*dns.RFC3597); ok || fl.f == "type" {
			spn = nil // another type: the RDATA is opaque unless the library says otherwise (then the names are where they were)
			if w2, err := packRR(u1); err == nil && bytes.Equal(w2, m) {
				_, rd1 := rdataOf(m)
				spn = spans(u1, rd1)
			}
		}
		var self bool
		ab, ba, pab, pba := isDup2(u1, ub)
		pself := hx.Catch(func() { self = dns.IsDuplicate(u1, u2) })
		sum.Evaluations++
		rel := "one-header-bit:" + fl.f
		if fl.top {
			rel += ":top-bit"
		}
		if pab != "" || pba != "" || pself != "" {
			sum.Mis("isduplicate/panics:"+keyName(k.Name)+":"+rel, fmt.Sprintf("%s: IsDuplicate panics for the octets with bit %d of octet %d flipped: %s",
				k.Name, fl.bit, fl.off, firstLine(pab+pba+pself)), map[string]interface{}{"sweep": map[string]interface{}{"kind": k.Name, "octet": fl.off, "bit": fl.bit}})
			continue
		}
		e := &event{Ev: "pair", K: k.Name, Rel: rel, A: desc(m, spn), B: wbase, Dup: ab, RDup: ba, Self: self, Never: never, Repack: repacks(u1),
			Mut: fmt.Sprintf("octet[%d]^=%d", fl.off, 1<<uint(fl.bit))}
		e.I = w.N + 1
		w.Emit(e)
		seen[k.Name+"/"+rel+"/"+strconv.FormatBool(e.Dup)] = true
	}
}

func neverDup(k rw.Kind) bool {
	w, err := packRR(k.Build())
	if err != nil {
		return false
	}
	a, _, e1 := dns.UnpackRR(w, 0)
	b, _, e2 := dns.UnpackRR(w, 0)
	return e1 == nil && e2 == nil && !dns.IsDuplicate(a, b)
}

func repacks(rr dns.RR) bool {
	_, err := packRR(rr)
	return err == nil
}

func sweep(out string, shard, nshards int) {
	sum := &hx.Summary{}
	w := hx.NewWriter(out)
	seen := map[string]bool{}
	for ki, k := range kinds() {
		if ki%nshards != shard {
			continue
		}
		base := k.Build()
		never := neverDup(k)
		addrSweep(k, never, w, sum, seen)
		spellSweep(k, never, w, sum, seen)
		lenSweep(k, never, w, sum, seen)
		lawSweep(k, never, w, sum, seen)
		hdrSweep(k, never, w, sum, seen)
		wb, err := packRR(base)
		if err != nil {
			continue
		}
		ub, _, err := dns.UnpackRR(wb, 0)
		if err != nil {
			continue
		}
		ow, rd := rdataOf(wb)
		sp := spans(base, rd)
		hb := ub.Header()
		wbase := &wireRec{T: int(hb.Rrtype), C: int(hb.Class), Ow: hx.FromBytes(ow), Rd: hx.FromBytes(rd), Spans: sp}
		for p := range rd {
			inName := false
			for _, s := range sp {
				if p >= s[0] && p < s[0]+s[1] {
					inName = true
				}
			}
			if inName {
				continue
			}
			old := rd[p]
			for _, nv := range []byte{0, 0xff, old ^ 1} {
				if nv == old {
					continue
				}
				m := append([]byte(nil), wb...)
				_, mrd := rdataOf(m)
				mrd[p] = nv
				u1, off, err := dns.UnpackRR(m, 0)
				if err != nil || off != len(m) {
					continue
				}
				u2, _, _ := dns.UnpackRR(m, 0)
				h := u1.Header()
				wm := &wireRec{T: int(h.Rrtype), C: int(h.Class), Ow: hx.FromBytes(ow), Rd: hx.FromBytes(mrd), Spans: sp}
				mut := fmt.Sprintf("rdata[%d]:%d->%d", p, old, nv)
				self := dns.IsDuplicate(u1, u2)
				e := &event{Ev: "pair", K: k.Name, Rel: "identical-wire", A: wm, B: wm, Dup: self, RDup: dns.IsDuplicate(u2, u1), Self: self, Mut: mut, Never: never, Repack: repacks(u1)}
				e.I = w.N + 1
				w.Emit(e)
				e2 := &event{Ev: "pair", K: k.Name, Rel: "one-octet", A: wm, B: wbase, Dup: dns.IsDuplicate(u1, ub), RDup: dns.IsDuplicate(ub, u1), Self: self, Mut: mut, Never: never, Repack: repacks(u1)}
				e2.I = w.N + 1
				w.Emit(e2)
				sum.Evaluations += 2
				seen[k.Name+"/"+strconv.FormatBool(e.Dup)+strconv.FormatBool(e2.Dup)] = true
			}
		}
	}
	w.Close()
	sum.Nontrivial = len(seen)
	sum.Note("events", w.N)
	sum.Print()
}

func main() {
	if len(os.Args) < 2 {
		hx.Die("usage: dup replay|record|kinds")
	}
	switch os.Args[1] {
	case "replay":
		if len(os.Args) < 5 {
			hx.Die("usage: dup replay <vectors> <shard> <nshards> [kind]")
		}
		sh, _ := strconv.Atoi(os.Args[3])
		n, _ := strconv.Atoi(os.Args[4])
		only := ""
		if len(os.Args) > 5 {
			only = os.Args[5]
		}
		replay(os.Args[2], sh, n, only)
	case "record":
		n, _ := strconv.Atoi(os.Args[3])
		record(os.Args[2], n)
	case "sweep":
		sh, _ := strconv.Atoi(os.Args[3])
		n, _ := strconv.Atoi(os.Args[4])
		sweep(os.Args[2], sh, n)
	case "kinds":
		for _, k := range kinds() {
			ns, vs := cellsOf(k)
			un, uv := 0, 0
			for _, x := range ns {
				if (&inst{kind: k, namePath: x}).valid() {
					un++
				}
			}
			for _, x := range vs {
				if (&inst{kind: k, valPath: x}).valid() {
					uv++
				}
			}
			fmt.Printf("%-16s names=%d/%d values=%d/%d\n", k.Name, un, len(ns), uv, len(vs))
		}
	default:
		hx.Die("unknown mode %s", os.Args[1])
	}
}
