package main

import (
	"fmt"
	"math/rand"
	"strings"

	"github.com/miekg/dns"

	"verifharness/lib/hx"
)

// zoo: record templates of many types; %d is replaced by a small number, NAME by a random owner
var zoo = []string{
	"NAME 3600 IN A 10.0.0.%d",
	"NAME 3600 IN AAAA 2001:db8::%d",
	"NAME 60 IN NS ns%d.example.org.",
	"NAME 60 IN CNAME target%d.example.net.",
	"NAME 60 IN MX %d mail.example.org.",
	"NAME 60 IN TXT \"plain text %d\" \"second string\"",
	"NAME 60 IN TXT \"with \\\"quotes\\\" and \\\\ backslash %d\"",
	"NAME 60 IN TXT \"\\001\\002\\003\\200\\255 binary %d\"",
	"NAME 60 IN SRV 1 2 %d sip.example.org.",
	"NAME 60 IN SOA ns.example.org. host.example.org. %d 7200 3600 1209600 3600",
	"NAME 60 IN PTR host%d.example.org.",
	"NAME 60 IN DNAME other%d.example.",
	"NAME 60 IN HINFO \"cpu%d\" \"os\"",
	"NAME 60 IN NAPTR 100 %d \"s\" \"SIP+D2U\" \"\" _sip._udp.example.org.",
	"NAME 60 IN RP mbox.example.org. txt%d.example.org.",
	"NAME 60 IN DS %d 8 2 0102030405060708090a0b0c0d0e0f101112131415161718191a1b1c1d1e1f20",
	"NAME 60 IN DNSKEY 257 3 8 AwEAAagAIKlVZrpC6Ia7gEzahOR+9W29euxhJhVVLOyQbSEW0O8gcCjF",
	"NAME 60 IN NSEC next%d.example.org. A NS SOA MX RRSIG NSEC DNSKEY TYPE1234",
	"NAME 60 IN CAA 0 issue \"ca%d.example.net\"",
	"NAME 60 IN SVCB %d svc.example.org. alpn=\"h2,h3\" port=8443 ipv4hint=192.0.2.1",
	"NAME 60 IN TLSA 3 1 %d 0102030405060708090a0b0c0d0e0f101112131415161718191a1b1c1d1e1f20",
	"NAME 60 IN LOC 52 22 23.000 N 4 53 32.000 E -2.00m 0.00m 10000m 10m",
	"NAME 60 IN URI 10 %d \"https://example.org/\"",
	// names inside RDATA that may NOT be compressed: their length estimate must be the full name
	"NAME 60 IN RRSIG A 8 2 3600 20300101000000 20200101000000 %d example.org. AwEAAagAIKlVZrpC6Ia7gEzahOR+9W29euxhJhVVLOyQbSEW0O8gcCjF",
	"NAME 60 IN RRSIG NS 13 3 3600 20300101000000 20200101000000 %d www.example.org. AwEAAagAIKlVZrpC6Ia7gEzahOR+9W29euxhJhVVLOyQbSEW",
	"NAME 60 IN KX %d kx.example.org.",
	"NAME 60 IN AFSDB %d afs.example.org.",
	"NAME 60 IN MINFO r.example.org. e%d.example.org.",
	"NAME 60 IN RT %d rt.example.org.",
	"NAME 60 IN PX %d map822.example.org. mapx400.example.org.",
	"NAME 60 IN LP %d l64.example.org.",
	"NAME 60 IN TALINK a%d.example.org. b.example.org.",
	"NAME 60 IN NSEC3 1 1 %d aabbccdd 2t7b4g4vsa5smi47k61mv5bv1a22bojr A RRSIG",
	"NAME 60 IN IPSECKEY 10 3 2 gw%d.example.org. AQNRU3mG7TVTO2BkR47usntb102uFJtugbo6BSGvgqt4AQ==",
	"NAME 60 IN HIP 2 200100107B1A74DF365639CC39F1D578 AwEAAbdxyhNuSutc5EMzxTs9LBPCIkOFH8cIvM4p9+LrV4e19WzK00+CI6zBCQTdtWsuxKbWIy87UOoJTwkUs7lBu+Upr1gsNrut79ryra+bSRGQb1slImA8YVJyuIDsj7kwzG7jnERNqnWxZ48AWkskmdHaVDP4BcelrTI3rMXdXF5D rvs%d.example.org.",
}

var owners = []string{"example.org.", "www.example.org.", "a.b.c.example.org.", "EXAMPLE.org.", "other.test.", ".",
	"esc\\.aped.example.org.", "bin\\000ary.example.org.", "x\\200y.example.org.", "very-long-label-aaaaaaaaaaaaaaaaaaaaaaaaaaaaaaaaaaaaaaaaaaaa.example.org."}

func randRR(r *rand.Rand, escapes bool) dns.RR {
	for {
		t := zoo[r.Intn(len(zoo))]
		o := owners[r.Intn(len(owners))]
		if !escapes && (strings.Contains(t, "\\") || strings.Contains(o, "\\")) {
			continue
		}
		s := strings.Replace(t, "NAME", o, 1)
		if strings.Contains(s, "%") {
			s = fmt.Sprintf(s, r.Intn(200))
		}
		if r.Intn(5) == 0 && strings.Contains(s, " TXT ") { // big filler
			s = o + " 60 IN TXT \"" + strings.Repeat("f", 50+r.Intn(200)) + "\""
		}
		return mustRR(s)
	}
}

// randOpt: an OPT with one to three options drawn from the option universe of Gen_Truncate (mode "opts"), the
// parameters random within the kind's range: every source netmask of a client subnet, data lengths 0..40 ...
func randOpt(r *rand.Rand) *dns.OPT {
	pick := func(xs ...int) int { return xs[r.Intn(len(xs))] }
	var oo []odesc
	for k := 1 + r.Intn(3); k > 0; k-- {
		var d odesc
		switch r.Intn(20) {
		case 0, 1, 2:
			d = odesc{"subnet", 1, r.Intn(33)}
		case 3, 4, 5:
			d = odesc{"subnet", 2, r.Intn(129)}
		case 6:
			d = odesc{"subnet", 0, 0}
		case 7:
			d = odesc{"nsid", r.Intn(40), 0}
		case 8:
			d = odesc{"cookie", pick(8, 16, 24, 32, 40), 0}
		case 9:
			d = odesc{"ul", 1 + r.Intn(7200), pick(0, 0, 1, 7200)}
		case 10:
			d = odesc{"llq", r.Intn(4), r.Intn(7200)}
		case 11:
			d = odesc{[]string{"dau", "dhu", "n3u"}[r.Intn(3)], r.Intn(8), 0}
		case 12:
			d = odesc{"expire", pick(0, 1, 86400), r.Intn(2)}
		case 13:
			d = odesc{"keepalive", pick(0, 0, 1, 600, 65535), 0}
		case 14:
			d = odesc{"padding", r.Intn(200), 0}
		case 15:
			d = odesc{"ede", r.Intn(30), r.Intn(60)}
		case 16:
			d = odesc{"esu", r.Intn(60), 0}
		case 17:
			d = odesc{"local", 65001 + r.Intn(534), r.Intn(40)}
		case 18:
			d = odesc{"reporting", r.Intn(3), 0}
		default:
			d = odesc{"zoneversion", r.Intn(5), pick(0, 4, 8)}
		}
		oo = append(oo, d)
	}
	return optWith(oo)
}

func record(out string, n int, sum *hx.Summary) {
	r := hx.Rand()
	w := hx.NewWriter(out)
	defer w.Close()
	seen := map[string]bool{}
	for i := 0; i < n; i++ {
		escapes := r.Intn(3) == 0
		m := new(dns.Msg)
		m.SetQuestion(owners[r.Intn(5)], dns.TypeANY)
		switch r.Intn(10) { // question sections other than the usual single one
		case 0:
			m.Question = nil
		case 1, 2:
			for k := 1 + r.Intn(3); k > 0; k-- {
				m.Question = append(m.Question, dns.Question{Name: owners[r.Intn(len(owners)-4)], Qtype: uint16(1 + r.Intn(40)), Qclass: dns.ClassINET})
			}
		case 3:
			m.Question[0].Name = longQ[r.Intn(3)*56:]
		}
		m.Response = true
		m.Truncated = r.Intn(6) == 0
		m.Compress = r.Intn(2) == 0
		m.RecursionAvailable = r.Intn(2) == 0
		m.Rcode = r.Intn(6)
		big := r.Intn(3) == 0
		cnt := func() int {
			if big {
				return r.Intn(40)
			}
			return r.Intn(6)
		}
		for k := cnt(); k > 0; k-- {
			m.Answer = append(m.Answer, randRR(r, escapes))
		}
		for k := cnt() / 2; k > 0; k-- {
			m.Ns = append(m.Ns, randRR(r, escapes))
		}
		for k := cnt() / 2; k > 0; k-- {
			m.Extra = append(m.Extra, randRR(r, escapes))
		}
		huge := i%12 == 5
		if huge { // replies that cross the 16384-octet compression-pointer range, cut at a size beyond it
			m.Answer, m.Ns, m.Extra = nil, nil, nil
			for k := 40 + r.Intn(50); k > 0; k-- {
				m.Answer = append(m.Answer, mustRR(fmt.Sprintf("fill%d.early.example. 60 IN TXT \"%s\"", k, filler[:200+r.Intn(50)])))
			}
			late := []string{"late.zone.invalid.", "x.late.zone.invalid.", "other.late.example."}
			for k := 200 + r.Intn(1200); k > 0; k-- {
				rr := mustRR(fmt.Sprintf("h%d.%s 60 IN A 10.1.%d.%d", k, late[r.Intn(len(late))], k/256, k%256))
				if r.Intn(2) == 0 {
					m.Ns = append(m.Ns, rr)
				} else {
					m.Extra = append(m.Extra, rr)
				}
			}
		}
		if r.Intn(2) == 0 {
			pos := r.Intn(len(m.Extra) + 1)
			o := opt(1 + r.Intn(3))
			if r.Intn(2) == 0 {
				o = randOpt(r)
			}
			m.Extra = append(m.Extra[:pos], append([]dns.RR{o}, m.Extra[pos:]...)...)
		}
		// sizes: random, the classic ones, and the exact packed lengths of the whole reply +-1
		var size int
		switch r.Intn(6) {
		case 0:
			size = r.Intn(65536)
		case 1:
			size = []int{0, 1, 511, 512, 513, 1232, 4096, 65535}[r.Intn(8)]
		case 2:
			size = packLen(m, true) + r.Intn(3) - 1
		case 3:
			size = packLen(m, false) + r.Intn(3) - 1
		default:
			size = 512 + r.Intn(1500)
		}
		if huge && r.Intn(4) != 0 {
			if n := packLen(m, true) - 16000; n > 0 {
				size = 16384 + r.Intn(n)
			}
		}
		if size > 65535 { // the property speaks of sizes 0..65535: what Truncate does with larger ones is its own business
			size = 65535
		}
		f := measure(m, size)
		w.Emit(f)
		sum.Evaluations++
		if f.AAn < f.NAn || f.ANs < f.NNs || f.AAr < f.NAr {
			seen[fmt.Sprint(f.NAn, f.NNs, f.NAr, f.AAn, f.ANs, f.AAr, size)] = true
		}
		if i < 3 {
			f2 := f
			f2.Wire = nil
			sum.Sample(f2)
		}
	}
	sum.Nontrivial = len(seen)
}
