// Command truncate binds spec/Truncate.tla to Msg.Truncate (property C09).
//
//	truncate exec <vectors.ndjson> <facts.ndjson>   TLC-enumerated (shape, size selector) cases -> real Truncate -> facts
//	truncate record <facts.ndjson> <n>              random replies of many types x random/boundary sizes -> facts
//	truncate one <case.json>                        re-execute one recorded case (replay); prints its facts
//
// The facts (counts, flags, packed lengths measured with the real Pack) are judged by
// TLC with the relation TruncOK (spec/Trace_Truncate.tla); nothing is judged here.
package main

import (
	"encoding/json"
	"fmt"
	"net"
	"os"
	"sort"
	"strconv"
	"strings"

	"github.com/miekg/dns"

	"verifharness/lib/hx"
)

type sel struct {
	Kind string `json:"kind"`
	V    int    `json:"v"`
	D    int    `json:"d"`
}

// odesc is one EDNS0 option of the option universe of Gen_Truncate: kind and two parameters (see mkOption).
type odesc struct {
	K string `json:"k"`
	A int    `json:"a"`
	B int    `json:"b"`
}

type vcase struct {
	An       []int `json:"an"`
	Ns       []int `json:"ns"`
	Ar       []int `json:"ar"`
	Opt      int   `json:"opt"`
	OO       []odesc `json:"oo,omitempty"` // opt = 4: the options of the OPT record (Gen_Truncate, mode "opts")
	OptPos   int   `json:"optpos"`
	TC       bool  `json:"tc"`
	Compress bool  `json:"compress"`
	Q        int   `json:"q"` // question section: 0 one ordinary, 1 none, 2 two, 3 / 4 one long name
	Sel      sel   `json:"sel"`
}

// Facts is what Trace_Truncate reads; Case lets a replay rebuild the input.
type Facts struct {
	Size     int  `json:"size"`
	NAn      int  `json:"nAn"`
	NNs      int  `json:"nNs"`
	NAr      int  `json:"nAr"`
	AAn      int  `json:"aAn"`
	ANs      int  `json:"aNs"`
	AAr      int  `json:"aAr"`
	HasOpt   bool `json:"hasOpt"`
	OptKept  bool `json:"optKept"`
	TcBefore bool `json:"tcBefore"`
	TcAfter  bool `json:"tcAfter"`
	PrefixOK bool `json:"prefixOK"`
	RestSame bool `json:"restSame"`
	LenFit   int  `json:"lenFit"`
	LenAfter int  `json:"lenAfter"`
	LenHQO   int  `json:"lenHQO"`
	LenNext  int  `json:"lenNext"`
	Plain    bool `json:"plain"`
	// not read by the spec
	Esc  bool   `json:"esc"`            // some name or string of the reply needs an escape sequence in text form
	Wire hx.B   `json:"wire,omitempty"` // random replies: the reply before Truncate, packed uncompressed (replayable input)
	Case *vcase `json:"case,omitempty"` // enumerated cases: the vector itself (replayable input)
	Comp bool   `json:"comp"`
	Over string `json:"over,omitempty"` // a fitting reply was cut: the record types behind the over-estimate of Len() (finding key only)
}

var filler = strings.Repeat("x", 250)

func mustRR(s string) dns.RR {
	rr, err := dns.NewRR(s)
	if err != nil || rr == nil {
		hx.Die("NewRR(%q): %v", s, err)
	}
	return rr
}

func shape(id, i int) dns.RR {
	switch id {
	case 1:
		return mustRR(fmt.Sprintf("a.example.org. 300 IN A 192.0.2.%d", i))
	case 2:
		return mustRR("example.org. 300 IN NS ns1.example.org.")
	case 3:
		return mustRR(fmt.Sprintf("t.example.org. 300 IN TXT \"%s\"", filler[:200]))
	case 4:
		return mustRR(fmt.Sprintf("unrelated%d.test. 300 IN TXT \"%s\"", i, filler[:250]))
	case 5:
		return mustRR("example.org. 300 IN MX 10 mail.some-other-long-domain-name.example.net.")
	case 7: // a name inside RDATA that may not be compressed (RRSIG signer): it is written in full
		return mustRR(fmt.Sprintf("a.example.org. 300 IN RRSIG A 13 3 300 20300101000000 20200101000000 %d example.org. AwEAAagAIKlVZrpC6Ia7gEzahOR+9W29euxhJhVVLOyQbSEW0O8gcCjFFVQUTf6v58fLjwBd0YI0EzrAcQqBGCzh/RStIoO8g0NfnfL2MTJRkxoXbfDaUeVPQuYEhg37NZWAJQ9VnMVDxP/VHL496M/QZxkjf5/Efucp2gaDX6RS6CXpoY68LsvPVjR0ZSwzz1apAzvN9dlzEheX7ICJBBtuA6G3LQpzW5hOA2hzCTMjJPJ8LbqF6dsV6DoBQzgul0sGIcGOYl7OyQdXfZ57relSQageu+ipAdTTJ25AsRTAoub8ONGcLmqrAmRLKBP1dfwhYB4N7knNnulqQxA+Uk1ihz0=", 1000+i))
	case 6:
		return mustRR(fmt.Sprintf("big%d.example.org. 300 IN TXT \"%s\" \"%s\" \"%s\"", i, filler[:200], filler[:200], filler[:200]))
	}
	hx.Die("shape %d", id)
	return nil
}

// mkOption builds the EDNS0 option a descriptor of the option universe stands for (spec/Gen_Truncate.tla lists the
// meaning of the parameters per kind).
func mkOption(d odesc) dns.EDNS0 {
	hexOf := func(n int) string { return strings.Repeat("a7", n) }
	algs := func(n int) []uint8 { return []uint8{8, 13, 15, 16, 5, 7, 10}[:n] }
	switch d.K {
	case "subnet":
		e := &dns.EDNS0_SUBNET{Code: dns.EDNS0SUBNET, Family: uint16(d.A), SourceNetmask: uint8(d.B), SourceScope: uint8(d.B)}
		switch d.A {
		case 1:
			e.Address = net.IPv4(198, 51, 100, 77).To4()
		case 2:
			e.Address = net.ParseIP("2001:db8:1234:5678:9abc:def0:1357:9bdf")
		}
		return e
	case "nsid":
		return &dns.EDNS0_NSID{Code: dns.EDNS0NSID, Nsid: hexOf(d.A)}
	case "cookie":
		return &dns.EDNS0_COOKIE{Code: dns.EDNS0COOKIE, Cookie: hexOf(d.A)}
	case "ul":
		return &dns.EDNS0_UL{Code: dns.EDNS0UL, Lease: uint32(d.A), KeyLease: uint32(d.B)}
	case "llq":
		return &dns.EDNS0_LLQ{Code: dns.EDNS0LLQ, Version: 1, Opcode: uint16(d.A), Id: 0x0102030405060708, LeaseLife: uint32(d.B)}
	case "dau":
		return &dns.EDNS0_DAU{Code: dns.EDNS0DAU, AlgCode: algs(d.A)}
	case "dhu":
		return &dns.EDNS0_DHU{Code: dns.EDNS0DHU, AlgCode: algs(d.A)}
	case "n3u":
		return &dns.EDNS0_N3U{Code: dns.EDNS0N3U, AlgCode: algs(d.A)}
	case "expire":
		return &dns.EDNS0_EXPIRE{Code: dns.EDNS0EXPIRE, Expire: uint32(d.A), Empty: d.B == 1}
	case "keepalive":
		return &dns.EDNS0_TCP_KEEPALIVE{Code: dns.EDNS0TCPKEEPALIVE, Timeout: uint16(d.A)}
	case "padding":
		return &dns.EDNS0_PADDING{Padding: make([]byte, d.A)}
	case "ede":
		return &dns.EDNS0_EDE{InfoCode: uint16(d.A), ExtraText: filler[:d.B]}
	case "esu":
		return &dns.EDNS0_ESU{Code: dns.EDNS0ESU, Uri: ("sip:user@host.example.org;transport=tcp" + filler)[:d.A]}
	case "local":
		return &dns.EDNS0_LOCAL{Code: uint16(d.A), Data: make([]byte, d.B)}
	case "reporting":
		return &dns.EDNS0_REPORTING{Code: dns.EDNS0REPORTING, AgentDomain: []string{".", "agent.example.org.", "agent.example.org"}[d.A]}
	case "zoneversion":
		return &dns.EDNS0_ZONEVERSION{Code: dns.EDNS0ZONEVERSION, LabelCount: uint8(d.A), Type: 0, Version: filler[:d.B]}
	}
	hx.Die("option kind %q", d.K)
	return nil
}

func optWith(oo []odesc) *dns.OPT {
	o := opt(1)
	for _, d := range oo {
		o.Option = append(o.Option, mkOption(d))
	}
	return o
}

func optOf(c *vcase) *dns.OPT {
	if c.Opt == 4 {
		return optWith(c.OO)
	}
	return opt(c.Opt)
}

func opt(kind int) *dns.OPT {
	o := new(dns.OPT)
	o.Hdr.Name = "."
	o.Hdr.Rrtype = dns.TypeOPT
	o.SetUDPSize(1232)
	if kind == 2 {
		o.Option = append(o.Option, &dns.EDNS0_NSID{Code: dns.EDNS0NSID, Nsid: "6e73696431"}, &dns.EDNS0_PADDING{Padding: make([]byte, 17)})
	}
	if kind == 3 { // large: with the long question, header + question + OPT come to 512 octets and more
		o.Option = append(o.Option, &dns.EDNS0_PADDING{Padding: make([]byte, 300)})
	}
	return o
}

func build(c *vcase) *dns.Msg {
	m := new(dns.Msg)
	m.SetQuestion("www.example.org.", dns.TypeA)
	setQuestions(m, c.Q)
	m.Response = true
	m.Truncated = c.TC
	m.Compress = c.Compress
	for i, s := range c.An {
		m.Answer = append(m.Answer, shape(s, i))
	}
	for i, s := range c.Ns {
		m.Ns = append(m.Ns, shape(s, 10+i))
	}
	for i, s := range c.Ar {
		if c.Opt != 0 && c.OptPos == i {
			m.Extra = append(m.Extra, optOf(c))
		}
		m.Extra = append(m.Extra, shape(s, 20+i))
	}
	if c.Opt != 0 && c.OptPos >= len(c.Ar) {
		m.Extra = append(m.Extra, optOf(c))
	}
	return m
}

// longQ: 3 x 56 octets + example.org. = a question name of 181 wire octets; header (12) + question (185) + the
// large OPT (315) are then exactly 512 octets
var longQ = strings.Repeat("q", 55) + "." + strings.Repeat("r", 55) + "." + strings.Repeat("s", 55) + ".example.org."

func setQuestions(m *dns.Msg, q int) {
	switch q {
	case 1:
		m.Question = nil
	case 2:
		m.Question = append(m.Question, dns.Question{Name: "second.example.org.", Qtype: dns.TypeAAAA, Qclass: dns.ClassINET})
	case 3:
		m.Question[0].Name = longQ
	case 4: // header + question + large OPT exceed 512: nothing fits, the OPT must still be there
		m.Question[0].Name = strings.Repeat("p", 29) + "." + longQ
	}
}

func packLen(m *dns.Msg, compress bool) int {
	c := m.Copy()
	c.Compress = compress
	b, err := packRoomy(c)
	if err != nil {
		hx.Die("Pack of a generated reply failed: %v\n%s", err, m)
	}
	return len(b)
}

// packRoomy packs into a buffer that is large enough whatever Len() says: whether Len() is right is C08's
// business; here the question is how many octets the message takes on the wire.
func packRoomy(m *dns.Msg) ([]byte, error) {
	return m.PackBuffer(make([]byte, 1<<17))
}

func nonOpt(rrs []dns.RR) []dns.RR {
	var r []dns.RR
	for _, x := range rrs {
		if x.Header().Rrtype != dns.TypeOPT {
			r = append(r, x)
		}
	}
	return r
}

func findOpt(rrs []dns.RR) dns.RR {
	for i := len(rrs) - 1; i >= 0; i-- {
		if rrs[i].Header().Rrtype == dns.TypeOPT {
			return rrs[i]
		}
	}
	return nil
}

func samePrefix(after, before []dns.RR) bool {
	if len(after) > len(before) {
		return false
	}
	for i := range after {
		if after[i] != before[i] { // identity: the very same records, in order
			return false
		}
	}
	return true
}

var common = map[uint16]bool{dns.TypeA: true, dns.TypeAAAA: true, dns.TypeNS: true, dns.TypeCNAME: true, dns.TypeSOA: true,
	dns.TypePTR: true, dns.TypeMX: true, dns.TypeSRV: true, dns.TypeTXT: true, dns.TypeDNAME: true, dns.TypeMINFO: true,
	dns.TypeRP: true, dns.TypeAFSDB: true, dns.TypeKX: true, dns.TypeNAPTR: true, dns.TypeHINFO: true}

// plain: every record is of a common type and its text needs no escape sequence
func plain(m *dns.Msg) bool {
	for _, q := range m.Question {
		if strings.Contains(q.Name, "\\") {
			return false
		}
	}
	for _, sec := range [][]dns.RR{m.Answer, m.Ns, m.Extra} {
		for _, rr := range sec {
			if rr.Header().Rrtype == dns.TypeOPT {
				continue
			}
			if !common[rr.Header().Rrtype] || strings.Contains(rr.String(), "\\") {
				return false
			}
		}
	}
	return true
}

// measure runs the real Truncate on m and returns the facts.
var keepWire = false

func measure(m *dns.Msg, size int) Facts {
	var f Facts
	f.Size = size
	orig := m.Copy() // independent copy for the length measurements
	bAn, bNs, bAr := nonOpt(m.Answer), nonOpt(m.Ns), nonOpt(m.Extra)
	bOpt := findOpt(m.Extra)
	hdr := m.MsgHdr
	q := append([]dns.Question(nil), m.Question...)
	f.NAn, f.NNs, f.NAr = len(bAn), len(bNs), len(bAr)
	f.HasOpt = bOpt != nil
	f.TcBefore = m.Truncated
	f.Plain = plain(m)
	f.Esc = strings.Contains(m.String(), "\\")
	f.LenFit = packLen(orig, true)
	f.Comp = m.Compress
	if keepWire {
		if w, err := func() ([]byte, error) { c := orig.Copy(); c.Compress = false; return c.Pack() }(); err == nil && len(w) <= 4096 {
			f.Wire = hx.FromBytes(w)
		}
	}

	m.Truncate(size)

	aAn, aNs, aAr := nonOpt(m.Answer), nonOpt(m.Ns), nonOpt(m.Extra)
	f.AAn, f.ANs, f.AAr = len(aAn), len(aNs), len(aAr)
	f.TcAfter = m.Truncated
	f.PrefixOK = samePrefix(aAn, bAn) && samePrefix(aNs, bNs) && samePrefix(aAr, bAr) &&
		len(m.Answer) == len(aAn) && len(m.Ns) == len(aNs) // no OPT may appear outside Extra
	f.OptKept = bOpt != nil && findOpt(m.Extra) == bOpt && len(m.Extra) == len(aAr)+1
	if bOpt == nil && len(m.Extra) != len(aAr) {
		f.PrefixOK = false
	}
	h2 := m.MsgHdr
	h2.Truncated = hdr.Truncated
	f.RestSame = h2 == hdr && len(q) == len(m.Question)
	for i := range q {
		if f.RestSame && q[i] != m.Question[i] {
			f.RestSame = false
		}
	}
	b, err := packRoomy(m)
	if err != nil {
		hx.Die("Pack after Truncate failed: %v", err)
	}
	f.LenAfter = len(b)
	hqo := &dns.Msg{MsgHdr: hdr, Question: q}
	if bOpt != nil {
		hqo.Extra = []dns.RR{bOpt}
	}
	f.LenHQO = packLen(hqo, true)
	// result + the first dropped record, compression on
	nx := &dns.Msg{MsgHdr: hdr, Question: q, Answer: aAn, Ns: aNs, Extra: aAr}
	switch {
	case len(aAn) < len(bAn):
		nx.Answer = append(append([]dns.RR(nil), aAn...), bAn[len(aAn)])
	case len(aNs) < len(bNs):
		nx.Ns = append(append([]dns.RR(nil), aNs...), bNs[len(aNs)])
	case len(aAr) < len(bAr):
		nx.Extra = append(append([]dns.RR(nil), aAr...), bAr[len(aAr)])
	default:
		nx = nil
	}
	if nx != nil {
		if bOpt != nil {
			nx.Extra = append(append([]dns.RR(nil), nx.Extra...), bOpt)
		}
		f.LenNext = packLen(nx, true)
	}
	lim := size
	if lim < 512 {
		lim = 512
	}
	if f.LenFit <= lim && (f.AAn < f.NAn || f.ANs < f.NNs || f.AAr < f.NAr) {
		f.Over = overCause(orig)
	} else if nx != nil && f.Plain && f.LenNext <= lim { // the first dropped record would have fitted
		f.Over = overCause(nx)
	}
	return f
}

// overCause names, for a reply whose compressed Len() exceeds its packed length, the record types behind the
// excess: the first record at which the excess grows, and the smallest set of earlier records it needs for that.
// Only used to keep the finding keys of distinct defects apart.
func overCause(m *dns.Msg) string {
	excess := func(rrs []dns.RR) int {
		x := &dns.Msg{MsgHdr: m.MsgHdr, Question: m.Question, Compress: true, Answer: rrs}
		b, err := packRoomy(x)
		if err != nil {
			return 0
		}
		return x.Len() - len(b)
	}
	all := append(append(append([]dns.RR(nil), m.Answer...), m.Ns...), m.Extra...)
	for i := range all {
		base := excess(all[:i])
		if excess(all[:i+1]) <= base {
			continue
		}
		keep := append([]dns.RR(nil), all[:i]...)
		for k := 0; k < len(keep); {
			t := append(append([]dns.RR(nil), keep[:k]...), keep[k+1:]...)
			if excess(append(append([]dns.RR(nil), t...), all[i])) > excess(t) {
				keep = t
			} else {
				k++
			}
		}
		if len(keep) > 0 {
			if ex := excess(keep); ex > 0 { // the earlier records over-estimate among themselves
				continue
			}
		}
		set := map[string]bool{}
		for _, r := range keep {
			set[dns.TypeToString[r.Header().Rrtype]] = true
		}
		if len(set) == 0 {
			if o, ok := all[i].(*dns.OPT); ok { // name the option kinds too: OPT(SUBNET)
				return "OPT" + overOptions(o)
			}
			return dns.TypeToString[all[i].Header().Rrtype]
		}
		var names []string
		for n := range set {
			names = append(names, n)
		}
		sort.Strings(names)
		return strings.Join(names, "+") + ">" + dns.TypeToString[all[i].Header().Rrtype]
	}
	return ""
}

// overOptions names the kinds of the options of o for which Len() of an OPT holding that option alone exceeds what
// Pack writes for it, e.g. "(SUBNET)"; "" when no single option accounts for the excess.  Finding key only.
func overOptions(o *dns.OPT) string {
	set := map[string]bool{}
	for _, e := range o.Option {
		one := &dns.OPT{Hdr: o.Hdr, Option: []dns.EDNS0{e}}
		buf := make([]byte, 1<<17)
		off, err := dns.PackRR(one, buf, 0, nil, false)
		if err == nil && dns.Len(one) > off {
			set[strings.TrimPrefix(fmt.Sprintf("%T", e), "*dns.EDNS0_")] = true
		}
	}
	if len(set) == 0 {
		return ""
	}
	var names []string
	for n := range set {
		names = append(names, n)
	}
	sort.Strings(names)
	return "(" + strings.Join(names, "+") + ")"
}

func resolve(c *vcase, m *dns.Msg) int {
	switch c.Sel.Kind {
	case "abs":
		return c.Sel.V
	case "ulen":
		return packLen(m, false) + c.Sel.D
	case "prefix":
		all := append(append(append([]dns.RR(nil), nonOpt(m.Answer)...), nonOpt(m.Ns)...), nonOpt(m.Extra)...)
		k := c.Sel.V
		p := &dns.Msg{MsgHdr: m.MsgHdr, Question: m.Question}
		nA, nN := len(nonOpt(m.Answer)), len(nonOpt(m.Ns))
		for i := 0; i < k && i < len(all); i++ {
			switch {
			case i < nA:
				p.Answer = append(p.Answer, all[i])
			case i < nA+nN:
				p.Ns = append(p.Ns, all[i])
			default:
				p.Extra = append(p.Extra, all[i])
			}
		}
		if o := findOpt(m.Extra); o != nil {
			p.Extra = append(p.Extra, o)
		}
		n := packLen(p, true) + c.Sel.D
		if n < 0 {
			n = 0
		}
		return n
	}
	hx.Die("selector %q", c.Sel.Kind)
	return 0
}

func main() {
	if len(os.Args) < 3 {
		hx.Die("usage")
	}
	var sum hx.Summary
	switch os.Args[1] {
	case "exec":
		w := hx.NewWriter(os.Args[3])
		seen := map[string]bool{}
		hx.ReadNDJSON(os.Args[2], func(i int, c *vcase) {
			m := build(c)
			size := resolve(c, m)
			f := measure(m, size)
			f.Case = c
			w.Emit(f)
			sum.Evaluations++
			if f.AAn < f.NAn || f.ANs < f.NNs || f.AAr < f.NAr {
				seen[fmt.Sprint(c.An, c.Ns, c.Ar, c.Opt, c.OO, c.OptPos, size)] = true // non-trivial: something was cut
			}
			if i%4001 == 0 {
				sum.Sample(map[string]interface{}{"case": c, "size": size, "after": []int{f.AAn, f.ANs, f.AAr}, "tc": f.TcAfter, "lenAfter": f.LenAfter})
			}
		})
		w.Close()
		sum.Nontrivial = len(seen)
	case "record":
		keepWire = true
		n, _ := strconv.Atoi(os.Args[3])
		record(os.Args[2], n, &sum)
	case "one":
		var f Facts
		b, err := os.ReadFile(os.Args[2])
		if err != nil {
			hx.Die("%v", err)
		}
		if err := json.Unmarshal(b, &f); err != nil {
			hx.Die("%v", err)
		}
		var m *dns.Msg
		if f.Case != nil {
			m = build(f.Case)
		} else {
			if len(f.Wire) == 0 {
				hx.Die("the stored case carries neither the vector nor the reply octets (reply larger than 4096 octets): re-run the check with the same seed")
			}
			m = new(dns.Msg)
			if err := m.Unpack(f.Wire.Bytes()); err != nil {
				hx.Die("unpack of the stored reply: %v", err)
			}
			m.Compress = f.Comp
		}
		w := hx.NewWriter(os.Args[3])
		w.Emit(measure(m, f.Size))
		w.Close()
		sum.Evaluations = 1
	default:
		hx.Die("mode")
	}
	sum.Print()
}
