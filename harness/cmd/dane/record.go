package main

import (
	"crypto/x509"
	"strings"

	"github.com/miekg/dns"

	"verifharness/lib/hx"
)

// Event is one line of the trace for Trace_Dane.
type Event struct {
	Ev    string  `json:"ev"`
	Typ   string  `json:"typ,omitempty"` // TLSA | SMIMEA
	Table []Dig   `json:"table"`
	Cert  *CertIn `json:"cert,omitempty"`
	Usage *int    `json:"usage,omitempty"`
	Sel   *int    `json:"sel,omitempty"`
	Mt    *int    `json:"mt,omitempty"`
	// sign
	Rrtype  *int  `json:"rrtype,omitempty"`
	Rec     *Rec  `json:"rec,omitempty"`
	HdrSame *bool `json:"hdrsame,omitempty"`
	// verify: text = the record's Certificate field; via = how the record was made
	Via string `json:"via,omitempty"`
	// names
	Name    *hx.B   `json:"name,omitempty"`
	Service *hx.B   `json:"service,omitempty"`
	SvcName *string `json:"svcname,omitempty"`
	Network *hx.B   `json:"network,omitempty"`
	NetName *string `json:"netname,omitempty"`
	Local   *hx.B   `json:"local,omitempty"`
	Domain  *hx.B   `json:"domain,omitempty"`
	// results
	Ok   bool  `json:"ok"`
	Text *hx.B `json:"text,omitempty"`
}

type Rec struct {
	Rrtype   int  `json:"rrtype"`
	Usage    int  `json:"usage"`
	Selector int  `json:"selector"`
	Matching int  `json:"matching"`
	Text     hx.B `json:"text"`
}

func ip(i int) *int       { return &i }
func bp(b bool) *bool     { return &b }
func sp(s string) *string { return &s }
func tp(s string) *hx.B   { b := hx.FromString(s); return &b }

func certIn(c *x509.Certificate) *CertIn {
	return &CertIn{Raw: hx.FromBytes(c.Raw), Spki: hx.FromBytes(c.RawSubjectPublicKeyInfo)}
}

var knownSvc = map[string]bool{"https": true, "smtp": true, "domain": true, "imaps": true}

// the calls, shared by record and reexec
func doDane(c *x509.Certificate, sel, mt int) Event {
	got, err := dns.CertificateToDANE(uint8(sel), uint8(mt), c)
	return Event{Ev: "dane", Table: tableFor(c), Cert: certIn(c), Sel: ip(sel), Mt: ip(mt), Ok: err == nil, Text: tp(got)}
}

func doSign(typ string, c *x509.Certificate, usage, sel, mt int) Event {
	hdr := dns.RR_Header{Name: "owner.example.", Class: dns.ClassCHAOS, Ttl: 4711}
	rr := newRec(typ, hdr)
	err := rr.(signer).Sign(usage, sel, mt, c)
	want := map[string]int{"TLSA": int(dns.TypeTLSA), "SMIMEA": int(dns.TypeSMIMEA)}[typ]
	e := Event{Ev: "sign", Typ: typ, Table: tableFor(c), Cert: certIn(c), Usage: ip(usage), Sel: ip(sel), Mt: ip(mt), Rrtype: ip(want), Ok: err == nil}
	if err == nil {
		rt, u, s, m, text := fields(rr)
		e.Rec = &Rec{int(rt), int(u), int(s), int(m), hx.FromString(text)}
		h := rr.Header()
		e.HdrSame = bp(h.Name == "owner.example." && h.Class == dns.ClassCHAOS && h.Ttl == 4711)
	}
	return e
}

func doVerify(typ string, c *x509.Certificate, sel, mt int, text, via string) (Event, bool) {
	rr, err := recOf(typ, 3, sel, mt, text, via)
	if err != nil {
		return Event{}, false
	}
	_, _, _, _, stored := fields(rr)
	verr := rr.(signer).Verify(c)
	return Event{Ev: "verify", Typ: typ, Via: via, Table: tableFor(c), Cert: certIn(c), Sel: ip(sel), Mt: ip(mt), Text: tp(stored), Ok: verr == nil}, true
}

func doTlsaName(name, service, network string) Event {
	got, err := dns.TLSAName(name, service, network)
	sn := ""
	if knownSvc[service] {
		sn = service
	}
	return Event{Ev: "tlsaname", Table: []Dig{}, Name: tp(name), Service: tp(service), SvcName: sp(sn), Network: tp(network), NetName: sp(network), Ok: err == nil, Text: tp(got)}
}

func doSmimeaName(local, domain string) Event {
	got, err := dns.SMIMEAName(local, domain)
	return Event{Ev: "smimeaname", Table: localTable(local, domain), Local: tp(local), Domain: tp(domain), Ok: err == nil, Text: tp(got)}
}

func record(out string, n int, sum *hx.Summary) {
	rng := hx.Rand()
	w := hx.NewWriter(out)
	defer w.Close()
	var certs []*x509.Certificate
	for i := 0; i < 6; i++ {
		certs = append(certs, newCert(rng.Intn(4), rng))
	}
	small := func() int {
		switch rng.Intn(10) {
		case 0:
			return rng.Intn(256)
		case 1:
			return 256 + rng.Intn(3)
		case 2:
			return -1 - rng.Intn(3)
		default:
			return rng.Intn(4)
		}
	}
	u8 := func() int {
		if rng.Intn(8) == 0 {
			return rng.Intn(256)
		}
		return rng.Intn(4)
	}
	names := []string{"example.com.", "a.b.example.", ".", "example.com", "mail.example.org.", "xn--bcher-kva.example."}
	svcs := []string{"443", "25", "53", "853", "0", "65535", "65536", "70000", "007", "https", "smtp", "domain", "imaps", "nosuch-x07", "44x"}
	nets := []string{"tcp", "udp", "sctp"}
	typ := func() string { return []string{"TLSA", "SMIMEA"}[rng.Intn(2)] }
	for i := 0; i < n; i++ {
		c := certs[rng.Intn(len(certs))]
		var e Event
		ok := true
		switch k := rng.Intn(10); {
		case k < 2:
			e = doDane(c, u8(), u8())
		case k < 4:
			e = doSign(typ(), c, small(), small(), small())
		case k < 7:
			sel, mt := rng.Intn(2), rng.Intn(3)
			if rng.Intn(6) == 0 {
				sel, mt = u8(), u8()
			}
			text, _ := dns.CertificateToDANE(uint8(sel), uint8(mt), c)
			switch rng.Intn(7) {
			case 0:
				text = strings.ToUpper(text)
			case 1: // upper-case some digits
				b := []byte(text)
				for j := range b {
					if rng.Intn(3) == 0 {
						b[j] = strings.ToUpper(string(b[j]))[0]
					}
				}
				text = string(b)
			case 2: // another certificate's
				text, _ = dns.CertificateToDANE(uint8(sel), uint8(mt), certs[rng.Intn(len(certs))])
			case 3: // one digit changed
				if len(text) > 0 {
					b := []byte(text)
					j := rng.Intn(len(b))
					b[j] = "0123456789abcdef"[(strings.IndexByte("0123456789abcdef", b[j])+1+rng.Intn(15))%16]
					text = string(b)
				}
			case 4:
				if len(text) >= 2 {
					text = text[:len(text)-2]
				}
			}
			via := []string{"struct", "parse"}[rng.Intn(2)]
			if text == "" {
				via = "struct"
			}
			e, ok = doVerify(typ(), c, sel, mt, text, via)
		case k < 9:
			e = doTlsaName(names[rng.Intn(len(names))], svcs[rng.Intn(len(svcs))], nets[rng.Intn(len(nets))])
		default:
			e = doSmimeaName(locals[rng.Intn(len(locals))], names[rng.Intn(len(names))])
		}
		if !ok {
			continue
		}
		w.Emit(e)
		sum.Evaluations++
		if sum.Evaluations%37 == 1 && e.Cert == nil {
			sum.Sample(e)
		}
	}
	sum.Nontrivial = sum.Evaluations
}

// reexec redoes the inputs of recorded events against the real code.
func reexec(inp, out string, sum *hx.Summary) {
	w := hx.NewWriter(out)
	defer w.Close()
	hx.ReadNDJSON(inp, func(i int, e *Event) {
		sum.Evaluations++
		var c *x509.Certificate
		if e.Cert != nil {
			var err error
			if c, err = x509.ParseCertificate(e.Cert.Raw.Bytes()); err != nil {
				hx.Die("event %d: certificate: %v", i, err)
			}
		}
		switch e.Ev {
		case "dane":
			w.Emit(doDane(c, *e.Sel, *e.Mt))
		case "sign":
			w.Emit(doSign(e.Typ, c, *e.Usage, *e.Sel, *e.Mt))
		case "verify":
			if ev, ok := doVerify(e.Typ, c, *e.Sel, *e.Mt, e.Text.String(), e.Via); ok {
				w.Emit(ev)
			}
		case "tlsaname":
			w.Emit(doTlsaName(e.Name.String(), e.Service.String(), e.Network.String()))
		case "smimeaname":
			w.Emit(doSmimeaName(e.Local.String(), e.Domain.String()))
		}
	})
}
