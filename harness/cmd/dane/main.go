// Command dane binds spec/Dane.tla to dane.go / tlsa.go / smimea.go.
//
//	dane inputs <out.ndjson>              certificates generated now (crypto/x509), local-parts, and the digest table
//	                                      (crypto/sha256, crypto/sha512 over right pre-images and decoys) for Gen_Dane
//	dane replay <vectors.ndjson> <inputs> every vector of Gen_Dane against the real functions
//	dane record <out.ndjson> <n>          random calls; every event carries its certificate and digest table
//	dane reexec <in.ndjson> <out>         redo recorded events' inputs
//
// The harness hashes octets; which octets are hashed, how much is kept and how it is written is the
// specification's business.
package main

import (
	"crypto/ecdsa"
	"crypto/ed25519"
	"crypto/elliptic"
	"crypto/rand"
	"crypto/rsa"
	"crypto/sha256"
	"crypto/sha512"
	"crypto/x509"
	"crypto/x509/pkix"
	"fmt"
	"math/big"
	mrand "math/rand"
	"os"
	"strconv"
	"strings"
	"time"

	"github.com/miekg/dns"

	"verifharness/lib/hx"
)

type Dig struct {
	Kind string `json:"kind,omitempty"`
	Alg  string `json:"alg"`
	Pre  hx.B   `json:"pre"`
	Dig  hx.B   `json:"dig"`
}

type CertIn struct {
	Kind string `json:"kind,omitempty"`
	ID   int    `json:"id,omitempty"`
	Raw  hx.B   `json:"raw"`
	Spki hx.B   `json:"spki"`
}

type LocalIn struct {
	Kind string `json:"kind"`
	ID   int    `json:"id"`
	Text hx.B   `json:"text"`
}

// anyIn decodes every line shape of the inputs file.
type anyIn struct {
	Kind string `json:"kind"`
	ID   int    `json:"id"`
	Raw  hx.B   `json:"raw"`
	Spki hx.B   `json:"spki"`
	Text hx.B   `json:"text"`
}

func digests(pre []byte) []Dig {
	a := sha256.Sum256(pre)
	b := sha512.Sum512(pre)
	return []Dig{{"dig", "sha256", hx.FromBytes(pre), hx.FromBytes(a[:])}, {"dig", "sha512", hx.FromBytes(pre), hx.FromBytes(b[:])}}
}

// newCert makes a self-signed certificate of the given key kind.
func newCert(kind int, rng *mrand.Rand) *x509.Certificate {
	var pub, priv interface{}
	switch kind % 4 {
	case 0:
		k, err := ecdsa.GenerateKey(elliptic.P256(), rand.Reader)
		if err != nil {
			hx.Die("%v", err)
		}
		pub, priv = &k.PublicKey, k
	case 1:
		k, err := ecdsa.GenerateKey(elliptic.P384(), rand.Reader)
		if err != nil {
			hx.Die("%v", err)
		}
		pub, priv = &k.PublicKey, k
	case 2:
		p, k, err := ed25519.GenerateKey(rand.Reader)
		if err != nil {
			hx.Die("%v", err)
		}
		pub, priv = p, k
	default:
		k, err := rsa.GenerateKey(rand.Reader, 1024+512*(kind%2))
		if err != nil {
			hx.Die("%v", err)
		}
		pub, priv = &k.PublicKey, k
	}
	cn := "x08-" + strings.Repeat("n", rng.Intn(20)) + ".example"
	tmpl := &x509.Certificate{SerialNumber: big.NewInt(int64(1 + rng.Intn(1<<30))), Subject: pkix.Name{CommonName: cn, Organization: []string{"verif"}},
		NotBefore: time.Now().Add(-time.Hour), NotAfter: time.Now().Add(240 * time.Hour), DNSNames: []string{cn},
		KeyUsage: x509.KeyUsageDigitalSignature, BasicConstraintsValid: true}
	der, err := x509.CreateCertificate(rand.Reader, tmpl, tmpl, pub, priv)
	if err != nil {
		hx.Die("create certificate: %v", err)
	}
	c, err := x509.ParseCertificate(der)
	if err != nil {
		hx.Die("parse certificate: %v", err)
	}
	return c
}

// tableFor: the digests of everything a reader of RFC 6698 might hash for this certificate.
func tableFor(c *x509.Certificate) []Dig {
	var t []Dig
	for _, pre := range [][]byte{c.Raw, c.RawSubjectPublicKeyInfo, c.RawTBSCertificate, c.RawSubject} {
		t = append(t, digests(pre)...)
	}
	return t
}

var locals = []string{"u", "hugh", "user", "User", "chris.o'neil+tag", "j\xc3\xb6rg", strings.Repeat("l", 64), ""}

func localTable(l string, domain string) []Dig {
	var t []Dig
	for _, pre := range []string{l, strings.ToLower(l), l + "@" + strings.TrimSuffix(domain, "."), l + "@" + domain} {
		t = append(t, digests([]byte(pre))...)
	}
	return t
}

func inputs(out string, ncert int) {
	rng := hx.Rand()
	w := hx.NewWriter(out)
	defer w.Close()
	seen := map[string]bool{}
	emit := func(ds []Dig) {
		for _, d := range ds {
			k := d.Alg + string(d.Pre.Bytes())
			if !seen[k] {
				seen[k] = true
				w.Emit(d)
			}
		}
	}
	for i := 1; i <= ncert; i++ {
		c := newCert(i-1, rng)
		w.Emit(CertIn{"cert", i, hx.FromBytes(c.Raw), hx.FromBytes(c.RawSubjectPublicKeyInfo)})
		emit(tableFor(c))
	}
	for i, l := range locals {
		w.Emit(LocalIn{"local", i + 1, hx.FromString(l)})
		emit(localTable(l, "example.com."))
	}
}

// ---------------------------------------------------------------- replay

type VCase struct {
	Text hx.B   `json:"text"`
	Cert int    `json:"cert"`
	Sel  int    `json:"sel"`
	Mt   int    `json:"mt"`
	Via  string `json:"via"`
	Ok   bool   `json:"ok"`
}

type Vector struct {
	Kind  string `json:"kind"`
	Cert  int    `json:"cert"`
	Usage int    `json:"usage"`
	Sel   int    `json:"sel"`
	Mt    int    `json:"mt"`
	Dane  struct {
		App  bool `json:"app"`
		Ok   bool `json:"ok"`
		Text hx.B `json:"text"`
	} `json:"dane"`
	Sign struct {
		MayFail    bool `json:"mayfail"`
		MaySucceed bool `json:"maysucceed"`
		Usage      int  `json:"usage"`
		Selector   int  `json:"selector"`
		Matching   int  `json:"matching"`
		Text       hx.B `json:"text"`
	} `json:"sign"`
	Verify []VCase `json:"verify"`
	// names
	Name    hx.B `json:"name"`
	Service hx.B `json:"service"`
	Network hx.B `json:"network"`
	Local   hx.B `json:"local"`
	Domain  hx.B `json:"domain"`
	Root    bool `json:"root"`
	MayFail bool `json:"mayfail"`
	Ok      bool `json:"ok"`
	Text    hx.B `json:"text"`
}

func rangeClass(v int) string {
	switch {
	case v < 0 || v > 255:
		return "outside-uint8"
	default:
		return "uint8"
	}
}

func hexClass(t string) string {
	if t != strings.ToLower(t) {
		return "uppercase-hex"
	}
	return "lowercase-hex"
}

type signer interface {
	Sign(usage, selector, matchingType int, cert *x509.Certificate) error
	Verify(cert *x509.Certificate) error
}

// fields reads a TLSA / SMIMEA record back.
func fields(rr dns.RR) (rrtype uint16, usage, sel, mt uint8, text string) {
	switch r := rr.(type) {
	case *dns.TLSA:
		return r.Hdr.Rrtype, r.Usage, r.Selector, r.MatchingType, r.Certificate
	case *dns.SMIMEA:
		return r.Hdr.Rrtype, r.Usage, r.Selector, r.MatchingType, r.Certificate
	}
	hx.Die("not a TLSA / SMIMEA record")
	return
}

func newRec(typ string, hdr dns.RR_Header) dns.RR {
	if typ == "TLSA" {
		return &dns.TLSA{Hdr: hdr}
	}
	return &dns.SMIMEA{Hdr: hdr}
}

// recOf builds the record Verify is called on: directly, or through the zone-file parser.
func recOf(typ string, usage, sel, mt int, text, via string) (dns.RR, error) {
	if via == "parse" {
		return dns.NewRR(fmt.Sprintf("x.example. 300 IN %s %d %d %d %s", typ, usage, sel, mt, text))
	}
	if typ == "TLSA" {
		return &dns.TLSA{Hdr: dns.RR_Header{Name: "x.example.", Rrtype: dns.TypeTLSA, Class: dns.ClassINET}, Usage: uint8(usage), Selector: uint8(sel), MatchingType: uint8(mt), Certificate: text}, nil
	}
	return &dns.SMIMEA{Hdr: dns.RR_Header{Name: "x.example.", Rrtype: dns.TypeSMIMEA, Class: dns.ClassINET}, Usage: uint8(usage), Selector: uint8(sel), MatchingType: uint8(mt), Certificate: text}, nil
}

func replay(path, inp string, sum *hx.Summary) {
	certs := map[int]*x509.Certificate{}
	hx.ReadNDJSON(inp, func(i int, v *anyIn) {
		if v.Kind == "cert" {
			c, err := x509.ParseCertificate(v.Raw.Bytes())
			if err != nil {
				hx.Die("inputs: certificate %d: %v", v.ID, err)
			}
			certs[v.ID] = c
		}
	})
	hx.ReadNDJSON(path, func(i int, v *Vector) {
		sum.Evaluations++
		brief := map[string]interface{}{"kind": v.Kind, "cert": v.Cert, "usage": v.Usage, "sel": v.Sel, "mt": v.Mt}
		switch v.Kind {
		case "dane":
			c := certs[v.Cert]
			if v.Dane.App {
				got, err := dns.CertificateToDANE(uint8(v.Sel), uint8(v.Mt), c)
				switch {
				case v.Dane.Ok && err != nil:
					sum.Mis("dane/todane:rejects", fmt.Sprintf("CertificateToDANE(%d, %d) fails: %v", v.Sel, v.Mt, err), brief)
				case !v.Dane.Ok && err == nil:
					sum.Mis("dane/todane:accepts-unsupported", fmt.Sprintf("CertificateToDANE(%d, %d) succeeds", v.Sel, v.Mt), brief)
				case v.Dane.Ok && got != v.Dane.Text.String():
					sum.Mis(fmt.Sprintf("dane/todane:text:sel=%d:mt=%d", v.Sel, v.Mt),
						fmt.Sprintf("CertificateToDANE(%d, %d) = %.40s..., the specification says %.40s...", v.Sel, v.Mt, got, v.Dane.Text.String()), brief)
				}
			}
			for _, typ := range []string{"TLSA", "SMIMEA"} {
				hdr := dns.RR_Header{Name: "owner.example.", Rrtype: 0, Class: dns.ClassCHAOS, Ttl: 4711}
				rr := newRec(typ, hdr)
				err := rr.(signer).Sign(v.Usage, v.Sel, v.Mt, c)
				cls := "arg-" + rangeClass(v.Sel)
				if rangeClass(v.Mt) != "uint8" {
					cls = "arg-" + rangeClass(v.Mt)
				}
				switch {
				case err != nil && !v.Sign.MayFail:
					sum.Mis("dane/sign:rejects:"+typ, fmt.Sprintf("%s.Sign(%d, %d, %d) fails: %v", typ, v.Usage, v.Sel, v.Mt, err), brief)
				case err == nil && !v.Sign.MaySucceed:
					sum.Mis("dane/sign:accepts-unsupported:"+typ+":"+cls, fmt.Sprintf("%s.Sign(%d, %d, %d) succeeds", typ, v.Usage, v.Sel, v.Mt), brief)
				case err == nil:
					rt, u, s, m, text := fields(rr)
					want := map[string]uint16{"TLSA": dns.TypeTLSA, "SMIMEA": dns.TypeSMIMEA}[typ]
					h := rr.Header()
					switch {
					case rt != want:
						sum.Mis("dane/sign:rrtype:"+typ, fmt.Sprintf("Hdr.Rrtype = %d after Sign", rt), brief)
					case int(u) != v.Sign.Usage || int(s) != v.Sign.Selector || int(m) != v.Sign.Matching:
						sum.Mis("dane/sign:fields:"+typ, fmt.Sprintf("record has (%d, %d, %d) after Sign(%d, %d, %d)", u, s, m, v.Usage, v.Sel, v.Mt), brief)
					case text != v.Sign.Text.String():
						sum.Mis(fmt.Sprintf("dane/sign:text:%s:sel=%d:mt=%d", typ, v.Sel, v.Mt), fmt.Sprintf("Certificate = %.40s..., the specification says %.40s...", text, v.Sign.Text.String()), brief)
					case h.Name != "owner.example." || h.Class != dns.ClassCHAOS || h.Ttl != 4711:
						sum.Mis("dane/sign:header:"+typ, "Sign changed the owner, class or TTL of the record", brief)
					}
				}
			}
			for k, vc := range v.Verify {
				for _, typ := range []string{"TLSA", "SMIMEA"} {
					rr, err := recOf(typ, 3, vc.Sel, vc.Mt, vc.Text.String(), vc.Via)
					if err != nil {
						if vc.Via == "parse" && len(vc.Text) > 0 {
							sum.Mis("dane/verify:parse:"+typ, fmt.Sprintf("the record does not parse: %v", err), brief)
						}
						continue
					}
					verr := rr.(signer).Verify(certs[vc.Cert])
					b2 := map[string]interface{}{"vector": brief, "verify": k, "via": vc.Via, "cert": vc.Cert, "sel": vc.Sel, "mt": vc.Mt}
					if vc.Ok && verr != nil {
						sum.Mis("dane/verify:rejects:"+typ+":"+hexClass(vc.Text.String()), fmt.Sprintf("%s.Verify fails on a record that matches the certificate (%s): %v", typ, vc.Via, verr), b2)
					}
					if !vc.Ok && verr == nil {
						sum.Mis("dane/verify:accepts:"+typ, typ+".Verify accepts a record that does not match the certificate", b2)
					}
				}
			}
		case "tlsaname":
			got, err := dns.TLSAName(v.Name.String(), v.Service.String(), v.Network.String())
			nm := map[string]interface{}{"name": v.Name.String(), "service": v.Service.String(), "network": v.Network.String()}
			cls := ""
			if v.Root {
				cls = ":root"
			}
			switch {
			case v.Ok && err != nil:
				sum.Mis("dane/tlsaname:rejects"+cls, fmt.Sprintf("TLSAName fails: %v; the specification says %q", err, v.Text.String()), nm)
			case !v.Ok && err == nil:
				sum.Mis("dane/tlsaname:accepts"+cls, fmt.Sprintf("TLSAName = %q, the specification says error", got), nm)
			case v.Ok && got != v.Text.String():
				sum.Mis("dane/tlsaname:text"+cls, fmt.Sprintf("TLSAName = %q, the specification says %q", got, v.Text.String()), nm)
			}
			if i%97 == 0 {
				sum.Sample(map[string]interface{}{"in": nm, "got": got, "err": fmt.Sprint(err)})
			}
		case "smimeaname":
			got, err := dns.SMIMEAName(v.Local.String(), v.Domain.String())
			nm := map[string]interface{}{"local": v.Local, "domain": v.Domain.String()}
			cls := ""
			if v.Root {
				cls = ":root"
			}
			switch {
			case err != nil && !v.MayFail:
				sum.Mis("dane/smimeaname:rejects"+cls, fmt.Sprintf("SMIMEAName fails: %v", err), nm)
			case err == nil && got != v.Text.String():
				sum.Mis("dane/smimeaname:text"+cls, fmt.Sprintf("SMIMEAName = %q, the specification says %q", got, v.Text.String()), nm)
			}
		default:
			hx.Die("unknown vector kind %q", v.Kind)
		}
	})
	sum.Nontrivial = sum.Evaluations
}

func main() {
	if len(os.Args) < 3 {
		hx.Die("usage: dane inputs <out> | replay <vectors> <inputs> | record <out> <n> | reexec <in> <out>")
	}
	var sum hx.Summary
	switch os.Args[1] {
	case "inputs":
		n := 4
		if len(os.Args) > 3 {
			n, _ = strconv.Atoi(os.Args[3])
		}
		inputs(os.Args[2], n)
	case "replay":
		replay(os.Args[2], os.Args[3], &sum)
	case "record":
		n := 300
		if len(os.Args) > 3 {
			n, _ = strconv.Atoi(os.Args[3])
		}
		record(os.Args[2], n, &sum)
	case "reexec":
		reexec(os.Args[2], os.Args[3], &sum)
	default:
		hx.Die("unknown mode %s", os.Args[1])
	}
	sum.Print()
}
