package main

import (
	"bytes"
	"encoding/binary"
	"fmt"
	"math/rand"
	"os"

	"github.com/miekg/dns"

	"verifharness/lib/hx"
	"verifharness/lib/zoo"
)

// mutate returns a hostile variant of a valid packed message.
func mutate(r *rand.Rand, b []byte) []byte {
	o := append([]byte(nil), b...)
	switch r.Intn(9) {
	case 0: // truncation at a random offset
		return o[:r.Intn(len(o)+1)]
	case 1: // bit flips
		for k := 1 + r.Intn(3); k > 0 && len(o) > 0; k-- {
			o[r.Intn(len(o))] ^= 1 << uint(r.Intn(8))
		}
	case 2: // byte overwrite with interesting values
		for k := 1 + r.Intn(4); k > 0 && len(o) > 0; k-- {
			o[r.Intn(len(o))] = []byte{0, 1, 0x3f, 0x40, 0x80, 0xc0, 0xc1, 0xff, 0x0c}[r.Intn(9)]
		}
	case 3: // lying counts
		if len(o) >= 12 {
			binary.BigEndian.PutUint16(o[4+2*r.Intn(4):], []uint16{0, 1, 2, 255, 65535}[r.Intn(5)])
		}
	case 4: // splice a slice of itself elsewhere
		if len(o) > 20 {
			a, c := 12+r.Intn(len(o)-12), 12+r.Intn(len(o)-12)
			n := r.Intn(16)
			if a+n < len(o) && c+n < len(o) {
				copy(o[a:a+n], b[c:c+n])
			}
		}
	case 5: // insert a pointer somewhere
		if len(o) > 14 {
			p := 12 + r.Intn(len(o)-13)
			t := r.Intn(len(o))
			if r.Intn(4) == 0 {
				t = p // self pointer
			}
			o[p], o[p+1] = 0xc0|byte(t>>8), byte(t)
		}
	case 6: // 16-bit field set to a boundary value (RDLENGTHs, lengths, option lengths)
		if len(o) > 14 {
			p := 12 + r.Intn(len(o)-13)
			binary.BigEndian.PutUint16(o[p:], []uint16{0, 1, 0xff, 0x100, 0x7fff, 0xffff, uint16(len(o)), uint16(len(o) - p)}[r.Intn(8)])
		}
	case 7: // drop a byte / insert a byte
		if len(o) > 13 {
			p := 12 + r.Intn(len(o)-12)
			if r.Intn(2) == 0 {
				o = append(o[:p], o[p+1:]...)
			} else {
				o = append(o[:p], append([]byte{byte(r.Intn(256))}, o[p:]...)...)
			}
		}
	case 8: // truncate then pad with garbage
		o = o[:r.Intn(len(o)+1)]
		for k := r.Intn(8); k > 0; k-- {
			o = append(o, byte(r.Intn(256)))
		}
	}
	return o
}

// tailcut builds a message whose LAST record (a zoo record, or an OPT carrying exactly one
// option) is shortened by k octets at the end with RDLENGTH (and the option length) fixed up:
// every inner length/count/prefix claim of that record then reaches past the end of the
// input, which has no spare capacity, so a missing bounds check is an out-of-range panic.
func tailcut(r *rand.Rand, all []dns.RR) []byte {
	m := new(dns.Msg)
	m.SetQuestion("example.org.", dns.TypeA)
	var last dns.RR
	isOpt := r.Intn(2) == 0
	if isOpt {
		o := zoo.Opt()
		o.Option = []dns.EDNS0{o.Option[r.Intn(len(o.Option))]}
		last = o
	} else {
		last = dns.Copy(all[r.Intn(len(all))])
	}
	m.Extra = []dns.RR{last}
	b, err := packBase(m)
	if err != nil {
		return nil
	}
	// locate the last record's RDLENGTH: question is 12+13+4 = 29 octets; owner of `last` follows
	off := 29
	_, off, err = dns.UnpackDomainName(b, off)
	if err != nil || off+10 > len(b) {
		return nil
	}
	rdlenAt := off + 8
	rdlen := int(binary.BigEndian.Uint16(b[rdlenAt:]))
	if rdlen == 0 {
		return b
	}
	k := 1 + r.Intn(rdlen)
	if r.Intn(2) == 0 && k > 4 {
		k = 1 + r.Intn(4)
	}
	o := append([]byte(nil), b[:len(b)-k]...)
	binary.BigEndian.PutUint16(o[rdlenAt:], uint16(rdlen-k))
	if isOpt && rdlen-k >= 4 { // single option: code(2) len(2) data
		optLenAt := rdlenAt + 2 + 2
		binary.BigEndian.PutUint16(o[optLenAt:], uint16(rdlen-k-4))
	}
	return o
}

// sweep is the systematic part of the recorder: for every record of the zoo (and an OPT
// with each single option) as the last record of a small message, every octet of its RDATA
// is overwritten with boundary octets and every 16-bit position with 0x0000 / 0xffff / the
// remaining length -- the fields that mean "length", "count", "key", "type" or "pointer"
// are all hit without knowing where they are.
func sweep(all []dns.RR, w *hx.Writer, stride int, phase int) {
	var lasts []dns.RR
	for _, rr := range all {
		lasts = append(lasts, rr)
	}
	for _, o := range zoo.Opt().Option {
		x := zoo.Opt()
		x.Option = []dns.EDNS0{o}
		lasts = append(lasts, x)
	}
	k := 0
	for _, last := range lasts {
		m := new(dns.Msg)
		m.SetQuestion("example.org.", dns.TypeA)
		m.Extra = []dns.RR{dns.Copy(last)}
		b, err := packBase(m)
		if err != nil {
			continue
		}
		_, off, err := dns.UnpackDomainName(b, 29)
		if err != nil || off+10 > len(b) {
			continue
		}
		rd := off + 10
		for p := rd; p < len(b); p++ {
			k++
			if k%stride != phase {
				continue
			}
			// boundary octets for lengths/pointers (00 ff 40 c0 01) and for text rendering of what was accepted
			// (first/last printable, DEL, quote, backslash, dot, blank)
			for _, v := range []byte{0x00, 0xff, 0x40, 0xc0, 0x01, 0x7e, 0x7f, 0x20, 0x22, 0x5c, 0x2e} {
				o := append([]byte(nil), b...)
				o[p] = v
				sum.Evaluations++
				tryMsg(o, w, 300)
			}
			if p+1 < len(b) {
				for _, v := range []uint16{0x0000, 0xffff, uint16(len(b) - p - 2), uint16(len(b) - p - 1), uint16(len(b) - p)} {
					o := append([]byte(nil), b...)
					binary.BigEndian.PutUint16(o[p:], v)
					sum.Evaluations++
					tryMsg(o, w, 300)
				}
			}
		}
	}
}

// dense: well-formed messages of up to 64 KiB made of as many minimal items as fit (root-name questions, 15-octet
// records, pointer owners, one-octet strings, empty options, 3-octet bitmap windows, 4-octet APL items): the work and
// the memory of the decoder must stay proportional to the input however many names / items it holds.  Only the decode
// itself is guarded here (printing 13 000 questions is not decoding).
func dense(r *rand.Rand, scale int) {
	hdr := func(qd, an, ar int) []byte {
		h := make([]byte, 12)
		h[2] = 0x80
		binary.BigEndian.PutUint16(h[4:], uint16(qd))
		binary.BigEndian.PutUint16(h[6:], uint16(an))
		binary.BigEndian.PutUint16(h[10:], uint16(ar))
		return h
	}
	rec := func(owner []byte, t uint16, rdata []byte) []byte {
		b := append([]byte(nil), owner...)
		b = append(b, byte(t>>8), byte(t), 0, 1, 0, 0, 0, 60, byte(len(rdata)>>8), byte(len(rdata)))
		return append(b, rdata...)
	}
	rep := func(item []byte, n int) []byte { return bytes.Repeat(item, n) }
	var msgs [][]byte
	for _, n := range []int{800 / scale, 4000 / scale, 13100 / scale} {
		msgs = append(msgs, append(hdr(n, 0, 0), rep([]byte{0, 0, 1, 0, 1}, n)...))                     // root questions
		msgs = append(msgs, append(hdr(n, 0, 0), rep([]byte{1, 'a', 1, 'b', 0, 0, 1, 0, 1}, n*5/9)...)) // a.b. questions (count lies upward)
	}
	for _, n := range []int{300 / scale, 4300 / scale} {
		msgs = append(msgs, append(hdr(0, n, 0), rep(rec([]byte{0}, dns.TypeA, []byte{192, 0, 2, 1}), n)...)) // root-owned A records
		q := append(hdr(1, n, 0), 3, 'w', 'w', 'w', 7, 'e', 'x', 'a', 'm', 'p', 'l', 'e', 0, 0, 1, 0, 1)
		msgs = append(msgs, append(q, rep(rec([]byte{0xc0, 12}, dns.TypeNS, []byte{2, 'n', 's', 0xc0, 16}), n)...)) // pointer owners and pointer RDATA names
	}
	big := 60000 / scale
	msgs = append(msgs, append(hdr(0, 1, 0), rec([]byte{0}, dns.TypeTXT, rep([]byte{1, 'x'}, big/2))...))      // one-octet strings
	msgs = append(msgs, append(hdr(0, 0, 1), rec([]byte{0}, dns.TypeOPT, rep([]byte{0, 12, 0, 0}, big/4))...)) // empty padding options
	msgs = append(msgs, append(hdr(0, 0, 1), rec([]byte{0}, dns.TypeOPT, rep([]byte{0xfd, 0xe9, 0, 1, 7}, big/5))...))
	var win []byte
	for wdw := 0; wdw < 256; wdw++ {
		win = append(win, byte(wdw), 1, 0x40)
	}
	msgs = append(msgs, append(hdr(0, 1, 0), rec([]byte{0}, dns.TypeNSEC, append([]byte{0}, win...))...))         // 256 bitmap windows
	msgs = append(msgs, append(hdr(0, 1, 0), rec([]byte{0}, dns.TypeAPL, rep([]byte{0, 1, 8, 1, 10}, big/5))...)) // APL items
	var sv []byte
	for k := 0; k < big/4 && k < 16000; k++ {
		sv = append(sv, byte((100+k)>>8), byte(100+k), 0, 0)
	}
	msgs = append(msgs, append(hdr(0, 1, 0), rec([]byte{0}, dns.TypeSVCB, append([]byte{0, 1, 0}, sv...))...)) // SvcParams without value
	for _, b := range msgs {
		if len(b) > 65535 {
			b = b[:65535]
		}
		in := exact(b)
		sum.Evaluations++
		var m dns.Msg
		guarded("Msg.Unpack", in, func() { _ = m.Unpack(in) })
		cut := exact(in[:len(in)-1-r.Intn(7)]) // and the same cut short inside the last item
		var m2 dns.Msg
		guarded("Msg.Unpack", cut, func() { _ = m2.Unpack(cut) })
	}
}

// packBase packs a well-formed message the harness built as raw material.  A panic of the library's packer on it is
// the same event as a panic when an accepted decode result is packed again (the octets decode to this message), so it
// is reported under that key instead of killing the run.
func packBase(m *dns.Msg) (b []byte, err error) {
	if p := hx.Catch(func() { b, err = m.Pack() }); p != "" {
		sum.Mis("decode/postop-panic:Pack", "Pack of a well-formed message built by the harness panics: "+p, map[string]interface{}{"msg": m.String()})
		return nil, fmt.Errorf("panic")
	}
	return b, err
}

func record(epath string, n int) {
	r := hx.Rand()
	w := hx.NewWriter(epath)
	defer w.Close()
	if hx.Thorough() {
		dense(r, 1)
	} else {
		dense(r, 4)
	}
	all, err := zoo.All(zoo.Owners[r.Intn(len(zoo.Owners))])
	if err != nil {
		hx.Die("%v", err)
	}
	seen := map[string]bool{}
	if os.Getenv("VERIF_SWEEP") != "" { // "stride/phase": this process takes every stride-th RDATA position
		var stride, phase int
		fmt.Sscanf(os.Getenv("VERIF_SWEEP"), "%d/%d", &stride, &phase)
		if stride > 0 {
			sweep(all, w, stride, phase)
		}
	}
	for i := 0; i < n; i++ {
		// a valid base message: small ones are logged for TLC, larger ones only guarded
		per := 1 + r.Intn(3)
		if i%10 == 0 {
			per = 30
		}
		m := zoo.Msg(r, all, per, r.Intn(3) == 0)
		base, err := packBase(m)
		if err != nil {
			if err.Error() == "panic" { // reported by packBase
				continue
			}
			hx.Die("pack of a zoo message: %v", err)
		}
		in := mutate(r, base)
		if r.Intn(4) == 0 {
			in = mutate(r, in)
		}
		if i%3 == 1 {
			if t := tailcut(r, all); t != nil {
				in = t
			}
		}
		in = exact(in)
		seen[string(in)] = true
		sum.Evaluations++
		tryMsg(in, w, 700)
		// record-level and name-level decoders at a few offsets
		for k := 0; k < 3 && len(in) > 12; k++ {
			off := 12 + r.Intn(len(in)-12)
			guarded("UnpackRR", in, func() {
				rr, _, err := dns.UnpackRR(in, off)
				if err == nil && rr != nil {
					_ = rr.String()
					_ = dns.Len(rr)
					_ = dns.Copy(rr)
				}
			})
			guarded("UnpackDomainName", in, func() { _, _, _ = dns.UnpackDomainName(in, off) })
			guarded("UnpackRRWithHeader", in, func() {
				h := dns.RR_Header{Name: ".", Rrtype: uint16(r.Intn(260)), Class: 1, Rdlength: uint16(r.Intn(len(in) + 2))}
				if r.Intn(3) == 0 {
					h.Rrtype = []uint16{dns.TypeOPT, dns.TypeSVCB, dns.TypeHTTPS, dns.TypeAPL, dns.TypeNSEC, dns.TypeNSEC3, dns.TypeCSYNC, dns.TypeHIP, dns.TypeIPSECKEY, dns.TypeAMTRELAY}[r.Intn(10)]
				}
				rr, _, err := dns.UnpackRRWithHeader(h, in, off)
				if err == nil && rr != nil {
					_ = rr.String()
					_ = dns.Len(rr)
				}
			})
		}
		guarded("IsMsg", in, func() { _ = dns.IsMsg(in) })
		if i%25 == 0 { // inputs that end exactly at the header / at a section boundary while the counts claim more
			for _, cnt := range []uint16{1, 2, 65535} {
				h := append([]byte(nil), base[:12]...)
				binary.BigEndian.PutUint16(h[4:], 0)
				for k := 0; k < 3; k++ {
					binary.BigEndian.PutUint16(h[6+2*k:], cnt)
				}
				sum.Evaluations++
				tryMsg(h, w, 300) // header only
				q := new(dns.Msg)
				q.SetQuestion("boundary.example.", dns.TypeA)
				if qb, err := q.Pack(); err == nil {
					for k := 0; k < 3; k++ {
						binary.BigEndian.PutUint16(qb[6+2*k:], cnt)
					}
					sum.Evaluations++
					tryMsg(qb, w, 300) // ends right after the question
				}
			}
		}
		if i%50 == 0 && len(base) < 1500 { // every truncation point of this base message
			for cut := 0; cut < len(base); cut++ {
				sum.Evaluations++
				tryMsg(base[:cut], w, 300)
			}
		}
		if i < 3 {
			k := len(in)
			if k > 48 {
				k = 48
			}
			sum.Sample(map[string]interface{}{"mutated_prefix": hx.FromBytes(in[:k]), "len": len(in), "base_len": len(base)})
		}
	}
	sum.Nontrivial = len(seen)
	sum.Note("accepted", accepted)
	sum.Note("rejected", rejected)
	sum.Note("alloc_peak_permille_of_bound", allocPeak)
	sum.Note("alloc_peak_at", allocPeakAt)
}
