// Command hostile binds spec/Framing.tla + spec/Names.tla to the wire decoders (property C02).
//
//	hostile replay <vectors.ndjson> <events.ndjson>   TLC-classified hostile inputs -> real decoders
//	hostile record <events.ndjson> <n>                mutations of valid messages -> real decoders
//
// Observed by the harness (the specification cannot): panics, wall time, allocation.
// Judged by TLC: every ACCEPTED decode is written to events.ndjson and must be explained
// by the framing walk of the same octets (Trace_Framing).  Must-reject verdicts come from
// the vectors (spec), never from Go code here.
package main

import (
	"fmt"
	"os"
	"reflect"
	"runtime"
	"strconv"
	"strings"
	"time"

	"github.com/miekg/dns"

	"verifharness/lib/hx"
)

type vec struct {
	Place   string `json:"place"`
	Bytes   hx.B   `json:"bytes"`
	Off     int    `json:"off"`
	Verdict string `json:"verdict"`
	Why     string `json:"why"`
	Hops    int    `json:"hops"`
	Name    hx.B   `json:"name"`
	// the specification's allocation bound for this input length (Framing!AllocBound), octets per call
	Allocmax uint64 `json:"allocmax"`
	// place "claim" (Gen_Claims): kind of the Go field the lying length covers, the claim, the octets behind it
	Fk     string `json:"fk"`
	Claim  int    `json:"claim"`
	Tail   int    `json:"tail"`
	Behind int    `json:"behind"`
	// place "limits": the constants of Framing!AllocBound for the recorder
	AllocK int `json:"allock"`
	AllocC int `json:"allocc"`
}

type event struct {
	Bytes hx.B            `json:"bytes"`
	Qs    [][]interface{} `json:"qs"`
	RRs   [][]interface{} `json:"rrs"`
	Names []hx.B          `json:"names"`
}

var sum hx.Summary

const (
	timeLimit = 2 * time.Second
	hangLimit = 40 * time.Second
)

// The allocation bound is the specification's (Framing!AllocBound(n) = AllocK*n + AllocC): a vector carries the bound
// of its input (allocmax, computed by TLC); the recorder gets the two constants from the driver, which read them from
// the "limits" vector TLC emitted (VERIF_ALLOC=K,C).  There is no bound of the harness's own.
var (
	allocK, allocC int    // from VERIF_ALLOC; -1 = not given
	allocVec       uint64 // bound of the vector being replayed (0 = none)
	allocTag       string // ":claim:<field kind>" while a lying-length vector is replayed: part of the finding key
	allocPeak      uint64 // largest alloc*1000/bound seen (how much room the unchanged tree leaves)
	allocPeakAt    string
)

func allocBound(n int) uint64 {
	if allocVec > 0 {
		return allocVec
	}
	if allocK < 0 {
		hx.Die("no allocation bound: the vector carries no allocmax and VERIF_ALLOC is not set")
	}
	return uint64(allocK*n + allocC)
}

// allocated runs f and returns the octets the process allocated meanwhile (TotalAlloc is a counter: it does not
// depend on when the collector runs or on how loaded the machine is).
func allocated(f func()) uint64 {
	var ms0, ms1 runtime.MemStats
	runtime.ReadMemStats(&ms0)
	hx.Catch(f)
	runtime.ReadMemStats(&ms1)
	return ms1.TotalAlloc - ms0.TotalAlloc
}

// guarded runs f on an input of n octets and reports panic, time and allocation.
func guarded(api string, in []byte, f func()) (ok bool) {
	var ms0, ms1 runtime.MemStats
	runtime.ReadMemStats(&ms0)
	t0 := time.Now()
	// a call that does not return within hangLimit is reported as a hang (the process cannot continue)
	wd := time.AfterFunc(hangLimit, func() {
		sum.Mis("decode/hang:"+api, fmt.Sprintf("%s did not return within %v on a %d-octet input", api, hangLimit, len(in)), map[string]interface{}{"api": api, "bytes": hx.FromBytes(in)})
		sum.Note("aborted", "hang")
		sum.Print()
		os.Exit(0)
	})
	p := hx.Catch(f)
	wd.Stop()
	el := time.Since(t0)
	runtime.ReadMemStats(&ms1)
	if p != "" {
		sum.Mis("decode/panic:"+api, fmt.Sprintf("%s panicked on a %d-octet input: %s", api, len(in), p), map[string]interface{}{"api": api, "bytes": hx.FromBytes(in)})
		return false
	}
	if el > timeLimit {
		slow := 0
		for i := 0; i < 3; i++ {
			t := time.Now()
			hx.Catch(f)
			if time.Since(t) > timeLimit {
				slow++
			}
		}
		if slow == 3 {
			sum.Mis("decode/slow:"+api, fmt.Sprintf("%s took %v on a %d-octet input (reproduced 3 times)", api, el, len(in)), map[string]interface{}{"api": api, "bytes": hx.FromBytes(in)})
			sum.Note("aborted", "slow") // one such case decides the run; do not spend hours on its siblings
			sum.Print()
			os.Exit(0)
		}
		// slow once but not reproducibly: machine load, not a verdict and not a reason to stop
		sum.Note("slow_once_not_reproduced", fmt.Sprintf("%s %v", api, el))
		return true
	}
	bound := allocBound(len(in))
	d := ms1.TotalAlloc - ms0.TotalAlloc
	if d > bound {
		// the first call of a kind builds tables lazily and another goroutine (event writer, timers) may have allocated
		// meanwhile: the steady-state cost of THIS call is the smallest of three more runs
		for i := 0; i < 3 && d > bound; i++ {
			if x := allocated(f); x < d {
				d = x
			}
		}
	}
	if r := d * 1000 / bound; r > allocPeak {
		allocPeak = r
		allocPeakAt = fmt.Sprintf("%s: %d octets allocated for %d octets of input", api, d, len(in))
	}
	if d > bound {
		c := map[string]interface{}{"api": api, "bytes": hx.FromBytes(in), "allocated": d, "bound": bound}
		if curVec != nil {
			c = map[string]interface{}{"api": api, "vector": curVec, "allocated": d, "bound": bound}
		}
		sum.Mis("decode/alloc:"+api+allocTag, fmt.Sprintf("%s allocated %d octets for a %d-octet input (the specification bounds it by %d: memory follows the input, not what the input claims)", api, d, len(in), bound), c)
		return false
	}
	return true
}

// curVec is the vector being replayed (nil in the recorder): an allocation finding names it so that it can be re-run.
var curVec *vec

// names lists every domain name found in rr (by struct tag).
func names(rr dns.RR, out *[]hx.B) {
	v := reflect.ValueOf(rr)
	if v.Kind() == reflect.Ptr {
		v = v.Elem()
	}
	if v.Kind() != reflect.Struct {
		return
	}
	t := v.Type()
	for i := 0; i < t.NumField(); i++ {
		tag := t.Field(i).Tag.Get("dns")
		f := v.Field(i)
		if t.Field(i).Name == "Hdr" {
			*out = append(*out, hx.FromString(f.FieldByName("Name").String()))
			continue
		}
		if !strings.Contains(tag, "domain-name") && tag != "ipsechost" && tag != "amtrelayhost" {
			continue
		}
		switch f.Kind() {
		case reflect.String:
			if f.String() != "" {
				*out = append(*out, hx.FromString(f.String()))
			}
		case reflect.Slice:
			for j := 0; j < f.Len(); j++ {
				if f.Index(j).Kind() == reflect.String {
					*out = append(*out, hx.FromString(f.Index(j).String()))
				}
			}
		}
	}
	if s, ok := rr.(*dns.SVCB); ok {
		*out = append(*out, hx.FromString(s.Target))
	}
	if s, ok := rr.(*dns.HTTPS); ok {
		*out = append(*out, hx.FromString(s.Target))
	}
}

func ttl4(t uint32) []int {
	return []int{int(t >> 24), int(t >> 16 & 255), int(t >> 8 & 255), int(t & 255)}
}

func observe(in []byte, m *dns.Msg) event {
	e := event{Bytes: hx.FromBytes(in), Qs: [][]interface{}{}, RRs: [][]interface{}{}, Names: []hx.B{}}
	for _, q := range m.Question {
		e.Qs = append(e.Qs, []interface{}{hx.FromString(q.Name), int(q.Qtype), int(q.Qclass)})
		e.Names = append(e.Names, hx.FromString(q.Name))
	}
	for _, sec := range [][]dns.RR{m.Answer, m.Ns, m.Extra} {
		for _, rr := range sec {
			h := rr.Header()
			e.RRs = append(e.RRs, []interface{}{hx.FromString(h.Name), int(h.Rrtype), int(h.Class), ttl4(h.Ttl), int(h.Rdlength)})
			names(rr, &e.Names)
		}
	}
	return e
}

// postOps: whatever was accepted can be printed, measured, copied and re-packed without panicking.
func postOps(in []byte, m *dns.Msg) {
	for _, op := range []struct {
		n string
		f func()
	}{
		{"String", func() { _ = m.String() }},
		{"Len", func() { _ = m.Len() }},
		{"Copy", func() { _ = m.Copy() }},
		{"Pack", func() { _, _ = m.Pack() }},
		{"PackCompressed", func() { c := m.Copy(); c.Compress = true; _, _ = c.Pack() }},
	} {
		if p := hx.Catch(op.f); p != "" {
			sum.Mis("decode/postop-panic:"+op.n, fmt.Sprintf("Msg.%s panicked on a message Unpack accepted: %s", op.n, p), map[string]interface{}{"api": "postop", "bytes": hx.FromBytes(in)})
		}
	}
}

var accepted, rejected int

// exact returns a copy of in whose capacity equals its length, so that any read past the
// end of the input is an out-of-range panic instead of a silent read of spare capacity.
func exact(in []byte) []byte {
	o := make([]byte, len(in))
	copy(o, in)
	return o[:len(in):len(in)]
}

// used is the octets of a message with a question, records in every section and an OPT: a Msg
// that decoded it before is the "previously used receiver" of every third decode, because
// whatever Unpack returns must come from ITS input, not from what the receiver held before.
var used []byte
var ntry int

func tryMsg(in []byte, w *hx.Writer, logMax int) (*dns.Msg, error) {
	in = exact(in)
	var m dns.Msg
	var err error
	ntry++
	if used != nil && ntry%3 == 0 {
		if e := m.Unpack(used); e != nil {
			hx.Die("the receiver-priming message does not unpack: %v", e)
		}
	}
	if !guarded("Msg.Unpack", in, func() { err = m.Unpack(in) }) {
		return nil, fmt.Errorf("guard")
	}
	if err != nil {
		rejected++
		return nil, err
	}
	accepted++
	postOps(in, &m)
	if len(in) <= logMax && w != nil {
		w.Emit(observe(in, &m))
	}
	return &m, nil
}

func replay(vpath, epath string) {
	w := hx.NewWriter(epath)
	defer w.Close()
	seen := map[string]bool{}
	nclaim := map[string]int{}
	hx.ReadNDJSON(vpath, func(i int, v *vec) {
		if v.Place == "limits" { // the constants of the bound, for the recorder (read by the driver)
			return
		}
		sum.Evaluations++
		in := v.Bytes.Bytes()
		seen[string(in)] = true
		allocVec, allocTag, curVec = v.Allocmax, "", v
		defer func() { allocVec, allocTag, curVec = 0, "", nil }()
		if v.Place == "claim" {
			allocTag = ":claim:" + claimClass(v)
			nclaim[strings.SplitN(v.Why, ":", 2)[0]]++
			replayClaim(v, in, w)
			return
		}
		m, err := tryMsg(in, w, 4096)
		// the name decoder on its own
		var s string
		var derr error
		guarded("UnpackDomainName", in, func() { s, _, derr = dns.UnpackDomainName(in, v.Off) })
		if v.Verdict == "reject" {
			if err == nil && m != nil {
				sum.Mis("decode/accepts-mustreject:"+v.Why+":"+v.Place, fmt.Sprintf("Msg.Unpack accepted a message whose %s name no reading of RFC 1035 accepts (%s)", v.Place, v.Why), v)
			}
			if derr == nil {
				sum.Mis("decode/name-accepts-mustreject:"+v.Why, fmt.Sprintf("UnpackDomainName accepted %v at %d (%s)", in, v.Off, v.Why), v)
			}
		} else {
			want := v.Name.String()
			if derr == nil && s != want {
				sum.Mis("decode/name-mismatch:direct", fmt.Sprintf("UnpackDomainName=%q, spec %q", s, want), v)
			}
			if err == nil && m != nil {
				got := ""
				switch v.Place {
				case "q", "chain", "long":
					if len(m.Question) > 0 {
						got = m.Question[0].Name
					}
				case "owner":
					if len(m.Answer) > 0 {
						got = m.Answer[0].Header().Name
					}
				case "rdata":
					if len(m.Answer) > 0 {
						if ns, ok := m.Answer[0].(*dns.NS); ok {
							got = ns.Ns
						}
					}
				}
				if got != want {
					sum.Mis("decode/name-mismatch:"+v.Place, fmt.Sprintf("decoded %s name %q, spec %q", v.Place, got, want), v)
				}
			}
		}
		if i%2003 == 0 {
			sum.Sample(map[string]interface{}{"place": v.Place, "bytes": v.Bytes, "verdict": v.Verdict, "why": v.Why, "accepted": err == nil})
		}
	})
	sum.Nontrivial = len(seen)
	sum.Note("accepted", accepted)
	sum.Note("rejected", rejected)
	sum.Note("alloc_peak_permille_of_bound", allocPeak)
	sum.Note("alloc_peak_at", allocPeakAt)
	if len(nclaim) > 0 {
		sum.Note("claims_by_kind", nclaim)
		sum.Note("claims_refused_as_required", claimRefused)
		sum.Note("claims_accepted_where_allowed", claimAccepted)
	}
}

var claimRefused, claimAccepted int

// claimClass is the parameter class of a lying-length finding: the kind of length field (Claims.tla) and, for the
// fields sized by an earlier integer field, how the Go API spells the covered octets (hex, b64, b32: each has an
// unpacker of its own).  The payload kind of an option / SvcParam does not matter to its length field.
func claimClass(v *vec) string {
	kind := strings.SplitN(v.Why, ":", 2)[0]
	if kind == "sized" {
		return kind + ":" + v.Fk
	}
	return kind
}

// replayClaim: a record whose inner length field (Claims.tla) claims v.Claim octets while v.Tail follow.  The message
// decoder and the record decoder run under the guards with the specification's bound for THIS input; where the
// specification says the claim cannot be honoured (verdict reject) both must refuse.  Accepted results go the usual way
// (post-operations, event for Trace_Framing).
func replayClaim(v *vec, in []byte, w *hx.Writer) {
	m, err := tryMsg(in, w, 4096)
	in = exact(in)
	var rr dns.RR
	var rerr error
	ok := guarded("UnpackRR", in, func() {
		rr, _, rerr = dns.UnpackRR(in, v.Off)
		if rerr == nil && rr != nil {
			_ = rr.String()
			_ = dns.Len(rr)
			_ = dns.Copy(rr)
		}
	})
	if v.Verdict == "reject" {
		if err == nil && m != nil {
			sum.Mis("decode/accepts-mustreject:claim:"+claimClass(v), fmt.Sprintf("Msg.Unpack accepted a record whose inner length (%s) claims %d octets while %d follow inside its RDATA", v.Why, v.Claim, v.Tail), v)
		} else if ok && rerr == nil {
			sum.Mis("decode/rr-accepts-mustreject:claim:"+claimClass(v), fmt.Sprintf("UnpackRR accepted a record whose inner length (%s) claims %d octets while %d follow inside its RDATA", v.Why, v.Claim, v.Tail), v)
		} else {
			claimRefused++
		}
	} else if err == nil {
		claimAccepted++
	}
	if sum.Evaluations%997 == 0 {
		sum.Sample(map[string]interface{}{"place": v.Place, "why": v.Why, "claim": v.Claim, "tail": v.Tail, "behind": v.Behind, "len": len(in), "verdict": v.Verdict, "accepted": err == nil, "allocmax": v.Allocmax})
	}
}

func main() {
	if len(os.Args) < 3 {
		hx.Die("usage")
	}
	{
		pm := new(dns.Msg)
		pm.SetQuestion("stale.example.", dns.TypeMX)
		for _, t := range []string{"stale.example. 7 IN MX 1 mx.stale.example.", "stale.example. 7 IN NS ns.stale.example.", "ns.stale.example. 7 IN A 192.0.2.77"} {
			rr, err := dns.NewRR(t)
			if err != nil {
				hx.Die("%v", err)
			}
			switch rr.Header().Rrtype {
			case dns.TypeMX:
				pm.Answer = append(pm.Answer, rr)
			case dns.TypeNS:
				pm.Ns = append(pm.Ns, rr)
			default:
				pm.Extra = append(pm.Extra, rr)
			}
		}
		pm.SetEdns0(1232, true)
		b, err := pm.Pack()
		if err != nil {
			hx.Die("%v", err)
		}
		used = b
	}
	allocK, allocC = -1, -1
	if e := os.Getenv("VERIF_ALLOC"); e != "" {
		if n, _ := fmt.Sscanf(e, "%d,%d", &allocK, &allocC); n != 2 || allocK <= 0 || allocC < 0 {
			hx.Die("VERIF_ALLOC=%q: want K,C", e)
		}
	}
	switch os.Args[1] {
	case "replay":
		replay(os.Args[2], os.Args[3])
	case "record":
		n, _ := strconv.Atoi(os.Args[3])
		record(os.Args[2], n)
	default:
		hx.Die("mode")
	}
	sum.Print()
}
