// Command svcbtext binds spec/SvcbText.tla to the SVCB / HTTPS zone-file parser and String().
//
//	svcbtext replay <vectors.ndjson>     every text of Gen_SvcbText through dns.NewRR (+ PackRR): accepted iff the
//	                                     reader accepts, RDATA octets = the reader's
//	svcbtext record <out.ndjson> <n>     random valid SVCB / HTTPS records built as Go values: the RDATA part of
//	                                     String() and the PackRR octets -> Trace_SvcbText
//	svcbtext reexec <in.ndjson> <out>    re-parse recorded texts, print them again, record anew
package main

import (
	"fmt"
	"math/rand"
	"net"
	"os"
	"strconv"
	"strings"

	"github.com/miekg/dns"

	"verifharness/lib/hx"
)

type Vector struct {
	ID    int    `json:"id"`
	Text  hx.B   `json:"text"`
	Ok    bool   `json:"ok"`
	Why   string `json:"why"`
	Wire  hx.B   `json:"wire"`
	Ambig bool   `json:"ambig"`
	Loose bool   `json:"loose"`
}

type Event struct {
	Ev   string `json:"ev"`
	Typ  string `json:"typ"`
	Text hx.B   `json:"text"`
	Wire hx.B   `json:"wire"`
	Cls  string `json:"cls"`
}

const owner = "o.example."

// rdataOf packs rr and returns its RDATA octets.
func rdataOf(rr dns.RR) ([]byte, error) {
	buf := make([]byte, 70000)
	off, err := dns.PackRR(rr, buf, 0, nil, false)
	if err != nil {
		return nil, err
	}
	h := len(owner) + 1 + 10 // owner in wire form (one octet longer than its text), type, class, TTL, RDLENGTH
	if off < h {
		return nil, fmt.Errorf("packed record shorter than its header")
	}
	return buf[h:off], nil
}

// classOf names what is special about a text (for finding keys): a registered key written as keyNNNNN, an escape
// in a value the library does not decode, else the first SvcParamKey.
func classOf(text string) string {
	f := strings.Fields(strings.NewReplacer("(", " ", ")", " ").Replace(text))
	if len(f) < 3 {
		return "head"
	}
	clean := func(k string) string {
		return strings.Map(func(r rune) rune {
			if r >= 'a' && r <= 'z' || r >= '0' && r <= '9' || r == '-' {
				return r
			}
			return '_'
		}, strings.ToLower(k))
	}
	registered := func(k string) bool {
		if strings.HasPrefix(k, "key") && len(k) > 3 {
			n, err := strconv.Atoi(k[3:])
			return err == nil && n <= 8 && k[3] != '0' || k == "key0"
		}
		return false
	}
	for _, it := range f[2:] {
		k, v, _ := strings.Cut(it, "=")
		if registered(k) {
			return "keyNNNNN-of-registered-key"
		}
		if k == "mandatory" {
			for _, m := range strings.Split(strings.Trim(v, "\""), ",") {
				if registered(m) {
					return "mandatory:keyNNNNN-of-registered-key"
				}
			}
		}
		switch k {
		case "mandatory", "port", "ipv4hint", "ipv6hint", "ech":
			if strings.Contains(v, "\\") {
				return k + ":escape"
			}
		}
	}
	k, _, _ := strings.Cut(f[2], "=")
	return clean(k)
}

func replay(path string, sum *hx.Summary) {
	hx.ReadNDJSON(path, func(i int, v *Vector) {
		text := v.Text.String()
		for _, typ := range []string{"SVCB", "HTTPS"} {
			sum.Evaluations++
			var rr dns.RR
			var err error
			var rd []byte
			p := hx.Catch(func() {
				rr, err = dns.NewRR(owner + " 3600 IN " + typ + " " + text)
				if err == nil && rr == nil {
					err = fmt.Errorf("no record")
				}
				if err == nil {
					rd, err = rdataOf(rr)
				}
			})
			c := map[string]interface{}{"id": v.ID, "type": typ, "text": text, "spec": map[string]interface{}{"ok": v.Ok, "why": v.Why, "ambig": v.Ambig}}
			cls := classOf(text)
			switch {
			case p != "":
				sum.Mis("svcbtext/parse:panic:"+cls, "parsing or packing panics: "+p, c)
			case v.Loose:
				// not compliant for a reason the library leaves to its caller: nothing is demanded
			case err != nil && v.Ok && !v.Ambig:
				sum.Mis("svcbtext/parse:rejects:"+cls, fmt.Sprintf("the text is refused (%v); the specification reads it", err), c)
			case err == nil && !v.Ok && !v.Ambig:
				sum.Mis("svcbtext/parse:accepts:"+v.Why+":"+cls, "the text is accepted and packs; the specification refuses it ("+v.Why+")", c)
			case err == nil && (v.Ok || v.Ambig) && string(rd) != string(v.Wire.Bytes()):
				sum.Mis("svcbtext/parse:wire:"+cls, fmt.Sprintf("RDATA %x, the specification reads %x", rd, v.Wire.Bytes()), c)
			}
			if i%29 == 0 && typ == "SVCB" {
				sum.Sample(map[string]interface{}{"text": text, "accepted": err == nil, "spec_ok": v.Ok})
			}
		}
	})
	sum.Nontrivial = sum.Evaluations / 2
}

// ---------------------------------------------------------------- random records

func nasty(rng *rand.Rand, n int) []byte {
	alpha := []byte("abh23-/{}?.,\\\" ;()=\x00\x7f\xff\xc3\xa9@$'")
	b := make([]byte, n)
	for i := range b {
		if rng.Intn(4) == 0 {
			b[i] = byte(rng.Intn(256))
		} else {
			b[i] = alpha[rng.Intn(len(alpha))]
		}
	}
	return b
}

func randomRecord(rng *rand.Rand) (dns.RR, string) {
	typ := []string{"SVCB", "HTTPS"}[rng.Intn(2)]
	s := dns.SVCB{Hdr: dns.RR_Header{Name: owner, Class: dns.ClassINET, Ttl: 3600, Rrtype: dns.TypeSVCB}}
	s.Priority = uint16([]int{0, 1, 16, 65535, rng.Intn(65536)}[rng.Intn(5)])
	s.Target = []string{".", "t.example.", "a\\.b.c\\032d.example.", "xn--bcher-kva.example.", strings.Repeat("a", 63) + ".example."}[rng.Intn(5)]
	present := map[dns.SVCBKey]bool{}
	var vals []dns.SVCBKeyValue
	add := func(kv dns.SVCBKeyValue) {
		if !present[kv.Key()] {
			present[kv.Key()] = true
			vals = append(vals, kv)
		}
	}
	for j := rng.Intn(6); j > 0; j-- {
		switch rng.Intn(9) {
		case 0:
			var ids []string
			for k := 1 + rng.Intn(3); k > 0; k-- {
				if rng.Intn(2) == 0 {
					ids = append(ids, []string{"h2", "h3", "http/1.1", "dot", "h3-29"}[rng.Intn(5)])
				} else {
					ids = append(ids, string(nasty(rng, 1+rng.Intn(12))))
				}
			}
			add(&dns.SVCBAlpn{Alpn: ids})
		case 1:
			add(&dns.SVCBNoDefaultAlpn{})
		case 2:
			add(&dns.SVCBPort{Port: uint16([]int{0, 53, 443, 853, 65535, rng.Intn(65536)}[rng.Intn(6)])})
		case 3:
			var h []net.IP
			for k := 1 + rng.Intn(3); k > 0; k-- {
				h = append(h, net.IPv4(byte(rng.Intn(256)), byte(rng.Intn(256)), byte(rng.Intn(2)*255), byte(rng.Intn(256))).To4())
			}
			add(&dns.SVCBIPv4Hint{Hint: h})
		case 4:
			add(&dns.SVCBECHConfig{ECH: nasty(rng, 1+rng.Intn(40))})
		case 5:
			var h []net.IP
			for k := 1 + rng.Intn(3); k > 0; k-- {
				ip := make(net.IP, 16)
				for x := range ip {
					if rng.Intn(3) != 0 {
						ip[x] = byte(rng.Intn(256))
					}
				}
				ip[0] = 0x20 // never IPv4-mapped
				h = append(h, ip)
			}
			add(&dns.SVCBIPv6Hint{Hint: h})
		case 6:
			if rng.Intn(2) == 0 {
				add(&dns.SVCBDoHPath{Template: "/dns-query{?dns}"})
			} else {
				add(&dns.SVCBDoHPath{Template: string(nasty(rng, rng.Intn(20)))})
			}
		case 7:
			add(&dns.SVCBOhttp{})
		default:
			add(&dns.SVCBLocal{KeyCode: dns.SVCBKey([]int{9, 10, 667, 65280, 65534, 9 + rng.Intn(65000)}[rng.Intn(6)]), Data: nasty(rng, rng.Intn(24))})
		}
	}
	if len(vals) > 0 && rng.Intn(3) == 0 {
		var m []dns.SVCBKey
		for _, kv := range vals {
			if rng.Intn(2) == 0 {
				m = append(m, kv.Key())
			}
		}
		if len(m) > 0 {
			rng.Shuffle(len(m), func(a, b int) { m[a], m[b] = m[b], m[a] })
			vals = append(vals, &dns.SVCBMandatory{Code: m})
		}
	}
	rng.Shuffle(len(vals), func(a, b int) { vals[a], vals[b] = vals[b], vals[a] })
	s.Value = vals
	if typ == "HTTPS" {
		s.Hdr.Rrtype = dns.TypeHTTPS
		return &dns.HTTPS{SVCB: s}, typ
	}
	return &s, typ
}

// eventOf prints and packs rr.
func eventOf(rr dns.RR, typ string) (Event, bool) {
	str := rr.String()
	parts := strings.SplitN(str, "\t", 5)
	if len(parts) != 5 {
		hx.Die("String() has no header of four tab-separated items: %q", str)
	}
	rd, err := rdataOf(rr)
	if err != nil {
		return Event{}, false
	}
	return Event{Ev: "string", Typ: typ, Text: hx.FromString(parts[4]), Wire: hx.FromBytes(rd), Cls: classOf(parts[4])}, true
}

func record(out string, n int, sum *hx.Summary) {
	rng := hx.Rand()
	w := hx.NewWriter(out)
	defer w.Close()
	for i := 0; i < n; i++ {
		rr, typ := randomRecord(rng)
		if e, ok := eventOf(rr, typ); ok {
			w.Emit(e)
			sum.Evaluations++
			if i < 3 {
				sum.Sample(map[string]string{"text": e.Text.String()})
			}
		}
	}
	sum.Nontrivial = sum.Evaluations
}

func reexec(inp, out string, sum *hx.Summary) {
	w := hx.NewWriter(out)
	defer w.Close()
	hx.ReadNDJSON(inp, func(i int, e *Event) {
		sum.Evaluations++
		// the record an event is about is given by its octets: unpack them, print and pack the result again
		t := dns.TypeSVCB
		if e.Typ == "HTTPS" {
			t = dns.TypeHTTPS
		}
		rd := e.Wire.Bytes()
		msg := make([]byte, 0, len(rd)+32)
		msg = append(msg, 1, 'o', 7, 'e', 'x', 'a', 'm', 'p', 'l', 'e', 0)
		msg = append(msg, byte(t>>8), byte(t), 0, 1, 0, 0, 14, 16, byte(len(rd)>>8), byte(len(rd)))
		msg = append(msg, rd...)
		rr, _, err := dns.UnpackRR(msg, 0)
		if err != nil || rr == nil {
			hx.Die("event %d: the recorded octets do not unpack: %v", i, err)
		}
		if ev, ok := eventOf(rr, e.Typ); ok {
			w.Emit(ev)
		}
	})
}

func main() {
	if len(os.Args) < 3 {
		hx.Die("usage: svcbtext replay <vectors> | record <out> <n> | reexec <in> <out>")
	}
	var sum hx.Summary
	switch os.Args[1] {
	case "replay":
		replay(os.Args[2], &sum)
	case "record":
		n := 500
		if len(os.Args) > 3 {
			n, _ = strconv.Atoi(os.Args[3])
		}
		record(os.Args[2], n, &sum)
	case "reexec":
		reexec(os.Args[2], os.Args[3], &sum)
	default:
		hx.Die("unknown mode %s", os.Args[1])
	}
	sum.Print()
}
