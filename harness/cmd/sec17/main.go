// Command sec17 binds spec/Dnssec17.tla and spec/KeyLife17.tla to the real code (property C17).
//
//	sec17 replay <vectors.ndjson>          TLC vectors -> real API, compared with the spec's value; where the
//	                                       value is a hash the spec gives the octets / term fed to the hash and
//	                                       the standard library (never miekg/dns) evaluates it
//	sec17 record <out.ndjson> <n>          seeded random cases through the real API, logged for Trace_Dnssec17
//	sec17 rerun <events.ndjson> <out.ndjson>  re-execute recorded events (a replay file) against the real code
//	sec17 finish <emit.ndjson>             second half of trace validation: the hash inputs TLC derived from
//	                                       the recorded events, evaluated with the standard library and compared
//	                                       with the digests the real code produced
package main

import (
	"bytes"
	"crypto/sha1"
	"crypto/sha256"
	"crypto/sha512"
	"encoding/base32"
	"encoding/base64"
	"encoding/hex"
	"fmt"
	"math/big"
	"math/rand"
	"os"
	"strconv"
	"strings"
	"time"

	"github.com/miekg/dns"

	"verifharness/lib/hx"
)

// ------------------------------------------------------------------ the uninterpreted H, interpreted

func hashByName(n string) func([]byte) []byte {
	switch n {
	case "sha1":
		return func(b []byte) []byte { s := sha1.Sum(b); return s[:] }
	case "sha256":
		return func(b []byte) []byte { s := sha256.Sum256(b); return s[:] }
	case "sha384":
		return func(b []byte) []byte { s := sha512.Sum384(b); return s[:] }
	case "sha512":
		return func(b []byte) []byte { s := sha512.Sum512(b); return s[:] }
	}
	return nil
}

type plan struct {
	First  hx.B `json:"first"`
	Salt   hx.B `json:"salt"`
	Rounds int  `json:"rounds"`
}

// runPlan mirrors Dnssec17!Run:  Run(p, 0) = H(p.first);  Run(p, j) = H(Run(p, j-1) \o p.salt)
func runPlan(p plan, h func([]byte) []byte) []byte {
	d := h(p.First.Bytes())
	for j := 1; j <= p.Rounds; j++ {
		d = h(append(append([]byte{}, d...), p.Salt.Bytes()...))
	}
	return d
}

// evalTerm mirrors MC_Dnssec17!Eval: HOpen (-1) starts a new argument, HClose (-2) applies H to the
// argument on top and appends the digest to the one below; any other element is an octet.
func evalTerm(term []int, h func([]byte) []byte) []byte {
	stack := [][]byte{{}}
	for _, x := range term {
		switch x {
		case -1:
			stack = append(stack, []byte{})
		case -2:
			top := stack[len(stack)-1]
			stack = stack[:len(stack)-1]
			stack[len(stack)-1] = append(stack[len(stack)-1], h(top)...)
		default:
			stack[len(stack)-1] = append(stack[len(stack)-1], byte(x))
		}
	}
	return stack[0]
}

var b32 = base32.HexEncoding.WithPadding(base32.NoPadding)

// ------------------------------------------------------------------ vectors

type op struct {
	Op  string `json:"op"`
	Key int    `json:"key"`
	H   int    `json:"h"`
	T   int    `json:"t"`
	S   int    `json:"s"`
	Api string `json:"api"`
	Ok  bool   `json:"ok"`
	// relay: the layout (Dnssec17!KFLayouts) and its templates for the two kinds of key text
	Lay any   `json:"lay,omitempty"`
	Rsa []int `json:"rsa,omitempty"`
	Ec  []int `json:"ec,omitempty"`
}

type vec struct {
	Kind  string `json:"kind"`
	Flags int    `json:"flags"`
	Proto int    `json:"proto"`
	Alg   int    `json:"alg"`
	Key   hx.B   `json:"key"`
	Tag   int    `json:"tag"`
	// ds
	Owner hx.B   `json:"owner"`
	Dt    int    `json:"dt"`
	Hash  string `json:"hash"`
	Input hx.B   `json:"input"`
	// nsec3
	Names []hx.B   `json:"names"`
	Keys  []string `json:"keys"`
	DKey  string   `json:"dkey"`
	PKey  string   `json:"pkey"` // ds: the finding key of a panic (totality), from the specification
	Salt  hx.B     `json:"salt"`
	Iter  int      `json:"iter"`
	Plan  plan     `json:"plan"`
	Term  []int    `json:"term"`
	// cover
	Zone       hx.B   `json:"zone"`
	Name       hx.B   `json:"name"`
	O          int    `json:"o"`
	Nx         int    `json:"nx"`
	Hp         int    `json:"h"`
	LowerOwner bool   `json:"lowerowner"`
	InZone     bool   `json:"inzone"`
	Class      string `json:"class"`
	Match      bool   `json:"match"`
	Cover      bool   `json:"cover"`
	// validity
	I     []int `json:"I"`
	E     []int `json:"E"`
	Tm    []int `json:"t"`
	Valid bool  `json:"valid"`
	// keylife
	Ops []op `json:"ops"`
}

func main() {
	if len(os.Args) < 3 {
		hx.Die("usage: sec17 replay|record|finish ...")
	}
	switch os.Args[1] {
	case "replay":
		replay(os.Args[2])
	case "record":
		n, _ := strconv.Atoi(os.Args[3])
		record(os.Args[2], n)
	case "finish":
		finish(os.Args[2])
	case "rerun":
		rerun(os.Args[2], os.Args[3])
	case "genkeys":
		genkeys(os.Args[2])
	default:
		hx.Die("unknown mode %s", os.Args[1])
	}
}

func dnskey(owner string, flags, proto, alg int, key []byte) *dns.DNSKEY {
	return &dns.DNSKEY{Hdr: dns.RR_Header{Name: owner, Rrtype: dns.TypeDNSKEY, Class: dns.ClassINET, Ttl: 3600},
		Flags: uint16(flags), Protocol: uint8(proto), Algorithm: uint8(alg), PublicKey: base64.StdEncoding.EncodeToString(key)}
}

func replay(path string) {
	var sum hx.Summary
	seen := map[string]bool{}
	kl := newKeyLife()
	hx.ReadNDJSON(path, func(i int, v *vec) {
		if v.Kind != "nsec3" && v.Kind != "keylife" { // those count one evaluation per spelling / per algorithm
			sum.Evaluations++
		}
		// every call of the library is made under hx.Catch where it is made; this is the net below them
		if p := hx.Catch(func() { one(i, v, &sum, seen, kl) }); p != "" {
			sum.Mis(panicKey[v.Kind], "panic: "+p, v)
		}
		if i%499 == 0 {
			sum.Sample(v)
		}
	})
	kl.stress(&sum)
	sum.Nontrivial = len(seen)
	if kl.n > 0 {
		sum.Note("keylife_replays", kl.n)
		sum.Note("keylife_fresh_ec_cycles", kl.fresh)
	}
	sum.Print()
}

// Totality (Dnssec17): every operation returns a value on every input of the quantifier; a panic is a finding.
// The keys are those Trace_Dnssec17!PanicKeyOf gives recorded calls.
var panicKey = map[string]string{"keytag": "keytag/panics", "ds": "ds/panics", "nsec3": "nsec3/hashname-panics", "cover": "nsec3/cover-or-match-panics",
	"validity": "validity/panics", "keylife": "keylife/panics"}

func w32(l []int) uint32 { return uint32(l[0])<<16 | uint32(l[1]) }

func one(i int, v *vec, sum *hx.Summary, seen map[string]bool, kl *keyLife) {
	switch v.Kind {
	case "keytag":
		k := dnskey("example.", v.Flags, v.Proto, v.Alg, v.Key.Bytes())
		seen[fmt.Sprintf("kt:%d:%d:%d:%x", v.Flags, v.Proto, v.Alg, v.Key.Bytes())] = true
		if got := int(k.KeyTag()); got != v.Tag {
			sum.Mis("keytag/value", fmt.Sprintf("KeyTag(flags=%d proto=%d alg=%d key=%d octets)=%d, RFC 4034 App. B gives %d", v.Flags, v.Proto, v.Alg, len(v.Key), got, v.Tag), v)
		}
	case "ds":
		k := dnskey(v.Owner.String(), v.Flags, v.Proto, v.Alg, v.Key.Bytes())
		seen[fmt.Sprintf("ds:%s:%d:%d", v.Owner.String(), v.Dt, len(v.Key))] = true
		var ds *dns.DS
		if p := hx.Catch(func() { ds = k.ToDS(uint8(v.Dt)) }); p != "" {
			sum.Mis(v.PKey, fmt.Sprintf("ToDS(%d) of owner %q panics: %s", v.Dt, v.Owner.String(), p), v)
			return
		}
		h := hashByName(v.Hash)
		if h == nil { // no RFC of the statement defines a digest for this type
			if ds != nil && v.Dt != 5 { // AMBIG: 5 is the library's experimental SHA-512 constant
				sum.Mis("ds/undefined-type-digest", fmt.Sprintf("ToDS(%d) returned a digest for a digest type no RFC defines", v.Dt), v)
			}
			return
		}
		if ds == nil {
			sum.Mis("ds/nil-for-defined-type", fmt.Sprintf("ToDS(%d) = nil for owner %q", v.Dt, v.Owner.String()), v)
			return
		}
		want := h(v.Input.Bytes())
		got, err := hex.DecodeString(ds.Digest)
		if err != nil || !bytes.Equal(got, want) {
			sum.Mis(v.DKey, fmt.Sprintf("ToDS(%d) of owner %q: digest %s, %s over the RFC 4034 5.1.4 input gives %x", v.Dt, v.Owner.String(), ds.Digest, v.Hash, want), v)
		}
		if int(ds.KeyTag) != v.Tag || int(ds.Algorithm) != v.Alg || int(ds.DigestType) != v.Dt {
			sum.Mis("ds/fields", fmt.Sprintf("ToDS(%d): keytag %d alg %d type %d, expected %d %d %d", v.Dt, ds.KeyTag, ds.Algorithm, ds.DigestType, v.Tag, v.Alg, v.Dt), v)
		}
	case "nsec3":
		want := runPlan(v.Plan, hashByName("sha1"))
		if len(v.Term) > 0 && !bytes.Equal(evalTerm(v.Term, hashByName("sha1")), want) {
			hx.Die("vector %d: the term and the plan of the same iterated hash evaluate differently", i)
		}
		salt := hex.EncodeToString(v.Salt.Bytes())
		for j, n := range v.Names {
			sum.Evaluations++
			seen[fmt.Sprintf("n3:%s:%d:%d", n.String(), len(v.Salt), v.Iter)] = true
			got := dns.HashName(n.String(), dns.SHA1, uint16(v.Iter), salt)
			dec, err := b32.DecodeString(strings.ToUpper(got))
			if err != nil || !bytes.Equal(dec, want) {
				sum.Mis(v.Keys[j], fmt.Sprintf("HashName(%q, SHA1, %d, salt of %d octets)=%q, RFC 5155 section 5 gives %s", n.String(), v.Iter, len(v.Salt), got, b32.EncodeToString(want)), v)
				break
			}
		}
	case "cover":
		coverCase(i, v, sum, seen)
	case "validity":
		rr := &dns.RRSIG{Inception: w32(v.I), Expiration: w32(v.E)}
		t := int64(v.Tm[0])<<32 | int64(v.Tm[1])<<16 | int64(v.Tm[2])
		seen[fmt.Sprintf("v:%d:%d:%d", rr.Inception, rr.Expiration, t)] = true
		if got := rr.ValidityPeriod(time.Unix(t, 0)); got != v.Valid {
			sum.Mis(v.Class, fmt.Sprintf("ValidityPeriod(t=%d) with inception=%d expiration=%d is %v, serial arithmetic gives %v", t, rr.Inception, rr.Expiration, got, v.Valid), v)
		}
	case "keylife":
		kl.replay(v, sum, seen)
	default:
		hx.Die("unknown vector kind %q", v.Kind)
	}
}

// realise the abstract hash positions of a cover vector around the real hash of the name
func coverCase(i int, v *vec, sum *hx.Summary, seen map[string]bool) {
	salts := []string{"", "AB", "aabbccdd"}
	iters := []uint16{0, 2, 5}
	salt, iter := salts[i%3], iters[(i/3)%3]
	name, zone := v.Name.String(), v.Zone.String()
	hs := dns.HashName(name, dns.SHA1, iter, salt)
	hb, err := b32.DecodeString(strings.ToUpper(hs))
	if err != nil || len(hb) != 20 {
		// no hash to build a record around.  The value itself is judged by the nsec3 vectors (the same names are there);
		// here only its form: B32Hex of a 20-octet hash is 32 characters of the base32hex alphabet (Trace_Dnssec17!HashKey
		// judges recorded calls by the same clause, under the same key)
		sum.Mis("nsec3/hashname-format", fmt.Sprintf("HashName(%q, SHA1, %d, %q) = %q is not the base32hex text of a SHA-1 hash", name, iter, salt, hs), v)
		return
	}
	H := new(big.Int).SetBytes(hb)
	at := func(pos int) string {
		x := new(big.Int).Add(H, big.NewInt(int64(pos-v.Hp)))
		if x.Sign() < 0 || x.BitLen() > 160 {
			hx.Die("hash of %q too close to the end of the hash space", name)
		}
		return b32.EncodeToString(x.FillBytes(make([]byte, 20)))
	}
	ownerLabel := at(v.O)
	if v.LowerOwner {
		ownerLabel = strings.ToLower(ownerLabel)
	}
	owner := ownerLabel + "." + zone
	if zone == "." {
		owner = ownerLabel + "."
	}
	rr := &dns.NSEC3{Hdr: dns.RR_Header{Name: owner, Rrtype: dns.TypeNSEC3, Class: dns.ClassINET, Ttl: 300},
		Hash: dns.SHA1, Iterations: iter, SaltLength: uint8(len(salt) / 2), Salt: salt, HashLength: 20, NextDomain: at(v.Nx),
		TypeBitMap: []uint16{dns.TypeA}}
	seen[fmt.Sprintf("c:%s:%s:%d%d%d:%v", owner, name, v.O, v.Nx, v.Hp, v.LowerOwner)] = true
	desc := fmt.Sprintf("owner %s next %s name %q (hash %s, positions owner=%d next=%d name=%d)", owner, rr.NextDomain, name, hs, v.O, v.Nx, v.Hp)
	if got := rr.Match(name); got != v.Match {
		sum.Mis("nsec3/match"+v.Class, fmt.Sprintf("Match=%v, spec %v: %s", got, v.Match, desc), v)
	}
	if got := rr.Cover(name); got != v.Cover {
		sum.Mis("nsec3/cover"+v.Class, fmt.Sprintf("Cover=%v, spec %v: %s", got, v.Cover, desc), v)
	}
}

// ------------------------------------------------------------------ record

type evKeytag struct {
	Ev    string `json:"ev"`
	Flags int    `json:"flags"`
	Proto int    `json:"proto"`
	Alg   int    `json:"alg"`
	Key   hx.B   `json:"key"`
	Tag   int    `json:"tag"`
	Panic string `json:"panic"` // the call panicked (no result): judged by the totality clause of the specification
}
type evDS struct {
	Ev     string `json:"ev"`
	Owner  hx.B   `json:"owner"`
	Flags  int    `json:"flags"`
	Proto  int    `json:"proto"`
	Alg    int    `json:"alg"`
	Key    hx.B   `json:"key"`
	Dt     int    `json:"dt"`
	IsNil  bool   `json:"isnil"`
	Digest hx.B   `json:"digest"` // the hex text
	DsTag  int    `json:"dstag"`
	Panic  string `json:"panic"` // the call panicked (no result): judged by the totality clause of the specification
}
type evHash struct {
	Ev    string `json:"ev"`
	Name  hx.B   `json:"name"`
	Salt  hx.B   `json:"salt"`
	Iter  int    `json:"iter"`
	Hash  hx.B   `json:"hash"`  // the text HashName returned
	Panic string `json:"panic"` // the call panicked (no result): judged by the totality clause of the specification
}
type evCover struct {
	Ev    string `json:"ev"`
	Owner hx.B   `json:"owner"`
	Next  hx.B   `json:"next"`
	Name  hx.B   `json:"name"`
	Salt  hx.B   `json:"salt"`
	Iter  int    `json:"iter"`
	H     hx.B   `json:"h"` // HashName(name) as text
	Cover bool   `json:"cover"`
	Match bool   `json:"match"`
	Panic string `json:"panic"` // the call panicked (no result): judged by the totality clause of the specification
}
type evValid struct {
	Ev    string `json:"ev"`
	I     []int  `json:"I"`
	E     []int  `json:"E"`
	T     []int  `json:"t"` // epoch, hi, lo
	Valid bool   `json:"valid"`
	Panic string `json:"panic"` // the call panicked (no result): judged by the totality clause of the specification
}

// ------------------------------------------------------------------ the observed calls
// One function per observed operation, used by record and rerun: the real call under hx.Catch, its inputs
// and its result (or the panic) as an event.

func obsKeytag(flags, proto, alg int, key []byte) evKeytag {
	e := evKeytag{Ev: "keytag", Flags: flags, Proto: proto, Alg: alg, Key: hx.FromBytes(key)}
	e.Panic = hx.Catch(func() { e.Tag = int(dnskey("x.", flags, proto, alg, key).KeyTag()) })
	return e
}

func obsDS(owner string, flags, proto, alg int, key []byte, dt int) evDS {
	e := evDS{Ev: "ds", Owner: hx.FromString(owner), Flags: flags, Proto: proto, Alg: alg, Key: hx.FromBytes(key), Dt: dt}
	var ds *dns.DS
	e.Panic = hx.Catch(func() { ds = dnskey(owner, flags, proto, alg, key).ToDS(uint8(dt)) })
	e.IsNil = ds == nil
	if ds != nil {
		e.Digest, e.DsTag = hx.FromString(ds.Digest), int(ds.KeyTag)
	}
	return e
}

func obsHash(name string, salt []byte, iter int) evHash {
	e := evHash{Ev: "hashname", Name: hx.FromString(name), Salt: hx.FromBytes(salt), Iter: iter}
	e.Panic = hx.Catch(func() { e.Hash = hx.FromString(dns.HashName(name, dns.SHA1, uint16(iter), hex.EncodeToString(salt))) })
	return e
}

// obsCover: hs = HashName(name) as observed before (the record was built around it)
func obsCover(owner, next, name string, salt []byte, iter int, hs string) evCover {
	rr := &dns.NSEC3{Hdr: dns.RR_Header{Name: owner, Rrtype: dns.TypeNSEC3, Class: dns.ClassINET}, Hash: dns.SHA1,
		Iterations: uint16(iter), SaltLength: uint8(len(salt)), Salt: hex.EncodeToString(salt), HashLength: 20, NextDomain: next}
	e := evCover{Ev: "cover", Owner: hx.FromString(owner), Next: hx.FromString(next), Name: hx.FromString(name), Salt: hx.FromBytes(salt), Iter: iter, H: hx.FromString(hs)}
	e.Panic = hx.Catch(func() { e.Cover, e.Match = rr.Cover(name), rr.Match(name) })
	return e
}

func obsValid(I, E []int, tl []int) evValid {
	rr := &dns.RRSIG{Inception: w32(I), Expiration: w32(E)}
	t := int64(tl[0])<<32 | int64(tl[1])<<16 | int64(tl[2])
	e := evValid{Ev: "validity", I: I, E: E, T: tl}
	e.Panic = hx.Catch(func() { e.Valid = rr.ValidityPeriod(time.Unix(t, 0)) })
	return e
}

func randLabels(r *rand.Rand, maxLabels int) []string {
	n := r.Intn(maxLabels + 1)
	var ls []string
	for i := 0; i < n; i++ {
		l := 1 + r.Intn(6)
		if r.Intn(8) == 0 {
			l = 1 + r.Intn(40)
		}
		b := make([]byte, l)
		for j := range b {
			switch r.Intn(5) {
			case 0:
				b[j] = byte(r.Intn(256))
			case 1:
				b[j] = "@[`{AZaz.\\"[r.Intn(10)]
			default:
				b[j] = "abcXYZ019-"[r.Intn(10)]
			}
		}
		ls = append(ls, string(b))
	}
	return ls
}

// presentation form through the library's own unpacker (its text/wire agreement is property C03)
func present(ls []string) string {
	var w []byte
	for _, l := range ls {
		w = append(w, byte(len(l)))
		w = append(w, l...)
	}
	w = append(w, 0)
	s, _, err := dns.UnpackDomainName(w, 0)
	if err != nil {
		hx.Die("unpack generated name: %v", err)
	}
	return s
}

// respell writes some letters of a presentation-format name as \\DDD (same name, RFC 1035 section 5.1)
func respell(r *rand.Rand, s string) string {
	var b strings.Builder
	for i := 0; i < len(s); i++ {
		c := s[i]
		if c == '\\' { // keep existing escapes whole
			if i+3 < len(s) && s[i+1] >= '0' && s[i+1] <= '9' {
				b.WriteString(s[i : i+4])
				i += 3
			} else if i+1 < len(s) {
				b.WriteString(s[i : i+2])
				i++
			}
			continue
		}
		if ((c >= 'A' && c <= 'Z') || (c >= 'a' && c <= 'z')) && r.Intn(3) == 0 {
			fmt.Fprintf(&b, "\\%03d", c)
		} else {
			b.WriteByte(c)
		}
	}
	return b.String()
}

// denseLabels: labels whose text is long for their octets -- most octets need an escape in the library's own
// presentation form -- of up to 63 octets each, at most budget octets on the wire without the root octet.  The
// names the library itself hands out for binary labels: a text of more than 255 characters from 63 octets on.
func denseLabels(r *rand.Rand, budget int) []string {
	flavour := r.Intn(3)
	var ls []string
	for budget >= 2 && len(ls) < 126 {
		max := budget - 1
		if max > 63 {
			max = 63
		}
		l := 1 + r.Intn(max)
		if r.Intn(3) == 0 {
			l = max
		}
		b := make([]byte, l)
		for j := range b {
			k := flavour
			if r.Intn(6) == 0 {
				k = r.Intn(4)
			}
			switch k {
			case 0:
				b[j] = byte(r.Intn(32))
			case 1:
				b[j] = byte(127 + r.Intn(129))
			case 2:
				b[j] = densePunct[r.Intn(len(densePunct))]
			default:
				b[j] = "abcxyz019-"[r.Intn(10)]
			}
		}
		ls = append(ls, string(b))
		budget -= l + 1
		if r.Intn(5) == 0 {
			break
		}
	}
	return ls
}

const densePunct = ".\\@();\"' -_09"

func denseBudget(r *rand.Rand, max int) int {
	b := []int{8, 40, 63, 64, 65, 70, 100, 128, 130, 200, 254}[r.Intn(11)]
	if b > max {
		b = max
	}
	return b
}

// respellAny writes the octets of a presentation-format name in another of their spellings (same name, RFC 1035
// section 5.1): \\DDD, \\X for a printable octet that is not a digit, or as they are.  Upper-case letters stay as they
// are (their \\DDD spelling is the class of its own that respell exercises).
func respellAny(r *rand.Rand, s string) string {
	var b strings.Builder
	all := r.Intn(3) // 0: every octet \\DDD, 1: every octet that may be \\X, 2: octet by octet
	put := func(c byte, sep bool) {
		if sep { // an unescaped dot separates labels
			b.WriteByte('.')
			return
		}
		how := all
		if all == 2 {
			how = r.Intn(3)
		}
		switch {
		case c >= 'A' && c <= 'Z':
			b.WriteByte(c)
		case how == 0:
			fmt.Fprintf(&b, "\\%03d", c)
		case how == 1 && c > 32 && c < 127 && (c < '0' || c > '9'):
			b.WriteByte('\\')
			b.WriteByte(c)
		case c <= 32 || c >= 127 || strings.IndexByte(".\\@();\"' ", c) >= 0:
			fmt.Fprintf(&b, "\\%03d", c)
		default:
			b.WriteByte(c)
		}
	}
	for i := 0; i < len(s); i++ {
		c := s[i]
		switch {
		case c == '\\' && i+3 < len(s) && s[i+1] >= '0' && s[i+1] <= '9' && s[i+2] >= '0' && s[i+2] <= '9' && s[i+3] >= '0' && s[i+3] <= '9':
			v, _ := strconv.Atoi(s[i+1 : i+4])
			put(byte(v), false)
			i += 3
		case c == '\\' && i+1 < len(s):
			put(s[i+1], false)
			i++
		default:
			put(c, c == '.')
		}
	}
	return b.String()
}

// spelled: one name in eight re-spells some letters as \\DDD; one in six of the others is dense, half of those in
// another spelling than the library's
func spelled(r *rand.Rand, plain func() []string, dense func() []string) string {
	if r.Intn(6) == 0 {
		name := present(dense())
		if r.Intn(2) == 0 {
			name = respellAny(r, name)
		}
		return name
	}
	name := present(plain())
	if r.Intn(8) == 0 {
		name = respell(r, name)
	}
	return name
}

func limbs(v uint32) []int { return []int{int(v >> 16), int(v & 0xffff)} }

func record(out string, n int) {
	r := hx.Rand()
	w := hx.NewWriter(out)
	defer w.Close()
	var sum hx.Summary
	seen := map[string]bool{}
	algs := []int{0, 2, 3, 5, 7, 8, 10, 13, 14, 15, 16, 253, 255}
	kl := newKeyLife()
	for i := 0; i < n; i++ {
		sum.Evaluations++
		switch i % 6 {
		case 0:
			l := []int{0, 1, 2, 3, 32, 64, 65, 96, 130, 131, 260, 515, 1027}[r.Intn(13)]
			key := make([]byte, l)
			r.Read(key)
			if r.Intn(3) == 0 {
				for j := range key {
					key[j] = 255
				}
			}
			e := obsKeytag([]int{0, 256, 257, 384, 385, r.Intn(65536)}[r.Intn(6)], []int{3, 3, r.Intn(256)}[r.Intn(3)], algs[r.Intn(len(algs))], key)
			seen[fmt.Sprint("kt", e.Flags, e.Proto, e.Alg, key)] = true
			w.Emit(e)
		case 1:
			key := make([]byte, []int{4, 32, 64, 96, 132, 260}[r.Intn(6)])
			r.Read(key)
			owner := spelled(r, func() []string { return randLabels(r, 4) }, func() []string { return denseLabels(r, denseBudget(r, 254)) })
			flags, alg := []int{256, 257, 385}[r.Intn(3)], algs[r.Intn(len(algs))]
			// digest types: the defined ones, their neighbours (0, 3, 5, 6), the octet boundaries, anything
			e := obsDS(owner, flags, 3, alg, key, []int{1, 2, 4, 1, 2, 4, 0, 3, 5, 6, 7, 127, 128, 255, r.Intn(256), r.Intn(256)}[r.Intn(16)])
			seen["ds"+owner+fmt.Sprint(e.Dt, key)] = true
			w.Emit(e)
		case 2:
			name := spelled(r, func() []string { return randLabels(r, 5) }, func() []string { return denseLabels(r, denseBudget(r, 254)) })
			salt := make([]byte, []int{0, 0, 1, 4, 8, 16, 40}[r.Intn(7)])
			r.Read(salt)
			iter := []int{0, 1, 2, 3, 5, 10, 12, 50, 100, 500}[r.Intn(10)]
			if r.Intn(25) == 0 {
				iter = []int{255, 256, 65534, 65535}[r.Intn(4)]
			}
			e := obsHash(name, salt, iter)
			seen["h"+name+fmt.Sprint(salt, iter)] = true
			w.Emit(e)
		case 3:
			zl := [][]string{{"example", "ORG"}, {"Sub", "example", "org"}, {"com"}, {"a", "b", "c", "d"}}[r.Intn(4)]
			var nl []string
			dense := false
			switch r.Intn(6) {
			case 5: // below the zone, labels whose text is long for their octets
				zw := 3 // the label "n" and the root octet
				for _, l := range zl {
					zw += 1 + len(l)
				}
				nl, dense = append(append(denseLabels(r, denseBudget(r, 255-zw)), "n"), zl...), true
			case 0: // elsewhere
				nl = append(randLabels(r, 2), "other", "tld")
			case 1: // shares the text suffix but not the label boundary
				nl = append([]string{"x" + zl[0]}, zl[1:]...)
			case 2: // the apex
				nl = zl
			default:
				nl = append(append(randLabels(r, 2), "n"), zl...)
			}
			for j := range nl { // names are case-insensitive
				if r.Intn(3) == 0 && (!dense || j >= len(nl)-len(zl)) {
					nl[j] = strings.ToUpper(nl[j])
				}
			}
			name, zone := present(nl), present(zl)
			if dense && r.Intn(2) == 0 { // the labels below the zone in another spelling
				cut := len(name) - len(zone)
				name = respellAny(r, name[:cut]) + name[cut:]
			}
			salt := make([]byte, r.Intn(5))
			r.Read(salt)
			iter := r.Intn(4)
			he := obsHash(name, salt, iter)
			hs := he.Hash.String()
			hb, err := b32.DecodeString(strings.ToUpper(hs))
			if he.Panic != "" || err != nil || len(hb) != 20 { // no hash to build a record around: the hashname event says so
				w.Emit(he)
				continue
			}
			H := new(big.Int).SetBytes(hb)
			pick := func() []byte {
				switch r.Intn(4) {
				case 0:
					b := make([]byte, 20)
					r.Read(b)
					return b
				case 1:
					return hb
				default:
					x := new(big.Int).Add(H, big.NewInt(int64(r.Intn(5)-2)))
					return x.FillBytes(make([]byte, 20))
				}
			}
			ob, nb := pick(), pick()
			if r.Intn(6) == 0 {
				nb = ob
			}
			ol := b32.EncodeToString(ob)
			if r.Intn(2) == 0 {
				ol = strings.ToLower(ol)
			}
			e := obsCover(ol+"."+zone, b32.EncodeToString(nb), name, salt, iter, hs)
			seen["c"+e.Owner.String()+e.Next.String()+name] = true
			w.Emit(e)
		case 4:
			// an instant t and two instants less than 2^31 s away from it; the fields are those mod 2^32
			t := int64(r.Intn(1<<31))*4 + int64(r.Intn(4)) // 0 .. 2^33
			if r.Intn(3) == 0 {
				t = []int64{0, 100, 1 << 31, 1<<32 - 50, 1 << 32, 1<<32 + 100, 1790000000}[r.Intn(7)]
			}
			off := func() int64 {
				m := []int64{0, 1, 60, 3600, 86400 * 30, 1 << 30, 1<<31 - 1}[r.Intn(7)]
				if m > 1 && r.Intn(2) == 0 {
					m = r.Int63n(m)
				}
				if r.Intn(2) == 0 {
					return -m
				}
				return m
			}
			I, E := t+off(), t+off()
			e := obsValid(limbs(uint32(uint64(I))), limbs(uint32(uint64(E))), append([]int{int(t >> 32)}, limbs(uint32(t))...))
			seen[fmt.Sprint("v", I, E, t)] = true
			w.Emit(e)
		case 5:
			kl.recordRun(r, w, seen)
		}
		if i < 6 {
			sum.Sample(fmt.Sprintf("event kind %d", i%6))
		}
	}
	sum.Evaluations = w.N // every event written is judged by the trace specification
	sum.Nontrivial = len(seen)
	sum.Note("events", w.N)
	sum.Print()
}

// ------------------------------------------------------------------ finish

type emitted struct {
	I      int     `json:"i"`
	Kind   string  `json:"kind"`
	Hash   string  `json:"hash"`
	Input  hx.B    `json:"input"`
	Digest hx.B    `json:"digest"`
	Plan   plan    `json:"plan"`
	Key    string  `json:"key"`
	Signed hx.B    `json:"signed"`
	Sig    hx.B    `json:"sig"`
	Pub    pubInfo `json:"pub"`
}

func finish(path string) {
	var sum hx.Summary
	hx.ReadNDJSON(path, func(i int, e *emitted) {
		sum.Evaluations++
		switch e.Kind {
		case "ds":
			if want := hashByName(e.Hash)(e.Input.Bytes()); !bytes.Equal(want, e.Digest.Bytes()) {
				sum.Mis(e.Key, fmt.Sprintf("event %d: recorded DS digest %x, %s over the specification's input gives %x", e.I, e.Digest.Bytes(), e.Hash, want), e)
			}
		case "n3":
			if want := runPlan(e.Plan, hashByName("sha1")); !bytes.Equal(want, e.Digest.Bytes()) {
				sum.Mis(e.Key, fmt.Sprintf("event %d: recorded hash %s, RFC 5155 section 5 gives %s", e.I, b32.EncodeToString(e.Digest.Bytes()), b32.EncodeToString(want)), e)
			}
		case "rrsig":
			if !stdVerify(e.Pub, e.Hash, e.Signed.Bytes(), e.Sig.Bytes()) {
				sum.Mis(e.Key, fmt.Sprintf("event %d: the signature RRSIG.Sign produced does not verify (standard library, key material as generated) over the RFC 4034 3.1.8.1 octets", e.I), e)
			}
		default:
			hx.Die("unknown emitted kind %q", e.Kind)
		}
	})
	sum.Nontrivial = 0 // the same events were counted as distinct inputs when they were recorded
	sum.Print()
}

// ------------------------------------------------------------------ rerun

type anyEv struct {
	Ev    string  `json:"ev"`
	Flags int     `json:"flags"`
	Proto int     `json:"proto"`
	Alg   any     `json:"alg"`
	Key   any     `json:"key"`
	Owner hx.B    `json:"owner"`
	Dt    int     `json:"dt"`
	Name  hx.B    `json:"name"`
	Salt  hx.B    `json:"salt"`
	Iter  int     `json:"iter"`
	Next  hx.B    `json:"next"`
	I     []int   `json:"I"`
	E     []int   `json:"E"`
	T     any     `json:"t"`
	H     any     `json:"h"`
	S     int     `json:"s"`
	Api   string  `json:"api"`
	Lay   *layout `json:"lay"`
}

func ints(x any) []int {
	var r []int
	if l, ok := x.([]any); ok {
		for _, v := range l {
			r = append(r, int(v.(float64)))
		}
	}
	return r
}

func octets(x any) []byte { return hx.B(ints(x)).Bytes() }

// rerun executes the inputs of recorded events again and writes the events with fresh results
func rerun(in, out string) {
	w := hx.NewWriter(out)
	defer w.Close()
	var sum hx.Summary
	kl := newKeyLife()
	var run *klRun
	hx.ReadNDJSON(in, func(i int, e *anyEv) {
		sum.Evaluations++
		switch e.Ev {
		case "keytag":
			w.Emit(obsKeytag(e.Flags, e.Proto, int(e.Alg.(float64)), octets(e.Key)))
		case "ds":
			w.Emit(obsDS(e.Owner.String(), e.Flags, e.Proto, int(e.Alg.(float64)), octets(e.Key), e.Dt))
		case "hashname":
			w.Emit(obsHash(e.Name.String(), e.Salt.Bytes(), e.Iter))
		case "cover":
			he := obsHash(e.Name.String(), e.Salt.Bytes(), e.Iter)
			if he.Panic != "" {
				w.Emit(he)
			} else {
				w.Emit(obsCover(e.Owner.String(), e.Next.String(), e.Name.String(), e.Salt.Bytes(), e.Iter, he.Hash.String()))
			}
		case "validity":
			w.Emit(obsValid(e.I, e.E, ints(e.T)))
		case "kl.reset", "kl.gen", "kl.provide", "kl.export", "kl.relay", "kl.import", "kl.sign", "kl.verify":
			run = kl.rerunStep(run, e, w)
		case "rrsig":
			// written again by the kl.sign it belongs to
		default:
			hx.Die("unknown event %q", e.Ev)
		}
	})
	sum.Print()
}
