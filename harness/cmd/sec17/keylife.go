package main

// Key life cycle (spec/KeyLife17.tla): one executor for the three ways a behaviour reaches the real code --
// a TLC vector (replay), a seeded random walk (record) and a recorded run executed again (rerun).
//
// Key pairs come from two places, as in the specification:
//   Generate(k)  the library's DNSKEY.Generate
//   Provide(k)   a BIND private-key text written by THIS file (never by the library) for a key pair the
//                standard library made: committed test data (testdata/rsa-<bits>-e<exp>-<id>.private: the
//                RSA size and exponent boundaries, no key generation in the quick tier) or made on the spot.
//                The DNSKEY of a provided key is encoded here as well (RFC 3110 / 6605 / 8080).

import (
	"bufio"
	"crypto"
	"crypto/ecdsa"
	"crypto/ed25519"
	"crypto/elliptic"
	"crypto/rand"
	"crypto/rsa"
	"embed"
	"encoding/base64"
	"fmt"
	"io"
	"math/big"
	mrand "math/rand"
	"os"
	"path/filepath"
	"strconv"
	"strings"
	"testing/iotest"
	"time"

	"github.com/miekg/dns"

	"verifharness/lib/hx"
)

//go:embed testdata/*.private
var testdata embed.FS

// ------------------------------------------------------------------ combinations

type combo struct {
	alg     uint8
	bits    int
	exp     int  // RSA public exponent of provided keys (Generate always uses 65537)
	pre     bool // key pairs are the committed ones: provided only, never generated
	collide bool // provided only; the DNSKEY of identity 2 has the same owner, algorithm and KEY TAG as that of identity 1
}

func (c combo) String() string {
	s := fmt.Sprintf("%s/%d", dns.AlgorithmToString[c.alg], c.bits)
	if c.pre {
		s += fmt.Sprintf("/e%d/pre", c.exp)
	}
	if c.collide {
		s += "/collide"
	}
	return s
}

// providedOnly: the combination has no Generate (behaviours with a "gen" operation are not replayed on it)
func (c combo) providedOnly() bool { return c.pre || c.collide }

// two DIFFERENT valid key pairs whose DNSKEYs differ only in key material and agree in the 16-bit key tag
func collideCombos() []combo {
	cs := []combo{{alg: dns.RSASHA256, bits: 1024, exp: 65537, collide: true}, {alg: dns.ED25519, bits: 256, collide: true},
		{alg: dns.ECDSAP256SHA256, bits: 256, collide: true}}
	if hx.Thorough() {
		cs = append(cs, combo{alg: dns.RSASHA1, bits: 2048, exp: 65537, collide: true}, combo{alg: dns.ECDSAP384SHA384, bits: 384, collide: true})
	}
	return cs
}

// algorithm/size combinations whose keys the library generates (RSA: 1024 for speed, one 2048)
func genCombos() []combo {
	cs := []combo{{dns.RSASHA1, 1024, 65537, false, false}, {dns.RSASHA256, 1024, 65537, false, false}, {dns.RSASHA512, 1024, 65537, false, false}, {dns.RSASHA256, 2048, 65537, false, false},
		{dns.ECDSAP256SHA256, 256, 0, false, false}, {dns.ECDSAP384SHA384, 384, 0, false, false}, {dns.ED25519, 256, 0, false, false},
		// sizes that are not a multiple of 8: the modulus has a partial leading octet
		{dns.RSASHA256, 1031, 65537, false, false}, {dns.RSASHA512, 1028, 65537, false, false}}
	if hx.Thorough() { // fresh keys at the size boundaries too (4096 is the largest size Generate supports)
		cs = append(cs, combo{dns.RSASHA1NSEC3SHA1, 1024, 65537, false, false}, combo{dns.RSASHA256, 1032, 65537, false, false},
			combo{dns.RSASHA512, 4088, 65537, false, false}, combo{dns.RSASHA256, 4096, 65537, false, false},
			combo{dns.RSASHA1, 1025, 65537, false, false}, combo{dns.RSASHA1NSEC3SHA1, 1100, 65537, false, false},
			combo{dns.RSASHA256, 2049, 65537, false, false}, combo{dns.RSASHA512, 4095, 65537, false, false})
	}
	return cs
}

// committed key pairs: RSA sizes 1024 (smallest the Go runtime still signs with), 1032, 2048, 4088, 4096 and
// public exponents of 1, 3 and 4 octets.  (512 bit keys: crypto/rsa refuses them, so does Generate.)
func preCombos() []combo {
	return []combo{{dns.RSASHA1, 1024, 65537, true, false}, {dns.RSASHA1NSEC3SHA1, 1032, 65537, true, false}, {dns.RSASHA256, 2048, 65537, true, false},
		{dns.RSASHA512, 4088, 65537, true, false}, {dns.RSASHA256, 4096, 65537, true, false},
		{dns.RSASHA256, 1024, 3, true, false}, {dns.RSASHA512, 1024, 16777217, true, false}, {dns.RSASHA512, 4096, 3, true, false}, {dns.RSASHA1, 2048, 16777217, true, false}}
}

func allCombos() []combo { return append(append(genCombos(), preCombos()...), collideCombos()...) }

func comboByName(n string) combo {
	for _, c := range allCombos() {
		if c.String() == n {
			return c
		}
	}
	hx.Die("unknown algorithm/size combination %q", n)
	return combo{}
}

// ------------------------------------------------------------------ keys made without the library

func makeRSA(bits int, e int) *rsa.PrivateKey {
	E, one := big.NewInt(int64(e)), big.NewInt(1)
	for {
		p, err1 := rand.Prime(rand.Reader, bits/2)
		q, err2 := rand.Prime(rand.Reader, bits-bits/2)
		if err1 != nil || err2 != nil {
			hx.Die("prime: %v %v", err1, err2)
		}
		n := new(big.Int).Mul(p, q)
		if p.Cmp(q) == 0 || n.BitLen() != bits {
			continue
		}
		d := new(big.Int).ModInverse(E, new(big.Int).Mul(new(big.Int).Sub(p, one), new(big.Int).Sub(q, one)))
		if d == nil {
			continue
		}
		k := &rsa.PrivateKey{PublicKey: rsa.PublicKey{N: n, E: e}, D: d, Primes: []*big.Int{p, q}}
		k.Precompute()
		if err := k.Validate(); err != nil {
			hx.Die("made an invalid RSA key: %v", err)
		}
		return k
	}
}

func b64(b []byte) string { return base64.StdEncoding.EncodeToString(b) }

// BIND private-key text, v1.3, as this harness writes it
func renderPrivate(alg uint8, k crypto.Signer) string {
	head := fmt.Sprintf("Private-key-format: v1.3\nAlgorithm: %d (%s)\n", alg, dns.AlgorithmToString[alg])
	switch p := k.(type) {
	case *rsa.PrivateKey:
		one := big.NewInt(1)
		e1 := new(big.Int).Mod(p.D, new(big.Int).Sub(p.Primes[0], one))
		e2 := new(big.Int).Mod(p.D, new(big.Int).Sub(p.Primes[1], one))
		co := new(big.Int).ModInverse(p.Primes[1], p.Primes[0])
		return head + "Modulus: " + b64(p.N.Bytes()) + "\nPublicExponent: " + b64(big.NewInt(int64(p.E)).Bytes()) +
			"\nPrivateExponent: " + b64(p.D.Bytes()) + "\nPrime1: " + b64(p.Primes[0].Bytes()) + "\nPrime2: " + b64(p.Primes[1].Bytes()) +
			"\nExponent1: " + b64(e1.Bytes()) + "\nExponent2: " + b64(e2.Bytes()) + "\nCoefficient: " + b64(co.Bytes()) + "\n"
	case *ecdsa.PrivateKey:
		n := (p.Curve.Params().BitSize + 7) / 8
		return head + "PrivateKey: " + b64(p.D.FillBytes(make([]byte, n))) + "\n"
	case ed25519.PrivateKey:
		return head + "PrivateKey: " + b64(p.Seed()) + "\n"
	}
	hx.Die("renderPrivate: %T", k)
	return ""
}

// the fields of a private-key text ("Name: value" lines), names lower-cased
func parsePrivate(text string) map[string]string {
	m := map[string]string{}
	sc := bufio.NewScanner(strings.NewReader(text))
	sc.Buffer(make([]byte, 1<<16), 1<<20)
	for sc.Scan() {
		if k, v, ok := strings.Cut(sc.Text(), ":"); ok {
			m[strings.ToLower(strings.TrimSpace(k))] = strings.TrimSpace(v)
		}
	}
	return m
}

func rsaFromText(text string) *rsa.PrivateKey {
	m := parsePrivate(text)
	num := func(f string) *big.Int {
		b, err := base64.StdEncoding.DecodeString(m[f])
		if err != nil || len(b) == 0 {
			hx.Die("test data: field %s: %v", f, err)
		}
		return new(big.Int).SetBytes(b)
	}
	k := &rsa.PrivateKey{PublicKey: rsa.PublicKey{N: num("modulus"), E: int(num("publicexponent").Int64())}, D: num("privateexponent"),
		Primes: []*big.Int{num("prime1"), num("prime2")}}
	k.Precompute()
	if err := k.Validate(); err != nil {
		hx.Die("test data holds an invalid RSA key: %v", err)
	}
	return k
}

// DNSKEY public key field, encoded here
func encodePublic(pub crypto.PublicKey) []byte {
	switch p := pub.(type) {
	case *rsa.PublicKey: // RFC 3110 section 2
		e := big.NewInt(int64(p.E)).Bytes()
		return append(append([]byte{byte(len(e))}, e...), p.N.Bytes()...)
	case *ecdsa.PublicKey: // RFC 6605 section 4
		n := (p.Curve.Params().BitSize + 7) / 8
		return append(p.X.FillBytes(make([]byte, n)), p.Y.FillBytes(make([]byte, n))...)
	case ed25519.PublicKey: // RFC 8080 section 3
		return p
	}
	hx.Die("encodePublic: %T", pub)
	return nil
}

// what the trace specification needs to know about a public key: the numbers, not an encoding
type pubInfo struct {
	Kind string `json:"kind"`
	E    hx.B   `json:"e"`
	N    hx.B   `json:"n"`
	X    hx.B   `json:"x"`
	Y    hx.B   `json:"y"`
	Len  int    `json:"len"`
	K    hx.B   `json:"k"`
}

func describe(pub crypto.PublicKey) pubInfo {
	switch p := pub.(type) {
	case *rsa.PublicKey:
		return pubInfo{Kind: "rsa", E: hx.FromBytes(big.NewInt(int64(p.E)).Bytes()), N: hx.FromBytes(p.N.Bytes())}
	case *ecdsa.PublicKey:
		return pubInfo{Kind: "ecdsa", X: hx.FromBytes(p.X.Bytes()), Y: hx.FromBytes(p.Y.Bytes()), Len: (p.Curve.Params().BitSize + 7) / 8}
	case ed25519.PublicKey:
		return pubInfo{Kind: "ed25519", K: hx.FromBytes(p)}
	}
	hx.Die("describe: %T", pub)
	return pubInfo{}
}

func (p pubInfo) key() crypto.PublicKey {
	switch p.Kind {
	case "rsa":
		return &rsa.PublicKey{N: new(big.Int).SetBytes(p.N.Bytes()), E: int(new(big.Int).SetBytes(p.E.Bytes()).Int64())}
	case "ecdsa":
		c := elliptic.P256()
		if p.Len == 48 {
			c = elliptic.P384()
		}
		return &ecdsa.PublicKey{Curve: c, X: new(big.Int).SetBytes(p.X.Bytes()), Y: new(big.Int).SetBytes(p.Y.Bytes())}
	}
	return ed25519.PublicKey(p.K.Bytes())
}

// stdVerify: does the primitive accept sig (DNS encoding) over data?  Standard library only.
func stdVerify(p pubInfo, hash string, data, sig []byte) bool {
	d, h := data, crypto.Hash(0)
	switch hash {
	case "sha1":
		d, h = hashByName("sha1")(data), crypto.SHA1
	case "sha256":
		d, h = hashByName("sha256")(data), crypto.SHA256
	case "sha384":
		d, h = hashByName("sha384")(data), crypto.SHA384
	case "sha512":
		d, h = hashByName("sha512")(data), crypto.SHA512
	case "none":
	default:
		hx.Die("hash %q", hash)
	}
	switch k := p.key().(type) {
	case *rsa.PublicKey:
		return rsa.VerifyPKCS1v15(k, h, d, sig) == nil
	case *ecdsa.PublicKey:
		if len(sig) != 2*p.Len {
			return false
		}
		return ecdsa.Verify(k, d, new(big.Int).SetBytes(sig[:p.Len]), new(big.Int).SetBytes(sig[p.Len:]))
	case ed25519.PublicKey:
		return ed25519.Verify(k, d, sig)
	}
	return false
}

// genkeys writes the committed test data (run once; the files are part of the check)
func genkeys(dir string) {
	for _, c := range preCombos() {
		for id := 1; id <= 2; id++ {
			k := makeRSA(c.bits, c.exp)
			f := filepath.Join(dir, fmt.Sprintf("rsa-%d-e%d-%d.private", c.bits, c.exp, id))
			if err := os.WriteFile(f, []byte(renderPrivate(dns.RSASHA256, k)), 0o644); err != nil {
				hx.Die("%v", err)
			}
			fmt.Fprintln(os.Stderr, "wrote", f)
		}
	}
	fmt.Println(`{"evaluations":0,"distinct_nontrivial":0,"samples":[],"mismatches":[]}`)
}

// ------------------------------------------------------------------ real keys

type realKey struct {
	pub  *dns.DNSKEY       // the DNSKEY record handed to the library
	priv crypto.PrivateKey // what Generate returned (nil for provided keys)
	std  crypto.PublicKey  // the public key as the standard library holds it
	text string            // provided keys: the private-key text
}

const keyOwner = "Key.Example."

type keyLife struct {
	cache map[string]*realKey // once per run, combination, identity and origin: RSA generation is slow
	n     int                 // behaviours x combinations replayed
	fresh int                 // of which with fresh keys
	round *vec                // generate -> export -> import -> sign -> verify, for stress()
	given *vec                // provide -> import -> sign -> verify
}

func newKeyLife() *keyLife { return &keyLife{cache: map[string]*realKey{}} }

// generate calls the library's Generate.  A supported size must yield a key: an error or a panic is an
// observation about the library (bad = "fails" | "panics"), never a harness failure.
func generate(c combo) (rk *realKey, bad, what string) {
	k := &dns.DNSKEY{Hdr: dns.RR_Header{Name: keyOwner, Rrtype: dns.TypeDNSKEY, Class: dns.ClassINET, Ttl: 3600},
		Flags: 256, Protocol: 3, Algorithm: c.alg}
	var p crypto.PrivateKey
	var err error
	if pan := hx.Catch(func() { p, err = k.Generate(c.bits) }); pan != "" {
		return nil, "panics", pan
	}
	if err != nil {
		return nil, "fails", err.Error()
	}
	sg, ok := p.(crypto.Signer)
	if !ok {
		return nil, "fails", fmt.Sprintf("Generate returned a %T", p)
	}
	return &realKey{pub: k, priv: p, std: sg.Public()}, "", ""
}

func provided(c combo, s crypto.Signer) *realKey {
	return &realKey{pub: dnskey(keyOwner, 256, 3, int(c.alg), encodePublic(s.Public())), std: s.Public(), text: renderPrivate(c.alg, s)}
}

// RFC 4034 Appendix B, only to CONSTRUCT colliding keys (never used as an oracle)
func tagOf(flags uint16, proto, alg uint8, pub []byte) int {
	rd := append([]byte{byte(flags >> 8), byte(flags), proto, alg}, pub...)
	ac := 0
	for i, b := range rd {
		if i&1 == 0 {
			ac += int(b) << 8
		} else {
			ac += int(b)
		}
	}
	return (ac + ac>>16) & 0xffff
}

// a second, different, VALID key pair whose DNSKEY has the key tag of a's
func colliding(c combo, a *realKey) *realKey {
	want := tagOf(256, 3, c.alg, encodePublic(a.std))
	switch c.alg {
	case dns.ECDSAP256SHA256, dns.ECDSAP384SHA384:
		curve := elliptic.P256()
		if c.alg == dns.ECDSAP384SHA384 {
			curve = elliptic.P384()
		}
		start, _ := rand.Int(rand.Reader, new(big.Int).Rsh(curve.Params().N, 1))
		for d := start; ; d = new(big.Int).Add(d, big.NewInt(1)) {
			x, y := curve.ScalarBaseMult(d.Bytes())
			k := &ecdsa.PrivateKey{PublicKey: ecdsa.PublicKey{Curve: curve, X: x, Y: y}, D: d}
			if tagOf(256, 3, c.alg, encodePublic(&k.PublicKey)) == want {
				return provided(c, k)
			}
		}
	case dns.ED25519:
		seed := make([]byte, ed25519.SeedSize)
		rand.Read(seed)
		for i := uint32(0); ; i++ {
			seed[0], seed[1], seed[2], seed[3] = byte(i), byte(i>>8), byte(i>>16), byte(i>>24)
			k := ed25519.NewKeyFromSeed(seed)
			if tagOf(256, 3, c.alg, encodePublic(k.Public())) == want {
				return provided(c, k)
			}
		}
	}
	// RSA: a fresh modulus, and the public exponent (3 octets) searched so that the tag agrees.  All exponents
	// that hit the tag are congruent modulo 3, 5, 17 and 257 (divisors of 2^16-1), so a modulus may have none
	// that is invertible: then another modulus is tried.
	one := big.NewInt(1)
	for try := 0; try < 64; try++ {
		k := makeRSA(c.bits, 65537)
		phi := new(big.Int).Mul(new(big.Int).Sub(k.Primes[0], one), new(big.Int).Sub(k.Primes[1], one))
		rd := append([]byte{1, 0, 3, c.alg}, encodePublic(&rsa.PublicKey{N: k.N, E: 1 << 16})...) // exponent octets 01 00 00
		base := 0
		for i, b := range rd {
			if i&1 == 0 {
				base += int(b) << 8
			} else {
				base += int(b)
			}
		}
		base -= 1 // the 01 of the placeholder exponent (index 5, a low octet)
		for e := 65539; e < 1<<24; e += 2 {
			ac := base + e>>16 + (e>>8&255)<<8 + e&255
			if (ac+ac>>16)&0xffff != want {
				continue
			}
			d := new(big.Int).ModInverse(big.NewInt(int64(e)), phi)
			if d == nil {
				continue
			}
			b := &rsa.PrivateKey{PublicKey: rsa.PublicKey{N: k.N, E: e}, D: d, Primes: k.Primes}
			b.Precompute()
			if err := b.Validate(); err != nil {
				hx.Die("colliding RSA key invalid: %v", err)
			}
			if got := tagOf(256, 3, c.alg, encodePublic(&b.PublicKey)); got != want {
				hx.Die("collision construction is wrong: %d, wanted %d", got, want)
			}
			return provided(c, b)
		}
	}
	hx.Die("no colliding RSA key found: alg %d bits %d tag %d", c.alg, c.bits, want)
	return nil
}

func makeProvided(c combo, id int) *realKey {
	if c.pre {
		if id > 2 {
			hx.Die("only two committed key pairs per combination")
		}
		b, err := testdata.ReadFile(fmt.Sprintf("testdata/rsa-%d-e%d-%d.private", c.bits, c.exp, id))
		if err != nil {
			hx.Die("test data: %v", err)
		}
		return provided(c, rsaFromText(string(b)))
	}
	switch c.alg {
	case dns.ECDSAP256SHA256, dns.ECDSAP384SHA384:
		curve := elliptic.P256()
		if c.alg == dns.ECDSAP384SHA384 {
			curve = elliptic.P384()
		}
		k, err := ecdsa.GenerateKey(curve, rand.Reader)
		if err != nil {
			hx.Die("%v", err)
		}
		return provided(c, k)
	case dns.ED25519:
		_, k, err := ed25519.GenerateKey(rand.Reader)
		if err != nil {
			hx.Die("%v", err)
		}
		return provided(c, k)
	}
	return provided(c, makeRSA(c.bits, []int{65537, 3, 16777217}[id%3]))
}

func (kl *keyLife) key(c combo, id int, origin string, fresh bool) (rk *realKey, bad, what string) {
	make1 := func() (*realKey, string, string) {
		if origin == "gen" {
			return generate(c)
		}
		if c.collide && id == 2 {
			first, _, _ := kl.key(c, 1, origin, false)
			return colliding(c, first), "", ""
		}
		return makeProvided(c, id), "", ""
	}
	if fresh {
		return make1()
	}
	ck := fmt.Sprintf("%v#%d#%s", c, id, origin)
	if kl.cache[ck] == nil {
		if rk, bad, what = make1(); bad != "" {
			return nil, bad, what
		}
		kl.cache[ck] = rk
	}
	return kl.cache[ck], "", ""
}

// ------------------------------------------------------------------ the executor

var rrset = []dns.RR{
	&dns.A{Hdr: dns.RR_Header{Name: "www.key.example.", Rrtype: dns.TypeA, Class: dns.ClassINET, Ttl: 300}, A: []byte{192, 0, 2, 2}},
	&dns.A{Hdr: dns.RR_Header{Name: "www.key.example.", Rrtype: dns.TypeA, Class: dns.ClassINET, Ttl: 300}, A: []byte{192, 0, 2, 1}},
}

type handle struct {
	k      *realKey // the key pair this private key belongs to
	priv   crypto.PrivateKey
	imp    bool
	relaid bool // read from a text that came back from a store in another layout (KeyLife17!Relay)
}

type text struct {
	s      string
	k      *realKey
	relaid bool
}

// pfx: finding keys of operations on relaid texts / handles read from them are classes of their own
func pfx(relaid bool) string {
	if relaid {
		return "keylife/relaid-"
	}
	return "keylife/"
}

type klRun struct {
	kl     *keyLife
	c      combo
	fresh  bool
	keys   map[int]*realKey
	hs     []handle
	texts  []text
	sigs   []*dns.RRSIG
	signer []handle
}

func (kl *keyLife) newRun(c combo, fresh bool) *klRun {
	return &klRun{kl: kl, c: c, fresh: fresh, keys: map[int]*realKey{}}
}

func (r *klRun) gen(id int) (bad, what string) {
	k, bad, what := r.kl.key(r.c, id, "gen", r.fresh)
	if bad != "" {
		return bad, what
	}
	r.keys[id] = k
	r.hs = append(r.hs, handle{k, k.priv, false, false})
	return "", ""
}

func (r *klRun) provide(id int) {
	r.keys[id], _, _ = r.kl.key(r.c, id, "ext", r.fresh)
	r.texts = append(r.texts, text{r.keys[id].text, r.keys[id], false})
}

// Every call into the library below goes through hx.Catch: a panic of the library on an input the
// specification chose is an observation about the library ("panics"), never a dead harness.
// bad: "" | "fails" | "panics".

func (r *klRun) export(h int) (bad, what string) {
	var s string
	if p := hx.Catch(func() { s = r.hs[h-1].k.pub.PrivateKeyString(r.hs[h-1].priv) }); p != "" {
		return "panics", p
	}
	if s == "" {
		return "fails", "PrivateKeyString returned nothing"
	}
	r.texts = append(r.texts, text{s, r.hs[h-1].k, r.hs[h-1].relaid})
	return "", ""
}

// relay: text t comes back from a store as the text s (another layout of the same fields)
func (r *klRun) relay(t int, s string) {
	r.texts = append(r.texts, text{s, r.texts[t-1].k, true})
}

// kindOf: which of the specification's templates fits the texts of this combination
func (c combo) kindOf() string {
	switch c.alg {
	case dns.RSASHA1, dns.RSASHA1NSEC3SHA1, dns.RSASHA256, dns.RSASHA512:
		return "rsa"
	}
	return "ec"
}

// instantiate puts the values of the text orig into a template of the specification (Dnssec17!KFTemplate):
// -1 = the value orig has for the field named on that line (Algorithm: the number), -2 = the algorithm mnemonic.
func instantiate(tpl []int, orig string, alg uint8) string {
	if len(tpl) == 0 {
		hx.Die("relay without a template")
	}
	f := parsePrivate(orig)
	var b []byte
	line := 0 // where the current line starts in b
	for _, x := range tpl {
		switch {
		case x == -1:
			name, _, ok := strings.Cut(string(b[line:]), ":")
			v, have := f[strings.ToLower(name)]
			if !ok || !have {
				hx.Die("template names the field %q, the text has none", name)
			}
			if strings.EqualFold(name, "algorithm") {
				v, _, _ = strings.Cut(v, " ")
			}
			b = append(b, v...)
		case x == -2:
			b = append(b, dns.AlgorithmToString[alg]...)
		case x >= 0 && x <= 255:
			b = append(b, byte(x))
			if x == '\n' {
				line = len(b)
			}
		default:
			hx.Die("template element %d", x)
		}
	}
	return string(b)
}

// readerFor: the ways a text reaches ReadPrivateKey (KeyLife17!Apis)
func readerFor(api, s string) io.Reader {
	switch api {
	case "read": // an io.ByteReader: the library reads octet by octet from it
		return strings.NewReader(s)
	case "readplain": // no ReadByte (a file, a pipe): the library puts its own buffer in front
		return struct{ io.Reader }{strings.NewReader(s)}
	case "read1": // one octet per Read
		return iotest.OneByteReader(strings.NewReader(s))
	case "readeof": // the last octets arrive together with io.EOF
		return iotest.DataErrReader(strings.NewReader(s))
	}
	hx.Die("unknown import api %q", api)
	return nil
}

// imp reads a text back.  differs != "": the imported key, exported again, is not the key of the text
// (reexp: that second export; "panics" in differs: it panicked).
func (r *klRun) imp(t int, api string) (bad, what, differs, reexp string) {
	x := r.texts[t-1]
	var p crypto.PrivateKey
	var err error
	if pan := hx.Catch(func() {
		if api == "new" {
			p, err = x.k.pub.NewPrivateKey(x.s)
		} else {
			p, err = x.k.pub.ReadPrivateKey(readerFor(api, x.s), "exported.private")
		}
	}); pan != "" {
		return "panics", pan, "", ""
	}
	if err == nil && p == nil {
		err = fmt.Errorf("no key and no error")
	}
	if err != nil {
		return "fails", err.Error(), "", ""
	}
	r.hs = append(r.hs, handle{x.k, p, true, x.relaid})
	if pan := hx.Catch(func() { reexp = x.k.pub.PrivateKeyString(p) }); pan != "" {
		return "", "", "panics: " + pan, ""
	}
	a, b := parsePrivate(x.s), parsePrivate(reexp)
	for _, f := range []string{"algorithm", "modulus", "publicexponent", "privateexponent", "prime1", "prime2", "exponent1", "exponent2", "coefficient", "privatekey"} {
		va, vb := a[f], b[f]
		if f == "algorithm" { // the number; the mnemonic after it is a comment
			va, _, _ = strings.Cut(va, " ")
			vb, _, _ = strings.Cut(vb, " ")
		}
		if va != vb {
			return "", "", fmt.Sprintf("field %s: read %q, written again as %q", f, a[f], b[f]), reexp
		}
	}
	return "", "", "", reexp
}

func (r *klRun) sign(h int) (bad, what string) {
	x := r.hs[h-1]
	sg, ok := x.priv.(crypto.Signer)
	if !ok {
		return "fails", fmt.Sprintf("private key of type %T cannot sign", x.priv)
	}
	now := uint32(time.Now().Unix())
	sig := &dns.RRSIG{Hdr: dns.RR_Header{Name: "www.key.example.", Rrtype: dns.TypeRRSIG, Class: dns.ClassINET, Ttl: 300},
		Inception: now - 3600, Expiration: now + 3600, KeyTag: x.k.pub.KeyTag(), SignerName: x.k.pub.Hdr.Name, Algorithm: r.c.alg}
	var err error
	if pan := hx.Catch(func() { err = sig.Sign(sg, rrset) }); pan != "" {
		return "panics", pan
	}
	if err != nil {
		return "fails", err.Error()
	}
	r.sigs, r.signer = append(r.sigs, sig), append(r.signer, x)
	return "", ""
}

// signClass: parameter class of a failed signing, for the finding key
func (r *klRun) signClass(h int, bad string) string {
	if bad == "fails" && r.hs[h-1].k.pub.KeyTag() == 0 {
		return "keytag0"
	}
	return bad
}

// verify under the DNSKEY of identity id; the key tag of the signature is set to that key's, so that the key
// material decides, not the tag comparison
func (r *klRun) verify(id, s int) (ok bool, panicked string) {
	pub := r.keys[id].pub
	forged := *r.sigs[s-1]
	forged.KeyTag = pub.KeyTag()
	panicked = hx.Catch(func() {
		ok = forged.Verify(pub, rrset) == nil && (r.sigs[s-1].KeyTag != pub.KeyTag() || r.sigs[s-1].Verify(pub, rrset) == nil)
	})
	return ok, panicked
}

// ------------------------------------------------------------------ replay of TLC behaviours

func (kl *keyLife) behaviour(v *vec, c combo, fresh bool, sum *hx.Summary) {
	r := kl.newRun(c, fresh)
	alg := c.String()
	for _, o := range v.Ops {
		switch o.Op {
		case "gen":
			if bad, what := r.gen(o.Key); bad != "" {
				sum.Mis("keylife/generate-"+bad+":"+alg, fmt.Sprintf("Generate(%d) for %s: %s", c.bits, dns.AlgorithmToString[c.alg], what), v)
				return
			}
		case "provide":
			r.provide(o.Key)
		case "export":
			if bad, what := r.export(o.H); bad != "" {
				k := "keylife/export-" + bad + ":" + alg
				if bad == "fails" {
					k = "keylife/export-empty:" + alg
				}
				sum.Mis(k, "PrivateKeyString: "+what, v)
				return
			}
		case "relay":
			tpl := o.Ec
			if c.kindOf() == "rsa" {
				tpl = o.Rsa
			}
			r.relay(o.T, instantiate(tpl, r.texts[o.T-1].s, c.alg))
		case "import":
			rel := r.texts[o.T-1].relaid
			bad, what, differs, _ := r.imp(o.T, o.Api)
			if bad != "" {
				sum.Mis(pfx(rel)+"import-"+bad+":"+alg, fmt.Sprintf("%s of a private-key text for this DNSKEY: %s%s", o.Api, what, layoutNote(r.texts[o.T-1])), v)
				return
			}
			if differs != "" {
				k := pfx(rel) + "reexport-differs:" + alg
				if strings.HasPrefix(differs, "panics: ") {
					k = pfx(rel) + "reexport-panics:" + alg
				}
				sum.Mis(k, fmt.Sprintf("%s, then PrivateKeyString: %s%s", o.Api, differs, layoutNote(r.texts[o.T-1])), v)
				if strings.HasPrefix(differs, "panics: ") {
					return
				}
			}
		case "sign":
			if bad, what := r.sign(o.H); bad != "" {
				h := r.hs[o.H-1]
				k := pfx(h.relaid) + "sign-" + bad + ":" + alg
				if h.imp && !h.relaid && bad == "fails" {
					k = "keylife/sign-fails-imported:" + alg
				}
				if bad == "fails" && h.k.pub.KeyTag() == 0 { // one key in 65536: its own class
					k = "keylife/sign-refuses-keytag-0"
				}
				sum.Mis(k, "RRSIG.Sign: "+what, v)
				return
			}
		case "verify":
			ok, pan := r.verify(o.Key, o.S)
			sg := r.signer[o.S-1]
			if pan != "" {
				sum.Mis(pfx(sg.relaid)+"verify-panics:"+alg, "RRSIG.Verify: "+pan, v)
				return
			}
			if o.Ok && !ok {
				k := pfx(sg.relaid) + "verify-rejects-own-key:" + alg
				if sg.imp {
					k = pfx(sg.relaid) + "verify-rejects-imported-key:" + alg
				}
				sum.Mis(k, "signature does not verify under the key it descends from", v)
			}
			if !o.Ok && ok {
				sum.Mis(pfx(sg.relaid)+"verify-accepts-other-key:"+alg, "signature verifies under a different key", v)
			}
		}
	}
}

// layoutNote: for the one-line description of a finding, how a relaid text ended
func layoutNote(t text) string {
	if !t.relaid {
		return ""
	}
	n := len(t.s)
	if n > 24 {
		n = 24
	}
	return fmt.Sprintf(" (text of %d octets in the layout of the relay operation, ending %q)", len(t.s), t.s[len(t.s)-n:])
}

func (kl *keyLife) replay(v *vec, sum *hx.Summary, seen map[string]bool) {
	count := map[string]int{}
	for _, o := range v.Ops {
		count[o.Op]++
	}
	last := v.Ops[len(v.Ops)-1]
	if kl.round == nil && count["gen"] == 1 && count["provide"] == 0 && count["relay"] == 0 && count["import"] == 1 && len(v.Ops) == 5 && last.Ok && v.Ops[3].Op == "sign" && v.Ops[3].H == 2 {
		kl.round = v
	}
	if kl.given == nil && count["gen"] == 0 && count["provide"] == 1 && count["relay"] == 0 && count["import"] == 1 && len(v.Ops) == 4 && last.Ok {
		kl.given = v
	}
	for _, c := range allCombos() {
		if c.providedOnly() && count["gen"] > 0 {
			continue // the committed and the colliding key pairs are provided, not generated
		}
		kl.n++
		sum.Evaluations++
		seen[fmt.Sprintf("kl:%v:%v", c, v.Ops)] = true
		kl.behaviour(v, c, false, sum)
	}
}

// The two round trips with FRESH elliptic-curve keys many times: integers with leading zero octets (one key
// or signature in 128) must survive export, import, signing and verification.  The behaviours and their
// expected results are the specification's; only the key material varies.
func (kl *keyLife) stress(sum *hx.Summary) {
	n := map[uint8]int{dns.ECDSAP256SHA256: 600, dns.ECDSAP384SHA384: 250, dns.ED25519: 150}
	if hx.Thorough() {
		n = map[uint8]int{dns.ECDSAP256SHA256: 4000, dns.ECDSAP384SHA384: 1500, dns.ED25519: 1000}
	}
	for _, b := range []*vec{kl.round, kl.given} {
		if b == nil {
			continue
		}
		for _, c := range genCombos() {
			for j := 0; j < n[c.alg]; j++ {
				kl.fresh++
				sum.Evaluations++
				kl.behaviour(b, c, true, sum)
			}
		}
	}
	if kl.given == nil {
		return
	}
	// provided keys whose integers need padding: D = 1, 2, ... and the first D whose public X or Y is short
	for _, c := range []combo{{dns.ECDSAP256SHA256, 256, 0, false, false}, {dns.ECDSAP384SHA384, 384, 0, false, false}} {
		curve, n := elliptic.P256(), 32
		if c.alg == dns.ECDSAP384SHA384 {
			curve, n = elliptic.P384(), 48
		}
		short := 0
		for d := int64(1); d < 2000 && short < 3; d++ {
			D := big.NewInt(d)
			x, y := curve.ScalarBaseMult(D.Bytes())
			if d > 4 && x.BitLen() > 8*(n-1) && y.BitLen() > 8*(n-1) {
				continue
			}
			if d > 4 {
				short++
			}
			if short == 3 && n == 32 { // and the P-256 key of the scalar 44542, whose key tag is 0
				D = big.NewInt(44542)
				x, y = curve.ScalarBaseMult(D.Bytes())
			}
			ck := fmt.Sprintf("%v#%d#%s", c, 1, "ext")
			kl.cache[ck] = provided(c, &ecdsa.PrivateKey{PublicKey: ecdsa.PublicKey{Curve: curve, X: x, Y: y}, D: D})
			kl.fresh++
			sum.Evaluations++
			kl.behaviour(kl.given, c, false, sum)
			delete(kl.cache, ck)
		}
	}
}

// ------------------------------------------------------------------ events

type evKL struct {
	Ev  string `json:"ev"`
	Key int    `json:"key"`
	H   int    `json:"h"`
	T   int    `json:"t"`
	S   int    `json:"s"`
	Api string `json:"api"`
	Ok  bool   `json:"ok"`
	Alg string `json:"alg"` // the algorithm/size combination
	// export / import / sign / verify: the real call returned an error or panicked (the specification has no such outcome)
	Failed   bool   `json:"failed"`
	Err      string `json:"err"`
	ErrClass string `json:"errclass"` // "fails" | "panics"; kl.sign also: "keytag0"
	// kl.relay: the layout the recorder chose, the text before and after (the specification checks that
	// both have the same key fields: Dnssec17!KFSameKey)
	Lay *layout `json:"lay,omitempty"`
	Old hx.B    `json:"old,omitempty"`
	New hx.B    `json:"new,omitempty"`
	// kl.import that succeeded: the text read and what PrivateKeyString makes of the key read from it
	// (the specification compares their key fields); ReexpPanic: that second export panicked
	Text       hx.B   `json:"text,omitempty"`
	Reexp      hx.B   `json:"reexp,omitempty"`
	ReexpPanic string `json:"reexppanic"`
}

// layout: how the RECORDER re-writes a text (random, wider than the specification's layout universe;
// whether the result still has the same key fields is judged by the trace specification, not trusted)
type layout struct {
	Fmt     string `json:"fmt"`
	Timing  bool   `json:"timing"`
	Mnem    bool   `json:"mnem"`
	Blanks  []int  `json:"blanks"` // empty lines before line i (last entry: after the last line)
	FinalNL bool   `json:"finalnl"`
}

func randLayout(rnd *mrand.Rand) *layout {
	l := &layout{Fmt: []string{"v1.2", "v1.3", "v1.3"}[rnd.Intn(3)], Mnem: rnd.Intn(2) == 0, FinalNL: rnd.Intn(2) == 0}
	l.Timing = l.Fmt == "v1.3" && rnd.Intn(2) == 0
	l.Blanks = make([]int, 16)
	if rnd.Intn(2) == 0 {
		for i := range l.Blanks {
			if rnd.Intn(4) == 0 {
				l.Blanks[i] = 1 + rnd.Intn(2)
			}
		}
	}
	return l
}

func (l *layout) apply(orig string) string {
	var lines []string
	for _, ln := range strings.Split(orig, "\n") {
		name, val, ok := strings.Cut(ln, ": ")
		switch strings.ToLower(name) {
		case "":
			continue
		case "private-key-format":
			ln = name + ": " + l.Fmt
		case "algorithm":
			num, _, _ := strings.Cut(val, " ")
			ln = name + ": " + num
			if l.Mnem {
				n, _ := strconv.Atoi(num)
				ln += " (" + dns.AlgorithmToString[uint8(n)] + ")"
			}
		case "created", "publish", "activate":
			continue
		}
		if !ok {
			hx.Die("line %q of a private-key text is not a field", ln)
		}
		lines = append(lines, ln)
	}
	if l.Timing {
		lines = append(lines, "Created: 20260924120000", "Publish: 20260924120000", "Activate: 20260924120000")
	}
	var b strings.Builder
	bl := func(i int) {
		if i < len(l.Blanks) {
			b.WriteString(strings.Repeat("\n", l.Blanks[i]))
		}
	}
	for i, ln := range lines {
		bl(i)
		b.WriteString(ln)
		if i < len(lines)-1 {
			b.WriteString("\n")
		}
	}
	// after the last line: its LF if any empty line follows or the layout ends the text with one
	tail := 0
	if len(lines) < len(l.Blanks) {
		tail = l.Blanks[len(lines)]
	}
	if tail > 0 || l.FinalNL {
		b.WriteString("\n")
	}
	if tail > 0 {
		b.WriteString(strings.Repeat("\n", tail-1))
		if l.FinalNL {
			b.WriteString("\n")
		}
	}
	return b.String()
}

// a signature made during a key life, with everything the specification needs to rebuild the signed octets
type evRrsig struct {
	Ev       string  `json:"ev"`
	Combo    string  `json:"combo"`
	Alg      int     `json:"alg"`
	Flags    int     `json:"flags"`
	Proto    int     `json:"proto"`
	PubKey   hx.B    `json:"pubkey"` // the public key field of the DNSKEY handed to the library
	Pub      pubInfo `json:"pub"`    // the same key as numbers, from the standard library
	Owner    hx.B    `json:"owner"`
	Class    int     `json:"class"`
	Ttl      hx.B    `json:"ttl"`
	Rdatas   []hx.B  `json:"rdatas"`
	Tc       int     `json:"tc"`
	Labels   int     `json:"labels"`
	Exp      hx.B    `json:"exp"`
	Inc      hx.B    `json:"inc"`
	KeyTag   int     `json:"keytag"`
	Signer   hx.B    `json:"signer"`
	Sig      hx.B    `json:"sig"`
	Verified bool    `json:"verified"`
}

func be32(v uint32) hx.B {
	return hx.B{int(v >> 24), int(v >> 16 & 255), int(v >> 8 & 255), int(v & 255)}
}

func (r *klRun) rrsigEvent() evRrsig {
	sig, h := r.sigs[len(r.sigs)-1], r.signer[len(r.signer)-1]
	pk, err := base64.StdEncoding.DecodeString(h.k.pub.PublicKey)
	if err != nil {
		hx.Die("DNSKEY public key is not base64: %v", err)
	}
	sb, err := base64.StdEncoding.DecodeString(sig.Signature)
	if err != nil {
		hx.Die("RRSIG signature is not base64: %v", err)
	}
	verified := false
	hx.Catch(func() { verified = sig.Verify(h.k.pub, rrset) == nil }) // a panic: not verified
	e := evRrsig{Ev: "rrsig", Combo: r.c.String(), Alg: int(sig.Algorithm), Flags: int(h.k.pub.Flags), Proto: int(h.k.pub.Protocol),
		PubKey: hx.FromBytes(pk), Pub: describe(h.k.std), Owner: hx.FromString(rrset[0].Header().Name), Class: int(rrset[0].Header().Class),
		Ttl: be32(sig.OrigTtl), Tc: int(sig.TypeCovered), Labels: int(sig.Labels), Exp: be32(sig.Expiration), Inc: be32(sig.Inception),
		KeyTag: int(sig.KeyTag), Signer: hx.FromString(sig.SignerName), Sig: hx.FromBytes(sb), Verified: verified}
	for _, rr := range rrset {
		e.Rdatas = append(e.Rdatas, hx.FromBytes(rr.(*dns.A).A.To4()))
	}
	return e
}

// one random key life: events carry the handle/text/signature numbers the model uses (creation order)
func (kl *keyLife) recordRun(rnd *mrand.Rand, w *hx.Writer, seen map[string]bool) {
	cs := allCombos()
	c := cs[rnd.Intn(len(cs))]
	if c.bits >= 2048 && rnd.Intn(3) != 0 { // the big RSA keys are slow: one run in three keeps them
		c = cs[4+rnd.Intn(3)]
	}
	alg := c.String()
	w.Emit(evKL{Ev: "kl.reset", Alg: alg})
	r := kl.newRun(c, false)
	steps := 4 + rnd.Intn(6)
	trace := ""
	maxKeys := 3
	if c.providedOnly() {
		maxKeys = 2 // two committed key pairs per size/exponent; one colliding pair
	}
	for s := 0; s < steps; s++ {
		switch x := []int{0, 1, 1, 2, 2, 3, 4, 5, 5, 5, 6, 6}[rnd.Intn(12)]; {
		case len(r.hs)+len(r.texts) == 0 || (x == 0 && len(r.keys) < maxKeys):
			id := len(r.keys) + 1
			if c.providedOnly() || rnd.Intn(3) == 0 {
				r.provide(id)
				w.Emit(evKL{Ev: "kl.provide", Key: id, Alg: alg})
				trace += "p"
			} else {
				if bad, what := r.gen(id); bad != "" {
					w.Emit(evKL{Ev: "kl.gen", Key: id, Alg: alg, Failed: true, Err: what, ErrClass: bad})
					seen["kl"+alg+trace+"G"] = true
					return
				}
				w.Emit(evKL{Ev: "kl.gen", Key: id, Alg: alg})
				trace += "g"
			}
		case x == 1 && len(r.hs) > 0:
			i := 1 + rnd.Intn(len(r.hs))
			if bad, what := r.export(i); bad != "" {
				w.Emit(evKL{Ev: "kl.export", H: i, Alg: alg, Failed: true, Err: what, ErrClass: bad})
				return
			}
			w.Emit(evKL{Ev: "kl.export", H: i, Alg: alg})
			trace += "e"
		case x == 6 && len(r.texts) > 0 && c.bits <= 2048: // the text comes back from a store in another layout
			j := 1 + rnd.Intn(len(r.texts))
			lay := randLayout(rnd)
			old := r.texts[j-1].s
			r.relay(j, lay.apply(old))
			w.Emit(evKL{Ev: "kl.relay", T: j, Alg: alg, Lay: lay, Old: hx.FromString(old), New: hx.FromString(r.texts[len(r.texts)-1].s)})
			trace += "r"
		case (x == 2 || len(r.hs) == 0) && len(r.texts) > 0:
			j := 1 + rnd.Intn(len(r.texts))
			if r.texts[len(r.texts)-1].relaid && rnd.Intn(2) == 0 {
				j = len(r.texts) // a copy that just came back is usually read
			}
			api := []string{"new", "read", "new", "read", "readplain", "read1", "readeof"}[rnd.Intn(7)]
			if !emitc(w)(r.importEvent(j, api, alg)) {
				seen["kl"+alg+trace+"I"] = true
				return
			}
			trace += "i"
		case x <= 4 && len(r.hs) > 0:
			i := 1 + rnd.Intn(len(r.hs))
			if bad, what := r.sign(i); bad != "" {
				w.Emit(evKL{Ev: "kl.sign", H: i, Alg: alg, Failed: true, Err: what, ErrClass: r.signClass(i, bad)})
				seen["kl"+alg+trace+"S"] = true
				return
			}
			w.Emit(evKL{Ev: "kl.sign", H: i, Alg: alg})
			w.Emit(r.rrsigEvent())
			trace += "s"
		case len(r.sigs) > 0:
			j := 1 + rnd.Intn(len(r.sigs))
			id := 1 + rnd.Intn(len(r.keys))
			if !emitc(w)(r.verifyEvent(id, j, alg)) {
				return
			}
			trace += "v"
		}
	}
	seen["kl"+alg+trace] = true
}

func emitc(w *hx.Writer) func(evKL, bool) bool {
	return func(e evKL, cont bool) bool { w.Emit(e); return cont }
}

// importEvent reads text j and describes what happened (cont: the run can go on)
func (r *klRun) importEvent(j int, api, alg string) (e evKL, cont bool) {
	bad, what, differs, reexp := r.imp(j, api)
	e = evKL{Ev: "kl.import", T: j, Api: api, Alg: alg}
	if bad != "" {
		e.Failed, e.Err, e.ErrClass = true, what, bad
		return e, false
	}
	if r.c.bits <= 2048 { // the 4096-bit texts would double the size of the trace
		e.Text, e.Reexp = hx.FromString(r.texts[j-1].s), hx.FromString(reexp)
	}
	if strings.HasPrefix(differs, "panics: ") {
		e.ReexpPanic = differs
		return e, false
	}
	return e, true
}

func (r *klRun) verifyEvent(id, j int, alg string) (e evKL, cont bool) {
	ok, pan := r.verify(id, j)
	e = evKL{Ev: "kl.verify", Key: id, S: j, Ok: ok, Alg: alg}
	if pan != "" {
		e.Failed, e.Err, e.ErrClass = true, pan, "panics"
		return e, false
	}
	return e, true
}

// rerunStep executes one recorded key-life event again (fresh result) and writes it
func (kl *keyLife) rerunStep(r *klRun, e *anyEv, w *hx.Writer) *klRun {
	num := func(x any) int { f, _ := x.(float64); return int(f) }
	if e.Ev == "kl.reset" {
		c := comboByName(e.Alg.(string))
		w.Emit(evKL{Ev: e.Ev, Alg: c.String()})
		return kl.newRun(c, false)
	}
	if r == nil {
		hx.Die("key-life event before kl.reset")
	}
	alg := r.c.String()
	switch e.Ev {
	case "kl.gen":
		if bad, what := r.gen(num(e.Key)); bad != "" {
			w.Emit(evKL{Ev: e.Ev, Key: num(e.Key), Alg: alg, Failed: true, Err: what, ErrClass: bad})
			return r
		}
		w.Emit(evKL{Ev: e.Ev, Key: num(e.Key), Alg: alg})
	case "kl.provide":
		r.provide(num(e.Key))
		w.Emit(evKL{Ev: e.Ev, Key: num(e.Key), Alg: alg})
	case "kl.export":
		bad, what := r.export(num(e.H))
		w.Emit(evKL{Ev: e.Ev, H: num(e.H), Alg: alg, Failed: bad != "", Err: what, ErrClass: bad})
	case "kl.relay":
		if e.Lay == nil || num(e.T) < 1 || num(e.T) > len(r.texts) {
			hx.Die("kl.relay event without layout / text")
		}
		old := r.texts[num(e.T)-1].s
		r.relay(num(e.T), e.Lay.apply(old))
		w.Emit(evKL{Ev: e.Ev, T: num(e.T), Alg: alg, Lay: e.Lay, Old: hx.FromString(old), New: hx.FromString(r.texts[len(r.texts)-1].s)})
	case "kl.import":
		if num(e.T) > len(r.texts) { // an earlier step of the recorded run failed this time
			hx.Die("kl.import of a text that does not exist in the rerun")
		}
		emitc(w)(r.importEvent(num(e.T), e.Api, alg))
	case "kl.sign":
		if num(e.H) > len(r.hs) {
			hx.Die("kl.sign with a handle that does not exist in the rerun")
		}
		if bad, what := r.sign(num(e.H)); bad != "" {
			w.Emit(evKL{Ev: e.Ev, H: num(e.H), Alg: alg, Failed: true, Err: what, ErrClass: r.signClass(num(e.H), bad)})
			return r
		}
		w.Emit(evKL{Ev: e.Ev, H: num(e.H), Alg: alg})
		w.Emit(r.rrsigEvent())
	case "kl.verify":
		if e.S > len(r.sigs) {
			hx.Die("kl.verify of a signature that does not exist in the rerun")
		}
		emitc(w)(r.verifyEvent(num(e.Key), e.S, alg))
	}
	return r
}
