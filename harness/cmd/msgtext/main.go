// Command msgtext binds spec/MsgText.tla to MsgHdr.String() / Msg.String() (extra check X05).
//
//	msgtext replay <vectors.ndjson>                   header fields -> MsgHdr.String(), compared with the admissible texts
//	msgtext record <out.ndjson> <stride> <off> <n>    MsgHdr.String() for every flag word w with w % stride == off (the
//	                                                  header is made by the real Unpack), then n random messages; for Trace_MsgText
package main

import (
	"fmt"
	"os"
	"strconv"

	"github.com/miekg/dns"

	"verifharness/lib/hx"
)

type hdr struct {
	Id     int  `json:"id"`
	Qr     bool `json:"qr"`
	Opcode int  `json:"opcode"`
	Aa     bool `json:"aa"`
	Tc     bool `json:"tc"`
	Rd     bool `json:"rd"`
	Ra     bool `json:"ra"`
	Z      bool `json:"z"`
	Ad     bool `json:"ad"`
	Cd     bool `json:"cd"`
	Rcode  int  `json:"rcode"`
}

type vec struct {
	Kind string `json:"kind"`
	W    int    `json:"w"`
	H    hdr    `json:"h"`
	Exp  []hx.B `json:"exp"`
}

type event struct {
	Ev     string `json:"ev"`
	Id     int    `json:"id"`
	W      int    `json:"w"`
	Rcode  int    `json:"rcode"`
	Counts []int  `json:"counts"`
	Opt    bool   `json:"opt"`
	Text   hx.B   `json:"text"`
}

func main() {
	if len(os.Args) < 3 {
		hx.Die("usage: msgtext replay <vectors> | record <out> <stride> <off> <n>")
	}
	switch os.Args[1] {
	case "replay":
		replay(os.Args[2])
	case "record":
		if len(os.Args) < 6 {
			hx.Die("usage: msgtext record <out> <stride> <off> <n>")
		}
		st, _ := strconv.Atoi(os.Args[3])
		off, _ := strconv.Atoi(os.Args[4])
		n, _ := strconv.Atoi(os.Args[5])
		record(os.Args[2], st, off, n)
	case "reexec": // reexec <events-in> <events-out>
		reexec(os.Args[2], os.Args[3])
	default:
		hx.Die("unknown mode %s", os.Args[1])
	}
}

func class(op, rc int) string {
	if op == 6 {
		return ":opcode-dso"
	}
	return ""
}

func replay(path string) {
	var sum hx.Summary
	seen := map[int]bool{}
	hx.ReadNDJSON(path, func(i int, v *vec) {
		sum.Evaluations++
		h := dns.MsgHdr{Id: uint16(v.H.Id), Response: v.H.Qr, Opcode: v.H.Opcode, Authoritative: v.H.Aa, Truncated: v.H.Tc,
			RecursionDesired: v.H.Rd, RecursionAvailable: v.H.Ra, Zero: v.H.Z, AuthenticatedData: v.H.Ad, CheckingDisabled: v.H.Cd, Rcode: v.H.Rcode}
		got := h.String()
		seen[v.W] = true
		ok := false
		for _, e := range v.Exp {
			ok = ok || got == e.String()
		}
		if !ok {
			sum.Mis("msgtext/hdr-string"+class(v.H.Opcode, v.H.Rcode), fmt.Sprintf("MsgHdr.String() = %q, spec admits %q", got, v.Exp[0].String()), v)
		}
		if i%3001 == 0 {
			sum.Sample(v)
		}
	})
	sum.Nontrivial = len(seen)
	sum.Print()
}

func hdrOf(id, w int) *dns.Msg {
	b := []byte{byte(id >> 8), byte(id), byte(w >> 8), byte(w), 0, 0, 0, 0, 0, 0, 0, 0}
	m := new(dns.Msg)
	if err := m.Unpack(b); err != nil {
		hx.Die("Unpack of a bare header (word %#04x): %v", w, err)
	}
	return m
}

func aRec(name string) dns.RR {
	return &dns.A{Hdr: dns.RR_Header{Name: name, Rrtype: dns.TypeA, Class: dns.ClassINET, Ttl: 60}, A: []byte{192, 0, 2, 1}}
}

func record(out string, stride, off, n int) {
	r := hx.Rand()
	w := hx.NewWriter(out)
	var sum hx.Summary
	seen := map[string]bool{}
	ids := []int{0, 9, 10, 99, 100, 4660, 48404, 65535}
	for word := off; word < 65536; word += stride {
		id := ids[(word/stride)%len(ids)]
		m := hdrOf(id, word)
		w.Emit(&event{Ev: "hdr", Id: id, W: word, Rcode: m.Rcode, Counts: []int{}, Text: hx.FromString(m.MsgHdr.String())})
		seen["h"+strconv.Itoa(word)] = true
		sum.Evaluations++
	}
	for k := 0; k < n; k++ {
		word := r.Intn(65536)
		if r.Intn(3) == 0 { // more UPDATE / QUERY messages
			word = word&^0x7800 | []int{0, 5}[r.Intn(2)]<<11
		}
		id := r.Intn(65536)
		e := &event{Ev: "msg", Id: id, W: word, Counts: []int{r.Intn(3), r.Intn(3), r.Intn(3), r.Intn(3)}}
		e.Rcode = hdrOf(id, word).Rcode // as the real Unpack reads it
		if e.Counts[3] > 0 && r.Intn(2) == 0 {
			e.Opt = true
			if r.Intn(2) == 0 {
				e.Rcode = []int{16, 17, 18, 19, 20, 21, 22, 23, 24, 255, 4095}[r.Intn(11)]
			}
		}
		m := msgOf(e, r.Intn(8))
		e.Rcode = m.Rcode
		e.Text = hx.FromString(m.String())
		seen[fmt.Sprint("m", word, e.Counts, e.Opt, e.Rcode)] = true
		w.Emit(e)
		sum.Evaluations++
		if k%499 == 0 {
			sum.Sample(e)
		}
	}
	w.Close()
	sum.Nontrivial = len(seen)
	sum.Print()
}

// msgOf builds the message of a "msg" event: header from the real Unpack of <<id, w>>, counts[i] records per
// section, one additional record replaced by an OPT when opt, Rcode as recorded.
func msgOf(e *event, optAt int) *dns.Msg {
	m := hdrOf(e.Id, e.W)
	for i := 0; i < e.Counts[0]; i++ {
		m.Question = append(m.Question, dns.Question{Name: "q.example.", Qtype: dns.TypeA, Qclass: dns.ClassINET})
	}
	for i := 0; i < e.Counts[1]; i++ {
		m.Answer = append(m.Answer, aRec("an.example."))
	}
	for i := 0; i < e.Counts[2]; i++ {
		m.Ns = append(m.Ns, aRec("ns.example."))
	}
	for i := 0; i < e.Counts[3]; i++ {
		m.Extra = append(m.Extra, aRec("ar.example."))
	}
	if e.Opt {
		o := new(dns.OPT)
		o.Hdr.Name, o.Hdr.Rrtype = ".", dns.TypeOPT
		o.SetUDPSize(1232)
		m.Extra[optAt%len(m.Extra)] = o
	}
	m.Rcode = e.Rcode
	return m
}

func reexec(in, out string) {
	var sum hx.Summary
	w := hx.NewWriter(out)
	hx.ReadNDJSON(in, func(i int, e *event) {
		switch e.Ev {
		case "hdr":
			m := hdrOf(e.Id, e.W)
			m.Rcode = e.Rcode
			e.Text = hx.FromString(m.MsgHdr.String())
		case "msg":
			e.Text = hx.FromString(msgOf(e, 0).String())
		default:
			hx.Die("unknown event %q", e.Ev)
		}
		if e.Counts == nil {
			e.Counts = []int{}
		}
		w.Emit(e)
		sum.Evaluations++
	})
	w.Close()
	sum.Print()
}
