// Command update binds spec/Update.tla to update.go (extra check X02).
//
//	update replay <vectors.ndjson> <trace-out.ndjson>
//	      TLC vectors (helper x zone class x record headers, expected section / TYPE / CLASS / TTL /
//	      has-RDATA): call the real helper on records of the zoo, compare the records it put into the
//	      message with the spec's expectation, Pack, and log the octets for Trace_Update
//	update record <out.ndjson> <n>
//	      random sequences of helper calls on random zoo records; SetUpdate + Pack; logged for Trace_Update
package main

import (
	"fmt"
	"os"
	"strconv"

	"github.com/miekg/dns"

	"verifharness/lib/hx"
	"verifharness/lib/zoo"
)

type expRR struct {
	Type  int   `json:"type"`
	Class int   `json:"class"`
	Ttl   []int `json:"ttl"`
	Rdata bool  `json:"rdata"`
}

type vec struct {
	Kind   string          `json:"kind"`
	H      string          `json:"h"`
	Zclass int             `json:"zclass"`
	Recs   [][]interface{} `json:"recs"` // [type, class, [ttl octets]]
	Sec    string          `json:"sec"`
	Exp    []expRR         `json:"exp"`
}

type call struct {
	H     string `json:"h"`
	Origs []hx.B `json:"origs"`
}

type event struct {
	Ev     string `json:"ev"`
	Id     int    `json:"id"`
	Zone   hx.B   `json:"zone"`
	Zclass int    `json:"zclass"`
	Calls  []call `json:"calls"`
	Ok     bool   `json:"ok"`
	Err    string `json:"err"`
	Wire   hx.B   `json:"wire"`
}

func apply(m *dns.Msg, h string, rrs []dns.RR) {
	switch h {
	case "NameUsed":
		m.NameUsed(rrs)
	case "NameNotUsed":
		m.NameNotUsed(rrs)
	case "Used":
		m.Used(rrs)
	case "RRsetUsed":
		m.RRsetUsed(rrs)
	case "RRsetNotUsed":
		m.RRsetNotUsed(rrs)
	case "Insert":
		m.Insert(rrs)
	case "RemoveRRset":
		m.RemoveRRset(rrs)
	case "RemoveName":
		m.RemoveName(rrs)
	case "Remove":
		m.Remove(rrs)
	default:
		hx.Die("unknown helper %q", h)
	}
}

var helpers = []string{"NameUsed", "NameNotUsed", "Used", "RRsetUsed", "RRsetNotUsed", "Insert", "RemoveRRset", "RemoveName", "Remove"}

func packRR(rr dns.RR) []byte {
	buf := make([]byte, 65535)
	off, err := dns.PackRR(rr, buf, 0, nil, false)
	if err != nil {
		hx.Die("zoo record %v does not pack: %v", rr, err)
	}
	return buf[:off]
}

func ttl4(t uint32) []int { return []int{int(t >> 24), int(t >> 16 & 255), int(t >> 8 & 255), int(t & 255)} }

func main() {
	if len(os.Args) < 4 {
		hx.Die("usage: update replay <vectors> <trace-out> | record <out> <n>")
	}
	switch os.Args[1] {
	case "replay":
		replay(os.Args[2], os.Args[3])
	case "record":
		n, _ := strconv.Atoi(os.Args[3])
		record(os.Args[2], n)
	case "reexec": // reexec <events-in> <events-out>
		reexec(os.Args[2], os.Args[3])
	default:
		hx.Die("unknown mode %s", os.Args[1])
	}
}

func byType(all []dns.RR) map[uint16]dns.RR {
	m := map[uint16]dns.RR{}
	for _, rr := range all {
		if _, ok := m[rr.Header().Rrtype]; !ok && rr.Header().Class == dns.ClassINET {
			m[rr.Header().Rrtype] = rr
		}
	}
	return m
}

func num(x interface{}) int { return int(x.(float64)) }

func replay(path, out string) {
	var sum hx.Summary
	seen := map[string]bool{}
	all, err := zoo.All("host.example.org.")
	if err != nil {
		hx.Die("%v", err)
	}
	bt := byType(all)
	w := hx.NewWriter(out)
	hx.ReadNDJSON(path, func(i int, v *vec) {
		sum.Evaluations++
		if p := hx.Catch(func() { one(v, bt, w, &sum, seen, i) }); p != "" {
			sum.Mis("update/panic:"+v.H, "panic: "+p, v)
		}
		if i%997 == 0 {
			sum.Sample(v)
		}
	})
	w.Close()
	sum.Nontrivial = len(seen)
	sum.Print()
}

func one(v *vec, bt map[uint16]dns.RR, w *hx.Writer, sum *hx.Summary, seen map[string]bool, i int) {
	const zone = "example.org."
	m := new(dns.Msg)
	m.SetUpdate(zone)
	m.Id = uint16(i*7919 + 1)
	m.Question[0].Qclass = uint16(v.Zclass)
	var rrs []dns.RR
	c := call{H: v.H}
	for _, r := range v.Recs {
		src, ok := bt[uint16(num(r[0]))]
		if !ok {
			hx.Die("the zoo has no record of type %d", num(r[0]))
		}
		rr := dns.Copy(src)
		rr.Header().Class = uint16(num(r[1]))
		t := r[2].([]interface{})
		rr.Header().Ttl = uint32(num(t[0]))<<24 | uint32(num(t[1]))<<16 | uint32(num(t[2]))<<8 | uint32(num(t[3]))
		c.Origs = append(c.Origs, hx.FromBytes(packRR(rr)))
		rrs = append(rrs, rr)
	}
	seen[fmt.Sprint(v.H, v.Zclass, v.Recs)] = true
	apply(m, v.H, rrs)
	got, other, oname := m.Answer, m.Ns, "authority"
	if v.Sec == "ns" {
		got, other, oname = m.Ns, m.Answer, "answer"
	}
	if len(got) != len(v.Exp) || len(other) != 0 || len(m.Extra) != 0 {
		sum.Mis("update/"+v.H+":section", fmt.Sprintf("%s put %d records into section %q and %d into %s, spec %d and 0",
			v.H, len(got), v.Sec, len(other), oname, len(v.Exp)), v)
		return
	}
	for k, e := range v.Exp {
		h := got[k].Header()
		ownerLen := len(packRR(&dns.ANY{Hdr: dns.RR_Header{Name: h.Name, Rrtype: 255, Class: 255}})) - 10
		rdlen := len(packRR(got[k])) - ownerLen - 10
		what := func(f string) string {
			return fmt.Sprintf("%s record %d: %s: got type=%d class=%d ttl=%d rdlength=%d, spec %+v", v.H, k+1, f, h.Rrtype, h.Class, h.Ttl, rdlen, e)
		}
		switch {
		case h.Name != "host.example.org.":
			sum.Mis("update/"+v.H+":owner", what("owner "+h.Name), v)
		case int(h.Rrtype) != e.Type:
			sum.Mis("update/"+v.H+":type", what("TYPE"), v)
		case int(h.Class) != e.Class:
			sum.Mis("update/"+v.H+":class", what("CLASS"), v)
		case fmt.Sprint(ttl4(h.Ttl)) != fmt.Sprint(e.Ttl):
			sum.Mis("update/"+v.H+":ttl", what("TTL"), v)
		case (rdlen > 0) != e.Rdata:
			sum.Mis("update/"+v.H+":rdata", what("RDATA presence"), v)
		}
	}
	ev := &event{Ev: "update", Id: int(m.Id), Zone: hx.FromString(zone), Zclass: v.Zclass, Calls: []call{c}}
	wire, err := m.Pack()
	ev.Ok = err == nil
	if err != nil {
		ev.Err = err.Error()
	}
	ev.Wire = hx.FromBytes(wire)
	w.Emit(ev)
}

func record(out string, n int) {
	r := hx.Rand()
	w := hx.NewWriter(out)
	var sum hx.Summary
	seen := map[string]bool{}
	pools := map[string][]dns.RR{}
	for _, o := range zoo.Owners {
		all, err := zoo.All(o)
		if err != nil {
			hx.Die("%v", err)
		}
		pools[o] = all
	}
	zones := []string{"example.org.", "org.", ".", "EXAMPLE.Org.", "other.test."}
	for w.N < n {
		zone := zones[r.Intn(len(zones))]
		m := new(dns.Msg)
		m.SetUpdate(zone)
		zclass := int(m.Question[0].Qclass)
		if r.Intn(3) == 0 {
			zclass = []int{1, 3, 4}[r.Intn(3)]
			m.Question[0].Qclass = uint16(zclass)
		}
		ev := &event{Ev: "update", Id: int(m.Id), Zone: hx.FromString(zone), Zclass: zclass, Calls: []call{}}
		for k := r.Intn(4); k >= 0; k-- {
			c := call{H: helpers[r.Intn(len(helpers))], Origs: []hx.B{}}
			var rrs []dns.RR
			for j := r.Intn(3); j >= 0; j-- {
				pool := pools[zoo.Owners[r.Intn(len(zoo.Owners))]]
				rr := dns.Copy(pool[r.Intn(len(pool))]) // a fresh copy per call: the helpers write into their arguments
				switch r.Intn(4) {
				case 0:
					rr.Header().Ttl = 0
				case 1:
					rr.Header().Ttl = r.Uint32()
				}
				if r.Intn(4) == 0 {
					rr.Header().Class = []uint16{1, 3, 4, 254, 255}[r.Intn(5)]
				}
				c.Origs = append(c.Origs, hx.FromBytes(packRR(rr)))
				rrs = append(rrs, rr)
				seen[c.H+"/"+strconv.Itoa(int(rr.Header().Rrtype))] = true
			}
			if p := hx.Catch(func() { apply(m, c.H, rrs) }); p != "" {
				sum.Mis("update/panic:"+c.H, "panic: "+p, ev)
			}
			ev.Calls = append(ev.Calls, c)
		}
		wire, err := m.Pack()
		ev.Ok = err == nil
		if err != nil {
			ev.Err = err.Error()
		}
		ev.Wire = hx.FromBytes(wire)
		w.Emit(ev)
		sum.Evaluations++
		if w.N%499 == 1 {
			sum.Sample(ev)
		}
	}
	w.Close()
	sum.Nontrivial = len(seen)
	sum.Print()
}

// reexec: rebuild the records of every call from their packed form, apply the real helpers, Pack again.
func reexec(in, out string) {
	var sum hx.Summary
	w := hx.NewWriter(out)
	hx.ReadNDJSON(in, func(i int, e *event) {
		m := new(dns.Msg)
		m.SetUpdate(e.Zone.String())
		m.Id = uint16(e.Id)
		m.Question[0].Qclass = uint16(e.Zclass)
		for _, c := range e.Calls {
			var rrs []dns.RR
			for _, o := range c.Origs {
				rr, _, err := dns.UnpackRR(o.Bytes(), 0)
				if err != nil {
					hx.Die("event %d: recorded record does not unpack: %v", i, err)
				}
				rrs = append(rrs, rr)
			}
			if p := hx.Catch(func() { apply(m, c.H, rrs) }); p != "" {
				sum.Mis("update/panic:"+c.H, "panic: "+p, e)
			}
		}
		wire, err := m.Pack()
		e.Ok, e.Err = err == nil, ""
		if err != nil {
			e.Err = err.Error()
		}
		e.Wire = hx.FromBytes(wire)
		w.Emit(e)
		sum.Evaluations++
	})
	w.Close()
	sum.Print()
}
