// Command names binds spec/Names.tla to the real code (properties C03, C19).
//
//	names replay <vectors.ndjson>      TLC-generated vectors -> real API, compare with the spec's results
//	names record <c03|c19> <out.ndjson> <n>   random cases through the real API, logged for Trace_Names
//	names rerun <events.ndjson> <out.ndjson>  the inputs of recorded events through the real API again (replay)
package main

import (
	"bytes"
	"fmt"
	"math/rand"
	"os"
	"reflect"
	"strconv"

	"github.com/miekg/dns"
	"github.com/miekg/dns/dnsutil"

	"verifharness/lib/hx"
)

type vec struct {
	Kind   string `json:"kind"`
	S      hx.B   `json:"s"`
	St     string `json:"st"`
	Fq     bool   `json:"fq"`
	IsFqdn bool   `json:"isfqdn"`
	Accept bool   `json:"accept"`
	Labels []hx.B `json:"labels"`
	Wire   hx.B   `json:"wire"`
	Text   hx.B   `json:"text"`
	Valid  bool   `json:"valid"`
	PText  hx.B   `json:"ptext"` // text of the name without its first label (context of packCtx)
	PValid bool   `json:"pvalid"`
	Lead   int    `json:"lead"`  // classification: leading labels of the name that are fine on their own
	PLead  int    `json:"plead"` // the same for the parent
	FText  hx.B   `json:"ftext"` // the name with every ASCII letter in the other case (library spelling), its octets, its parent
	FWire  hx.B   `json:"fwire"`
	FPText hx.B   `json:"fptext"`
	// helpers
	Count  int     `json:"count"`
	Split  []int   `json:"split"`
	Pieces []hx.B  `json:"pieces"`
	Prev   [][]int `json:"prev"`
	Next   [][]int `json:"next"`
	Canon  hx.B    `json:"canon"`
	Rel    hx.B    `json:"rel"`
	RelFq  bool    `json:"relfq"`
	IsFq   bool    `json:"isfq"`
	FqdnT  hx.B    `json:"fqdn"`
	// pairs
	A      hx.B `json:"a"`
	B      hx.B `json:"b"`
	Common int  `json:"common"`
	Sub    bool `json:"sub"`
	Joined hx.B `json:"joined"`
}

func class(labels []hx.B) string {
	tot := 1
	c := ""
	for _, l := range labels {
		tot += 1 + len(l)
		if len(l) > 63 {
			c = "label>63"
		}
		if len(l) == 0 {
			c = "empty-label"
		}
	}
	if c == "" && tot > 255 {
		c = "wirelen>255"
	}
	if c == "" {
		c = "other"
	}
	return c
}

func pack(s string) ([]byte, error) {
	buf := make([]byte, 1024)
	off, err := dns.PackDomainName(s, buf, 0, nil, false)
	if err != nil {
		return nil, err
	}
	return buf[:off], nil
}

func main() {
	if len(os.Args) < 3 {
		hx.Die("usage")
	}
	switch os.Args[1] {
	case "replay":
		replay(os.Args[2])
	case "record":
		n, _ := strconv.Atoi(os.Args[4])
		record(os.Args[2], os.Args[3], n)
	case "rerun":
		rerun(os.Args[2], os.Args[3])
	default:
		hx.Die("unknown mode %s", os.Args[1])
	}
}

func replay(path string) {
	var sum hx.Summary
	seen := map[string]bool{}
	hx.ReadNDJSON(path, func(i int, v *vec) {
		sum.Evaluations++
		if p := hx.Catch(func() { one(v, &sum, seen) }); p != "" {
			sum.Mis("names/panic:"+v.Kind, "panic: "+p, v)
		}
		if i%997 == 0 {
			sum.Sample(v)
		}
	})
	sum.Nontrivial = len(seen)
	sum.Print()
}

// expand reads the name at off in buf, following compression pointers, and returns it uncompressed
// (an independent reader: only the RFC 1035 s.4.1.4 framing, bounded hops).
func expand(buf []byte, off int) ([]byte, error) {
	var out []byte
	for hops := 0; ; {
		if off >= len(buf) {
			return nil, fmt.Errorf("offset %d beyond the %d octets written", off, len(buf))
		}
		c := int(buf[off])
		switch {
		case c == 0:
			return append(out, 0), nil
		case c < 64:
			if off+1+c > len(buf) {
				return nil, fmt.Errorf("label at %d runs past the octets written", off)
			}
			out = append(out, buf[off:off+1+c]...)
			off += 1 + c
		case c >= 192:
			if off+1 >= len(buf) {
				return nil, fmt.Errorf("pointer at %d cut short", off)
			}
			t := (c-192)<<8 | int(buf[off+1])
			if t >= off {
				return nil, fmt.Errorf("pointer at %d to %d does not point backwards", off, t)
			}
			if hops++; hops > 130 {
				return nil, fmt.Errorf("more than 130 pointers")
			}
			off = t
		default:
			return nil, fmt.Errorf("reserved label type %#x at %d", c, off)
		}
	}
}

// ctxStarts: where in the buffer the sequences of packCtx begin.  12 is behind a message header; PackDomainName / PackRR
// are public and are given buffers of their own, so a name (and with it the target of a compression pointer) may sit at
// offset 0 or 1, astride the one-octet limit of the pointer's low half (255 / 256), and astride the largest offset a
// pointer can hold (16383): the names packed from 16370 on lie partly beyond it.
var ctxStarts = []int{12, 0, 1, 255, 16370}

// packCtx packs, with compression and ONE compression map as a message would, the parent of a name, the name,
// and the name again.  Whether a name is accepted may not depend on what the map holds (C03: the packer accepts
// exactly the valid names, so the library never emits a name it would itself reject), a refused name may leave
// nothing behind, and what is written must expand to the name's wire form - wherever in the buffer the sequence
// begins (ctxStarts), and also when the names that went before spell the shared labels in the other letter case
// (sequence flipped-parent, name, flipped, name again: a pointer stands for the octets it points at, so it may only
// replace labels that are octet for octet the same).
func packCtx(v *vec, text string, valid bool, wire []byte, cls string, sum *hx.Summary) {
	_ = cls
	for _, start := range ctxStarts {
		packCtxAt(v, text, valid, wire, start, false, sum)
		if valid && len(v.FText) > 0 && (len(v.PText) == 0 || v.PValid) {
			packCtxAt(v, text, valid, wire, start, true, sum)
		}
	}
}

func packCtxAt(v *vec, text string, valid bool, wire []byte, start int, flipped bool, sum *hx.Summary) {
	buf := make([]byte, start+4096)
	m := map[string]int{}
	off := start
	at := "" // where the sequence begins: part of the finding key unless it is the usual place
	if start != 12 {
		at = fmt.Sprintf("@%d", start)
	}
	stop := false
	hist := "clean-map" // what the shared map has been through: part of the finding key
	step := func(tag, name string, want bool, w []byte, lead int) {
		if stop {
			return
		}
		o2, err := dns.PackDomainName(name, buf, off, m, true)
		tag = tag + ":" + hist + at
		if err != nil {
			if lead > 0 {
				hist = "after-refusal-behind-good-labels"
			} else if hist == "clean-map" {
				hist = "after-refusal-at-first-label"
			}
			if start != 12 {
				// what a refusal leaves in the map is looked at (and known to be wrong) at offset 12; elsewhere the
				// sequence ends with the first refusal
				stop = true
			}
		}
		if (err == nil) != want {
			k := "names/pack-ctx-rejects-valid:" + tag
			if err == nil {
				k = "names/pack-ctx-accepts-invalid:" + tag
			}
			sum.Mis(k, fmt.Sprintf("PackDomainName(%q, buf, %d, shared map, compress) as %s of the sequence beginning at %d: err=%v, spec accept=%v", name, off, tag, start, err, want), v)
		}
		if err != nil {
			return
		}
		if got, e := expand(buf[:o2], off); e != nil {
			sum.Mis("names/pack-ctx-unreadable:"+tag, fmt.Sprintf("octets written at %d for %q (%s): %v", off, name, tag, e), v)
		} else if want && w != nil && !bytes.Equal(got, w) {
			sum.Mis("names/pack-ctx-octets:"+tag, fmt.Sprintf("octets written at %d for %q (%s, sequence beginning at %d) expand to %v, spec %v", off, name, tag, start, got, w), v)
		} else if _, _, e := dns.UnpackDomainName(buf[:o2], off); e != nil && len(got) <= 255 {
			sum.Mis("names/pack-ctx-own-output-rejected:"+tag, fmt.Sprintf("UnpackDomainName refuses what PackDomainName wrote at %d for %q (%s): %v", off, name, tag, e), v)
		}
		off = o2
	}
	if flipped {
		// only for a valid name under a valid parent: every step is accepted, the octets are the spec's
		if len(v.FPText) > 0 {
			step("flipped-parent", v.FPText.String(), true, nil, 0)
		}
		step("name-behind-flipped-parent", text, true, wire, 0)
		step("flipped-behind-name", v.FText.String(), true, v.FWire.Bytes(), 0)
		step("again-behind-flipped", text, true, wire, 0)
		return
	}
	if len(v.PText) > 0 {
		step("parent", v.PText.String(), v.PValid, nil, v.PLead)
	}
	step("name", text, valid, wire, v.Lead)
	step("again", text, valid, wire, v.Lead)
}

func one(v *vec, sum *hx.Summary, seen map[string]bool) {
	switch v.Kind {
	case "string":
		s := v.S.String()
		if v.St != "undef" {
			seen["s:"+s] = true
		}
		if got := dns.IsFqdn(s); got != v.IsFqdn {
			sum.Mis("names/isfqdn", fmt.Sprintf("IsFqdn(%q)=%v, spec %v", s, got, v.IsFqdn), v)
		}
		if v.St == "undef" || len(s) == 0 {
			return
		}
		w, err := pack(s)
		if !v.IsFqdn {
			if err == nil {
				sum.Mis("names/pack-accepts-non-fqdn", fmt.Sprintf("PackDomainName(%q) accepted a name that is not fully qualified", s), v)
			}
			return
		}
		_, ok := dns.IsDomainName(s)
		if ok != v.Accept {
			k := "names/isdomainname-rejects-valid"
			if ok {
				k = "names/isdomainname-accepts-invalid:" + badClass(v)
			}
			sum.Mis(k, fmt.Sprintf("IsDomainName(%q)=%v, spec %v", s, ok, v.Accept), v)
		}
		if (err == nil) != v.Accept {
			k := "names/pack-rejects-valid"
			if err == nil {
				k = "names/pack-accepts-invalid:" + badClass(v)
			}
			sum.Mis(k, fmt.Sprintf("PackDomainName(%q) err=%v, spec accept=%v", s, err, v.Accept), v)
		}
		if v.Accept && err == nil && !bytes.Equal(w, v.Wire.Bytes()) {
			sum.Mis("names/pack-octets", fmt.Sprintf("PackDomainName(%q)=%v, spec %v", s, w, v.Wire), v)
		}
		var wv []byte
		if v.Accept {
			wv = v.Wire.Bytes()
		}
		packCtx(v, s, v.Accept, wv, badClass(v), sum)
	case "name":
		seen["n:"+v.Text.String()] = true
		text := v.Text.String()
		wire := v.Wire.Bytes()
		// unpacker on the spec's wire octets
		got, off, err := dns.UnpackDomainName(wire, 0)
		if v.Valid {
			if err != nil {
				sum.Mis("names/unpack-rejects-valid", fmt.Sprintf("UnpackDomainName of a valid %d-octet name: %v", len(wire), err), v)
			} else if got != text || off != len(wire) {
				sum.Mis("names/unpack-text", fmt.Sprintf("UnpackDomainName gave %q off=%d, spec %q off=%d", got, off, text, len(wire)), v)
			}
		} else if err == nil {
			sum.Mis("names/unpack-accepts-invalid:"+class(v.Labels), fmt.Sprintf("UnpackDomainName accepted an invalid name (%d wire octets)", len(wire)), v)
		}
		// the judges on the spec's text
		_, ok := dns.IsDomainName(text)
		if ok != v.Valid {
			k := "names/isdomainname-rejects-valid"
			if ok {
				k = "names/isdomainname-accepts-invalid:" + class(v.Labels)
			}
			sum.Mis(k, fmt.Sprintf("IsDomainName(text of %d wire octets)=%v, spec %v", len(wire), ok, v.Valid), v)
		}
		w, err := pack(text)
		if (err == nil) != v.Valid {
			k := "names/pack-rejects-valid"
			if err == nil {
				k = "names/pack-accepts-invalid:" + class(v.Labels)
			}
			sum.Mis(k, fmt.Sprintf("PackDomainName(text of %d wire octets) err=%v, spec valid=%v", len(wire), err, v.Valid), v)
		}
		if v.Valid && err == nil && !bytes.Equal(w, wire) {
			sum.Mis("names/pack-octets", fmt.Sprintf("PackDomainName(%q) differs from the spec's octets", text), v)
		}
		packCtx(v, text, v.Valid, wire, class(v.Labels), sum)
		if v.Valid {
			if !dns.IsFqdn(text) {
				sum.Mis("names/isfqdn", fmt.Sprintf("IsFqdn(%q)=false", text), v)
			}
			if dns.Name(text).String() != text {
				sum.Mis("names/name-string", fmt.Sprintf("Name(%q).String()=%q", text, dns.Name(text).String()), v)
			}
		}
	case "helpers":
		t := v.Text.String()
		seen["h:"+t] = true
		helpers(v, t, sum)
	case "pair":
		a, b := v.A.String(), v.B.String()
		seen["p:"+a+"|"+b] = true
		if got := dns.CompareDomainName(a, b); got != v.Common {
			sum.Mis("labels/compare", fmt.Sprintf("CompareDomainName(%q,%q)=%d, spec %d", a, b, got, v.Common), v)
		}
		if got := dns.CompareDomainName(b, a); got != v.Common {
			sum.Mis("labels/compare-asym", fmt.Sprintf("CompareDomainName(%q,%q)=%d, spec %d", b, a, got, v.Common), v)
		}
		if got := dns.IsSubDomain(a, b); got != v.Sub {
			sum.Mis("labels/issubdomain", fmt.Sprintf("IsSubDomain(%q,%q)=%v, spec %v", a, b, got, v.Sub), v)
		}
		if a != "." && b != "." { // both names spelled relative (final dot removed): the label sequences are the same
			ra, rb := a[:len(a)-1], b[:len(b)-1]
			if !dns.IsFqdn(ra) && !dns.IsFqdn(rb) {
				if got := dns.CompareDomainName(ra, rb); got != v.Common {
					sum.Mis("labels/compare:relative", fmt.Sprintf("CompareDomainName(%q,%q)=%d, spec %d", ra, rb, got, v.Common), v)
				}
				if got := dns.IsSubDomain(ra, rb); got != v.Sub {
					sum.Mis("labels/issubdomain:relative", fmt.Sprintf("IsSubDomain(%q,%q)=%v, spec %v", ra, rb, got, v.Sub), v)
				}
			}
		}
		if a != "." { // relative spelling of a under origin b
			rel := a[:len(a)-1]
			if !dns.IsFqdn(rel) {
				j := dnsutil.AddOrigin(rel, b)
				if j != v.Joined.String() {
					sum.Mis("dnsutil/addorigin", fmt.Sprintf("AddOrigin(%q,%q)=%q, spec %q", rel, b, j, v.Joined.String()), v)
				} else if back := dnsutil.TrimDomainName(j, b); back != rel {
					sum.Mis("dnsutil/trim-inverse", fmt.Sprintf("TrimDomainName(AddOrigin(%q,%q))=%q", rel, b, back), v)
				}
			}
		}
	default:
		hx.Die("unknown vector kind %q", v.Kind)
	}
}

func badClass(v *vec) string {
	if v.St == "bad" {
		return "empty-label"
	}
	return class(v.Labels)
}

func helpers(v *vec, t string, sum *hx.Summary) {
	if got := dns.CountLabel(t); got != v.Count {
		sum.Mis("labels/countlabel", fmt.Sprintf("CountLabel(%q)=%d, spec %d", t, got, v.Count), v)
	}
	got := dns.Split(t)
	if len(got) == 0 && len(v.Split) == 0 {
	} else if !reflect.DeepEqual(got, v.Split) {
		sum.Mis("labels/split", fmt.Sprintf("Split(%q)=%v, spec %v", t, got, v.Split), v)
	}
	pcs := dns.SplitDomainName(t)
	if len(pcs) != len(v.Pieces) {
		sum.Mis("labels/splitdomainname", fmt.Sprintf("SplitDomainName(%q)=%q, spec %d pieces", t, pcs, len(v.Pieces)), v)
	} else {
		for i := range pcs {
			if pcs[i] != v.Pieces[i].String() {
				sum.Mis("labels/splitdomainname", fmt.Sprintf("SplitDomainName(%q)=%q, spec piece %d = %q", t, pcs, i, v.Pieces[i].String()), v)
				break
			}
		}
	}
	for k, e := range v.Prev { // k labels from the right
		if t == "." && k > 0 {
			continue // no labels to step over
		}
		i, start := dns.PrevLabel(t, k)
		if i != e[0] || start != (e[1] == 1) {
			sum.Mis("labels/prevlabel", fmt.Sprintf("PrevLabel(%q,%d)=(%d,%v), spec (%d,%v)", t, k, i, start, e[0], e[1] == 1), v)
			break
		}
	}
	for k, e := range v.Next {
		i, end := dns.NextLabel(t, v.Split[k])
		if i != e[0] || end != (e[1] == 1) {
			sum.Mis("labels/nextlabel", fmt.Sprintf("NextLabel(%q,%d)=(%d,%v), spec (%d,%v)", t, v.Split[k], i, end, e[0], e[1] == 1), v)
			break
		}
	}
	if got := dns.CanonicalName(t); got != v.Canon.String() {
		sum.Mis("names/canonicalname", fmt.Sprintf("CanonicalName(%q)=%q, spec %q", t, got, v.Canon.String()), v)
	}
	if got := dns.Fqdn(t); got != v.FqdnT.String() {
		sum.Mis("names/fqdn", fmt.Sprintf("Fqdn(%q)=%q, spec %q", t, got, v.FqdnT.String()), v)
	}
	if got := dns.IsFqdn(t); got != v.IsFq {
		sum.Mis("names/isfqdn", fmt.Sprintf("IsFqdn(%q)=%v, spec %v", t, got, v.IsFq), v)
	}
	if len(v.Rel) > 0 && !v.RelFq {
		r := v.Rel.String()
		if dns.IsFqdn(r) {
			sum.Mis("names/isfqdn", fmt.Sprintf("IsFqdn(%q)=true", r), v)
		}
		if got := dns.Fqdn(r); got != t {
			sum.Mis("names/fqdn", fmt.Sprintf("Fqdn(%q)=%q, spec %q", r, got, t), v)
		}
		if got := dns.CanonicalName(r); got != v.Canon.String() {
			sum.Mis("names/canonicalname", fmt.Sprintf("CanonicalName(%q)=%q", r, got), v)
		}
		if got := dns.CountLabel(r); got != v.Count {
			sum.Mis("labels/countlabel", fmt.Sprintf("CountLabel(%q)=%d, spec %d", r, got, v.Count), v)
		}
		pcs := dns.SplitDomainName(r)
		if len(pcs) != len(v.Pieces) {
			sum.Mis("labels/splitdomainname", fmt.Sprintf("SplitDomainName(%q)=%q", r, pcs), v)
		}
	}
}

// ---------------------------------------------------------------- record

type evUnpack struct {
	Ev    string `json:"ev"`
	Wire  hx.B   `json:"wire"`
	Off   int    `json:"off"`
	Ok    bool   `json:"ok"`
	Text  hx.B   `json:"text"`
	Next  int    `json:"next"`
	Ok2   bool   `json:"ok2"`   // PackDomainName(text) succeeded
	Wire2 hx.B   `json:"wire2"` // and produced these octets
	IsDN  bool   `json:"isdn"`  // IsDomainName(text)
}

// respell: a name written in a random mix of the spellings a text may use for each octet (the octet itself, \c, \DDD),
// whether or not UnpackDomainName would write it so, given to the real packer and the real IsDomainName
type evRespell struct {
	Ev   string `json:"ev"`
	Text hx.B   `json:"text"`
	Ok   bool   `json:"ok"`   // PackDomainName(text) succeeded
	Wire hx.B   `json:"wire"` // and produced these octets
	IsDN bool   `json:"isdn"` // IsDomainName(text)
}

// packseq: several names packed one behind the other into one buffer with one compression map, as the RRs of a message
// are, beginning at any offset (PackDomainName and PackRR are public: offset 0 is as good as 12).  TLC reads each name
// back out of the octets (Names!DecName follows the pointers) and compares with what the one reader of text reads.
type seqItem struct {
	Text     hx.B `json:"text"`
	Compress bool `json:"compress"`
	Off      int  `json:"off"` // where the name was put
	Ok       bool `json:"ok"`
	End      int  `json:"end"` // the offset PackDomainName returned
}

type evPackSeq struct {
	Ev    string    `json:"ev"`
	Start int       `json:"start"`
	Items []seqItem `json:"items"`
	Wire  hx.B      `json:"wire"` // the octets from Start on
}

type evHelpers struct {
	Ev     string  `json:"ev"`
	Text   hx.B    `json:"text"`
	Count  int     `json:"count"`
	Split  []int   `json:"split"`
	Pieces []hx.B  `json:"pieces"`
	Prev   [][]int `json:"prev"`
	Next   [][]int `json:"next"`
	Canon  hx.B    `json:"canon"`
}

type evCompare struct {
	Ev  string `json:"ev"`
	A   hx.B   `json:"a"`
	B   hx.B   `json:"b"`
	N   int    `json:"n"`
	Sub bool   `json:"sub"`
}

// The observations: inputs -> the real code's results.  `record` applies them to random inputs, `rerun` to the inputs of
// events recorded earlier (replay of a finding against the code as it is now).
func obsUnpack(wire []byte, off int) evUnpack {
	e := evUnpack{Ev: "unpack", Wire: hx.FromBytes(wire), Off: off}
	s, next, err := dns.UnpackDomainName(wire, off)
	e.Ok = err == nil
	if err == nil {
		e.Text, e.Next = hx.FromString(s), next
		_, e.IsDN = dns.IsDomainName(s)
		if w2, err := pack(s); err == nil {
			e.Ok2, e.Wire2 = true, hx.FromBytes(w2)
		}
	}
	return e
}

func obsRespell(s string) evRespell {
	e := evRespell{Ev: "respell", Text: hx.FromString(s)}
	_, e.IsDN = dns.IsDomainName(s)
	if w2, err := pack(s); err == nil {
		e.Ok, e.Wire = true, hx.FromBytes(w2)
	}
	return e
}

func obsPackSeq(start int, texts []string, compress []bool) evPackSeq {
	e := evPackSeq{Ev: "packseq", Start: start, Items: []seqItem{}}
	n := start + 16
	for _, t := range texts {
		n += len(t) + 2
	}
	buf := make([]byte, n)
	m := map[string]int{}
	off := start
	for i, t := range texts {
		it := seqItem{Text: hx.FromString(t), Compress: compress[i], Off: off}
		o2, err := dns.PackDomainName(t, buf, off, m, compress[i])
		if err == nil {
			it.Ok, it.End = true, o2
			off = o2
		}
		e.Items = append(e.Items, it)
		if err != nil {
			break // what a refused name leaves in the map is another matter (known-findings.d/C03.txt)
		}
	}
	e.Wire = hx.FromBytes(buf[start:off])
	return e
}

func obsHelpers(s string) evHelpers {
	e := evHelpers{Ev: "helpers", Text: hx.FromString(s), Count: dns.CountLabel(s), Split: dns.Split(s), Canon: hx.FromString(dns.CanonicalName(s))}
	if e.Split == nil {
		e.Split = []int{}
	}
	e.Pieces = []hx.B{}
	for _, p := range dns.SplitDomainName(s) {
		e.Pieces = append(e.Pieces, hx.FromString(p))
	}
	e.Prev, e.Next = [][]int{}, [][]int{}
	if s != "." {
		for k := 0; k <= e.Count+1; k++ {
			i, st := dns.PrevLabel(s, k)
			e.Prev = append(e.Prev, []int{i, b2i(st)})
		}
	}
	for _, o := range e.Split {
		i, end := dns.NextLabel(s, o)
		e.Next = append(e.Next, []int{i, b2i(end)})
	}
	return e
}

func obsCompare(sa, sb string) evCompare {
	return evCompare{Ev: "compare", A: hx.FromString(sa), B: hx.FromString(sb), N: dns.CompareDomainName(sa, sb), Sub: dns.IsSubDomain(sb, sa)}
}

// rerun: the inputs of recorded events through the real code again
func rerun(in, out string) {
	type anyEv struct {
		Ev    string    `json:"ev"`
		Wire  hx.B      `json:"wire"`
		Off   int       `json:"off"`
		Text  hx.B      `json:"text"`
		A     hx.B      `json:"a"`
		B     hx.B      `json:"b"`
		Start int       `json:"start"`
		Items []seqItem `json:"items"`
	}
	w := hx.NewWriter(out)
	defer w.Close()
	var sum hx.Summary
	hx.ReadNDJSON(in, func(i int, e *anyEv) {
		sum.Evaluations++
		if p := hx.Catch(func() {
			switch e.Ev {
			case "unpack":
				w.Emit(obsUnpack(e.Wire.Bytes(), e.Off))
			case "respell":
				w.Emit(obsRespell(e.Text.String()))
			case "helpers":
				w.Emit(obsHelpers(e.Text.String()))
			case "compare":
				w.Emit(obsCompare(e.A.String(), e.B.String()))
			case "packseq":
				var ts []string
				var cs []bool
				for _, it := range e.Items {
					ts, cs = append(ts, it.Text.String()), append(cs, it.Compress)
				}
				w.Emit(obsPackSeq(e.Start, ts, cs))
			default:
				hx.Die("rerun: unknown event %q", e.Ev)
			}
		}); p != "" {
			sum.Mis("names/panic:record-rerun", "panic while re-running a recorded "+e.Ev+" event: "+p, e)
		}
	})
	sum.Note("events", w.N)
	sum.Print()
}

func b2i(b bool) int {
	if b {
		return 1
	}
	return 0
}

// spell writes labels as text: the characters that are syntax with a backslash, the octets outside 0x20..0x7e as \DDD
// (raw = false: what UnpackDomainName writes) or as they are (raw = true: what a zone file in UTF-8 or Latin-1 holds -
// to every reader of names in the library a text is a string of octets, never of runes).
func spell(ls [][]byte, raw bool) string {
	if len(ls) == 0 {
		return "."
	}
	var t []byte
	for _, l := range ls {
		for _, c := range l {
			switch {
			case bytes.IndexByte([]byte(". '@;()\"\\"), c) >= 0:
				t = append(t, '\\', c)
			case (c < 32 || c > 126) && !raw:
				t = append(t, '\\', '0'+c/100, '0'+c/10%10, '0'+c%10)
			default:
				t = append(t, c)
			}
		}
		t = append(t, '.')
	}
	return string(t)
}

// uniSnips: octet strings that are letters to a reader of UTF-8 (with their other-case forms and the ASCII letters they
// fold to), octets that are no UTF-8 at all, and U+FFFD, which a decoder puts in their place
var uniSnips = []string{"\xc3\x89", "\xc3\xa9", "\x80", "\x81", "\xff", "\xe2\x84\xaa", "k", "K", "\xc5\xbf", "s", "S",
	"\xc4\xb0", "i", "I", "\xc4\xb1", "\xce\xa3", "\xcf\x83", "\xcf\x82", "\xef\xbf\xbd", "\xc2\x80", "a", "0"}

func uniLabel(r *rand.Rand) []byte {
	var b []byte
	for n := 1 + r.Intn(4); n > 0; n-- {
		b = append(b, uniSnips[r.Intn(len(uniSnips))]...)
	}
	return b
}

// otherSpelling: the label with some of its octets changed the way a reader of runes would think harmless: ASCII letters
// in the other case (that one IS harmless), octets above 0x7f with bit 0x20 flipped (the other case of a Latin-1 / Greek /
// Cyrillic letter in UTF-8) or replaced by another such octet, k and s by the KELVIN SIGN and the LONG S
func otherSpelling(l []byte, r *rand.Rand, ascii bool) []byte {
	c := append([]byte(nil), l...)
	for x := range c {
		if r.Intn(3) != 0 {
			continue
		}
		switch {
		case c[x] >= 'a' && c[x] <= 'z':
			c[x] -= 32
		case c[x] >= 'A' && c[x] <= 'Z':
			c[x] += 32
		case c[x] >= 128 && !ascii && r.Intn(2) == 0:
			c[x] ^= 0x20
		case c[x] >= 128 && !ascii && r.Intn(4) == 0:
			c[x] = byte(128 + r.Intn(128))
		}
	}
	if !ascii && r.Intn(8) == 0 {
		c = bytes.ReplaceAll(c, []byte("k"), []byte("\xe2\x84\xaa"))
		c = bytes.ReplaceAll(c, []byte("s"), []byte("\xc5\xbf"))
	}
	if len(c) > 63 {
		return append([]byte(nil), l...)
	}
	return c
}

func wireLen(ls [][]byte) int {
	n := 1
	for _, l := range ls {
		n += 1 + len(l)
	}
	return n
}

func record(which, out string, n int) {
	r := hx.Rand()
	w := hx.NewWriter(out)
	defer w.Close()
	var sum hx.Summary
	seen := map[string]bool{}
	lens := []int{1, 1, 2, 3, 5, 8, 20, 40, 61, 62, 63}
	randLabel := func(max int) []byte {
		l := lens[r.Intn(len(lens))]
		if r.Intn(4) == 0 {
			l = 1 + r.Intn(63)
		}
		if l > max {
			l = max
		}
		b := make([]byte, l)
		mode := r.Intn(4)
		for i := range b {
			switch mode {
			case 0:
				b[i] = byte(r.Intn(256))
			case 1:
				b[i] = "aZ09.\\ \"();@'$-_"[r.Intn(16)]
			case 2:
				b[i] = byte('a' + r.Intn(26))
			default:
				b[i] = []byte{0, 31, 32, 46, 92, 126, 127, 255, 'A', 'z'}[r.Intn(10)]
			}
		}
		return b
	}
	randName := func(target int) [][]byte { // labels with 1+sum(len+1) close to target
		var ls [][]byte
		tot := 1
		for tot < target {
			room := target - tot - 1
			if room < 1 {
				break
			}
			if room > 63 {
				room = 63
			}
			l := randLabel(room)
			ls = append(ls, l)
			tot += 1 + len(l)
			if r.Intn(6) == 0 {
				break
			}
		}
		return ls
	}
	// crowdName: labels of one octet (some of two or three), as many as fit: the label COUNT nears its maximum of 127
	// together with the octet count (randName stops after six labels on average)
	crowdName := func(target int) [][]byte {
		var ls [][]byte
		kind := r.Intn(3)
		tot := 1
		for tot+2 <= target {
			l := 1
			if kind == 1 && r.Intn(8) == 0 {
				l = 2
			} else if kind == 2 {
				l = 1 + r.Intn(3)
			}
			if tot+1+l > target {
				l = target - tot - 1
			}
			ls = append(ls, randLabel(l))
			tot += 1 + l
		}
		return ls
	}
	enc := func(ls [][]byte) []byte {
		var b []byte
		for _, l := range ls {
			b = append(b, byte(len(l)))
			b = append(b, l...)
		}
		return append(b, 0)
	}
	for i := 0; i < n; i++ {
		sum.Evaluations++
		if p := hx.Catch(func() { recordOne(which, i, r, w, &sum, seen, randName, crowdName, enc) }); p != "" {
			sum.Mis("names/panic:record-"+which, "panic while recording: "+p, map[string]interface{}{"which": which, "i": i})
		}
	}
	sum.Nontrivial = len(seen)
	sum.Note("events", w.N)
	sum.Print()
}

func recordOne(which string, i int, r *rand.Rand, w *hx.Writer, sump *hx.Summary, seen map[string]bool,
	randName, crowdName func(int) [][]byte, enc func([][]byte) []byte) {
	sum := sump
	{
		switch which {
		case "c03":
			target := []int{3, 10, 60, 200, 250, 253, 254, 255, 256, 257, 260}[r.Intn(11)]
			ls := randName(target)
			if target >= 200 && r.Intn(16) == 0 {
				ls = crowdName(target)
			}
			if i%8 == 5 {
				// names packed one behind the other over one compression map, beginning anywhere in the buffer: a base
				// name, names under it, under one of its parents, the same in other letter case, unrelated ones
				start := []int{0, 0, 1, 2, 12, 12, 254, 255, 256, r.Intn(600), r.Intn(600)}[r.Intn(11)]
				if r.Intn(24) == 0 {
					start = 16360 + r.Intn(30) // astride the largest offset a pointer can hold
				}
				base := randName([]int{5, 12, 30, 60}[r.Intn(4)])
				if len(base) == 0 {
					base = [][]byte{{byte('a' + r.Intn(26)), byte('A' + r.Intn(26))}}
				}
				flip := func(ls [][]byte) [][]byte {
					o := make([][]byte, len(ls))
					for j, l := range ls {
						o[j] = otherSpelling(l, r, true)
					}
					return o
				}
				var texts []string
				var comp []bool
				for j, k := 0, 2+r.Intn(4); j < k; j++ {
					var ls [][]byte
					kind := r.Intn(6)
					if j == 0 {
						kind = r.Intn(3)
					}
					switch kind {
					case 0:
						ls = base
					case 1:
						ls = append(randName(1+r.Intn(20)), base...)
					case 2:
						ls = flip(base)
					case 3:
						ls = append(randName(1+r.Intn(20)), flip(base[r.Intn(len(base)):])...)
					case 4:
						ls = base[r.Intn(len(base)+1):]
					default:
						ls = randName(1 + r.Intn(20))
					}
					if wireLen(ls) > 255 {
						continue
					}
					texts, comp = append(texts, spell(ls, r.Intn(8) == 0)), append(comp, r.Intn(8) != 0)
				}
				e := obsPackSeq(start, texts, comp)
				seen[fmt.Sprint(start, texts)] = true
				w.Emit(e)
				if i < 8 {
					sum.Sample(e)
				}
				return
			}
			if i%4 == 3 {
				// the text side: the same kind of name in a random spelling
				var t []byte
				for _, l := range ls {
					for _, c := range l {
						k := r.Intn(3)
						switch {
						case k == 0 && c != '.' && c != '\\':
							t = append(t, c)
						case k == 1 && (c < '0' || c > '9'): // \c with c a digit is not a spelling RFC 1035 defines
							t = append(t, '\\', c)
						default:
							t = append(t, '\\', '0'+c/100, '0'+c/10%10, '0'+c%10)
						}
					}
					t = append(t, '.')
				}
				if len(ls) == 0 {
					t = []byte(".")
				}
				s := string(t)
				e := obsRespell(s)
				seen["t:"+s] = true
				w.Emit(e)
				if i < 8 {
					sum.Sample(e)
				}
				return
			}
			wire := enc(ls)
			off := 0
			if r.Intn(5) == 0 && len(wire) < 200 { // name reached through a compression pointer
				pre := make([]byte, r.Intn(5))
				k := len(pre) + len(wire)
				front := randName(1 + r.Intn(30))
				var fb []byte
				for _, l := range front {
					fb = append(fb, byte(len(l)))
					fb = append(fb, l...)
				}
				wire = append(append(append(pre, wire...), fb...), 0xC0|byte(len(pre)>>8), byte(len(pre)))
				off = k
			}
			e := obsUnpack(wire, off)
			seen[string(wire)] = true
			w.Emit(e)
			if i < 3 {
				sum.Sample(e)
			}
		case "c19":
			if i%3 != 2 {
				ls := randName([]int{5, 12, 30, 80, 200, 255}[r.Intn(6)])
				if r.Intn(10) == 0 {
					ls = crowdName([]int{200, 253, 254, 255, 255}[r.Intn(5)])
				}
				if r.Intn(6) == 0 { // labels that are letters to a reader of UTF-8
					ls = nil
					for k := 1 + r.Intn(4); k > 0; k-- {
						ls = append(ls, uniLabel(r))
					}
				}
				s, _, err := dns.UnpackDomainName(enc(ls), 0)
				if err != nil {
					hx.Die("unpack of generated name failed: %v", err)
				}
				if r.Intn(4) == 0 {
					s = spell(ls, true) // the octets outside ASCII as they are
				}
				if r.Intn(4) == 0 && s != "." {
					s = s[:len(s)-1] // relative spelling
					if dns.IsFqdn(s) {
						s += "."
					}
				}
				e := obsHelpers(s)
				seen[s] = true
				w.Emit(e)
				if i < 2 {
					sum.Sample(e)
				}
			} else {
				// related pair: common suffix with random case flips, different prefixes; 1 in 4: the suffix is made of
				// labels that are letters to a reader of UTF-8, and the other name has them changed as such a reader
				// would think harmless (otherSpelling); 1 in 4: no prefixes, the two names differ in spelling only
				uni := r.Intn(4) == 0
				suf := randName([]int{1, 5, 20, 60}[r.Intn(4)])
				if uni {
					suf = nil
					for k := 1 + r.Intn(3); k > 0; k-- {
						suf = append(suf, uniLabel(r))
					}
				}
				a := append(randName(1+r.Intn(40)), suf...)
				if r.Intn(10) == 0 { // a crowded name against one of its own suffixes or a sibling of it
					a = crowdName([]int{200, 253, 254, 255, 255}[r.Intn(5)])
					suf = a[r.Intn(len(a)):]
				}
				whole := r.Intn(4) == 0
				if whole {
					a = suf
				}
				sufb := make([][]byte, len(suf))
				for j, l := range suf {
					sufb[j] = otherSpelling(l, r, r.Intn(2) == 0)
				}
				bb := append(randName(1+r.Intn(40)), sufb...)
				if whole || r.Intn(3) == 0 {
					bb = sufb
				}
				if wireLen(a) > 255 || wireLen(bb) > 255 {
					return
				}
				sa, _, e1 := dns.UnpackDomainName(enc(a), 0)
				sb, _, e2 := dns.UnpackDomainName(enc(bb), 0)
				if e1 != nil || e2 != nil {
					return
				}
				if r.Intn(3) == 0 {
					sa, sb = spell(a, true), spell(bb, true) // the octets outside ASCII as they are
				}
				e := obsCompare(sa, sb)
				seen[sa+"|"+sb] = true
				w.Emit(e)
				if i < 4 {
					sum.Sample(e)
				}
			}
		default:
			hx.Die("record what?")
		}
	}
}
