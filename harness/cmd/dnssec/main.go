//go:debug rsa1024min=0

// Command dnssec binds spec/Dnssec.tla to RRSIG.Sign / RRSIG.Verify (property C10).
//
//	dnssec record <layout> <events.ndjson> <keys.json> <n>[+<nbig>] <alg,alg,...> <flipEvery> [onlyCase]
//	        seeded RRsets x algorithms -> real Sign -> "sign" events, plus "check" events: the variants to verify
//	        (reordered, repeated, re-cased, wildcard-expanded, altered field by field, RRSIG / DNSKEY RDATA bit by bit, forged)
//	dnssec finish <layout> <events.ndjson> <emit.ndjson> <keys.json> <verify.ndjson>
//	        with the octets the specification says are signed (emit.ndjson, written by Trace_Dnssec pass 1):
//	        (1) the STANDARD LIBRARY must accept the real signature over them; (2..4) real Verify on every variant, with
//	        sigok = the standard library's verdict over the specification's octets for that variant; (5) forged variants are
//	        signed with the standard library over the specification's octets.  -> "verify" events for Trace_Dnssec pass 2
//
// Nothing about canonical form, ordering or the pre-checks is decided here: the harness produces variants, applies
// crypto/rsa, crypto/ecdsa, crypto/ed25519 to octets fixed by the specification, and reports what the real code said.
package main

import (
	"bufio"
	"crypto"
	"crypto/ecdsa"
	"crypto/ed25519"
	"crypto/elliptic"
	"crypto/rand"
	"crypto/rsa"
	"crypto/sha1"
	"crypto/sha256"
	"crypto/sha512"
	"crypto/x509"
	"embed"
	"encoding/asn1"
	"encoding/base64"
	"encoding/json"
	"fmt"
	"io"
	"math/big"
	mrand "math/rand"
	"os"
	"reflect"
	"sort"
	"strconv"
	"strings"
	"unicode/utf8"

	"github.com/miekg/dns"

	"verifharness/lib/hx"
	"verifharness/lib/wire"
)

var L *wire.Layout

// ------------------------------------------------------------------ primitives (standard library only)

func digest(alg int, data []byte) ([]byte, crypto.Hash) {
	switch alg {
	case 5, 7:
		s := sha1.Sum(data)
		return s[:], crypto.SHA1
	case 8, 13:
		s := sha256.Sum256(data)
		return s[:], crypto.SHA256
	case 14:
		s := sha512.Sum384(data)
		return s[:], crypto.SHA384
	case 10:
		s := sha512.Sum512(data)
		return s[:], crypto.SHA512
	case 15:
		return data, crypto.Hash(0)
	}
	return nil, 0
}

// pubFromWire decodes DNSKEY public key octets: RFC 3110 s.2 (RSA), RFC 6605 s.4 (ECDSA), RFC 8080 s.3 (Ed25519).
func pubFromWire(alg int, b []byte) crypto.PublicKey {
	switch alg {
	case 5, 7, 8, 10:
		if len(b) < 1 {
			return nil
		}
		el, off := int(b[0]), 1
		if el == 0 {
			if len(b) < 3 {
				return nil
			}
			el, off = int(b[1])<<8|int(b[2]), 3
		}
		if el == 0 || off+el >= len(b) {
			return nil
		}
		e := new(big.Int).SetBytes(b[off : off+el])
		if !e.IsInt64() || e.Int64() >= 1<<31 || e.Int64() < 2 {
			return nil
		}
		n := new(big.Int).SetBytes(b[off+el:])
		if n.BitLen() < 16 {
			return nil
		}
		return &rsa.PublicKey{N: n, E: int(e.Int64())}
	case 13, 14:
		c, w := elliptic.P256(), 32
		if alg == 14 {
			c, w = elliptic.P384(), 48
		}
		if len(b) != 2*w {
			return nil
		}
		x, y := new(big.Int).SetBytes(b[:w]), new(big.Int).SetBytes(b[w:])
		if !c.IsOnCurve(x, y) {
			return nil
		}
		return &ecdsa.PublicKey{Curve: c, X: x, Y: y}
	case 15:
		if len(b) != ed25519.PublicKeySize {
			return nil
		}
		return ed25519.PublicKey(append([]byte{}, b...))
	}
	return nil
}

func pubToWire(pub crypto.PublicKey) []byte {
	switch p := pub.(type) {
	case *rsa.PublicKey:
		e := big.NewInt(int64(p.E)).Bytes()
		var out []byte
		if len(e) <= 255 {
			out = append(out, byte(len(e)))
		} else {
			out = append(out, 0, byte(len(e)>>8), byte(len(e)))
		}
		return append(append(out, e...), p.N.Bytes()...)
	case *ecdsa.PublicKey:
		w := (p.Curve.Params().BitSize + 7) / 8
		return append(p.X.FillBytes(make([]byte, w)), p.Y.FillBytes(make([]byte, w))...)
	case ed25519.PublicKey:
		return append([]byte{}, p...)
	}
	hx.Die("unknown public key type %T", pub)
	return nil
}

// stdVerify: does the primitive accept sig (DNS encodings: RFC 3110 / 5702 / 6605 / 8080) over data?
func stdVerify(alg int, pubwire, data, sig []byte) (ok bool) {
	defer func() {
		if recover() != nil {
			ok = false
		}
	}()
	pub := pubFromWire(alg, pubwire)
	if pub == nil {
		return false
	}
	d, h := digest(alg, data)
	if d == nil {
		return false
	}
	switch p := pub.(type) {
	case *rsa.PublicKey:
		return rsa.VerifyPKCS1v15(p, h, d, sig) == nil
	case *ecdsa.PublicKey:
		n := (p.Curve.Params().BitSize + 7) / 8
		if len(sig) != 2*n {
			return false
		}
		return ecdsa.Verify(p, d, new(big.Int).SetBytes(sig[:n]), new(big.Int).SetBytes(sig[n:]))
	case ed25519.PublicKey:
		return ed25519.Verify(p, d, sig)
	}
	return false
}

func stdSign(alg int, priv crypto.Signer, data []byte) []byte {
	d, h := digest(alg, data)
	s, err := priv.Sign(rand.Reader, d, h)
	if err != nil {
		hx.Die("stdlib sign: %v", err)
	}
	if p, ok := priv.Public().(*ecdsa.PublicKey); ok {
		var rs struct{ R, S *big.Int }
		if _, err := asn1.Unmarshal(s, &rs); err != nil {
			hx.Die("asn1: %v", err)
		}
		n := (p.Curve.Params().BitSize + 7) / 8
		return append(rs.R.FillBytes(make([]byte, n)), rs.S.FillBytes(make([]byte, n))...)
	}
	return s
}

// shortECDSA makes a valid ECDSA signature over digest whose R (which = 'r') or S (which = 's') is `short' octets shorter
// than the field: the nonce walks k, k+1, k+2, ... (one point addition per step) until the value has leading zero octets.
// Only good for tests -- the nonces of successive calls are unrelated, those inside one call are not.
func shortECDSA(priv *ecdsa.PrivateKey, digest []byte, which byte, short int) (*big.Int, *big.Int) {
	c := priv.Curve
	p := c.Params()
	size := (p.BitSize + 7) / 8
	z := new(big.Int).SetBytes(digest)
	if ex := len(digest)*8 - p.N.BitLen(); ex > 0 {
		z.Rsh(z, uint(ex))
	}
	k, err := rand.Int(rand.Reader, new(big.Int).Sub(p.N, big.NewInt(1<<30)))
	if err != nil {
		hx.Die("rand: %v", err)
	}
	k.Add(k, big.NewInt(1))
	x, y := c.ScalarBaseMult(k.Bytes())
	one := big.NewInt(1)
	r, sv, t := new(big.Int), new(big.Int), new(big.Int)
	for step := 0; step < 1<<26; step++ {
		r.Mod(x, p.N)
		if r.Sign() != 0 && (which != 'r' || len(r.Bytes()) == size-short) {
			t.Mul(r, priv.D)
			t.Add(t, z)
			sv.ModInverse(k, p.N)
			sv.Mul(sv, t)
			sv.Mod(sv, p.N)
			if sv.Sign() != 0 && (which != 's' || len(sv.Bytes()) == size-short) {
				if !ecdsa.Verify(&priv.PublicKey, digest, r, sv) {
					hx.Die("shortECDSA made an invalid signature")
				}
				return new(big.Int).Set(r), new(big.Int).Set(sv)
			}
		}
		k.Add(k, one)
		x, y = c.Add(x, y, p.Gx, p.Gy)
	}
	hx.Die("no short signature found")
	return nil, nil
}

// shortSigner is a crypto.Signer handing such signatures (ASN.1, as crypto/ecdsa does) to the code under test.
type shortSigner struct {
	priv  *ecdsa.PrivateKey
	which byte
	short int
}

func (s *shortSigner) Public() crypto.PublicKey { return &s.priv.PublicKey }
func (s *shortSigner) Sign(_ io.Reader, digest []byte, _ crypto.SignerOpts) ([]byte, error) {
	r, sv := shortECDSA(s.priv, digest, s.which, s.short)
	return asn1.Marshal(struct{ R, S *big.Int }{r, sv})
}

// parseShort reads "ecdsa-short-r2" -> ('r', 2).
func parseShort(tag string) (byte, int, bool) {
	if !strings.HasPrefix(tag, "ecdsa-short-") || len(tag) != len("ecdsa-short-")+2 {
		return 0, 0, false
	}
	return tag[len(tag)-2], int(tag[len(tag)-1] - '0'), true
}

// stdSignShort: RFC 6605 s.4 encoding (fixed width R | S) of a short-R / short-S signature, made without the library.
func stdSignShort(alg int, priv crypto.Signer, data []byte, tag string) []byte {
	which, short, ok := parseShort(tag)
	ep, isEC := priv.(*ecdsa.PrivateKey)
	if !ok || !isEC {
		hx.Die("short signature %q needs an ECDSA key", tag)
	}
	d, _ := digest(alg, data)
	r, sv := shortECDSA(ep, d, which, short)
	n := (ep.Curve.Params().BitSize + 7) / 8
	return append(r.FillBytes(make([]byte, n)), sv.FillBytes(make([]byte, n))...)
}

var algByName = map[string]int{"RSASHA1": 5, "RSASHA256": 8, "RSASHA512": 10, "RSASHA256-2048": 8,
	"ECDSAP256SHA256": 13, "ECDSAP384SHA384": 14, "ED25519": 15,
	// RSA keys at the size limits of RFC 3110 (a modulus of 512 and of 4096 bits: 64 and 512 octets), each with public exponents
	// of every length the DNSKEY format and crypto/rsa both take (1 .. 4 octets): <algorithm>-<bits>[e<exponent octets>].
	// A 512-bit modulus cannot hold a PKCS#1 v1.5 SHA-512 signature, so algorithm 10 has none.
	"RSASHA256-4096": 8, "RSASHA1-4096e1": 5, "RSASHA512-4096e4": 10, "RSASHA256-4096e2": 8, "RSASHA512-4096e1": 10, "RSASHA1-4096e4": 5,
	"RSASHA256-512": 8, "RSASHA1-512e1": 5, "RSASHA256-512e4": 8, "RSASHA1-512e2": 5}

//go:embed testdata/*.private
var testdata embed.FS

// boundaryKey: "RSASHA256-4096e1" -> (4096, 1, true); sizes that are generated afresh (…-2048) -> false
func boundaryKey(name string) (bits, explen int, ok bool) {
	_, sfx, found := strings.Cut(name, "-")
	if !found {
		return 0, 0, false
	}
	b, e, hasE := strings.Cut(sfx, "e")
	bits, _ = strconv.Atoi(b)
	explen = 3
	if hasE {
		explen, _ = strconv.Atoi(e)
	}
	return bits, explen, bits == 4096 || bits == 512
}

// fixedRSA: the committed key of that size (BIND private-key text; primes from crypto/rand: making a 4096-bit key takes
// seconds), with the public exponent of the file (65537, three octets) or -- same primes -- the first odd number of the
// wanted length in octets that is invertible modulo (p-1)(q-1).
func fixedRSA(bits, explen int) *rsa.PrivateKey {
	b, err := testdata.ReadFile(fmt.Sprintf("testdata/rsa-%d-e65537-1.private", bits))
	if err != nil {
		hx.Die("test data: %v", err)
	}
	m := map[string]*big.Int{}
	sc := bufio.NewScanner(strings.NewReader(string(b)))
	sc.Buffer(make([]byte, 1<<16), 1<<20)
	for sc.Scan() {
		if f, v, ok := strings.Cut(sc.Text(), ": "); ok {
			if d, err := base64.StdEncoding.DecodeString(v); err == nil {
				m[f] = new(big.Int).SetBytes(d)
			}
		}
	}
	p, q := m["Prime1"], m["Prime2"]
	if p == nil || q == nil || m["Modulus"] == nil {
		hx.Die("test data: no RSA key of %d bits", bits)
	}
	one := big.NewInt(1)
	phi := new(big.Int).Mul(new(big.Int).Sub(p, one), new(big.Int).Sub(q, one))
	e := big.NewInt(65537)
	if explen != 3 {
		e = big.NewInt(map[int]int64{1: 3, 2: 257, 4: 1<<24 + 1}[explen])
		for new(big.Int).GCD(nil, nil, e, phi).Cmp(one) != 0 {
			e.Add(e, big.NewInt(2))
		}
	}
	if len(e.Bytes()) != explen {
		hx.Die("no public exponent of %d octets for the %d-bit key", explen, bits)
	}
	k := &rsa.PrivateKey{PublicKey: rsa.PublicKey{N: m["Modulus"], E: int(e.Int64())}, D: new(big.Int).ModInverse(e, phi), Primes: []*big.Int{p, q}}
	k.Precompute()
	if err := k.Validate(); err != nil {
		hx.Die("RSA key of %d bits, exponent %v: %v", bits, e, err)
	}
	if k.N.BitLen() != bits {
		hx.Die("test data: modulus of %d bits, not %d", k.N.BitLen(), bits)
	}
	return k
}

func genPriv(name string) crypto.Signer {
	var k crypto.Signer
	var err error
	if bits, explen, ok := boundaryKey(strings.TrimSuffix(name, "/other")); ok {
		if strings.HasSuffix(name, "/other") { // another key of the same algorithm: any will do
			k, err := rsa.GenerateKey(rand.Reader, 1024)
			if err != nil {
				hx.Die("key generation: %v", err)
			}
			return k
		}
		return fixedRSA(bits, explen)
	}
	switch name {
	case "RSASHA1", "RSASHA256", "RSASHA512":
		k, err = rsa.GenerateKey(rand.Reader, 1024)
	case "RSASHA256-2048":
		k, err = rsa.GenerateKey(rand.Reader, 2048)
	case "ECDSAP256SHA256":
		k, err = ecdsa.GenerateKey(elliptic.P256(), rand.Reader)
	case "ECDSAP384SHA384":
		k, err = ecdsa.GenerateKey(elliptic.P384(), rand.Reader)
	case "ED25519":
		_, k, err = ed25519.GenerateKey(rand.Reader)
	default:
		hx.Die("algorithm %q", name)
	}
	if err != nil {
		hx.Die("key generation: %v", err)
	}
	return k
}

type keyFile struct {
	Keys map[string]string `json:"keys"` // name -> PKCS#8, base64
}

func saveKeys(path string, ks map[string]crypto.Signer) {
	kf := keyFile{Keys: map[string]string{}}
	for n, k := range ks {
		der, err := x509.MarshalPKCS8PrivateKey(k)
		if err != nil {
			hx.Die("pkcs8: %v", err)
		}
		kf.Keys[n] = base64.StdEncoding.EncodeToString(der)
	}
	b, _ := json.Marshal(kf)
	if err := os.WriteFile(path, b, 0o600); err != nil {
		hx.Die("write keys: %v", err)
	}
}

func loadKeys(path string) map[string]crypto.Signer {
	b, err := os.ReadFile(path)
	if err != nil {
		hx.Die("read keys: %v", err)
	}
	var kf keyFile
	if err := json.Unmarshal(b, &kf); err != nil {
		hx.Die("keys: %v", err)
	}
	out := map[string]crypto.Signer{}
	for n, s := range kf.Keys {
		der, _ := base64.StdEncoding.DecodeString(s)
		p, err := x509.ParsePKCS8PrivateKey(der)
		if err != nil {
			hx.Die("pkcs8: %v", err)
		}
		out[n] = p.(crypto.Signer)
	}
	return out
}

// ------------------------------------------------------------------ abstract values

type name = [][]byte

// rec is the RRSIG / DNSKEY record of spec/Dnssec.tla: [owner, class, f].
type rec struct {
	Owner []hx.B      `json:"owner"`
	Class int         `json:"class"`
	F     wire.Fields `json:"f"`
}

type event struct {
	Ev    string    `json:"ev"`
	Id    int       `json:"id"`
	Of    int       `json:"of"`
	Kind  string    `json:"kind"`
	Alg   string    `json:"algname"`
	Case  int       `json:"case"`
	Rrset []wire.RR `json:"rrset"`
	Key   *rec      `json:"key"`
	// sign
	Req *rec   `json:"req,omitempty"`
	Out *rec   `json:"out,omitempty"`
	Ok  bool   `json:"ok"`
	Err string `json:"err"`
	// check / verify
	Sig      *rec   `json:"sig,omitempty"`
	Forge    bool   `json:"forge"`
	Rawtag   string `json:"rawtag"` // "" | "raw-utf8" | "raw-nonutf8": every name of the case is spelled with RAW octets >= 0x80 instead of \DDD
	Spell    string `json:"spell"`  // "" | "ddd-upper": owner names spelled with \DDD for capital letters (same octets)
	KeyName  string `json:"keyname"`
	Otherkey bool   `json:"otherkey"` // forge: the signature is made with the case's private key although `key' is another key (sigok false is expected)
	Signer   string `json:"signer"`   // "" | "ecdsa-short-r1" ...: how the signature was (or is to be) made
	// sign: "" | what the RRSIG value had been through before this call (reuseKinds); req is then the value as it was handed to Sign
	Reused string `json:"reused"`
	Data     hx.B   `json:"data"`
	Odata    hx.B   `json:"odata"` // the specification's octets and the real signature of the sign event this variant derives from
	Osig     hx.B   `json:"osig"`
	Sigok    bool   `json:"sigok"`
	Accepted bool   `json:"accepted"`
}

type emitted struct {
	Id      int    `json:"id"`
	Kind    string `json:"kind"`
	Feature string `json:"feature"`
	Data    hx.B   `json:"data"`
	Dataout hx.B   `json:"dataout"`
}

func toB(n name) []hx.B {
	out := make([]hx.B, len(n))
	for i, l := range n {
		out[i] = hx.FromBytes(l)
	}
	return out
}

func be32(v uint32) hx.B {
	return hx.B{int(v >> 24), int(v >> 16 & 255), int(v >> 8 & 255), int(v & 255)}
}

func clone[T any](v *T) *T { return wire.Normalize(v) }

func cloneSet(rs []wire.RR) []wire.RR {
	out := make([]wire.RR, len(rs))
	for i := range rs {
		out[i] = *clone(&rs[i])
	}
	return out
}

// dynamic access to normalized values
func seqOf(v interface{}) []interface{} {
	s, _ := v.([]interface{})
	return s
}
func intOf(v interface{}) int {
	switch x := v.(type) {
	case float64:
		return int(x)
	case int:
		return x
	}
	hx.Die("not an integer: %v", v)
	return 0
}
func bytesOf(v interface{}) []byte {
	s := seqOf(v)
	b := make([]byte, len(s))
	for i, x := range s {
		b[i] = byte(intOf(x))
	}
	return b
}
func nameOf(v interface{}) name {
	s := seqOf(v)
	out := make(name, len(s))
	for i, x := range s {
		out[i] = bytesOf(x)
	}
	return out
}
func anyBytes(b []byte) []interface{} {
	out := make([]interface{}, len(b))
	for i, c := range b {
		out[i] = float64(c)
	}
	return out
}
func anyName(n name) []interface{} {
	out := make([]interface{}, len(n))
	for i, l := range n {
		out[i] = anyBytes(l)
	}
	return out
}
func hxName(bs []hx.B) name {
	out := make(name, len(bs))
	for i, b := range bs {
		out[i] = b.Bytes()
	}
	return out
}

func swapCase(n name) name {
	out := make(name, len(n))
	for i, l := range n {
		o := make([]byte, len(l))
		for j, c := range l {
			switch {
			case c >= 'a' && c <= 'z':
				c -= 32
			case c >= 'A' && c <= 'Z':
				c += 32
			}
			o[j] = c
		}
		out[i] = o
	}
	return out
}

// ------------------------------------------------------------------ Go values

func goRR(a *wire.RR, spell string) dns.RR {
	rr, err := L.BuildRR(a)
	if err != nil {
		hx.Die("build %s: %v", L.Mnemonic(a.Type), err)
	}
	if spell == "ddd-upper" {
		rr.Header().Name = dddUpper(rr.Header().Name)
	}
	if rawSpell {
		rr.Header().Name = rawHigh(rr.Header().Name)
		sv := reflect.ValueOf(rr).Elem()
		for _, e := range L.FieldsOf(a.Type) {
			if e.K == "name" || e.K == "cname" {
				if fv := sv.FieldByName(e.N); fv.IsValid() && fv.Kind() == reflect.String {
					fv.SetString(rawHigh(fv.String()))
				}
			}
		}
	}
	return rr
}

// rawSpell: spell the names of every Go value built from now on with raw octets >= 0x80 (the Go API takes them: a name is a
// string of octets) instead of \DDD escapes -- the same labels, another text.  Set per case (record) / per event (finish).
var rawSpell bool

func rawHigh(s string) string {
	var sb strings.Builder
	for i := 0; i < len(s); i++ {
		if s[i] == '\\' && i+3 < len(s) && s[i+1] >= '0' && s[i+1] <= '9' && s[i+2] >= '0' && s[i+2] <= '9' && s[i+3] >= '0' && s[i+3] <= '9' {
			v := int(s[i+1]-'0')*100 + int(s[i+2]-'0')*10 + int(s[i+3]-'0')
			if v >= 128 && v <= 255 {
				sb.WriteByte(byte(v))
			} else {
				sb.WriteString(s[i : i+4])
			}
			i += 3
			continue
		}
		if s[i] == '\\' && i+1 < len(s) {
			sb.WriteString(s[i : i+2])
			i++
			continue
		}
		sb.WriteByte(s[i])
	}
	return sb.String()
}

// dddUpper spells every capital letter of a presentation name as \DDD: the same octets, another text.
func dddUpper(s string) string {
	var sb strings.Builder
	for i := 0; i < len(s); i++ {
		if s[i] == '\\' && i+1 < len(s) {
			if i+3 < len(s) && s[i+1] >= '0' && s[i+1] <= '9' {
				sb.WriteString(s[i : i+4])
				i += 3
			} else {
				sb.WriteString(s[i : i+2])
				i++
			}
			continue
		}
		if s[i] >= 'A' && s[i] <= 'Z' {
			fmt.Fprintf(&sb, "\\%03d", s[i])
		} else {
			sb.WriteByte(s[i])
		}
	}
	return sb.String()
}

func goSet(rs []wire.RR, spell string) []dns.RR {
	out := make([]dns.RR, len(rs))
	for i := range rs {
		out[i] = goRR(&rs[i], spell)
	}
	return out
}

func goSig(s *rec) *dns.RRSIG {
	a := &wire.RR{Name: s.Owner, Type: 46, Class: s.Class, Ttl: hx.B{0, 0, 14, 16}, F: s.F}
	return goRR(clone(a), "").(*dns.RRSIG)
}

func goKey(k *rec) *dns.DNSKEY {
	a := &wire.RR{Name: k.Owner, Type: 48, Class: k.Class, Ttl: hx.B{0, 0, 14, 16}, F: k.F}
	return goRR(clone(a), "").(*dns.DNSKEY)
}

func projSig(rr *dns.RRSIG) *rec {
	a, err := L.ProjectRR(rr, nil)
	if err != nil {
		hx.Die("project RRSIG: %v", err)
	}
	a = clone(a)
	return &rec{Owner: a.Name, Class: a.Class, F: a.F}
}

// ------------------------------------------------------------------ the universe of RRsets

var zones = []name{
	{[]byte("Example"), []byte("ORG")},
	{[]byte("z")},
	{},
	{[]byte("a.b"), []byte("Zone")}, // a dot inside a label
}

// zones whose labels hold octets >= 0x80: "\u00c9xample" (c3 89: a letter with an upper case for Unicode, none for DNS), the KELVIN
// SIGN U+212A (e2 84 aa: Unicode folds it to ASCII k), and octets that are no UTF-8 at all
var highZones = []struct {
	z   name
	tag string
}{
	{name{{0xC3, 0x89, 'x', 'a', 'm', 'p', 'l', 'e'}, []byte("Com")}, "raw-utf8"},
	{name{{0xE2, 0x84, 0xAA, 'e', 'l', 'v', 'i', 'n'}, {0xC3, 0x96, 'r', 'g'}}, "raw-utf8"},
	{name{{0xC9, 'x', 0xFF, 0x80}, []byte("Net")}, "raw-nonutf8"},
}

func asciiLower(l []byte) []byte {
	out := make([]byte, len(l))
	for i, c := range l {
		if c >= 'A' && c <= 'Z' {
			c += 32
		}
		out[i] = c
	}
	return out
}

var sigTypes = []int{1, 30, 2, 5, 6, 12, 15, 16, 33, 35, 17, 18, 21, 26, 36, 39, 14, 7, 8, 9, 3, 4, 13, 47, 48, 43, 28, 16, 15, 2}

var labelPool = [][]byte{[]byte("www"), []byte("Mail"), []byte("nS1"), []byte("a"), []byte("B"), []byte("x y"), []byte("d.e"), {0xC8, 'q'}, []byte("_sip"),
	[]byte("UPPER"), []byte("k-9"), {0, 'Z'}}

type gen struct{ r *mrand.Rand }

func (g *gen) label(mixed bool) []byte {
	l := append([]byte{}, labelPool[g.r.Intn(len(labelPool))]...)
	if !mixed {
		l = asciiLower(l)
	}
	return l
}

func (g *gen) nameUnder(z name, mixed bool) name {
	var n name
	for k := g.r.Intn(3); k > 0; k-- {
		n = append(n, g.label(mixed))
	}
	if g.r.Intn(4) == 0 { // sometimes outside the zone
		return append(n, []byte("Other"), []byte("test"))
	}
	for _, l := range z {
		if mixed && g.r.Intn(2) == 0 {
			n = append(n, swapCase(name{l})[0])
		} else if mixed {
			n = append(n, l)
		} else {
			n = append(n, asciiLower(l))
		}
	}
	return n
}

func (g *gen) octets(lo, hi int) hx.B {
	n := lo + g.r.Intn(hi-lo+1)
	b := make(hx.B, n)
	for i := range b {
		b[i] = g.r.Intn(256)
	}
	return b
}

func (g *gen) str() hx.B {
	alpha := "abzABZ09 .;\"\\\x00\xff"
	n := g.r.Intn(6)
	b := make(hx.B, n)
	for i := range b {
		b[i] = int(alpha[g.r.Intn(len(alpha))])
	}
	return b
}

// fields draws the RDATA of type t (field kinds from the layout table).
func (g *gen) fields(t int, z name, mixed bool) wire.Fields {
	f := wire.Fields{}
	es := L.FieldsOf(t)
	for _, e := range es {
		switch e.K {
		case "u8":
			f[e.N] = []int{0, 1, 3, 8, 13, 255}[g.r.Intn(6)]
		case "u16":
			f[e.N] = []int{0, 1, 10, 256, 257, 65535}[g.r.Intn(6)]
		case "u32":
			f[e.N] = g.octets(4, 4)
		case "a":
			f[e.N] = hx.B{192, 0, 2, g.r.Intn(4)}
		case "aaaa":
			f[e.N] = append(hx.B{32, 1, 13, 184, 0, 0, 0, 0, 0, 0, 0, 0, 0, 0, 0}, g.r.Intn(4))
		case "name", "cname":
			f[e.N] = toB(g.nameUnder(z, mixed))
		case "str":
			f[e.N] = g.str()
		case "strs":
			n := 1 + g.r.Intn(3)
			ss := make([]hx.B, n)
			for i := range ss {
				ss[i] = g.str()
			}
			f[e.N] = ss
		case "hex", "b64":
			f[e.N] = g.octets(1, 12)
		case "bitmap":
			f[e.N] = [][]int{{1}, {1, 2, 46, 47}, {2, 6, 15, 256, 1234}}[g.r.Intn(3)]
		case "bitmap0":
			f[e.N] = []int{} // the library's NXT bitmap format is a C01 finding; kept out of this property
		default:
			hx.Die("no generator for kind %q (type %d)", e.K, t)
		}
	}
	return f
}

type caseT struct {
	zone   name
	owner  name
	okind  string
	t      int
	rrset  []wire.RR
	origT  uint32 // 0: Sign takes the RRset's TTL
	inc    uint32
	exp    uint32
	mixed  bool
	keyIdx int
	rawtag string // "" or how the names of the case are spelled in Go strings (raw octets >= 0x80)
	big    int    // > 0: a case of the large-record universe; the wire length (owner + 10 + RDATA) of its large record
}

// ------------------------------------------------------------------ the universe of LARGE records
//
// A record may be as large as its RDLENGTH allows (65535 octets of RDATA); the canonical form of RFC 4034 s.6.2 has no
// other limit.  The lengths that matter to an implementation are those of the buffers it might pack a record into: the
// library's MinMsgSize (512), DefaultMsgSize (4096) and MaxMsgSize (65535), and other round numbers -- each with its two
// neighbours.  Length = owner name + 10 + RDATA of the record, uncompressed (= what rawSignatureData packs).
var bigQuick = [][]int{
	{4097},                               // every run: one octet more than DefaultMsgSize
	{4096, 4095},                         // by seed: exactly DefaultMsgSize, one less
	{8193, 16385, 5003, 12289, 32769, 0}, // by seed: well beyond (0: RDATA of 65535 octets, the most an RR can hold)
	{513, 512, 511, 1233, 2049, 767},     // by seed: around MinMsgSize and other small round sizes (no other case has records > 200 octets)
}
var bigThorough = []int{4097, 4096, 4095, 8193, 513, 512, 511, 16385, 1233, 2049, 32769, 65535, 65536, 65534, 8192, 16384, 32768, 0 /* RDATA of 65535 */, 4098, 1025}

// the types of the large record: TXT (many strings), an unknown type (RFC 3597: opaque), DNSKEY (a long key), SIG (a signer name
// that is lower-cased in the canonical form, then a long signature)
var bigTypes = []int{16, 65000, 48, 24}

func (g *gen) bigCase(j int) caseT {
	c := caseT{}
	seed := int(hx.Seed() / 1000)
	var target int
	if hx.Thorough() {
		target = bigThorough[(j+int(hx.Seed()%1000))%len(bigThorough)]
	} else {
		l := bigQuick[j%len(bigQuick)]
		target = l[(seed+j/len(bigQuick))%len(l)]
	}
	c.t = bigTypes[(j+seed)%len(bigTypes)]
	c.zone = zones[[]int{0, 1, 3}[(j+seed)%3]]
	c.mixed = j%2 == 0
	c.okind = "large"
	c.owner = append(name{[]byte("big")}, c.zone...)
	if c.mixed {
		c.owner = append(name{[]byte("Big")}, c.zone...)
	}
	ow := len(encName(c.owner))
	if target == 0 {
		target = ow + 10 + 65535
	}
	c.big = target
	rdlen := target - ow - 10
	mk := func(f wire.Fields) wire.RR {
		rr := wire.RR{Name: toB(c.owner), Type: c.t, Class: 1, Ttl: be32(3600), F: f}
		return *clone(&rr)
	}
	small := mk(g.sized(c.t, c.zone, c.mixed, 0))
	large := mk(g.sized(c.t, c.zone, c.mixed, rdlen))
	switch j % 3 {
	case 0:
		c.rrset = []wire.RR{small, large}
	case 1:
		c.rrset = []wire.RR{large, small}
	default: // two large records that agree but for the last octet: the order is decided at the very end
		twin := clone(&large)
		flipLast(twin)
		c.rrset = []wire.RR{large, small, *twin}
	}
	c.origT = []uint32{0, 300}[j%2]
	c.inc, c.exp = 1700000000, 2000000000
	return c
}

// sized draws the RDATA of type t (one of bigTypes) with exactly rdlen octets on the wire (rdlen 0: a small one).
func (g *gen) sized(t int, z name, mixed bool, rdlen int) wire.Fields {
	fill := func(n int) hx.B {
		alpha := "abzABZ09 .;\"\\\x00\xff"
		b := make(hx.B, n)
		for i := range b {
			b[i] = int(alpha[g.r.Intn(len(alpha))])
		}
		return b
	}
	switch t {
	case 16:
		if rdlen == 0 {
			return wire.Fields{"Txt": []hx.B{fill(5)}}
		}
		var ss []hx.B
		rem := rdlen
		if rem%256 == 1 && rem > 1 { // the last string is never empty (flipLast)
			ss = append(ss, fill(253))
			rem -= 254
		}
		for rem > 0 {
			n := rem - 1
			if n > 255 {
				n = 255
			}
			ss = append(ss, fill(n))
			rem -= n + 1
		}
		return wire.Fields{"Txt": ss}
	case 48:
		if rdlen == 0 {
			rdlen = 4 + 32
		}
		return wire.Fields{"Flags": 257, "Protocol": 3, "Algorithm": 8, "PublicKey": g.octets(rdlen-4, rdlen-4)}
	case 24:
		signer := g.nameUnder(z, mixed)
		if rdlen == 0 {
			rdlen = 18 + len(encName(signer)) + 64
		}
		return wire.Fields{"TypeCovered": 1, "Algorithm": 8, "Labels": 2, "OrigTtl": be32(300), "Expiration": be32(2000000000), "Inception": be32(1700000000),
			"KeyTag": 4711, "SignerName": toB(signer), "Signature": g.octets(rdlen-18-len(encName(signer)), rdlen-18-len(encName(signer)))}
	default:
		if rdlen == 0 {
			rdlen = 7
		}
		return wire.Fields{"Rdata": g.octets(rdlen, rdlen)}
	}
}

// flipLast changes the last octet of the record's RDATA (its last field is an octet string or a list of strings).
func flipLast(a *wire.RR) {
	es := L.FieldsOf(a.Type)
	e := es[len(es)-1]
	if e.K == "strs" {
		ss := seqOf(a.F[e.N])
		last := bytesOf(ss[len(ss)-1])
		if len(last) == 0 {
			hx.Die("flipLast: empty last string")
		}
		last[len(last)-1] ^= 0x01
		ns := append([]interface{}{}, ss[:len(ss)-1]...)
		a.F[e.N] = append(ns, anyBytes(last))
		return
	}
	b := bytesOf(a.F[e.N])
	b[len(b)-1] ^= 0x01
	a.F[e.N] = anyBytes(b)
}

func (g *gen) newCase(i int) caseT {
	c := caseT{}
	c.zone = zones[g.r.Intn(len(zones))]
	if i%8 == 5 || i%8 == 6 { // two cases in eight live in a zone with octets >= 0x80; one of them spells them raw
		h := highZones[(i/8+int(hx.Seed()%1000))%len(highZones)]
		c.zone = h.z
		if i%8 == 5 {
			c.rawtag = h.tag
		}
	}
	c.mixed = g.r.Intn(2) == 0
	g.r.Intn(3)
	c.t = sigTypes[(i+16*int(hx.Seed()%1000)+int(hx.Seed()/1000))%len(sigTypes)] // three shards of 16 cover every type
	lower := func(n name) name {
		out := make(name, len(n))
		for j, l := range n {
			out[j] = asciiLower(l)
		}
		return out
	}
	under := func(ls ...[]byte) name { return append(append(name{}, ls...), c.zone...) }
	kinds := []string{"plain", "mixed", "apex", "wildcard", "wildcard-deep", "star-prefix", "escaped", "deep"}
	c.okind = kinds[(i/2+g.r.Intn(2))%len(kinds)]
	switch c.okind {
	case "plain":
		c.owner = lower(under([]byte("www")))
	case "mixed":
		c.owner = under([]byte("wWw"), []byte("Sub"))
	case "apex":
		c.owner = under()
	case "wildcard":
		c.owner = under([]byte("*"))
	case "wildcard-deep":
		c.owner = under([]byte("*"), []byte("Sub"))
	case "star-prefix":
		c.owner = under([]byte("*a"))
	case "escaped":
		c.owner = under([]byte("A.b c"), []byte{0xC8, '"', 'Q'})
	case "deep":
		c.owner = lower(under([]byte("a"), []byte("b"), []byte("c"), []byte("d")))
	}
	ttl := []uint32{3600, 0, 1, 86400, 0x80000000, 0xffffffff}[g.r.Intn(6)]
	n := 1 + g.r.Intn(3)
	for k := 0; k < n; k++ {
		rr := wire.RR{Name: toB(c.owner), Type: c.t, Class: 1, Ttl: be32(ttl), F: g.fields(c.t, c.zone, c.mixed)}
		c.rrset = append(c.rrset, *clone(&rr))
	}
	if n >= 2 && g.r.Intn(4) == 0 { // a repeated record in the set that is signed
		c.rrset = append(c.rrset, *clone(&c.rrset[0]))
	}
	if n >= 2 && g.r.Intn(5) == 0 && c.mixed { // two records that differ only in the case of an RDATA name
		d := clone(&c.rrset[0])
		flipRdNames(d)
		c.rrset = append(c.rrset, *d)
	}
	if g.r.Intn(3) == 0 {
		c.origT = []uint32{300, 7200, 0xfffffffe}[g.r.Intn(3)]
	}
	switch g.r.Intn(4) + 4*((i/2)%2) {
	case 4:
		c.inc, c.exp = 4293757696, 1209599 // 2^32 - 14 d .. 14 d - 1: a window across the wrap of the 32-bit time (RFC 4034 s.3.1.5)
	case 5:
		c.inc, c.exp = 4294967295, 0 // one second across the wrap
	case 6:
		c.inc, c.exp = 0, 0
	case 7:
		c.inc, c.exp = 2147483648, 2147483647 // as far apart as serial arithmetic can compare
	case 0:
		c.inc, c.exp = 1600000000, 1600086400 // long expired: Verify does not look at the clock
	case 1:
		c.inc, c.exp = 4000000000, 4100000000 // not yet valid
	case 2:
		c.inc, c.exp = 0, 0
	default:
		c.inc, c.exp = 1700000000, 2000000000
	}
	if c.rawtag == "raw-utf8" { // every label of the case must then be valid UTF-8: the others belong to the raw-nonutf8 cases
		fix := func(n name) name {
			out := make(name, len(n))
			for j, l := range n {
				if utf8.Valid(l) {
					out[j] = l
				} else {
					out[j] = []byte{0xC3, 0x89, 'q', 0xE2, 0x84, 0xAA} // \u00c9 q KELVIN SIGN
				}
			}
			return out
		}
		c.owner = fix(c.owner)
		for i := range c.rrset {
			c.rrset[i].Name = toB(fix(hxName(c.rrset[i].Name)))
			for _, fn := range nameFieldsOf(c.rrset[i].Type) {
				c.rrset[i].F[fn] = anyName(fix(nameOf(c.rrset[i].F[fn])))
			}
		}
	}
	return c
}

func nameFieldsOf(t int) []string {
	var out []string
	for _, e := range L.FieldsOf(t) {
		if e.K == "name" || e.K == "cname" {
			out = append(out, e.N)
		}
	}
	return out
}

func flipRdNames(a *wire.RR) bool {
	changed := false
	for _, n := range nameFieldsOf(a.Type) {
		old := nameOf(a.F[n])
		nw := swapCase(old)
		if fmt.Sprint(old) != fmt.Sprint(nw) {
			changed = true
		}
		a.F[n] = anyName(nw)
	}
	return changed
}

// alterRdata changes one field of the record (any change will do: the specification says what it means).
func alterRdata(a *wire.RR, r *mrand.Rand) {
	es := L.FieldsOf(a.Type)
	e := es[r.Intn(len(es))]
	switch e.K {
	case "u8":
		a.F[e.N] = float64((intOf(a.F[e.N]) + 1) % 256)
	case "u16":
		a.F[e.N] = float64((intOf(a.F[e.N]) + 1) % 65536)
	case "name", "cname":
		n := nameOf(a.F[e.N])
		n = append(name{[]byte("q")}, n...)
		if len(n) > 5 {
			n = n[:5]
		}
		a.F[e.N] = anyName(n)
	case "strs":
		s := seqOf(a.F[e.N])
		a.F[e.N] = append(append([]interface{}{}, s...), anyBytes([]byte("x")))
	case "bitmap":
		a.F[e.N] = []interface{}{float64(1), float64(99)}
	case "bitmap0":
		alterRdataName(a)
	default: // octet strings of any kind
		b := bytesOf(a.F[e.N])
		if len(b) == 0 {
			b = []byte{1}
		} else {
			b[len(b)-1] ^= 0x10
		}
		a.F[e.N] = anyBytes(b)
	}
}

func alterRdataName(a *wire.RR) {
	for _, n := range nameFieldsOf(a.Type) {
		a.F[n] = anyName(append(name{[]byte("q")}, nameOf(a.F[n])...))
		return
	}
}

// ------------------------------------------------------------------ RRSIG / DNSKEY RDATA octets, for bit flips only

func encName(n name) []byte {
	var b []byte
	for _, l := range n {
		b = append(b, byte(len(l)))
		b = append(b, l...)
	}
	return append(b, 0)
}

func sigRdata(s *rec) []byte {
	f := s.F
	b := []byte{byte(intOf(f["TypeCovered"]) >> 8), byte(intOf(f["TypeCovered"])), byte(intOf(f["Algorithm"])), byte(intOf(f["Labels"]))}
	b = append(b, bytesOf(f["OrigTtl"])...)
	b = append(b, bytesOf(f["Expiration"])...)
	b = append(b, bytesOf(f["Inception"])...)
	b = append(b, byte(intOf(f["KeyTag"])>>8), byte(intOf(f["KeyTag"])))
	b = append(b, encName(nameOf(f["SignerName"]))...)
	return append(b, bytesOf(f["Signature"])...)
}

// sigFromRdata reads the fields back; ok = false when the octets are no RRSIG RDATA with a valid uncompressed name.
func sigFromRdata(b []byte, tmpl *rec) (*rec, string, bool) {
	if len(b) < 19 {
		return nil, "", false
	}
	s := clone(tmpl)
	s.F["TypeCovered"] = float64(int(b[0])<<8 | int(b[1]))
	s.F["Algorithm"] = float64(b[2])
	s.F["Labels"] = float64(b[3])
	s.F["OrigTtl"] = anyBytes(b[4:8])
	s.F["Expiration"] = anyBytes(b[8:12])
	s.F["Inception"] = anyBytes(b[12:16])
	s.F["KeyTag"] = float64(int(b[16])<<8 | int(b[17]))
	off := 18
	var n name
	total := 1
	for {
		if off >= len(b) {
			return nil, "", false
		}
		c := int(b[off])
		if c == 0 {
			off++
			break
		}
		if c > 63 || off+1+c > len(b) {
			return nil, "", false
		}
		total += 1 + c
		if total > 255 {
			return nil, "", false
		}
		n = append(n, append([]byte{}, b[off+1:off+1+c]...))
		off += 1 + c
	}
	s.F["SignerName"] = anyName(n)
	s.F["Signature"] = anyBytes(b[off:])
	return s, "", true
}

func sigFieldAt(off int, signerLen int) string {
	switch {
	case off < 2:
		return "TypeCovered"
	case off < 3:
		return "Algorithm"
	case off < 4:
		return "Labels"
	case off < 8:
		return "OrigTtl"
	case off < 12:
		return "Expiration"
	case off < 16:
		return "Inception"
	case off < 18:
		return "KeyTag"
	case off < 18+signerLen:
		return "SignerName"
	}
	return "Signature"
}

func keyRdata(k *rec) []byte {
	f := k.F
	b := []byte{byte(intOf(f["Flags"]) >> 8), byte(intOf(f["Flags"])), byte(intOf(f["Protocol"])), byte(intOf(f["Algorithm"]))}
	return append(b, bytesOf(f["PublicKey"])...)
}

func keyFromRdata(b []byte, tmpl *rec) *rec {
	k := clone(tmpl)
	k.F["Flags"] = float64(int(b[0])<<8 | int(b[1]))
	k.F["Protocol"] = float64(b[2])
	k.F["Algorithm"] = float64(b[3])
	k.F["PublicKey"] = anyBytes(b[4:])
	return k
}

// carryFlags finds a flags word with the ZONE bit for the key such that the sum S of the 16-bit words of the DNSKEY RDATA has
// (S mod 2^16) + (S div 2^16) >= 2^16, and the key tag of RFC 4034 appendix B for it (non-zero: Sign refuses tag 0).
func carryFlags(key *rec) (int, int, bool) {
	rd := keyRdata(key)
	sum := func(fl int) int {
		ac := 0
		for i, b := range rd {
			if i < 2 {
				continue
			}
			if i&1 == 1 {
				ac += int(b)
			} else {
				ac += int(b) << 8
			}
		}
		return ac + fl
	}
	for fl := 0xFFFF; fl >= 0x100; fl-- {
		if fl&0x100 == 0 {
			continue
		}
		s := sum(fl)
		if s&0xFFFF+s>>16 >= 0x10000 {
			tag := (s + (s>>16)&0xFFFF) & 0xFFFF
			if tag != 0 {
				return fl, tag, true
			}
		}
	}
	return 0, 0, false
}

// sameTagKey exchanges two differing modulus octets at positions of equal parity: another RSA key, the same key tag.
func sameTagKey(key *rec) (*rec, bool) {
	pk := bytesOf(key.F["PublicKey"])
	if len(pk) < 40 {
		return nil, false
	}
	for i := len(pk) - 3; i > 8; i-- {
		if pk[i] != pk[i+2] {
			b := append([]byte{}, pk...)
			b[i], b[i+2] = b[i+2], b[i]
			k := clone(key)
			k.F["PublicKey"] = anyBytes(b)
			return k, true
		}
	}
	return nil, false
}

// ------------------------------------------------------------------ record

type recorder struct {
	rawtag string
	w      *hx.Writer
	id     int
	sum    *hx.Summary
	g      *gen
	counts map[string]int
}

func (rc *recorder) emit(e *event) int {
	e.Rawtag = rc.rawtag
	rc.id++
	e.Id = rc.id
	if e.Rrset == nil {
		e.Rrset = []wire.RR{}
	}
	rc.w.Emit(e)
	rc.counts[e.Ev]++
	return e.Id
}

func mkKey(owner name, flags, proto, alg int, pub []byte) *rec {
	return clone(&rec{Owner: toB(owner), Class: 1, F: wire.Fields{"Flags": flags, "Protocol": proto, "Algorithm": alg, "PublicKey": hx.FromBytes(pub)}})
}

func withTag(s *rec, k *rec) *rec {
	s2 := clone(s)
	s2.F["KeyTag"] = float64(goKey(k).KeyTag())
	return s2
}

func record(out, keysPath string, n, nbig int, algs []string, flipEvery, only int) {
	g := &gen{hx.Rand()}
	w := hx.NewWriter(out)
	defer w.Close()
	var sum hx.Summary
	rc := &recorder{w: w, sum: &sum, g: g, counts: map[string]int{}}
	privs := map[string]crypto.Signer{}
	for _, a := range algs {
		privs[a] = genPriv(a)
		if _, _, fixed := boundaryKey(a); fixed {
			privs[a+"/other"] = genPriv(a + "/other")
		} else {
			privs[a+"/other"] = genPriv(a)
		}
	}
	saveKeys(keysPath, privs)
	for i := 0; i < n; i++ {
		c := g.newCase(i)
		alg := algs[i%len(algs)]
		// the random stream must not depend on `only', so cases are always drawn
		sub := mrand.New(mrand.NewSource(hx.Seed()*7919 + int64(i)))
		if only >= 0 && only != i {
			continue
		}
		rc.one(i, &c, alg, privs, sub, flipEvery > 0 && i%flipEvery == 0)
	}
	// the large-record universe: cases n .. n+nbig-1, drawn from a generator of their own (the stream above stays as it is)
	for j := 0; j < nbig; j++ {
		i := n + j
		bg := &gen{mrand.New(mrand.NewSource(hx.Seed()*104729 + int64(j)))}
		c := bg.bigCase(j)
		if only >= 0 && only != i {
			continue
		}
		rc.one(i, &c, algs[i%len(algs)], privs, mrand.New(mrand.NewSource(hx.Seed()*7919+int64(i))), false)
	}
	sum.Evaluations = rc.counts["sign"]
	sum.Note("events", rc.counts)
	sum.Print()
}

func (rc *recorder) one(ci int, c *caseT, alg string, privs map[string]crypto.Signer, r *mrand.Rand, flips bool) {
	rawSpell = c.rawtag != ""
	rc.rawtag = c.rawtag
	defer func() { rawSpell = false }()
	an := algByName[alg]
	priv := privs[alg]
	pub := pubToWire(priv.Public())
	flags := []int{256, 257}[r.Intn(2)]
	keyOwner := c.zone
	if r.Intn(2) == 0 {
		keyOwner = swapCase(c.zone)
	}
	key := mkKey(keyOwner, flags, 3, an, pub)
	gk := goKey(key)
	tag := int(gk.KeyTag())
	if tag == 0 { // Sign refuses key tag 0 (a valid tag, but not this property's subject): use the other flags value
		key = mkKey(keyOwner, 513-flags, 3, an, pub)
		gk = goKey(key)
		tag = int(gk.KeyTag())
	}
	req := clone(&rec{Owner: []hx.B{}, Class: 0, F: wire.Fields{"TypeCovered": 0, "Algorithm": an, "Labels": 0, "OrigTtl": be32(c.origT),
		"Expiration": be32(c.exp), "Inception": be32(c.inc), "KeyTag": tag, "SignerName": toB(c.zone), "Signature": hx.B{}}})
	set := goSet(c.rrset, "")
	doSign := func(rq *rec, signer crypto.Signer) (*dns.RRSIG, error, string) {
		sg := goSig(rq)
		sg.Hdr = dns.RR_Header{}
		var e error
		p := hx.Catch(func() { e = sg.Sign(signer, set) })
		return sg, e, p
	}
	_, _, boundary := boundaryKey(alg)
	if c.big == 0 && !boundary { // (a 4096-bit signature takes too long to be made a thousand times over)
		rc.special(ci, c, alg, priv, key, req, doSign)
	}
	if c.big == 0 {
		rc.reused(ci, c, alg, priv, key, req, set)
	}
	sig, err, pan := doSign(req, priv)
	if pan != "" {
		rc.sum.Mis("dnssec/sign-panic:"+L.Mnemonic(c.t), "Sign panicked: "+pan, map[string]interface{}{"case": ci, "alg": alg})
		return
	}
	ev := &event{Ev: "sign", Alg: alg, Case: ci, Rrset: c.rrset, Key: key, Req: req, Ok: err == nil, KeyName: alg}
	if err != nil {
		ev.Err = err.Error()
		ev.Out = req
		rc.emit(ev)
		// still exercise Verify on what the specification says Sign should have produced (forged with the standard library)
		want := clone(req)
		want.Owner, want.Class = toB(c.owner), 1
		want.F["TypeCovered"] = float64(c.t)
		lab := len(c.owner)
		if lab > 0 && string(c.owner[0]) == "*" {
			lab--
		}
		want.F["Labels"] = float64(lab)
		if c.origT == 0 {
			want.F["OrigTtl"] = anyBytes(c.rrset[0].Ttl.Bytes())
		}
		rc.emit(&event{Ev: "check", Of: ev.Id, Kind: "forge", Alg: alg, Case: ci, Rrset: c.rrset, Key: key, Sig: want, Forge: true, KeyName: alg})
		return
	}
	sig.Hdr.Rrtype = dns.TypeRRSIG
	outRec := projSig(sig)
	ev.Out = outRec
	of := rc.emit(ev)
	if c.big > 0 {
		rc.bigVariants(of, ci, c, alg, outRec, key)
		return
	}
	rc.variants(of, ci, c, alg, privs, outRec, key, r, flips)
}

// bigVariants: what is asked of an RRset with a large record -- it verifies, in any order, with a record repeated, under other
// TTLs and another owner case; it does not once the LAST octet of the large record, or the first, is another or the large
// record is missing; a signature made by the standard library over the specification's octets verifies.
func (rc *recorder) bigVariants(of, ci int, c *caseT, alg string, sig, key *rec) {
	chk := func(kind string, s *rec, rs []wire.RR, forge bool) {
		rc.emit(&event{Ev: "check", Of: of, Kind: kind, Alg: alg, Case: ci, Rrset: rs, Key: key, Sig: s, Forge: forge, KeyName: alg})
	}
	base := c.rrset
	n := len(base)
	li := 0 // the large record
	for i := range base {
		if len(fmt.Sprint(base[i].F)) > len(fmt.Sprint(base[li].F)) {
			li = i
		}
	}
	chk("orig", sig, base, false)
	rev := cloneSet(base)
	for i, j := 0, n-1; i < j; i, j = i+1, j-1 {
		rev[i], rev[j] = rev[j], rev[i]
	}
	chk("order", sig, rev, false)
	chk("repeated", sig, append(cloneSet(base), *clone(&base[li])), false)
	{
		rs := cloneSet(base)
		s := clone(sig)
		s.Owner = toB(swapCase(c.owner))
		for i := range rs {
			rs[i].Name = toB(swapCase(c.owner))
			rs[i].Ttl = be32(uint32(7 + i))
		}
		chk("owner-case", s, rs, false)
	}
	{
		rs := cloneSet(base)
		flipLast(&rs[li])
		chk("rdata-last-octet", sig, rs, false)
	}
	{
		rs := cloneSet(base)
		var rest []wire.RR
		for i := range rs {
			if i != li {
				rest = append(rest, rs[i])
			}
		}
		chk("record-dropped", sig, rest, false)
	}
	f := clone(sig)
	f.F["Signature"] = []interface{}{}
	chk("forge", f, base, true)
	chk("forge-shuffled", f, append(cloneSet(base)[n/2:], cloneSet(base)[:n/2]...), true)
}

// reused: Sign on an RRSIG value that is not fresh.  The natural way to sign a zone is one RRSIG value filled in once -- key tag,
// signer, algorithm, validity -- and handed to Sign for one RRset after the other; after the first call it carries the owner,
// class, covered type, LABELS, (original TTL) and signature of the RRset before.  What Sign produces is a function of the RRset and
// of the fields the caller sets (spec: SignFills takes nothing else from req but OrigTtl, which the library documents as a
// caller's field) -- so the RRset before is chosen to differ in everything else: an owner with MORE labels ("deeper"), one with
// FEWER ("shallower": an ancestor of the owner inside the zone, else deeper again), another type and TTL; "preset": a value
// filled in by hand with the largest field values instead.  req of the event = the value as it is handed to the call under test.
var reuseKinds = []string{"deeper", "shallower", "preset"}

func (rc *recorder) reused(ci int, c *caseT, alg string, priv crypto.Signer, key, req *rec, set []dns.RR) {
	kind := reuseKinds[ci%len(reuseKinds)]
	sg := goSig(req)
	sg.Hdr = dns.RR_Header{}
	if kind == "preset" {
		sg.Hdr = dns.RR_Header{Name: "Some.Other.owner.example.", Rrtype: dns.TypeRRSIG, Class: dns.ClassCHAOS, Ttl: 5, Rdlength: 9}
		sg.TypeCovered, sg.Labels = dns.TypeANY, 255
		sg.Signature = base64.StdEncoding.EncodeToString([]byte("left over from elsewhere"))
	} else {
		wo := append(name{[]byte("x"), []byte("Y")}, c.owner...)
		if kind == "shallower" && len(c.owner) > len(c.zone) && len(c.owner) >= 2 {
			wo = c.owner[len(c.owner)-max(len(c.zone), 1):] // the apex (a one-label name under the root zone)
		}
		wt := 16 // TXT; the RRset under test is of another type
		if c.t == 16 {
			wt = 1
		}
		wg := &gen{mrand.New(mrand.NewSource(hx.Seed()*31337 + int64(ci)))}
		wrr := wire.RR{Name: toB(wo), Type: wt, Class: 1, Ttl: be32(77), F: wg.fields(wt, c.zone, false)}
		var werr error
		if p := hx.Catch(func() { werr = sg.Sign(priv, goSet([]wire.RR{*clone(&wrr)}, "")) }); p != "" || werr != nil {
			rc.counts["reuse-first-sign-failed"]++ // judged where such an RRset is the subject
			return
		}
		if ci%2 == 0 { // the caller sets the original TTL again (0: "take the RRset's") or leaves what the value holds
			sg.OrigTtl = c.origT
		}
	}
	rq := projSig(sg)
	var err error
	pan := hx.Catch(func() { err = sg.Sign(priv, set) })
	if pan != "" {
		rc.sum.Mis("dnssec/sign-panic:reused-sig-struct", "Sign panicked: "+pan, map[string]interface{}{"case": ci, "alg": alg})
		return
	}
	ev := &event{Ev: "sign", Alg: alg, Case: ci, Rrset: c.rrset, Key: key, Req: rq, Ok: err == nil, KeyName: alg, Kind: "reused-" + kind, Reused: kind}
	if err != nil {
		ev.Err, ev.Out = err.Error(), rq
		rc.emit(ev)
		return
	}
	ev.Out = projSig(sg)
	of := rc.emit(ev)
	rc.emit(&event{Ev: "check", Of: of, Kind: "reused-" + kind, Alg: alg, Case: ci, Rrset: c.rrset, Key: key, Sig: ev.Out, KeyName: alg})
}

// special: signatures whose integers have leading zero octets, the corner of the fixed-width encodings (RFC 6605 s.4,
// RFC 3110 s.3).  ECDSA: the real Sign is handed a signer whose R resp. S is short by one (cases 0..3) and by two (cases 0..1)
// octets, and the same shapes are forged with the standard library for Verify.  RSA (cases 0..1): the inception time is
// stepped until the real signature starts with a zero octet.  Each signature is judged like any other: the standard library
// over the specification's octets, then real Verify.
func (rc *recorder) special(ci int, c *caseT, alg string, priv crypto.Signer, key, req *rec, doSign func(*rec, crypto.Signer) (*dns.RRSIG, error, string)) {
	if ci >= 4 {
		return
	}
	one := func(rq *rec, signer crypto.Signer, tag, kind string) {
		sg, err, pan := doSign(rq, signer)
		if pan != "" {
			rc.sum.Mis("dnssec/sign-panic:"+kind, "Sign panicked: "+pan, map[string]interface{}{"case": ci, "alg": alg})
			return
		}
		ev := &event{Ev: "sign", Alg: alg, Case: ci, Rrset: c.rrset, Key: key, Req: rq, Ok: err == nil, KeyName: alg, Signer: tag, Kind: kind}
		if err != nil {
			ev.Err, ev.Out = err.Error(), rq
			rc.emit(ev)
			return
		}
		sg.Hdr.Rrtype = dns.TypeRRSIG
		ev.Out = projSig(sg)
		of := rc.emit(ev)
		rc.emit(&event{Ev: "check", Of: of, Kind: "sig-" + kind, Alg: alg, Case: ci, Rrset: c.rrset, Key: key, Sig: ev.Out, KeyName: alg})
		if _, _, ok := parseShort(tag); ok { // the same shape made by the standard library, for Verify
			f := clone(ev.Out)
			f.F["Signature"] = []interface{}{}
			rc.emit(&event{Ev: "check", Of: of, Kind: "forge-" + kind, Alg: alg, Case: ci, Rrset: c.rrset, Key: key, Sig: f, Forge: true, KeyName: alg, Signer: tag})
		}
	}
	switch p := priv.(type) {
	case *ecdsa.PrivateKey:
		for _, which := range []byte{'r', 's'} {
			for short := 1; short <= 2; short++ {
				if short == 2 && ci >= 2 {
					continue
				}
				tag := fmt.Sprintf("ecdsa-short-%c%d", which, short)
				one(req, &shortSigner{p, which, short}, tag, fmt.Sprintf("ecdsa-short-%c", which))
			}
		}
	case *rsa.PrivateKey:
		if ci >= 2 {
			return
		}
		base := uint32(beUintB(bytesOf(req.F["Inception"])))
		for try := uint32(1); try < 6000; try++ {
			rq := clone(req)
			rq.F["Inception"] = anyBytes(be32(base + try).Bytes())
			sg, err, pan := doSign(rq, priv)
			if err != nil || pan != "" {
				return
			}
			raw, derr := base64.StdEncoding.DecodeString(sg.Signature)
			if derr == nil && len(raw) > 0 && raw[0] == 0 {
				one(rq, priv, "rsa-leading-zero", "rsa-leading-zero") // PKCS#1 v1.5 is deterministic: the same signature again
				return
			}
		}
		rc.counts["rsa-leading-zero-not-found"]++
	}
}

func beUintB(b []byte) uint64 {
	var v uint64
	for _, c := range b {
		v = v<<8 | uint64(c)
	}
	return v
}

func (rc *recorder) variants(of, ci int, c *caseT, alg string, privs map[string]crypto.Signer, sig, key *rec, r *mrand.Rand, flips bool) {
	chk := func(kind string, s *rec, k *rec, rs []wire.RR, forge bool, spell, keyname string) {
		rc.emit(&event{Ev: "check", Of: of, Kind: kind, Alg: alg, Case: ci, Rrset: rs, Key: k, Sig: s, Forge: forge, Spell: spell, KeyName: keyname})
	}
	base := c.rrset
	n := len(base)
	mapSet := func(f func(i int, a *wire.RR)) []wire.RR {
		rs := cloneSet(base)
		for i := range rs {
			f(i, &rs[i])
		}
		return rs
	}
	setOwner := func(o name) ([]wire.RR, *rec) {
		s := clone(sig)
		s.Owner = toB(o)
		return mapSet(func(i int, a *wire.RR) { a.Name = toB(o) }), s
	}
	an := algByName[alg]

	// ---- meant to be equivalent (the specification decides)
	chk("orig", sig, key, base, false, "", alg)
	if n > 1 {
		rev := cloneSet(base)
		for i, j := 0, n-1; i < j; i, j = i+1, j-1 {
			rev[i], rev[j] = rev[j], rev[i]
		}
		chk("order", sig, key, rev, false, "", alg)
		rot := append(cloneSet(base)[1:], *clone(&base[0]))
		chk("order", sig, key, rot, false, "", alg)
	}
	chk("repeated", sig, key, append(cloneSet(base), *clone(&base[r.Intn(n)])), false, "", alg)
	chk("ttl", sig, key, mapSet(func(i int, a *wire.RR) { a.Ttl = be32(uint32(7 + i)) }), false, "", alg)
	{
		rs, s := setOwner(swapCase(c.owner))
		chk("owner-case", s, key, rs, false, "", alg)
		chk("owner-case", sig, key, rs, false, "", alg) // the RRSIG keeps its spelling
	}
	chk("rdata-name-case", sig, key, mapSet(func(i int, a *wire.RR) { flipRdNames(a) }), false, "", alg)
	{
		s := clone(sig)
		s.F["SignerName"] = anyName(swapCase(nameOf(sig.F["SignerName"])))
		chk("signer-case", s, key, base, false, "", alg)
		k := clone(key)
		k.Owner = toB(swapCase(hxName(key.Owner)))
		chk("key-owner-case", sig, k, base, false, "", alg)
	}
	chk("ddd-spelling", sig, key, base, false, "ddd-upper", alg)
	if n > 1 { // AMBIG: owners differing in case inside the set
		chk("owner-case-mixed-in-set", sig, key, mapSet(func(i int, a *wire.RR) {
			if i == 0 {
				a.Name = toB(swapCase(c.owner))
			}
		}), false, "", alg)
	}
	lab := intOf(sig.F["Labels"])
	if lab < len(c.owner) { // a wildcard: other expansions of it
		tail := c.owner[len(c.owner)-lab:]
		for _, pre := range []name{{[]byte("x")}, {[]byte("Y"), []byte("x")}, {[]byte("*")}} {
			rs, s := setOwner(append(append(name{}, pre...), tail...))
			chk("wildcard-expansion", s, key, rs, false, "", alg)
		}
	}
	// ---- meant to be altered
	chk("rdata", sig, key, mapSet(func(i int, a *wire.RR) {
		if i == 0 {
			alterRdata(a, r)
		}
	}), false, "", alg)
	{
		extra := clone(&base[0])
		alterRdata(extra, r)
		chk("record-added", sig, key, append(cloneSet(base), *extra), false, "", alg)
		if n > 1 {
			chk("record-dropped", sig, key, cloneSet(base)[:n-1], false, "", alg)
		}
	}
	if len(c.owner) > len(c.zone) {
		o := append(name{}, c.owner...)
		l0 := append([]byte{}, o[0]...)
		l0[len(l0)-1] ^= 0x01 // not a case bit
		o[0] = l0
		rs, s := setOwner(o)
		chk("owner", s, key, rs, false, "", alg)
	}
	{
		rs, s := setOwner(append(name{[]byte("x")}, c.owner...))
		chk("owner-extra-label", s, key, rs, false, "", alg)
	}
	alt := func(kind string, f func(s *rec)) {
		s := clone(sig)
		f(s)
		chk(kind, s, key, base, false, "", alg)
	}
	alt("type-covered", func(s *rec) { s.F["TypeCovered"] = float64(intOf(s.F["TypeCovered"]) ^ 1) })
	chk("class", sig, key, mapSet(func(i int, a *wire.RR) { a.Class = 3 }), false, "", alg)
	{
		s, k := clone(sig), clone(key)
		s.Class, k.Class = 3, 3
		chk("class-everywhere", s, k, mapSet(func(i int, a *wire.RR) { a.Class = 3 }), false, "", alg)
		chk("class-rrsig", s, key, base, false, "", alg)
	}
	if len(c.zone) > 0 {
		z := append(name{}, c.zone...)
		l0 := append([]byte{}, z[0]...)
		l0[0] ^= 0x01
		z[0] = l0
		s, k := clone(sig), clone(key)
		s.F["SignerName"] = anyName(z)
		chk("signer", s, key, base, false, "", alg)
		k.Owner = toB(z)
		chk("signer-and-key-owner", s, k, base, false, "", alg)
	}
	alt("key-tag", func(s *rec) { s.F["KeyTag"] = float64((intOf(s.F["KeyTag"]) + 1) % 65536) })
	if lab > 0 {
		alt("labels", func(s *rec) { s.F["Labels"] = float64(lab - 1) })
	}
	alt("labels", func(s *rec) { s.F["Labels"] = float64(lab + 1) })
	for _, fn := range []string{"OrigTtl", "Expiration", "Inception"} {
		fn := fn
		alt("field-"+fn, func(s *rec) {
			b := bytesOf(s.F[fn])
			b[3] ^= 1
			s.F[fn] = anyBytes(b)
		})
	}
	alt("signature", func(s *rec) {
		b := bytesOf(s.F["Signature"])
		b[r.Intn(len(b))] ^= 1 << uint(r.Intn(8))
		s.F["Signature"] = anyBytes(b)
	})
	for _, how := range []string{"zero-appended", "octet-appended", "doubled", "zero-prepended"} {
		how := how
		alt("signature-extended", func(s *rec) { // over-long: the primitive's signature followed / preceded by more octets
			b := bytesOf(s.F["Signature"])
			switch how {
			case "zero-appended":
				b = append(b, 0)
			case "octet-appended":
				b = append(b, byte(1+r.Intn(255)), byte(r.Intn(256)))
			case "doubled":
				b = append(b, b...)
			case "zero-prepended":
				b = append([]byte{0}, b...)
			}
			s.F["Signature"] = anyBytes(b)
		})
	}
	alt("signature-truncated", func(s *rec) {
		b := bytesOf(s.F["Signature"])
		s.F["Signature"] = anyBytes(b[:len(b)-1])
	})
	{
		// another key of the same algorithm: as it is, and with the RRSIG naming its tag
		other := mkKey(hxName(key.Owner), intOf(key.F["Flags"]), 3, an, pubToWire(privs[alg+"/other"].Public()))
		chk("other-key", sig, other, base, false, "", alg)
		chk("other-key-tag-adjusted", withTag(sig, other), other, base, false, "", alg)
		for _, fl := range []int{0, 1, 128} { // not a zone key
			k := clone(key)
			k.F["Flags"] = float64(fl)
			chk("key-not-zone", withTag(sig, k), k, base, false, "", alg)
		}
		k := clone(key)
		k.F["Protocol"] = float64(2)
		chk("key-protocol", withTag(sig, k), k, base, false, "", alg)
		if an == 8 || an == 10 { // the same key octets under the sibling algorithm
			k := clone(key)
			k.F["Algorithm"] = float64(18 - an)
			chk("algorithm-key", sig, k, base, false, "", alg)
			s := withTag(sig, k)
			s.F["Algorithm"] = float64(18 - an)
			chk("algorithm-everywhere", s, k, base, false, "", alg)
		}
	}
	// ---- forged with the standard library over the specification's octets (signed in `finish')
	forge := func(kind string, s *rec, k *rec, rs []wire.RR) {
		s = clone(s)
		s.F["Signature"] = []interface{}{}
		chk(kind, s, k, rs, true, "", alg)
	}
	forge("forge", sig, key, base)
	forge("forge-shuffled", sig, key, append(cloneSet(base)[n/2:], cloneSet(base)[:n/2]...))
	{
		k := clone(key)
		k.F["Flags"] = float64(intOf(key.F["Flags"]) ^ 1) // SEP bit: irrelevant to validation
		forge("forge-sep", withTag(sig, k), k, base)
		for _, fl := range []int{0, 1, 128, 0xfeff} {
			k := clone(key)
			k.F["Flags"] = float64(fl)
			forge("forge-key-not-zone", withTag(sig, k), k, base)
		}
		for _, pr := range []int{0, 2, 4, 255} {
			k := clone(key)
			k.F["Protocol"] = float64(pr)
			forge("forge-key-protocol", withTag(sig, k), k, base)
		}
		s := clone(sig)
		s.F["Expiration"], s.F["Inception"] = anyBytes(be32(1000000000).Bytes()), anyBytes(be32(900000000).Bytes())
		forge("forge-expired", s, key, base)
		if lab >= 1 && lab == len(c.owner) && len(c.owner) > len(c.zone) { // as if expanded from a wildcard one level up
			s := clone(sig)
			s.F["Labels"] = float64(lab - 1)
			forge("forge-wildcard-expanded", s, key, base)
		}
		s = clone(sig)
		s.F["Labels"] = float64(len(c.owner) + 1)
		forge("forge-labels-beyond-owner", s, key, base)
		s = clone(sig)
		s.F["OrigTtl"] = anyBytes(be32(0x12345678).Bytes())
		forge("forge-origttl", s, key, mapSet(func(i int, a *wire.RR) { a.Ttl = be32(uint32(i)) }))
	}
	// ---- every pre-check of the statement falsified ALONE, everything else matching and the signature VALID over the
	// specification's octets (signed by the standard library where the alteration changes the octets): the key's class, the
	// RRset's class against the RRSIG's, the covered type, the key's algorithm (same key octets, same hash: only RSA has siblings)
	{
		classes := []int{3, 4, 254, 255, 0, 32769, 2, 256}
		for j := 0; j < 3; j++ { // three per signature, rotating: every class within three signatures
			k := clone(key)
			k.Class = classes[(3*ci+j)%len(classes)]
			chk("key-class", sig, k, base, false, "", alg) // same owner, flags, protocol, algorithm, key octets (hence tag)
		}
		k := clone(key)
		k.Class = classes[(ci+int(hx.Seed()))%len(classes)]
		forge("forge-key-class", sig, k, base)
		s := clone(sig)
		s.Class, k = 3, clone(key)
		k.Class = 3
		chk("class-rrsig-and-key", s, k, base, false, "", alg) // the class is not among the signed octets of the RRSIG: still a valid signature
		forge("forge-class-rrset", sig, key, mapSet(func(i int, a *wire.RR) { a.Class = 3 }))
		s = clone(sig)
		s.F["TypeCovered"] = float64(intOf(sig.F["TypeCovered"]) ^ 1)
		forge("forge-type-covered", s, key, base)
		if sib, ok := map[int]int{5: 7, 8: 10, 10: 8}[an]; ok {
			k := clone(key)
			k.F["Algorithm"] = float64(sib)
			forge("forge-key-algorithm", withTag(sig, k), k, base)
		}
	}
	// ---- validity windows across the wrap of the 32-bit clock: Verify does not look at the period at all
	for _, w := range [][2]uint32{{4293757696, 1209599}, {4294967295, 0}, {0, 0}, {100, 99}} {
		s := clone(sig)
		s.F["Inception"], s.F["Expiration"] = anyBytes(be32(w[0]).Bytes()), anyBytes(be32(w[1]).Bytes())
		forge("forge-window-wrap", s, key, base)
	}
	// ---- a key whose tag needs the carry of RFC 4034 appendix B folded once, not until it is gone: the flags word (reserved
	// bits are free, ZONE set) is chosen so that low + high of the 32-bit sum reaches 2^16.  Two RRSIGs: one carrying the tag
	// the LIBRARY computes for the key, one the tag computed here per appendix B; the specification says which is right.
	if fl, rfcTag, ok := carryFlags(key); ok {
		k := clone(key)
		k.F["Flags"] = float64(fl)
		forge("forge-keytag-carry-library-tag", withTag(sig, k), k, base)
		s := clone(sig)
		s.F["KeyTag"] = float64(rfcTag)
		forge("forge-keytag-carry-appendix-b-tag", s, k, base)
	}
	// ---- two different RSA keys of one owner, algorithm AND key tag (two modulus octets of equal parity exchanged), used
	// alternately in this process in both orders, each pair under an owner of its own (a key must never be found by name and tag)
	if kb, ok := sameTagKey(key); ok && ci < 8 && (an == 5 || an == 8 || an == 10) {
		for _, first := range []string{"a", "b"} {
			z := append(name{[]byte("rsa" + first + strconv.Itoa(ci))}, c.zone...)
			o := append(name{[]byte("www")}, z...)
			s := clone(sig)
			s.Owner = toB(o)
			s.F["SignerName"] = anyName(z)
			s.F["Labels"] = float64(len(o))
			ka, kbb := clone(key), clone(kb)
			ka.Owner, kbb.Owner = toB(z), toB(z)
			rs := mapSet(func(i int, a *wire.RR) { a.Name = toB(o) })
			emitOther := func() {
				f := clone(s)
				f.F["Signature"] = []interface{}{}
				rc.emit(&event{Ev: "check", Of: of, Kind: "forge-rsa-same-tag-other-key", Alg: alg, Case: ci, Rrset: rs, Key: kbb, Sig: f, Forge: true, Otherkey: true, KeyName: alg})
			}
			if first == "b" {
				emitOther()
			}
			forge("forge-rsa-same-tag-right-key", s, ka, rs)
			if first == "a" {
				emitOther()
			}
			forge("forge-rsa-same-tag-right-key", s, ka, rs) // and once more after the other key was seen
		}
	}
	// ---- names that differ in ONE octet by 0x20, for every octet value: only the 26 letter pairs are the same name
	// (RFC 4343).  A rotating window of octet values per signature; the three quick shards together cover all 256.
	{
		nx := 6
		if hx.Thorough() {
			nx = 32
		}
		g := 16*int(hx.Seed()%1000) + ci
		for j := 0; j < nx; j++ {
			x := byte((g*nx + j) % 256)
			la, lb := []byte{'q', x, '1'}, []byte{'q', x ^ 0x20, '1'}
			// (a) signer (and zone of the RRset) spelled with x, the DNSKEY owner with x^0x20
			za, zb := append(name{la}, c.zone...), append(name{lb}, c.zone...)
			oa := append(name{[]byte("www")}, za...)
			s := clone(sig)
			s.Owner = toB(oa)
			s.F["SignerName"] = anyName(za)
			s.F["Labels"] = float64(len(oa))
			k := clone(key)
			k.Owner = toB(zb)
			forge("forge-key-owner-xor20", s, k, mapSet(func(i int, a *wire.RR) { a.Name = toB(oa) }))
			// (b) the RRset owner spelled with x, the RRSIG owner with x^0x20
			ra, rb := append(name{la}, c.zone...), append(name{lb}, c.zone...)
			s = clone(sig)
			s.Owner = toB(rb)
			s.F["Labels"] = float64(len(ra))
			forge("forge-rrsig-owner-xor20", s, key, mapSet(func(i int, a *wire.RR) { a.Name = toB(ra) }))
		}
	}
	// ---- every bit of the RRSIG RDATA and of the DNSKEY RDATA
	if flips {
		rd := sigRdata(sig)
		sl := len(encName(nameOf(sig.F["SignerName"])))
		sigStart := 18 + sl
		for off := 0; off < len(rd); off++ {
			for bit := 0; bit < 8; bit++ {
				if off >= sigStart && !hx.Thorough() { // inside the signature: first and last octet fully, else one bit per octet
					if off != sigStart && off != len(rd)-1 && bit != (off*5)%8 {
						continue
					}
				}
				b := append([]byte{}, rd...)
				b[off] ^= 1 << uint(bit)
				s, _, ok := sigFromRdata(b, sig)
				if !ok {
					rc.counts["flip-unreadable"]++
					continue
				}
				chk("bit:rrsig:"+sigFieldAt(off, sl), s, key, base, false, "", alg)
			}
		}
		kd := keyRdata(key)
		for off := 0; off < len(kd); off++ {
			for bit := 0; bit < 8; bit++ {
				if off >= 4 && !hx.Thorough() {
					if off != 4 && off != len(kd)-1 && bit != (off*3)%8 {
						continue
					}
					if len(kd) > 80 && off%4 != 0 && off != len(kd)-1 {
						continue
					}
				}
				b := append([]byte{}, kd...)
				b[off] ^= 1 << uint(bit)
				fld := []string{"Flags", "Flags", "Protocol", "Algorithm"}
				fn := "PublicKey"
				if off < 4 {
					fn = fld[off]
				}
				chk("bit:dnskey:"+fn, sig, keyFromRdata(b, key), base, false, "", alg)
			}
		}
	}
}

// ------------------------------------------------------------------ finish

func finish(eventsPath, emitPath, keysPath, verifyPath string) {
	privs := loadKeys(keysPath)
	em := map[int]*emitted{}
	hx.ReadNDJSON(emitPath, func(i int, e *emitted) { em[e.Id] = e })
	w := hx.NewWriter(verifyPath)
	defer w.Close()
	var sum hx.Summary
	counts := map[string]int{}
	osig := map[int]hx.B{}
	hx.ReadNDJSON(eventsPath, func(i int, e *event) {
		m := em[e.Id]
		if m == nil {
			hx.Die("event %d has no emitted record from pass 1", e.Id)
		}
		brief := map[string]interface{}{"id": e.Id, "case": e.Case, "kind": e.Kind, "algname": e.Alg}
		rawSpell = e.Rawtag != ""
		rawSfx := ""
		if rawSpell {
			rawSfx = ":" + e.Rawtag
		}
		misKey := func(clause, tail string) string { // as Trace_Dnssec!K
			if e.Rawtag == "raw-nonutf8" {
				return clause + ":raw-nonutf8"
			}
			return clause + ":" + tail + rawSfx
		}
		switch e.Ev {
		case "sign":
			osig[e.Id] = hx.B{}
			if !e.Ok {
				return
			}
			osig[e.Id] = hx.FromBytes(bytesOf(e.Out.F["Signature"]))
			sum.Evaluations++
			counts["sign-checked"]++
			// (1) the real signature must be a signature of the octets the specification prescribes
			if !stdVerify(intOf(e.Out.F["Algorithm"]), bytesOf(e.Key.F["PublicKey"]), m.Data.Bytes(), bytesOf(e.Out.F["Signature"])) {
				if e.Signer != "" {
					sum.Mis(misKey("dnssec/sign-signature-encoding", e.Kind),
						"the standard library rejects the signature Sign made from a "+e.Signer+" primitive signature (fixed-width encoding of integers with leading zero octets)", brief)
				} else {
					sum.Mis(misKey("dnssec/sign-not-over-canonical-octets", m.Feature),
						"the standard library rejects the signature made by Sign over the RFC 4034 s.3.1.8.1 octets of the specification", brief)
				}
			}
		case "check":
			sum.Evaluations++
			counts["verify:"+strings.SplitN(e.Kind, ":", 2)[0]]++
			sig := e.Sig
			an := intOf(sig.F["Algorithm"])
			if e.Forge { // (5) a signature made by the standard library over the specification's octets
				priv := privs[e.KeyName]
				if priv == nil {
					hx.Die("no private key %q", e.KeyName)
				}
				if len(m.Data) == 0 {
					return
				}
				sig = clone(sig)
				if e.Signer != "" {
					sig.F["Signature"] = anyBytes(stdSignShort(an, priv, m.Data.Bytes(), e.Signer))
				} else {
					sig.F["Signature"] = anyBytes(stdSign(an, priv, m.Data.Bytes()))
				}
			}
			sigok := len(m.Data) > 0 && stdVerify(an, bytesOf(e.Key.F["PublicKey"]), m.Data.Bytes(), bytesOf(sig.F["Signature"]))
			if e.Forge && !sigok && !e.Otherkey && intOf(e.Key.F["Algorithm"]) == an {
				hx.Die("event %d: the standard library rejects its own signature", e.Id)
			}
			gs, gk := goSig(sig), goKey(e.Key)
			set := goSet(e.Rrset, e.Spell)
			var err error
			if p := hx.Catch(func() { err = gs.Verify(gk, set) }); p != "" {
				sum.Mis("dnssec/verify-panic:"+strings.SplitN(e.Kind, ":", 2)[0], "Verify panicked: "+p, brief)
				return
			}
			v := *e
			v.Ev, v.Sig, v.Data, v.Sigok, v.Accepted = "verify", sig, m.Data, sigok, err == nil
			if o := em[e.Of]; o != nil {
				v.Odata, v.Osig = o.Dataout, osig[e.Of]
			}
			if err != nil {
				v.Err = err.Error()
			}
			v.Req, v.Out = nil, nil
			w.Emit(&v)
		}
	})
	ks := make([]string, 0, len(counts))
	for k := range counts {
		ks = append(ks, k)
	}
	sort.Strings(ks)
	sum.Note("finish_counts", counts)
	sum.Print()
}

func main() {
	if len(os.Args) < 3 {
		hx.Die("usage: dnssec record|finish <layout> ...")
	}
	L = wire.LoadLayout(os.Args[2])
	switch os.Args[1] {
	case "record":
		if len(os.Args) < 8 {
			hx.Die("usage: dnssec record <layout> <events> <keys> <n> <algs> <flipEvery> [only]")
		}
		ns, bs, _ := strings.Cut(os.Args[5], "+") // "<n>" or "<n>+<nbig>"
		n, _ := strconv.Atoi(ns)
		nbig, _ := strconv.Atoi(bs)
		fe, _ := strconv.Atoi(os.Args[7])
		only := -1
		if len(os.Args) > 8 {
			only, _ = strconv.Atoi(os.Args[8])
		}
		record(os.Args[3], os.Args[4], n, nbig, strings.Split(os.Args[6], ","), fe, only)
	case "finish":
		if len(os.Args) < 7 {
			hx.Die("usage: dnssec finish <layout> <events> <emit> <keys> <verify>")
		}
		finish(os.Args[3], os.Args[4], os.Args[5], os.Args[6])
	default:
		hx.Die("unknown mode %s", os.Args[1])
	}
}
