// Command admission binds spec/Admission.tla to the real server and multiplexer (property C14).
//
//	admission replay <vectors.ndjson>            TLC vectors (kind pkt / route) -> real dns.Server / dns.ServeMux
//	admission record pkt <out.ndjson> <n>        random and mutated packets through real servers, logged for Trace_Admission
//	admission record mux <out.ndjson> <rounds>   concurrent Handle/HandleRemove/ServeDNS with call/return sequence numbers
//
// Transports: "pc"  in-memory net.PacketConn (generic PacketConn path of server.go),
//
//	"tcp" in-memory net.Listener, "udp" a real loopback socket (port 0).
//
// Lifecycle phases (Admission!Phases): "serving" -- the message is injected into a running server and disposed of
// before any Shutdown; "stopping" -- one server life per message, its reader wrapped through Server.DecorateReader:
// when the read that carries the message has completed successfully the wrapper holds it back, the harness calls
// Shutdown and waits (hook shutdown.unlock, an observation only) until started is false, the readers are kicked and
// srv.lock is free again, and only then does the read return -- with the message, err == nil.  Everything is forced by
// hand-offs, nothing by timing; on the real socket a datagram that never reaches the reader is "lost" (no observation).
//
// "No reply" is never inferred from the passage of time: on pc the harness waits until the
// server loop is back in ReadFrom and then shuts the server down (Shutdown waits for every
// packet goroutine); on tcp a sentinel query follows the probe on the same connection and the
// connection is served sequentially; on udp a sentinel confirms both datagrams were read
// (counted by a DecorateReader), then the server is shut down.
package main

import (
	"encoding/binary"
	"fmt"
	"io"
	"math/rand"
	"net"
	"os"
	"reflect"
	"strconv"
	"strings"
	"sync"
	"sync/atomic"
	"time"

	"github.com/miekg/dns"

	"verifharness/lib/hx"
	"verifharness/lib/memnet"
)

// ------------------------------------------------------------------ watchdog
//
// Every call into the library that the harness waits for runs under guard: none of them does real I/O (in-memory
// transports, loopback sockets) and each takes microseconds, so a call that has not come back after hangBound is
// blocked for good.  That is a verdict (key ".../hang:<call>"), never a stuck run: the summary is printed and the
// process ends.
const hangBound = 45 * time.Second

var (
	hangSum *hx.Summary // where a hang is reported
	onHang  func()      // flushes what the stage has written so far
)

func guard(key, what string, c interface{}, f func()) {
	done := make(chan struct{})
	go func() {
		defer close(done)
		f()
	}()
	t := time.NewTimer(hangBound)
	defer t.Stop()
	select {
	case <-done:
	case <-t.C:
		hangSum.Mis(key, what+fmt.Sprintf(": no return within %v", hangBound), c)
		if onHang != nil {
			onHang()
		}
		hangSum.Print()
		os.Exit(0)
	}
}

// ------------------------------------------------------------------ header walker (the harness' own, 12 octets)

type hdr struct {
	ID     int `json:"id"`
	QR     int `json:"qr"`
	Opcode int `json:"opcode"`
	AA     int `json:"aa"`
	TC     int `json:"tc"`
	RD     int `json:"rd"`
	RA     int `json:"ra"`
	Z      int `json:"z"`
	AD     int `json:"ad"`
	CD     int `json:"cd"`
	Rcode  int `json:"rcode"`
	QD     int `json:"qd"`
	AN     int `json:"an"`
	NS     int `json:"ns"`
	AR     int `json:"ar"`
}

func walk(b []byte) (h hdr, ok bool) {
	if len(b) < 12 {
		return h, false
	}
	bit := func(x byte, n uint) int { return int(x>>n) & 1 }
	h.ID = int(b[0])<<8 | int(b[1])
	h.QR, h.Opcode, h.AA, h.TC, h.RD = bit(b[2], 7), int(b[2]>>3)&15, bit(b[2], 2), bit(b[2], 1), bit(b[2], 0)
	h.RA, h.Z, h.AD, h.CD, h.Rcode = bit(b[3], 7), bit(b[3], 6), bit(b[3], 5), bit(b[3], 4), int(b[3])&15
	h.QD = int(b[4])<<8 | int(b[5])
	h.AN = int(b[6])<<8 | int(b[7])
	h.NS = int(b[8])<<8 | int(b[9])
	h.AR = int(b[10])<<8 | int(b[11])
	return h, true
}

// ------------------------------------------------------------------ recording handler / callbacks

var sentinelName = "sentinel.verif-harness."

type rec struct {
	mu       sync.Mutex
	handled  int
	reqs     []*dns.Msg
	wrote    [][]byte
	invalid  int
	invLens  []int
	invPkts  [][]byte
	totalH   atomic.Int64 // never reset: the exactly-once totals
	totalI   atomic.Int64
	sentinel atomic.Int64
	inner    dns.Handler       // when set, non-sentinel requests go there (the multiplexer under test)
	accept   dns.MsgAcceptFunc // when set, the server's accept policy (default policy otherwise)
}

func isSentinel(m *dns.Msg) bool {
	return len(m.Question) == 1 && m.Question[0].Name == sentinelName && m.Question[0].Qtype == dns.TypeTXT
}

func sentinelQuery(id uint16) []byte {
	m := new(dns.Msg)
	m.SetQuestion(sentinelName, dns.TypeTXT)
	m.Id = id
	b, err := m.Pack()
	if err != nil {
		hx.Die("pack sentinel: %v", err)
	}
	return b
}

// what the recording handler answers: a header-only reply, ID echoed, QR and AA set, rcode 0
func handlerReply(id uint16) []byte {
	b := make([]byte, 12)
	binary.BigEndian.PutUint16(b, id)
	b[2] = 0x84
	return b
}

func sentinelReply(id uint16) []byte {
	b := handlerReply(id)
	b[3] = 0x0a // rcode 10: nothing the library or the handler produces
	return b
}

func (r *rec) ServeDNS(w dns.ResponseWriter, m *dns.Msg) {
	if isSentinel(m) {
		r.sentinel.Add(1)
		w.Write(sentinelReply(m.Id))
		return
	}
	r.totalH.Add(1)
	if r.inner != nil {
		r.mu.Lock()
		r.handled++
		r.reqs = append(r.reqs, m)
		r.mu.Unlock()
		r.inner.ServeDNS(w, m)
		return
	}
	out := handlerReply(m.Id)
	r.mu.Lock()
	r.handled++
	r.reqs = append(r.reqs, m)
	r.wrote = append(r.wrote, out)
	r.mu.Unlock()
	w.Write(out)
}

func (r *rec) invalidFn(m []byte, err error) {
	r.totalI.Add(1)
	r.mu.Lock()
	r.invalid++
	r.invLens = append(r.invLens, len(m))
	r.invPkts = append(r.invPkts, append([]byte(nil), m...))
	r.mu.Unlock()
}

type obs struct {
	Handled int
	Invalid int
	Replies [][]byte
	Wrote   [][]byte
	Reqs    []*dns.Msg
	Lost    bool // udp only: the datagram never reached the server loop
	InvPkts [][]byte
	// "" or how the service ended although nobody asked for it: the serve call came back by itself (with its error) /
	// Shutdown found the server not started
	Ended string
}

func (r *rec) take() obs {
	r.mu.Lock()
	defer r.mu.Unlock()
	o := obs{Handled: r.handled, Invalid: r.invalid, Wrote: r.wrote, Reqs: r.reqs, InvPkts: r.invPkts}
	r.handled, r.invalid, r.wrote, r.reqs, r.invLens, r.invPkts = 0, 0, nil, nil, nil, nil
	return o
}

// ------------------------------------------------------------------ transports

// pc: one server life per probe on an in-memory net.PacketConn.
func probePC(r *rec, pkt []byte) obs {
	pc := memnet.NewPacketConn()
	started := make(chan struct{})
	srv := &dns.Server{PacketConn: pc, Handler: r, MsgInvalidFunc: r.invalidFn, ReadTimeout: time.Hour,
		NotifyStartedFunc: func() { close(started) }, MsgAcceptFunc: r.accept}
	done := make(chan error, 1)
	go func() { done <- srv.ActivateAndServe() }()
	<-started
	pc.Inject(memnet.Addr("probe"), pkt)
	pc.WaitIdle()
	ended := endServe(srv, done)
	o := r.take()
	for _, p := range pc.Sent() {
		o.Replies = append(o.Replies, p.Data)
	}
	o.Ended = ended
	return o
}

// endServe shuts the server down and collects the serve call.  A server that is still serving gives (nil, nil); anything
// else is an observation (the service ended although nobody had asked for it), never a failure of the harness: the
// serve call had come back by itself (its error), or Shutdown found the server not started.
func endServe(srv *dns.Server, done chan error) string {
	serr := srv.Shutdown()
	derr := <-done
	if serr == nil && derr == nil {
		return ""
	}
	return fmt.Sprintf("serve call returned %v, Shutdown returned %v", derr, serr)
}

// seqPC: one server life on the in-memory PacketConn that receives all the messages, one after the other (the next is
// injected when the loop is back in ReadFrom -- or the conn is closed).  Returns everything observed, the number of
// datagrams the loop took, and how the service ended.
func seqPC(r *rec, msgs []vec) (obs, int) {
	pc := memnet.NewPacketConn()
	started := make(chan struct{})
	srv := &dns.Server{PacketConn: pc, Handler: r, MsgInvalidFunc: r.invalidFn, ReadTimeout: time.Hour,
		NotifyStartedFunc: func() { close(started) }}
	done := make(chan error, 1)
	go func() { done <- srv.ActivateAndServe() }()
	<-started
	for k := range msgs {
		pc.Inject(memnet.Addr("probe"), msgs[k].Pkt.Bytes())
		pc.WaitIdle()
	}
	ended := endServe(srv, done)
	o := r.take()
	for _, p := range pc.Sent() {
		o.Replies = append(o.Replies, p.Data)
	}
	o.Ended = ended
	return o, pc.Received()
}

type countingTCPReader struct {
	dns.Reader
	n *atomic.Int64
}

func (c countingTCPReader) ReadTCP(conn net.Conn, timeout time.Duration) ([]byte, error) {
	m, err := c.Reader.ReadTCP(conn, timeout)
	if err == nil {
		c.n.Add(1)
	}
	return m, err
}

// seqTCP: a server life and ONE connection that carries all the messages; the client half-closes behind the last, the
// server serves what it got and closes, everything it wrote is read up to the end of the stream.
func seqTCP(r *rec, msgs []vec) (obs, int) {
	l := memnet.NewListener()
	started := make(chan struct{})
	var nread atomic.Int64
	srv := &dns.Server{Listener: l, Handler: r, MsgInvalidFunc: r.invalidFn, ReadTimeout: time.Hour,
		IdleTimeout: func() time.Duration { return time.Hour }, MaxTCPQueries: -1,
		DecorateReader:    func(rd dns.Reader) dns.Reader { return countingTCPReader{rd, &nread} },
		NotifyStartedFunc: func() { close(started) }}
	done := make(chan error, 1)
	go func() { done <- srv.ActivateAndServe() }()
	<-started
	c := l.Dial()
	for k := range msgs {
		writeFrame(c, msgs[k].Pkt.Bytes())
	}
	c.CloseWrite()
	data, _ := io.ReadAll(c)
	c.Close()
	ended := endServe(srv, done)
	o := r.take()
	o.Replies = splitFrames(data)
	o.Ended = ended
	return o, int(nread.Load())
}

// splitObs hands what one server life showed to the messages it received: requests, handler output and replies by the
// message ID (the k-th message of a sequence carries its own), invalid-message reports by the octets reported (equal
// messages share them evenly, a surplus or a deficit stays with one of them).  What belongs to no message goes to the first.
func splitObs(msgs []vec, o obs) []obs {
	per := make([]obs, len(msgs))
	idOf := func(b []byte) int {
		if len(b) < 2 {
			return -1
		}
		return int(b[0])<<8 | int(b[1])
	}
	pos := map[int]int{}
	for k := range msgs {
		if p := msgs[k].Pkt.Bytes(); len(p) >= 2 {
			pos[idOf(p)] = k
		}
	}
	at := func(id int) int { return pos[id] }
	for _, q := range o.Reqs {
		k := at(int(q.Id))
		per[k].Handled++
		per[k].Reqs = append(per[k].Reqs, q)
	}
	for _, w := range o.Wrote {
		k := at(idOf(w))
		per[k].Wrote = append(per[k].Wrote, w)
	}
	for _, b := range o.Replies {
		k := at(idOf(b))
		per[k].Replies = append(per[k].Replies, b)
	}
	for _, b := range o.InvPkts {
		best := -1
		for k := range msgs {
			if string(msgs[k].Pkt.Bytes()) == string(b) && (best < 0 || per[k].Invalid < per[best].Invalid) {
				best = k
			}
		}
		if best < 0 {
			best = 0
		}
		per[best].Invalid++
	}
	return per
}

// judgeSeq: every message the server took is judged like a message of its own (the vector carries the outcome
// OutcomeAfter gives it behind the earlier ones); the message behind which the service ended is compared with the
// specification's `ends'.
func judgeSeq(v *vec, tr string, o obs, received int, sum *hx.Summary) {
	per := splitObs(v.Msgs, o)
	for k := range v.Msgs {
		if k >= received {
			break // never received: the service had ended (reported below) or the connection was gone
		}
		m := v.Msgs[k]
		m.Seq = fmt.Sprintf("message %d of %d on one %s", k+1, len(v.Msgs), map[string]string{"pc": "socket", "tcp": "connection"}[tr])
		m.Context = v.Msgs
		if k == received-1 {
			per[k].Ended = o.Ended
		}
		judgePkt(&m, tr, per[k], sum)
	}
	if received == 0 && o.Ended != "" {
		sum.Mis("server-"+tr+"/service-ended:before-any-message", "the service ended before any message was taken: "+o.Ended, v)
	}
}

// tcp: one server and one connection for many probes; each probe is followed by a sentinel.
type tcpRig struct {
	r     *rec
	l     *memnet.Listener
	srv   *dns.Server
	c     *memnet.Conn
	done  chan error
	n     int
	sid   uint16
	ended int // connections the server ended before the sentinel was answered
}

func newTCPRig(r *rec) *tcpRig {
	t := &tcpRig{r: r, l: memnet.NewListener(), done: make(chan error, 1)}
	started := make(chan struct{})
	t.srv = &dns.Server{Listener: t.l, Handler: r, MsgInvalidFunc: r.invalidFn, ReadTimeout: time.Hour,
		IdleTimeout: func() time.Duration { return time.Hour }, MaxTCPQueries: -1,
		NotifyStartedFunc: func() { close(started) }}
	go func() { t.done <- t.srv.ActivateAndServe() }()
	<-started
	return t
}

func writeFrame(c net.Conn, p []byte) {
	b := make([]byte, 2+len(p))
	binary.BigEndian.PutUint16(b, uint16(len(p)))
	copy(b[2:], p)
	if _, err := c.Write(b); err != nil {
		hx.Die("tcp write: %v", err)
	}
}

func readFrame(c net.Conn) ([]byte, error) {
	var l [2]byte
	if _, err := io.ReadFull(c, l[:]); err != nil {
		return nil, err
	}
	b := make([]byte, binary.BigEndian.Uint16(l[:]))
	_, err := io.ReadFull(c, b)
	return b, err
}

func (t *tcpRig) probe(pkt []byte) obs {
	if t.c == nil || t.n >= 500 {
		if t.c != nil {
			t.c.Close()
		}
		t.c, t.n = t.l.Dial(), 0
	}
	t.n++
	t.sid++
	writeFrame(t.c, pkt)
	writeFrame(t.c, sentinelQuery(t.sid))
	want := string(sentinelReply(t.sid))
	var replies [][]byte
	for {
		f, err := readFrame(t.c)
		if err != nil {
			// The server ended the connection before it answered the sentinel.  The stream was read to its end, so what
			// the probe got is complete (a connection is served by one goroutine, handlers included); the sentinel was
			// not "received" by anybody -- whether a server may hang up after a message is not the statement's business
			// (counted, not judged).  The next probe dials again.
			t.c.Close()
			t.c = nil
			t.ended++
			break
		}
		if string(f) == want {
			break
		}
		replies = append(replies, f)
	}
	o := t.r.take()
	o.Replies = replies
	return o
}

// probeSeg: the same over a connection of its own whose octets reach the server in the given segments (chunk sizes of
// the 2-octet prefix + message stream; after the list everything that is left).  The client half-closes after the
// frame, the server serves what it got and closes, and everything it wrote is read up to the end of the stream: no
// reply is "the stream ended without one".
func (t *tcpRig) probeSeg(pkt []byte, chunks []int) obs {
	c, s := memnet.Pipe()
	s.SetChunks(chunks)
	t.l.DialWith(s)
	writeFrame(c, pkt)
	c.CloseWrite()
	data, _ := io.ReadAll(c)
	c.Close()
	o := t.r.take()
	for len(data) >= 2 {
		n := int(binary.BigEndian.Uint16(data))
		if 2+n > len(data) {
			n = len(data) - 2
		}
		o.Replies = append(o.Replies, data[2:2+n])
		data = data[2+n:]
	}
	if len(data) > 0 {
		o.Replies = append(o.Replies, data)
	}
	return o
}

// the segmentations every stream message must survive: the prefix alone, the prefix with the first k octets, octet by
// octet, a cut inside / at the end of / just behind the 12-octet header, a cut inside the prefix
func segmentations(n int) map[string][]int {
	ones := make([]int, n+2)
	for i := range ones {
		ones[i] = 1
	}
	return map[string][]int{
		"prefix-alone":  {2},
		"prefix+1":      {3},
		"prefix+5":      {7},
		"header-11":     {2 + 11},
		"header-12":     {2 + 12},
		"header-13":     {2 + 13},
		"inside-prefix": {1},
		"octets":        ones,
		"halves":        {2 + n/2},
	}
}

var segNames = []string{"prefix-alone", "prefix+1", "prefix+5", "header-11", "header-12", "header-13", "inside-prefix", "octets", "halves"}

// close ends the rig; "" or how the service had ended by itself (the serve call came back although nobody called
// Shutdown): an observation.
func (t *tcpRig) close(sum *hx.Summary) {
	if t.c != nil {
		t.c.Close()
	}
	if how := endServe(t.srv, t.done); how != "" {
		sum.Mis("server-tcp/service-ended:listener", "the service on the in-memory listener ended although nobody had called Shutdown: "+how, nil)
	}
	sum.Note("tcp_connections_ended_by_server", t.ended)
}

// udp: a real loopback socket.  A DecorateReader counts the datagrams the server loop has read.
type countingReader struct {
	dns.Reader
	n *atomic.Int64
}

func (c countingReader) ReadUDP(conn *net.UDPConn, timeout time.Duration) ([]byte, *dns.SessionUDP, error) {
	m, s, err := c.Reader.ReadUDP(conn, timeout)
	if err == nil {
		c.n.Add(1)
	}
	return m, s, err
}

func probeUDP(r *rec, pkt []byte) obs {
	sc, err := net.ListenUDP("udp", &net.UDPAddr{IP: net.IPv4(127, 0, 0, 1), Port: 0})
	if err != nil {
		hx.Die("listen udp: %v", err)
	}
	var nread atomic.Int64
	r.sentinel.Store(0)
	started := make(chan struct{})
	srv := &dns.Server{PacketConn: sc, Handler: r, MsgInvalidFunc: r.invalidFn,
		DecorateReader:    func(rd dns.Reader) dns.Reader { return countingReader{rd, &nread} },
		NotifyStartedFunc: func() { close(started) }}
	done := make(chan error, 1)
	go func() { done <- srv.ActivateAndServe() }()
	<-started
	cc, err := net.DialUDP("udp", nil, sc.LocalAddr().(*net.UDPAddr))
	if err != nil {
		hx.Die("dial udp: %v", err)
	}
	defer cc.Close()
	if _, err := cc.Write(pkt); err != nil {
		hx.Die("udp write: %v", err)
	}
	var replies [][]byte
	buf := make([]byte, 65536)
	answered := false
	ended, serveErr := false, error(nil)
	for try := 0; try < 3 && !answered && !ended; try++ {
		sid := uint16(40000 + try)
		cc.Write(sentinelQuery(sid))
		want := string(sentinelReply(sid))
		until := time.Now().Add(3 * time.Second)
		for {
			// the wait is cut into slices: a serve call that has come back by itself (nobody called Shutdown) is an
			// observation, not a lost datagram
			select {
			case serveErr = <-done:
				ended = true
			default:
			}
			if ended || !time.Now().Before(until) {
				break
			}
			cc.SetReadDeadline(time.Now().Add(100 * time.Millisecond))
			n, err := cc.Read(buf)
			if err != nil {
				if ne, ok := err.(net.Error); !(ok && ne.Timeout()) {
					time.Sleep(20 * time.Millisecond) // e.g. "connection refused": the socket is gone; the serve call is about to return
				}
				continue
			}
			if string(buf[:n]) == want {
				answered = true
				break
			}
			if n >= 12 && buf[3]&0xf == 0x0a && buf[2] == 0x84 {
				continue // an earlier sentinel's late answer
			}
			replies = append(replies, append([]byte(nil), buf[:n]...))
		}
	}
	sentinels := r.sentinel.Swap(0)
	lost := !answered || nread.Load() != 1+sentinels
	endedHow := ""
	if ended {
		// the serve call has returned: every packet goroutine is done (serveUDP waits for them)
		lost = false
		endedHow = fmt.Sprintf("serve call returned %v before anybody called Shutdown (%d datagram(s) read)", serveErr, nread.Load())
		srv.Shutdown()
	} else {
		endedHow = endServe(srv, done) // waits for every packet goroutine
	}
	// whatever the server wrote is in our receive queue by now (loopback delivery is synchronous)
	for {
		cc.SetReadDeadline(time.Now().Add(30 * time.Millisecond))
		n, err := cc.Read(buf)
		if err != nil {
			break
		}
		if n >= 12 && buf[3]&0xf == 0x0a && buf[2] == 0x84 {
			continue
		}
		replies = append(replies, append([]byte(nil), buf[:n]...))
	}
	o := r.take()
	o.Replies = replies
	o.Lost = lost
	o.Ended = endedHow
	return o
}

// ------------------------------------------------------------------ phase "stopping"

// unlocked: servers whose next Shutdown the harness wants to hear about (closed by the shutdown.unlock hook: started
// is false, the listener is closed / the deadlines are moved, srv.lock is about to be released).
var unlocked sync.Map // *dns.Server -> *stopSignal

type stopSignal struct {
	once sync.Once
	ch   chan struct{}
}

func installHook() {
	dns.VerifHook = func(ev string, srv *dns.Server, a, b uintptr) {
		if ev == dns.VerifEvShutUnlock {
			if s, ok := unlocked.Load(srv); ok {
				ss := s.(*stopSignal)
				ss.once.Do(func() { close(ss.ch) })
			}
		}
	}
}

// stoppingReader holds back the first successful read until the harness says so.
type stoppingReader struct {
	dns.Reader
	got     chan struct{} // closed when the first read that returned a message has completed
	release chan struct{} // closed by the harness
	once    *sync.Once
}

func newStoppingReader() *stoppingReader {
	return &stoppingReader{got: make(chan struct{}), release: make(chan struct{}), once: new(sync.Once)}
}

func (s *stoppingReader) wrap(rd dns.Reader) dns.Reader {
	return &stoppingReader{Reader: rd, got: s.got, release: s.release, once: s.once}
}

func (s *stoppingReader) hold(err error) {
	if err != nil {
		return
	}
	first := false
	s.once.Do(func() { first = true })
	if first {
		close(s.got)
		<-s.release
	}
}

func (s *stoppingReader) ReadTCP(conn net.Conn, timeout time.Duration) ([]byte, error) {
	m, err := s.Reader.ReadTCP(conn, timeout)
	s.hold(err)
	return m, err
}

func (s *stoppingReader) ReadUDP(conn *net.UDPConn, timeout time.Duration) ([]byte, *dns.SessionUDP, error) {
	m, su, err := s.Reader.ReadUDP(conn, timeout)
	s.hold(err)
	return m, su, err
}

func (s *stoppingReader) ReadPacketConn(conn net.PacketConn, timeout time.Duration) ([]byte, net.Addr, error) {
	m, a, err := s.Reader.(dns.PacketConnReader).ReadPacketConn(conn, timeout)
	s.hold(err)
	return m, a, err
}

// stopWhileHeld: the message has been read and is held back; Shutdown is called and, once it has released srv.lock,
// the read returns.  Shutdown and the serve call must then both come back (nil).
func stopWhileHeld(tr string, srv *dns.Server, rd *stoppingReader, done chan error) string {
	sig := &stopSignal{ch: make(chan struct{})}
	unlocked.Store(srv, sig)
	defer unlocked.Delete(srv)
	shut := make(chan error, 1)
	go func() { shut <- srv.Shutdown() }()
	<-sig.ch
	close(rd.release)
	serr, derr := <-shut, <-done
	if serr == nil && derr == nil {
		return ""
	}
	return fmt.Sprintf("serve call returned %v, Shutdown returned %v", derr, serr)
}

func probePCStopping(r *rec, pkt []byte) obs {
	pc := memnet.NewPacketConn()
	started := make(chan struct{})
	rd := newStoppingReader()
	srv := &dns.Server{PacketConn: pc, Handler: r, MsgInvalidFunc: r.invalidFn, ReadTimeout: time.Hour,
		NotifyStartedFunc: func() { close(started) }, MsgAcceptFunc: r.accept, DecorateReader: rd.wrap}
	done := make(chan error, 1)
	go func() { done <- srv.ActivateAndServe() }()
	<-started
	pc.Inject(memnet.Addr("probe"), pkt)
	how := ""
	select {
	case <-rd.got:
		how = stopWhileHeld("pc", srv, rd, done)
	case err := <-done: // the serve call came back instead of handing the datagram on: an observation
		how = fmt.Sprintf("serve call returned %v before the read of the datagram had completed successfully", err)
		srv.Shutdown()
	}
	o := r.take()
	for _, p := range pc.Sent() {
		o.Replies = append(o.Replies, p.Data)
	}
	o.Ended = how
	return o
}

func splitFrames(data []byte) (out [][]byte) {
	for len(data) >= 2 {
		n := int(binary.BigEndian.Uint16(data))
		if 2+n > len(data) {
			n = len(data) - 2
		}
		out = append(out, data[2:2+n])
		data = data[2+n:]
	}
	if len(data) > 0 {
		out = append(out, data)
	}
	return out
}

// tcp: a server life and a connection of its own; the connection is served to its end (the worker leaves its loop
// because the server is not started any more), so "no reply" is "the stream ended without one".
func probeTCPStopping(r *rec, pkt []byte) obs {
	l := memnet.NewListener()
	started := make(chan struct{})
	rd := newStoppingReader()
	srv := &dns.Server{Listener: l, Handler: r, MsgInvalidFunc: r.invalidFn, ReadTimeout: time.Hour,
		IdleTimeout: func() time.Duration { return time.Hour }, MaxTCPQueries: -1,
		NotifyStartedFunc: func() { close(started) }, MsgAcceptFunc: r.accept, DecorateReader: rd.wrap}
	done := make(chan error, 1)
	go func() { done <- srv.ActivateAndServe() }()
	<-started
	c := l.Dial()
	writeFrame(c, pkt)
	<-rd.got
	how := stopWhileHeld("tcp", srv, rd, done)
	data, _ := io.ReadAll(c)
	c.Close()
	o := r.take()
	o.Replies = splitFrames(data)
	o.Ended = how
	return o
}

// udp: the real socket.  A datagram that has not reached the reader after 3 s counts as lost (no observation).
func probeUDPStopping(r *rec, pkt []byte) obs {
	sc, err := net.ListenUDP("udp", &net.UDPAddr{IP: net.IPv4(127, 0, 0, 1), Port: 0})
	if err != nil {
		hx.Die("listen udp: %v", err)
	}
	started := make(chan struct{})
	rd := newStoppingReader()
	srv := &dns.Server{PacketConn: sc, Handler: r, MsgInvalidFunc: r.invalidFn, ReadTimeout: time.Hour,
		NotifyStartedFunc: func() { close(started) }, DecorateReader: rd.wrap}
	done := make(chan error, 1)
	go func() { done <- srv.ActivateAndServe() }()
	<-started
	cc, err := net.DialUDP("udp", nil, sc.LocalAddr().(*net.UDPAddr))
	if err != nil {
		hx.Die("dial udp: %v", err)
	}
	defer cc.Close()
	if _, err := cc.Write(pkt); err != nil {
		hx.Die("udp write: %v", err)
	}
	lost := false
	how := ""
	select {
	case <-rd.got:
		how = stopWhileHeld("udp", srv, rd, done)
	case <-time.After(3 * time.Second):
		lost = true
		close(rd.release) // should the datagram still arrive it is not held back
		srv.Shutdown()
		<-done
	}
	var replies [][]byte
	buf := make([]byte, 65536)
	for {
		cc.SetReadDeadline(time.Now().Add(30 * time.Millisecond))
		n, err := cc.Read(buf)
		if err != nil {
			break
		}
		replies = append(replies, append([]byte(nil), buf[:n]...))
	}
	o := r.take()
	o.Replies = replies
	o.Lost = lost
	o.Ended = how
	return o
}

// ------------------------------------------------------------------ vectors

type expRec struct {
	ID     int `json:"id"`
	QR     int `json:"qr"`
	Rcode  int `json:"rcode"`
	Opcode int `json:"opcode"`
	RD     int `json:"rd"`
	CD     int `json:"cd"`
	AN     int `json:"an"`
	NS     int `json:"ns"`
	AR     int `json:"ar"`
	QD     int `json:"qd"`
}

type outRec struct {
	Handled int    `json:"handled"`
	Invalid int    `json:"invalid"`
	Reply   string `json:"reply"`
	Exp     expRec `json:"exp"`
}

type reqRec struct {
	NQ     int  `json:"nq"`
	NAN    int  `json:"nan"`
	NNS    int  `json:"nns"`
	NAR    int  `json:"nar"`
	QName  hx.B `json:"qname"`
	QType  int  `json:"qtype"`
	QClass int  `json:"qclass"`
}

type vec struct {
	Kind   string `json:"kind"`
	Phase  string `json:"phase"` // pkt: Admission!Phases ("" = "serving")
	Pkt    hx.B   `json:"pkt"`
	Hdr    hdr    `json:"hdr"`
	Body   int    `json:"body"`
	Policy string `json:"policy"`
	Dec    string `json:"dec"`
	IfDec  outRec `json:"ifdec"`
	IfNot  outRec `json:"ifnot"`
	Req    reqRec `json:"req"`
	// route
	Pats         []hx.B `json:"pats"`
	PatIdx       []int  `json:"patidx"`
	HasQ         bool   `json:"hasq"`
	QName        hx.B   `json:"qname"`
	QType        int    `json:"qtype"`
	Cls          string `json:"cls"`
	Admitted     []int  `json:"admitted"`
	Refused      bool   `json:"refused"`
	Past         []int  `json:"past"`
	Exp          expRec `json:"exp"`
	ExtraQ       []hx.B `json:"extraq"`       // names of further questions behind the first
	EmptyRefused bool   `json:"emptyrefused"` // the spec's verdict for the same request when no pattern is registered
	// filled by the harness for the replay file
	Transport string `json:"transport,omitempty"`
	Seg       string `json:"seg,omitempty"` // tcp: how the octets were segmented
	// seq: the messages one server life receives; pkt: does the message end the service (spec: never)
	Msgs    []vec  `json:"msgs,omitempty"`
	Ends    bool   `json:"ends"`
	Seq     string `json:"seq,omitempty"`     // filled by the harness: position in the sequence
	Context []vec  `json:"context,omitempty"` // filled by the harness: the whole sequence
}

// compare a reply header with the spec's table (-1 = not constrained); returns the first field that differs
func shapeDiff(got hdr, e expRec) string {
	type f struct {
		n    string
		g, w int
	}
	for _, x := range []f{{"id", got.ID, e.ID}, {"qr", got.QR, e.QR}, {"rcode", got.Rcode, e.Rcode}, {"opcode", got.Opcode, e.Opcode},
		{"rd", got.RD, e.RD}, {"cd", got.CD, e.CD}, {"qdcount", got.QD, e.QD}, {"ancount", got.AN, e.AN}, {"nscount", got.NS, e.NS}, {"arcount", got.AR, e.AR}} {
		if x.w >= 0 && x.g != x.w {
			return x.n
		}
	}
	return ""
}

func stopping(v *vec) bool {
	switch v.Phase {
	case "", "serving":
		return false
	case "stopping":
		return true
	}
	hx.Die("unknown phase %q", v.Phase)
	return false
}

func polClass(v *vec) string {
	if len(v.Pkt) < 12 {
		return "short"
	}
	return v.Policy
}

func judgePkt(v *vec, tr string, o obs, sum *hx.Summary) {
	pkt := v.Pkt.Bytes()
	realDec := new(dns.Msg).Unpack(pkt) == nil
	want := v.IfNot
	if v.Dec == "yes" || (v.Dec == "either" && realDec) {
		want = v.IfDec
	}
	cs := *v
	cs.Transport = tr
	pre := "server-" + tr + "/"
	pc := polClass(v)
	seg := ""
	if v.Seg != "" {
		seg = ", segments " + v.Seg
	}
	if stopping(v) {
		pre += "stopping/"
		seg += ", read completes while Shutdown is in progress"
	}
	mis := func(key, what string) {
		sum.Mis(pre+key, fmt.Sprintf("[%s%s, policy %s, body %d, %d octets] %s", tr, seg, pc, v.Body, len(pkt), what), &cs)
	}

	if v.Seq != "" {
		seg += ", " + v.Seq
	}
	if (o.Ended != "") != v.Ends {
		mis("service-ended:"+pc, "the message ended the service: "+o.Ended+"; every later message goes unhandled")
	}
	switch {
	case o.Handled > 1:
		mis("handler-invoked-more-than-once", fmt.Sprintf("handler invoked %d times for one message", o.Handled))
	case o.Handled > want.Handled:
		mis("handler-invoked-unexpectedly:"+pc, "handler invoked for a message that must not reach it")
	case o.Handled < want.Handled:
		mis("handler-not-invoked:"+pc, "accepted and decodable message did not reach the handler")
	}
	switch {
	case o.Invalid > 1:
		mis("invalid-callback-more-than-once", fmt.Sprintf("MsgInvalidFunc called %d times for one message", o.Invalid))
	case o.Invalid > want.Invalid:
		mis("invalid-callback-unexpected:"+pc, "MsgInvalidFunc called for a message that was handled or refused by the policy")
	case o.Invalid < want.Invalid:
		k := "undecodable"
		if len(pkt) < 12 {
			k = "short"
		}
		mis("invalid-callback-missing:"+k, "message neither handled nor refused by the policy was not reported to MsgInvalidFunc")
	}
	// replies
	switch want.Reply {
	case "none":
		if len(o.Replies) != 0 {
			mis("reply-unexpected:"+pc, fmt.Sprintf("%d reply(ies) written for a message that must not be answered", len(o.Replies)))
		}
	case "handler":
		if len(o.Replies) != len(o.Wrote) || len(o.Replies) != 1 || string(o.Replies[0]) != string(o.Wrote[0]) {
			mis("reply-not-the-handlers", fmt.Sprintf("handled message: %d replies on the wire, handler wrote %d", len(o.Replies), len(o.Wrote)))
		}
	default:
		if len(o.Replies) == 0 {
			mis("reply-missing:"+want.Reply, "no reply written, spec: "+want.Reply)
		} else if len(o.Replies) > 1 {
			mis("reply-duplicated:"+want.Reply, fmt.Sprintf("%d replies written, spec: one %s", len(o.Replies), want.Reply))
		} else if rh, ok := walk(o.Replies[0]); !ok {
			mis("reply-shape:"+want.Reply+":short", "reply shorter than a header")
		} else if d := shapeDiff(rh, want.Exp); d != "" {
			mis("reply-shape:"+want.Reply+":"+d, fmt.Sprintf("library-built %s reply has %s wrong: got %+v want %+v", want.Reply, d, rh, want.Exp))
		}
	}
	// the request the handler was given
	if o.Handled == 1 && want.Handled == 1 {
		got := o.Reqs[0]
		ref := new(dns.Msg)
		if err := ref.Unpack(pkt); err != nil || !reflect.DeepEqual(ref, got) {
			mis("handler-request-differs:unpack", "request given to the handler differs from Unpack of the same octets")
		}
		if v.Dec == "yes" {
			h := v.Hdr
			b := func(x bool) int {
				if x {
					return 1
				}
				return 0
			}
			type f struct {
				n    string
				g, w int
			}
			for _, x := range []f{{"id", int(got.Id), h.ID}, {"opcode", got.Opcode, h.Opcode}, {"qr", b(got.Response), h.QR}, {"aa", b(got.Authoritative), h.AA},
				{"tc", b(got.Truncated), h.TC}, {"rd", b(got.RecursionDesired), h.RD}, {"ra", b(got.RecursionAvailable), h.RA}, {"ad", b(got.AuthenticatedData), h.AD},
				{"cd", b(got.CheckingDisabled), h.CD}, {"rcode", got.Rcode, h.Rcode},
				{"nq", len(got.Question), v.Req.NQ}, {"nan", len(got.Answer), v.Req.NAN}, {"nns", len(got.Ns), v.Req.NNS}, {"nar", len(got.Extra), v.Req.NAR}} {
				if x.g != x.w {
					mis("handler-request-differs:"+x.n, fmt.Sprintf("decoded request has %s=%d, sent %d", x.n, x.g, x.w))
				}
			}
			if len(got.Question) >= 1 && v.Req.NQ >= 1 {
				q := got.Question[0]
				if q.Name != v.Req.QName.String() || int(q.Qtype) != v.Req.QType || int(q.Qclass) != v.Req.QClass {
					mis("handler-request-differs:question", fmt.Sprintf("decoded question %v", q))
				}
			}
		}
	}
}

// ------------------------------------------------------------------ multiplexer vectors

type recWriter struct {
	msgs []*dns.Msg
	raw  [][]byte
}

func (w *recWriter) LocalAddr() net.Addr         { return memnet.Addr("local") }
func (w *recWriter) RemoteAddr() net.Addr        { return memnet.Addr("remote") }
func (w *recWriter) WriteMsg(m *dns.Msg) error   { w.msgs = append(w.msgs, m); return nil }
func (w *recWriter) Write(b []byte) (int, error) { w.raw = append(w.raw, b); return len(b), nil }
func (w *recWriter) Close() error                { return nil }
func (w *recWriter) TsigStatus() error           { return nil }
func (w *recWriter) TsigTimersOnly(bool)         {}
func (w *recWriter) Hijack()                     {}

func reqOf(v *vec) *dns.Msg {
	m := new(dns.Msg)
	h := v.Hdr
	m.Id = uint16(h.ID)
	m.Opcode = h.Opcode
	m.RecursionDesired = h.RD == 1
	m.CheckingDisabled = h.CD == 1
	if v.HasQ {
		m.Question = []dns.Question{{Name: v.QName.String(), Qtype: uint16(v.QType), Qclass: dns.ClassINET}}
		for _, n := range v.ExtraQ {
			m.Question = append(m.Question, dns.Question{Name: n.String(), Qtype: dns.TypeMX, Qclass: dns.ClassINET})
		}
	}
	return m
}

func contains(xs []int, x int) bool {
	for _, y := range xs {
		if y == x {
			return true
		}
	}
	return false
}

// judge one dispatch: calls = pattern indices of invoked handlers, refusedMsgs = REFUSED replies seen (header + echoed questions)
func judgeRoute(v *vec, via string, calls []int, refHdr []hdr, refQ [][]dns.Question, sum *hx.Summary) {
	cs := *v
	cs.Transport = via
	mis := func(key, what string) {
		sum.Mis("mux/"+key, fmt.Sprintf("[%s] patterns %v, %s type %d: %s", via, patStrings(v), v.QName.String(), v.QType, what), &cs)
	}
	if len(calls)+len(refHdr) != 1 {
		mis("dispatch-not-exactly-once", fmt.Sprintf("%d handler invocations and %d REFUSED replies for one request", len(calls), len(refHdr)))
		return
	}
	if len(calls) == 1 {
		switch {
		case contains(v.Admitted, calls[0]):
		case contains(v.Past, calls[0]):
			mis(v.Cls+"-routed-past-nearest-parent", fmt.Sprintf("dispatched to pattern #%d, admitted %v", calls[0], v.Admitted))
		case len(v.Admitted) == 0:
			mis(v.Cls+"-dispatched-without-match", fmt.Sprintf("dispatched to pattern #%d although no registered pattern is a suffix", calls[0]))
		default:
			mis(v.Cls+"-wrong-handler", fmt.Sprintf("dispatched to pattern #%d, admitted %v", calls[0], v.Admitted))
		}
		return
	}
	if !v.Refused {
		mis(v.Cls+"-refused-despite-match", fmt.Sprintf("REFUSED although pattern(s) %v match", v.Admitted))
		return
	}
	if d := shapeDiff(refHdr[0], v.Exp); d != "" {
		mis("refused-shape:"+d, fmt.Sprintf("REFUSED reply has %s wrong: got %+v want %+v", d, refHdr[0], v.Exp))
	}
	var wantQ []dns.Question
	if v.HasQ {
		wantQ = []dns.Question{{Name: v.QName.String(), Qtype: uint16(v.QType), Qclass: dns.ClassINET}}
	}
	if len(refQ[0]) != len(wantQ) || (len(wantQ) == 1 && refQ[0][0] != wantQ[0]) {
		mis("refused-shape:question", fmt.Sprintf("REFUSED reply echoes %v, request had %v", refQ[0], wantQ))
	}
}

func patStrings(v *vec) []string {
	var s []string
	for _, p := range v.Pats {
		s = append(s, p.String())
	}
	return s
}

func buildMux(v *vec, calls *[]int, mu *sync.Mutex) *dns.ServeMux {
	mux := dns.NewServeMux()
	for k, p := range v.Pats {
		idx := v.PatIdx[k]
		mux.HandleFunc(p.String(), func(w dns.ResponseWriter, r *dns.Msg) {
			mu.Lock()
			*calls = append(*calls, idx)
			mu.Unlock()
			w.Write(handlerReply(r.Id))
		})
	}
	return mux
}

// one ServeDNS call on mux with a recording writer; returns what judgeRoute needs
func serveOnce(mux *dns.ServeMux, v *vec, sum *hx.Summary, what string) (hs []hdr, qs [][]dns.Question, ok bool) {
	w := &recWriter{}
	guard("mux/hang:ServeDNS", "ServeMux.ServeDNS ("+what+") does not return", v, func() { mux.ServeDNS(w, reqOf(v)) })
	for _, m := range w.msgs {
		b, err := m.Pack()
		if err != nil {
			sum.Mis("mux/refused-unpackable", "REFUSED reply does not pack: "+err.Error(), v)
			return nil, nil, false
		}
		h, _ := walk(b)
		hs = append(hs, h)
		qs = append(qs, m.Question)
	}
	return hs, qs, true
}

// The life of a multiplexer: a request while nothing has ever been registered, the registrations, the request the
// vector is about, the removals, a request when nothing is registered any more.
func routeDirect(v *vec, sum *hx.Summary) {
	var calls []int
	var mu sync.Mutex
	mux := dns.NewServeMux()
	none := *v
	none.Pats, none.PatIdx, none.Admitted, none.Past, none.Refused = nil, nil, nil, nil, v.EmptyRefused
	if hs, qs, ok := serveOnce(mux, v, sum, "nothing registered yet"); ok {
		judgeRoute(&none, "direct:never-populated", calls, hs, qs, sum)
	}
	calls = nil
	for k, p := range v.Pats {
		idx := v.PatIdx[k]
		guard("mux/hang:Handle", "ServeMux.HandleFunc after a request on the still empty multiplexer does not return", v, func() {
			mux.HandleFunc(p.String(), func(w dns.ResponseWriter, r *dns.Msg) {
				mu.Lock()
				calls = append(calls, idx)
				mu.Unlock()
				w.Write(handlerReply(r.Id))
			})
		})
	}
	if hs, qs, ok := serveOnce(mux, v, sum, "patterns registered"); ok {
		judgeRoute(v, "direct", calls, hs, qs, sum)
	}
	calls = nil
	for _, p := range v.Pats {
		guard("mux/hang:HandleRemove", "ServeMux.HandleRemove does not return", v, func() { mux.HandleRemove(p.String()) })
	}
	if hs, qs, ok := serveOnce(mux, v, sum, "everything removed again"); ok {
		judgeRoute(&none, "direct:all-removed", calls, hs, qs, sum)
	}
}

// the same through a real server on the in-memory packet conn: the reply is what a client sees
func routeServer(v *vec, sum *hx.Summary) {
	if !v.HasQ || v.Hdr.Opcode == 5 {
		return // the default accept policy stops these before the multiplexer
	}
	var calls []int
	var mu sync.Mutex
	r := &rec{inner: buildMux(v, &calls, &mu)}
	pkt, err := reqOf(v).Pack()
	if err != nil {
		hx.Die("pack route request: %v", err)
	}
	if len(v.ExtraQ) > 0 {
		// the default policy stops a query with several questions; a server whose policy admits them hands them to the multiplexer
		r.accept = func(dh dns.Header) dns.MsgAcceptAction {
			if dh.Bits&(1<<15) != 0 {
				return dns.MsgIgnore
			}
			return dns.MsgAccept
		}
	}
	o := probePC(r, pkt)
	var hs []hdr
	var qs [][]dns.Question
	for _, b := range o.Replies {
		h, ok := walk(b)
		if !ok {
			sum.Mis("mux/reply-short", "reply shorter than a header", v)
			return
		}
		if h.Rcode == 0 && h.AA == 1 {
			continue // a registered handler's answer
		}
		m := new(dns.Msg)
		if err := m.Unpack(b); err != nil {
			sum.Mis("mux/refused-undecodable", "REFUSED reply does not decode: "+err.Error(), v)
			return
		}
		hs = append(hs, h)
		qs = append(qs, m.Question)
	}
	if o.Handled != 1 {
		sum.Mis("mux/server-did-not-dispatch", fmt.Sprintf("valid query reached Server.Handler %d times", o.Handled), v)
		return
	}
	judgeRoute(v, "server", calls, hs, qs, sum)
}

// ------------------------------------------------------------------ replay

func replay(path string) {
	var sum hx.Summary
	hangSum = &sum
	r := &rec{}
	tcp := newTCPRig(r)
	seen := map[string]bool{}
	udpEvery := 97
	if hx.Thorough() {
		udpEvery = 23
	}
	npkt, nroute, nudp, nlost, nseg, nphase, nseqs := 0, 0, 0, 0, 0, 0, 0
	var udpJobs []*vec
	hx.ReadNDJSON(path, func(i int, v *vec) {
		if v.Kind == "pkt" && len(v.Context) > 0 { // a replay file: one message of a sequence; the whole sequence is run again
			v = &vec{Kind: "seq", Msgs: v.Context, Transport: v.Transport}
		}
		switch v.Kind {
		case "pkt":
			pkt := v.Pkt.Bytes()
			npkt++
			seen[string(pkt)] = true
			transports := []string{"pc", "tcp"}
			if v.Transport != "" {
				transports = []string{v.Transport}
			} else if i%udpEvery == 0 || len(pkt) < 12 || v.Policy == "accept" {
				transports = append(transports, "udp")
			}
			if stopping(v) {
				nphase++
				if v.Transport == "" && !(i%7 == 0 || len(pkt) < 12 || (v.Policy == "accept" && v.Body <= 1)) {
					transports = []string{"pc", "tcp"} // the real socket: a sample
				}
				for _, tr := range transports {
					var o obs
					switch tr {
					case "pc":
						guard("server-pc/stopping/hang:serve", "in-memory PacketConn, datagram read while Shutdown is in progress: not served to the end / Shutdown does not return", v, func() { o = probePCStopping(r, pkt) })
					case "tcp":
						guard("server-tcp/stopping/hang:serve", "in-memory listener, message read while Shutdown is in progress: not served to the end / Shutdown does not return", v, func() { o = probeTCPStopping(r, pkt) })
					case "udp":
						lr := &rec{}
						for try := 0; try < 3; try++ {
							guard("server-udp/stopping/hang:serve", "loopback socket, datagram read while Shutdown is in progress: not served to the end / Shutdown does not return", v, func() { o = probeUDPStopping(lr, pkt) })
							if !o.Lost {
								break
							}
							nlost++
						}
						nudp++
						if o.Lost {
							continue
						}
					}
					sum.Evaluations++
					judgePkt(v, tr, o, &sum)
				}
				break
			}
			for _, tr := range transports {
				switch tr {
				case "pc":
					sum.Evaluations++
					var o obs
					guard("server-pc/hang:serve", "server on the in-memory PacketConn: injected datagram is not served to the end / Shutdown does not return", v, func() { o = probePC(r, pkt) })
					judgePkt(v, tr, o, &sum)
				case "tcp":
					if v.Seg == "" {
						sum.Evaluations++
						var o obs
						guard("server-tcp/hang:serve", "server on the in-memory listener: the sentinel behind the message is never answered", v, func() { o = tcp.probe(pkt) })
						judgePkt(v, tr, o, &sum)
					}
					// the outcome does not depend on how the stream is cut into segments
					segs := segmentations(len(pkt))
					for k, name := range segNames {
						if v.Seg != "" && v.Seg != name {
							continue
						}
						if v.Seg == "" && !(v.Policy == "accept" || len(pkt) < 12 || (i+k)%len(segNames) == 0) {
							continue
						}
						sum.Evaluations++
						nseg++
						w := *v
						w.Seg = name
						var o obs
						guard("server-tcp/hang:serve", "server on the in-memory listener: connection is not served to the end", &w, func() { o = tcp.probeSeg(pkt, segs[name]) })
						judgePkt(&w, tr, o, &sum)
					}
				case "udp":
					udpJobs = append(udpJobs, v)
				}
			}
		case "seq":
			nseqs++
			for _, tr := range []string{"pc", "tcp"} {
				if v.Transport != "" && v.Transport != tr {
					continue
				}
				sum.Evaluations += len(v.Msgs)
				var o obs
				var got int
				if tr == "pc" {
					guard("server-pc/hang:serve", "server on the in-memory PacketConn: a sequence of datagrams is not served to the end / Shutdown does not return", v, func() { o, got = seqPC(r, v.Msgs) })
				} else {
					guard("server-tcp/hang:serve", "server on the in-memory listener: a connection carrying several messages is not served to the end", v, func() { o, got = seqTCP(r, v.Msgs) })
				}
				judgeSeq(v, tr, o, got, &sum)
			}
		case "route":
			nroute++
			seen["r:"+fmt.Sprint(v.Pats, v.QName, v.QType)] = true
			sum.Evaluations++
			if v.Transport == "" || v.Transport == "direct" {
				routeDirect(v, &sum)
			}
			if v.Transport == "server" || (v.Transport == "" && (i%5 == 0 || (len(v.ExtraQ) > 0 && i%2 == 0))) {
				sum.Evaluations++
				guard("mux/hang:server", "server with the multiplexer as handler does not finish the request", v, func() { routeServer(v, &sum) })
			}
		default:
			hx.Die("unknown vector kind %q", v.Kind)
		}
		if i%1999 == 0 {
			sum.Sample(v)
		}
	})
	// the real-socket probes wait for the kernel: run them side by side, each with its own recorder
	{
		var mu sync.Mutex
		var wg sync.WaitGroup
		jobs := make(chan *vec)
		for k := 0; k < 8; k++ {
			wg.Add(1)
			go func() {
				defer wg.Done()
				lr := &rec{}
				for v := range jobs {
					lost := 0
					var o obs
					guard("server-udp/hang:serve", "server on the loopback socket does not finish / Shutdown does not return", v, func() { o = udpStable(lr, v, v.Pkt.Bytes(), &lost) })
					mu.Lock()
					nudp++
					nlost += lost
					if !o.Lost {
						sum.Evaluations++
						judgePkt(v, "udp", o, &sum)
					}
					mu.Unlock()
				}
			}()
		}
		for _, v := range udpJobs {
			jobs <- v
		}
		close(jobs)
		wg.Wait()
	}
	tcp.close(&sum)
	sum.Nontrivial = len(seen)
	sum.Note("admission_replay", map[string]int{"packets": npkt, "routes": nroute, "udp_probes": nudp, "udp_lost": nlost, "tcp_segmented": nseg, "stopping_phase": nphase, "sequences": nseqs})
	sum.Print()
}

// On the real socket an observation that disagrees with the spec is believed only if it shows three times.
func udpStable(r *rec, v *vec, pkt []byte, nlost *int) obs {
	var o obs
	for try := 0; try < 3; try++ {
		o = probeUDP(r, pkt)
		if o.Lost {
			*nlost++
			continue
		}
		var s hx.Summary
		judgePkt(v, "udp", o, &s)
		if len(s.Mismatches) == 0 {
			return o
		}
	}
	return o
}

// ------------------------------------------------------------------ record pkt

type replySum struct {
	hdr
	FromHandler bool `json:"fromhandler"`
	Len         int  `json:"len"`
}

type pktEvent struct {
	Ev      string     `json:"ev"`
	Tr      string     `json:"tr"`
	Len     int        `json:"len"`
	Hdr     hdr        `json:"hdr"`
	Decodes bool       `json:"decodes"`
	Handled int        `json:"handled"`
	Invalid int        `json:"invalid"`
	SameReq bool       `json:"samereq"`
	Replies []replySum `json:"replies"`
	Pkt     hx.B       `json:"pkt"`
	Mut     string     `json:"mut"`
	Phase   string     `json:"phase"` // Admission!Phases: where a Shutdown fell relative to the message
}

type totalsEvent struct {
	Ev       string `json:"ev"`
	Received int    `json:"received"`
	Handled  int    `json:"handled"`
	Invalid  int    `json:"invalid"`
}

var letters = "abcdefghijklmnopqrstuvwxyzABCDEFGHIJKLMNOPQRSTUVWXYZ0123456789-"

func randName(rng *rand.Rand) string {
	n := rng.Intn(4)
	s := ""
	for i := 0; i < n; i++ {
		l := 1 + rng.Intn(12)
		for j := 0; j < l; j++ {
			s += string(letters[rng.Intn(len(letters))])
		}
		s += "."
	}
	if s == "" {
		s = "."
	}
	return s
}

func randQuery(rng *rand.Rand) []byte {
	m := new(dns.Msg)
	types := []uint16{dns.TypeA, dns.TypeAAAA, dns.TypeMX, dns.TypeTXT, dns.TypeDS, dns.TypeSOA, dns.TypeANY, dns.TypeIXFR, dns.TypeAXFR}
	m.SetQuestion(randName(rng), types[rng.Intn(len(types))])
	m.Id = uint16(rng.Intn(65536))
	m.RecursionDesired = rng.Intn(2) == 0
	m.CheckingDisabled = rng.Intn(3) == 0
	m.AuthenticatedData = rng.Intn(3) == 0
	switch rng.Intn(8) {
	case 0:
		m.Opcode = dns.OpcodeNotify
		if rng.Intn(2) == 0 {
			rr, _ := dns.NewRR(m.Question[0].Name + " 60 IN SOA ns. mbox. 1 2 3 4 5")
			m.Answer = append(m.Answer, rr)
		}
	case 1:
		m.Opcode = dns.OpcodeUpdate
	case 2:
		m.Opcode = rng.Intn(16)
	}
	if rng.Intn(3) == 0 {
		m.SetEdns0(uint16(512+rng.Intn(4000)), rng.Intn(2) == 0)
	}
	if rng.Intn(6) == 0 {
		rr, _ := dns.NewRR(m.Question[0].Name + " 60 IN SOA ns. mbox. 1 2 3 4 5")
		m.Ns = append(m.Ns, rr)
	}
	for k := rng.Intn(12); k == 0 && len(m.Extra) < 4; k = rng.Intn(3) {
		rr, _ := dns.NewRR("x. 60 IN A 127.0.0.1")
		m.Extra = append(m.Extra, rr)
	}
	b, err := m.Pack()
	if err != nil {
		hx.Die("pack random query: %v", err)
	}
	return b
}

func mutate(rng *rand.Rand, b []byte) ([]byte, string) {
	b = append([]byte(nil), b...)
	switch k := rng.Intn(12); k {
	case 0, 1:
		return b, "none"
	case 2:
		for n := 1 + rng.Intn(3); n > 0; n-- {
			i := rng.Intn(len(b))
			b[i] ^= 1 << uint(rng.Intn(8))
		}
		return b, "bitflip"
	case 3:
		i := 2 + rng.Intn(2) // flags
		b[i] ^= 1 << uint(rng.Intn(8))
		return b, "flagflip"
	case 4:
		return b[:rng.Intn(len(b)+1)], "truncate"
	case 5:
		return b[:rng.Intn(13)], "truncate-header"
	case 6, 7:
		sec := rng.Intn(4)
		v := rng.Intn(4)
		if rng.Intn(8) == 0 {
			v = rng.Intn(65536)
		}
		binary.BigEndian.PutUint16(b[4+2*sec:], uint16(v))
		return b, "count"
	case 8:
		b[2] ^= 0x80
		return b, "qr"
	case 9:
		b[2] = b[2]&0x87 | byte(rng.Intn(16))<<3
		return b, "opcode"
	case 10:
		n := rng.Intn(20)
		for i := 0; i < n; i++ {
			b = append(b, byte(rng.Intn(256)))
		}
		return b, "append"
	default:
		n := rng.Intn(48)
		r := make([]byte, n)
		rng.Read(r)
		return r, "random"
	}
}

func recordPkt(out string, n int) {
	rng := hx.Rand()
	w := hx.NewWriter(out)
	var sum hx.Summary
	hangSum, onHang = &sum, w.Close
	r := &rec{}
	tcp := newTCPRig(r)
	received := 0
	seen := map[string]bool{}
	for i := 0; i < n; i++ {
		pkt, mut := mutate(rng, randQuery(rng))
		if len(pkt) > 500 {
			pkt = pkt[:500] // stay below the server's UDP buffer: what we send is what it sees
		}
		ref := new(dns.Msg)
		decodes := ref.Unpack(pkt) == nil
		tr := []string{"pc", "tcp"}[i%2]
		if i%41 == 7 {
			tr = "udp"
		}
		var o obs
		phase := "serving"
		if i%5 == 3 {
			phase = "stopping" // the read that carries the message completes while a Shutdown is in progress
		}
		switch {
		case phase == "serving":
		case tr == "pc":
			guard("server-pc/stopping/hang:serve", "server on the in-memory PacketConn does not finish", hx.FromBytes(pkt), func() { o = probePCStopping(r, pkt) })
			tr += "!"
		case tr == "tcp":
			guard("server-tcp/stopping/hang:serve", "server on the in-memory listener does not finish", hx.FromBytes(pkt), func() { o = probeTCPStopping(r, pkt) })
			tr += "!"
		case tr == "udp":
			guard("server-udp/stopping/hang:serve", "server on the loopback socket does not finish", hx.FromBytes(pkt), func() { o = probeUDPStopping(r, pkt) })
			tr += "!"
			if o.Lost {
				r.totalH.Add(int64(-o.Handled))
				r.totalI.Add(int64(-o.Invalid))
				continue
			}
		}
		switch tr {
		case "pc":
			guard("server-pc/hang:serve", "server on the in-memory PacketConn does not finish", hx.FromBytes(pkt), func() { o = probePC(r, pkt) })
		case "tcp":
			seg := ""
			if rng.Intn(2) == 1 {
				seg = segNames[rng.Intn(len(segNames))]
			}
			guard("server-tcp/hang:serve", "server on the in-memory listener does not finish (segments: "+seg+")", hx.FromBytes(pkt), func() {
				if seg == "" {
					o = tcp.probe(pkt)
				} else {
					o = tcp.probeSeg(pkt, segmentations(len(pkt))[seg])
				}
			})
		case "udp":
			guard("server-udp/hang:serve", "server on the loopback socket does not finish", hx.FromBytes(pkt), func() { o = probeUDP(r, pkt) })
			if o.Lost {
				// not an observation; the totals must not count it either
				r.totalH.Add(int64(-o.Handled))
				r.totalI.Add(int64(-o.Invalid))
				continue
			}
		}
		received++
		seen[string(pkt)] = true
		tr = strings.TrimSuffix(tr, "!")
		ev := pktEvent{Ev: "pkt", Tr: tr, Phase: phase, Len: len(pkt), Decodes: decodes, Handled: o.Handled, Invalid: o.Invalid, Pkt: hx.FromBytes(pkt), Mut: mut, SameReq: true}
		ev.Hdr, _ = walk(pkt)
		for _, q := range o.Reqs {
			if !decodes || !reflect.DeepEqual(q, ref) {
				ev.SameReq = false
			}
		}
		for _, rb := range o.Replies {
			rs := replySum{Len: len(rb)}
			rs.hdr, _ = walk(rb)
			for _, hw := range o.Wrote {
				if string(hw) == string(rb) {
					rs.FromHandler = true
				}
			}
			ev.Replies = append(ev.Replies, rs)
		}
		w.Emit(ev)
		sum.Evaluations++
		if i%499 == 0 {
			sum.Sample(ev)
		}
	}
	tcp.close(&sum)
	w.Emit(totalsEvent{Ev: "totals", Received: received, Handled: int(r.totalH.Load()), Invalid: int(r.totalI.Load())})
	w.Close()
	sum.Nontrivial = len(seen)
	sum.Print()
}

// ------------------------------------------------------------------ record mux

var muxPats = []string{".", "example.", "SuB.example.", "a.sub.example.", "ample.", "Org."}
var muxNames = []string{".", "example.", "EXAMPLE.", "sub.example.", "SuB.ExamPle.", "a.sub.example.", "x.sub.example.", "b.a.sub.example.",
	"xexample.", "ample.", "net.", "a\\.sub.example.", "example.org.", "org."}

type muxEvent struct {
	Ev    string `json:"ev"`
	Init  []int  `json:"init"`
	N     int    `json:"n"`
	G     int    `json:"g"`
	Pat   int    `json:"pat"`
	QName hx.B   `json:"qname"`
	QType int    `json:"qtype"`
	Start int64  `json:"start"`
	End   int64  `json:"end"`
	Res   int    `json:"res"`   // serve: pattern index of the invoked handler, 0 = REFUSED
	Calls int    `json:"calls"` // serve: handler invocations + REFUSED replies
}

type tagWriter struct {
	recWriter
	hit   *[]int
	inner func() // what the handler does while it runs (nil: returns at once)
}

func recordMux(out string, rounds int) {
	rng := hx.Rand()
	w := hx.NewWriter(out)
	var sum hx.Summary
	hangSum, onHang = &sum, w.Close
	const G = 8
	opsPer := 6
	for round := 0; round < rounds; round++ {
		mux := dns.NewServeMux()
		var init []int
		mk := func(idx int) dns.HandlerFunc {
			return func(w dns.ResponseWriter, r *dns.Msg) {
				tw := w.(*tagWriter)
				*tw.hit = append(*tw.hit, idx)
				if tw.inner != nil {
					tw.inner()
				}
			}
		}
		// prologue, sequential: a request while nothing has ever been registered, then the initial registrations --
		// logged like every other operation (the round starts from the empty set)
		var seq atomic.Int64
		var pro []muxEvent
		{
			name := muxNames[rng.Intn(len(muxNames))]
			qt := []uint16{dns.TypeA, dns.TypeDS}[rng.Intn(2)]
			m := new(dns.Msg)
			m.SetQuestion(name, qt)
			var hit []int
			tw := &tagWriter{hit: &hit}
			s := seq.Add(1)
			guard("mux/hang:ServeDNS", "ServeDNS on a multiplexer on which nothing was ever registered does not return", name, func() { mux.ServeDNS(tw, m) })
			e := seq.Add(1)
			res := 0
			if len(hit) > 0 {
				res = hit[0]
			}
			pro = append(pro, muxEvent{Ev: "serve", G: -1, QName: hx.FromString(name), QType: int(qt), Start: s, End: e, Res: res, Calls: len(hit) + len(tw.msgs)})
		}
		for i := range muxPats {
			if rng.Intn(2) == 0 {
				s := seq.Add(1)
				guard("mux/hang:Handle", "Handle after a request on the still empty multiplexer does not return", muxPats[i], func() { mux.Handle(muxPats[i], mk(i+1)) })
				e := seq.Add(1)
				pro = append(pro, muxEvent{Ev: "handle", G: -1, Pat: i + 1, Start: s, End: e})
			}
		}
		evs := make([][]muxEvent, G)
		seeds := make([]int64, G)
		for g := range seeds {
			seeds[g] = rng.Int63()
		}
		start := make(chan struct{})
		var wg sync.WaitGroup
		for g := 0; g < G; g++ {
			wg.Add(1)
			go func(g int) {
				defer wg.Done()
				lr := rand.New(rand.NewSource(seeds[g]))
				<-start
				for k := 0; k < opsPer; k++ {
					switch c := lr.Intn(4); {
					case c <= 1:
						name := muxNames[lr.Intn(len(muxNames))]
						qt := []uint16{dns.TypeA, dns.TypeDS, dns.TypeDS, dns.TypeNS}[lr.Intn(4)]
						m := new(dns.Msg)
						m.SetQuestion(name, qt)
						var hit []int
						tw := &tagWriter{hit: &hit}
						if lr.Intn(3) == 0 {
							// a handler that changes the multiplexer that dispatched to it: an operation of its own, begun
							// and ended inside the dispatch
							p, add := lr.Intn(len(muxPats)), lr.Intn(2) == 0
							tw.inner = func() {
								s := seq.Add(1)
								if add {
									mux.Handle(muxPats[p], mk(p+1))
								} else {
									mux.HandleRemove(muxPats[p])
								}
								e := seq.Add(1)
								evs[g] = append(evs[g], muxEvent{Ev: map[bool]string{true: "handle", false: "remove"}[add], G: g, Pat: p + 1, Start: s, End: e})
							}
						}
						s := seq.Add(1)
						mux.ServeDNS(tw, m)
						e := seq.Add(1)
						res := 0
						if len(hit) > 0 {
							res = hit[0]
						}
						evs[g] = append(evs[g], muxEvent{Ev: "serve", G: g, QName: hx.FromString(name), QType: int(qt), Start: s, End: e, Res: res, Calls: len(hit) + len(tw.msgs)})
					case c == 2:
						p := lr.Intn(len(muxPats))
						pat := muxPats[p]
						if lr.Intn(2) == 0 {
							pat = dns.CanonicalName(pat) // a different spelling of the same pattern
						}
						s := seq.Add(1)
						mux.Handle(pat, mk(p+1))
						e := seq.Add(1)
						evs[g] = append(evs[g], muxEvent{Ev: "handle", G: g, Pat: p + 1, Start: s, End: e})
					default:
						p := lr.Intn(len(muxPats))
						s := seq.Add(1)
						mux.HandleRemove(muxPats[p])
						e := seq.Add(1)
						evs[g] = append(evs[g], muxEvent{Ev: "remove", G: g, Pat: p + 1, Start: s, End: e})
					}
				}
			}(g)
		}
		close(start)
		guard("mux/hang:concurrent", "8 goroutines doing Handle / HandleRemove / ServeDNS (every third handler itself calls Handle / HandleRemove on the multiplexer that dispatched to it) do not all come back", round, wg.Wait)
		// epilogue, forced by hand-offs: while one handler is still running (it waits for the harness) a pattern is
		// registered / removed and another request is dispatched; both must complete without the busy handler's help
		{
			serve := func(g int, name string, qt uint16, inner func()) muxEvent {
				m := new(dns.Msg)
				m.SetQuestion(name, qt)
				var hit []int
				tw := &tagWriter{hit: &hit, inner: inner}
				s := seq.Add(1)
				mux.ServeDNS(tw, m)
				e := seq.Add(1)
				res := 0
				if len(hit) > 0 {
					res = hit[0]
				}
				return muxEvent{Ev: "serve", G: g, QName: hx.FromString(name), QType: int(qt), Start: s, End: e, Res: res, Calls: len(hit) + len(tw.msgs)}
			}
			s := seq.Add(1)
			guard("mux/hang:Handle", "Handle after the concurrent phase does not return", round, func() { mux.Handle(".", mk(1)) })
			e := seq.Add(1)
			pro = append(pro, muxEvent{Ev: "handle", G: -2, Pat: 1, Start: s, End: e})
			inside, release := make(chan struct{}), make(chan struct{})
			busy := make(chan muxEvent, 1)
			name1, name2 := muxNames[rng.Intn(len(muxNames))], muxNames[rng.Intn(len(muxNames))]
			go func() { busy <- serve(-2, name1, dns.TypeA, func() { close(inside); <-release }) }()
			guard("mux/hang:ServeDNS", "ServeDNS does not reach the handler", name1, func() { <-inside })
			p, add := rng.Intn(len(muxPats)-1)+1, rng.Intn(2) == 0
			s = seq.Add(1)
			if add {
				guard("mux/hang:Handle-while-a-handler-runs", "Handle called while a handler dispatched by the same multiplexer is still running does not return", muxPats[p], func() { mux.Handle(muxPats[p], mk(p+1)) })
			} else {
				guard("mux/hang:HandleRemove-while-a-handler-runs", "HandleRemove called while a handler dispatched by the same multiplexer is still running does not return", muxPats[p], func() { mux.HandleRemove(muxPats[p]) })
			}
			e = seq.Add(1)
			pro = append(pro, muxEvent{Ev: map[bool]string{true: "handle", false: "remove"}[add], G: -3, Pat: p + 1, Start: s, End: e})
			guard("mux/hang:ServeDNS-while-a-handler-runs", "a request that arrives while another handler is still running (and after a Handle / HandleRemove call) is not dispatched", name2, func() {
				pro = append(pro, serve(-4, name2, []uint16{dns.TypeA, dns.TypeDS}[rng.Intn(2)], nil))
			})
			close(release)
			guard("mux/hang:ServeDNS", "ServeDNS does not return after its handler has", name1, func() { pro = append(pro, <-busy) })
		}
		n := len(pro)
		for _, l := range evs {
			n += len(l)
		}
		w.Emit(muxEvent{Ev: "round", Init: init, N: n})
		for _, e := range pro {
			w.Emit(e)
			sum.Evaluations++
		}
		for _, l := range evs {
			for _, e := range l {
				w.Emit(e)
				sum.Evaluations++
			}
		}
	}
	w.Close()
	sum.Nontrivial = rounds
	sum.Print()
}

func main() {
	installHook()
	if len(os.Args) < 3 {
		hx.Die("usage: admission replay <vectors> | record pkt|mux <out> <n>")
	}
	switch os.Args[1] {
	case "replay":
		replay(os.Args[2])
	case "record":
		if len(os.Args) < 5 {
			hx.Die("usage: admission record pkt|mux <out> <n>")
		}
		n, _ := strconv.Atoi(os.Args[4])
		switch os.Args[2] {
		case "pkt":
			recordPkt(os.Args[3], n)
		case "mux":
			recordMux(os.Args[3], n)
		default:
			hx.Die("unknown recorder %s", os.Args[2])
		}
	default:
		hx.Die("unknown mode %s", os.Args[1])
	}
}
