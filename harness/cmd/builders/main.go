// Command builders binds spec/Builders.tla to the message builders and predicates of defaults.go (extra check X12).
//
//	builders replay <vectors.ndjson>    TLC vectors; messages arrive as octets and become *dns.Msg through the real Unpack;
//	                                    the real builder is applied; the struct (header, questions, section sizes) and the
//	                                    octets of the real Pack are compared with the admissible results of the spec
package main

import (
	"bytes"
	"fmt"
	"os"
	"reflect"

	"github.com/miekg/dns"

	"verifharness/lib/hx"
)

type hdr struct {
	Id     int  `json:"id"`
	Qr     bool `json:"qr"`
	Opcode int  `json:"opcode"`
	Aa     bool `json:"aa"`
	Tc     bool `json:"tc"`
	Rd     bool `json:"rd"`
	Ra     bool `json:"ra"`
	Z      bool `json:"z"`
	Ad     bool `json:"ad"`
	Cd     bool `json:"cd"`
	Rcode  int  `json:"rcode"`
}

type view struct {
	Hdr      hdr             `json:"hdr"`
	Q        [][]interface{} `json:"q"` // [nameText octets, qtype, qclass]
	Counts   []int           `json:"counts"`
	Packable bool            `json:"packable"`
	Wire     hx.B            `json:"wire"`
}

type step struct {
	Op     string `json:"op"`
	Z      hx.B   `json:"z"`
	T      int    `json:"t"`
	Serial hx.B   `json:"serial"`
	Ns     hx.B   `json:"ns"`
	Mbox   hx.B   `json:"mbox"`
	Algo   hx.B   `json:"algo"`
	Fudge  int    `json:"fudge"`
	Time   hx.B   `json:"time"`
	IdFree bool   `json:"idfree"`
	Exp    []view `json:"exp"`
}

type vec struct {
	Kind    string `json:"kind"`
	Op      string `json:"op"`
	W       int    `json:"w"`
	Qc      int    `json:"qc"`
	Rcode   int    `json:"rcode"`
	ReqWire hx.B   `json:"reqwire"`
	MWire   hx.B   `json:"mwire"`
	IdFree  bool   `json:"idfree"`
	Exp     []view `json:"exp"`
	Steps   []step `json:"steps"`
	// pos
	Types []int `json:"types"`
	Tsig  int   `json:"tsig"`
	Opt   []int `json:"opt"`
	// rrset
	Rrs  [][]interface{} `json:"rrs"` // [ownerText octets, type, class]
	Same []bool          `json:"same"`
	// text
	Text   hx.B `json:"text"`
	IsFqdn bool `json:"isfqdn"`
	Fqdn   hx.B `json:"fqdn"`
	Canon  hx.B `json:"canon"`
	// ismsg
	N  int  `json:"n"`
	Ok bool `json:"ok"`
}

func num(x interface{}) int { return int(x.(float64)) }
func octs(x interface{}) string {
	var b []byte
	for _, v := range x.([]interface{}) {
		b = append(b, byte(v.(float64)))
	}
	return string(b)
}

func unpack(w hx.B) *dns.Msg {
	m := new(dns.Msg)
	if len(w) == 0 {
		return m // fresh
	}
	if err := m.Unpack(w.Bytes()); err != nil {
		hx.Die("the spec's message octets do not unpack: %v", err)
	}
	return m
}

func hdrOf(m *dns.Msg) hdr {
	return hdr{int(m.Id), m.Response, m.Opcode, m.Authoritative, m.Truncated, m.RecursionDesired, m.RecursionAvailable,
		m.Zero, m.AuthenticatedData, m.CheckingDisabled, m.Rcode}
}

// match: does the real message equal one admissible view?  Returns "" or the first differing aspect against the closest view.
func match(m *dns.Msg, exp []view) string {
	best := "no admissible result"
	bestRank := -1
	for _, e := range exp {
		d, rank := diff(m, &e)
		if d == "" {
			return ""
		}
		if rank > bestRank {
			best, bestRank = d, rank
		}
	}
	return best
}

func diff(m *dns.Msg, e *view) (string, int) {
	h := hdrOf(m)
	if h != e.Hdr {
		hv, ev := reflect.ValueOf(h), reflect.ValueOf(e.Hdr)
		for i := 0; i < hv.NumField(); i++ {
			if hv.Field(i).Interface() != ev.Field(i).Interface() {
				return "hdr." + hv.Type().Field(i).Name, 0
			}
		}
	}
	if len(m.Question) != len(e.Q) {
		return "question-count", 1
	}
	for i, q := range m.Question {
		if q.Name != octs(e.Q[i][0]) || int(q.Qtype) != num(e.Q[i][1]) || int(q.Qclass) != num(e.Q[i][2]) {
			return "question", 2
		}
	}
	if len(m.Answer) != e.Counts[0] || len(m.Ns) != e.Counts[1] || len(m.Extra) != e.Counts[2] {
		return "section-sizes", 3
	}
	w, err := m.Pack()
	if (err == nil) != e.Packable {
		return "packable", 4
	}
	if err == nil && !bytes.Equal(w, e.Wire.Bytes()) {
		return "octets", 5
	}
	return "", 9
}

func main() {
	if len(os.Args) < 3 || os.Args[1] != "replay" {
		hx.Die("usage: builders replay <vectors>")
	}
	var sum hx.Summary
	seen := map[string]bool{}
	hx.ReadNDJSON(os.Args[2], func(i int, v *vec) {
		sum.Evaluations++
		if p := hx.Catch(func() { one(v, &sum, seen) }); p != "" {
			sum.Mis("builders/panic:"+v.Kind+":"+v.Op, "panic: "+p, v)
		}
		if i%9973 == 0 {
			sum.Sample(v)
		}
	})
	sum.Nontrivial = len(seen)
	sum.Print()
}

func time48(b hx.B) int64 {
	var t int64
	for _, x := range b {
		t = t<<8 | int64(x)
	}
	return t
}

func serial32(b hx.B) uint32 {
	var t uint32
	for _, x := range b {
		t = t<<8 | uint32(x)
	}
	return t
}

func apply(m, req *dns.Msg, s *step) {
	switch s.Op {
	case "SetQuestion":
		m.SetQuestion(s.Z.String(), uint16(s.T))
	case "SetNotify":
		m.SetNotify(s.Z.String())
	case "SetUpdate":
		m.SetUpdate(s.Z.String())
	case "SetAxfr":
		m.SetAxfr(s.Z.String())
	case "SetIxfr":
		m.SetIxfr(s.Z.String(), serial32(s.Serial), s.Ns.String(), s.Mbox.String())
	case "SetTsig":
		m.SetTsig(s.Z.String(), s.Algo.String(), uint16(s.Fudge), time48(s.Time))
	case "SetReply":
		m.SetReply(req)
	case "SetRcode":
		m.SetRcode(req, s.T)
	case "SetRcodeFormatError":
		m.SetRcodeFormatError(req)
	default:
		hx.Die("unknown builder %q", s.Op)
	}
}

func one(v *vec, sum *hx.Summary, seen map[string]bool) {
	switch v.Kind {
	case "reply":
		req, m := unpack(v.ReqWire), unpack(v.MWire)
		seen[fmt.Sprint("r", v.Op, v.W, v.Qc, v.Rcode, len(v.MWire))] = true
		var keepName string
		if len(req.Question) > 0 {
			keepName = req.Question[0].Name
		}
		apply(m, req, &step{Op: v.Op, T: v.Rcode})
		if d := match(m, v.Exp); d != "" {
			cls := ""
			if req.Opcode != dns.OpcodeQuery {
				cls = ":opcode-not-query"
			}
			sum.Mis("builders/"+v.Op+":"+d+cls, fmt.Sprintf("%s for request word %#04x with %d questions gives %+v %v, not admitted (%d candidates)", v.Op, v.W, v.Qc, hdrOf(m), m.Question, len(v.Exp)), v)
			return
		}
		if v.Op != "SetRcodeFormatError" && len(m.Question) > 0 && len(req.Question) > 0 { // the reply owns its question slice
			m.Question[0].Name = "changed.by.the.reply."
			if req.Question[0].Name != keepName {
				sum.Mis("builders/"+v.Op+":question-aliased", "changing the reply's question changes the request's", v)
			}
		}
	case "chain":
		m, req := unpack(v.MWire), unpack(v.ReqWire)
		sig := fmt.Sprint("c", len(v.MWire))
		for k := range v.Steps {
			s := &v.Steps[k]
			sig += s.Op + fmt.Sprint(s.T, s.Z)
			apply(m, req, s)
			if s.IdFree {
				m.Id = uint16(s.Exp[0].Hdr.Id) // Id() is random: everything else is compared
			}
			if d := match(m, s.Exp); d != "" {
				sum.Mis("builders/"+s.Op+":"+d, fmt.Sprintf("step %d %s: result %+v q=%v sizes %d/%d/%d not admitted", k+1, s.Op, hdrOf(m), m.Question, len(m.Answer), len(m.Ns), len(m.Extra)), v)
				break
			}
		}
		seen[sig] = true
	case "pos":
		m := new(dns.Msg)
		for _, t := range v.Types {
			switch t {
			case 41:
				o := new(dns.OPT)
				o.Hdr.Name, o.Hdr.Rrtype = ".", dns.TypeOPT
				m.Extra = append(m.Extra, o)
			case 250:
				m.Extra = append(m.Extra, &dns.TSIG{Hdr: dns.RR_Header{Name: "k.", Rrtype: dns.TypeTSIG, Class: dns.ClassANY}, Algorithm: "hmac-sha256."})
			default:
				m.Extra = append(m.Extra, &dns.A{Hdr: dns.RR_Header{Name: "a.", Rrtype: dns.TypeA, Class: dns.ClassINET}, A: []byte{192, 0, 2, 1}})
			}
		}
		seen[fmt.Sprint("p", v.Types)] = true
		idx := func(rr dns.RR) int {
			for i, x := range m.Extra {
				if x == rr {
					return i + 1
				}
			}
			return 0
		}
		ti := 0
		if t := m.IsTsig(); t != nil {
			ti = idx(t)
		}
		if ti != v.Tsig {
			sum.Mis("builders/istsig", fmt.Sprintf("additional types %v: IsTsig finds record %d, spec %d", v.Types, ti, v.Tsig), v)
		}
		oi := 0
		if o := m.IsEdns0(); o != nil {
			oi = idx(o)
		}
		ok := false
		for _, a := range v.Opt {
			ok = ok || a == oi
		}
		if !ok {
			sum.Mis("builders/isedns0", fmt.Sprintf("additional types %v: IsEdns0 finds record %d, spec admits %v", v.Types, oi, v.Opt), v)
		}
	case "rrset":
		var rrs []dns.RR
		cls := ""
		for _, r := range v.Rrs {
			rrs = append(rrs, &dns.ANY{Hdr: dns.RR_Header{Name: octs(r[0]), Rrtype: uint16(num(r[1])), Class: uint16(num(r[2]))}})
			if octs(r[0]) != octs(v.Rrs[0][0]) {
				cls = ":owner-case"
			}
		}
		seen[fmt.Sprint("s", v.Rrs)] = true
		got := dns.IsRRset(rrs)
		ok := false
		for _, a := range v.Same {
			ok = ok || a == got
		}
		if !ok {
			sum.Mis("builders/isrrset"+cls, fmt.Sprintf("IsRRset(%v) = %v, spec admits %v", rrs, got, v.Same), v)
		}
	case "text":
		s := v.Text.String()
		seen["t"+s] = true
		cls := ""
		for _, c := range v.Text {
			if c >= 128 {
				cls = ":octet>=128"
			}
		}
		fqBad := dns.IsFqdn(s) != v.IsFqdn
		if fqBad {
			sum.Mis("builders/isfqdn"+cls, fmt.Sprintf("IsFqdn(%q) = %v, spec %v", s, dns.IsFqdn(s), v.IsFqdn), v)
		}
		if got := dns.Fqdn(s); got != v.Fqdn.String() {
			sum.Mis("builders/fqdn"+cls, fmt.Sprintf("Fqdn(%q) = %q, spec %q", s, got, v.Fqdn.String()), v)
		}
		if got := dns.CanonicalName(s); got != v.Canon.String() {
			if fqBad {
				cls = ":via-isfqdn"
			}
			sum.Mis("builders/canonicalname"+cls, fmt.Sprintf("CanonicalName(%q) = %q, spec %q", s, got, v.Canon.String()), v)
		}
	case "ismsg":
		seen[fmt.Sprint("m", v.N)] = true
		if err := dns.IsMsg(make([]byte, v.N)); (err == nil) != v.Ok {
			sum.Mis("builders/ismsg", fmt.Sprintf("IsMsg of %d octets: %v, spec ok=%v", v.N, err, v.Ok), v)
		}
	default:
		hx.Die("unknown vector kind %q", v.Kind)
	}
}
