// Command exchange binds spec/Stream.tla and spec/Exchange.tla to the real client and server (property C12).
//
//	exchange replay <vectors.ndjson>                  TLC vectors: kind "stream" (framing under scripted segmentation,
//	                                                  early end, short write, oversize) and kind "id" (reply-ID rule)
//	exchange record <udp|pc|tcp|tcpreal> <out> <N> <R>  N concurrent clients, R exchanges each, against a real server;
//	                                                  events for Trace_Exchange
//
// Stream vectors are played through every API that frames or de-frames:
//
//	read side : dns.Conn.ReadMsgHeader, dns.Conn.Read, dns.Conn.ReadMsg; Server.readTCP (observed through a DecorateReader)
//	write side: dns.Conn.Write, dns.Conn.WriteMsg; response.Write / response.WriteMsg of a real server connection
//	            (also two handler goroutines writing on one connection, the fake letting them alternate)
//
// over lib/memnet connections whose chunking / end / write budget follow the vector.  Nothing depends on time except the
// few "id" cases that use a real deadline, all of which expect a timeout.
package main

import (
	"bufio"
	"bytes"
	"context"
	"encoding/binary"
	"encoding/hex"
	"errors"
	"fmt"
	"io"
	"net"
	"os"
	"strconv"
	"strings"
	"sync"
	"sync/atomic"
	"time"

	"github.com/miekg/dns"

	"verifharness/lib/hx"
	"verifharness/lib/memnet"
)

// ------------------------------------------------------------------ vectors

type svec struct {
	Kind      string   `json:"kind"`
	Sizes     []int    `json:"sizes"`
	Total     int      `json:"total"`
	EOF       int      `json:"eof"`
	Chunks    []int    `json:"chunks"`
	ShortW    []int    `json:"shortw"`
	Writes    []string `json:"writes"`
	Delivered int      `json:"delivered"`
	Final     string   `json:"final"`
	Hdr       *hdrExp  `json:"hdr"` // header-decoding readers: frames (1-based) handed out when carrying on / giving up at the first runt
	// id
	Transport string    `json:"transport"`
	Inbox     []string  `json:"inbox"`
	DL        int       `json:"dl"`
	Res       string    `json:"res"`
	Idx       int       `json:"idx"`
	Kinds     []kindAdm `json:"kinds"`
	First     string    `json:"first"`    // repoint: kind of the transport of the first exchange
	Second    string    `json:"second"`   // repoint: kind the same Conn is pointed at for the second exchange
	Rule      string    `json:"rule"`     // repoint: "stream" | "dgram" | "either"
	Admitted  []idRes   `json:"admitted"` // repoint: results admitted for the second exchange
	Extend    int       `json:"extend"`   // how often the read deadline may be moved later after the request was written
	Q         string    `json:"q"`        // id: how the question is spelled ("" / "plain", "escaped", "lowered": the server echoes it in lower case)
	// set by the harness in replay files: run only this path
	Path string `json:"path,omitempty"`
}

// body(i, n): message i of a scenario, exactly n octets, a decodable DNS response (QR set, so a server that reads it
// stays silent) whose octets depend on i and on the position.
func body(i, n int) []byte {
	b := make([]byte, n)
	for k := range b {
		b[k] = byte(k*31 + i*17 + 7)
	}
	if n < 12 {
		return b
	}
	id := 0x1100 + i
	copy(b, []byte{byte(id >> 8), byte(id), 0x80, 0, 0, 0, 0, 0, 0, 0, 0, 0})
	if n >= 23 {
		b[11] = 1 // arcount
		rd := n - 23
		copy(b[12:], []byte{0, 0xff, 0x00, 0, 1, 0, 0, 0, 0, byte(rd >> 8), byte(rd)})
	}
	return b
}

func frame(p []byte) []byte {
	f := make([]byte, 2+len(p))
	binary.BigEndian.PutUint16(f, uint16(len(p)))
	copy(f[2:], p)
	return f
}

// the octets the scenario puts on the wire, in full (frames of the messages the writer accepts)
func (v *svec) stream() (wire []byte, bodies [][]byte) {
	for i, n := range v.Sizes {
		if v.Writes[i] == "refused" {
			continue
		}
		p := body(i, n)
		bodies = append(bodies, p)
		wire = append(wire, frame(p)...)
	}
	return
}

type hdrExp struct {
	CarryOn []int `json:"carryon"`
	Stop    []int `json:"stop"`
}

type idRes struct {
	Res string `json:"res"`
	Idx int    `json:"idx"`
}

// a real transport kind the reply-ID case applies to, with the results the spec admits for it
type kindAdm struct {
	K        string  `json:"k"`
	Admitted []idRes `json:"admitted"`
}

type runner struct {
	sum   *hx.Summary
	rsrv  *readServer
	wsrv  *writeServer
	paths map[string]int
	// watchdog: every path works on in-memory pipes that have been filled and closed beforehand, so a path that
	// makes no progress for a minute is blocked for good (e.g. a reader waiting for octets that cannot come)
	wmu    sync.Mutex
	cur    *svec
	curP   string
	serial int
}

func (r *runner) enter(v *svec, path string) {
	r.wmu.Lock()
	r.cur, r.curP = v, path
	r.serial++
	r.wmu.Unlock()
}

func (r *runner) watchdog() {
	last, since := -1, time.Now()
	for {
		time.Sleep(2 * time.Second)
		r.wmu.Lock()
		s, v, p := r.serial, r.cur, r.curP
		r.wmu.Unlock()
		if s != last {
			last, since = s, time.Now()
			continue
		}
		if v != nil && time.Since(since) > 60*time.Second {
			if v.Kind == "stream" {
				r.mis(v, p, "blocked", "no progress for 60 s on a stream that was written and closed beforehand")
			} else {
				c := *v
				c.Path = p
				r.sum.Mis("idmatch/"+v.Transport+"/blocked", "Exchange did not return within 60 s", &c)
			}
			r.sum.Note("exchange_replay_paths", r.paths)
			r.sum.Print()
			os.Exit(0)
		}
	}
}

func (r *runner) mis(v *svec, path, clause, what string) {
	c := *v
	c.Path = path
	if len(c.Chunks) > 40 {
		c.Chunks = append(append([]int(nil), c.Chunks[:40]...), -1)
	}
	r.sum.Mis("stream/"+path+"/"+clause, fmt.Sprintf("sizes %v eof %d/%d shortw %v: %s", v.Sizes, v.EOF, v.Total, v.ShortW, what), &c)
}

// ------------------------------------------------------------------ read side, client

func (r *runner) clientRead(v *svec, api string) {
	wire, bodies := v.stream()
	upto := v.EOF
	if upto > len(wire) {
		upto = len(wire)
	}
	c, s := memnet.Pipe()
	c.ScriptRead(memnet.Script{Chunks: v.Chunks, CutAt: -1})
	s.Write(wire[:upto])
	s.CloseWrite()
	co := &dns.Conn{Conn: c}
	buf := make([]byte, 65535)
	got := 0
	var lastErr error
	var held [][]byte
	defer func() {
		for k, p := range held {
			if k < len(bodies) && !bytes.Equal(p, bodies[k]) {
				r.mis(v, api, "message-changed-by-later-read", fmt.Sprintf("message %d as returned earlier no longer holds its octets after the following reads", k))
				return
			}
		}
	}()
	for k := 0; k < len(bodies)+3; k++ {
		var p []byte
		var err error
		switch api {
		case "ReadMsgHeader":
			p, err = co.ReadMsgHeader(nil)
			if err == nil {
				held = append(held, p)
			}
		case "Read":
			var n int
			n, err = co.Read(buf)
			p = buf[:n]
		case "ReadMsg":
			var m *dns.Msg
			m, err = co.ReadMsg()
			if err == nil {
				p = checkMsg(m, k, bodies)
			}
		}
		if err != nil {
			lastErr = err
			break
		}
		if k >= len(bodies) || !bytes.Equal(p, bodies[k]) {
			r.mis(v, api, "message-mangled", fmt.Sprintf("message %d handed to the caller is not the %d octets that were framed (got %d octets)", k, lenOf(bodies, k), len(p)))
			c.Close()
			return
		}
		got++
	}
	c.Close()
	if lastErr == nil {
		r.mis(v, api, "no-error-at-end", "the stream ended but the reader keeps returning messages")
		return
	}
	if got != v.Delivered {
		r.mis(v, api, "delivered-count", fmt.Sprintf("%d messages delivered before the error (%v), spec %d", got, lastErr, v.Delivered))
	}
}

// hasRunt: some frame on the wire has a body shorter than a DNS header
func (v *svec) hasRunt() bool {
	for i, n := range v.Sizes {
		if n < 12 && v.Writes[i] != "refused" {
			return true
		}
	}
	return false
}

// clientReadHdr: scenarios with runt frames through the header-decoding readers.  The reader is asked for more after
// every error (the stream was written and closed beforehand, so every call returns); what it hands out, in order, must be
// the spec's list for a reader that carries on after a runt or for one that gives up at the first runt (Stream!HdrReader).
func (r *runner) clientReadHdr(v *svec, api string) {
	wire, bodies := v.stream()
	upto := v.EOF
	if upto > len(wire) {
		upto = len(wire)
	}
	c, s := memnet.Pipe()
	c.ScriptRead(memnet.Script{Chunks: v.Chunks, CutAt: -1})
	s.Write(wire[:upto])
	s.CloseWrite()
	defer c.Close()
	co := &dns.Conn{Conn: c}
	var got []int // 1-based frame indices handed out
	next := 0     // frames before this one cannot be handed out any more
	for k := 0; k < len(bodies)+3; k++ {
		var p []byte
		var err error
		if api == "ReadMsgHeader" {
			p, err = co.ReadMsgHeader(nil)
		} else {
			var m *dns.Msg
			m, err = co.ReadMsg()
			if err == nil {
				for j := next; j < len(bodies); j++ {
					if len(bodies[j]) >= 12 && checkMsg(m, j, bodies) != nil {
						p = bodies[j]
						break
					}
				}
				if p == nil {
					r.mis(v, api, "message-mangled", fmt.Sprintf("read %d handed out a message (id %#x) that is none of the messages framed behind frame %d", k, m.Id, next))
					return
				}
			}
		}
		if err != nil {
			continue
		}
		found := -1
		for j := next; j < len(bodies); j++ {
			if bytes.Equal(p, bodies[j]) {
				found = j
				break
			}
		}
		if found < 0 {
			r.mis(v, api, "message-mangled", fmt.Sprintf("read %d handed out %d octets that are not the body of any frame behind frame %d", k, len(p), next))
			return
		}
		next = found + 1
		if len(bodies[found]) >= 12 { // a runt handed out as it is, is the caller's business
			got = append(got, found+1)
		}
	}
	same := func(a, b []int) bool {
		if len(a) != len(b) {
			return false
		}
		for i := range a {
			if a[i] != b[i] {
				return false
			}
		}
		return true
	}
	if !same(got, v.Hdr.CarryOn) && !same(got, v.Hdr.Stop) {
		r.mis(v, api, "delivered-around-runt", fmt.Sprintf("frames handed out %v; spec: %v (reader carries on after a runt) or %v (reader gives up at the first runt)", got, v.Hdr.CarryOn, v.Hdr.Stop))
	}
}

func lenOf(b [][]byte, k int) int {
	if k < len(b) {
		return len(b[k])
	}
	return -1
}

// ReadMsg returns a decoded message: it is the right one iff ID and payload are those of body k
func checkMsg(m *dns.Msg, k int, bodies [][]byte) []byte {
	if k >= len(bodies) {
		return nil
	}
	want := bodies[k]
	if int(m.Id) != int(want[0])<<8|int(want[1]) {
		return nil
	}
	if len(want) >= 23 {
		if len(m.Extra) != 1 {
			return nil
		}
		rr, ok := m.Extra[0].(*dns.RFC3597)
		if !ok {
			return nil
		}
		rd, err := hex.DecodeString(rr.Rdata)
		if err != nil || !bytes.Equal(rd, want[23:]) {
			return nil
		}
	}
	return want
}

// The messages of the scenario arrive as datagrams on one Conn and are read one after the other (pipelined queries);
// everything that was returned is kept and compared only after the last read: what a read handed out must not change
// when the next one happens.
func (r *runner) dgramRead(v *svec, api string) {
	_, bodies := v.stream()
	d := memnet.NewDgramConn(memnet.Addr("client"), memnet.Addr("server"), nil)
	for _, b := range bodies {
		d.Deliver(b)
	}
	d.SetDryTimeout(true)
	co := &dns.Conn{Conn: d, UDPSize: 65535}
	var raws [][]byte
	var msgs []*dns.Msg
	for range bodies {
		if api == "dgram.ReadMsgHeader" {
			p, err := co.ReadMsgHeader(nil)
			if err != nil {
				r.mis(v, api, "datagram-not-delivered", fmt.Sprintf("read %d failed: %v", len(raws), err))
				return
			}
			raws = append(raws, p)
		} else {
			m, err := co.ReadMsg()
			if err != nil {
				r.mis(v, api, "datagram-not-delivered", fmt.Sprintf("read %d failed: %v", len(msgs), err))
				return
			}
			msgs = append(msgs, m)
		}
	}
	for k := range bodies {
		if api == "dgram.ReadMsgHeader" {
			if !bytes.Equal(raws[k], bodies[k]) {
				r.mis(v, api, "message-changed-by-later-read", fmt.Sprintf("datagram %d (%d octets) as returned by ReadMsgHeader no longer holds its octets after the following read", k, len(bodies[k])))
				return
			}
		} else if checkMsg(msgs[k], k, bodies) == nil {
			r.mis(v, api, "message-changed-by-later-read", fmt.Sprintf("datagram %d as returned by ReadMsg is not the message that was sent", k))
			return
		}
	}
}

// ------------------------------------------------------------------ read side, server (Server.readTCP)

type readLog struct {
	data []byte
	err  error
}

type logReader struct {
	dns.Reader
	logs *sync.Map
}

func (l logReader) ReadTCP(conn net.Conn, timeout time.Duration) ([]byte, error) {
	m, err := l.Reader.ReadTCP(conn, timeout)
	if ch, ok := l.logs.Load(conn); ok {
		select {
		case ch.(chan readLog) <- readLog{append([]byte(nil), m...), err}:
		default: // nobody listens any more (the scenario was already judged)
		}
	}
	return m, err
}

type readServer struct {
	l    *memnet.Listener
	srv  *dns.Server
	logs sync.Map
	done chan error
}

func hour() time.Duration { return time.Hour }

func newReadServer() *readServer {
	rs := &readServer{l: memnet.NewListener(), done: make(chan error, 1)}
	started := make(chan struct{})
	rs.srv = &dns.Server{Listener: rs.l, Handler: dns.HandlerFunc(func(dns.ResponseWriter, *dns.Msg) {}), ReadTimeout: time.Hour, IdleTimeout: hour,
		MaxTCPQueries: -1, NotifyStartedFunc: func() { close(started) },
		DecorateReader: func(rd dns.Reader) dns.Reader { return logReader{rd, &rs.logs} }}
	go func() { rs.done <- rs.srv.ActivateAndServe() }()
	<-started
	return rs
}

func (r *runner) serverRead(v *svec) {
	wire, bodies := v.stream()
	upto := v.EOF
	if upto > len(wire) {
		upto = len(wire)
	}
	c, s := memnet.Pipe()
	s.ScriptRead(memnet.Script{Chunks: v.Chunks, CutAt: -1})
	ch := make(chan readLog, len(bodies)+8)
	r.rsrv.logs.Store(net.Conn(s), ch)
	defer r.rsrv.logs.Delete(net.Conn(s))
	r.rsrv.l.DialWith(s)
	c.Write(wire[:upto])
	c.CloseWrite()
	got := 0
	for k := 0; ; k++ {
		e := <-ch
		if e.err != nil {
			break
		}
		if k >= len(bodies) || !bytes.Equal(e.data, bodies[k]) {
			r.mis(v, "readTCP", "message-mangled", fmt.Sprintf("message %d read by the server is not the %d octets that were framed (got %d octets)", k, lenOf(bodies, k), len(e.data)))
			c.Close()
			return
		}
		got++
		if k > len(bodies)+2 {
			r.mis(v, "readTCP", "no-error-at-end", "the stream ended but the server keeps reading messages")
			c.Close()
			return
		}
	}
	c.Close()
	if got != v.Delivered {
		r.mis(v, "readTCP", "delivered-count", fmt.Sprintf("%d messages read before the error, spec %d", got, v.Delivered))
	}
}

// ------------------------------------------------------------------ write side, client

// what must be on the wire after the scenario's writes
func (v *svec) expectWire() []byte {
	wire, _ := v.stream()
	if len(v.ShortW) == 2 && v.EOF < len(wire) {
		return wire[:v.EOF]
	}
	return wire
}

func (r *runner) checkWrites(v *svec, path string, errs []error, wire []byte) {
	for i, e := range errs {
		switch v.Writes[i] {
		case "ok":
			if e != nil {
				r.mis(v, path, "write-failed", fmt.Sprintf("write of message %d (%d octets) failed: %v", i, v.Sizes[i], e))
			}
		case "refused":
			if e == nil {
				r.mis(v, path, "oversize-accepted", fmt.Sprintf("message %d of %d octets was not refused", i, v.Sizes[i]))
			}
		case "short":
			if e == nil {
				r.mis(v, path, "short-write-unreported", fmt.Sprintf("the connection took only part of message %d and the writer reports success", i))
			}
		}
	}
	if want := v.expectWire(); !bytes.Equal(wire, want) {
		r.mis(v, path, "wire-differs", fmt.Sprintf("%d octets on the wire, spec %d (first difference at %d)", len(wire), len(want), firstDiff(wire, want)))
	}
}

func firstDiff(a, b []byte) int {
	for i := 0; i < len(a) && i < len(b); i++ {
		if a[i] != b[i] {
			return i
		}
	}
	if len(a) < len(b) {
		return len(a)
	}
	return len(b)
}

func (r *runner) clientWrite(v *svec, api string) {
	c, s := memnet.Pipe()
	if len(v.ShortW) == 2 {
		c.ScriptWrite(v.EOF)
	}
	co := &dns.Conn{Conn: c}
	errs := make([]error, len(v.Sizes))
	for i, n := range v.Sizes {
		if v.Writes[i] == "notattempted" {
			continue
		}
		p := body(i, n)
		if api == "WriteMsg" {
			m := new(dns.Msg)
			if err := m.Unpack(p); err != nil {
				hx.Die("harness message of %d octets does not unpack: %v", n, err)
			}
			errs[i] = co.WriteMsg(m)
		} else {
			_, errs[i] = co.Write(p)
		}
	}
	c.Close()
	wire, _ := io.ReadAll(s)
	r.checkWrites(v, api, errs, wire)
}

// WriteMsg packs the message itself: usable when Pack gives back the very octets (no padding octets after the header)
func packable(v *svec) bool {
	for _, n := range v.Sizes {
		if n != 12 && (n < 23 || n > 65535) {
			return false
		}
	}
	return true
}

// ------------------------------------------------------------------ write side, server (response.Write / WriteMsg)

type writeJob struct {
	v       *svec
	api     string
	errs    []error
	done    chan struct{}
	srvEnd  *memnet.Conn
	pair    bool
	arrived chan dns.ResponseWriter
}

type writeServer struct {
	l    *memnet.Listener
	srv  *dns.Server
	jobs sync.Map // query id -> *writeJob
	done chan error
	next atomic.Uint32
	gate atomic.Pointer[wgate]
}

// wgate orders two replies written through the server's (decorated) writer: the first one to arrive, already packed,
// is held back until the second has been written completely.
type wgate struct {
	n          atomic.Int32
	parked     chan struct{} // closed when the first reply waits at the gate
	secondDone chan struct{} // closed when the second reply has been written
	once1      sync.Once
	once2      sync.Once
}

func (g *wgate) firstParked() { g.once1.Do(func() { close(g.parked) }) }
func (g *wgate) secondOut()   { g.once2.Do(func() { close(g.secondDone) }) }

type gateWriter struct {
	inner dns.Writer
	ws    *writeServer
}

func (w gateWriter) Write(p []byte) (int, error) {
	g := w.ws.gate.Load()
	if g == nil {
		return w.inner.Write(p)
	}
	if g.n.Add(1) == 1 {
		g.firstParked()
		<-g.secondDone
		return w.inner.Write(p)
	}
	n, err := w.inner.Write(p)
	g.secondOut()
	return n, err
}

func newWriteServer() *writeServer {
	ws := &writeServer{l: memnet.NewListener(), done: make(chan error, 1)}
	started := make(chan struct{})
	ws.srv = &dns.Server{Listener: ws.l, Handler: ws, ReadTimeout: time.Hour, IdleTimeout: hour, MaxTCPQueries: -1,
		NotifyStartedFunc: func() { close(started) },
		DecorateWriter:    func(w dns.Writer) dns.Writer { return gateWriter{w, ws} }}
	go func() { ws.done <- ws.srv.ActivateAndServe() }()
	<-started
	return ws
}

func (ws *writeServer) ServeDNS(w dns.ResponseWriter, m *dns.Msg) {
	j, ok := ws.jobs.Load(m.Id &^ 1)
	if !ok {
		return
	}
	job := j.(*writeJob)
	if job.pair {
		job.arrived <- w // the writing happens elsewhere; this connection goes on reading
		return
	}
	v := job.v
	for i, n := range v.Sizes {
		if v.Writes[i] == "notattempted" {
			continue
		}
		p := body(i, n)
		if job.api == "response.WriteMsg" {
			r := new(dns.Msg)
			if err := r.Unpack(p); err != nil {
				hx.Die("harness message of %d octets does not unpack: %v", n, err)
			}
			job.errs[i] = w.WriteMsg(r)
		} else {
			_, job.errs[i] = w.Write(p)
		}
	}
	close(job.done)
}

func query(id uint16) []byte {
	m := new(dns.Msg)
	m.SetQuestion("job.verif-harness.", dns.TypeTXT)
	m.Id = id
	b, err := m.Pack()
	if err != nil {
		hx.Die("pack: %v", err)
	}
	return b
}

func (r *runner) serverWrite(v *svec, api string) {
	id := uint16(r.wsrv.next.Add(2))
	job := &writeJob{v: v, api: api, errs: make([]error, len(v.Sizes)), done: make(chan struct{})}
	r.wsrv.jobs.Store(id, job)
	defer r.wsrv.jobs.Delete(id)
	c, s := memnet.Pipe()
	if len(v.ShortW) == 2 {
		s.ScriptWrite(v.EOF)
	}
	r.wsrv.l.DialWith(s)
	c.Write(frame(query(id)))
	<-job.done
	c.CloseWrite()
	wire, _ := io.ReadAll(c) // the server closes its end once it has read our EOF
	c.Close()
	r.checkWrites(v, api, job.errs, wire)
}

// two handler goroutines answer two pipelined queries on one connection at the same time
func (r *runner) serverWritePair(v *svec) {
	id := uint16(r.wsrv.next.Add(2))
	job := &writeJob{v: v, pair: true, arrived: make(chan dns.ResponseWriter, 2)}
	r.wsrv.jobs.Store(id, job)
	defer r.wsrv.jobs.Delete(id)
	c, s := memnet.Pipe()
	s.Alternate(2)
	r.wsrv.l.DialWith(s)
	c.Write(frame(query(id)))
	c.Write(frame(query(id + 1)))
	w1, w2 := <-job.arrived, <-job.arrived
	var wg sync.WaitGroup
	errs := make([]error, 2)
	for i, w := range []dns.ResponseWriter{w1, w2} {
		wg.Add(1)
		go func(i int, w dns.ResponseWriter) {
			defer wg.Done()
			_, errs[i] = w.Write(body(i, v.Sizes[i]))
			s.WriterDone()
		}(i, w)
	}
	wg.Wait()
	c.CloseWrite()
	wire, _ := io.ReadAll(c)
	c.Close()
	f1, f2 := frame(body(0, v.Sizes[0])), frame(body(1, v.Sizes[1]))
	if errs[0] != nil || errs[1] != nil {
		r.mis(v, "response.Write-concurrent", "write-failed", fmt.Sprintf("%v / %v", errs[0], errs[1]))
	}
	if !bytes.Equal(wire, append(append([]byte(nil), f1...), f2...)) && !bytes.Equal(wire, append(append([]byte(nil), f2...), f1...)) {
		r.mis(v, "response.Write-concurrent", "frames-interleaved", "two replies written concurrently on one connection are not two whole frames on the wire")
	}
}

// Two pipelined queries on one connection, answered with WriteMsg from two goroutines of their own (RFC 7766: a server
// may answer out of order) with distinct replies.  gated: reply A is packed and held at the writer until reply B has
// been packed and written, then A is written; otherwise the two run freely (what the race detector looks at).
// Each query must get exactly its own reply, intact.
func (r *runner) serverWriteMsgPair(v *svec, gated bool) {
	path := "response.WriteMsg-concurrent"
	id := uint16(r.wsrv.next.Add(2))
	job := &writeJob{v: v, pair: true, arrived: make(chan dns.ResponseWriter, 2)}
	r.wsrv.jobs.Store(id, job)
	defer r.wsrv.jobs.Delete(id)
	var want [2][]byte
	var msgs [2]*dns.Msg
	for i := 0; i < 2; i++ {
		m := new(dns.Msg)
		if err := m.Unpack(body(i, v.Sizes[i])); err != nil {
			hx.Die("harness message does not unpack: %v", err)
		}
		m.Id = id + uint16(i)
		b, err := m.Pack()
		if err != nil {
			hx.Die("harness message does not pack: %v", err)
		}
		msgs[i], want[i] = m, b
	}
	c, s := memnet.Pipe()
	r.wsrv.l.DialWith(s)
	c.Write(frame(query(id)))
	c.Write(frame(query(id + 1)))
	w1, w2 := <-job.arrived, <-job.arrived
	errs := make([]error, 2)
	var wg sync.WaitGroup
	if gated {
		g := &wgate{parked: make(chan struct{}), secondDone: make(chan struct{})}
		r.wsrv.gate.Store(g)
		wg.Add(2)
		go func() {
			defer wg.Done()
			errs[0] = w1.WriteMsg(msgs[0])
			g.firstParked() // had it failed before reaching the writer
		}()
		<-g.parked
		go func() {
			defer wg.Done()
			errs[1] = w2.WriteMsg(msgs[1])
			g.secondOut()
		}()
		wg.Wait()
		r.wsrv.gate.Store(nil)
	} else {
		s.Alternate(2)
		start := make(chan struct{})
		for i, w := range []dns.ResponseWriter{w1, w2} {
			wg.Add(1)
			go func(i int, w dns.ResponseWriter) {
				defer wg.Done()
				<-start
				errs[i] = w.WriteMsg(msgs[i])
				s.WriterDone()
			}(i, w)
		}
		close(start)
		wg.Wait()
	}
	c.CloseWrite()
	wire, _ := io.ReadAll(c)
	c.Close()
	if errs[0] != nil || errs[1] != nil {
		r.mis(v, path, "write-failed", fmt.Sprintf("%v / %v", errs[0], errs[1]))
	}
	f1, f2 := frame(want[0]), frame(want[1])
	if !bytes.Equal(wire, append(append([]byte(nil), f1...), f2...)) && !bytes.Equal(wire, append(append([]byte(nil), f2...), f1...)) {
		how := "freely"
		if gated {
			how = "the first held at the writer until the second was out"
		}
		r.mis(v, path, "replies-mixed", fmt.Sprintf("two distinct replies (%d and %d octets) written with WriteMsg from two goroutines on one connection (%s): the wire does not hold exactly the two of them", len(want[0]), len(want[1]), how))
	}
}

// ------------------------------------------------------------------ one stream vector through every path

func (r *runner) stream(v *svec) {
	want := func(p string) bool {
		if v.Path != "" && v.Path != p {
			return false
		}
		r.paths[p]++
		r.sum.Evaluations++
		r.enter(v, p)
		return true
	}
	refusal := false
	for _, w := range v.Writes {
		if w == "refused" {
			refusal = true
		}
	}
	if !refusal || v.Path != "" {
		for _, api := range []string{"ReadMsgHeader", "Read", "ReadMsg"} {
			if want(api) {
				if api != "Read" && v.Hdr != nil && v.hasRunt() {
					r.clientReadHdr(v, api)
				} else {
					r.clientRead(v, api)
				}
			}
		}
		if want("readTCP") {
			r.serverRead(v)
		}
		if len(v.ShortW) == 0 && v.EOF >= v.Total && !v.hasRunt() { // a datagram shorter than a header is not a message: nothing to deliver
			for _, api := range []string{"dgram.ReadMsgHeader", "dgram.ReadMsg"} {
				if want(api) {
					r.dgramRead(v, api)
				}
			}
		}
	}
	// write paths: scenarios without a stream cut that is not a write failure
	if len(v.ShortW) == 2 || v.EOF >= v.Total {
		if want("Write") {
			r.clientWrite(v, "Write")
		}
		if want("response.Write") {
			r.serverWrite(v, "response.Write")
		}
		if packable(v) {
			if want("WriteMsg") {
				r.clientWrite(v, "WriteMsg")
			}
			if want("response.WriteMsg") {
				r.serverWrite(v, "response.WriteMsg")
			}
		}
		if len(v.Sizes) == 2 && len(v.ShortW) == 0 && !refusal && len(v.Chunks) <= 3 && want("response.Write-concurrent") {
			r.serverWritePair(v)
		}
		if len(v.Sizes) == 2 && len(v.ShortW) == 0 && !refusal && len(v.Chunks) <= 3 && packable(v) && v.Sizes[0] != v.Sizes[1] && want("response.WriteMsg-concurrent") {
			r.serverWriteMsgPair(v, true)
			r.serverWriteMsgPair(v, false)
		}
	}
}

// ------------------------------------------------------------------ the reply-ID rule

func delta(tag string) uint16 {
	switch tag {
	case "mine":
		return 0
	case "other":
		return 1
	}
	return 2
}

func idReply(q *dns.Msg, tag string, idx int) []byte {
	m := new(dns.Msg)
	m.SetReply(q)
	m.Id = q.Id + delta(tag)
	if curSpell == "lowered" { // a server that echoes the question in lower case: the same name (RFC 1035 2.3.3, RFC 4343)
		m.Question[0].Name = strings.ToLower(m.Question[0].Name)
	}
	rr, _ := dns.NewRR(fmt.Sprintf("idx. 0 IN TXT \"%d\"", idx))
	m.Answer = append(m.Answer, rr)
	b, err := m.Pack()
	if err != nil {
		hx.Die("pack reply: %v", err)
	}
	return b
}

func replyIdx(m *dns.Msg) int {
	if m == nil || len(m.Answer) != 1 {
		return -1
	}
	t, ok := m.Answer[0].(*dns.TXT)
	if !ok || len(t.Txt) != 1 {
		return -1
	}
	n, err := strconv.Atoi(t.Txt[0])
	if err != nil {
		return -1
	}
	return n
}

func isTimeout(err error) bool {
	var ne net.Error
	return errors.As(err, &ne) && ne.Timeout()
}

func (r *runner) judgeID(v *svec, via string, q *dns.Msg, m *dns.Msg, err error) {
	c := *v
	c.Path = via
	mis := func(clause, what string) {
		r.sum.Mis("idmatch/"+v.Transport+"/"+clause, fmt.Sprintf("[%s] inbox %v, %d before the deadline: %s", via, v.Inbox, v.DL, what), &c)
	}
	switch v.Res {
	case "ok":
		if err != nil {
			if isTimeout(err) {
				mis("matching-reply-missed", "the matching reply arrived before the deadline but Exchange timed out")
			} else {
				mis("matching-reply-refused", fmt.Sprintf("Exchange failed with %v although reply %d matches", err, v.Idx))
			}
		} else if m.Id != q.Id || replyIdx(m) != v.Idx {
			mis("wrong-reply-returned", fmt.Sprintf("Exchange returned reply #%d with id %d (query %d), spec: reply #%d", replyIdx(m), m.Id, q.Id, v.Idx))
		} else if len(m.Question) != 1 || !sameQuestion(m.Question[0], q.Question[0]) {
			mis("wrong-reply-returned", fmt.Sprintf("Exchange returned a reply for question %v, asked %v", m.Question, q.Question))
		}
	case "errid":
		if err != dns.ErrId {
			mis("foreign-id-not-an-error", fmt.Sprintf("first reply has a foreign id; Exchange returned err=%v", err))
		}
	case "timeout":
		if err == nil {
			mis("foreign-reply-accepted", fmt.Sprintf("no matching reply before the deadline but Exchange returned reply #%d (id %d, query %d)", replyIdx(m), m.Id, q.Id))
		} else if !isTimeout(err) {
			mis("deadline-not-a-timeout", fmt.Sprintf("spec: timeout, got %v", err))
		}
	}
}

// how the question of the current id vector is spelled (vectors are replayed one after the other)
var curSpell string

// the same question: type, class and the wire form of the name up to ASCII case (the spelling of the text plays no role)
func sameQuestion(a, b dns.Question) bool {
	wa, wb := make([]byte, 256), make([]byte, 256)
	na, ea := dns.PackDomainName(a.Name, wa, 0, nil, false)
	nb, eb := dns.PackDomainName(b.Name, wb, 0, nil, false)
	return ea == nil && eb == nil && a.Qtype == b.Qtype && a.Qclass == b.Qclass && bytes.EqualFold(wa[:na], wb[:nb])
}

func newQuery(i int) *dns.Msg {
	q := new(dns.Msg)
	switch curSpell {
	case "escaped": // the same octets written with a redundant escape: a faithful echo prints differently
		q.SetQuestion("id.verif-h\\097rness.", dns.TypeA)
	case "lowered":
		q.SetQuestion("Id.Verif-HARNESS.", dns.TypeA)
	default:
		q.SetQuestion("id.verif-harness.", dns.TypeA)
	}
	q.Id = uint16(2000 + 7*i)
	return q
}

func (r *runner) idFake(v *svec, i int, realDeadline bool) {
	q := newQuery(i)
	cl := &dns.Client{Timeout: time.Hour}
	if realDeadline {
		cl.Timeout = 120 * time.Millisecond
	}
	var co *dns.Conn
	if v.Transport == "stream" {
		cl.Net = "tcp"
		c, s := memnet.Pipe()
		co = &dns.Conn{Conn: c}
		go func() {
			if _, err := readFrame(s); err != nil {
				return
			}
			for k := 0; k < v.DL; k++ {
				s.Write(frame(idReply(q, v.Inbox[k], k+1)))
			}
			if !realDeadline {
				c.SetDryTimeout(true)
			}
		}()
	} else {
		var d *memnet.DgramConn
		d = memnet.NewDgramConn(memnet.Addr("client"), memnet.Addr("server"), func(data []byte) {
			for k := 0; k < v.DL; k++ {
				d.Deliver(idReply(q, v.Inbox[k], k+1))
			}
			if !realDeadline {
				d.SetDryTimeout(true)
			}
		})
		co = &dns.Conn{Conn: d}
	}
	m, _, err := cl.ExchangeWithConn(q, co)
	co.Close()
	via := "ExchangeWithConn"
	if realDeadline {
		via += "+deadline"
	}
	r.judgeID(v, via, q, m, err)
	// One deadline per exchange: the fake recorded every read deadline it was given.  Compare the instants asked for
	// (no clock is read here): once the request is written the deadline in force must not move later.
	var recs []memnet.DeadlineRec
	switch x := co.Conn.(type) {
	case *memnet.Conn:
		recs = x.ReadDeadlines()
	case *memnet.DgramConn:
		recs = x.ReadDeadlines()
	}
	var inForce time.Time // zero: none
	later := 0
	for _, d := range recs {
		if d.Writes > 0 && !inForce.IsZero() && (d.T.IsZero() || d.T.After(inForce)) {
			later++
		}
		inForce = d.T
	}
	if later > v.Extend {
		c := *v
		c.Path = via
		r.sum.Mis("idmatch/"+v.Transport+"/deadline-moved-later", fmt.Sprintf("[%s] inbox %v, %d before the deadline: after the request was written the read deadline was moved later %d time(s) (%d deadlines set); every skipped reply buys more time",
			via, v.Inbox, v.DL, later, len(recs)), &c)
	}
}

func readFrame(c net.Conn) ([]byte, error) {
	var l [2]byte
	if _, err := io.ReadFull(c, l[:]); err != nil {
		return nil, err
	}
	b := make([]byte, binary.BigEndian.Uint16(l[:]))
	_, err := io.ReadFull(c, b)
	return b, err
}

// the same through real loopback sockets and Client.ExchangeContext; all replies arrive (dl = len(inbox))
func (r *runner) idReal(v *svec, i int) {
	q := newQuery(i)
	cl := &dns.Client{Timeout: 5 * time.Second}
	if v.Res == "timeout" {
		cl.Timeout = 150 * time.Millisecond
	}
	var addr string
	stop := make(chan struct{})
	defer close(stop)
	if v.Transport == "stream" {
		cl.Net = "tcp"
		l, err := net.Listen("tcp", "127.0.0.1:0")
		if err != nil {
			hx.Die("listen: %v", err)
		}
		defer l.Close()
		addr = l.Addr().String()
		go func() {
			c, err := l.Accept()
			if err != nil {
				return
			}
			defer c.Close()
			if _, err := readFrame(c); err != nil {
				return
			}
			for k := 0; k < v.DL; k++ {
				c.Write(frame(idReply(q, v.Inbox[k], k+1)))
			}
			<-stop
		}()
	} else {
		pc, err := net.ListenUDP("udp", &net.UDPAddr{IP: net.IPv4(127, 0, 0, 1)})
		if err != nil {
			hx.Die("listen: %v", err)
		}
		defer pc.Close()
		addr = pc.LocalAddr().String()
		go func() {
			buf := make([]byte, 4096)
			_, from, err := pc.ReadFromUDP(buf)
			if err != nil {
				return
			}
			for k := 0; k < v.DL; k++ {
				pc.WriteToUDP(idReply(q, v.Inbox[k], k+1), from)
			}
		}()
	}
	m, _, err := cl.ExchangeContext(context.Background(), q, addr)
	if v.Transport == "dgram" && v.Res == "ok" && err != nil && isTimeout(err) {
		r.paths["id-real-lost"]++ // a datagram can be lost even on loopback: not an observation
		return
	}
	r.judgeID(v, "ExchangeContext", q, m, err)
}

func (r *runner) id(v *svec, i int) {
	r.enter(v, "ExchangeWithConn")
	if v.Path == "" || v.Path == "ExchangeWithConn" {
		r.sum.Evaluations++
		r.paths["id-fake"]++
		r.idFake(v, i, false)
	}
	if (v.Path == "" && v.Res == "timeout" && i%40 == 0) || v.Path == "ExchangeWithConn+deadline" {
		r.sum.Evaluations++
		r.paths["id-fake-deadline"]++
		r.idFake(v, i, true)
	}
	if (v.Path == "" && v.DL == len(v.Inbox) && (i%9 == 0 && v.Res != "timeout" || i%60 == 0)) || v.Path == "ExchangeContext" {
		r.sum.Evaluations++
		r.paths["id-real"]++
		r.idReal(v, i)
	}
	// every real transport kind the spec names for this case, on sockets of that kind
	for _, ka := range v.Kinds {
		via := "socket:" + ka.K
		if v.Path != "" && v.Path != via {
			continue
		}
		waits := false
		for _, a := range ka.Admitted {
			if a.Res == "timeout" {
				waits = true
			}
		}
		if v.Path == "" {
			if waits && !(len(v.Inbox) <= 1 || len(v.Inbox) == 9 || i%50 == 0) {
				continue // each of these costs a real deadline
			}
			if !waits && !(len(v.Inbox) <= 2 || len(v.Inbox) >= 8 || i%5 == 0) {
				continue
			}
		}
		r.enter(v, via)
		r.idKind(v, i, ka, waits)
	}
}

type wrapUnix struct{ *net.UnixConn }
type wrapUDP struct{ *net.UDPConn }
type wrapTCP struct{ *net.TCPConn }

var sockDir string
var sockSeq int

func sockPath(tag string) string {
	if sockDir == "" {
		d, err := os.MkdirTemp("", "vx")
		if err != nil {
			hx.Die("temp dir: %v", err)
		}
		sockDir = d
	}
	sockSeq++
	return fmt.Sprintf("%s/%s%d", sockDir, tag, sockSeq)
}

// idKind: the peer sends the first dl replies of the inbox over a real socket of the given kind.
// dialKind opens a real socket of the given transport kind to a peer that reads one request and then sends the given
// replies (framed on byte streams).  ok = false: the OS refused the kind (counted as skipped).
func (r *runner) dialKind(kind string, replies [][]byte) (net.Conn, func(), bool) {
	stop := make(chan struct{})
	var cleanups []func()
	cleanup := func() {
		close(stop)
		for _, f := range cleanups {
			f()
		}
	}
	var conn net.Conn
	var err error
	framed := true
	skip := func(e error) {
		r.paths["id-socket-skipped:"+kind]++
		_ = e
		cleanup()
	}
	switch kind {
	case "tcp", "tcpwrapped", "unix", "unixwrapped", "unixpacket":
		network, addr := "tcp", "127.0.0.1:0"
		if kind == "unix" || kind == "unixwrapped" {
			network, addr = "unix", sockPath("s")
		}
		if kind == "unixpacket" {
			network, addr, framed = "unixpacket", sockPath("p"), false
		}
		l, e := net.Listen(network, addr)
		if e != nil {
			skip(e)
			return nil, nil, false
		}
		cleanups = append(cleanups, func() { l.Close() })
		go func() {
			c, e := l.Accept()
			if e != nil {
				return
			}
			defer c.Close()
			if framed {
				if _, e := readFrame(c); e != nil {
					return
				}
			} else if _, e := c.Read(make([]byte, 4096)); e != nil {
				return
			}
			for _, p := range replies {
				if framed {
					c.Write(frame(p))
				} else {
					c.Write(p)
				}
			}
			<-stop
		}()
		conn, err = net.Dial(network, l.Addr().String())
		if err == nil {
			switch kind {
			case "unixwrapped":
				conn = wrapUnix{conn.(*net.UnixConn)}
			case "tcpwrapped":
				conn = wrapTCP{conn.(*net.TCPConn)}
			}
		}
	case "udp", "udpwrapped":
		pc, e := net.ListenUDP("udp", &net.UDPAddr{IP: net.IPv4(127, 0, 0, 1)})
		if e != nil {
			skip(e)
			return nil, nil, false
		}
		cleanups = append(cleanups, func() { pc.Close() })
		go func() {
			_, from, e := pc.ReadFromUDP(make([]byte, 4096))
			if e != nil {
				return
			}
			for _, p := range replies {
				pc.WriteToUDP(p, from)
			}
		}()
		conn, err = net.Dial("udp", pc.LocalAddr().String())
		if err == nil && kind == "udpwrapped" {
			conn = wrapUDP{conn.(*net.UDPConn)}
		}
	case "unixgram":
		sa := &net.UnixAddr{Name: sockPath("g"), Net: "unixgram"}
		pc, e := net.ListenUnixgram("unixgram", sa)
		if e != nil {
			skip(e)
			return nil, nil, false
		}
		cleanups = append(cleanups, func() { pc.Close() })
		go func() {
			_, from, e := pc.ReadFromUnix(make([]byte, 4096))
			if e != nil {
				return
			}
			for _, p := range replies {
				pc.WriteToUnix(p, from)
			}
		}()
		conn, err = net.DialUnix("unixgram", &net.UnixAddr{Name: sockPath("c"), Net: "unixgram"}, sa)
	default:
		hx.Die("unknown transport kind %q in vector", kind)
	}
	if err != nil {
		skip(err)
		return nil, nil, false
	}
	return conn, cleanup, true
}

func (r *runner) idKind(v *svec, i int, ka kindAdm, waits bool) {
	q := newQuery(i)
	var replies [][]byte
	for k := 0; k < v.DL; k++ {
		replies = append(replies, idReply(q, v.Inbox[k], k+1))
	}
	conn, cleanup, ok := r.dialKind(ka.K, replies)
	if !ok {
		return
	}
	defer cleanup()
	r.sum.Evaluations++
	r.paths["id-socket:"+ka.K]++
	cl := &dns.Client{Timeout: 3 * time.Second}
	if waits {
		cl.Timeout = 150 * time.Millisecond
	}
	co := &dns.Conn{Conn: conn}
	m, _, xerr := cl.ExchangeWithConn(q, co)
	co.Close()
	// what was observed, in the spec's vocabulary
	obs := idRes{Res: "error"}
	switch {
	case xerr == nil && m.Id == q.Id:
		obs = idRes{"ok", replyIdx(m)}
	case xerr == nil:
		obs = idRes{"foreign", replyIdx(m)}
	case xerr == dns.ErrId:
		obs = idRes{"errid", 1}
	case isTimeout(xerr):
		obs = idRes{"timeout", 0}
	}
	for _, a := range ka.Admitted {
		if a == obs {
			return
		}
	}
	lossy := ka.K == "udp" || ka.K == "udpwrapped" || ka.K == "unixgram"
	if lossy && obs.Res == "timeout" {
		r.paths["id-socket-lost:"+ka.K]++ // a datagram may be lost: not an observation
		return
	}
	// not admitted: name the clause through the first admitted result
	w := *v
	w.Res, w.Idx = ka.Admitted[0].Res, ka.Admitted[0].Idx
	w.Transport = v.Transport + ":" + ka.K
	r.judgeID(&w, "socket:"+ka.K, q, m, xerr)
}

func observe(q, m *dns.Msg, xerr error) idRes {
	switch {
	case xerr == nil && m.Id == q.Id:
		return idRes{"ok", replyIdx(m)}
	case xerr == nil:
		return idRes{"foreign", replyIdx(m)}
	case xerr == dns.ErrId:
		return idRes{"errid", 1}
	case isTimeout(xerr):
		return idRes{"timeout", 0}
	}
	return idRes{Res: "error"}
}

// repoint: ONE dns.Conn value makes an exchange over a transport of kind First, is then pointed at a transport of kind
// Second (co.Conn = ...) and makes another exchange: framing and ID rule of the second exchange are those of Second.
func (r *runner) repoint(v *svec, i int) {
	via := "repoint:" + v.First + "->" + v.Second
	if v.Path != "" && v.Path != via {
		return
	}
	r.enter(v, via)
	lossy := func(k string) bool { return k == "udp" || k == "udpwrapped" || k == "unixgram" }
	q1 := newQuery(2 * i)
	c1, clean1, ok := r.dialKind(v.First, [][]byte{idReply(q1, "mine", 1)})
	if !ok {
		return
	}
	defer clean1()
	cl := &dns.Client{Timeout: 3 * time.Second}
	co := &dns.Conn{Conn: c1}
	m1, _, err1 := cl.ExchangeWithConn(q1, co)
	if o := observe(q1, m1, err1); o != (idRes{"ok", 1}) {
		c1.Close()
		if lossy(v.First) && o.Res == "timeout" {
			r.paths["id-socket-lost:"+v.First]++
			return
		}
		w := *v
		w.Path, w.Res, w.Idx, w.Transport, w.Inbox, w.DL = via, "ok", 1, "first:"+v.First, []string{"mine"}, 1
		r.judgeID(&w, via, q1, m1, err1)
		return
	}
	q2 := newQuery(2*i + 1)
	var replies [][]byte
	for k := 0; k < v.DL; k++ {
		replies = append(replies, idReply(q2, v.Inbox[k], k+1))
	}
	c2, clean2, ok := r.dialKind(v.Second, replies)
	if !ok {
		c1.Close()
		return
	}
	defer clean2()
	c1.Close()
	co.Conn = c2 // the same Conn value, another transport
	r.sum.Evaluations++
	r.paths["id-repoint"]++
	m2, _, err2 := cl.ExchangeWithConn(q2, co)
	co.Close()
	o := observe(q2, m2, err2)
	for _, a := range v.Admitted {
		if a == o {
			return
		}
	}
	if lossy(v.Second) && o.Res == "timeout" {
		r.paths["id-socket-lost:"+v.Second]++
		return
	}
	w := *v
	w.Path, w.Res, w.Idx = via, v.Admitted[0].Res, v.Admitted[0].Idx
	w.Transport = v.Rule + ":" + v.Second + "/repointed"
	r.judgeID(&w, via+" (one Conn, pointed at another transport between two exchanges)", q2, m2, err2)
}

var forcePath string // replay <vectors> <path>: run only that path of every vector

func replay(path string) {
	var sum hx.Summary
	r := &runner{sum: &sum, rsrv: newReadServer(), wsrv: newWriteServer(), paths: map[string]int{}}
	seen := map[string]bool{}
	go r.watchdog()
	hx.ReadNDJSON(path, func(i int, v *svec) {
		if forcePath != "" {
			v.Path = forcePath
		}
		switch v.Kind {
		case "stream":
			seen[fmt.Sprint(v.Sizes, v.Chunks, v.EOF, v.ShortW)] = true
			r.stream(v)
		case "id":
			seen[fmt.Sprint(v.Transport, v.Inbox, v.DL, v.Q)] = true
			curSpell = v.Q
			r.id(v, i)
			curSpell = ""
		case "repoint":
			seen[fmt.Sprint(v.First, v.Second, v.Inbox)] = true
			r.repoint(v, i)
		default:
			hx.Die("unknown vector kind %q", v.Kind)
		}
		if i%499 == 0 {
			c := *v
			if len(c.Chunks) > 20 {
				c.Chunks = c.Chunks[:20]
			}
			sum.Sample(c)
		}
	})
	r.enter(nil, "")
	ctx, cancel := context.WithTimeout(context.Background(), 5*time.Second)
	r.rsrv.srv.ShutdownContext(ctx) // a connection goroutine left behind by a judged scenario must not keep us
	r.wsrv.srv.ShutdownContext(ctx)
	cancel()
	if sockDir != "" {
		os.RemoveAll(sockDir)
	}
	sum.Nontrivial = len(seen)
	sum.Note("exchange_replay_paths", r.paths)
	sum.Print()
}

// ------------------------------------------------------------------ record: N concurrent clients against a real server

type reqFields struct {
	ID    int  `json:"id"`
	QName hx.B `json:"qname"`
	IP    hx.B `json:"ip"`
	Tok   hx.B `json:"tok"`
}

type xEvent struct {
	Ev       string     `json:"ev"`
	Tr       string     `json:"tr"`
	C        int        `json:"c"`
	Round    int        `json:"round"`
	Try      int        `json:"try"`
	Req      *reqFields `json:"req,omitempty"`  // send, crecv (what came back: id, qname, reply token)
	Req1     *reqFields `json:"req1,omitempty"` // handle: on entry
	Req2     *reqFields `json:"req2,omitempty"` // handle: after k later packets were received
	C0       int        `json:"c0"`             // handle: the client the ResponseWriter named on entry (c: when the reply is written)
	Deferred bool       `json:"deferred"`       // handle: the reply is written after the handler returned
	Same     bool       `json:"same"`           // handle: Pack() on entry == Pack() later
	Later    int        `json:"later"`          // handle: packets received while waiting
	Dst      int        `json:"dst"`            // send: which server address the request goes to (1 = 127.0.0.1, 2 = 127.0.0.2, ...; 0 = n/a)
	Src      int        `json:"src"`            // crecv: which server address the reply came from (99 = none of them)
	Wire     hx.B       `json:"wire,omitempty"` // send: the octets written; handle: Pack() of the request on entry
	Len      int        `json:"len"`            // recv: number of octets the server's reader returned
	Buf      int        `json:"buf"`            // get, put, recv: receive buffer (small number per backing array; 0 = not pooled)
	Inst     int        `json:"inst"`           // recv: c*8+round read from the ID field of the octets as they came off the wire
	Err      string     `json:"err"`            // lost: "timeout" | "other" (an error that is not a timeout); hstat: the error text
	Kind     string     `json:"kind"`           // hstat: what the client did about TSIG on this request: none | good | badmac | badkey
	Seen     string     `json:"seen"`           // hstat: what the handler saw: "none" (no TSIG, status nil) | "ok" | "err"
}

type logger struct {
	mu     sync.Mutex
	w      *hx.Writer
	closed bool
}

func (l *logger) emit(e xEvent) {
	l.mu.Lock()
	if !l.closed {
		l.w.Emit(e)
	}
	l.mu.Unlock()
}

func (l *logger) close() {
	l.mu.Lock()
	l.closed = true
	l.w.Close()
	l.mu.Unlock()
}

func letter(k int) string { return string(rune('A' + k)) }

func instName(c, round int) string {
	return "c" + letter(c/8) + letter(c%8) + "r" + letter(round) + ".exch."
}
func instIP(c, round int) net.IP { return net.IPv4(10, byte(c), byte(round), byte(c+round)).To4() }

// Requests differ widely in size, per client and over time: the token RR is padded so that the whole request has
// between reqBase and 512 octets (512 = the server's receive buffer, Server.UDPSize = MinMsgSize).
const reqBase = 73 // octets of a request whose token has no padding (all names have the same length)
const padMax = 512 - reqBase

func padLen(c, round int) int {
	switch round % 4 {
	case 0:
		return c % 6 // small
	case 1:
		return padMax - c%3 // at and just below the buffer size, right after the small ones
	case 2:
		return (c*37 + round*101) % (padMax + 1)
	}
	if c%2 == 0 {
		return padMax
	}
	return 0
}

func instTok(c, round int) []byte {
	t := []byte{byte(c), byte(round), byte(c*7 + round), byte(255 - c)}
	for i := 1; i <= padLen(c, round); i++ {
		t = append(t, byte(c*13+round*7+i))
	}
	return t
}
func instID(c, round int) uint16 { return uint16(1000 + c*8 + round) }

func replyTok(t []byte) []byte {
	if len(t) > 4 {
		t = t[:4]
	}
	r := make([]byte, len(t))
	for i, b := range t {
		r[len(t)-1-i] = b + 1
	}
	return r
}

// The request carries its token in a private-use RR (RFC 6895; dns.PrivateHandle).  Its Unpack method is the one
// place where user code runs in the middle of decoding: it waits until later packets have been received, so the rest
// of the message (the address record behind it) is decoded from a receive buffer that has had every chance of being
// recycled if the server let go of it too early.
const typeTok = 0xFF42

type tokRdata struct{ tok []byte }

var decodeBarrier func()

func (t *tokRdata) String() string       { return hex.EncodeToString(t.tok) }
func (t *tokRdata) Parse([]string) error { return nil }
func (t *tokRdata) Pack(b []byte) (int, error) {
	if len(b) < len(t.tok) {
		return 0, errors.New("tok: short buffer")
	}
	return copy(b, t.tok), nil
}
func (t *tokRdata) Unpack(b []byte) (int, error) {
	if f := decodeBarrier; f != nil {
		f()
	}
	t.tok = append([]byte(nil), b...)
	return len(b), nil
}
func (t *tokRdata) Copy(d dns.PrivateRdata) error {
	d.(*tokRdata).tok = append([]byte(nil), t.tok...)
	return nil
}
func (t *tokRdata) Len() int { return len(t.tok) }

func mkRequest(c, round int) *dns.Msg {
	m := new(dns.Msg)
	m.SetQuestion(instName(c, round), dns.TypeA)
	m.Id = instID(c, round)
	p := dns.TypeToRR[typeTok]().(*dns.PrivateRR)
	p.Hdr = dns.RR_Header{Name: "tok.", Rrtype: typeTok, Class: dns.ClassINET, Ttl: 1}
	p.Data = &tokRdata{instTok(c, round)}
	m.Extra = []dns.RR{
		p,
		&dns.A{Hdr: dns.RR_Header{Name: instName(c, round), Rrtype: dns.TypeA, Class: dns.ClassINET, Ttl: 1}, A: instIP(c, round)},
	}
	return m
}

// read the identifying fields back out of a message (request at the handler, reply at the client)
func fieldsOf(m *dns.Msg) *reqFields {
	f := &reqFields{ID: int(m.Id)}
	if len(m.Question) > 0 {
		f.QName = hx.FromString(m.Question[0].Name)
	}
	for _, rr := range m.Extra {
		switch x := rr.(type) {
		case *dns.A:
			f.IP = hx.FromBytes(x.A.To4())
		case *dns.PrivateRR:
			if d, ok := x.Data.(*tokRdata); ok {
				f.Tok = hx.FromBytes(d.tok)
			}
		case *dns.TXT:
			if len(x.Txt) == 1 {
				if b, err := hex.DecodeString(x.Txt[0]); err == nil {
					f.Tok = hx.FromBytes(b)
				}
			}
		}
	}
	return f
}

type countReader struct {
	dns.Reader
	h *exHandler
}

func (c countReader) ReadTCP(conn net.Conn, t time.Duration) ([]byte, error) {
	m, err := c.Reader.ReadTCP(conn, t)
	if err == nil {
		c.h.recv(m, conn.RemoteAddr(), false)
	}
	return m, err
}
func (c countReader) ReadUDP(conn *net.UDPConn, t time.Duration) ([]byte, *dns.SessionUDP, error) {
	m, s, err := c.Reader.ReadUDP(conn, t)
	if err == nil {
		c.h.recv(m, s.RemoteAddr(), true)
	}
	return m, s, err
}
func (c countReader) ReadPacketConn(conn net.PacketConn, t time.Duration) ([]byte, net.Addr, error) {
	m, a, err := c.Reader.(dns.PacketConnReader).ReadPacketConn(conn, t)
	if err == nil {
		c.h.recv(m, a, true)
	}
	return m, a, err
}

// stickyReader: a decorated Reader WITH PER-CONNECTION STATE, the kind a user writes to put a buffered reader (or a
// PROXY-protocol preface, or accounting) in front of a stream: it binds to the first connection it is asked to read
// from and reads everything through that connection's bufio.Reader.  The server asks DecorateReader for a reader per
// connection, so each instance sees one connection only; an instance shared between connections hands the requests
// of its first connection to the goroutines of the others -- the handler of one client sees another client's request.
type stickyReader struct {
	dns.Reader
	h  *exHandler
	mu sync.Mutex
	br *bufio.Reader
}

func (s *stickyReader) ReadTCP(conn net.Conn, t time.Duration) ([]byte, error) {
	s.mu.Lock()
	defer s.mu.Unlock()
	if s.br == nil {
		s.br = bufio.NewReader(conn)
	}
	var length uint16
	if err := binary.Read(s.br, binary.BigEndian, &length); err != nil {
		return nil, err
	}
	m := make([]byte, length)
	if _, err := io.ReadFull(s.br, m); err != nil {
		return nil, err
	}
	s.h.recv(m, conn.RemoteAddr(), false)
	return m, nil
}

// small numbers for buffer identities (the address of the backing array)
type bufIDs struct {
	mu sync.Mutex
	m  map[uintptr]int
}

func (b *bufIDs) of(p uintptr) int {
	b.mu.Lock()
	defer b.mu.Unlock()
	if b.m == nil {
		b.m = map[uintptr]int{}
	}
	if _, ok := b.m[p]; !ok {
		b.m[p] = len(b.m) + 1
	}
	return b.m[p]
}

// a message came off the wire into m: log which buffer holds it, whose address it came from and which
// exchange its ID field names (raw octets, before any decoding)
func (h *exHandler) recv(m []byte, from net.Addr, pooled bool) {
	e := xEvent{Ev: "recv", Tr: h.tr, C: h.clientOf(from), Inst: -1, Len: len(m)}
	if len(m) >= 2 {
		e.Inst = (int(m[0])<<8 | int(m[1])) - 1000
	}
	if pooled {
		e.Buf = h.bufs.of(dns.VerifBufID(m))
	}
	h.log.emit(e)
	h.bump()
}

type exHandler struct {
	tr       string
	log      *logger
	mu       sync.Mutex
	cond     *sync.Cond
	received int
	waiting  int
	live     int // clients that still have exchanges to do
	k        int
	capped   bool // real sockets: a wait may be ended by the clock (loss), never an assertion
	addrs    sync.Map
	bufs     bufIDs
}

// which client an address belongs to; on the wildcard-socket transport only the port identifies it
func (h *exHandler) clientOf(a net.Addr) int {
	if h.tr == "udpmulti" {
		if u, ok := a.(*net.UDPAddr); ok {
			if v, ok := h.addrs.Load(u.Port); ok {
				return v.(int)
			}
		}
		return -1
	}
	if v, ok := h.addrs.Load(a.String()); ok {
		return v.(int)
	}
	return -1
}

func (h *exHandler) bump() {
	h.mu.Lock()
	h.received++
	h.cond.Broadcast()
	h.mu.Unlock()
}

func (h *exHandler) clientDone() {
	h.mu.Lock()
	h.live--
	h.cond.Broadcast()
	h.mu.Unlock()
}

// wait until k later packets have been received, or every client that could send one is itself waiting for us
func (h *exHandler) barrier() int {
	h.mu.Lock()
	defer h.mu.Unlock()
	start := h.received
	target := start + h.k
	h.waiting++
	h.cond.Broadcast()
	var timer *time.Timer
	expired := false
	if h.capped {
		timer = time.AfterFunc(300*time.Millisecond, func() {
			h.mu.Lock()
			expired = true
			h.cond.Broadcast()
			h.mu.Unlock()
		})
		defer timer.Stop()
	}
	for h.received < target && h.waiting < h.live && !expired {
		h.cond.Wait()
	}
	h.waiting--
	return h.received - start
}

func (h *exHandler) ServeDNS(w dns.ResponseWriter, m *dns.Msg) {
	p1, e1 := m.Pack()
	f1 := fieldsOf(m)
	c0 := h.clientOf(w.RemoteAddr()) // whom this response writer answers, as seen on entry
	work := func() {
		later := h.barrier()
		p2, e2 := m.Pack()
		f2 := fieldsOf(m)
		c := h.clientOf(w.RemoteAddr()) // ... and at the moment of the reply
		h.log.emit(xEvent{Ev: "handle", Tr: h.tr, C: c, C0: c0, Req1: f1, Req2: f2, Same: e1 == nil && e2 == nil && bytes.Equal(p1, p2), Later: later, Wire: hx.FromBytes(p1),
			Deferred: m.Id%2 == 1})
		r := new(dns.Msg)
		r.SetReply(m)
		r.Extra = []dns.RR{&dns.TXT{Hdr: dns.RR_Header{Name: "tok.", Rrtype: dns.TypeTXT, Class: dns.ClassINET, Ttl: 1}, Txt: []string{hex.EncodeToString(replyTok(f2.Tok.Bytes()))}}}
		w.WriteMsg(r)
	}
	// Every other request is answered later: the handler keeps its ResponseWriter, returns at once and the reply is
	// written from another goroutine while the server goes on serving other clients.
	if m.Id%2 == 1 {
		go work()
		return
	}
	work()
}

// Datagrams that never reach a handler, one of each kind in turn: every path of the server that lets go of a receive
// buffer without calling the handler.  They are sent from sockets of their own (client number 0 in the events) before
// and between the valid requests.
func junk(k int) []byte {
	id := 50000 + k
	hdr := func(flags byte, qd int) []byte {
		return []byte{byte(id >> 8), byte(id), flags, 0, 0, byte(qd), 0, 0, 0, 0, 0, 0}
	}
	switch k % 5 {
	case 0: // accepted header, undecodable body (a label of a reserved type): invalid callback + FORMERR
		return append(hdr(0x01, 1), 0x80, 0xff, 0xff, 0, 1, 0, 1)
	case 1: // two questions announced: refused by the policy with FORMERR
		return hdr(0x01, 2)
	case 2: // opcode UPDATE: NOTIMP
		return append(hdr(0x28, 1), 0, 0, 6, 0, 1)
	case 3: // a response: ignored
		return append(hdr(0x80, 1), 0, 0, 1, 0, 1)
	}
	return hdr(0, 0)[:5] // shorter than a header
}

// A client of the wildcard-socket server: an unconnected socket, so that a reply is seen whatever address it comes
// from; every exchange goes to another of the server's local addresses.
func multiClient(h *exHandler, lg *logger, c, R, port int, locals []net.IP, lost, answered *atomic.Int64, begin chan struct{}) {
	sock, err := net.ListenUDP("udp4", &net.UDPAddr{IP: net.IPv4zero})
	if err != nil {
		hx.Die("client socket: %v", err)
	}
	defer sock.Close()
	h.addrs.Store(sock.LocalAddr().(*net.UDPAddr).Port, c)
	noise, err := net.ListenUDP("udp4", &net.UDPAddr{IP: net.IPv4zero})
	if err != nil {
		hx.Die("noise socket: %v", err)
	}
	defer noise.Close()
	h.addrs.Store(noise.LocalAddr().(*net.UDPAddr).Port, 0)
	<-begin
	buf := make([]byte, 4096)
	for round := 0; round < R; round++ {
		req := mkRequest(c, round)
		wire, err := req.Pack()
		if err != nil {
			hx.Die("pack: %v", err)
		}
		di := (c + round) % len(locals)
		dst := &net.UDPAddr{IP: locals[di], Port: port}
		noise.WriteToUDP(junk(c+round), dst)
		ok := false
		for try := 0; try < 4 && !ok; try++ {
			lg.emit(xEvent{Ev: "send", Tr: h.tr, C: c, Round: round, Try: try, Req: fieldsOf(req), Wire: hx.FromBytes(wire), Dst: di + 1})
			if _, err := sock.WriteToUDP(wire, dst); err != nil {
				hx.Die("send to %v: %v", dst, err)
			}
			sock.SetReadDeadline(time.Now().Add(time.Second))
			for {
				n, from, err := sock.ReadFromUDP(buf)
				if err != nil {
					lg.emit(xEvent{Ev: "lost", Tr: h.tr, C: c, Round: round, Try: try})
					lost.Add(1)
					break
				}
				rep := new(dns.Msg)
				if rep.Unpack(buf[:n]) != nil || rep.Id != req.Id {
					continue // a late answer to an earlier attempt
				}
				src := 99
				for k, ip := range locals {
					if ip.Equal(from.IP) {
						src = k + 1
					}
				}
				ok = true
				answered.Add(1)
				lg.emit(xEvent{Ev: "crecv", Tr: h.tr, C: c, Round: round, Try: try, Req: fieldsOf(rep), Src: src})
				break
			}
		}
	}
}

// recordTsig: N clients, each with ONE stream connection to a server that has a TSIG secret, send R requests one after the
// other: without TSIG, signed with the shared secret, signed with another secret (the MAC does not verify), signed under a
// key name the server does not know -- in an order that puts an unsigned request behind a failing one and a good one behind
// both.  The handler logs what ResponseWriter.TsigStatus() / IsTsig() show it for the request in its hands (which request
// that is, is read from the request's own ID); TLC judges every "hstat" event with Trace_Exchange!StatusFor.
func recordTsig(out string, N, R int) {
	lg := &logger{w: hx.NewWriter(out)}
	kinds := []string{"none", "badmac", "none", "good", "badkey", "none", "good", "none"}
	const right, wrong = "c2VjcmV0LXNlY3JldC1zZWNyZXQ=", "b3RoZXItb3RoZXItb3RoZXItb3Q="
	ml := memnet.NewListener()
	started := make(chan struct{})
	h := dns.HandlerFunc(func(w dns.ResponseWriter, m *dns.Msg) {
		id := int(m.Id) - 3000
		e := xEvent{Ev: "hstat", Tr: "tcptsig", C: id / 64, Round: (id % 64) / 8, Kind: "?"}
		if id >= 0 && id%8 < len(kinds) {
			e.Kind = kinds[id%8]
		}
		st := w.TsigStatus()
		switch {
		case st != nil:
			e.Seen, e.Err = "err", st.Error()
		case m.IsTsig() != nil:
			e.Seen = "ok"
		default:
			e.Seen = "none"
		}
		lg.emit(e)
		r := new(dns.Msg)
		r.SetReply(m)
		w.WriteMsg(r)
	})
	srv := &dns.Server{Listener: ml, Handler: h, ReadTimeout: time.Hour, IdleTimeout: hour, MaxTCPQueries: -1,
		TsigSecret: map[string]string{"good.": right}, NotifyStartedFunc: func() { close(started) }}
	done := make(chan error, 1)
	go func() { done <- srv.ActivateAndServe() }()
	<-started
	var wg sync.WaitGroup
	var answered, lost atomic.Int64
	for c := 1; c <= N; c++ {
		wg.Add(1)
		go func(c int) {
			defer wg.Done()
			nc := ml.DialNamed(fmt.Sprintf("t%d", c))
			defer nc.Close()
			for round := 0; round < R; round++ {
				// one stream connection, but a fresh dns.Conn value per request: a dns.Conn that has written a signed
				// message signs the next one as its continuation (previous MAC as request MAC), which is not the subject here
				co := &dns.Conn{Conn: nc}
				k := (round + c) % 8
				m := new(dns.Msg)
				m.SetQuestion(fmt.Sprintf("c%dr%d.tsig.", c, round), dns.TypeA)
				m.Id = uint16(3000 + c*64 + round*8 + k)
				switch kinds[k] {
				case "good":
					co.TsigSecret = map[string]string{"good.": right}
					m.SetTsig("good.", dns.HmacSHA256, 300, time.Now().Unix())
				case "badmac":
					co.TsigSecret = map[string]string{"good.": wrong}
					m.SetTsig("good.", dns.HmacSHA256, 300, time.Now().Unix())
				case "badkey":
					co.TsigSecret = map[string]string{"unknown.": wrong}
					m.SetTsig("unknown.", dns.HmacSHA256, 300, time.Now().Unix())
				default:
					co.TsigSecret = nil
				}
				co.SetDeadline(time.Now().Add(20 * time.Second))
				if err := co.WriteMsg(m); err != nil {
					lost.Add(1)
					return
				}
				if _, err := co.ReadMsgHeader(nil); err != nil { // the reply is not signed and not looked at
					lost.Add(1)
					return
				}
				answered.Add(1)
			}
		}(c)
	}
	wg.Wait()
	srv.Shutdown()
	<-done
	lg.close()
	var sum hx.Summary
	sum.Evaluations = lg.w.N
	sum.Nontrivial = int(answered.Load())
	sum.Note("exchange_tcptsig", map[string]int64{"answered": answered.Load(), "lost": lost.Load()})
	sum.Print()
}

func record(tr, out string, N, R int) {
	if N > 64 || R > 8 {
		hx.Die("at most 64 clients and 8 rounds")
	}
	if tr == "tcptsig" {
		recordTsig(out, min(N, 40), R)
		return
	}
	lg := &logger{w: hx.NewWriter(out)}
	h := &exHandler{tr: tr, log: lg, live: N, k: 3}
	if N >= 32 {
		h.k = 8
	}
	h.cond = sync.NewCond(&h.mu)
	dns.PrivateHandle("VERIFTOK", typeTok, func() dns.PrivateRdata { return new(tokRdata) })
	decodeBarrier = func() { h.barrier() }
	// the repo's verification hooks (build tag verif) report every pool Get / Put with the buffer's identity
	dns.VerifHook = func(ev string, _ *dns.Server, a, b uintptr) {
		switch ev {
		case dns.VerifEvPoolGet:
			lg.emit(xEvent{Ev: "get", Tr: tr, Buf: h.bufs.of(a)})
		case dns.VerifEvPoolPut:
			lg.emit(xEvent{Ev: "put", Tr: tr, Buf: h.bufs.of(a)})
		}
	}
	started := make(chan struct{})
	srv := &dns.Server{Handler: h, ReadTimeout: time.Hour, IdleTimeout: hour, MaxTCPQueries: -1, NotifyStartedFunc: func() { close(started) },
		DecorateReader: func(rd dns.Reader) dns.Reader { return countReader{rd, h} }}
	var pc *memnet.PacketConn
	var ml *memnet.Listener
	var addr string
	var mport int
	locals := []net.IP{net.IPv4(127, 0, 0, 1), net.IPv4(127, 0, 0, 2), net.IPv4(127, 0, 0, 3)}
	switch tr {
	case "udp":
		u, err := net.ListenUDP("udp", &net.UDPAddr{IP: net.IPv4(127, 0, 0, 1)})
		if err != nil {
			hx.Die("listen udp: %v", err)
		}
		srv.PacketConn, addr, h.capped = u, u.LocalAddr().String(), true
	case "udpmulti":
		// one wildcard socket, several local addresses (all of 127/8 is local on Linux)
		for _, ip := range locals[1:] {
			t, err := net.ListenUDP("udp4", &net.UDPAddr{IP: ip})
			if err != nil {
				lg.w.Close()
				var sum hx.Summary
				sum.Note("exchange_udpmulti_skipped", err.Error())
				sum.Print()
				return
			}
			t.Close()
		}
		u, err := net.ListenUDP("udp4", &net.UDPAddr{IP: net.IPv4zero})
		if err != nil {
			hx.Die("listen udp: %v", err)
		}
		srv.PacketConn, mport, h.capped = u, u.LocalAddr().(*net.UDPAddr).Port, true
	case "pc":
		pc = memnet.NewPacketConn()
		srv.PacketConn = pc
	case "tcp":
		ml = memnet.NewListener()
		srv.Listener = ml
		// the clients close their connections before the server is shut down, so a reader without deadlines cannot hang
		srv.DecorateReader = func(rd dns.Reader) dns.Reader { return &stickyReader{Reader: rd, h: h} }
	case "tcpreal":
		l, err := net.Listen("tcp", "127.0.0.1:0")
		if err != nil {
			hx.Die("listen tcp: %v", err)
		}
		srv.Listener, addr = l, l.Addr().String()
	default:
		hx.Die("unknown transport %s", tr)
	}
	done := make(chan error, 1)
	go func() { done <- srv.ActivateAndServe() }()
	<-started

	var sum hx.Summary
	var lost, answered atomic.Int64
	var wg sync.WaitGroup
	begin := make(chan struct{})
	for c := 1; c <= N; c++ {
		wg.Add(1)
		go func(c int) {
			defer wg.Done()
			defer h.clientDone()
			var conn net.Conn
			var err error
			// The in-memory transports lose nothing, but a broken server may answer the wrong client or nobody: a
			// client gives an exchange up after a while so that the recording ends.  Giving up is logged as "lost"
			// and is never a verdict by itself; what went wrong is in the server-side events.
			cl := &dns.Client{Timeout: 10 * time.Second}
			switch tr {
			case "udpmulti":
				multiClient(h, lg, c, R, mport, locals, &lost, &answered, begin)
				return
			case "udp":
				conn, err = net.Dial("udp", addr)
				cl.Timeout = time.Second
			case "pc":
				conn = pc.Client(fmt.Sprintf("c%d", c))
			case "tcp":
				conn = ml.DialNamed(fmt.Sprintf("c%d", c))
				cl.Net = "tcp"
			case "tcpreal":
				conn, err = net.Dial("tcp", addr)
				cl.Net = "tcp"
				cl.Timeout = 20 * time.Second
			}
			if err != nil {
				hx.Die("dial: %v", err)
			}
			h.addrs.Store(conn.LocalAddr().String(), c)
			co := &dns.Conn{Conn: conn}
			defer co.Close()
			// datagram transports: a second socket for the datagrams that never reach a handler
			var noise net.Conn
			switch tr {
			case "udp":
				if noise, err = net.Dial("udp", addr); err != nil {
					hx.Die("dial: %v", err)
				}
			case "pc":
				noise = pc.Client(fmt.Sprintf("n%d", c))
			}
			if noise != nil {
				h.addrs.Store(noise.LocalAddr().String(), 0)
				defer noise.Close()
			}
			<-begin
			for round := 0; round < R; round++ {
				if noise != nil {
					noise.Write(junk(c + round))
					if round%2 == 1 {
						noise.Write(junk(c + round + 2))
					}
				}
				req := mkRequest(c, round)
				wire, err := req.Pack()
				if err != nil || len(wire) != reqBase+padLen(c, round) {
					hx.Die("request of client %d round %d: %d octets, planned %d (%v)", c, round, len(wire), reqBase+padLen(c, round), err)
				}
				ok := false
				for try := 0; try < 4 && !ok; try++ {
					lg.emit(xEvent{Ev: "send", Tr: tr, C: c, Round: round, Try: try, Req: fieldsOf(req), Wire: hx.FromBytes(wire)})
					// stream transports: every other request travels compressed (question name and the owner of the
					// address record are the same name); what the handler is given is the same message
					req.Compress = (tr == "tcp" || tr == "tcpreal") && (c+round)%2 == 1
					rep, _, err := cl.ExchangeWithConn(req, co)
					if err != nil {
						kind := "other"
						if isTimeout(err) {
							kind = "timeout"
						}
						lg.emit(xEvent{Ev: "lost", Tr: tr, C: c, Round: round, Try: try, Err: kind})
						lost.Add(1)
						if tr != "udp" {
							break // lossless transport: sending again cannot help
						}
						continue
					}
					ok = true
					answered.Add(1)
					lg.emit(xEvent{Ev: "crecv", Tr: tr, C: c, Round: round, Try: try, Req: fieldsOf(rep)})
				}
			}
		}(c)
	}
	close(begin)
	wg.Wait()
	srv.Shutdown()
	<-done
	lg.close()
	sum.Evaluations = lg.w.N
	sum.Nontrivial = int(answered.Load())
	sum.Note("exchange_"+tr, map[string]int64{"answered": answered.Load(), "lost": lost.Load()})
	sum.Print()
}

func main() {
	if len(os.Args) < 3 {
		hx.Die("usage: exchange replay <vectors> | record <udp|udpmulti|pc|tcp|tcpreal> <out> <N> <R>")
	}
	switch os.Args[1] {
	case "replay":
		if len(os.Args) > 3 {
			forcePath = os.Args[3]
		}
		replay(os.Args[2])
	case "record":
		if len(os.Args) < 6 {
			hx.Die("usage: exchange record <udp|pc|tcp|tcpreal> <out> <N> <R>")
		}
		n, _ := strconv.Atoi(os.Args[4])
		rr, _ := strconv.Atoi(os.Args[5])
		record(os.Args[2], os.Args[3], n, rr)
	default:
		hx.Die("unknown mode %s", os.Args[1])
	}
}
