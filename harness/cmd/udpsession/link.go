package main

import (
	"net"
	_ "unsafe" // go:linkname

	_ "github.com/miekg/dns"
)

// The pure functions of udp.go are not exported; the harness reaches them by name.

//go:linkname parseDstFromOOB github.com/miekg/dns.parseDstFromOOB
func parseDstFromOOB(oob []byte) net.IP

//go:linkname correctSource github.com/miekg/dns.correctSource
func correctSource(oob []byte) []byte

//go:linkname setUDPSocketOptions github.com/miekg/dns.setUDPSocketOptions
func setUDPSocketOptions(conn *net.UDPConn) error
