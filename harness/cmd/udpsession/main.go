// Command udpsession binds spec/UdpSession.tla to udp.go.
//
//	udpsession record <vectors.ndjson> <out.ndjson>
//
// (1) every ancillary-data string of Gen_UdpSession through parseDstFromOOB / correctSource (reached by go:linkname: they
//     are not exported); (2) real loopback sockets -- udp4 on 0.0.0.0, udp6 on [::], dual-stack "udp" on [::], udp4 on
//     127.0.0.1 -- prepared with setUDPSocketOptions; a datagram is sent to every local address of the family
//     (127.0.0.1, 127.0.0.2, 127.9.8.7, the host's own addresses, ::1 ...), read with ReadFromSessionUDP, answered with
//     WriteToSessionUDP; the client sees where the answer comes from; (3) the same through a real dns.Server on a wildcard
//     *net.UDPConn.  Trace_UdpSession judges.  An address or family the sandbox does not offer is listed in the summary
//     ("uncovered"), never judged.
package main

import (
	"fmt"
	"net"
	"os"
	"time"
	"unsafe"

	"github.com/miekg/dns"

	"verifharness/lib/hx"
)

type Vector struct {
	OOB hx.B `json:"oob"`
	WF  bool `json:"wf"`
}

type Event struct {
	Ev    string `json:"ev"`
	Sock  string `json:"sock,omitempty"`
	OOB   *hx.B  `json:"oob,omitempty"`
	Dst   *hx.B  `json:"dst,omitempty"`
	Src   *hx.B  `json:"src,omitempty"`
	To    *hx.B  `json:"to,omitempty"`
	From  *hx.B  `json:"from,omitempty"`
	Peer  *hx.B  `json:"peer,omitempty"`
	Raddr *hx.B  `json:"raddr,omitempty"`
	Cls   string `json:"cls"`
}

func bp(b []byte) *hx.B { x := hx.FromBytes(b); return &x }

// ipOctets: 4 octets for an IPv4 address in either form the net package holds it, else 16.
func ipOctets(ip net.IP) []byte {
	if ip == nil {
		return []byte{}
	}
	if len(ip) == 4 {
		return []byte(ip)
	}
	return []byte(ip.To16())
}

// contextOf reads the private ancillary data of a session.
func contextOf(s *dns.SessionUDP) []byte {
	type mirror struct {
		raddr   *net.UDPAddr
		context []byte
	}
	return (*mirror)(unsafe.Pointer(s)).context
}

var (
	sum       hx.Summary
	uncovered []string
)

const wait = 5 * time.Second

func localAddrs() (v4, v6 []net.IP) {
	v4 = []net.IP{net.IPv4(127, 0, 0, 1).To4(), net.IPv4(127, 0, 0, 2).To4(), net.IPv4(127, 9, 8, 7).To4()}
	v6 = []net.IP{net.IPv6loopback}
	ifs, _ := net.InterfaceAddrs()
	for _, a := range ifs {
		n, ok := a.(*net.IPNet)
		if !ok || n.IP.IsLoopback() || n.IP.IsLinkLocalUnicast() {
			continue
		}
		if ip4 := n.IP.To4(); ip4 != nil {
			v4 = append(v4, ip4)
		} else {
			v6 = append(v6, n.IP)
		}
	}
	return
}

// exchange sends one datagram to `to' on the server socket's port and reports what the specification needs.
func exchange(w *hx.Writer, sock string, srv *net.UDPConn, clientNet string, to net.IP, viaServer bool) {
	port := srv.LocalAddr().(*net.UDPAddr).Port
	cli, err := net.ListenUDP(clientNet, nil)
	if err != nil {
		uncovered = append(uncovered, fmt.Sprintf("%s: client socket %s: %v", sock, clientNet, err))
		return
	}
	defer cli.Close()
	q := new(dns.Msg)
	q.SetQuestion("x.", dns.TypeA)
	qb, _ := q.Pack()
	if _, err := cli.WriteToUDP(qb, &net.UDPAddr{IP: to, Port: port}); err != nil {
		uncovered = append(uncovered, fmt.Sprintf("%s: sending to %s: %v", sock, to, err))
		return
	}
	e := Event{Ev: "exchange", Sock: sock, To: bp(ipOctets(to)), Cls: sock}
	if viaServer {
		e.Ev = "server"
	} else {
		srv.SetReadDeadline(time.Now().Add(wait))
		buf := make([]byte, 512)
		n, sess, err := dns.ReadFromSessionUDP(srv, buf)
		if err != nil {
			uncovered = append(uncovered, fmt.Sprintf("%s: the datagram to %s did not arrive: %v", sock, to, err))
			return
		}
		e.OOB = bp(contextOf(sess))
		e.Src = bp(correctSource(contextOf(sess)))
		e.Dst = bp(ipOctets(parseDstFromOOB(contextOf(sess))))
		if ra, ok := sess.RemoteAddr().(*net.UDPAddr); ok && ra != nil {
			e.Raddr = bp(ipOctets(ra.IP))
		} else {
			e.Raddr = bp(nil)
		}
		if _, err := dns.WriteToSessionUDP(srv, buf[:n], sess); err != nil {
			e.From = bp(nil)
			e.Peer = bp(nil)
			sum.Mis("udpsession/write-error:"+sock, fmt.Sprintf("WriteToSessionUDP for a datagram sent to %s fails: %v", to, err), e)
			return
		}
	}
	cli.SetReadDeadline(time.Now().Add(wait))
	rb := make([]byte, 512)
	_, from, err := cli.ReadFromUDP(rb)
	if err != nil {
		e.From = bp(nil) // no answer reached the client's (unconnected) socket
	} else {
		e.From = bp(ipOctets(from.IP))
	}
	// the client's own address as the server must see it: the address the client's datagram left from is the one the
	// answer was sent back to -- ask the kernel with a connected probe
	probe, perr := net.DialUDP(clientNet, nil, &net.UDPAddr{IP: to, Port: port})
	if perr == nil {
		e.Peer = bp(ipOctets(probe.LocalAddr().(*net.UDPAddr).IP))
		probe.Close()
	} else {
		e.Peer = e.Raddr
	}
	if viaServer {
		e.Peer, e.Raddr = nil, nil
	}
	w.Emit(e)
	sum.Evaluations++
	sum.Sample(map[string]string{"sock": sock, "to": to.String(), "from": fmt.Sprint(from)})
}

func sockets(w *hx.Writer) {
	v4, v6 := localAddrs()
	type cfg struct {
		name, network, addr, cnet string
		targets                   []net.IP
	}
	mapped := func(ips []net.IP) []net.IP { return ips }
	cfgs := []cfg{
		{"udp4-any", "udp4", "0.0.0.0:0", "udp4", v4},
		{"udp4-lo", "udp4", "127.0.0.1:0", "udp4", v4[:1]},
		{"udp6-any", "udp6", "[::]:0", "udp6", v6},
		{"udp-dual-v4", "udp", ":0", "udp4", mapped(v4)},
		{"udp-dual-v6", "udp", ":0", "udp6", v6},
	}
	for _, c := range cfgs {
		for _, viaServer := range []bool{false, true} {
			a, err := net.ResolveUDPAddr(c.network, c.addr)
			if err != nil {
				uncovered = append(uncovered, c.name+": "+err.Error())
				continue
			}
			conn, err := net.ListenUDP(c.network, a)
			if err != nil {
				uncovered = append(uncovered, fmt.Sprintf("%s: cannot bind: %v", c.name, err))
				continue
			}
			name := c.name
			if viaServer {
				name += ":server"
				srv := &dns.Server{PacketConn: conn, Handler: dns.HandlerFunc(func(rw dns.ResponseWriter, r *dns.Msg) {
					m := new(dns.Msg)
					m.SetReply(r)
					rw.WriteMsg(m)
				})}
				started := make(chan struct{}, 1)
				srv.NotifyStartedFunc = func() { started <- struct{}{} }
				failed := make(chan error, 1)
				go func() {
					if err := srv.ActivateAndServe(); err != nil {
						failed <- err
					}
				}()
				select {
				case <-started:
				case err := <-failed:
					sum.Mis("udpsession/server-start:"+c.name, fmt.Sprintf("ActivateAndServe on a %s socket fails: %v", c.network, err), c.name)
					conn.Close()
					continue
				case <-time.After(wait):
					sum.Mis("udpsession/server-start:"+c.name, "ActivateAndServe neither started nor failed", c.name)
					conn.Close()
					continue
				}
				for _, to := range c.targets {
					exchange(w, name, conn, c.cnet, to, true)
				}
				srv.Shutdown()
			} else {
				if err := setUDPSocketOptions(conn); err != nil {
					sum.Mis("udpsession/setsockopt:"+c.name, fmt.Sprintf("setUDPSocketOptions fails on a %s socket: %v", c.network, err), c.name)
				}
				for _, to := range c.targets {
					exchange(w, name, conn, c.cnet, to, false)
				}
				conn.Close()
			}
		}
	}
}

func main() {
	if len(os.Args) < 4 || os.Args[1] != "record" {
		hx.Die("usage: udpsession record <vectors> <out>")
	}
	w := hx.NewWriter(os.Args[3])
	seen := map[string]bool{}
	hx.ReadNDJSON(os.Args[2], func(i int, v *Vector) {
		k := string(v.OOB.Bytes())
		if seen[k] {
			return
		}
		seen[k] = true
		oob := v.OOB.Bytes()
		var dst net.IP
		var src []byte
		p := hx.Catch(func() {
			dst = parseDstFromOOB(append([]byte(nil), oob...))
			src = correctSource(append([]byte(nil), oob...))
		})
		cls := "wf"
		if !v.WF {
			cls = "malformed"
		}
		if p != "" {
			sum.Mis("udpsession/pure:panic:"+cls, "parseDstFromOOB / correctSource panics: "+p, v)
			return
		}
		w.Emit(Event{Ev: "pure", OOB: bp(oob), Dst: bp(ipOctets(dst)), Src: bp(src), Cls: cls})
		sum.Evaluations++
	})
	sockets(w)
	w.Close()
	sum.Nontrivial = len(seen)
	sum.Note("uncovered", uncovered)
	sum.Print()
}
