// Command wire binds spec/WireRR.tla to the real packer / unpacker (properties C01, C08).
//
//	wire replay <layout.ndjson> <vectors.ndjson>      C01: TLC vectors -> Pack / Unpack / PackRR / UnpackRR, compared with the spec's octets and fields
//	wire record <layout.ndjson> <out.ndjson> <n>      C01: random abstract messages -> real Pack/Unpack -> events for Trace_WireRR
//	wire len    <layout.ndjson> <vectors.ndjson>      C08: Len / Pack / PackBuffer on the same vectors, Compress false and true
//	wire lenrec <layout.ndjson> <out.ndjson> <n>      C08: random messages (incl. > 16384 octets) -> events for Trace_WireLen
//
// The layout file is the table exported by Gen_WireRR (Mode "layout"); Go values are built
// from it by field name.  The oracle is always the specification: the octets / lengths in the
// vector, or TLC judging the recorded event.
package main

import (
	"bytes"
	"crypto/sha1"
	"fmt"
	"os"
	"sort"
	"strconv"

	"github.com/miekg/dns"

	"verifharness/lib/hx"
	"verifharness/lib/wire"
)

type vec struct {
	G      string    `json:"g"`
	V      []int     `json:"v"`
	Msg    wire.Msg  `json:"msg"`
	Ok     bool      `json:"ok"`
	Bytes  hx.B      `json:"bytes"`
	Rroff  []int     `json:"rroff"`
	Lenmsg int       `json:"lenmsg"`
	Refuse bool      `json:"refuse"` // AMBIG (spec): Pack() may refuse this value (a type list out of order) instead of packing it
	Norm   *wire.Msg `json:"norm,omitempty"`
}

var L *wire.Layout
var refused int // vectors the packer refused where the specification admits a refusal

func main() {
	if len(os.Args) < 4 {
		hx.Die("usage: wire replay|record|len|lenrec <layout> <file> [n]")
	}
	L = wire.LoadLayout(os.Args[2])
	wire.RegisterPrivate()
	prime()
	switch os.Args[1] {
	case "replay":
		replay(os.Args[3])
	case "record":
		n, _ := strconv.Atoi(os.Args[4])
		record(os.Args[3], n)
	case "reexec":
		reexec(os.Args[3], os.Args[4])
	case "len":
		lenReplay(os.Args[3])
	case "lenreexec":
		lenReexec(os.Args[3], os.Args[4])
	case "lenrec":
		n, _ := strconv.Atoi(os.Args[4])
		lenRecord(os.Args[3], n)
	default:
		hx.Die("unknown mode %s", os.Args[1])
	}
}

// small is what is kept of a case in a finding: enough to re-execute, without megabytes of octets.
func small(v *vec) interface{} {
	if len(v.Bytes) > 4096 || v.Lenmsg > 4096 {
		// re-derived by the replay from the same generator case (g, v)
		return map[string]interface{}{"g": v.G, "v": v.V, "big": true}
	}
	return v
}

// ---------------------------------------------------------------- C01 replay

func replay(path string) {
	var sum hx.Summary
	seen := map[[20]byte]bool{}
	hx.ReadNDJSON(path, func(i int, v *vec) {
		sum.Evaluations++
		if p := hx.Catch(func() { one(v, &sum) }); p != "" {
			sum.Mis("wire/panic:"+L.MsgKey(&v.Msg), "panic: "+p, small(v))
		}
		if v.Ok {
			seen[sha1.Sum(v.Bytes.Bytes())] = true
		}
		if i%499 == 0 && len(v.Bytes) < 300 {
			sum.Sample(map[string]interface{}{"g": v.G, "v": v.V, "bytes": v.Bytes})
		}
	})
	sum.Nontrivial = len(seen)
	// registry types the layout does not describe (must be reported, never silently skipped)
	missing := []string{}
	for t := range dns.TypeToRR {
		if !L.Known(int(t)) && int(t) != wire.PrivType {
			missing = append(missing, dns.Type(t).String())
		}
	}
	sort.Strings(missing)
	sum.Note("registry_types_without_layout", missing)
	if refused > 0 {
		sum.Note("unordered_lists_refused_by_pack", refused)
	}
	sum.Note("registry_types", len(dns.TypeToRR)-1) // minus the private type registered by the harness
	sum.Print()
}

// ---------------------------------------------------------------- a decoder with a past
//
// "Unpacking those octets yields a message equal to the original" holds for any receiver and whatever was decoded
// before.  primeBytes is a hand-assembled rich message (question, records in all sections incl. a private-type and an
// unknown-type record, OPT with an option).  It is decoded once at start-up and the result is HELD: nothing decoded later
// may change it (primeCanon).  Every case is also decoded into a receiver that decoded primeBytes just before.
// State that leaks between decodings therefore shows in a fresh process, for one case at a time.
var (
	primeBytes []byte
	primeHeld  *dns.Msg
	primeCanon string
)

func wname(labels ...string) []byte {
	var b []byte
	for _, l := range labels {
		b = append(append(b, byte(len(l))), l...)
	}
	return append(b, 0)
}

func wrr(owner []byte, t, class int, ttl uint32, rdata []byte) []byte {
	b := append([]byte{}, owner...)
	b = append(b, byte(t>>8), byte(t), byte(class>>8), byte(class), byte(ttl>>24), byte(ttl>>16), byte(ttl>>8), byte(ttl), byte(len(rdata)>>8), byte(len(rdata)))
	return append(b, rdata...)
}

func prime() {
	b := []byte{0xbe, 0xef, 0x85, 0x80, 0, 1, 0, 3, 0, 1, 0, 2}
	b = append(append(b, wname("stale", "example")...), 0, 1, 0, 1)
	b = append(b, wrr(wname("stale", "example"), wire.PrivType, 1, 300, []byte("STALE-PRIVATE"))...)
	b = append(b, wrr(wname("stale", "example"), 65281, 1, 300, []byte("STALE-UNKNOWN"))...)
	b = append(b, wrr(wname("stale", "example"), 16, 1, 300, append([]byte{5}, "stale"...))...)
	b = append(b, wrr(wname("example"), 2, 1, 300, wname("ns", "stale", "example"))...)
	b = append(b, wrr(wname("ns", "stale", "example"), 1, 1, 300, []byte{192, 0, 2, 99})...)
	b = append(b, wrr(wname(), 41, 1232, 0x8000, []byte{0, 3, 0, 5, 'S', 'T', 'A', 'L', 'E'})...)
	m := new(dns.Msg)
	in := clone(b)
	if err := m.Unpack(in); err != nil {
		wire.Stderr("harness: the priming message does not unpack (%v): decoding is checked without a past", err)
		return
	}
	scribble(in)
	p, _ := L.ProjectMsg(m, nil)
	primeBytes, primeHeld, primeCanon = b, m, wire.Canon(p)
}

// heldIntact: the message decoded at start-up still reads as it did then
func heldIntact() bool {
	if primeHeld == nil {
		return true
	}
	p, _ := L.ProjectMsg(primeHeld, nil)
	return wire.Canon(p) == primeCanon
}

// usedReceiver: a receiver that has just decoded the rich priming message
func usedReceiver() *dns.Msg {
	m := new(dns.Msg)
	if primeBytes != nil {
		_ = m.Unpack(primeBytes)
	}
	return m
}

// The caller owns the buffer a message was decoded from and will use it again (next read, PackBuffer, buffer pool):
// the decoded Msg must not depend on it.  Every decoding below is from a private copy that is scribbled over
// right afterwards, before the result is compared or packed again.
func clone(b []byte) []byte { return append([]byte(nil), b...) }

func scribble(b []byte) {
	for i := range b {
		b[i] ^= 0xff
	}
}

func filled(n int, fill byte) []byte {
	b := make([]byte, n)
	for i := range b {
		b[i] = fill
	}
	return b
}

// where the octets first differ: "header", "question" or the key of the record they fall in
func keyAt(v *vec, got, exp []byte) string {
	d := 0
	for d < len(got) && d < len(exp) && got[d] == exp[d] {
		d++
	}
	rrs := v.Msg.RRs()
	if len(v.Rroff) != len(rrs)+1 {
		return L.MsgKey(&v.Msg)
	}
	if d < 12 {
		// a wrong count in the header is the trace of a record that was dropped or added
		if d >= 4 && len(rrs) > 0 {
			return L.MsgKey(&v.Msg)
		}
		return "header"
	}
	if d < v.Rroff[0] {
		return "question"
	}
	for i := range rrs {
		if d < v.Rroff[i+1] {
			return L.KeyOf(rrs[i])
		}
	}
	return L.KeyOf(rrs[len(rrs)-1])
}

func inexpressible(m *wire.Msg) string {
	for _, r := range m.RRs() {
		if w := L.Inexpressible(r); w != "" {
			return w
		}
	}
	return ""
}

// compare a projection with the expectation, part by part; returns key part and description of the first difference
func diffMsg(got, want *wire.Msg, skipFields bool) (string, string) {
	if wire.Canon(got.Hdr) != wire.Canon(want.Hdr) {
		return "header", fmt.Sprintf("header %s, spec %s", wire.Canon(got.Hdr), wire.Canon(want.Hdr))
	}
	if wire.Canon(got.Q) != wire.Canon(want.Q) {
		return "question", fmt.Sprintf("question section %s, spec %s", wire.Canon(got.Q), wire.Canon(want.Q))
	}
	gs, ws := [][]wire.RR{got.An, got.Ns, got.Ar}, [][]wire.RR{want.An, want.Ns, want.Ar}
	names := []string{"answer", "authority", "additional"}
	for s := range gs {
		if len(gs[s]) != len(ws[s]) {
			return L.MsgKey(want), fmt.Sprintf("%d records in the %s section, spec %d", len(gs[s]), names[s], len(ws[s]))
		}
		for j := range gs[s] {
			if k, what := diffRR(&gs[s][j], &ws[s][j], skipFields); k != "" {
				return k, fmt.Sprintf("%s[%d]: %s", names[s], j, what)
			}
		}
	}
	return "", ""
}

func diffRR(g, w *wire.RR, skipFields bool) (string, string) {
	k := L.KeyOf(w)
	if wire.Canon(g.Name) != wire.Canon(w.Name) || g.Type != w.Type || g.Class != w.Class || wire.Canon(g.Ttl) != wire.Canon(w.Ttl) || g.Nodata != w.Nodata {
		return k, fmt.Sprintf("record header/nodata %s %d %d %s %v, spec %s %d %d %s %v", wire.Canon(g.Name), g.Type, g.Class, wire.Canon(g.Ttl), g.Nodata,
			wire.Canon(w.Name), w.Type, w.Class, wire.Canon(w.Ttl), w.Nodata)
	}
	if w.Nodata || skipFields {
		return "", ""
	}
	for _, e := range L.FieldsOf(w.Type) {
		if a, b := wire.Canon(g.F[e.N]), wire.Canon(w.F[e.N]); a != b {
			return k, fmt.Sprintf("field %s = %.200s, spec %.200s", e.N, a, b)
		}
	}
	if len(g.F) != len(w.F) {
		return k, fmt.Sprintf("fields %s, spec %s", wire.Canon(g.F), wire.Canon(w.F))
	}
	return "", ""
}

func one(v *vec, sum *hx.Summary) {
	key := L.MsgKey(&v.Msg)
	m, berr := L.BuildMsg(&v.Msg)
	if berr != nil {
		hx.Die("vector %s %v: %v", v.G, v.V, berr)
	}
	if !v.Ok { // the specification says this message cannot be packed
		if _, err := m.Pack(); err == nil {
			why := "rdata>65535"
			if v.Msg.Hdr.Rcode > 15 {
				why = "rcode>15-without-opt"
			}
			if v.Msg.Hdr.Rcode > 4095 {
				why = "rcode>4095"
			}
			sum.Mis("wire/pack-accepts-unpackable:"+why, "Pack() succeeded on a message the wire format cannot carry", small(v))
		}
		return
	}
	exp := v.Bytes.Bytes()
	want := &v.Msg
	if v.Norm != nil {
		want = v.Norm
	}
	inex := inexpressible(&v.Msg)
	clean := true
	mis := func(k, what string) {
		clean = false
		sum.Mis(k, what, small(v))
	}

	// 1. packing the value built from the abstract message gives the prescribed octets
	packed := false
	if inex == "" {
		got, err := m.Pack()
		if err != nil && v.Refuse {
			refused++ // admitted: refused, not mis-encoded
		} else if err != nil {
			mis("wire/pack-error:"+key, fmt.Sprintf("Pack(): %v", err))
		} else if !bytes.Equal(got, exp) {
			mis("wire/pack-octets:"+keyAt(v, got, exp), fmt.Sprintf("Pack() = %.300x, spec %.300x", got, exp))
		} else {
			packed = true
		}
	}

	// 1a. an empty list may be spelled as an empty or as a nil slice: the same octets
	if inex == "" && len(exp) < 8192 {
		L.NilLists = true
		mn, _ := L.BuildMsg(&v.Msg)
		L.NilLists = false
		if got, err := mn.Pack(); err != nil {
			if !v.Refuse {
				mis("wire/pack-error:"+key, fmt.Sprintf("Pack() with empty lists as nil slices: %v", err))
			}
		} else if !bytes.Equal(got, exp) {
			mis("wire/pack-octets:"+keyAt(v, got, exp), fmt.Sprintf("Pack() with empty lists as nil slices = %.300x, spec %.300x", got, exp))
		}
	}

	// 1b. the same into a caller's buffer that is large enough to be used in place and is NOT zeroed
	// (a reused buffer): whatever the buffer held before must not leak into the message
	if packed {
		for _, fill := range []byte{0xff, 0xaa} {
			m2, _ := L.BuildMsg(&v.Msg)
			buf := filled(m2.Len()+64, fill)
			out, err := m2.PackBuffer(buf)
			if err != nil {
				mis("wire/packbuffer-error:"+key, fmt.Sprintf("PackBuffer(buffer of 0x%02x): %v", fill, err))
			} else if !bytes.Equal(out, exp) {
				mis("wire/packbuffer-octets:"+keyAt(v, out, exp), fmt.Sprintf("PackBuffer(buffer pre-filled with 0x%02x) = %.300x, spec %.300x", fill, out, exp))
			}
		}
	}

	// 2. unpacking the prescribed octets gives back the message: every header bit, count and field
	u := new(dns.Msg)
	in := clone(exp)
	if err := u.Unpack(in); err != nil {
		mis("wire/unpack-error:"+key, fmt.Sprintf("Unpack(spec octets): %v", err))
		return
	}
	proj, _ := L.ProjectMsg(u, want)
	if k, what := diffMsg(proj, want, inex != ""); k != "" {
		mis("wire/unpack-fields:"+k, "Unpack(spec octets): "+what)
	}
	// 2a. ... and keeps reading so when the caller re-uses the buffer it was decoded from
	scribble(in)
	aliased := false
	if after, _ := L.ProjectMsg(u, want); wire.Canon(after) != wire.Canon(proj) {
		aliased = true
		k, what := diffMsg(after, proj, false)
		if k == "" {
			k = key
		}
		mis("wire/unpack-aliases-input:"+k, "the unpacked message changed when the input buffer was overwritten: "+what)
	}

	// 2b. the same into a receiver that decoded another, rich message before; and what was decoded earlier stays as it was
	u2 := usedReceiver()
	if err := u2.Unpack(clone(exp)); err != nil {
		mis("wire/unpack-reused-error:"+key, fmt.Sprintf("Unpack(spec octets) into a Msg used before: %v", err))
	} else {
		proj2, _ := L.ProjectMsg(u2, want)
		if k, what := diffMsg(proj2, want, inex != ""); k != "" && wire.Canon(proj2) != wire.Canon(proj) {
			mis("wire/unpack-reused-fields:"+k, "Unpack(spec octets) into a Msg that decoded another message before: "+what)
		}
	}
	if !heldIntact() {
		mis("wire/unpack-aliasing:"+key, "a message decoded earlier (and still held) changed when this one was decoded")
		primeHeld = nil
		prime() // restore, so that the next case is judged on its own
	}

	// 3. conversely: packing what was unpacked reproduces the octets
	if aliased {
		// the message no longer is what was decoded: one defect, one key
	} else if re, err := u.Pack(); err != nil {
		mis("wire/repack-error:"+key, fmt.Sprintf("Unpack(spec octets).Pack(): %v", err))
	} else if !bytes.Equal(re, exp) {
		mis("wire/repack-octets:"+keyAt(v, re, exp), fmt.Sprintf("Unpack(spec octets).Pack() = %.300x, spec %.300x", re, exp))
	}

	// 4. the record-level API agrees (only when the message level is clean: one defect, one key)
	if !clean {
		return
	}
	rrs := want.RRs()
	if len(v.Rroff) != len(rrs)+1 {
		hx.Die("vector %s %v: %d offsets for %d records", v.G, v.V, len(v.Rroff), len(rrs))
	}
	var goRRs []dns.RR
	if packed {
		goRRs = append(append(append(goRRs, m.Answer...), m.Ns...), m.Extra...)
	}
	for i, w := range rrs {
		k := L.KeyOf(w)
		seg := exp[v.Rroff[i]:v.Rroff[i+1]]
		ownerLen := 1
		for _, l := range w.Name {
			ownerLen += 1 + len(l)
		}
		rdlen := len(seg) - ownerLen - 10
		if packed { // into buffers that are not zeroed, at offset 0 and at a non-zero offset
			for _, c := range []struct {
				fill byte
				at   int
			}{{0xff, 0}, {0xaa, 7}, {0x00, 0}} {
				buf := filled(c.at+dns.Len(goRRs[i])+len(seg)+64, c.fill)
				off, err := dns.PackRR(goRRs[i], buf, c.at, nil, false)
				if err != nil {
					sum.Mis("wire/packrr-error:"+k, fmt.Sprintf("PackRR: %v", err), small(v))
				} else if !bytes.Equal(buf[c.at:off], seg) {
					sum.Mis("wire/packrr-octets:"+k, fmt.Sprintf("PackRR at offset %d of a buffer pre-filled with 0x%02x = %.300x, spec %.300x", c.at, c.fill, buf[c.at:off], seg), small(v))
				} else if int(goRRs[i].Header().Rdlength) != rdlen {
					sum.Mis("wire/packrr-rdlength:"+k, fmt.Sprintf("PackRR left Rdlength %d, RDATA is %d octets", goRRs[i].Header().Rdlength, rdlen), small(v))
				}
			}
		}
		in3 := clone(exp)
		rr, off, err := dns.UnpackRR(in3, v.Rroff[i])
		scribble(in3)
		if err != nil {
			sum.Mis("wire/unpackrr-error:"+k, fmt.Sprintf("UnpackRR at %d: %v", v.Rroff[i], err), small(v))
			continue
		}
		if off != v.Rroff[i+1] {
			sum.Mis("wire/unpackrr-offset:"+k, fmt.Sprintf("UnpackRR at %d returned offset %d, record ends at %d", v.Rroff[i], off, v.Rroff[i+1]), small(v))
		}
		if int(rr.Header().Rdlength) != rdlen {
			sum.Mis("wire/unpackrr-rdlength:"+k, fmt.Sprintf("UnpackRR set Rdlength %d, RDATA is %d octets", rr.Header().Rdlength, rdlen), small(v))
		}
		p, perr := L.ProjectRR(rr, w)
		if perr != nil {
			sum.Mis("wire/unpackrr-fields:"+k, "UnpackRR: "+perr.Error(), small(v))
		} else if kk, what := diffRR(p, w, inex != ""); kk != "" {
			sum.Mis("wire/unpackrr-fields:"+kk, "UnpackRR: "+what, small(v))
		}
	}
}

// ---------------------------------------------------------------- C01 record

type event struct {
	Key      string    `json:"key"`
	Msg      *wire.Msg `json:"msg"`
	Packed   bool      `json:"packed"`
	Bytes    hx.B      `json:"bytes"`
	Unpacked bool      `json:"unpacked"`
	Msg2     *wire.Msg `json:"msg2"`
	Repacked bool      `json:"repacked"`
	Rebytes  hx.B      `json:"rebytes"`
	// the same value packed into a caller's buffer pre-filled with 0xff (used in place), and record by record with
	// PackRR at offset 7 of such a buffer: no error / the octets are those of Pack() (for PackRR: its tail)
	PbufOK   bool `json:"pbufok"`
	PbufSame bool `json:"pbufsame"`
	RRSame   bool `json:"rrsame"`
	// decoding into a receiver that decoded a rich message before gives the same projection (msg2);
	// the message decoded at start-up and held since is unchanged
	ReusedSame bool `json:"reusedsame"`
	HeldSame   bool `json:"heldsame"`
	// msg2 is read once more after the buffer it was decoded from was overwritten: still the same;
	// the re-pack happens after that, on the Msg as the caller keeps it
	InputFree bool `json:"inputfree"`
}

func emptyMsg() *wire.Msg { return &wire.Msg{Q: []wire.Q{}, An: []wire.RR{}, Ns: []wire.RR{}, Ar: []wire.RR{}} }

// observe runs one abstract message through the real code and reports what happened.
func observe(a *wire.Msg, sum *hx.Summary) event {
	e := event{Key: L.MsgKey(a), Msg: a, Bytes: hx.B{}, Rebytes: hx.B{}, Msg2: emptyMsg()}
	m, err := L.BuildMsg(a)
	if err != nil {
		hx.Die("message cannot be built: %v", err)
	}
	p := hx.Catch(func() {
		b, err := m.Pack()
		if err != nil {
			return
		}
		e.Packed, e.Bytes = true, hx.FromBytes(b)
		if m2, err := L.BuildMsg(a); err == nil {
			if pb, err := m2.PackBuffer(filled(m2.Len()+64, 0xff)); err == nil {
				e.PbufOK, e.PbufSame = true, bytes.Equal(pb, b)
			}
		}
		var cat []byte
		e.RRSame = true
		for _, rr := range append(append(append([]dns.RR{}, m.Answer...), m.Ns...), m.Extra...) {
			buf := filled(7+dns.Len(rr)+64, 0xff)
			off, err := dns.PackRR(rr, buf, 7, nil, false)
			if err != nil {
				e.RRSame = false
				break
			}
			cat = append(cat, buf[7:off]...)
		}
		e.RRSame = e.RRSame && bytes.HasSuffix(b, cat)
		u := new(dns.Msg)
		in := clone(b)
		if u.Unpack(in) != nil {
			return
		}
		e.Unpacked = true
		e.Msg2, _ = L.ProjectMsg(u, a)
		scribble(in)
		after, _ := L.ProjectMsg(u, a)
		e.InputFree = wire.Canon(after) == wire.Canon(e.Msg2)
		u2 := usedReceiver()
		if u2.Unpack(clone(b)) == nil {
			p2, _ := L.ProjectMsg(u2, a)
			e.ReusedSame = wire.Canon(p2) == wire.Canon(e.Msg2)
		}
		e.HeldSame = heldIntact()
		if !e.HeldSame {
			primeHeld = nil
			prime()
		}
		if rb, err := u.Pack(); err == nil {
			e.Repacked, e.Rebytes = true, hx.FromBytes(rb)
		}
	})
	if p != "" {
		sum.Mis("wire/panic:"+e.Key, "panic: "+p, a)
	}
	return e
}

func record(out string, n int) {
	g := newGen(hx.Rand())
	w := hx.NewWriter(out)
	defer w.Close()
	var sum hx.Summary
	seen := map[[20]byte]bool{}
	for i := 0; i < n; i++ {
		sum.Evaluations++
		e := observe(g.message(), &sum)
		if e.Packed {
			seen[sha1.Sum(e.Bytes.Bytes())] = true
		}
		w.Emit(e)
		if i < 3 && len(e.Bytes) < 200 {
			sum.Sample(e)
		}
	}
	sum.Nontrivial = len(seen)
	sum.Note("events", w.N)
	sum.Print()
}

// reexec runs the messages of recorded events through the real code again (fresh process):
// the new events are what the driver has TLC judge when it confirms or replays a finding.
func reexec(in, out string) {
	w := hx.NewWriter(out)
	defer w.Close()
	var sum hx.Summary
	hx.ReadNDJSON(in, func(i int, e *event) {
		sum.Evaluations++
		w.Emit(observe(e.Msg, &sum))
	})
	sum.Print()
}
