package main

// C08: Msg.Len / Len(rr) never under-estimate, are exact for plain messages; Pack and
// PackBuffer always have room; PackBuffer uses the caller's buffer when it is large enough.

import (
	"bytes"
	"fmt"
	"net"
	"reflect"

	"github.com/miekg/dns"

	"verifharness/lib/hx"
	"verifharness/lib/wire"
)

type lvec struct {
	vec
	Plain   bool `json:"plain"`
	NoBytes bool `json:"nobytes"` // the vector carries no octets (only lengths and offsets)
	Loose   bool `json:"loose"`   // a stored length field disagrees with its data: packable as given, not a decodable message
	// what the CompressLen machines say the library predicts / emits with Compress = true; binding where Exact
	Pimpl *int `json:"pimpl"`
	Limpl *int `json:"limpl"`
	Exact bool `json:"exact"`
}

var modelMismatch []interface{} // vectors on which the CompressLen machines do not describe the code (no verdict: see c08.py)

// smallL: what is kept of a C08 case (with the spec's flags and model values, without megabytes of octets)
func smallL(v *lvec) interface{} {
	if len(v.Bytes) > 4096 || v.Lenmsg > 4096 {
		return map[string]interface{}{"g": v.G, "v": v.V, "big": true}
	}
	return v
}

func cTag(compress bool) string {
	if compress {
		return "compress"
	}
	return "plain-wire"
}

// ---------------------------------------------------------------- vectors

func lenReplay(path string) {
	var sum hx.Summary
	n := 0
	skipped := 0
	shorter = 0
	hx.ReadNDJSON(path, func(i int, v *lvec) {
		if !v.Ok || inexpressible(&v.Msg) != "" {
			return
		}
		sum.Evaluations++
		if p := hx.Catch(func() {
			if lenOne(v, &sum) {
				skipped++
			}
			if v.G == "types" && len(v.V) == 3 && v.V[1] == 0 {
				shapes(v, &sum)
			}
			if v.Lenmsg < 2048 { // and once more with empty lists spelled as nil slices
				L.NilLists = true
				defer func() { L.NilLists = false }()
				lenOne(v, &sum)
				L.NilLists = false
				lenSpelled(v, &sum) // and in non-canonical spellings of its names and strings (lenspell.go)
			}
		}); p != "" {
			sum.Mis("len/panic:"+L.MsgKey(&v.Msg), "panic: "+p, smallL(v))
		}
		if v.Plain {
			n++
		}
		if i%499 == 0 && len(v.Bytes) < 300 {
			sum.Sample(map[string]interface{}{"g": v.G, "v": v.V, "lenmsg": v.Lenmsg, "plain": v.Plain})
		}
	})
	sum.Nontrivial = n // vectors under the exactness clause
	sum.Note("pack_differs_from_spec_octets_left_to_C01", skipped)
	sum.Note("vectors_compression_shortened", shorter)
	sum.Note("respelled_variants", spelledVariants)
	sum.Note("respelled_variants_refused_by_the_packer", spelledRefused)
	if len(modelMismatch) > 0 {
		sum.Note("model_mismatch_vectors", len(modelMismatch))
		sum.Note("model_mismatch_sample", modelMismatch[0])
	}
	sum.Print()
}

// probeBuffers exercises PackBuffer with buffers of the given lengths; u is the uncompressed
// length in the strictest reading (true length), pred the library's own prediction of it.
type probe struct {
	N       int    `json:"n"`
	Err     string `json:"err"`     // "" | "ErrBuf" | other text
	Same    bool   `json:"same"`    // result equals Pack()
	Inplace bool   `json:"inplace"` // result starts at the caller's buffer
}

func probeBuffers(build func() *dns.Msg, ref []byte, sizes []int) []probe {
	out := []probe{}
	for _, n := range sizes {
		m := build()
		buf := make([]byte, n)
		for i := range buf {
			buf[i] = 0xAA
		}
		p := probe{N: n}
		b, err := m.PackBuffer(buf)
		switch {
		case err == dns.ErrBuf:
			p.Err = "ErrBuf"
		case err != nil:
			p.Err = err.Error()
		default:
			p.Same = bytes.Equal(b, ref)
			p.Inplace = n > 0 && len(b) > 0 && &b[0] == &buf[0]
		}
		out = append(out, p)
	}
	return out
}

var shorter int // vectors whose compressed packing is shorter than the uncompressed one (non-vacuity of the Compress = TRUE half)

func sizesFor(u int) []int { return []int{0, u, u + 1, u + 2, 2 * u} }

// failedPackBefore: C08 speaks of every packable message whatever the program did before.  A Pack() that FAILS half
// way (a later record has an owner that is not fully qualified) is the nastiest predecessor: it has already entered
// all the names of m in whatever the packer keeps.  It is made of the case itself, so it comes along in a replay.
func failedPackBefore(m *dns.Msg) {
	p := m.Copy()
	p.Compress = true
	p.Answer = append(p.Answer, &dns.A{Hdr: dns.RR_Header{Name: "not-fully-qualified", Rrtype: dns.TypeA, Class: 1}, A: net.IP{192, 0, 2, 1}})
	if _, err := p.Pack(); err == nil {
		hx.Die("the poisoned message was packed")
	}
}

// afterFailure: a successful compressed Pack of an unrelated message, so that a failed Pack of one case is not the
// predecessor of the next (cases are judged on their own).
func afterFailure() {
	m := new(dns.Msg)
	m.Compress = true
	m.Question = []dns.Question{{Name: "cleanse.invalid.", Qtype: 1, Qclass: 1}, {Name: "cleanse.invalid.", Qtype: 28, Qclass: 1}}
	_, _ = m.Pack()
}

func lenOne(v *lvec, sum *hx.Summary) (c01 bool) {
	key := L.MsgKey(&v.Msg)
	build := func(compress bool) *dns.Msg {
		m, err := L.BuildMsg(&v.Msg)
		if err != nil {
			hx.Die("vector %s %v: %v", v.G, v.V, err)
		}
		m.Compress = compress
		return m
	}
	pred := build(false).Len() // the library's notion of "the uncompressed length"
	for _, compress := range []bool{false, true} {
		tag := cTag(compress)
		m := build(compress)
		if compress {
			failedPackBefore(m)
		}
		l := m.Len()
		b, err := m.Pack()
		if err != nil {
			afterFailure()
		}
		if err != nil && err != dns.ErrBuf && v.Refuse {
			continue // admitted by the specification: an unordered type list may be refused
		}
		if err == nil && compress { // and packing the same value again gives the same octets
			if b2, err2 := build(compress).Pack(); err2 != nil || !bytes.Equal(b, b2) {
				sum.Mis("len/pack-unstable:"+key, fmt.Sprintf("two successive Pack() of the same message (the first after a failed Pack of another) differ: %d and %d octets, Len() = %d", len(b), len(b2), l), smallL(v))
			}
		}
		if err != nil {
			k := "len/pack-error:"
			if err == dns.ErrBuf {
				k = "len/pack-errbuf:"
			}
			sum.Mis(k+key, fmt.Sprintf("Pack() of a packable message (%s): %v (Len() = %d, spec length %d)", tag, err, l, v.Lenmsg), smallL(v))
			continue
		}
		if !compress && !v.NoBytes && !bytes.Equal(b, v.Bytes.Bytes()) {
			c01 = true // the octets are wrong: C01's finding; the length clauses below still apply to what was packed
		}
		if !compress && v.NoBytes && len(b) != v.Lenmsg {
			sum.Mis("len/uncompressed-length:"+key, fmt.Sprintf("uncompressed message has %d octets, spec %d", len(b), v.Lenmsg), smallL(v))
			c01 = true
		}
		held := l >= len(b) && !(v.Plain && l != len(b))
		if compress && held && !c01 && v.Exact && v.Pimpl != nil && v.Limpl != nil && (len(b) != *v.Pimpl || l != *v.Limpl) {
			modelMismatch = append(modelMismatch, map[string]interface{}{"g": v.G, "v": v.V, "len": l, "limpl": *v.Limpl, "packlen": len(b), "pimpl": *v.Pimpl})
		}
		if compress && len(b) < v.Lenmsg {
			shorter++
		}
		if compress && len(b) > v.Lenmsg && !c01 {
			sum.Mis("len/compressed-longer:"+key, fmt.Sprintf("compressed message has %d octets, uncompressed (spec) %d", len(b), v.Lenmsg), smallL(v))
		}
		if l < len(b) {
			sum.Mis("len/underestimate:"+key+":"+tag, fmt.Sprintf("Len() = %d < len(Pack()) = %d", l, len(b)), smallL(v))
		} else if v.Plain && l != len(b) {
			sum.Mis("len/inexact:"+key+":"+tag, fmt.Sprintf("Len() = %d, len(Pack()) = %d on a message of common types with escape-free content", l, len(b)), smallL(v))
		}
		// PackBuffer: never ErrBuf, same octets, in place when the buffer is larger than the uncompressed length.
		// "the uncompressed length" is the true one (spec) or the library's prediction: only buffers larger than both must be used (AMBIG)
		u := v.Lenmsg
		need := u
		if pred > need {
			need = pred
		}
		for _, p := range probeBuffers(func() *dns.Msg { return build(compress) }, b, sizesFor(u)) {
			switch {
			case p.Err == "ErrBuf":
				sum.Mis("len/packbuffer-errbuf:"+key+":"+tag, fmt.Sprintf("PackBuffer(buf of %d) = ErrBuf, message needs %d", p.N, len(b)), smallL(v))
			case p.Err != "":
				sum.Mis("len/packbuffer-error:"+key+":"+tag, fmt.Sprintf("PackBuffer(buf of %d): %s", p.N, p.Err), smallL(v))
			case !p.Same:
				sum.Mis("len/packbuffer-octets:"+key+":"+tag, fmt.Sprintf("PackBuffer(buf of %d) differs from Pack()", p.N), smallL(v))
			case p.N > need && !p.Inplace:
				sum.Mis("len/packbuffer-not-in-place:"+key+":"+tag, fmt.Sprintf("PackBuffer(buf of %d) allocated although the uncompressed length is %d (predicted %d)", p.N, u, pred), smallL(v))
			}
		}
	}
	// the message as a decoder holds it (e.g. nil lists, the typed zero value of an RDATA-less record): Len() of it
	// never under-estimates what Pack() makes of it either
	if !v.NoBytes && !v.Loose && len(v.Bytes) > 0 {
		for _, compress := range []bool{false, true} {
			u := new(dns.Msg)
			in := v.Bytes.Bytes() // a private copy
			if u.Unpack(in) != nil {
				break // C01's finding
			}
			scribble(in) // the caller re-uses its buffer
			u.Compress = compress
			l := u.Len()
			b, err := u.Pack()
			if err == dns.ErrBuf {
				sum.Mis("len/pack-errbuf-unpacked:"+key, fmt.Sprintf("Unpack(spec octets).Pack() (%s): %v (Len() = %d)", cTag(compress), err, l), smallL(v))
			} else if err == nil && l < len(b) {
				sum.Mis("len/underestimate-unpacked:"+key+":"+cTag(compress), fmt.Sprintf("after Unpack(spec octets): Len() = %d < len(Pack()) = %d", l, len(b)), smallL(v))
			}
		}
	}
	// record level: Len(rr) against the spec's record lengths
	if c01 {
		return
	}
	m := build(false)
	if _, err := m.Pack(); err != nil { // sets the extended RCODE in OPT exactly as the message-level packing does
		return
	}
	rrs := append(append(append([]dns.RR{}, m.Answer...), m.Ns...), m.Extra...)
	arrs := v.Msg.RRs()
	if len(v.Rroff) != len(rrs)+1 {
		return
	}
	for i, rr := range rrs {
		want := v.Rroff[i+1] - v.Rroff[i]
		got := dns.Len(rr)
		k := L.KeyOf(arrs[i])
		if got < want {
			sum.Mis("len/rr-underestimate:"+k, fmt.Sprintf("Len(rr) = %d, the record has %d octets", got, want), smallL(v))
		} else if v.Plain && got != want {
			sum.Mis("len/rr-inexact:"+k, fmt.Sprintf("Len(rr) = %d, the record has %d octets (common type, escape-free)", got, want), smallL(v))
		}
	}
	return
}

// ---------------------------------------------------------------- values only a caller can build
//
// A decoder yields one spelling of each value; a caller may hand the packer others that Pack accepts: a 16-octet
// net.IP in an A record (IPv4-mapped or not), nil and empty addresses, empty strings and names, nil string lists.
// "Can be packed" is decided by the packer itself given ample room (PackBuffer into a large buffer succeeds);
// then Pack() must succeed as well, Len() must cover the octets and Len(rr) the record's.
// Run on the baseline record of every type (types mode, field 0), one field and one shape at a time.
func shapes(v *lvec, sum *hx.Summary) {
	rrs := v.Msg.RRs()
	if len(rrs) != 1 || rrs[0].Nodata {
		return
	}
	mn := L.Mnemonic(rrs[0].Type)
	probe, err := L.BuildRR(rrs[0])
	if err != nil {
		return
	}
	sv := reflect.ValueOf(probe).Elem()
	for fi := 0; fi < sv.NumField(); fi++ {
		ft := sv.Type().Field(fi)
		if !ft.IsExported() || ft.Name == "Hdr" {
			continue
		}
		var variants []struct {
			name string
			val  interface{}
		}
		add := func(n string, x interface{}) {
			variants = append(variants, struct {
				name string
				val  interface{}
			}{n, x})
		}
		switch sv.Field(fi).Interface().(type) {
		case net.IP:
			add("ip-nil", net.IP(nil))
			add("ip-empty", net.IP{})
			add("ip4", net.IP{192, 0, 2, 7})
			add("ip4in16", net.IPv4(192, 0, 2, 7))
			add("ip16", net.ParseIP("2001:db8::7"))
		case string:
			add("string-empty", "")
		case []string:
			add("strings-nil", []string(nil))
			add("strings-one-empty", []string{""})
		case []uint16:
			add("types-nil", []uint16(nil))
		default:
			continue
		}
		for _, va := range variants {
			mk := func(compress bool) (*dns.Msg, dns.RR) {
				rr, _ := L.BuildRR(rrs[0])
				reflect.ValueOf(rr).Elem().Field(fi).Set(reflect.ValueOf(va.val))
				m := &dns.Msg{Compress: compress}
				m.Question = []dns.Question{{Name: "o.x.", Qtype: 255, Qclass: 1}}
				if rrs[0].Type == 41 {
					m.Extra = []dns.RR{rr}
				} else {
					m.Answer = []dns.RR{rr}
				}
				return m, rr
			}
			cls := mn + ":" + ft.Name + "=" + va.name
			cse := map[string]interface{}{"g": v.G, "v": v.V, "big": true} // re-derived by the replay
			for _, compress := range []bool{false, true} {
				m, rr := mk(compress)
				room, err := m.PackBuffer(make([]byte, 70000))
				if err != nil {
					afterFailure()
					continue // the packer refuses this value: outside "every message that can be packed"
				}
				sum.Evaluations++
				m, rr = mk(compress)
				l := m.Len()
				b, err := m.Pack()
				switch {
				case err != nil:
					afterFailure()
					sum.Mis("len/pack-error-shape:"+cls, fmt.Sprintf("Pack() fails (%v) on a value PackBuffer packs into %d octets given room; Len() = %d", err, len(room), l), cse)
				case l < len(b):
					sum.Mis("len/underestimate-shape:"+cls, fmt.Sprintf("Len() = %d < len(Pack()) = %d", l, len(b)), cse)
				}
				if !compress {
					buf := make([]byte, 70000)
					if off, err := dns.PackRR(rr, buf, 0, nil, false); err == nil && dns.Len(rr) < off {
						sum.Mis("len/rr-underestimate-shape:"+cls, fmt.Sprintf("Len(rr) = %d, PackRR writes %d octets", dns.Len(rr), off), cse)
					}
				}
			}
		}
	}
}

// ---------------------------------------------------------------- recorded events (judged by Trace_CompressLen)

type levent struct {
	Key      string    `json:"key"`
	Msg      *wire.Msg `json:"msg"`
	Compress bool      `json:"compress"`
	Packed   bool      `json:"packed"`
	PackErr  string    `json:"packerr"`
	Len      int       `json:"len"`     // Msg.Len() under the message's compression setting
	Ulen     int       `json:"ulen"`    // Msg.Len() with Compress = false: the library's "uncompressed length"
	Packlen  int       `json:"packlen"` // len(Pack())
	RRLen    [][]int   `json:"rrlen"`   // per record: Len(rr), octets PackRR produced (uncompressed)
	Probes   []probe   `json:"probes"`
	// with Compress: the Pack() above ran right after a FAILED Pack of a message with the same names; a second Pack()
	// of the same value gave the same octets
	Stable bool `json:"stable"`
	// 0: names and strings spelled canonically; 1..3: respelled (lenspell.go) -- the same message, the exactness
	// clause does not apply
	Spell int `json:"spell"`
}

func lenObserve(a *wire.Msg, compress bool, spell int, sum *hx.Summary) levent {
	e := levent{Key: L.MsgKey(a), Msg: a, Compress: compress, RRLen: [][]int{}, Probes: []probe{}}
	build := func(c bool) *dns.Msg {
		m, err := L.BuildMsg(a)
		if err != nil {
			hx.Die("message cannot be built: %v", err)
		}
		if e.Spell != 0 {
			respellMsg(m, a, e.Spell)
		}
		m.Compress = c
		return m
	}
	if spell != 0 { // respelled only where the packer, given room, makes the canonical spelling's octets of it
		if p := hx.Catch(func() {
			if ref, err := build(false).Pack(); err == nil {
				m, _ := L.BuildMsg(a)
				if respellMsg(m, a, spell) > 0 && sameMessage(m, ref) {
					e.Spell = spell
				}
			} else {
				afterFailure()
			}
		}); p != "" {
			e.Spell = 0
		}
		if e.Spell != 0 {
			e.Key += ":respelled"
		}
	}
	p := hx.Catch(func() {
		e.Ulen = build(false).Len()
		m := build(compress)
		if compress {
			failedPackBefore(m)
		}
		e.Len = m.Len()
		b, err := m.Pack()
		if err != nil {
			afterFailure()
			e.PackErr = err.Error()
			if err == dns.ErrBuf {
				e.PackErr = "ErrBuf"
			}
			return
		}
		e.Packed, e.Packlen = true, len(b)
		e.Stable = true
		if compress {
			b2, err2 := build(compress).Pack()
			e.Stable = err2 == nil && bytes.Equal(b, b2)
		}
		for _, rr := range append(append(append([]dns.RR{}, m.Answer...), m.Ns...), m.Extra...) {
			buf := make([]byte, dns.Len(rr)+300)
			off, err := dns.PackRR(rr, buf, 0, nil, false)
			if err != nil {
				off = -1
			}
			e.RRLen = append(e.RRLen, []int{dns.Len(rr), off})
		}
		// the true uncompressed length, observed: the specification's LenMsg is the judge of it in TLC
		ub, err := build(false).Pack()
		if err != nil {
			return
		}
		e.Probes = probeBuffers(func() *dns.Msg { return build(compress) }, b, sizesFor(len(ub)))
	})
	if p != "" {
		sum.Mis("len/panic:"+e.Key, "panic: "+p, a)
	}
	return e
}

func lenRecord(out string, n int) {
	g := newGen(hx.Rand())
	g.noExotic = true
	w := hx.NewWriter(out)
	defer w.Close()
	var sum hx.Summary
	big, plain, spelled := 0, 0, 0
	for i := 0; i < n; i++ {
		sum.Evaluations++
		g.plain = i%3 == 0
		g.big = i%25 == 7
		g.related = true
		a := g.message()
		if i%10 == 4 {
			a = g.straddle() // names crossing offset 16384
		}
		spell := 0
		if i%4 == 1 { // a quarter of the messages in a non-canonical spelling
			spell = 1 + (i/4)%spellStyles
		}
		e := lenObserve(a, g.r.Intn(3) != 0, spell, &sum)
		if e.Spell != 0 {
			spelled++
		}
		if e.Packlen > 16384 {
			big++
		}
		if g.plain {
			plain++
		}
		w.Emit(e)
		if i < 2 && e.Packlen < 200 {
			sum.Sample(e)
		}
	}
	sum.Nontrivial = plain
	sum.Note("events", w.N)
	sum.Note("events_beyond_16384_octets", big)
	sum.Note("events_respelled", spelled)
	sum.Print()
}

func lenReexec(in, out string) {
	w := hx.NewWriter(out)
	defer w.Close()
	var sum hx.Summary
	hx.ReadNDJSON(in, func(i int, e *levent) {
		sum.Evaluations++
		w.Emit(lenObserve(e.Msg, e.Compress, e.Spell, &sum))
	})
	sum.Print()
}
