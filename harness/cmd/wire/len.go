package main

func lenReplay(path string)        {}
func lenRecord(out string, n int) {}
