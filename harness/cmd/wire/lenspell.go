package main

// C08, non-canonical spellings.  The statement quantifies over every message that can be packed; the fields of a
// dns.Msg that are packed from escaped text (domain names; <character-string>s: dns:"txt" lists and untagged string
// fields; dns:"octet" values) have MANY spellings of the same octets: a backslash before an ordinary character (\v),
// before one digit or two digits that are not followed by a third (\1x, \12x, \12 at the end), \DDD of a printable
// character, a backslash at the very end of a string.  Pack accepts them all; Len must cover them all.
//
// Nothing here knows what the lengths should be: a vector (or a recorded event) is built a second time with its text
// fields respelled; the respelled value is first shown to be the SAME message (packed into a generous caller buffer
// it gives exactly the octets of the canonical spelling, which the canonical pass compares with the specification's
// EncMsg); then the clauses of the canonical pass are applied with the same expected values from the vector
// (lenmsg, rroff) -- all but the exactness clause, which the statement restricts to content without escapes.

import (
	"bytes"
	"fmt"
	"reflect"

	"github.com/miekg/dns"

	"verifharness/lib/hx"
	"verifharness/lib/wire"
)

const spellStyles = 3 // 1: \X before ordinary non-digits; 2: \D and \DD shapes in runs of digits; 3: mixed by position, \DDD of printables, trailing backslash

type spellKind int

const (
	spName  spellKind = iota // presentation form of a domain name (dots separate labels)
	spStr                    // <character-string> (packTxtString / packString)
	spOctet                  // dns:"octet" (packOctetString)
)

type speller struct {
	style int
	salt  int // advances with every string respelled: in style 3 two occurrences of one name are spelled differently
	n     int // strings whose spelling changed
}

type spTok struct {
	c   byte
	sep bool // the dot between two labels
}

// canonical spelling of one octet, as lib/wire spells it (PresentName / PresentStr / PresentOctet)
func spCanon(c byte, k spellKind) string {
	switch k {
	case spName:
		switch {
		case c == '.' || c == ' ' || c == '\'' || c == '@' || c == ';' || c == '(' || c == ')' || c == '"' || c == '\\':
			return "\\" + string([]byte{c})
		case c < 0x21 || c > 0x7e:
			return fmt.Sprintf("\\%03d", c)
		}
	case spStr:
		switch {
		case c == '"' || c == '\\':
			return "\\" + string([]byte{c})
		case c < 0x20 || c > 0x7e:
			return fmt.Sprintf("\\%03d", c)
		}
	case spOctet:
		if c == '\\' {
			return "\\\\"
		}
	}
	return string([]byte{c})
}

func spDigit(c byte) bool { return c >= '0' && c <= '9' }

// spell: the tokens in the style; decisions are taken from the right so that a backslash is put before a digit only
// where the text that follows does not make it a \DDD.
func (sp *speller) spell(toks []spTok, k spellKind) string {
	n := len(toks)
	plainDigit := func(i int) bool { return i >= 0 && i < n && !toks[i].sep && spDigit(toks[i].c) }
	pieces := make([]string, n)
	var a0, a1 byte // the first two characters of what has been emitted to the right (0: none)
	for i := n - 1; i >= 0; i-- {
		t := toks[i]
		s := "."
		if !t.sep {
			s = spCanon(t.c, k)
			bare := len(s) == 1 && t.c > 0x20 && t.c < 0x7f // an ordinary character: the canonical spelling is the octet itself
			bs, ddd := false, false
			switch sp.style {
			case 1:
				bs = bare && !spDigit(t.c)
			case 2: // in a maximal run of digits: the backslash goes before the last but one (\DD), before the only one (\D)
				if bare && spDigit(t.c) {
					after := 0
					for plainDigit(i + 1 + after) {
						after++
					}
					bs = after == 1 || (after == 0 && !plainDigit(i-1))
				}
			default:
				switch (i + sp.salt) % 5 {
				case 0, 3:
					bs = bare
				case 1:
					ddd = t.c >= 0x20 && t.c < 0x7f
				}
			}
			if bs && spDigit(t.c) && spDigit(a0) && spDigit(a1) {
				bs = false // would be read as \DDD
			}
			if bs {
				s = "\\" + s
			} else if ddd {
				s = fmt.Sprintf("\\%03d", t.c)
			}
		}
		pieces[i] = s
		if len(s) >= 2 {
			a0, a1 = s[0], s[1]
		} else {
			a0, a1 = s[0], a0
		}
	}
	var out bytes.Buffer
	for _, p := range pieces {
		out.WriteString(p)
	}
	if sp.style == 3 && k != spName && sp.salt%2 == 1 {
		out.WriteByte('\\') // a backslash with nothing after it: the string packers write nothing for it
	}
	return out.String()
}

func (sp *speller) text(s string, k spellKind) string {
	if s == "" {
		return s
	}
	b, err := wire.ParseStr(s)
	if err != nil {
		return s
	}
	toks := make([]spTok, len(b))
	for i, c := range b {
		toks[i] = spTok{c: c}
	}
	return sp.done(s, sp.spell(toks, k))
}

func (sp *speller) name(s string) string {
	if s == "" || s == "." {
		return s
	}
	labels, err := wire.ParseName(s)
	if err != nil {
		return s
	}
	var toks []spTok
	for _, l := range labels {
		for _, c := range l {
			toks = append(toks, spTok{c: c})
		}
		toks = append(toks, spTok{sep: true})
	}
	return sp.done(s, sp.spell(toks, spName))
}

func (sp *speller) done(old, new string) string {
	sp.salt++
	if new != old {
		sp.n++
	}
	return new
}

// respellMsg rewrites the text fields of m (built from a) in place: question names, owner names and -- by the kind
// the layout gives each RDATA field -- names, name lists, gateway hosts, character-strings, string lists and
// dns:"octet" values.  hex / base64 / base32 / raw / opaque fields, EDNS0 options and SvcParams are never touched.
// Returns the number of strings whose spelling changed.
func respellMsg(m *dns.Msg, a *wire.Msg, style int) int {
	sp := &speller{style: style}
	for i := range m.Question {
		m.Question[i].Name = sp.name(m.Question[i].Name)
	}
	rrs := append(append(append([]dns.RR{}, m.Answer...), m.Ns...), m.Extra...)
	arrs := a.RRs()
	if len(arrs) != len(rrs) {
		hx.Die("respell: %d records built from %d", len(rrs), len(arrs))
	}
	for i, rr := range rrs {
		h := rr.Header()
		h.Name = sp.name(h.Name)
		if arrs[i].Nodata || !L.Known(arrs[i].Type) {
			continue
		}
		if _, ok := rr.(*dns.PrivateRR); ok {
			continue
		}
		sv := reflect.ValueOf(rr).Elem()
		for _, e := range L.FieldsOf(arrs[i].Type) {
			fv := sv.FieldByName(e.N)
			if !fv.IsValid() || !fv.CanSet() {
				continue
			}
			isStr := fv.Kind() == reflect.String
			isStrs := fv.Kind() == reflect.Slice && fv.Type().Elem().Kind() == reflect.String
			switch e.K {
			case "name", "cname", "gateway":
				if isStr {
					fv.SetString(sp.name(fv.String()))
				}
			case "names":
				if isStrs {
					for j := 0; j < fv.Len(); j++ {
						fv.Index(j).SetString(sp.name(fv.Index(j).String()))
					}
				}
			case "str", "ostr":
				if isStr {
					fv.SetString(sp.text(fv.String(), spStr))
				}
			case "strs":
				if isStrs {
					for j := 0; j < fv.Len(); j++ {
						fv.Index(j).SetString(sp.text(fv.Index(j).String(), spStr))
					}
				}
			case "octet":
				if isStr {
					fv.SetString(sp.text(fv.String(), spOctet))
				}
			}
		}
	}
	return sp.n
}

// sameMessage: the respelled value is an accepted spelling of the same message iff the packer, given ample room,
// makes the reference octets of it.  ("Can be packed" is decided by the packer, not by Len.)
func sameMessage(m *dns.Msg, ref []byte) bool {
	b, err := m.PackBuffer(make([]byte, 2*len(ref)+64))
	if err != nil {
		afterFailure()
		return false
	}
	return bytes.Equal(b, ref)
}

var spelledVariants, spelledRefused int

// lenSpelled: the clauses of lenOne on the respelled variants of a vector, with the vector's expected values.
func lenSpelled(v *lvec, sum *hx.Summary) {
	key := L.MsgKey(&v.Msg) + ":respelled"
	canon, err := L.BuildMsg(&v.Msg)
	if err != nil {
		hx.Die("vector %s %v: %v", v.G, v.V, err)
	}
	ref, err := canon.Pack()
	if err != nil {
		afterFailure()
		return // the canonical pass reports it
	}
	if len(ref) != v.Lenmsg || (!v.NoBytes && !bytes.Equal(ref, v.Bytes.Bytes())) {
		return // the octets of the canonical spelling are not the specification's: C01's finding
	}
	for style := 1; style <= spellStyles; style++ {
		changed := 0
		build := func(compress bool) *dns.Msg {
			m, err := L.BuildMsg(&v.Msg)
			if err != nil {
				hx.Die("vector %s %v: %v", v.G, v.V, err)
			}
			changed = respellMsg(m, &v.Msg, style)
			m.Compress = compress
			return m
		}
		m0 := build(false)
		if changed == 0 {
			continue
		}
		if !sameMessage(m0, ref) {
			spelledRefused++ // not a spelling the packer accepts for these octets (e.g. beyond its bound on the text length)
			continue
		}
		spelledVariants++
		sum.Evaluations++
		what := fmt.Sprintf(" [text fields respelled in style %d, e.g. %s; packed into a large buffer the message is the canonical one's %d octets]", style, spellSample(build(false)), len(ref))
		pred := build(false).Len()
		for _, compress := range []bool{false, true} {
			tag := cTag(compress)
			m := build(compress)
			if compress {
				failedPackBefore(m)
			}
			l := m.Len()
			b, err := m.Pack()
			if err != nil {
				afterFailure()
				k := "len/pack-error:"
				if err == dns.ErrBuf {
					k = "len/pack-errbuf:"
				}
				sum.Mis(k+key, fmt.Sprintf("Pack() of a packable message (%s): %v (Len() = %d, spec length %d)", tag, err, l, v.Lenmsg)+what, smallL(v))
				continue
			}
			if !compress && !bytes.Equal(b, ref) {
				sum.Mis("len/pack-octets:"+key, fmt.Sprintf("Pack() gives %d octets that differ from what PackBuffer made of the same value given room", len(b))+what, smallL(v))
				continue
			}
			if compress && len(b) > v.Lenmsg {
				sum.Mis("len/compressed-longer:"+key, fmt.Sprintf("compressed message has %d octets, uncompressed (spec) %d", len(b), v.Lenmsg)+what, smallL(v))
			}
			if l < len(b) {
				sum.Mis("len/underestimate:"+key+":"+tag, fmt.Sprintf("Len() = %d < len(Pack()) = %d", l, len(b))+what, smallL(v))
			}
			u := v.Lenmsg
			need := u
			if pred > need {
				need = pred
			}
			for _, p := range probeBuffers(func() *dns.Msg { return build(compress) }, b, sizesFor(u)) {
				switch {
				case p.Err == "ErrBuf":
					sum.Mis("len/packbuffer-errbuf:"+key+":"+tag, fmt.Sprintf("PackBuffer(buf of %d) = ErrBuf, message needs %d", p.N, len(b))+what, smallL(v))
				case p.Err != "":
					sum.Mis("len/packbuffer-error:"+key+":"+tag, fmt.Sprintf("PackBuffer(buf of %d): %s", p.N, p.Err)+what, smallL(v))
				case !p.Same:
					sum.Mis("len/packbuffer-octets:"+key+":"+tag, fmt.Sprintf("PackBuffer(buf of %d) differs from Pack()", p.N)+what, smallL(v))
				case p.N > need && !p.Inplace:
					sum.Mis("len/packbuffer-not-in-place:"+key+":"+tag, fmt.Sprintf("PackBuffer(buf of %d) allocated although the uncompressed length is %d (predicted %d)", p.N, u, pred)+what, smallL(v))
				}
			}
		}
		// record level: Len(rr) of the respelled record against the specification's record length
		m := build(false)
		if _, err := m.PackBuffer(make([]byte, 2*len(ref)+64)); err != nil { // sets the extended RCODE in OPT as the message-level packing does
			afterFailure()
			continue
		}
		rrs := append(append(append([]dns.RR{}, m.Answer...), m.Ns...), m.Extra...)
		arrs := v.Msg.RRs()
		if len(v.Rroff) != len(rrs)+1 {
			continue
		}
		for i, rr := range rrs {
			want := v.Rroff[i+1] - v.Rroff[i]
			if got := dns.Len(rr); got < want {
				sum.Mis("len/rr-underestimate:"+L.KeyOf(arrs[i])+":respelled", fmt.Sprintf("Len(rr) = %d, the record has %d octets", got, want)+what, smallL(v))
			}
		}
	}
}

// spellSample: one respelled string of the message, for the report
func spellSample(m *dns.Msg) string {
	best := ""
	for _, rr := range append(append(append([]dns.RR{}, m.Answer...), m.Ns...), m.Extra...) {
		sv := reflect.ValueOf(rr).Elem()
		for i := 1; i < sv.NumField(); i++ {
			fv := sv.Field(i)
			var ss []string
			switch {
			case fv.Kind() == reflect.String:
				ss = []string{fv.String()}
			case fv.Kind() == reflect.Slice && fv.Type().Elem().Kind() == reflect.String:
				ss, _ = fv.Interface().([]string)
			}
			for _, s := range ss {
				if bytes.IndexByte([]byte(s), '\\') >= 0 && (best == "" || len(s) < len(best)) && len(s) > 2 {
					best = s
				}
			}
		}
		if best == "" && bytes.IndexByte([]byte(rr.Header().Name), '\\') >= 0 {
			best = rr.Header().Name
		}
	}
	if len(best) > 60 {
		best = best[:60] + "..."
	}
	return fmt.Sprintf("%q", best)
}
