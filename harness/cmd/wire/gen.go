package main

// Random abstract messages over the whole layout (well-formed in the sense of WireRR!WFMsg;
// Trace_WireRR re-checks that and reports an ill-formed one as an infrastructure error).

import (
	"math/rand"
	"sort"

	"verifharness/lib/hx"
	"verifharness/lib/wire"
)

type gen struct {
	r      *rand.Rand
	exotic bool // the record under construction may use the exotic features (see wire.ClassOf)
	big    bool // allow long opaque fields / many strings (C08: messages beyond 16384 octets)
	plain  bool // escape-free content only (C08 exactness clause)

	noExotic bool      // never use the exotic features (C08: they are C01's business)
	related  bool      // names of one message share suffixes (exercises compression)
	pool     [][][]int // names used so far in the message under construction
}

func newGen(r *rand.Rand) *gen { return &gen{r: r} }

var unknownCodes = []int{0, 11, 22, 34, 38, 40, wire.PrivType, 65281, 65534, 65535}
var optCodes = []int{1, 2, 3, 4, 5, 6, 7, 8, 9, 10, 11, 12, 15, 18, 19, 13, 14, 16, 17, 20, 65000, 65001, 65534, 65535}
var svcbKeys = []int{0, 1, 2, 3, 4, 5, 6, 7, 8, 9, 10, 100, 65279, 65280, 65534}

func (g *gen) pick(xs []int) int { return xs[g.r.Intn(len(xs))] }

func (g *gen) u(bits uint) int {
	max := 1 << bits
	switch g.r.Intn(6) {
	case 0:
		return 0
	case 1:
		return max - 1
	case 2:
		return g.pick([]int{1, 127, 128, 255, 256, max / 2, max/2 - 1}) % max
	}
	return g.r.Intn(max)
}

func (g *gen) octets(n int) []int {
	b := make([]int, n)
	mode := g.r.Intn(4)
	for i := range b {
		switch mode {
		case 0:
			b[i] = g.r.Intn(256)
		case 1:
			b[i] = int("aZ09.\\ \"();@'$-_"[g.r.Intn(16)])
		case 2:
			b[i] = 'a' + g.r.Intn(26)
		default:
			b[i] = g.pick([]int{0, 31, 32, 34, 46, 59, 92, 126, 127, 255, 'A', 'z', '0', '9'})
		}
		if g.plain {
			b[i] = int("abcxyzABC0129-_"[g.r.Intn(15)])
		}
	}
	return b
}

func (g *gen) wide(n int) []int { // an n-octet big-endian integer
	switch g.r.Intn(5) {
	case 0:
		return make([]int, n)
	case 1:
		b := make([]int, n)
		for i := range b {
			b[i] = 255
		}
		return b
	case 2:
		b := make([]int, n)
		b[0] = 128
		return b
	}
	b := make([]int, n)
	for i := range b {
		b[i] = g.r.Intn(256)
	}
	return b
}

func (g *gen) label(max int) []int {
	l := g.pick([]int{1, 1, 2, 3, 5, 8, 20, 40, 62, 63})
	if l > max {
		l = max
	}
	return g.octets(l)
}

func wireLen(n [][]int) int {
	t := 1
	for _, l := range n {
		t += 1 + len(l)
	}
	return t
}

// name: a fresh name, or -- for related names -- a name used before in this message, possibly
// with labels put in front or with the case of some letters changed.
func (g *gen) name() [][]int {
	if g.related && len(g.pool) > 0 && g.r.Intn(4) != 0 {
		base := g.pool[g.r.Intn(len(g.pool))]
		n := make([][]int, 0, len(base)+2)
		for k := g.pick([]int{0, 0, 1, 1, 2}); k > 0; k-- {
			l := g.label(20)
			if wireLen(base)+wireLen(n)+len(l) <= 255 {
				n = append(n, l)
			}
		}
		for _, l := range base[g.r.Intn(len(base)+1):] { // some suffix of it
			c := append([]int(nil), l...)
			if g.r.Intn(5) == 0 {
				for i := range c {
					if c[i] >= 'a' && c[i] <= 'z' && g.r.Intn(2) == 0 {
						c[i] -= 32
					}
				}
			}
			n = append(n, c)
		}
		g.pool = append(g.pool, n)
		return n
	}
	n := g.freshName()
	if g.related && len(n) > 0 {
		g.pool = append(g.pool, n)
	}
	return n
}

func (g *gen) freshName() [][]int {
	target := g.pick([]int{1, 3, 10, 10, 20, 60, 200, 254, 255})
	ls := [][]int{}
	tot := 1
	for tot < target {
		room := target - tot - 1
		if room < 1 {
			break
		}
		if room > 63 {
			room = 63
		}
		l := g.label(room)
		ls = append(ls, l)
		tot += 1 + len(l)
		if g.r.Intn(5) == 0 {
			break
		}
	}
	return ls
}

func (g *gen) str() []int {
	return g.octets(g.pick([]int{0, 1, 2, 5, 5, 17, 64, 254, 255}))
}

func (g *gen) blob(max int) []int {
	n := g.pick([]int{0, 1, 2, 3, 4, 16, 20, 32, 64, 255, 300})
	if g.big && g.r.Intn(3) == 0 {
		n = g.pick([]int{1000, 5000, 17000, 30000}) // at most two long fields per record: RDATA stays below 65536
	}
	if n > max {
		n = max
	}
	b := g.octets(n)
	return b
}

// anyOrder: a set may be listed in any order: half of the time increasing, else reversed, one
// adjacent pair exchanged, or shuffled.
func (g *gen) anyOrder(s []int, allowed bool) []int {
	if !allowed || len(s) < 2 || g.r.Intn(2) == 0 {
		return s
	}
	switch g.r.Intn(3) {
	case 0:
		for i, j := 0, len(s)-1; i < j; i, j = i+1, j-1 {
			s[i], s[j] = s[j], s[i]
		}
	case 1:
		i := g.pick([]int{0, len(s) - 2, g.r.Intn(len(s) - 1)})
		s[i], s[i+1] = s[i+1], s[i]
	default:
		g.r.Shuffle(len(s), func(i, j int) { s[i], s[j] = s[j], s[i] })
	}
	return s
}

func (g *gen) typeSet(limit int) []int {
	n := g.pick([]int{0, 1, 2, 3, 6, 12})
	set := map[int]bool{}
	for i := 0; i < n; i++ {
		var t int
		switch g.r.Intn(4) {
		case 0:
			t = g.pick([]int{1, 2, 5, 6, 15, 16, 28, 46, 47, 48, 50})
		case 1:
			t = g.pick([]int{0, 7, 8, 255, 256, 257, 511, 512, 32768, 65280, 65535})
		default:
			t = g.r.Intn(65536)
		}
		if limit > 0 {
			t = 1 + t%(limit-1)
		}
		set[t] = true
	}
	out := []int{}
	for t := range set {
		out = append(out, t)
	}
	sort.Ints(out)
	return out
}

func maskBeyond(addr []int, bits int) {
	for i := range addr {
		switch {
		case i*8 >= bits:
			addr[i] = 0
		case (i+1)*8 > bits:
			addr[i] &= 0xff << uint((i+1)*8-bits) & 0xff
		}
	}
}

func (g *gen) aplItem() map[string]interface{} {
	fam := 1 + g.r.Intn(2)
	n := 4
	if fam == 2 {
		n = 16
	}
	prefix := g.pick([]int{0, 1, 7, 8, 9, 24, 8 * n, 8*n - 1, g.r.Intn(8*n + 1)})
	if prefix > 8*n {
		prefix = 8 * n
	}
	addr := g.wide(n)
	if g.r.Intn(3) == 0 { // zero octets inside the prefix
		addr[g.r.Intn(n)] = 0
	}
	if g.r.Intn(2) == 0 { // else: host bits stay set, the packer has to mask them
		maskBeyond(addr, prefix)
	}
	return map[string]interface{}{"fam": fam, "neg": g.r.Intn(2) == 0, "prefix": prefix, "addr": addr}
}

func (g *gen) subFields(es []wire.Entry) map[string]interface{} {
	f := map[string]interface{}{}
	for _, e := range es {
		if e.K == "prefixaddr" { // client subnet: family, prefix and address go together
			fam := 1 + g.r.Intn(2)
			n := 4
			if fam == 2 {
				n = 16
			}
			mask := g.pick([]int{0, 1, 8, 9, 24, 8 * n, g.r.Intn(8*n + 1)})
			if mask > 8*n {
				mask = 8 * n
			}
			addr := g.wide(n)
			if g.r.Intn(2) == 0 { // else: host bits stay set, the packer has to mask them
				maskBeyond(addr, mask)
			}
			f["Family"], f[e.Sz], f["SourceScope"], f[e.N] = fam, mask, g.r.Intn(8*n+1), addr
			return f
		}
	}
	for _, e := range es {
		f[e.N] = g.value(e, 600)
	}
	return f
}

func (g *gen) value(e wire.Entry, maxBlob int) interface{} {
	switch e.K {
	case "u8":
		return g.u(8)
	case "u16":
		return g.u(16)
	case "u32", "u32z":
		return g.wide(4)
	case "u48":
		return g.wide(6)
	case "u64":
		return g.wide(8)
	case "u32e":
		if g.r.Intn(3) == 0 {
			return []int{}
		}
		return g.wide(4)
	case "u16opt":
		if g.r.Intn(3) == 0 {
			return []int{}
		}
		return []int{1 + g.r.Intn(65535)} // present-with-0 has no Go value; the vectors cover it
	case "a":
		return g.wide(4)
	case "aaaa":
		return g.wide(16)
	case "name", "cname":
		return g.name()
	case "str":
		return g.str()
	case "ostr":
		return [][]int{g.str()} // the absent form has no Go value; the vectors cover it
	case "strs":
		n := 1 + g.r.Intn(3)
		if g.big && g.r.Intn(2) == 0 {
			n = 20 + g.r.Intn(60)
		}
		out := make([][]int, n)
		for i := range out {
			out[i] = g.str()
		}
		return out
	case "lstrs":
		n := 1 + g.r.Intn(3)
		out := make([][]int, n)
		for i := range out {
			out[i] = g.octets(g.pick([]int{1, 2, 2, 5, 255}))
		}
		return out
	case "hex", "b64", "raw", "b32", "bytes":
		return g.blob(maxBlob)
	case "octet":
		b := g.blob(maxBlob)
		if !g.exotic {
			for i := range b {
				if b[i] == '\\' {
					b[i] = '/'
				}
			}
			if len(b) > 1025 {
				b = b[:1025]
			}
		} else if g.r.Intn(8) == 0 {
			b = g.octets(g.pick([]int{1026, 2000, 5000}))
		}
		return b
	case "bitmap":
		return g.anyOrder(g.typeSet(0), g.exotic) // out of order only in single-record messages (may be refused)
	case "bitmap0":
		if g.exotic {
			return g.typeSet(128)
		}
		return []int{}
	case "u16list":
		return g.anyOrder(g.typeSet(0), true)
	case "names":
		n := g.r.Intn(4)
		out := make([][][]int, n)
		for i := range out {
			out[i] = g.name()
		}
		return out
	case "alist":
		n := 1 + g.r.Intn(3)
		out := make([][]int, n)
		for i := range out {
			out[i] = g.wide(4)
		}
		return out
	case "aaaalist":
		n := 1 + g.r.Intn(3)
		out := make([][]int, n)
		for i := range out {
			out[i] = g.wide(16)
			out[i][0] = 0x20 // a global unicast address (the all-zero and all-one patterns of wide() are fine too, but keep clear of ::ffff:0:0/96)
		}
		return out
	case "apl":
		n := g.r.Intn(4)
		out := make([]map[string]interface{}, n)
		for i := range out {
			out[i] = g.aplItem()
		}
		return out
	case "opts":
		n := g.pick([]int{0, 0, 1, 1, 2, 3})
		out := make([]map[string]interface{}, n)
		for i := range out {
			c := g.pick(optCodes)
			if g.r.Intn(6) == 0 {
				c = 20 + g.r.Intn(65516)
			}
			out[i] = map[string]interface{}{"code": c, "f": g.subFields(L.OptFields(c))}
		}
		return out
	case "svcb":
		n := g.pick([]int{0, 1, 2, 3, 5})
		used := map[int]bool{}
		out := []map[string]interface{}{}
		for i := 0; i < n; i++ {
			k := g.pick(svcbKeys)
			if g.r.Intn(6) == 0 {
				k = g.r.Intn(65535)
			}
			if used[k] {
				continue
			}
			used[k] = true
			out = append(out, map[string]interface{}{"key": k, "f": g.subFields(L.SvcbFields(k))})
		}
		return out
	}
	panic("gen: kind " + e.K)
}

func (g *gen) rdata(t int) map[string]interface{} {
	es := L.FieldsOf(t)
	f := map[string]interface{}{}
	sizeKind := map[string]string{}
	for _, e := range es {
		sizeKind[e.N] = e.K
	}
	for _, e := range es {
		switch {
		case e.K == "gateway":
			sel := g.r.Intn(4)
			gt := sel
			if e.Mod == 128 && g.exotic && g.r.Intn(2) == 0 {
				gt |= 128 // discovery bit
			}
			f[e.Of] = gt
			switch sel {
			case 0:
				f[e.N] = []int{}
			case 1:
				f[e.N] = g.wide(4)
			case 2:
				f[e.N] = g.wide(16)
			default:
				f[e.N] = g.name()
			}
		case e.Sz != "":
			max := 600
			if sizeKind[e.Sz] == "u8" {
				max = 255
			}
			if g.big {
				max = 30000
				if sizeKind[e.Sz] == "u8" {
					max = 255
				}
			}
			b := g.blob(max)
			f[e.N], f[e.Sz] = b, len(b)
		default:
			if _, set := f[e.N]; !set { // length / selector fields are set by the field they drive
				max := 600
				if g.big {
					max = 30000
				}
				f[e.N] = g.value(e, max)
			}
		}
	}
	// the fields that drive others were visited before them: restore what the driven ones decided
	for _, e := range es {
		if e.Sz != "" {
			f[e.Sz] = len(f[e.N].([]int))
		}
	}
	return f
}

var plainTypes = []int{1, 28, 2, 5, 6, 12, 15, 33, 16, 39, 14, 17, 18, 36, 35, 13}

func (g *gen) rr(t int) wire.RR {
	rr := wire.RR{Type: t, Class: g.pick([]int{1, 1, 1, 3, 4, 254, 255, 0, 65535}), F: wire.Fields{}}
	if g.plain {
		rr.Class = 1
	}
	for _, l := range g.name() {
		rr.Name = append(rr.Name, hx.B(l))
	}
	rr.Ttl = hx.B(g.wide(4))
	if t != 41 && g.exotic && g.r.Intn(6) == 0 {
		rr.Nodata = true
		return rr
	}
	if t == 41 {
		rr.Name = nil
		rr.Class = g.pick([]int{512, 1232, 4096, 65535})
	}
	rr.F = g.rdata(t)
	return rr
}

func (g *gen) anyType() int {
	if g.plain {
		return g.pick(plainTypes)
	}
	if g.r.Intn(12) == 0 {
		return g.pick(unknownCodes)
	}
	for {
		t := L.Types[g.r.Intn(len(L.Types))].T
		if t != 41 {
			return t
		}
	}
}

// straddle: a message whose second record starts a little below offset 16384 (a TXT record pads up to
// there), followed by records with related names: their names cross the limit pointers can reach.
func (g *gen) straddle() *wire.Msg {
	g.pool, g.exotic = nil, false
	m := &wire.Msg{}
	m.Hdr.Id, m.Hdr.Qr = g.u(16), true
	q := g.question()
	m.Q = []wire.Q{q}
	padOwner := g.name()
	qn := make([][]int, len(q.Name))
	for i, l := range q.Name {
		qn[i] = l
	}
	base := 12 + wireLen(qn) + 4 + wireLen(padOwner) + 10
	n := 16384 + 12 - g.r.Intn(90) - base // RDATA octets of the pad record
	txt := [][]int{}
	for n > 0 {
		k := 256
		if n < k {
			k = n
		}
		s := make([]int, k-1)
		for i := range s {
			s[i] = 'A' + i%26
		}
		txt = append(txt, s)
		n -= k
	}
	pad := wire.RR{Type: 16, Class: 1, Ttl: hx.B{0, 0, 0, 60}, F: wire.Fields{"Txt": txt}}
	for _, l := range padOwner {
		pad.Name = append(pad.Name, hx.B(l))
	}
	m.An = append(m.An, pad)
	for i := 2 + g.r.Intn(4); i > 0; i-- {
		m.An = append(m.An, g.rr(g.anyType()))
	}
	for i := g.r.Intn(3); i > 0; i-- {
		m.Ns = append(m.Ns, g.rr(g.anyType()))
	}
	return wire.Normalize(m)
}

func (g *gen) question() wire.Q {
	q := wire.Q{Qtype: g.u(16), Qclass: g.pick([]int{1, 1, 255, 254, 3, 0, 65535})}
	for _, l := range g.name() {
		q.Name = append(q.Name, hx.B(l))
	}
	return q
}

// message: either one record that may use any exotic feature, or several records without them
// (so that a finding key can name the feature; see wire.ClassOf).
func (g *gen) message() *wire.Msg {
	m := &wire.Msg{}
	h := &m.Hdr
	h.Id, h.Opcode = g.u(16), g.r.Intn(16)
	bits := g.r.Intn(256)
	h.Qr, h.Aa, h.Tc, h.Rd, h.Ra, h.Z, h.Ad, h.Cd = bits&1 != 0, bits&2 != 0, bits&4 != 0, bits&8 != 0, bits&16 != 0, bits&32 != 0, bits&64 != 0, bits&128 != 0
	single := !g.plain && g.r.Intn(10) < 6
	if g.related {
		single = g.r.Intn(10) < 2
	}
	g.exotic = single && !g.noExotic
	g.pool = nil
	hasOpt := false
	if single {
		for i := g.r.Intn(2); i > 0; i-- {
			m.Q = append(m.Q, g.question())
		}
		if g.r.Intn(8) == 0 {
			m.Ar = append(m.Ar, g.rr(41))
			hasOpt = true
		} else {
			rr := g.rr(g.anyType())
			switch g.r.Intn(3) {
			case 0:
				m.An = append(m.An, rr)
			case 1:
				m.Ns = append(m.Ns, rr)
			default:
				m.Ar = append(m.Ar, rr)
			}
		}
	} else {
		for i := g.r.Intn(3); i > 0; i-- {
			m.Q = append(m.Q, g.question())
		}
		for i := g.r.Intn(4); i > 0; i-- {
			m.An = append(m.An, g.rr(g.anyType()))
		}
		for i := g.r.Intn(3); i > 0; i-- {
			m.Ns = append(m.Ns, g.rr(g.anyType()))
		}
		for i := g.r.Intn(3); i > 0; i-- {
			m.Ar = append(m.Ar, g.rr(g.anyType()))
		}
		if !g.plain && g.r.Intn(2) == 0 {
			hasOpt = true
			at := g.r.Intn(len(m.Ar) + 1)
			m.Ar = append(m.Ar[:at], append([]wire.RR{g.rr(41)}, m.Ar[at:]...)...)
		}
	}
	switch {
	case hasOpt:
		h.Rcode = g.pick([]int{0, 1, 15, 16, 17, 255, 4095, g.r.Intn(4096)})
	case g.r.Intn(40) == 0 && !g.plain:
		h.Rcode = 16 + g.r.Intn(4080) // cannot be packed
	default:
		h.Rcode = g.r.Intn(16)
	}
	return wire.Normalize(m)
}
