// Command xfrout binds spec/XfrOut.tla to Transfer.Out (xfr.go).
//
//	xfrout run <vectors.ndjson> <events.ndjson>   every script of Gen_XfrOut: a fresh dns.Server on an observing in-memory
//	                                              listener, handler = producer + Transfer.Out; the outcome (frames, return,
//	                                              undelivered envelopes) is compared with the script's admissible outcomes,
//	                                              the events (octets) are written for Trace_XfrOut
//	xfrout record <events.ndjson> <n>             n random scripts (up to 6 envelopes, up to 12 records each), events only
//	xfrout judge <events.ndjson> <spec.ndjson>    second pass: crypto/hmac over the digest inputs Trace_XfrOut wrote
//
// Producer and Out are serialised without clocks: after every hand-over the producer waits until Out's goroutine is parked
// in the channel receive of Transfer.Out (runtime.Stack) or has returned.
package main

import (
	"bytes"
	"crypto/hmac"
	"crypto/sha256"
	"encoding/base64"
	"errors"
	"fmt"
	"math/rand"
	"os"
	"regexp"
	"runtime"
	"strconv"
	"strings"
	"sync"
	"time"

	"github.com/miekg/dns"

	"verifharness/lib/hx"
	"verifharness/lib/obsnet"
)

const (
	keyName   = "xfr-key."
	waitLimit = 10 * time.Second
)

var (
	secretRaw = []byte("0123456789abcdefghijklmnopqrstuv")
	secret    = base64.StdEncoding.EncodeToString(secretRaw)
	wrong     = base64.StdEncoding.EncodeToString([]byte("another secret, also 32 octets.."))
)

type Skel struct {
	Frames      int    `json:"frames"`
	Ret         string `json:"ret"`
	Undelivered int    `json:"undelivered"`
}

type Script struct {
	Sig    string   `json:"sig"`
	Kinds  []string `json:"kinds"`
	End    string   `json:"end"`
	FailAt int      `json:"failat"`
	Opcode int      `json:"opcode"`
	RD     bool     `json:"rd"`
	CD     bool     `json:"cd"`
	Outs   []Skel   `json:"outs,omitempty"`
	// record mode: explicit record counts per envelope (kinds "n")
	Counts []int `json:"counts,omitempty"`
}

type Event struct {
	Ev     string  `json:"ev"`
	I      int     `json:"i"`
	Octets *hx.B   `json:"octets,omitempty"`
	Sig    string  `json:"sig,omitempty"`
	FailAt *int    `json:"failat,omitempty"`
	RRs    *[]hx.B `json:"rrs,omitempty"`
	Err    *string `json:"err,omitempty"`
	EErr   *bool   `json:"-"`
	Big    *bool   `json:"big,omitempty"`
	Now    []int   `json:"now,omitempty"`
	Cls    string  `json:"cls"`
}

// sendEvent is a send event (its `err' is a BOOLEAN, unlike ret's text)
type sendEvent struct {
	Ev  string `json:"ev"`
	I   int    `json:"i"`
	RRs []hx.B `json:"rrs"`
	Err bool   `json:"err"`
	Big bool   `json:"big"`
	Cls string `json:"cls"`
}

func limbs48(t uint64) []int { return []int{int(t >> 32 & 0xffff), int(t >> 16 & 0xffff), int(t & 0xffff)} }
func sp(s string) *string    { return &s }
func ip(i int) *int          { return &i }

var idx int // event numbering across the whole run

type log struct {
	mu   sync.Mutex
	evs  []interface{}
	live bool
	cls  string
}

func (l *log) add(e interface{}) {
	l.mu.Lock()
	if l.live {
		l.evs = append(l.evs, e)
	}
	l.mu.Unlock()
}

var outRe = regexp.MustCompile(`(?s)goroutine \d+ \[([^\]]+)\]:[^\n]*\n(?:[^\n]+\n)*?github\.com/miekg/dns\.\(\*Transfer\)\.Out`)

// outState reports the scheduler state of the goroutine running Transfer.Out ("" if there is none).
func outState() string {
	buf := make([]byte, 1<<16)
	for {
		n := runtime.Stack(buf, true)
		if n < len(buf) {
			buf = buf[:n]
			break
		}
		buf = make([]byte, 2*len(buf))
	}
	for _, g := range bytes.Split(buf, []byte("\n\n")) {
		if bytes.Contains(g, []byte("dns.(*Transfer).Out(")) {
			if m := regexp.MustCompile(`^goroutine \d+ \[([^\],]+)`).FindSubmatch(g); m != nil {
				return string(m[1])
			}
		}
	}
	return ""
}

// settle waits until Out is parked in the channel receive ("blocked") or has returned ("returned").
func settle(returned <-chan struct{}) string {
	deadline := time.Now().Add(waitLimit)
	for {
		select {
		case <-returned:
			return "returned"
		default:
		}
		if outState() == "chan receive" {
			return "blocked"
		}
		if time.Now().After(deadline) {
			return "timeout"
		}
		time.Sleep(20 * time.Microsecond) // waiting for a condition, not measuring time
	}
}

func recordsOf(kind string, count int, rng *rand.Rand) []dns.RR {
	soa, _ := dns.NewRR("z. 3600 IN SOA ns.z. host.z. 2026092401 7200 3600 1209600 3600")
	a := func(i int) dns.RR {
		rr, _ := dns.NewRR(fmt.Sprintf("h%d.Z. 300 IN A 192.0.2.%d", i, i%256))
		return rr
	}
	txt := func(i int) dns.RR {
		rr, _ := dns.NewRR(fmt.Sprintf("t%d.z. 300 IN TXT \"v=%d\" \"second string\"", i, i))
		return rr
	}
	switch kind {
	case "r1", "errr":
		return []dns.RR{a(1)}
	case "r2":
		return []dns.RR{txt(2), a(2)}
	case "r3":
		return []dns.RR{soa, a(3), dns.Copy(soa)}
	case "big":
		var rrs []dns.RR
		for k := 0; k < 2; k++ {
			t := &dns.TXT{Hdr: dns.RR_Header{Name: "big.z.", Rrtype: dns.TypeTXT, Class: dns.ClassINET, Ttl: 1}}
			for j := 0; j < 129; j++ {
				t.Txt = append(t.Txt, strings.Repeat(string(rune('a'+k)), 255))
			}
			rrs = append(rrs, t)
		}
		return rrs
	case "n":
		var rrs []dns.RR
		for j := 0; j < count; j++ {
			switch rng.Intn(4) {
			case 0:
				rrs = append(rrs, dns.Copy(soa))
			case 1:
				rrs = append(rrs, txt(rng.Intn(1000)))
			default:
				rrs = append(rrs, a(rng.Intn(1000)))
			}
		}
		return rrs
	}
	return nil // empty, err
}

func packEach(rrs []dns.RR) []hx.B {
	out := []hx.B{}
	for _, rr := range rrs {
		buf := make([]byte, 70000)
		off, err := dns.PackRR(rr, buf, 0, nil, false)
		if err != nil {
			hx.Die("packing a record of the script: %v", err)
		}
		out = append(out, hx.FromBytes(buf[:off]))
	}
	return out
}

// runScript runs one script and returns the events and the observed outcome.
func runScript(sc *Script, rng *rand.Rand, sum *hx.Summary) ([]interface{}, Skel, bool) {
	lg := &log{live: true, cls: sc.Sig}
	var conn *obsnet.Conn
	nframes := 0
	sink := func(kind string, _ obsnet.Rel, n int) {
		switch kind {
		case "write":
			idx++
			nframes++
			lg.add(&Event{Ev: "frame", I: idx, Now: limbs48(uint64(time.Now().Unix())), Cls: sc.Sig, FailAt: ip(n)}) // FailAt carries the write index until the octets are filled in
		case "write-refused":
			idx++
			lg.add(&Event{Ev: "wfail", I: idx, Cls: sc.Sig})
		}
	}
	conn = obsnet.NewConn("x", sink)
	conn.FailWriteAt = sc.FailAt

	hung := ""
	var retErr error
	returned := make(chan struct{})
	handlerDone := make(chan struct{})
	handler := dns.HandlerFunc(func(w dns.ResponseWriter, req *dns.Msg) {
		defer close(handlerDone)
		ch := make(chan *dns.Envelope)
		tr := new(dns.Transfer)
		go func() {
			err := tr.Out(w, req, ch)
			retErr = err
			idx++
			t := ""
			if err != nil {
				t = "*"
			}
			lg.add(&Event{Ev: "ret", I: idx, Err: sp(t), Cls: sc.Sig})
			close(returned)
		}()
		if st := settle(returned); st == "timeout" {
			hung = "start"
			return
		}
		stuck := false
		for i, k := range sc.Kinds {
			cnt := 0
			if k == "n" {
				cnt = sc.Counts[i]
			}
			rrs := recordsOf(k, cnt, rng)
			env := &dns.Envelope{RR: rrs}
			if k == "err" || k == "errr" {
				env.Error = errors.New("the producer failed")
			}
			idx++
			se := &sendEvent{Ev: "send", I: idx, RRs: []hx.B{}, Err: env.Error != nil, Big: k == "big", Cls: sc.Sig}
			if k != "big" {
				se.RRs = packEach(rrs)
			}
			lg.add(se)
			select {
			case ch <- env:
			case <-returned:
				idx++
				lg.add(&Event{Ev: "stuck", I: idx, Cls: sc.Sig})
				stuck = true
			}
			if stuck {
				break
			}
			if st := settle(returned); st == "timeout" {
				hung = "after-envelope"
				return
			}
		}
		select {
		case <-returned:
		default:
			idx++
			lg.add(&Event{Ev: "blocked", I: idx, Cls: sc.Sig})
			if sc.End == "close" {
				idx++
				lg.add(&Event{Ev: "close", I: idx, Cls: sc.Sig})
				close(ch)
				select {
				case <-returned:
				case <-time.After(waitLimit):
					hung = "after-close"
				}
				return
			}
		}
		// the producer leaves (or Out is gone): what follows is only tidying up
		lg.mu.Lock()
		lg.live = false
		lg.mu.Unlock()
		select {
		case <-returned:
		default:
			close(ch)
			<-returned
		}
	})

	srv := &dns.Server{Handler: handler, ReadTimeout: time.Hour, IdleTimeout: func() time.Duration { return time.Hour }}
	if sc.Sig != "nokey" {
		srv.TsigSecret = map[string]string{keyName: secret}
	}
	ln := obsnet.NewListener()
	srv.Listener = ln
	started := make(chan struct{}, 1)
	srv.NotifyStartedFunc = func() { started <- struct{}{} }
	served := make(chan error, 1)
	go func() { served <- srv.ActivateAndServe() }()
	<-started

	// the request
	q := new(dns.Msg)
	q.SetAxfr("z.")
	q.Id = uint16(1 + rng.Intn(65535))
	q.Opcode, q.RecursionDesired, q.CheckingDisabled = sc.Opcode, sc.RD, sc.CD
	var qo []byte
	var err error
	switch sc.Sig {
	case "none":
		qo, err = q.Pack()
	default:
		q.SetTsig(keyName, dns.HmacSHA256, 300, time.Now().Unix())
		k := secret
		if sc.Sig == "bad" {
			k = wrong
		}
		qo, _, err = dns.TsigGenerate(q, k, "", false)
	}
	if err != nil {
		hx.Die("request: %v", err)
	}
	idx++
	b := hx.FromBytes(qo)
	lg.add(&Event{Ev: "req", I: idx, Octets: &b, Sig: sc.Sig, FailAt: ip(sc.FailAt), Cls: sc.Sig})
	ln.Connect(conn)
	fr := append([]byte{byte(len(qo) >> 8), byte(len(qo))}, qo...)
	conn.ClientSend(fr)
	select {
	case <-handlerDone:
	case <-time.After(2 * waitLimit):
		hung = "handler"
	}
	lg.mu.Lock()
	lg.live = false
	evs := lg.evs
	lg.mu.Unlock()
	conn.ClientClose()
	sd := make(chan struct{})
	go func() { srv.Shutdown(); close(sd) }()
	select {
	case <-sd:
		<-served
	case <-time.After(waitLimit):
		hung = "shutdown"
	}
	if hung != "" {
		sum.Mis("xfrout/hang:"+hung, "the run did not reach the awaited point within 10 s: "+hung, sc)
		return evs, Skel{}, false
	}
	// fill in the octets of the frames
	ws := conn.Writes()
	sk := Skel{Ret: "never"}
	sent := 0
	for _, e := range evs {
		switch x := e.(type) {
		case *Event:
			switch x.Ev {
			case "frame":
				o := hx.FromBytes(ws[*x.FailAt-1])
				x.Octets, x.FailAt = &o, nil
				sk.Frames++
			case "ret":
				sk.Ret = "nil"
				if *x.Err != "" {
					sk.Ret = "err"
				}
			}
		case *sendEvent:
			sent++
		}
	}
	consumed := sk.Frames
	if sk.Ret == "err" {
		consumed++
	}
	sk.Undelivered = len(sc.Kinds) - consumed
	_ = retErr
	return evs, sk, true
}

func run(vectors, out string, sum *hx.Summary) {
	rng := hx.Rand()
	w := hx.NewWriter(out)
	defer w.Close()
	hangs := 0
	hx.ReadNDJSON(vectors, func(i int, sc *Script) {
		if hangs >= 3 {
			return
		}
		evs, sk, ok := runScript(sc, rng, sum)
		sum.Evaluations++
		for _, e := range evs {
			w.Emit(e)
		}
		if !ok {
			hangs++
			return
		}
		admitted := false
		for _, o := range sc.Outs {
			if o == sk {
				admitted = true
			}
		}
		if !admitted {
			c := *sc
			sum.Mis(fmt.Sprintf("xfrout/outcome:%s:frames=%+d:ret=%s", sc.Sig, sk.Frames-sc.Outs[0].Frames, sk.Ret),
				fmt.Sprintf("observed %+v, the specification admits %+v", sk, sc.Outs), &c)
		}
		if i%401 == 0 {
			sum.Sample(map[string]interface{}{"script": sc, "observed": sk})
		}
	})
	sum.Nontrivial = sum.Evaluations
}

func record(out string, n int, sum *hx.Summary) {
	rng := hx.Rand()
	w := hx.NewWriter(out)
	defer w.Close()
	hangs := 0
	for i := 0; i < n; i++ {
		sc := &Script{Sig: []string{"good", "good", "good", "none", "bad", "nokey"}[rng.Intn(6)], End: []string{"close", "close", "leave"}[rng.Intn(3)],
			Opcode: []int{0, 0, 0, 4}[rng.Intn(4)], RD: rng.Intn(2) == 0, CD: rng.Intn(2) == 0}
		for k := rng.Intn(7); k > 0; k-- {
			switch rng.Intn(10) {
			case 0:
				sc.Kinds, sc.Counts = append(sc.Kinds, "empty"), append(sc.Counts, 0)
			case 1:
				sc.Kinds, sc.Counts = append(sc.Kinds, "err"), append(sc.Counts, 0)
			case 2:
				sc.Kinds, sc.Counts = append(sc.Kinds, "big"), append(sc.Counts, 0)
			default:
				sc.Kinds, sc.Counts = append(sc.Kinds, "n"), append(sc.Counts, 1+rng.Intn(12))
			}
		}
		if rng.Intn(4) == 0 && len(sc.Kinds) > 0 {
			sc.FailAt = 1 + rng.Intn(len(sc.Kinds))
		}
		evs, _, ok := runScript(sc, rng, sum)
		if !ok {
			if hangs++; hangs >= 3 {
				break
			}
		}
		for _, e := range evs {
			w.Emit(e)
		}
		sum.Evaluations += len(evs)
	}
	sum.Nontrivial = n
}

// judge: the MAC of every signed frame is HMAC-SHA256(secret, digest input of the specification).
func judge(events, spec string, sum *hx.Summary) {
	type line struct {
		I      int  `json:"i"`
		First  bool `json:"first"`
		Digest hx.B `json:"digest"`
		Mac    hx.B `json:"mac"`
	}
	frames := map[int]bool{}
	signedReq := map[int]bool{}
	cur := ""
	hx.ReadNDJSON(events, func(i int, e *struct {
		Ev  string `json:"ev"`
		I   int    `json:"i"`
		Sig string `json:"sig"`
	}) {
		if e.Ev == "req" {
			cur = e.Sig
		}
		if e.Ev == "frame" {
			frames[e.I] = true
			signedReq[e.I] = cur == "good"
		}
	})
	seen := map[int]bool{}
	hx.ReadNDJSON(spec, func(i int, l *line) {
		sum.Evaluations++
		seen[l.I] = true
		m := hmac.New(sha256.New, secretRaw)
		m.Write(l.Digest.Bytes())
		if !hmac.Equal(m.Sum(nil), l.Mac.Bytes()) {
			which := "later"
			if l.First {
				which = "first"
			}
			sum.Mis("xfrout/mac:"+which, fmt.Sprintf("frame event %d: the MAC on the wire is not HMAC-SHA256 over the specification's digest input (%s envelope of the answer)", l.I, which),
				map[string]interface{}{"event": l.I, "first": l.First})
		}
	})
	sum.Nontrivial = len(seen)
	sum.Note("frames", len(frames))
	sum.Note("macs_checked", len(seen))
}

func main() {
	if len(os.Args) < 4 {
		hx.Die("usage: xfrout run <vectors> <events> | record <events> <n> | judge <events> <spec>")
	}
	var sum hx.Summary
	switch os.Args[1] {
	case "run":
		run(os.Args[2], os.Args[3], &sum)
	case "record":
		n, _ := strconv.Atoi(os.Args[3])
		record(os.Args[2], n, &sum)
	case "judge":
		judge(os.Args[2], os.Args[3], &sum)
	default:
		hx.Die("unknown mode %s", os.Args[1])
	}
	sum.Print()
}

var _ = outRe
