// Package fakenet provides in-memory net.Listener, net.Conn and net.PacketConn
// implementations for driving dns.Server without sockets.
//
//   - every state change (accept, read result, SetReadDeadline(past|future|none),
//     write, close, client connect/send/close) is reported to an Observer while the
//     object's mutex is held, so the order of the reports on one object is the order
//     of the effects;
//   - read deadlines are honoured the way the net package does: a Read / ReadFrom that
//     is entered or blocked with a deadline in the past fails with a timeout error
//     (Timeout() and Temporary() true) even when data is available;
//   - a blocking call that is about to return first passes Observer.Gate (outside the
//     mutex), where a controller may hold it; the outcome is decided after the gate.
//
// The harness plays the clients through the Client* methods.
package fakenet

import (
	"errors"
	"io"
	"net"
	"os"
	"sync"
	"time"
	"unsafe"
)

// Observer receives the reports.  Event is called with the object's mutex held and
// must not block or call back into the object.  Gate is called without any mutex.
type Observer interface {
	Event(kind string, obj interface{}, arg string, n int)
	Gate(kind string, obj interface{})
}

type nopObserver struct{}

func (nopObserver) Event(string, interface{}, string, int) {}
func (nopObserver) Gate(string, interface{})               {}

// Deadline classes.
const (
	DLNone   = "none"
	DLPast   = "past"
	DLFuture = "future"
)

func classify(t time.Time) string {
	if t.IsZero() {
		return DLNone
	}
	if !t.After(time.Now()) {
		return DLPast
	}
	return DLFuture
}

type timeoutError struct{}

func (timeoutError) Error() string   { return "fakenet: i/o timeout" }
func (timeoutError) Timeout() bool   { return true }
func (timeoutError) Temporary() bool { return true }
func (timeoutError) Is(err error) bool {
	return err == os.ErrDeadlineExceeded
}

// ErrTimeout is returned by reads whose deadline is in the past.
var ErrTimeout net.Error = timeoutError{}

type closedError struct{}

func (closedError) Error() string   { return "fakenet: use of closed network connection" }
func (closedError) Timeout() bool   { return false }
func (closedError) Temporary() bool { return false }
func (closedError) Is(err error) bool {
	return err == net.ErrClosed
}

// ErrClosed is returned by operations on a closed listener or connection.
var ErrClosed net.Error = closedError{}

// Addr is a fake address.
type Addr string

func (a Addr) Network() string { return "fake" }
func (a Addr) String() string  { return string(a) }

// deadline is a read deadline with a wake-up for waiters.
type deadline struct {
	t     time.Time
	timer *time.Timer
}

func (d *deadline) set(t time.Time, cond *sync.Cond) {
	if d.timer != nil {
		d.timer.Stop()
		d.timer = nil
	}
	d.t = t
	if !t.IsZero() {
		if w := time.Until(t); w > 0 {
			d.timer = time.AfterFunc(w, func() {
				cond.L.Lock()
				cond.Broadcast()
				cond.L.Unlock()
			})
		}
	}
	cond.Broadcast()
}

func (d *deadline) expired() bool { return !d.t.IsZero() && !d.t.After(time.Now()) }

func (d *deadline) stop() {
	if d.timer != nil {
		d.timer.Stop()
		d.timer = nil
	}
}

// ---------------------------------------------------------------- Listener

// Listener is a net.Listener whose Accept returns the connections the harness pushes.
type Listener struct {
	ID  int
	obs Observer

	mu      sync.Mutex
	cond    *sync.Cond
	queue   []*Conn
	closed  bool
	waiting int
}

func NewListener(id int, obs Observer) *Listener {
	if obs == nil {
		obs = nopObserver{}
	}
	l := &Listener{ID: id, obs: obs}
	l.cond = sync.NewCond(&l.mu)
	return l
}

// Connect queues c for Accept (a client dials).  It fails when the listener is closed.
func (l *Listener) Connect(c *Conn) bool {
	l.mu.Lock()
	defer l.mu.Unlock()
	if l.closed {
		return false
	}
	l.queue = append(l.queue, c)
	l.obs.Event("cli.connect", l, "", c.ID)
	l.cond.Broadcast()
	return true
}

func (l *Listener) Accept() (net.Conn, error) {
	l.mu.Lock()
	l.waiting++
	for !l.closed && len(l.queue) == 0 {
		l.cond.Wait()
	}
	l.waiting--
	l.mu.Unlock()

	l.obs.Gate("lsn.accept", l)

	l.mu.Lock()
	defer l.mu.Unlock()
	if l.closed { // like the net package: a closed listener fails even with a backlog
		l.obs.Event("lsn.accept", l, "closed", 0)
		return nil, ErrClosed
	}
	if len(l.queue) == 0 { // cannot happen: only Accept dequeues and there is one acceptor
		l.obs.Event("lsn.accept", l, "closed", 0)
		return nil, ErrClosed
	}
	c := l.queue[0]
	l.queue = l.queue[1:]
	l.obs.Event("lsn.accept", l, "ok", c.ID)
	return c, nil
}

func (l *Listener) Close() error {
	l.mu.Lock()
	defer l.mu.Unlock()
	if l.closed {
		l.obs.Event("lsn.close", l, "again", 0)
		return ErrClosed
	}
	l.closed = true
	l.obs.Event("lsn.close", l, "", 0)
	l.cond.Broadcast()
	return nil
}

func (l *Listener) Addr() net.Addr { return Addr("fake-listener") }

// Closed reports whether Close was called.
func (l *Listener) Closed() bool {
	l.mu.Lock()
	defer l.mu.Unlock()
	return l.closed
}

// Backlog returns the connections queued and never accepted.
func (l *Listener) Backlog() int {
	l.mu.Lock()
	defer l.mu.Unlock()
	return len(l.queue)
}

// ---------------------------------------------------------------- Conn

// Conn is the server side of a fake stream connection; the harness is the client.
type Conn struct {
	ID  int
	obs Observer
	wd  time.Time // write deadline (zero: none)

	mu        sync.Mutex
	cond      *sync.Cond
	inbox     [][]byte // whole messages written by the client (already framed)
	cur       []byte   // rest of the message being read
	out       [][]byte // what the server wrote
	closed    bool     // server side closed
	cliClosed bool     // client side closed
	rd        deadline
	reads     int
}

func NewConn(id int, obs Observer) *Conn {
	if obs == nil {
		obs = nopObserver{}
	}
	c := &Conn{ID: id, obs: obs}
	c.cond = sync.NewCond(&c.mu)
	return c
}

// ClientSend makes one whole message (as it travels on the stream) readable.
func (c *Conn) ClientSend(stream []byte) bool {
	c.mu.Lock()
	defer c.mu.Unlock()
	if c.cliClosed {
		return false
	}
	c.inbox = append(c.inbox, append([]byte(nil), stream...))
	c.obs.Event("cli.send", c, "", len(c.inbox))
	c.cond.Broadcast()
	return true
}

// ClientClose closes the client's end: the server reads EOF after the queued data.
func (c *Conn) ClientClose() {
	c.mu.Lock()
	defer c.mu.Unlock()
	if c.cliClosed {
		return
	}
	c.cliClosed = true
	c.obs.Event("cli.close", c, "", 0)
	c.cond.Broadcast()
}

// ClientRecv returns what the server has written so far and forgets it.
func (c *Conn) ClientRecv() [][]byte {
	c.mu.Lock()
	defer c.mu.Unlock()
	o := c.out
	c.out = nil
	return o
}

func (c *Conn) readable() bool {
	return c.closed || c.rd.expired() || len(c.cur) > 0 || len(c.inbox) > 0 || c.cliClosed
}

func (c *Conn) Read(b []byte) (int, error) {
	c.mu.Lock()
	if len(c.cur) > 0 { // the rest of a message whose start was already reported
		n := copy(b, c.cur)
		c.cur = c.cur[n:]
		c.mu.Unlock()
		return n, nil
	}
	for !c.readable() {
		c.cond.Wait()
	}
	c.mu.Unlock()

	c.obs.Gate("conn.read", c)

	c.mu.Lock()
	defer c.mu.Unlock()
	for !c.readable() { // the reason may have gone (deadline moved again)
		c.cond.Wait()
	}
	switch {
	case c.closed:
		c.obs.Event("conn.read", c, "closed", 0)
		return 0, ErrClosed
	case c.rd.expired():
		c.obs.Event("conn.read", c, "timeout", 0)
		return 0, ErrTimeout
	case len(c.inbox) > 0:
		c.cur = c.inbox[0]
		c.inbox = c.inbox[1:]
		c.reads++
		c.obs.Event("conn.read", c, "ok", c.reads)
		n := copy(b, c.cur)
		c.cur = c.cur[n:]
		return n, nil
	default:
		c.obs.Event("conn.read", c, "eof", 0)
		return 0, io.EOF
	}
}

func (c *Conn) Write(b []byte) (int, error) {
	c.mu.Lock()
	defer c.mu.Unlock()
	if c.closed {
		c.obs.Event("conn.write", c, "closed", 0)
		return 0, ErrClosed
	}
	if c.cliClosed {
		c.obs.Event("conn.write", c, "peer-closed", 0)
		return 0, errors.New("fakenet: broken pipe")
	}
	if !c.wd.IsZero() && !time.Now().Before(c.wd) {
		// like the net package: a write after the write deadline fails, nothing goes out
		c.obs.Event("conn.write", c, "timeout", 0)
		return 0, ErrTimeout
	}
	c.out = append(c.out, append([]byte(nil), b...))
	c.obs.Event("conn.write", c, "ok", len(b))
	return len(b), nil
}

func (c *Conn) Close() error {
	c.mu.Lock()
	defer c.mu.Unlock()
	if c.closed {
		return ErrClosed
	}
	c.closed = true
	c.rd.stop()
	c.obs.Event("conn.close", c, "", 0)
	c.cond.Broadcast()
	return nil
}

func (c *Conn) SetReadDeadline(t time.Time) error {
	c.mu.Lock()
	defer c.mu.Unlock()
	if c.closed { // reported all the same: the caller did move the deadline as far as it knows
		c.obs.Event("conn.setdl", c, classify(t), 1)
		return ErrClosed
	}
	c.rd.set(t, c.cond)
	c.obs.Event("conn.setdl", c, classify(t), 0)
	return nil
}

func (c *Conn) SetDeadline(t time.Time) error {
	c.SetWriteDeadline(t)
	return c.SetReadDeadline(t)
}

// SetWriteDeadline: writes never block here, so a deadline matters only once it has passed -- every later Write fails
// with a timeout (event conn.write "timeout"), as on a real connection.
func (c *Conn) SetWriteDeadline(t time.Time) error {
	c.mu.Lock()
	c.wd = t
	c.mu.Unlock()
	return nil
}
func (c *Conn) LocalAddr() net.Addr  { return Addr("fake-server") }
func (c *Conn) RemoteAddr() net.Addr { return Addr("fake-client") }

// State is a snapshot for projections.
type ConnState struct {
	Closed, ClientClosed bool
	Deadline             string
	Unread, Written      int
}

func (c *Conn) State() ConnState {
	c.mu.Lock()
	defer c.mu.Unlock()
	n := len(c.inbox)
	return ConnState{Closed: c.closed, ClientClosed: c.cliClosed, Deadline: classify(c.rd.t), Unread: n, Written: len(c.out)}
}

// ---------------------------------------------------------------- PacketConn

type packet struct {
	data []byte
	id   int
}

// Reply is one datagram the server wrote.
type Reply struct {
	Data []byte
	To   net.Addr
}

// PacketConn is a generic net.PacketConn (deliberately not a *net.UDPConn, so the
// server takes its readPacketConn path).
type PacketConn struct {
	ID  int
	obs Observer
	wd  time.Time // write deadline (zero: none)

	mu     sync.Mutex
	cond   *sync.Cond
	inbox  []packet
	out    []Reply
	closed bool
	rd     deadline
	sent   int
	// BufOf maps the identity of the buffer a packet was read into to the packet id.
	bufOf map[uintptr]int
}

func NewPacketConn(id int, obs Observer) *PacketConn {
	if obs == nil {
		obs = nopObserver{}
	}
	p := &PacketConn{ID: id, obs: obs, bufOf: map[uintptr]int{}}
	p.cond = sync.NewCond(&p.mu)
	return p
}

// ClientSend queues one datagram; the returned id numbers the datagrams from 1.
func (p *PacketConn) ClientSend(data []byte) int {
	p.mu.Lock()
	defer p.mu.Unlock()
	if p.closed {
		return 0
	}
	p.sent++
	p.inbox = append(p.inbox, packet{append([]byte(nil), data...), p.sent})
	p.obs.Event("cli.pkt", p, "", p.sent)
	p.cond.Broadcast()
	return p.sent
}

func (p *PacketConn) ClientRecv() []Reply {
	p.mu.Lock()
	defer p.mu.Unlock()
	o := p.out
	p.out = nil
	return o
}

func (p *PacketConn) readable() bool { return p.closed || p.rd.expired() || len(p.inbox) > 0 }

func (p *PacketConn) ReadFrom(b []byte) (int, net.Addr, error) {
	p.mu.Lock()
	for !p.readable() {
		p.cond.Wait()
	}
	p.mu.Unlock()

	p.obs.Gate("pc.read", p)

	p.mu.Lock()
	defer p.mu.Unlock()
	for !p.readable() {
		p.cond.Wait()
	}
	switch {
	case p.closed:
		p.obs.Event("pc.read", p, "closed", 0)
		return 0, nil, ErrClosed
	case p.rd.expired():
		p.obs.Event("pc.read", p, "timeout", 0)
		return 0, nil, ErrTimeout
	default:
		pk := p.inbox[0]
		p.inbox = p.inbox[1:]
		n := copy(b, pk.data)
		if cap(b) > 0 {
			p.bufOf[uintptr(unsafe.Pointer(unsafe.SliceData(b)))] = pk.id
		}
		p.obs.Event("pc.read", p, "ok", pk.id)
		return n, Addr("fake-client"), nil
	}
}

// PacketOfBuf returns the id of the packet last read into the buffer whose backing
// array starts at ptr (dns.VerifBufID), 0 if none.
func (p *PacketConn) PacketOfBuf(ptr uintptr) int {
	p.mu.Lock()
	defer p.mu.Unlock()
	return p.bufOf[ptr]
}

func (p *PacketConn) WriteTo(b []byte, addr net.Addr) (int, error) {
	p.mu.Lock()
	defer p.mu.Unlock()
	if p.closed {
		p.obs.Event("pc.write", p, "closed", 0)
		return 0, ErrClosed
	}
	if !p.wd.IsZero() && !time.Now().Before(p.wd) {
		p.obs.Event("pc.write", p, "timeout", 0)
		return 0, ErrTimeout
	}
	p.out = append(p.out, Reply{append([]byte(nil), b...), addr})
	p.obs.Event("pc.write", p, "ok", len(b))
	return len(b), nil
}

func (p *PacketConn) Close() error {
	p.mu.Lock()
	defer p.mu.Unlock()
	if p.closed {
		p.obs.Event("pc.close", p, "again", 0)
		return ErrClosed
	}
	p.closed = true
	p.rd.stop()
	p.obs.Event("pc.close", p, "", 0)
	p.cond.Broadcast()
	return nil
}

func (p *PacketConn) SetReadDeadline(t time.Time) error {
	p.mu.Lock()
	defer p.mu.Unlock()
	if p.closed {
		p.obs.Event("pc.setdl", p, classify(t), 1)
		return ErrClosed
	}
	p.rd.set(t, p.cond)
	p.obs.Event("pc.setdl", p, classify(t), 0)
	return nil
}

func (p *PacketConn) SetDeadline(t time.Time) error {
	p.SetWriteDeadline(t)
	return p.SetReadDeadline(t)
}

// SetWriteDeadline: see Conn.SetWriteDeadline (event pc.write "timeout").
func (p *PacketConn) SetWriteDeadline(t time.Time) error {
	p.mu.Lock()
	p.wd = t
	p.mu.Unlock()
	return nil
}
func (p *PacketConn) LocalAddr() net.Addr { return Addr("fake-packetconn") }

type PacketConnState struct {
	Closed   bool
	Deadline string
	Unread   int
}

func (p *PacketConn) State() PacketConnState {
	p.mu.Lock()
	defer p.mu.Unlock()
	return PacketConnState{Closed: p.closed, Deadline: classify(p.rd.t), Unread: len(p.inbox)}
}
