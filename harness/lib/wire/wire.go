// Package wire binds the abstract messages of spec/WireRR.tla to values of the
// miekg/dns API.
//
// The wire layout is stated once, in TLA+.  This package reads the exported layout
// tables (Gen_WireRR, Mode "layout") and uses them to
//
//	Build   an abstract message -> *dns.Msg, field by field, *by Go field name*
//	        (reflection over the struct dns.TypeToRR names for the type code);
//	Project a *dns.Msg -> abstract message (the inverse).
//
// What is written here is only how the Go API *spells* a value of each kind
// (names and character-strings as presentation text, opaque data as hex/base64
// text, addresses as net.IP, ...), never where a field sits on the wire.
package wire

import (
	"bytes"
	"encoding/base32"
	"encoding/base64"
	"encoding/hex"
	"encoding/json"
	"fmt"
	"net"
	"os"
	"reflect"
	"sort"
	"strings"

	"github.com/miekg/dns"

	"verifharness/lib/hx"
)

// ---------------------------------------------------------------- layout tables

type Entry struct {
	N    string `json:"n"`
	K    string `json:"k"`
	Sz   string `json:"sz,omitempty"`   // sized by this (earlier) integer field
	Of   string `json:"of,omitempty"`   // gateway: selector field
	Mod  int    `json:"mod,omitempty"`  // gateway: selector modulus
	Addr string `json:"addr,omitempty"` // gateway: Go field that holds the address forms
	Flag string `json:"flag,omitempty"` // u32e: Go BOOLEAN field that spells absence
}

type TypeLayout struct {
	T      int     `json:"t"`
	Name   string  `json:"name"`
	Fields []Entry `json:"fields"`
}

type Layout struct {
	Types       []TypeLayout `json:"types"`
	Unknown     []Entry      `json:"unknown"`
	Opts        []TypeLayout `json:"opts"`
	OptDefault  []Entry      `json:"optdefault"`
	Svcb        []TypeLayout `json:"svcb"`
	SvcbDefault []Entry      `json:"svcbdefault"`

	// NilLists: Build leaves an empty list as the nil slice instead of an empty non-nil one (both spell "no elements")
	NilLists bool

	byType map[int]*TypeLayout
	byOpt  map[int][]Entry
	bySvcb map[int][]Entry
}

func LoadLayout(path string) *Layout {
	var l *Layout
	hx.ReadNDJSON(path, func(i int, v *Layout) { l = v })
	if l == nil || len(l.Types) == 0 {
		hx.Die("layout file %s holds no layout", path)
	}
	l.byType, l.byOpt, l.bySvcb = map[int]*TypeLayout{}, map[int][]Entry{}, map[int][]Entry{}
	for i := range l.Types {
		l.byType[l.Types[i].T] = &l.Types[i]
	}
	for _, o := range l.Opts {
		l.byOpt[o.T] = o.Fields
	}
	for _, o := range l.Svcb {
		l.bySvcb[o.T] = o.Fields
	}
	return l
}

func (l *Layout) Known(t int) bool { _, ok := l.byType[t]; return ok }

func (l *Layout) FieldsOf(t int) []Entry {
	if tl, ok := l.byType[t]; ok {
		return tl.Fields
	}
	return l.Unknown
}

// Mnemonic names a type for finding keys.
func (l *Layout) Mnemonic(t int) string {
	if tl, ok := l.byType[t]; ok {
		return tl.Name
	}
	return fmt.Sprintf("TYPE%d", t)
}

func (l *Layout) OptFields(code int) []Entry {
	if f, ok := l.byOpt[code]; ok {
		return f
	}
	return l.OptDefault
}

func (l *Layout) SvcbFields(key int) []Entry {
	if f, ok := l.bySvcb[key]; ok {
		return f
	}
	return l.SvcbDefault
}

// ---------------------------------------------------------------- abstract values

type Hdr struct {
	Id     int  `json:"id"`
	Qr     bool `json:"qr"`
	Opcode int  `json:"opcode"`
	Aa     bool `json:"aa"`
	Tc     bool `json:"tc"`
	Rd     bool `json:"rd"`
	Ra     bool `json:"ra"`
	Z      bool `json:"z"`
	Ad     bool `json:"ad"`
	Cd     bool `json:"cd"`
	Rcode  int  `json:"rcode"`
}

type Q struct {
	Name   []hx.B `json:"name"`
	Qtype  int    `json:"qtype"`
	Qclass int    `json:"qclass"`
}

// Fields is the record  Go field name |-> value.  TLC writes the empty record as [].
type Fields map[string]interface{}

func (f *Fields) UnmarshalJSON(b []byte) error {
	t := bytes.TrimSpace(b)
	if len(t) > 0 && t[0] == '[' {
		*f = Fields{}
		return nil
	}
	m := map[string]interface{}{}
	if err := json.Unmarshal(b, &m); err != nil {
		return err
	}
	*f = m
	return nil
}

type RR struct {
	Name   []hx.B `json:"name"`
	Type   int    `json:"type"`
	Class  int    `json:"class"`
	Ttl    hx.B   `json:"ttl"`
	Nodata bool   `json:"nodata"`
	F      Fields `json:"f"`
}

type Msg struct {
	Hdr Hdr  `json:"hdr"`
	Q   []Q  `json:"q"`
	An  []RR `json:"an"`
	Ns  []RR `json:"ns"`
	Ar  []RR `json:"ar"`
}

func (m *Msg) RRs() []*RR {
	var out []*RR
	for _, s := range [][]RR{m.An, m.Ns, m.Ar} {
		for i := range s {
			out = append(out, &s[i])
		}
	}
	return out
}

// Normalize passes a natively built abstract value through JSON so that it has the
// same dynamic types as one read from a vector file.
func Normalize[T any](v *T) *T {
	b, err := json.Marshal(v)
	if err != nil {
		hx.Die("normalize: %v", err)
	}
	b = bytes.ReplaceAll(b, []byte(":null"), []byte(":[]"))
	var out T
	if err := json.Unmarshal(b, &out); err != nil {
		hx.Die("normalize: %v", err)
	}
	return &out
}

// Canon is a canonical text of an abstract value: equal values <=> equal texts.
func Canon(v interface{}) string {
	b, err := json.Marshal(v)
	if err != nil {
		hx.Die("canon: %v", err)
	}
	var g interface{}
	if err := json.Unmarshal(b, &g); err != nil {
		hx.Die("canon: %v", err)
	}
	b, _ = json.Marshal(g) // maps are written with sorted keys
	s := string(b)
	s = strings.ReplaceAll(s, "null", "[]")
	s = strings.ReplaceAll(s, "{}", "[]")
	return s
}

// ---------------------------------------------------------------- dynamic value access (JSON shapes)

type badValue struct{ msg string }

func bad(f string, a ...interface{}) { panic(badValue{fmt.Sprintf(f, a...)}) }

func asInt(v interface{}) int {
	switch x := v.(type) {
	case float64:
		return int(x)
	case int:
		return x
	}
	bad("not an integer: %v", v)
	return 0
}

func asSeq(v interface{}) []interface{} {
	switch x := v.(type) {
	case []interface{}:
		return x
	case nil:
		return nil
	case map[string]interface{}:
		if len(x) == 0 {
			return nil
		}
	case Fields:
		if len(x) == 0 {
			return nil
		}
	}
	bad("not a sequence: %v", v)
	return nil
}

func asMap(v interface{}) map[string]interface{} {
	switch x := v.(type) {
	case map[string]interface{}:
		return x
	case Fields:
		return x
	case []interface{}:
		if len(x) == 0 {
			return map[string]interface{}{}
		}
	case nil:
		return map[string]interface{}{}
	}
	bad("not a record: %v", v)
	return nil
}

func asBytes(v interface{}) []byte {
	s := asSeq(v)
	b := make([]byte, len(s))
	for i, x := range s {
		n := asInt(x)
		if n < 0 || n > 255 {
			bad("not an octet: %d", n)
		}
		b[i] = byte(n)
	}
	return b
}

func asByteSeqs(v interface{}) [][]byte {
	s := asSeq(v)
	out := make([][]byte, len(s))
	for i, x := range s {
		out[i] = asBytes(x)
	}
	return out
}

func beUint(b []byte) uint64 {
	var v uint64
	for _, c := range b {
		v = v<<8 | uint64(c)
	}
	return v
}

func beBytes(v uint64, n int) hx.B {
	out := make(hx.B, n)
	for i := n - 1; i >= 0; i-- {
		out[i] = int(v & 0xff)
		v >>= 8
	}
	return out
}

func labelsOf(n []hx.B) [][]byte {
	out := make([][]byte, len(n))
	for i, l := range n {
		out[i] = l.Bytes()
	}
	return out
}

func toLabels(ls [][]byte) []hx.B {
	out := make([]hx.B, len(ls))
	for i, l := range ls {
		out[i] = hx.FromBytes(l)
	}
	return out
}

// ---------------------------------------------------------------- how the Go API spells values

// PresentName writes a name in RFC 1035 s.5.1 presentation form: labels separated and
// terminated by dots; a backslash before characters that are special in zone files;
// \DDD for octets outside the printable ASCII range.
func PresentName(labels [][]byte) string {
	if len(labels) == 0 {
		return "."
	}
	var sb strings.Builder
	for _, l := range labels {
		for _, c := range l {
			switch {
			case c == '.' || c == ' ' || c == '\'' || c == '@' || c == ';' || c == '(' || c == ')' || c == '"' || c == '\\':
				sb.WriteByte('\\')
				sb.WriteByte(c)
			case c < 0x21 || c > 0x7e:
				fmt.Fprintf(&sb, "\\%03d", c)
			default:
				sb.WriteByte(c)
			}
		}
		sb.WriteByte('.')
	}
	return sb.String()
}

// ParseName reads RFC 1035 s.5.1 text of a fully qualified name: \DDD is the octet with
// that decimal value, \X is X, an unescaped dot ends a label.
func ParseName(s string) ([][]byte, error) {
	if s == "." {
		return [][]byte{}, nil
	}
	if s == "" {
		return nil, fmt.Errorf("empty name")
	}
	labels := [][]byte{}
	cur := []byte{}
	for i := 0; i < len(s); i++ {
		c := s[i]
		switch {
		case c == '\\':
			if i+3 < len(s) && isDigit(s[i+1]) && isDigit(s[i+2]) && isDigit(s[i+3]) {
				v := int(s[i+1]-'0')*100 + int(s[i+2]-'0')*10 + int(s[i+3]-'0')
				if v > 255 {
					return nil, fmt.Errorf("escape > 255 in %q", s)
				}
				cur = append(cur, byte(v))
				i += 3
			} else if i+1 < len(s) && !isDigit(s[i+1]) {
				cur = append(cur, s[i+1])
				i++
			} else {
				return nil, fmt.Errorf("bad escape in %q", s)
			}
		case c == '.':
			if len(cur) == 0 {
				return nil, fmt.Errorf("empty label in %q", s)
			}
			labels = append(labels, cur)
			cur = []byte{}
		default:
			cur = append(cur, c)
		}
	}
	if len(cur) != 0 {
		return nil, fmt.Errorf("name %q is not fully qualified", s)
	}
	return labels, nil
}

func isDigit(c byte) bool { return c >= '0' && c <= '9' }

// PresentStr spells a <character-string> the way the library keeps TXT-like strings:
// backslash before " and \, \DDD for octets outside printable ASCII.
func PresentStr(b []byte) string {
	var sb strings.Builder
	for _, c := range b {
		switch {
		case c == '"' || c == '\\':
			sb.WriteByte('\\')
			sb.WriteByte(c)
		case c < 0x20 || c > 0x7e:
			fmt.Fprintf(&sb, "\\%03d", c)
		default:
			sb.WriteByte(c)
		}
	}
	return sb.String()
}

// PresentOctet spells the text form of CAA values / URI targets (dns:"octet"): like a
// character-string, only the backslash itself has to be escaped.
func PresentOctet(b []byte) string {
	return strings.ReplaceAll(string(b), "\\", "\\\\")
}

// ParseStr undoes PresentStr / PresentOctet: \DDD and \X.
func ParseStr(s string) ([]byte, error) {
	out := []byte{}
	for i := 0; i < len(s); i++ {
		c := s[i]
		if c != '\\' {
			out = append(out, c)
			continue
		}
		if i+3 < len(s) && isDigit(s[i+1]) && isDigit(s[i+2]) && isDigit(s[i+3]) {
			v := int(s[i+1]-'0')*100 + int(s[i+2]-'0')*10 + int(s[i+3]-'0')
			if v > 255 {
				return nil, fmt.Errorf("escape > 255 in %q", s)
			}
			out = append(out, byte(v))
			i += 3
		} else if i+1 < len(s) {
			out = append(out, s[i+1])
			i++
		} else {
			return nil, fmt.Errorf("dangling backslash in %q", s)
		}
	}
	return out, nil
}

var b32 = base32.HexEncoding.WithPadding(base32.NoPadding)

// ---------------------------------------------------------------- EDNS0 options and SVCB parameters: code -> Go type

func newOption(code int) dns.EDNS0 {
	switch uint16(code) {
	case dns.EDNS0LLQ:
		return new(dns.EDNS0_LLQ)
	case dns.EDNS0UL:
		return new(dns.EDNS0_UL)
	case dns.EDNS0NSID:
		return new(dns.EDNS0_NSID)
	case dns.EDNS0ESU:
		return new(dns.EDNS0_ESU)
	case dns.EDNS0DAU:
		return new(dns.EDNS0_DAU)
	case dns.EDNS0DHU:
		return new(dns.EDNS0_DHU)
	case dns.EDNS0N3U:
		return new(dns.EDNS0_N3U)
	case dns.EDNS0SUBNET:
		return new(dns.EDNS0_SUBNET)
	case dns.EDNS0EXPIRE:
		return new(dns.EDNS0_EXPIRE)
	case dns.EDNS0COOKIE:
		return new(dns.EDNS0_COOKIE)
	case dns.EDNS0TCPKEEPALIVE:
		return new(dns.EDNS0_TCP_KEEPALIVE)
	case dns.EDNS0PADDING:
		return new(dns.EDNS0_PADDING)
	case dns.EDNS0EDE:
		return new(dns.EDNS0_EDE)
	case dns.EDNS0REPORTING:
		return new(dns.EDNS0_REPORTING)
	case dns.EDNS0ZONEVERSION:
		return new(dns.EDNS0_ZONEVERSION)
	}
	return &dns.EDNS0_LOCAL{Code: uint16(code)}
}

func newSvcParam(key int) dns.SVCBKeyValue {
	switch dns.SVCBKey(key) {
	case dns.SVCB_MANDATORY:
		return new(dns.SVCBMandatory)
	case dns.SVCB_ALPN:
		return new(dns.SVCBAlpn)
	case dns.SVCB_NO_DEFAULT_ALPN:
		return new(dns.SVCBNoDefaultAlpn)
	case dns.SVCB_PORT:
		return new(dns.SVCBPort)
	case dns.SVCB_IPV4HINT:
		return new(dns.SVCBIPv4Hint)
	case dns.SVCB_ECHCONFIG:
		return new(dns.SVCBECHConfig)
	case dns.SVCB_IPV6HINT:
		return new(dns.SVCBIPv6Hint)
	case dns.SVCB_DOHPATH:
		return new(dns.SVCBDoHPath)
	case dns.SVCB_OHTTP:
		return new(dns.SVCBOhttp)
	}
	return &dns.SVCBLocal{KeyCode: dns.SVCBKey(key)}
}

// ---------------------------------------------------------------- a private type (PrivateHandle)

// PrivType is registered by RegisterPrivate: its RDATA is opaque, abstract field "Rdata".
const PrivType = 65280

type PrivData struct{ B []byte }

func (p *PrivData) String() string { return hex.EncodeToString(p.B) }
func (p *PrivData) Parse(t []string) error {
	b, err := hex.DecodeString(strings.Join(t, ""))
	p.B = b
	return err
}
func (p *PrivData) Pack(buf []byte) (int, error) {
	if len(buf) < len(p.B) {
		return 0, dns.ErrBuf
	}
	return copy(buf, p.B), nil
}
func (p *PrivData) Unpack(buf []byte) (int, error) {
	p.B = append([]byte(nil), buf...)
	return len(buf), nil
}
func (p *PrivData) Copy(dst dns.PrivateRdata) error {
	d, ok := dst.(*PrivData)
	if !ok {
		return fmt.Errorf("not a PrivData")
	}
	d.B = append([]byte(nil), p.B...)
	return nil
}
func (p *PrivData) Len() int { return len(p.B) }

func RegisterPrivate() {
	dns.PrivateHandle("VERIFPRIV", PrivType, func() dns.PrivateRdata { return new(PrivData) })
}

// ---------------------------------------------------------------- Build: abstract -> Go

// Inexpressible reports why the Go API has no value for the abstract record (the
// optional part is present-but-zero or absent in a way the struct cannot say), or "".
func (l *Layout) Inexpressible(a *RR) (why string) {
	if a.Nodata {
		return ""
	}
	defer func() {
		if r := recover(); r != nil {
			why = ""
		}
	}()
	for _, e := range l.FieldsOf(a.Type) {
		switch e.K {
		case "ostr":
			if len(asSeq(a.F[e.N])) == 0 {
				return "absent optional string (Go has only the empty string)"
			}
		case "opts":
			for _, o := range asSeq(a.F[e.N]) {
				om := asMap(o)
				for _, oe := range l.OptFields(asInt(om["code"])) {
					if oe.K == "u16opt" {
						s := asSeq(asMap(om["f"])[oe.N])
						if len(s) == 1 && asInt(s[0]) == 0 {
							return "optional integer present with value 0 (Go spells absence as 0)"
						}
					}
				}
			}
		}
	}
	return ""
}

// BuildRR makes the Go record for an abstract record.  An error means the harness could
// not express the value (infrastructure), never a verdict.
func (l *Layout) BuildRR(a *RR) (rr dns.RR, err error) {
	defer func() {
		if r := recover(); r != nil {
			if bv, ok := r.(badValue); ok {
				rr, err = nil, fmt.Errorf("build %s: %s", l.Mnemonic(a.Type), bv.msg)
				return
			}
			panic(r)
		}
	}()
	if len(a.Ttl) != 4 {
		bad("ttl is not 4 octets")
	}
	h := dns.RR_Header{Name: PresentName(labelsOf(a.Name)), Rrtype: uint16(a.Type), Class: uint16(a.Class), Ttl: uint32(beUint(a.Ttl.Bytes()))}
	if a.Nodata {
		// the library's own spelling of an RDATA-less record of any type (update.go)
		return &dns.ANY{Hdr: h}, nil
	}
	if mk, ok := dns.TypeToRR[uint16(a.Type)]; ok {
		rr = mk()
	} else {
		rr = new(dns.RFC3597)
	}
	*rr.Header() = h
	if p, ok := rr.(*dns.PrivateRR); ok {
		p.Data = &PrivData{B: asBytes(a.F["Rdata"])}
		return rr, nil
	}
	l.setFields(reflect.ValueOf(rr).Elem(), l.FieldsOf(a.Type), a.F)
	return rr, nil
}

func field(sv reflect.Value, name string) reflect.Value {
	fv := sv.FieldByName(name)
	if !fv.IsValid() {
		bad("Go type %s has no field %q named by the layout", sv.Type(), name)
	}
	return fv
}

func (l *Layout) setFields(sv reflect.Value, es []Entry, f map[string]interface{}) {
	for _, e := range es {
		v, ok := f[e.N]
		if !ok {
			bad("abstract record lacks field %q", e.N)
		}
		l.setField(sv, e, v, f)
	}
}

func strSlice(bs [][]byte, spell func([]byte) string) []string {
	out := make([]string, len(bs))
	for i, b := range bs {
		out[i] = spell(b)
	}
	return out
}

var listKinds = map[string]bool{"strs": true, "lstrs": true, "names": true, "bitmap": true, "bitmap0": true, "u16list": true,
	"alist": true, "aaaalist": true, "apl": true, "opts": true, "svcb": true}

func (l *Layout) setField(sv reflect.Value, e Entry, v interface{}, f map[string]interface{}) {
	fv := field(sv, e.N)
	if l.NilLists && listKinds[e.K] && len(asSeq(v)) == 0 {
		return // the zero value: a nil slice
	}
	switch e.K {
	case "u8", "u16":
		fv.SetUint(uint64(asInt(v)))
	case "u32", "u48", "u64", "u32z":
		fv.SetUint(beUint(asBytes(v)))
	case "u32e":
		b := asBytes(v)
		if len(b) == 0 {
			field(sv, e.Flag).SetBool(true)
		} else {
			fv.SetUint(beUint(b))
		}
	case "u16opt":
		if s := asSeq(v); len(s) == 1 {
			fv.SetUint(uint64(asInt(s[0])))
		}
	case "a", "aaaa", "prefixaddr":
		fv.Set(reflect.ValueOf(net.IP(asBytes(v))))
	case "name", "cname":
		fv.SetString(PresentName(asByteSeqs(v)))
	case "str":
		fv.SetString(PresentStr(asBytes(v)))
	case "ostr":
		if s := asByteSeqs(v); len(s) == 1 {
			fv.SetString(PresentStr(s[0]))
		}
	case "strs":
		fv.Set(reflect.ValueOf(strSlice(asByteSeqs(v), PresentStr)))
	case "lstrs":
		fv.Set(reflect.ValueOf(strSlice(asByteSeqs(v), func(b []byte) string { return string(b) })))
	case "hex":
		fv.SetString(hex.EncodeToString(asBytes(v)))
	case "b64":
		fv.SetString(base64.StdEncoding.EncodeToString(asBytes(v)))
	case "b32":
		fv.SetString(b32.EncodeToString(asBytes(v)))
	case "raw":
		fv.SetString(string(asBytes(v)))
	case "octet":
		fv.SetString(PresentOctet(asBytes(v)))
	case "bytes":
		if fv.Kind() == reflect.String {
			fv.SetString(string(asBytes(v)))
		} else {
			fv.SetBytes(asBytes(v))
		}
	case "bitmap", "bitmap0", "u16list":
		s := asSeq(v)
		sl := reflect.MakeSlice(fv.Type(), len(s), len(s))
		for i, x := range s {
			sl.Index(i).SetUint(uint64(asInt(x)))
		}
		fv.Set(sl)
	case "names":
		ns := asSeq(v)
		out := make([]string, len(ns))
		for i, n := range ns {
			out[i] = PresentName(asByteSeqs(n))
		}
		fv.Set(reflect.ValueOf(out))
	case "alist", "aaaalist":
		bs := asByteSeqs(v)
		out := make([]net.IP, len(bs))
		for i, b := range bs {
			out[i] = net.IP(b)
		}
		fv.Set(reflect.ValueOf(out))
	case "apl":
		items := asSeq(v)
		out := make([]dns.APLPrefix, len(items))
		for i, it := range items {
			m := asMap(it)
			addr := asBytes(m["addr"])
			out[i] = dns.APLPrefix{Negation: m["neg"] == true,
				Network: net.IPNet{IP: net.IP(addr), Mask: net.CIDRMask(asInt(m["prefix"]), 8*len(addr))}}
		}
		fv.Set(reflect.ValueOf(out))
	case "opts":
		items := asSeq(v)
		out := make([]dns.EDNS0, len(items))
		for i, it := range items {
			m := asMap(it)
			code := asInt(m["code"])
			o := newOption(code)
			ov := reflect.ValueOf(o).Elem()
			if cf := ov.FieldByName("Code"); cf.IsValid() { // the documented way to fill these structs
				cf.SetUint(uint64(code))
			}
			l.setFields(ov, l.OptFields(code), asMap(m["f"]))
			out[i] = o
		}
		fv.Set(reflect.ValueOf(out))
	case "svcb":
		items := asSeq(v)
		out := make([]dns.SVCBKeyValue, len(items))
		for i, it := range items {
			m := asMap(it)
			key := asInt(m["key"])
			p := newSvcParam(key)
			l.setFields(reflect.ValueOf(p).Elem(), l.SvcbFields(key), asMap(m["f"]))
			out[i] = p
		}
		fv.Set(reflect.ValueOf(out))
	case "gateway":
		switch asInt(f[e.Of]) % e.Mod {
		case 1, 2:
			field(sv, e.Addr).Set(reflect.ValueOf(net.IP(asBytes(v))))
		case 3:
			fv.SetString(PresentName(asByteSeqs(v)))
		}
	default:
		bad("no Go spelling for kind %q", e.K)
	}
}

func (l *Layout) BuildMsg(a *Msg) (*dns.Msg, error) {
	m := new(dns.Msg)
	h := a.Hdr
	m.MsgHdr = dns.MsgHdr{Id: uint16(h.Id), Response: h.Qr, Opcode: h.Opcode, Authoritative: h.Aa, Truncated: h.Tc,
		RecursionDesired: h.Rd, RecursionAvailable: h.Ra, Zero: h.Z, AuthenticatedData: h.Ad, CheckingDisabled: h.Cd, Rcode: h.Rcode}
	for _, q := range a.Q {
		m.Question = append(m.Question, dns.Question{Name: PresentName(labelsOf(q.Name)), Qtype: uint16(q.Qtype), Qclass: uint16(q.Qclass)})
	}
	for i, sec := range [][]RR{a.An, a.Ns, a.Ar} {
		for j := range sec {
			rr, err := l.BuildRR(&sec[j])
			if err != nil {
				return nil, err
			}
			switch i {
			case 0:
				m.Answer = append(m.Answer, rr)
			case 1:
				m.Ns = append(m.Ns, rr)
			default:
				m.Extra = append(m.Extra, rr)
			}
		}
	}
	return m, nil
}

// ---------------------------------------------------------------- Project: Go -> abstract

// ProjectRR reads a Go record back into the abstract form.  want (may be nil) is the record
// expected at this position: an RDATA-less record and a record with empty RDATA are the
// same octets, so nodata is projected as "RDLENGTH is 0 and an RDATA-less record was meant".
func (l *Layout) ProjectRR(rr dns.RR, want *RR) (out *RR, err error) {
	defer func() {
		if r := recover(); r != nil {
			if bv, ok := r.(badValue); ok {
				out, err = nil, fmt.Errorf("%s", bv.msg)
				return
			}
			panic(r)
		}
	}()
	h := rr.Header()
	name, perr := ParseName(h.Name)
	if perr != nil {
		bad("owner: %v", perr)
	}
	t := int(h.Rrtype)
	out = &RR{Name: toLabels(name), Type: t, Class: int(h.Class), Ttl: beBytes(uint64(h.Ttl), 4), F: Fields{}}
	if h.Rdlength == 0 && want != nil && want.Nodata {
		out.Nodata = true
		return out, nil
	}
	if p, ok := rr.(*dns.PrivateRR); ok {
		d, ok := p.Data.(*PrivData)
		if !ok {
			bad("private record with foreign data")
		}
		out.F["Rdata"] = hx.FromBytes(d.B)
		return out, nil
	}
	if _, isAny := rr.(*dns.ANY); isAny && t != int(dns.TypeANY) {
		bad("record of type %d is held as *dns.ANY", t)
	}
	l.getFields(reflect.ValueOf(rr).Elem(), l.FieldsOf(t), out.F)
	return out, nil
}

func (l *Layout) getFields(sv reflect.Value, es []Entry, out map[string]interface{}) {
	for _, e := range es {
		out[e.N] = l.getField(sv, e)
	}
}

func parseStrs(ss []string) []hx.B {
	out := make([]hx.B, len(ss))
	for i, s := range ss {
		b, err := ParseStr(s)
		if err != nil {
			bad("%v", err)
		}
		out[i] = hx.FromBytes(b)
	}
	return out
}

func mustName(s string) []hx.B {
	n, err := ParseName(s)
	if err != nil {
		bad("%v", err)
	}
	return toLabels(n)
}

func (l *Layout) getField(sv reflect.Value, e Entry) interface{} {
	fv := field(sv, e.N)
	switch e.K {
	case "u8", "u16":
		return int(fv.Uint())
	case "u32", "u32z":
		return beBytes(fv.Uint(), 4)
	case "u48":
		if fv.Uint()>>48 != 0 {
			bad("48-bit field %s holds %d", e.N, fv.Uint())
		}
		return beBytes(fv.Uint(), 6)
	case "u64":
		return beBytes(fv.Uint(), 8)
	case "u32e":
		if field(sv, e.Flag).Bool() {
			return hx.B{}
		}
		return beBytes(fv.Uint(), 4)
	case "u16opt":
		if fv.Uint() == 0 {
			return []int{}
		}
		return []int{int(fv.Uint())}
	case "a", "aaaa":
		return hx.FromBytes(fv.Bytes())
	case "prefixaddr":
		ip := net.IP(fv.Bytes())
		if field(sv, "Family").Uint() == 1 {
			if v4 := ip.To4(); v4 != nil {
				ip = v4
			}
		}
		return hx.FromBytes(ip)
	case "name", "cname":
		return mustName(fv.String())
	case "str":
		return parseStrs([]string{fv.String()})[0]
	case "ostr":
		return parseStrs([]string{fv.String()}) // present (possibly empty): that is what the packer emits
	case "strs":
		return parseStrs(fv.Interface().([]string))
	case "lstrs":
		ss := fv.Interface().([]string)
		out := make([]hx.B, len(ss))
		for i, s := range ss {
			out[i] = hx.FromString(s)
		}
		return out
	case "hex":
		b, err := hex.DecodeString(fv.String())
		if err != nil {
			bad("%s: %v", e.N, err)
		}
		return hx.FromBytes(b)
	case "b64":
		b, err := base64.StdEncoding.DecodeString(fv.String())
		if err != nil {
			bad("%s: %v", e.N, err)
		}
		return hx.FromBytes(b)
	case "b32":
		b, err := b32.DecodeString(strings.ToUpper(fv.String()))
		if err != nil {
			bad("%s: %v", e.N, err)
		}
		return hx.FromBytes(b)
	case "raw":
		return hx.FromString(fv.String())
	case "octet":
		b, err := ParseStr(fv.String())
		if err != nil {
			bad("%s: %v", e.N, err)
		}
		return hx.FromBytes(b)
	case "bytes":
		if fv.Kind() == reflect.String {
			return hx.FromString(fv.String())
		}
		return hx.FromBytes(fv.Bytes())
	case "bitmap", "bitmap0", "u16list":
		out := make([]int, fv.Len())
		for i := range out {
			out[i] = int(fv.Index(i).Uint())
		}
		return out
	case "names":
		ss := fv.Interface().([]string)
		out := make([][]hx.B, len(ss))
		for i, s := range ss {
			out[i] = mustName(s)
		}
		return out
	case "alist", "aaaalist":
		ips := fv.Interface().([]net.IP)
		out := make([]hx.B, len(ips))
		for i, ip := range ips {
			out[i] = hx.FromBytes(ip)
		}
		return out
	case "apl":
		ps := fv.Interface().([]dns.APLPrefix)
		out := make([]map[string]interface{}, len(ps))
		for i, p := range ps {
			ones, bits := p.Network.Mask.Size()
			fam := 1
			if len(p.Network.IP) == net.IPv6len {
				fam = 2
			}
			if bits != 8*len(p.Network.IP) {
				bad("APL item with %d-octet address and %d-bit mask", len(p.Network.IP), bits)
			}
			out[i] = map[string]interface{}{"fam": fam, "neg": p.Negation, "prefix": ones, "addr": hx.FromBytes(p.Network.IP)}
		}
		return out
	case "opts":
		os := fv.Interface().([]dns.EDNS0)
		out := make([]map[string]interface{}, len(os))
		for i, o := range os {
			code := int(o.Option())
			f := map[string]interface{}{}
			l.getFields(reflect.ValueOf(o).Elem(), l.OptFields(code), f)
			out[i] = map[string]interface{}{"code": code, "f": f}
		}
		return out
	case "svcb":
		ps := fv.Interface().([]dns.SVCBKeyValue)
		out := make([]map[string]interface{}, len(ps))
		for i, p := range ps {
			key := int(p.Key())
			f := map[string]interface{}{}
			l.getFields(reflect.ValueOf(p).Elem(), l.SvcbFields(key), f)
			out[i] = map[string]interface{}{"key": key, "f": f}
		}
		return out
	case "gateway":
		switch int(field(sv, e.Of).Uint()) % e.Mod {
		case 1, 2:
			return hx.FromBytes(field(sv, e.Addr).Bytes())
		case 3:
			return mustName(fv.String())
		}
		return []int{}
	}
	bad("no Go spelling for kind %q", e.K)
	return nil
}

// ProjectMsg projects a whole message; want (may be nil) supplies the expectation used for
// the nodata rule.  Records that cannot be projected are reported through errs.
func (l *Layout) ProjectMsg(m *dns.Msg, want *Msg) (*Msg, []error) {
	var errs []error
	out := &Msg{Hdr: Hdr{Id: int(m.Id), Qr: m.Response, Opcode: m.Opcode, Aa: m.Authoritative, Tc: m.Truncated, Rd: m.RecursionDesired,
		Ra: m.RecursionAvailable, Z: m.Zero, Ad: m.AuthenticatedData, Cd: m.CheckingDisabled, Rcode: m.Rcode},
		Q: []Q{}, An: []RR{}, Ns: []RR{}, Ar: []RR{}}
	for _, q := range m.Question {
		n, err := ParseName(q.Name)
		if err != nil {
			errs = append(errs, fmt.Errorf("question: %v", err))
		}
		out.Q = append(out.Q, Q{Name: toLabels(n), Qtype: int(q.Qtype), Qclass: int(q.Qclass)})
	}
	secs := [][]dns.RR{m.Answer, m.Ns, m.Extra}
	var wsecs [3][]RR
	if want != nil {
		wsecs = [3][]RR{want.An, want.Ns, want.Ar}
	}
	for i, sec := range secs {
		for j, rr := range sec {
			var w *RR
			if j < len(wsecs[i]) {
				w = &wsecs[i][j]
			}
			a, err := l.ProjectRR(rr, w)
			if err != nil {
				errs = append(errs, fmt.Errorf("%s: %v", l.Mnemonic(int(rr.Header().Rrtype)), err))
				a = &RR{Type: int(rr.Header().Rrtype), F: Fields{"unprojectable": err.Error()}}
			}
			switch i {
			case 0:
				out.An = append(out.An, *a)
			case 1:
				out.Ns = append(out.Ns, *a)
			default:
				out.Ar = append(out.Ar, *a)
			}
		}
	}
	return out, errs
}

// ---------------------------------------------------------------- classes of cases (for finding keys)

// ClassOf names the exotic feature a record exercises ("" = none); finding keys carry it so
// that a defect of one feature does not hide an unrelated one of the same type.
func (l *Layout) ClassOf(a *RR) (cls string) {
	defer func() {
		if r := recover(); r != nil {
			cls = ""
		}
	}()
	if a.Nodata {
		// an RDATA-less record of a type all of whose fields are names, addresses, lists or opaque data has the zero value
		// of its Go struct as a faithful spelling; a type with integer / single-string fields has none
		for _, e := range l.FieldsOf(a.Type) {
			switch e.K {
			case "u8", "u16", "u32", "u48", "u64", "str", "ostr", "gateway":
				return "nodata-fixed"
			}
		}
		return "nodata"
	}
	for _, e := range l.FieldsOf(a.Type) {
		v := a.F[e.N]
		switch e.K {
		case "gateway":
			if e.Mod == 128 && asInt(a.F[e.Of]) >= 128 {
				return "dbit"
			}
		case "octet":
			if len(asBytes(v)) > 1025 {
				return "long-octet"
			}
			if bytes.IndexByte(asBytes(v), '\\') >= 0 {
				return "backslash"
			}
		case "ostr":
			if len(asSeq(v)) == 0 {
				return "absent-optional"
			}
		case "bitmap0":
			if len(asSeq(v)) > 0 {
				return "flat-bitmap"
			}
		case "bitmap":
			if !increasing(asSeq(v)) {
				return "unordered"
			}
		case "svcb":
			keys := []interface{}{}
			for _, p := range asSeq(v) {
				pm := asMap(p)
				keys = append(keys, pm["key"])
				for _, pe := range l.SvcbFields(asInt(pm["key"])) {
					if pe.K == "u16list" && !increasing(asSeq(asMap(pm["f"])[pe.N])) {
						return "unordered"
					}
				}
			}
			if !increasing(keys) {
				return "unordered"
			}
		case "opts":
			for _, o := range asSeq(v) {
				om := asMap(o)
				for _, oe := range l.OptFields(asInt(om["code"])) {
					if oe.K == "u16opt" {
						if s := asSeq(asMap(om["f"])[oe.N]); len(s) == 1 && asInt(s[0]) == 0 {
							return "keepalive-timeout0"
						}
					}
				}
			}
		}
	}
	return ""
}

func increasing(s []interface{}) bool {
	for i := 1; i < len(s); i++ {
		if asInt(s[i]) <= asInt(s[i-1]) {
			return false
		}
	}
	return true
}

// KeyOf is the type+class part of a finding key for one record.
func (l *Layout) KeyOf(a *RR) string {
	c := l.ClassOf(a)
	if c == "nodata" || c == "nodata-fixed" { // independent of the type
		return c
	}
	if c != "" {
		return l.Mnemonic(a.Type) + ":" + c
	}
	return l.Mnemonic(a.Type)
}

// MsgKey: the key part for a message: its single record's, or the records' keys joined.
func (l *Layout) MsgKey(m *Msg) string {
	rrs := m.RRs()
	if len(rrs) == 0 {
		return "header"
	}
	set := map[string]bool{}
	for _, r := range rrs {
		set[l.KeyOf(r)] = true
	}
	ks := make([]string, 0, len(set))
	for k := range set {
		ks = append(ks, k)
	}
	sort.Strings(ks)
	if len(ks) == 1 {
		return ks[0]
	}
	return "multi"
}

func Stderr(f string, a ...interface{}) { fmt.Fprintf(os.Stderr, f+"\n", a...) }
