// Package zonegen holds what the zone-file harness (properties C06, C07) needs apart from
// the checks themselves: the abstract lines of spec/Zone.tla as Go values (JSON compatible
// with what TLC exports and reads), renderers that spell an abstract line as master-file
// text in many equivalent ways, and a runner that feeds text to the real dns.ZoneParser
// and reports everything observable (records as wire octets, error, Open calls, stickiness,
// time, allocation).
//
// Nothing here decides what a zone file denotes: expected values come from the
// specification (vectors) or are judged by TLC (events).
package zonegen

import (
	"encoding/json"
	"errors"
	"fmt"
	"io"
	"io/fs"
	"math/rand"
	"regexp"
	"runtime"
	"strconv"
	"strings"
	"testing/fstest"
	"time"

	"github.com/miekg/dns"

	"verifharness/lib/hx"
)

// ---------------------------------------------------------------- abstract syntax

type Ref struct {
	K string `json:"k"` // omit | at | rel | abs
	N []hx.B `json:"n"`
}

type RD struct {
	IP   hx.B   `json:"ip"`
	Pref int    `json:"pref"`
	Nm   Ref    `json:"nm"`
	Txt  []hx.B `json:"txt"`
}

type Item struct {
	Raw hx.B `json:"raw"`
	Q   bool `json:"q"`
}

// Line is one abstract line; which fields are meaningful depends on K.
type Line struct {
	K      string `json:"k"` // blank | rr | origin | ttl | include | generate
	Owner  Ref    `json:"owner"`
	TTL    int    `json:"ttl"`
	Class  int    `json:"class"`
	Order  string `json:"order"`
	Type   int    `json:"type"`
	RD     RD     `json:"rd"`
	Name   Ref    `json:"name"`
	V      int    `json:"v"`
	File   hx.B   `json:"file"`
	Origin Ref    `json:"origin"`
	Lo     int    `json:"lo"`
	Hi     int    `json:"hi"`
	Step   int    `json:"step"`
	Lhs    hx.B   `json:"lhs"`
	Rhs    []Item `json:"rhs"`
}

func nn(b hx.B) hx.B {
	if b == nil {
		return hx.B{}
	}
	return b
}
func nnl(n []hx.B) []hx.B {
	r := make([]hx.B, len(n))
	for i := range n {
		r[i] = nn(n[i])
	}
	return r
}
func (r Ref) norm() Ref { return Ref{r.K, nnl(r.N)} }
func (r RD) norm() RD   { return RD{nn(r.IP), r.Pref, r.Nm.norm(), nnl(r.Txt)} }

// MarshalJSON writes exactly the fields the TLA+ record of this kind has.
func (l Line) MarshalJSON() ([]byte, error) {
	var m map[string]interface{}
	switch l.K {
	case "blank":
		m = map[string]interface{}{"k": "blank"}
	case "rr":
		m = map[string]interface{}{"k": "rr", "owner": l.Owner.norm(), "ttl": l.TTL, "class": l.Class, "order": l.Order, "type": l.Type, "rd": l.RD.norm()}
	case "origin":
		m = map[string]interface{}{"k": "origin", "name": l.Name.norm()}
	case "ttl":
		m = map[string]interface{}{"k": "ttl", "v": l.V}
	case "include":
		m = map[string]interface{}{"k": "include", "file": nn(l.File), "origin": l.Origin.norm()}
	case "generate":
		rhs := make([]Item, len(l.Rhs))
		for i, it := range l.Rhs {
			rhs[i] = Item{nn(it.Raw), it.Q}
		}
		m = map[string]interface{}{"k": "generate", "lo": l.Lo, "hi": l.Hi, "step": l.Step, "lhs": nn(l.Lhs), "ttl": l.TTL,
			"class": l.Class, "order": l.Order, "type": l.Type, "rhs": rhs}
	default:
		return nil, fmt.Errorf("line kind %q", l.K)
	}
	return json.Marshal(m)
}

type File struct {
	Name  hx.B   `json:"name"`
	Lines []Line `json:"lines"`
}

type NameOpt struct {
	Set bool   `json:"set"`
	N   []hx.B `json:"n"`
}

type Cfg struct {
	DefTTL     int     `json:"defTTL"` // -1: not configured
	Origin     NameOpt `json:"origin"`
	IncAllowed bool    `json:"incAllowed"`
	File       hx.B    `json:"file"` // the path given to NewZoneParser for the zone file itself
	Files      []File  `json:"files"`
}

func (c Cfg) MarshalJSON() ([]byte, error) {
	files := c.Files
	if files == nil {
		files = []File{}
	}
	for i := range files {
		if files[i].Lines == nil {
			files[i].Lines = []Line{}
		}
	}
	return json.Marshal(map[string]interface{}{"defTTL": c.DefTTL, "origin": NameOpt{c.Origin.Set, nnl(c.Origin.N)},
		"incAllowed": c.IncAllowed, "file": nn(c.File), "files": files})
}

// Rec is a record as the specification denotes it and as the harness observes it.
type Rec struct {
	Owner []hx.B `json:"owner"`
	TTL   int64  `json:"ttl"`
	Class int    `json:"class"`
	Type  int    `json:"type"`
	Rdata hx.B   `json:"rdata"`
	Ln    int    `json:"ln,omitempty"`  // spec only: the top-level line the record comes from
	Src   string `json:"src,omitempty"` // spec only: where the TTL came from
	Via   string `json:"via,omitempty"` // spec only: written as an RR line ("rr") or expanded from a $GENERATE ("generate")
}

// IsMnemonic: does this text spell a type or class mnemonic?  The pinned lexer treats such a
// token specially in places where the grammar wants a name or a string; the harness uses
// this only to give those refusals their own finding key and to keep the random generators
// away from them (dedicated cases exercise them).
func IsMnemonic(s string) bool {
	u := strings.ToUpper(s)
	if _, ok := dns.StringToType[u]; ok {
		return true
	}
	if _, ok := dns.StringToClass[u]; ok {
		return true
	}
	return strings.HasPrefix(u, "TYPE") || strings.HasPrefix(u, "CLASS")
}

// Rec5 is Rec without the spec's bookkeeping, for events.
type Rec5 struct {
	Owner []hx.B `json:"owner"`
	TTL   int64  `json:"ttl"`
	Class int    `json:"class"`
	Type  int    `json:"type"`
	Rdata hx.B   `json:"rdata"`
}

func (r Rec) Five() Rec5 { return Rec5{nnl(r.Owner), r.TTL, r.Class, r.Type, nn(r.Rdata)} }

func SameRec(a, b Rec) string { // "" or the first field that differs
	if len(a.Owner) != len(b.Owner) {
		return "owner"
	}
	for i := range a.Owner {
		if a.Owner[i].String() != b.Owner[i].String() {
			return "owner"
		}
	}
	if a.Type != b.Type {
		return "type"
	}
	if a.Class != b.Class {
		return "class"
	}
	if a.TTL != b.TTL {
		return "ttl"
	}
	if a.Rdata.String() != b.Rdata.String() {
		return "rdata"
	}
	return ""
}

// ---------------------------------------------------------------- rendering

const (
	TypeA     = 1
	TypeNS    = 2
	TypeCNAME = 5
	TypeMX    = 15
	TypeTXT   = 16
)

var typeName = map[int]string{1: "A", 2: "NS", 5: "CNAME", 15: "MX", 16: "TXT"}
var className = map[int]string{1: "IN", 3: "CH"}

// Style chooses among the spellings the property statement lists. Noise = false gives the
// canonical spelling (single spaces, upper-case mnemonics, decimal TTLs, no comments).
type Style struct {
	R         *rand.Rand
	Noise     bool
	AbsPrefix string // written in front of absolute $INCLUDE file names
}

func (s *Style) coin(n int) bool { return s.Noise && s.R.Intn(n) == 0 }

func (s *Style) sep() string {
	if !s.Noise {
		return " "
	}
	return []string{" ", " ", "\t", "  ", " \t", "\t\t "}[s.R.Intn(6)]
}

func (s *Style) kw(w string) string {
	if !s.Noise {
		return w
	}
	switch s.R.Intn(3) {
	case 0:
		return strings.ToLower(w)
	case 1:
		b := []byte(w)
		for i := range b {
			if s.R.Intn(2) == 0 {
				b[i] = strings.ToLower(string(b[i]))[0]
			}
		}
		return string(b)
	}
	return w
}

var comments = []string{"; c", ";", "; a \"quoted( comment ) with ; all $INCLUDE x \\", ";;( unbalanced", "; )", ";\t$TTL 1"}

func (s *Style) comment() string { return comments[s.R.Intn(len(comments))] }

// TTLText spells a TTL in seconds or with unit suffixes.
func (s *Style) TTLText(v int) string {
	if v <= 0 || !s.coin(2) {
		return strconv.Itoa(v)
	}
	units := []struct {
		n int
		c string
	}{{604800, "w"}, {86400, "d"}, {3600, "h"}, {60, "m"}, {1, "s"}}
	out := ""
	rest := v
	for _, u := range units {
		if rest >= u.n {
			k := rest / u.n
			rest -= k * u.n
			c := u.c
			if s.R.Intn(2) == 0 {
				c = strings.ToUpper(c)
			}
			if u.n == 1 && s.R.Intn(2) == 0 {
				c = "" // a bare trailing number of seconds
			}
			out += strconv.Itoa(k) + c
		}
	}
	return out
}

// LabelText spells one label; with noise one character may be written as \DDD.
func (s *Style) LabelText(l hx.B) string {
	var sb strings.Builder
	esc := -1
	if s.coin(6) && len(l) > 0 {
		esc = s.R.Intn(len(l))
	}
	for i, c := range l {
		switch {
		case i == esc:
			fmt.Fprintf(&sb, "\\%03d", c)
		case c == ' ' && s.coin(2):
			sb.WriteString("\\ ")
		case strings.IndexByte(". '@;()\"\\", byte(c)) >= 0:
			sb.WriteByte('\\')
			sb.WriteByte(byte(c))
		case c < 33 || c > 126:
			fmt.Fprintf(&sb, "\\%03d", c)
		default:
			sb.WriteByte(byte(c))
		}
	}
	return sb.String()
}

func (s *Style) NameText(n []hx.B, abs bool) string {
	if len(n) == 0 {
		return "."
	}
	ps := make([]string, len(n))
	for i, l := range n {
		ps[i] = s.LabelText(l)
	}
	t := strings.Join(ps, ".")
	if abs {
		t += "."
	}
	return t
}

func (s *Style) RefText(r Ref) string {
	switch r.K {
	case "at":
		return "@"
	case "abs":
		return s.NameText(r.N, true)
	case "rel":
		return s.NameText(r.N, false)
	}
	return ""
}

func plainString(b hx.B) bool {
	if len(b) == 0 {
		return false
	}
	for _, c := range b {
		if !(c >= 'a' && c <= 'z' || c >= '0' && c <= '9') {
			return false
		}
	}
	return true
}

func (s *Style) StringText(b hx.B) string {
	if plainString(b) && !IsMnemonic(b.String()) && s.coin(3) {
		return b.String()
	}
	var sb strings.Builder
	sb.WriteByte('"')
	for _, c := range b {
		switch {
		case c == '"' || c == '\\':
			sb.WriteByte('\\')
			sb.WriteByte(byte(c))
		case c < 32 || c > 126:
			fmt.Fprintf(&sb, "\\%03d", c)
		default:
			sb.WriteByte(byte(c))
		}
	}
	sb.WriteByte('"')
	return sb.String()
}

func (s *Style) header(ttl, class int, order string, typ int) []string {
	var h []string
	t, c := "", ""
	if ttl >= 0 {
		t = s.TTLText(ttl)
	}
	if class != 0 {
		c = s.kw(className[class])
	}
	if order == "ct" {
		t, c = c, t
	}
	for _, x := range []string{t, c} {
		if x != "" {
			h = append(h, x)
		}
	}
	return append(h, s.kw(typeName[typ]))
}

func (s *Style) rdata(typ int, rd RD) []string {
	switch typ {
	case TypeA:
		return []string{fmt.Sprintf("%d.%d.%d.%d", rd.IP[0], rd.IP[1], rd.IP[2], rd.IP[3])}
	case TypeNS, TypeCNAME:
		return []string{s.RefText(rd.Nm)}
	case TypeMX:
		return []string{strconv.Itoa(rd.Pref), s.RefText(rd.Nm)}
	case TypeTXT:
		var r []string
		for _, t := range rd.Txt {
			r = append(r, s.StringText(t))
		}
		return r
	}
	return nil
}

// join writes items separated by blanks; with noise it may wrap everything after item
// `from' (>= 1) in parentheses and break lines inside them -- always with a blank next to
// the break -- and hang comments on the breaks.
func (s *Style) join(first string, items []string, mayParen bool) string {
	var sb strings.Builder
	sb.WriteString(first)
	open := -1
	if mayParen && len(items) >= 2 && s.coin(3) {
		open = 1 + s.R.Intn(len(items)-1)
	}
	for i, it := range items {
		if i == open {
			sb.WriteString(s.sep())
			sb.WriteString("(")
		}
		if i > 0 || first != "" {
			if open >= 0 && i >= open {
				switch s.R.Intn(4) {
				case 0:
					sb.WriteString("\n" + s.sep())
				case 1:
					sb.WriteString(s.sep() + s.comment() + "\n" + s.sep())
				case 2:
					sb.WriteString(s.sep() + "\n" + s.sep())
				default:
					sb.WriteString(s.sep())
				}
			} else {
				sb.WriteString(s.sep())
			}
		}
		sb.WriteString(it)
	}
	if open >= 0 {
		if s.R.Intn(2) == 0 {
			sb.WriteString(s.sep() + "\n")
		}
		sb.WriteString(s.sep() + ")")
	}
	return sb.String()
}

// Render spells one abstract line, newline included.
func (s *Style) Render(l Line) string {
	var body string
	switch l.K {
	case "blank":
		if s.Noise {
			body = []string{"", " ", "\t  ", "; only a comment", "  ; c ( \"", "\t;"}[s.R.Intn(6)]
		}
		return body + "\n"
	case "rr":
		items := append(s.header(l.TTL, l.Class, l.Order, l.Type), s.rdata(l.Type, l.RD)...)
		if l.Owner.K == "omit" {
			lead := " "
			if s.Noise {
				lead = []string{" ", "\t", "  ", " \t"}[s.R.Intn(4)]
			}
			body = lead + s.join("", items, true)
		} else {
			body = s.join(s.RefText(l.Owner), items, true)
		}
	case "origin":
		body = s.kw("$ORIGIN") + s.sep() + s.RefText(l.Name)
	case "ttl":
		body = s.kw("$TTL") + s.sep() + s.TTLText(l.V)
	case "include":
		name := l.File.String()
		if strings.HasPrefix(name, "/") {
			name = s.AbsPrefix + name // (runs on the real file system live under a temporary directory)
		}
		body = s.kw("$INCLUDE") + s.sep() + name
		if l.Origin.K != "omit" {
			body += s.sep() + s.RefText(l.Origin)
		}
	case "generate":
		rng := fmt.Sprintf("%d-%d", l.Lo, l.Hi)
		if l.Step != 1 || s.coin(4) {
			rng += fmt.Sprintf("/%d", l.Step)
		}
		items := []string{rng, l.Lhs.String()}
		items = append(items, s.header(l.TTL, l.Class, l.Order, l.Type)...)
		for _, it := range l.Rhs {
			if it.Q {
				items = append(items, "\""+it.Raw.String()+"\"")
			} else {
				items = append(items, it.Raw.String())
			}
		}
		body = s.kw("$GENERATE")
		for _, it := range items {
			body += s.sep() + it
		}
		// (parentheses inside $GENERATE are exercised by the hostile families, not here)
	}
	if s.coin(4) {
		body += s.sep()
	}
	if s.coin(3) {
		body += s.sep() + s.comment()
	}
	return body + "\n"
}

// Spelling is a rendered file: the text, the abstract lines it was made from (blank lines
// the style inserted included) and, per rendered line, its byte range and the index of the
// original line it spells (-1 for inserted blanks).
type Spelling struct {
	File  string // the name the parser was given for this text (errors are attributed to lines only when they name it)
	Text  []byte
	Lines []Line
	Orig  []int
	End   []int // End[i] = offset just after rendered line i
	Texts []string
}

func (s *Style) RenderFile(lines []Line) Spelling {
	var sp Spelling
	add := func(l Line, orig int) {
		t := s.Render(l)
		sp.Text = append(sp.Text, t...)
		sp.Lines = append(sp.Lines, l)
		sp.Orig = append(sp.Orig, orig)
		sp.End = append(sp.End, len(sp.Text))
		sp.Texts = append(sp.Texts, t)
	}
	for i, l := range lines {
		for s.coin(5) {
			add(Line{K: "blank"}, -1)
		}
		add(l, i)
	}
	if s.coin(5) {
		add(Line{K: "blank"}, -1)
	}
	if s.coin(4) && len(sp.Texts) > 0 && sp.Lines[len(sp.Lines)-1].K != "blank" {
		// the last entry may end at the end of the file instead of at a line break
		last := sp.Texts[len(sp.Texts)-1]
		sp.Text = sp.Text[:len(sp.Text)-1]
		sp.Texts[len(sp.Texts)-1] = last[:len(last)-1]
		sp.End[len(sp.End)-1] = len(sp.Text)
	}
	return sp
}

// ---------------------------------------------------------------- running the real parser

// CountFS wraps an fs.FS and reports every Open.
type CountFS struct {
	FS     fs.FS
	OnOpen func(name string) bool // false: refuse
	Fail   map[string]int         // file name -> number of bytes after which reading fails with ErrIO
	OnFail func()                 // called when such a file hands out ErrIO
	Once   bool                   // the failures are transient (see failFile)
}

// MaxOpens: after this many Opens the wrapper refuses (so that a parser without a depth limit
// ends with an error the harness can report, instead of exhausting the stack of the process).
const MaxOpens = 200

func (c CountFS) Open(name string) (fs.File, error) {
	if c.OnOpen != nil {
		if !c.OnOpen(name) {
			return nil, fmt.Errorf("include FS wrapper: more than %d Opens: %w", MaxOpens, fs.ErrPermission)
		}
	}
	f, err := c.FS.Open(name)
	if k, ok := c.Fail[name]; ok && err == nil {
		return &failFile{File: f, left: k, onFail: c.OnFail, once: c.Once}, nil
	}
	return f, err
}

// ErrIO is the injected read error (not a syntax error: the parser must surface it as it is).
var ErrIO = errors.New("injected I/O error")

// failFile is an fs.File whose content ends in ErrIO after k bytes instead of in io.EOF.
type failFile struct {
	fs.File
	left   int
	onFail func()
	once   bool // transient: ErrIO once, then the rest of the file
	failed bool
}

func (f *failFile) Read(p []byte) (int, error) {
	if f.once && f.failed {
		return f.File.Read(p)
	}
	if f.left <= 0 {
		f.failed = true
		if f.onFail != nil {
			f.onFail()
		}
		return 0, ErrIO
	}
	if len(p) > f.left {
		p = p[:f.left]
	}
	n, err := f.File.Read(p)
	f.left -= n
	if err == io.EOF {
		err = ErrIO // the file is shorter than k: the error comes where the end would have been
		if f.onFail != nil {
			f.onFail()
		}
	}
	return n, err
}

// PosReader is an io.ByteReader (so the lexer takes bytes one at a time, without its own
// buffer) that knows how far the parser has read.
type PosReader struct {
	Data   []byte
	Pos    int
	Fail   int // > 0: reading fails with ErrIO once Fail-1 bytes have been read
	OnFail func()
	Once   bool // the failure is transient: ErrIO is handed out once, after that the reader goes on delivering
	failed bool
}

func (p *PosReader) ReadByte() (byte, error) {
	if p.Fail > 0 && p.Pos >= p.Fail-1 && !(p.Once && p.failed) {
		p.failed = true
		if p.OnFail != nil {
			p.OnFail()
		}
		return 0, ErrIO
	}
	if p.Pos >= len(p.Data) {
		return 0, io.EOF
	}
	c := p.Data[p.Pos]
	p.Pos++
	return c, nil
}

func (p *PosReader) Read(b []byte) (int, error) {
	if p.Pos >= len(p.Data) {
		return 0, io.EOF
	}
	n := copy(b, p.Data[p.Pos:])
	p.Pos += n
	return n, nil
}

type RunCfg struct {
	Origin     string // "" = none
	DefTTL     int    // -1 = not configured
	IncAllowed bool
	FS         fstest.MapFS // nil = no include FS
	File       string
	MaxRecs    int            // stop collecting record contents beyond this many (they are still counted)
	NoMem      bool           // do not measure allocation (runtime.ReadMemStats stops the world)
	FailTop    int            // > 0: the zone's own reader fails with ErrIO after FailTop-1 bytes
	FailFS     map[string]int // include file name -> bytes after which reading it fails with ErrIO
	FailOnce   bool           // the injected read errors are transient: the reader fails once and then goes on delivering
}

type Observed struct {
	Recs    []Rec
	NRecs   int
	At      []int // reader offset after each record (len = NRecs, capped like Recs)
	ErrAt   int   // reader offset when the error was reported
	Err     error
	ErrText string
	IsPE    bool // errors.As(*dns.ParseError)
	PEFile  string
	PELine  int
	PECol   int
	After   []Rec // records handed out AFTER Next had returned (nil, false) (a consumer that keeps calling; capped at 16)
	Opens   []string
	Sticky  string // "" or what went wrong after the end
	Panic   string
	Events  []interface{} // next / open events in order
	Dur     time.Duration
	Alloc   uint64

	ReadFails  int // times a reader handed the parser ErrIO
	RecsAtFail int // records returned before the (last) failure
}

type EvNext struct {
	Ev  string `json:"ev"`
	Res string `json:"res"`
	ID  int    `json:"id"`
}

// EvPoll: what Err() said when asked between two calls of Next (logged only when the answer changes: the first
// non-nil answer, another error, an error that vanished).
type EvPoll struct {
	Ev  string `json:"ev"`
	Res string `json:"res"` // err | nil
	ID  int    `json:"id"`  // 1: the error Err() reports at the end; 2: another one; 0: nil
	err error
}
type EvOpen struct {
	Ev   string `json:"ev"`
	Path hx.B   `json:"path"`
}

var peRe = regexp.MustCompile(`(?s)^(?:(.*?): )?dns: .* at line: (\d+):(\d+)$`)

// Unwire splits PackRR output into the fields the specification speaks about.
func Unwire(w []byte) (Rec, bool) {
	var r Rec
	i := 0
	r.Owner = []hx.B{}
	for {
		if i >= len(w) {
			return r, false
		}
		n := int(w[i])
		i++
		if n == 0 {
			break
		}
		if n > 63 || i+n > len(w) {
			return r, false
		}
		r.Owner = append(r.Owner, hx.FromBytes(w[i:i+n]))
		i += n
	}
	if i+10 > len(w) {
		return r, false
	}
	r.Type = int(w[i])<<8 | int(w[i+1])
	r.Class = int(w[i+2])<<8 | int(w[i+3])
	r.TTL = int64(w[i+4])<<24 | int64(w[i+5])<<16 | int64(w[i+6])<<8 | int64(w[i+7])
	rdl := int(w[i+8])<<8 | int(w[i+9])
	if i+10+rdl != len(w) {
		return r, false
	}
	r.Rdata = hx.FromBytes(w[i+10:])
	return r, true
}

func RecOf(rr dns.RR, buf []byte) Rec {
	off, err := dns.PackRR(rr, buf, 0, nil, false)
	if err != nil {
		return Rec{Owner: []hx.B{hx.FromString("?unpackable: " + rr.String())}, Type: -1}
	}
	r, ok := Unwire(buf[:off])
	if !ok {
		return Rec{Owner: []hx.B{hx.FromString("?unparsable wire: " + rr.String())}, Type: -1}
	}
	return r
}

// Run parses text with the real ZoneParser and observes it. It is called on a goroutine
// by RunBudget; a panic is recovered and reported.
func Run(text []byte, c RunCfg) (o Observed) {
	var m0, m1 runtime.MemStats
	if !c.NoMem {
		runtime.ReadMemStats(&m0)
	}
	t0 := time.Now()
	defer func() {
		if r := recover(); r != nil {
			o.Panic = fmt.Sprint(r)
		}
		o.Dur = time.Since(t0)
		if !c.NoMem {
			runtime.ReadMemStats(&m1)
			o.Alloc = m1.TotalAlloc - m0.TotalAlloc
		}
	}()
	readFail := func() {
		o.ReadFails++
		o.RecsAtFail = o.NRecs
		if o.ReadFails == 1 {
			o.Events = append(o.Events, map[string]string{"ev": "readfail"})
		}
	}
	rd := &PosReader{Data: text, Fail: c.FailTop, OnFail: readFail, Once: c.FailOnce}
	file := c.File
	zp := dns.NewZoneParser(rd, c.Origin, file)
	if c.DefTTL >= 0 {
		zp.SetDefaultTTL(uint32(c.DefTTL))
	}
	zp.SetIncludeAllowed(c.IncAllowed)
	if c.FS != nil {
		zp.SetIncludeFS(CountFS{FS: c.FS, Fail: c.FailFS, OnFail: readFail, Once: c.FailOnce, OnOpen: func(n string) bool {
			o.Opens = append(o.Opens, n)
			if len(o.Opens) <= 80 {
				o.Events = append(o.Events, EvOpen{"open", hx.FromString(n)})
			}
			return len(o.Opens) <= MaxOpens
		}})
	}
	buf := make([]byte, 70000)
	max := c.MaxRecs
	if max == 0 {
		max = 1 << 30
	}
	// Err() is asked before the first Next and after every record (an error exists as soon as Err() shows it, not only
	// once Next has returned false); the answer is logged when it changes
	var polls []*EvPoll
	var lastPoll error
	poll := func() {
		e := zp.Err()
		if e == lastPoll {
			return
		}
		lastPoll = e
		p := &EvPoll{Ev: "poll", Res: "nil", err: e}
		if e != nil {
			p.Res = "err"
		}
		polls = append(polls, p)
		o.Events = append(o.Events, p)
	}
	poll()
	for rr, ok := zp.Next(); ok; rr, ok = zp.Next() {
		if rr == nil {
			o.Sticky = "Next returned (nil, true)"
			break
		}
		o.NRecs++
		if len(o.Recs) < max {
			o.Recs = append(o.Recs, RecOf(rr, buf))
			o.At = append(o.At, rd.Pos)
		}
		if o.NRecs <= 40 {
			o.Events = append(o.Events, EvNext{"next", "rr", 0})
		}
		if o.NRecs > 200000 {
			o.Sticky = "more than 200000 records"
			break
		}
		poll()
	}
	o.ErrAt = rd.Pos
	o.Err = zp.Err()
	if o.Err != nil {
		o.ErrText = o.Err.Error()
	}
	for _, p := range polls {
		switch {
		case p.err == nil:
		case p.err == o.Err && p.err.Error() == o.ErrText:
			p.ID = 1
		default:
			p.ID = 2
		}
	}
	errID := func(e error) int {
		if e == nil {
			return 0
		}
		if e == o.Err && e.Error() == o.ErrText {
			return 1
		}
		return 2
	}
	if o.Err != nil {
		o.ErrText = o.Err.Error()
		var pe *dns.ParseError
		if errors.As(o.Err, &pe) {
			o.IsPE = true
			if m := peRe.FindStringSubmatch(o.ErrText); m != nil {
				o.PEFile = m[1]
				o.PELine, _ = strconv.Atoi(m[2])
				o.PECol, _ = strconv.Atoi(m[3])
			} else {
				o.PELine = -1
			}
		}
		o.Events = append(o.Events, EvNext{"next", "err", 1})
	} else {
		o.Events = append(o.Events, EvNext{"next", "eof", 0})
	}
	// after the end: a consumer that keeps calling.  Next keeps saying (nil, false) and Err keeps saying the same thing;
	// the calls go on until three in a row have returned no record (at most 40), what they hand out is kept in After
	for i, quiet := 0, 0; i < 40 && quiet < 3; i++ {
		rr, ok := zp.Next()
		e := zp.Err()
		quiet++
		switch {
		case ok || rr != nil:
			quiet = 0
			o.Events = append(o.Events, EvNext{"next", "rr", 0})
			if rr != nil && len(o.After) < 16 {
				o.After = append(o.After, RecOf(rr, buf))
			}
			if o.Sticky == "" {
				o.Sticky = fmt.Sprintf("Next returned a record (%v, %v) after it had returned (nil, false)", rr, ok)
			}
		case e != nil:
			o.Events = append(o.Events, EvNext{"next", "err", errID(e)})
			if o.Sticky == "" && errID(e) != 1 {
				o.Sticky = fmt.Sprintf("Err() changed from %q to %q", o.ErrText, e.Error())
			}
		default:
			o.Events = append(o.Events, EvNext{"next", "eof", 0})
			if o.Sticky == "" && o.Err != nil {
				o.Sticky = fmt.Sprintf("Err() was %q and became nil", o.ErrText)
			}
		}
	}
	return o
}

// RunBudget runs Run under a wall-clock budget. A run that exceeds it is repeated; only a
// time-out that reproduces three times is reported (timedOut = true), a single slow run is
// an infrastructure hiccup and the later, finished result is returned.
func RunBudget(text []byte, c RunCfg, budget time.Duration) (o Observed, timedOut bool, flaky bool) {
	for try := 0; try < 3; try++ {
		ch := make(chan Observed, 1)
		go func() { ch <- Run(text, c) }()
		select {
		case o = <-ch:
			return o, false, try > 0
		case <-time.After(budget):
		}
	}
	return Observed{}, true, false
}
