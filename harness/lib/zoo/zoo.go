// Package zoo is a corpus of valid records of (nearly) every type in dns.TypeToRR, in
// presentation format, plus helpers to build messages from them.  It is test DATA: the
// oracle of every check is the TLA+ specification, never this package.
package zoo

import (
	"fmt"
	"math/rand"
	"strings"

	"github.com/miekg/dns"
)

// Texts: one or more records per type.  OWNER is replaced by an owner name.
var Texts = []string{
	"OWNER 3600 IN A 192.0.2.1",
	"OWNER 3600 IN AAAA 2001:db8::1",
	"OWNER 3600 IN AFSDB 1 afsdb.example.org.",
	"OWNER 3600 IN AMTRELAY 10 0 0 .",
	"OWNER 3600 IN AMTRELAY 10 0 1 203.0.113.15",
	"OWNER 3600 IN AMTRELAY 10 0 2 2001:db8::15",
	"OWNER 3600 IN AMTRELAY 128 0 3 amtrelays.example.com.",
	"OWNER 3600 IN APL 1:192.168.32.0/21 !1:192.168.38.0/28 2:2001:db8::/32",
	"OWNER 3600 IN AVC \"app-name:WOLFGANG|app-class:OAM\"",
	"OWNER 3600 IN CAA 0 issue \"ca.example.net\"",
	"OWNER 3600 IN CDNSKEY 257 3 8 AwEAAagAIKlVZrpC6Ia7gEzahOR+9W29euxhJhVVLOyQbSEW0O8gcCjF",
	"OWNER 3600 IN CDS 12345 8 2 0102030405060708090a0b0c0d0e0f101112131415161718191a1b1c1d1e1f20",
	"OWNER 3600 IN CERT PKIX 65535 RSASHA256 AQIDBAUGBwg=",
	"OWNER 3600 IN CNAME target.example.net.",
	"OWNER 3600 IN CSYNC 66 3 A NS AAAA",
	"OWNER 3600 IN DHCID AAIBY2/AuCccgoJbsaxcQc9TUapptP69lOjxfNuVAA2kjEA=",
	"OWNER 3600 IN DLV 12345 8 2 0102030405060708090a0b0c0d0e0f101112131415161718191a1b1c1d1e1f20",
	"OWNER 3600 IN DNAME other.example.",
	"OWNER 3600 IN DNSKEY 256 3 13 oJMRESz5E4gYzS/q6XDrvU1qMPYIjCWzJaOau8XNEZeqCYKD5ar0IRd8KqXXFJkqmVfRvMGPmM1x8fGAa2XhSA==",
	"OWNER 3600 IN DS 12345 13 2 0102030405060708090a0b0c0d0e0f101112131415161718191a1b1c1d1e1f20",
	"OWNER 3600 IN EUI48 00-00-5e-00-53-2a",
	"OWNER 3600 IN EUI64 00-00-5e-ef-10-00-00-2a",
	"OWNER 3600 IN GPOS -32.6882 116.8652 10.0",
	"OWNER 3600 IN HINFO \"Generic PC clone\" \"NetBSD-1.4\"",
	"OWNER 3600 IN HIP 2 200100107B1A74DF365639CC39F1D578 AwEAAbdxyhNuSutc5EMzxTs9LBPCIkOFH8cIvM4p9+LrV4e19WzK00+CI6zBCQTdtWsuxKbWIy87UOoJTwkUs7lBu+Upr1gsNrut79ryra+bSRGQb1slImA8YVJyuIDsj7kwzG7jnERNqnWxZ48AWkskmdHaVDP4BcelrTI3rMXdXF5D rvs.example.com.",
	"OWNER 3600 IN HTTPS 1 . alpn=h2,h3 port=8443 ipv4hint=192.0.2.1,192.0.2.2 ipv6hint=2001:db8::1 ech=AQID key65400=abc",
	"OWNER 3600 IN IPSECKEY 10 1 2 192.0.2.38 AQNRU3mG7TVTO2BkR47usntb102uFJtugbo6BSGvgqt4AQ==",
	"OWNER 3600 IN IPSECKEY 10 3 2 mygateway.example.com. AQNRU3mG7TVTO2BkR47usntb102uFJtugbo6BSGvgqt4AQ==",
	"OWNER 3600 IN IPSECKEY 10 0 2 . AQNRU3mG7TVTO2BkR47usntb102uFJtugbo6BSGvgqt4AQ==",
	"OWNER 3600 IN ISDN \"150862028003217\" \"004\"",
	"OWNER 3600 IN KEY 256 3 8 AwEAAagAIKlVZrpC6Ia7gEzahOR+9W29euxhJhVVLOyQbSEW0O8gcCjF",
	"OWNER 3600 IN KX 10 kx.example.org.",
	"OWNER 3600 IN L32 10 10.1.2.0",
	"OWNER 3600 IN L64 10 2001:0db8:1140:1000",
	"OWNER 3600 IN LOC 52 22 23.000 N 4 53 32.000 E -2.00m 0.00m 10000m 10m",
	"OWNER 3600 IN LP 10 l64-subnet1.example.com.",
	"OWNER 3600 IN MB mailbox.example.org.",
	"OWNER 3600 IN MD md.example.org.",
	"OWNER 3600 IN MF mf.example.org.",
	"OWNER 3600 IN MG mg.example.org.",
	"OWNER 3600 IN MINFO rmail.example.org. email.example.org.",
	"OWNER 3600 IN MR mr.example.org.",
	"OWNER 3600 IN MX 10 mail.example.org.",
	"OWNER 3600 IN NAPTR 100 10 \"s\" \"SIP+D2U\" \"!^.*$!sip:info@example.com!\" _sip._udp.example.org.",
	"OWNER 3600 IN NID 10 0014:4fff:ff20:ee64",
	"OWNER 3600 IN NINFO \"some info\" \"more\"",
	"OWNER 3600 IN NS ns1.example.org.",
	"OWNER 3600 IN NSAP-PTR nsap.example.org.",
	"OWNER 3600 IN NSEC next.example.org. A NS SOA MX RRSIG NSEC DNSKEY TYPE1234 TYPE65280",
	"OWNER 3600 IN NSEC3 1 1 12 aabbccdd 2vptu5timamqttgl4luu9kg21e0aor3s A RRSIG",
	"OWNER 3600 IN NSEC3 1 0 0 - 2vptu5timamqttgl4luu9kg21e0aor3s",
	"OWNER 3600 IN NSEC3PARAM 1 0 12 aabbccdd",
	"OWNER 3600 IN NXT next.example.org. A NS",
	"OWNER 3600 IN OPENPGPKEY mQENBFVHm5sBCACu",
	"OWNER 3600 IN PTR host.example.org.",
	"OWNER 3600 IN PX 10 map822.example.org. mapx400.example.org.",
	"OWNER 3600 IN RESINFO \"qnamemin\" \"exterr=15-17\"",
	"OWNER 3600 IN RKEY 0 255 1 AQIDBA==",
	"OWNER 3600 IN RP mbox.example.org. txt.example.org.",
	"OWNER 3600 IN RRSIG A 13 2 3600 20300101000000 20200101000000 12345 example.org. oJMRESz5E4gYzS/q6XDrvU1qMPYIjCWzJaOau8XNEZeqCYKD5ar0IRd8KqXXFJkqmVfRvMGPmM1x8fGAa2XhSA==",
	"OWNER 3600 IN RT 10 rt.example.org.",
	"OWNER 3600 IN SIG A 13 2 3600 20300101000000 20200101000000 12345 example.org. oJMRESz5E4gYzS/q6XDrvU1qMPYIjCWzJaOau8XNEZeqCYKD5ar0IRd8KqXXFJkqmVfRvMGPmM1x8fGAa2XhSA==",
	"OWNER 3600 IN SMIMEA 3 1 1 0102030405060708090a0b0c0d0e0f101112131415161718191a1b1c1d1e1f20",
	"OWNER 3600 IN SOA ns.example.org. hostmaster.example.org. 2024010101 7200 3600 1209600 3600",
	"OWNER 3600 IN SPF \"v=spf1 -all\"",
	"OWNER 3600 IN SRV 1 2 5060 sip.example.org.",
	"OWNER 3600 IN SSHFP 4 2 0102030405060708090a0b0c0d0e0f101112131415161718191a1b1c1d1e1f20",
	"OWNER 3600 IN SVCB 1 svc.example.org. alpn=h2 no-default-alpn port=53 mandatory=alpn,port dohpath=/dns-query{?dns} ohttp",
	"OWNER 3600 IN SVCB 0 alias.example.org.",
	"OWNER 3600 IN TA 12345 8 2 0102030405060708090a0b0c0d0e0f101112131415161718191a1b1c1d1e1f20",
	"OWNER 3600 IN TALINK prev.example.org. next.example.org.",
	"OWNER 3600 IN TLSA 3 1 1 0102030405060708090a0b0c0d0e0f101112131415161718191a1b1c1d1e1f20",
	"OWNER 3600 IN TXT \"plain text\" \"second string\"",
	"OWNER 3600 IN TXT \"with \\\"quotes\\\" \\\\ and \\001\\200\\255 octets\"",
	"OWNER 3600 IN UID 1000",
	"OWNER 3600 IN GID 1000",
	"OWNER 3600 IN UINFO \"user info\"",
	"OWNER 3600 IN URI 10 1 \"https://example.org/path?q=1\"",
	"OWNER 3600 IN X25 311061700956",
	"OWNER 3600 IN ZONEMD 2018031900 1 1 a3b69bad980a3504e1cc3fb4f3c0ee6f4a8fcf2aea3e4f4b7f5e4c3d2b1a09f8e7d6c5b4a39281706f5e4d3c2b1a0f9e",
	"OWNER 3600 IN EID 0102030405",
	"OWNER 3600 IN NIMLOC 0a0b0c",
	"OWNER 3600 IN NULL \\# 4 01020304",
	"OWNER 3600 IN TYPE65280 \\# 5 0102030405",
	"OWNER 3600 IN TYPE731 \\# 0",
	"OWNER 3600 CH TXT \"chaos class\"",
}

var Owners = []string{"example.org.", "www.example.org.", "a.b.c.example.org.", "EXAMPLE.Org.", "other.test.", ".",
	"esc\\.aped.example.org.", "bin\\000ary.example.org.", "x\\200y.example.org.", "_sip._tcp.example.org.",
	"very-long-label-aaaaaaaaaaaaaaaaaaaaaaaaaaaaaaaaaaaaaaaaaaaa.example.org."}

// All parses every text with the given owner; records that do not parse are a harness bug.
func All(owner string) ([]dns.RR, error) {
	var out []dns.RR
	for _, t := range Texts {
		rr, err := dns.NewRR(strings.Replace(t, "OWNER", owner, 1))
		if err != nil || rr == nil {
			return nil, fmt.Errorf("zoo text %q does not parse: %v", t, err)
		}
		out = append(out, rr)
	}
	return out, nil
}

// Opt returns an OPT record carrying one option of every kind the library knows.
func Opt() *dns.OPT {
	o := new(dns.OPT)
	o.Hdr.Name = "."
	o.Hdr.Rrtype = dns.TypeOPT
	o.SetUDPSize(4096)
	o.SetDo()
	o.Option = []dns.EDNS0{
		&dns.EDNS0_NSID{Code: dns.EDNS0NSID, Nsid: "6e736964"},
		&dns.EDNS0_SUBNET{Code: dns.EDNS0SUBNET, Family: 1, SourceNetmask: 24, SourceScope: 0, Address: []byte{192, 0, 2, 0}},
		&dns.EDNS0_SUBNET{Code: dns.EDNS0SUBNET, Family: 2, SourceNetmask: 56, SourceScope: 0, Address: []byte{0x20, 0x01, 0x0d, 0xb8, 0, 0, 0, 0, 0, 0, 0, 0, 0, 0, 0, 0}},
		&dns.EDNS0_COOKIE{Code: dns.EDNS0COOKIE, Cookie: "0102030405060708090a0b0c0d0e0f10"},
		&dns.EDNS0_UL{Code: dns.EDNS0UL, Lease: 3600, KeyLease: 7200},
		&dns.EDNS0_LLQ{Code: dns.EDNS0LLQ, Version: 1, Opcode: 1, Error: 0, Id: 0x0102030405060708, LeaseLife: 3600},
		&dns.EDNS0_DAU{Code: dns.EDNS0DAU, AlgCode: []uint8{8, 13, 15}},
		&dns.EDNS0_DHU{Code: dns.EDNS0DHU, AlgCode: []uint8{1, 2, 4}},
		&dns.EDNS0_N3U{Code: dns.EDNS0N3U, AlgCode: []uint8{1}},
		&dns.EDNS0_EXPIRE{Code: dns.EDNS0EXPIRE, Expire: 86400},
		&dns.EDNS0_TCP_KEEPALIVE{Code: dns.EDNS0TCPKEEPALIVE, Timeout: 100},
		&dns.EDNS0_PADDING{Padding: make([]byte, 7)},
		&dns.EDNS0_EDE{InfoCode: dns.ExtendedErrorCodeStaleAnswer, ExtraText: "stale"},
		&dns.EDNS0_ESU{Code: dns.EDNS0ESU, Uri: "sip:+123@example.org"},
		&dns.EDNS0_LOCAL{Code: dns.EDNS0LOCALSTART + 1, Data: []byte{1, 2, 3}},
		&dns.EDNS0_REPORTING{Code: dns.EDNS0REPORTING, AgentDomain: "agent.example.org."},
		&dns.EDNS0_ZONEVERSION{Code: dns.EDNS0ZONEVERSION, LabelCount: 2, Type: 0, Version: "\x78\x49\x9d\x01"},
	}
	return o
}

// Msg builds a random message from the zoo.
func Msg(r *rand.Rand, all []dns.RR, maxPerSection int, withOpt bool) *dns.Msg {
	m := new(dns.Msg)
	m.Id = uint16(r.Intn(65536))
	m.Response = r.Intn(2) == 0
	m.Opcode = []int{0, 0, 0, 4, 5}[r.Intn(5)]
	m.RecursionDesired = r.Intn(2) == 0
	m.Compress = r.Intn(2) == 0
	m.Question = []dns.Question{{Name: Owners[r.Intn(len(Owners))], Qtype: uint16(1 + r.Intn(60)), Qclass: 1}}
	pick := func() []dns.RR {
		var s []dns.RR
		for k := r.Intn(maxPerSection + 1); k > 0; k-- {
			s = append(s, dns.Copy(all[r.Intn(len(all))]))
		}
		return s
	}
	m.Answer, m.Ns, m.Extra = pick(), pick(), pick()
	if withOpt {
		m.Extra = append(m.Extra, Opt())
	}
	return m
}
