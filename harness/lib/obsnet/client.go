package obsnet

import (
	"net"
	"sync"
	"time"
)

// CallLog is what a client-side connection saw at one Write or Read: the deadline in force
// for that direction (as it was set, relative to the clock at the Set call) and, for a Read,
// the size of the buffer offered.
type CallLog struct {
	Kind     string // "write" | "read"
	Deadline Rel
	HasDL    bool // a deadline was ever set for that direction
	N        int  // len(p)
}

// ClientConn is the client end of an in-memory exchange with a scripted peer: whatever is
// written is handed to Reply, whose result becomes readable.  It is a stream; PacketClient
// wraps it into something that also is a net.PacketConn (so that dns.Conn treats it as UDP).
type ClientConn struct {
	// Reply maps one Write's octets to the octets the peer sends back (nil: nothing).
	Reply func(written []byte) []byte

	mu     sync.Mutex
	in     []byte // stream mode: octets readable
	pkts   [][]byte
	packet bool
	rdl    Rel
	wdl    Rel
	hasR   bool
	hasW   bool
	calls  []CallLog
	sets   []string // the Set*Deadline calls in order: "dl" | "rdl" | "wdl"
	closed bool
}

func NewClientConn(reply func([]byte) []byte) *ClientConn { return &ClientConn{Reply: reply} }

func (c *ClientConn) Write(p []byte) (int, error) {
	c.mu.Lock()
	defer c.mu.Unlock()
	c.calls = append(c.calls, CallLog{"write", c.wdl, c.hasW, len(p)})
	if c.Reply != nil {
		if r := c.Reply(append([]byte(nil), p...)); r != nil {
			if c.packet {
				c.pkts = append(c.pkts, r)
			} else {
				c.in = append(c.in, r...)
			}
		}
	}
	return len(p), nil
}

func (c *ClientConn) Read(p []byte) (int, error) {
	c.mu.Lock()
	defer c.mu.Unlock()
	c.calls = append(c.calls, CallLog{"read", c.rdl, c.hasR, len(p)})
	if c.packet {
		if len(c.pkts) == 0 {
			return 0, ErrTimeout // nothing will ever come: do not block
		}
		n := copy(p, c.pkts[0])
		c.pkts = c.pkts[1:]
		return n, nil
	}
	if len(c.in) == 0 {
		return 0, ErrTimeout
	}
	n := copy(p, c.in)
	c.in = c.in[n:]
	return n, nil
}

func (c *ClientConn) Close() error { c.mu.Lock(); c.closed = true; c.mu.Unlock(); return nil }

func (c *ClientConn) SetDeadline(t time.Time) error {
	c.mu.Lock()
	defer c.mu.Unlock()
	c.rdl, c.wdl, c.hasR, c.hasW = rel(t), rel(t), true, true
	c.sets = append(c.sets, "dl")
	return nil
}

func (c *ClientConn) SetReadDeadline(t time.Time) error {
	c.mu.Lock()
	defer c.mu.Unlock()
	c.rdl, c.hasR = rel(t), true
	c.sets = append(c.sets, "rdl")
	return nil
}

func (c *ClientConn) SetWriteDeadline(t time.Time) error {
	c.mu.Lock()
	defer c.mu.Unlock()
	c.wdl, c.hasW = rel(t), true
	c.sets = append(c.sets, "wdl")
	return nil
}

func (c *ClientConn) LocalAddr() net.Addr  { return Addr("client") }
func (c *ClientConn) RemoteAddr() net.Addr { return Addr("server") }

// Calls returns the Write / Read calls so far.
func (c *ClientConn) Calls() []CallLog {
	c.mu.Lock()
	defer c.mu.Unlock()
	return append([]CallLog(nil), c.calls...)
}

// PacketClient is a ClientConn that is also a net.PacketConn: dns.Conn takes its datagram paths.
type PacketClient struct{ *ClientConn }

func NewPacketClient(reply func([]byte) []byte) PacketClient {
	c := NewClientConn(reply)
	c.packet = true
	return PacketClient{c}
}

func (p PacketClient) ReadFrom(b []byte) (int, net.Addr, error) {
	n, err := p.Read(b)
	return n, p.RemoteAddr(), err
}

func (p PacketClient) WriteTo(b []byte, _ net.Addr) (int, error) { return p.Write(b) }
