// Package obsnet holds small in-memory transports that OBSERVE what the code under test
// asks of them instead of acting on the clock:
//
//   - every Set*Deadline argument is reported as the duration relative to the clock at the
//     moment of the call (so the harness sees "2s", "1h" ... and never has to wait);
//   - a deadline in the future never fires; a deadline that is already in the past when it is
//     set fails the pending and every later read at once (that is how dns.Server unblocks
//     its readers on shutdown);
//   - every Write / WriteTo / Close call is logged with its argument.
//
// Server side (this file): Listener, Conn (optionally TLS-like), PacketConn -- the harness
// plays the clients.  Client side: see client.go.
package obsnet

import (
	"crypto/tls"
	"errors"
	"io"
	"net"
	"sync"
	"time"
)

// Addr is a fake address.
type Addr string

func (a Addr) Network() string { return "obs" }
func (a Addr) String() string  { return string(a) }

type timeoutErr struct{}

func (timeoutErr) Error() string   { return "obsnet: i/o timeout" }
func (timeoutErr) Timeout() bool   { return true }
func (timeoutErr) Temporary() bool { return true }

// ErrTimeout is what a read returns when its deadline was set in the past.
var ErrTimeout net.Error = timeoutErr{}

// ErrClosed is returned by operations on a closed endpoint.
var ErrClosed = errors.New("obsnet: use of closed network connection")

// ErrRefused is what a Conn with FailWriteAt returns from the refused writes.
var ErrRefused = errors.New("obsnet: write refused (connection reset by peer)")

// Rel is a deadline relative to the clock at the time it was set.
type Rel struct {
	Zero bool          // the zero time: no deadline
	D    time.Duration // otherwise time.Until(t) at the call
}

func rel(t time.Time) Rel {
	if t.IsZero() {
		return Rel{Zero: true}
	}
	return Rel{D: time.Until(t)}
}

// Past reports whether the deadline was already over when it was set.
func (r Rel) Past() bool { return !r.Zero && r.D <= 0 }

// Sink receives the observations.  It is called with the object's mutex held: it must not
// block or call back into the object.
type Sink func(kind string, r Rel, n int)

// ---------------------------------------------------------------- Listener

type Listener struct {
	mu     sync.Mutex
	cond   *sync.Cond
	queue  []net.Conn
	closed bool
}

func NewListener() *Listener {
	l := &Listener{}
	l.cond = sync.NewCond(&l.mu)
	return l
}

// Connect queues c for Accept.
func (l *Listener) Connect(c net.Conn) bool {
	l.mu.Lock()
	defer l.mu.Unlock()
	if l.closed {
		return false
	}
	l.queue = append(l.queue, c)
	l.cond.Broadcast()
	return true
}

func (l *Listener) Accept() (net.Conn, error) {
	l.mu.Lock()
	defer l.mu.Unlock()
	for !l.closed && len(l.queue) == 0 {
		l.cond.Wait()
	}
	if l.closed {
		return nil, ErrClosed
	}
	c := l.queue[0]
	l.queue = l.queue[1:]
	return c, nil
}

func (l *Listener) Close() error {
	l.mu.Lock()
	defer l.mu.Unlock()
	if l.closed {
		return ErrClosed
	}
	l.closed = true
	l.cond.Broadcast()
	return nil
}

func (l *Listener) Addr() net.Addr { return Addr("obs-listener") }

// ---------------------------------------------------------------- Conn

// Conn is the server side of a stream connection.
type Conn struct {
	Name string
	Sink Sink // may be nil
	// FailWriteAt > 0: the FailWriteAt-th Write (counting every call) and all later ones are refused
	// with an error and reach nothing ("write-refused" is reported).
	FailWriteAt int

	mu        sync.Mutex
	cond      *sync.Cond
	nwrites   int
	in        []byte
	closed    bool
	cliClosed bool
	past      bool
	writes    [][]byte
	closes    int
}

func NewConn(name string, sink Sink) *Conn {
	c := &Conn{Name: name, Sink: sink}
	c.cond = sync.NewCond(&c.mu)
	return c
}

func (c *Conn) report(kind string, r Rel, n int) {
	if c.Sink != nil {
		c.Sink(kind, r, n)
	}
}

// ClientSend appends octets to the stream the server reads.
func (c *Conn) ClientSend(b []byte) {
	c.mu.Lock()
	defer c.mu.Unlock()
	c.in = append(c.in, b...)
	c.cond.Broadcast()
}

// ClientClose closes the client's end: the server reads EOF after the queued octets.
func (c *Conn) ClientClose() {
	c.mu.Lock()
	defer c.mu.Unlock()
	c.cliClosed = true
	c.cond.Broadcast()
}

func (c *Conn) Read(p []byte) (int, error) {
	c.mu.Lock()
	defer c.mu.Unlock()
	for !c.closed && !c.past && len(c.in) == 0 && !c.cliClosed {
		c.cond.Wait()
	}
	switch {
	case c.closed:
		return 0, ErrClosed
	case c.past:
		return 0, ErrTimeout
	case len(c.in) > 0:
		n := copy(p, c.in)
		c.in = c.in[n:]
		return n, nil
	default:
		return 0, io.EOF
	}
}

func (c *Conn) Write(p []byte) (int, error) {
	c.mu.Lock()
	defer c.mu.Unlock()
	if c.closed {
		c.report("write-closed", Rel{}, len(p))
		return 0, ErrClosed
	}
	c.nwrites++
	if c.FailWriteAt > 0 && c.nwrites >= c.FailWriteAt {
		c.report("write-refused", Rel{}, len(p))
		return 0, ErrRefused
	}
	c.writes = append(c.writes, append([]byte(nil), p...))
	c.report("write", Rel{}, len(c.writes))
	return len(p), nil
}

func (c *Conn) Close() error {
	c.mu.Lock()
	defer c.mu.Unlock()
	c.closes++
	c.report("close", Rel{}, c.closes)
	if c.closed {
		return ErrClosed
	}
	c.closed = true
	c.cond.Broadcast()
	return nil
}

func (c *Conn) SetReadDeadline(t time.Time) error {
	c.mu.Lock()
	defer c.mu.Unlock()
	r := rel(t)
	c.past = r.Past()
	c.report("rdl", r, 0)
	c.cond.Broadcast()
	if c.closed {
		return ErrClosed
	}
	return nil
}

func (c *Conn) SetWriteDeadline(t time.Time) error {
	c.mu.Lock()
	defer c.mu.Unlock()
	c.report("wdl", rel(t), 0)
	return nil
}

func (c *Conn) SetDeadline(t time.Time) error {
	c.mu.Lock()
	defer c.mu.Unlock()
	r := rel(t)
	c.past = r.Past()
	c.report("dl", r, 0)
	c.cond.Broadcast()
	return nil
}

func (c *Conn) LocalAddr() net.Addr  { return Addr("srv:" + c.Name) }
func (c *Conn) RemoteAddr() net.Addr { return Addr("cli:" + c.Name) }

// Writes returns every Write call's argument so far.
func (c *Conn) Writes() [][]byte {
	c.mu.Lock()
	defer c.mu.Unlock()
	return append([][]byte(nil), c.writes...)
}

// Closes returns the number of Close calls so far; Closed whether the server side is closed.
func (c *Conn) Closes() int  { c.mu.Lock(); defer c.mu.Unlock(); return c.closes }
func (c *Conn) Closed() bool { c.mu.Lock(); defer c.mu.Unlock(); return c.closed }

// Unread returns the number of octets the server has not read.
func (c *Conn) Unread() int { c.mu.Lock(); defer c.mu.Unlock(); return len(c.in) }

// TLSConn is a Conn that also answers ConnectionState(), as *tls.Conn does.
type TLSConn struct{ *Conn }

// TLSMarker is the ServerName of the state a TLSConn reports.
const TLSMarker = "obsnet.example"

func (c TLSConn) ConnectionState() tls.ConnectionState {
	return tls.ConnectionState{Version: tls.VersionTLS13, HandshakeComplete: true, ServerName: TLSMarker}
}

// ---------------------------------------------------------------- PacketConn

// Datagram is one WriteTo call.
type Datagram struct {
	Data []byte
	To   net.Addr
}

type inPkt struct {
	data []byte
	from net.Addr
}

// PacketConn is a generic net.PacketConn (not a *net.UDPConn: dns.Server takes its
// ReadPacketConn path and keeps the source address as the session).
type PacketConn struct {
	Name string
	Sink Sink

	mu     sync.Mutex
	cond   *sync.Cond
	in     []inPkt
	out    []Datagram
	closed bool
	past   bool
	closes int
}

func NewPacketConn(name string, sink Sink) *PacketConn {
	p := &PacketConn{Name: name, Sink: sink}
	p.cond = sync.NewCond(&p.mu)
	return p
}

func (p *PacketConn) report(kind string, r Rel, n int) {
	if p.Sink != nil {
		p.Sink(kind, r, n)
	}
}

// ClientSend queues one datagram from `from`.
func (p *PacketConn) ClientSend(data []byte, from net.Addr) {
	p.mu.Lock()
	defer p.mu.Unlock()
	p.in = append(p.in, inPkt{append([]byte(nil), data...), from})
	p.cond.Broadcast()
}

func (p *PacketConn) ReadFrom(b []byte) (int, net.Addr, error) {
	p.mu.Lock()
	defer p.mu.Unlock()
	for !p.closed && !p.past && len(p.in) == 0 {
		p.cond.Wait()
	}
	switch {
	case p.closed:
		return 0, nil, ErrClosed
	case p.past:
		return 0, nil, ErrTimeout
	}
	k := p.in[0]
	p.in = p.in[1:]
	n := copy(b, k.data)
	return n, k.from, nil
}

func (p *PacketConn) WriteTo(b []byte, to net.Addr) (int, error) {
	p.mu.Lock()
	defer p.mu.Unlock()
	if p.closed {
		p.report("write-closed", Rel{}, len(b))
		return 0, ErrClosed
	}
	p.out = append(p.out, Datagram{append([]byte(nil), b...), to})
	p.report("write", Rel{}, len(b))
	return len(b), nil
}

func (p *PacketConn) Close() error {
	p.mu.Lock()
	defer p.mu.Unlock()
	p.closes++
	p.report("close", Rel{}, p.closes)
	if p.closed {
		return ErrClosed
	}
	p.closed = true
	p.cond.Broadcast()
	return nil
}

func (p *PacketConn) SetReadDeadline(t time.Time) error {
	p.mu.Lock()
	defer p.mu.Unlock()
	r := rel(t)
	p.past = r.Past()
	p.report("rdl", r, 0)
	p.cond.Broadcast()
	return nil
}

func (p *PacketConn) SetWriteDeadline(t time.Time) error {
	p.mu.Lock()
	defer p.mu.Unlock()
	p.report("wdl", rel(t), 0)
	return nil
}

func (p *PacketConn) SetDeadline(t time.Time) error {
	p.mu.Lock()
	defer p.mu.Unlock()
	r := rel(t)
	p.past = r.Past()
	p.report("dl", r, 0)
	p.cond.Broadcast()
	return nil
}

func (p *PacketConn) LocalAddr() net.Addr { return Addr("srv:" + p.Name) }

// Out returns every WriteTo call so far.
func (p *PacketConn) Out() []Datagram {
	p.mu.Lock()
	defer p.mu.Unlock()
	return append([]Datagram(nil), p.out...)
}

func (p *PacketConn) Closes() int  { p.mu.Lock(); defer p.mu.Unlock(); return p.closes }
func (p *PacketConn) Closed() bool { p.mu.Lock(); defer p.mu.Unlock(); return p.closed }
