// Package memnet is a small in-memory network for the C12 / C14 harnesses: stream
// connections whose segmentation, short writes and early EOF are scripted, a listener
// handing such connections to a real dns.Server, and datagram endpoints (a server side
// net.PacketConn and client side conns that are net.Conn + net.PacketConn).
//
// Nothing here sleeps or polls: every wait is on a condition variable, and the only
// clock use is honouring real read/write deadlines set by the code under test.
package memnet

import (
	"errors"
	"io"
	"net"
	"sync"
	"time"
)

// Addr is a fake network address.
type Addr string

func (a Addr) Network() string { return "mem" }
func (a Addr) String() string  { return string(a) }

type timeoutErr struct{}

func (timeoutErr) Error() string   { return "memnet: i/o timeout" }
func (timeoutErr) Timeout() bool   { return true }
func (timeoutErr) Temporary() bool { return true }

// ErrTimeout is what a read or write returns when its deadline passed (a net.Error with Timeout() = true).
var ErrTimeout net.Error = timeoutErr{}

// ErrClosed is returned by operations on a closed endpoint.
var ErrClosed = errors.New("memnet: use of closed connection")

// DeadlineRec is one SetReadDeadline / SetDeadline call as an endpoint saw it: the absolute time asked for (zero = none)
// and how many Write calls the endpoint had made by then.
type DeadlineRec struct {
	T      time.Time
	Writes int
}

// deadline belongs to an object protected by mu/cond of its owner.
type deadline struct {
	t     time.Time
	timer *time.Timer
}

// set must be called with the owner's lock held.
func (d *deadline) set(t time.Time, mu *sync.Mutex, cond *sync.Cond) {
	if d.timer != nil {
		d.timer.Stop()
		d.timer = nil
	}
	d.t = t
	if !t.IsZero() {
		if dur := time.Until(t); dur > 0 {
			d.timer = time.AfterFunc(dur, func() {
				mu.Lock()
				cond.Broadcast()
				mu.Unlock()
			})
		}
	}
	cond.Broadcast()
}

func (d *deadline) expired() bool { return !d.t.IsZero() && !time.Now().Before(d.t) }

// ---------------------------------------------------------------------------- streams

// Script controls how one direction of a stream behaves.  The zero value is an ideal
// pipe: everything written is readable at once.
type Script struct {
	// Chunks: the network hands the reader octets in units of these sizes; the next
	// unit is released only when the reader asks and nothing released is left.  After
	// the list is used up everything available is released.
	Chunks []int
	// CutAt >= 0: after that many octets were read the reader sees EOF; later octets are lost.
	CutAt int
	// WriteBudget >= 0 (set with Conn.ScriptWrite): the direction accepts that many octets in
	// all; the Write call that would exceed it is cut short and fails with a timeout error, as
	// a real conn does when its write deadline passes half way, and so does every later one.
	// DryTimeout: a Read that finds nothing to deliver fails with a timeout error at once
	// (a deadline that passes while the peer is silent, without waiting for real time).
	DryTimeout bool
}

type stream struct {
	mu        sync.Mutex
	cond      *sync.Cond
	buf       []byte
	released  int // octets of buf the reader may take now
	chunkIdx  int
	delivered int
	wclosed   bool
	rclosed   bool
	rd, wd    deadline
	sc        Script
	budget    int // -1: unlimited
	nwrite    int
	writes    []int // size of every Write call, in order
	total     int   // octets ever written
	// alternation of concurrent writers (see Conn.Alternate)
	altN      int
	altDone   int
	altWait   int
	altSerial int
}

func newStream() *stream {
	s := &stream{budget: -1}
	s.sc.CutAt = -1
	s.cond = sync.NewCond(&s.mu)
	return s
}

func (s *stream) read(p []byte) (int, error) {
	s.mu.Lock()
	defer s.mu.Unlock()
	if len(p) == 0 {
		return 0, nil
	}
	for {
		if s.rclosed {
			return 0, ErrClosed
		}
		if s.sc.CutAt >= 0 && s.delivered >= s.sc.CutAt {
			return 0, io.EOF
		}
		if s.released == 0 {
			// release the next unit
			want := 0
			if s.chunkIdx < len(s.sc.Chunks) {
				want = s.sc.Chunks[s.chunkIdx]
				if want <= 0 {
					s.chunkIdx++
					continue
				}
				if len(s.buf) >= want || (s.wclosed && len(s.buf) > 0) {
					if want > len(s.buf) {
						want = len(s.buf)
					}
					s.released = want
					s.chunkIdx++
				}
			} else if len(s.buf) > 0 {
				s.released = len(s.buf)
			}
		}
		if s.released > 0 {
			n := s.released
			if n > len(p) {
				n = len(p)
			}
			if s.sc.CutAt >= 0 && s.delivered+n > s.sc.CutAt {
				n = s.sc.CutAt - s.delivered
			}
			copy(p, s.buf[:n])
			s.buf = s.buf[n:]
			s.released -= n
			s.delivered += n
			return n, nil
		}
		if s.wclosed && len(s.buf) == 0 {
			return 0, io.EOF
		}
		if s.rd.expired() {
			return 0, ErrTimeout
		}
		if s.sc.DryTimeout && len(s.buf) == 0 {
			return 0, ErrTimeout
		}
		s.cond.Wait()
	}
}

func (s *stream) write(p []byte) (int, error) {
	s.mu.Lock()
	defer s.mu.Unlock()
	if s.wclosed || s.rclosed {
		return 0, io.ErrClosedPipe
	}
	if s.wd.expired() {
		return 0, ErrTimeout
	}
	s.nwrite++
	n := len(p)
	var err error
	if s.budget >= 0 {
		if n > s.budget {
			n, err = s.budget, ErrTimeout
		}
		s.budget -= n
	}
	s.buf = append(s.buf, p[:n]...)
	s.writes = append(s.writes, n)
	s.total += n
	s.cond.Broadcast()
	if s.altN > 0 && err == nil {
		// Let another writer in between two Write calls of the same goroutine: wait until a
		// later Write call happened, or everybody else is waiting here or has finished.
		s.altSerial++
		my := s.altSerial
		s.altWait++
		for s.altSerial == my && s.altWait+s.altDone < s.altN && !s.rclosed && !s.wclosed {
			s.cond.Wait()
		}
		s.altWait--
	}
	return n, err
}

// Conn is one end of an in-memory stream connection (a net.Conn, not a net.PacketConn).
type Conn struct {
	r, w         *stream
	laddr, raddr Addr
	once         sync.Once
	dlmu         sync.Mutex
	dlog         []DeadlineRec
}

// ReadDeadlines returns every read deadline set on this end so far, in order.
func (c *Conn) ReadDeadlines() []DeadlineRec {
	c.dlmu.Lock()
	defer c.dlmu.Unlock()
	return append([]DeadlineRec(nil), c.dlog...)
}

// SetChunks replaces the chunking of the direction this end reads from and starts it afresh.
func (c *Conn) SetChunks(chunks []int) {
	c.r.mu.Lock()
	c.r.sc.Chunks = chunks
	c.r.chunkIdx = 0
	c.r.cond.Broadcast()
	c.r.mu.Unlock()
}

// Pipe returns the two ends of a buffered in-memory stream connection.
func Pipe() (*Conn, *Conn) {
	a, b := newStream(), newStream()
	return &Conn{r: a, w: b, laddr: "mem-client", raddr: "mem-server"},
		&Conn{r: b, w: a, laddr: "mem-server", raddr: "mem-client"}
}

// ScriptRead sets the script of the direction this end reads from.  Call before use.
func (c *Conn) ScriptRead(sc Script) {
	c.r.mu.Lock()
	c.r.sc = sc
	c.r.cond.Broadcast()
	c.r.mu.Unlock()
}

// ScriptWrite: the direction this end writes to accepts only budget more octets (-1: no limit).
func (c *Conn) ScriptWrite(budget int) {
	c.w.mu.Lock()
	c.w.budget = budget
	c.w.mu.Unlock()
}

// SetDryTimeout makes reads on this end fail with a timeout as soon as nothing is left to read.
func (c *Conn) SetDryTimeout(on bool) {
	c.r.mu.Lock()
	c.r.sc.DryTimeout = on
	c.r.cond.Broadcast()
	c.r.mu.Unlock()
}

// Alternate(n): n goroutines are going to write on this end concurrently; after each
// Write call the caller is held until another Write call happened (or all others wait or
// are done), so two Write calls of one goroutine are never adjacent when another writer
// has something to say.  Each writer calls WriterDone when it has finished.
func (c *Conn) Alternate(n int) {
	c.w.mu.Lock()
	c.w.altN, c.w.altDone, c.w.altWait = n, 0, 0
	c.w.mu.Unlock()
}

func (c *Conn) WriterDone() {
	c.w.mu.Lock()
	c.w.altDone++
	c.w.cond.Broadcast()
	c.w.mu.Unlock()
}

// WriteSizes returns the size of every Write call made on this end so far.
func (c *Conn) WriteSizes() []int {
	c.w.mu.Lock()
	defer c.w.mu.Unlock()
	return append([]int(nil), c.w.writes...)
}

// Delivered is the number of octets this end has read so far.
func (c *Conn) Delivered() int {
	c.r.mu.Lock()
	defer c.r.mu.Unlock()
	return c.r.delivered
}

func (c *Conn) Read(p []byte) (int, error)  { return c.r.read(p) }
func (c *Conn) Write(p []byte) (int, error) { return c.w.write(p) }

// CloseWrite ends the outgoing direction: the peer reads EOF after the buffered octets.
func (c *Conn) CloseWrite() {
	c.w.mu.Lock()
	c.w.wclosed = true
	c.w.cond.Broadcast()
	c.w.mu.Unlock()
}

func (c *Conn) Close() error {
	c.once.Do(func() {
		c.CloseWrite()
		c.r.mu.Lock()
		c.r.rclosed = true
		c.r.cond.Broadcast()
		c.r.mu.Unlock()
	})
	return nil
}

func (c *Conn) LocalAddr() net.Addr  { return c.laddr }
func (c *Conn) RemoteAddr() net.Addr { return c.raddr }

func (c *Conn) SetDeadline(t time.Time) error {
	c.SetReadDeadline(t)
	return c.SetWriteDeadline(t)
}

func (c *Conn) SetReadDeadline(t time.Time) error {
	c.w.mu.Lock()
	nw := c.w.nwrite
	c.w.mu.Unlock()
	c.dlmu.Lock()
	c.dlog = append(c.dlog, DeadlineRec{t, nw})
	c.dlmu.Unlock()
	c.r.mu.Lock()
	c.r.rd.set(t, &c.r.mu, c.r.cond)
	c.r.mu.Unlock()
	return nil
}

func (c *Conn) SetWriteDeadline(t time.Time) error {
	c.w.mu.Lock()
	c.w.wd.set(t, &c.w.mu, c.w.cond)
	c.w.mu.Unlock()
	return nil
}

// ---------------------------------------------------------------------------- listener

// Listener hands connections created by Dial to whoever calls Accept.
type Listener struct {
	ch     chan net.Conn
	closed chan struct{}
	once   sync.Once
}

func NewListener() *Listener {
	return &Listener{ch: make(chan net.Conn, 1024), closed: make(chan struct{})}
}

func (l *Listener) Accept() (net.Conn, error) {
	select {
	case c := <-l.ch:
		return c, nil
	case <-l.closed:
		return nil, ErrClosed
	}
}

func (l *Listener) Close() error   { l.once.Do(func() { close(l.closed) }); return nil }
func (l *Listener) Addr() net.Addr { return Addr("mem-listener") }

// Dial returns the client end of a fresh connection whose server end is queued for Accept.
func (l *Listener) Dial() *Conn {
	c, s := Pipe()
	l.DialWith(s)
	return c
}

// DialNamed is Dial with a client address of the caller's choice (what the server sees as RemoteAddr).
func (l *Listener) DialNamed(name string) *Conn {
	c, s := Pipe()
	c.laddr, s.raddr = Addr(name), Addr(name)
	l.DialWith(s)
	return c
}

// PipeNamed is Pipe with a client address of the caller's choice.
func PipeNamed(name string) (*Conn, *Conn) {
	c, s := Pipe()
	c.laddr, s.raddr = Addr(name), Addr(name)
	return c, s
}

// DialWith queues an already prepared server end (so that scripts can be set first).
func (l *Listener) DialWith(serverEnd net.Conn) {
	select {
	case l.ch <- serverEnd:
	case <-l.closed:
	}
}

// ---------------------------------------------------------------------------- datagrams

// Packet is one datagram with its peer address (source when received, destination when sent).
type Packet struct {
	Addr net.Addr
	Data []byte
}

// PacketConn is the server side of an in-memory datagram network: a net.PacketConn that
// is not a *net.UDPConn, so a dns.Server serves it through its generic PacketConn path.
type PacketConn struct {
	mu      sync.Mutex
	cond    *sync.Cond
	in      []Packet
	out     []Packet
	closed  bool
	rd      deadline
	waiting int
	nread   int
	peers   map[string]*DgramConn
	nextID  int
}

func NewPacketConn() *PacketConn {
	pc := &PacketConn{peers: map[string]*DgramConn{}}
	pc.cond = sync.NewCond(&pc.mu)
	return pc
}

// Inject queues a datagram as if it had arrived from addr.
func (pc *PacketConn) Inject(addr net.Addr, data []byte) {
	pc.mu.Lock()
	pc.in = append(pc.in, Packet{addr, append([]byte(nil), data...)})
	pc.cond.Broadcast()
	pc.mu.Unlock()
}

// WaitIdle blocks until every injected datagram has been taken and the reader is back in
// ReadFrom waiting for more (or the conn is closed).  With a single reading loop that is
// the moment at which every earlier datagram has been dispatched.
func (pc *PacketConn) WaitIdle() {
	pc.mu.Lock()
	for !(pc.closed || (len(pc.in) == 0 && pc.waiting > 0)) {
		pc.cond.Wait()
	}
	pc.mu.Unlock()
}

// Received is the number of datagrams the reader has taken so far.
func (pc *PacketConn) Received() int {
	pc.mu.Lock()
	defer pc.mu.Unlock()
	return pc.nread
}

// Sent returns (and keeps) every datagram written with WriteTo so far.
func (pc *PacketConn) Sent() []Packet {
	pc.mu.Lock()
	defer pc.mu.Unlock()
	return append([]Packet(nil), pc.out...)
}

func (pc *PacketConn) ReadFrom(p []byte) (int, net.Addr, error) {
	pc.mu.Lock()
	defer pc.mu.Unlock()
	for {
		if pc.closed {
			return 0, nil, ErrClosed
		}
		if pc.rd.expired() {
			return 0, nil, ErrTimeout
		}
		if len(pc.in) > 0 {
			pk := pc.in[0]
			pc.in = pc.in[1:]
			pc.nread++
			n := copy(p, pk.Data) // a datagram longer than the buffer is cut, as UDP does
			pc.cond.Broadcast()
			return n, pk.Addr, nil
		}
		pc.waiting++
		pc.cond.Broadcast()
		pc.cond.Wait()
		pc.waiting--
	}
}

func (pc *PacketConn) WriteTo(p []byte, addr net.Addr) (int, error) {
	pc.mu.Lock()
	if pc.closed {
		pc.mu.Unlock()
		return 0, ErrClosed
	}
	d := append([]byte(nil), p...)
	pc.out = append(pc.out, Packet{addr, d})
	var peer *DgramConn
	if addr != nil {
		peer = pc.peers[addr.String()]
	}
	pc.mu.Unlock()
	if peer != nil {
		peer.Deliver(d)
	}
	return len(p), nil
}

func (pc *PacketConn) Close() error {
	pc.mu.Lock()
	pc.closed = true
	if pc.rd.timer != nil {
		pc.rd.timer.Stop()
	}
	pc.cond.Broadcast()
	pc.mu.Unlock()
	return nil
}

func (pc *PacketConn) LocalAddr() net.Addr { return Addr("mem-pc-server") }

func (pc *PacketConn) SetDeadline(t time.Time) error { return pc.SetReadDeadline(t) }

func (pc *PacketConn) SetReadDeadline(t time.Time) error {
	pc.mu.Lock()
	pc.rd.set(t, &pc.mu, pc.cond)
	pc.mu.Unlock()
	return nil
}

func (pc *PacketConn) SetWriteDeadline(t time.Time) error { return nil }

// Client returns a connected client endpoint: what it writes is injected here, what the
// server writes to its address lands in its inbox.
func (pc *PacketConn) Client(name string) *DgramConn {
	d := NewDgramConn(Addr(name), pc.LocalAddr(), nil)
	d.send = func(data []byte) { pc.Inject(d.laddr, data) }
	pc.mu.Lock()
	pc.peers[name] = d
	pc.mu.Unlock()
	return d
}

// DgramConn is a connected datagram endpoint: a net.Conn that is also a net.PacketConn,
// which is how the dns client recognises a datagram transport.
type DgramConn struct {
	mu           sync.Mutex
	cond         *sync.Cond
	inbox        [][]byte
	closed       bool
	dry          bool
	rd           deadline
	laddr, raddr net.Addr
	send         func(data []byte)
	nsent        int
	dlog         []DeadlineRec
}

// ReadDeadlines returns every read deadline set on this endpoint so far, in order.
func (d *DgramConn) ReadDeadlines() []DeadlineRec {
	d.mu.Lock()
	defer d.mu.Unlock()
	return append([]DeadlineRec(nil), d.dlog...)
}

// NewDgramConn makes an endpoint whose outgoing datagrams are given to send.
func NewDgramConn(laddr, raddr net.Addr, send func(data []byte)) *DgramConn {
	d := &DgramConn{laddr: laddr, raddr: raddr, send: send}
	d.cond = sync.NewCond(&d.mu)
	return d
}

// Deliver puts a datagram into the inbox.
func (d *DgramConn) Deliver(data []byte) {
	d.mu.Lock()
	d.inbox = append(d.inbox, append([]byte(nil), data...))
	d.cond.Broadcast()
	d.mu.Unlock()
}

// SetDryTimeout: a Read that finds the inbox empty fails with a timeout at once.
func (d *DgramConn) SetDryTimeout(on bool) {
	d.mu.Lock()
	d.dry = on
	d.cond.Broadcast()
	d.mu.Unlock()
}

func (d *DgramConn) Read(p []byte) (int, error) {
	d.mu.Lock()
	defer d.mu.Unlock()
	for {
		if d.closed {
			return 0, ErrClosed
		}
		if len(d.inbox) > 0 {
			m := d.inbox[0]
			d.inbox = d.inbox[1:]
			return copy(p, m), nil
		}
		if d.rd.expired() || d.dry {
			return 0, ErrTimeout
		}
		d.cond.Wait()
	}
}

func (d *DgramConn) Write(p []byte) (int, error) {
	d.mu.Lock()
	if d.closed {
		d.mu.Unlock()
		return 0, ErrClosed
	}
	d.nsent++
	send := d.send
	d.mu.Unlock()
	if send != nil {
		send(append([]byte(nil), p...))
	}
	return len(p), nil
}

func (d *DgramConn) ReadFrom(p []byte) (int, net.Addr, error) {
	n, err := d.Read(p)
	return n, d.raddr, err
}

func (d *DgramConn) WriteTo(p []byte, _ net.Addr) (int, error) { return d.Write(p) }

func (d *DgramConn) Close() error {
	d.mu.Lock()
	d.closed = true
	if d.rd.timer != nil {
		d.rd.timer.Stop()
	}
	d.cond.Broadcast()
	d.mu.Unlock()
	return nil
}

func (d *DgramConn) LocalAddr() net.Addr  { return d.laddr }
func (d *DgramConn) RemoteAddr() net.Addr { return d.raddr }

func (d *DgramConn) SetDeadline(t time.Time) error { return d.SetReadDeadline(t) }

func (d *DgramConn) SetReadDeadline(t time.Time) error {
	d.mu.Lock()
	d.dlog = append(d.dlog, DeadlineRec{t, d.nsent})
	d.rd.set(t, &d.mu, d.cond)
	d.mu.Unlock()
	return nil
}

func (d *DgramConn) SetWriteDeadline(t time.Time) error { return nil }
