package reflectwalk

import (
	"encoding/binary"
	"errors"
	"fmt"
	"net"
	"reflect"
	"sort"
	"strconv"
	"strings"

	"github.com/miekg/dns"
)

// ---------------------------------------------------------------------------
// A private RR type whose rdata has a slice, a nested pointer and a string list.

const TypePriv = 65280

type PrivSub struct {
	Note string
	Raw  []byte
}

type PrivData struct {
	Blob []byte
	Sub  *PrivSub
	Tags []string
}

func (d *PrivData) String() string {
	s := strconv.Quote(string(d.Blob))
	if d.Sub != nil {
		s += " " + strconv.Quote(d.Sub.Note) + " " + strconv.Quote(string(d.Sub.Raw))
	}
	return s + " " + strings.Join(d.Tags, ",")
}
func (d *PrivData) Parse(t []string) error { return errors.New("not used") }
func (d *PrivData) chunks() [][]byte {
	c := [][]byte{d.Blob}
	if d.Sub != nil {
		c = append(c, []byte(d.Sub.Note), d.Sub.Raw)
	} else {
		c = append(c, nil, nil)
	}
	for _, t := range d.Tags {
		c = append(c, []byte(t))
	}
	return c
}
func (d *PrivData) Len() int {
	n := 0
	for _, c := range d.chunks() {
		n += 2 + len(c)
	}
	return n
}
func (d *PrivData) Pack(b []byte) (int, error) {
	off := 0
	for _, c := range d.chunks() {
		if off+2+len(c) > len(b) {
			return off, errors.New("overflow packing private rdata")
		}
		binary.BigEndian.PutUint16(b[off:], uint16(len(c)))
		copy(b[off+2:], c)
		off += 2 + len(c)
	}
	return off, nil
}
func (d *PrivData) Unpack(b []byte) (int, error) {
	var cs [][]byte
	off := 0
	for off < len(b) {
		if off+2 > len(b) {
			return off, errors.New("overflow unpacking private rdata")
		}
		n := int(binary.BigEndian.Uint16(b[off:]))
		off += 2
		if off+n > len(b) {
			return off, errors.New("overflow unpacking private rdata")
		}
		cs = append(cs, append([]byte(nil), b[off:off+n]...))
		off += n
	}
	if len(cs) < 3 {
		return off, errors.New("short private rdata")
	}
	d.Blob = cs[0]
	d.Sub = &PrivSub{Note: string(cs[1]), Raw: cs[2]}
	d.Tags = nil
	for _, c := range cs[3:] {
		d.Tags = append(d.Tags, string(c))
	}
	return off, nil
}
func (d *PrivData) Copy(dst dns.PrivateRdata) error {
	o, ok := dst.(*PrivData)
	if !ok {
		return errors.New("wrong destination")
	}
	o.Blob = append([]byte(nil), d.Blob...)
	if d.Sub != nil {
		o.Sub = &PrivSub{Note: d.Sub.Note, Raw: append([]byte(nil), d.Sub.Raw...)}
	}
	o.Tags = append([]string(nil), d.Tags...)
	return nil
}

func init() {
	dns.PrivateHandle("VERIFPRIV", TypePriv, func() dns.PrivateRdata { return &PrivData{} })
}

// ---------------------------------------------------------------------------

// Kind is one kind of record the C16/C20 harnesses iterate over.
type Kind struct {
	Name  string
	Type  uint16
	Build func() dns.RR // fresh, fully populated instance
}

// Kinds lists every type of dns.TypeToRR (in type-code order), plus RFC3597 (unknown
// type) and the registered private type.
func Kinds() []Kind {
	var ts []int
	for t := range dns.TypeToRR {
		ts = append(ts, int(t))
	}
	sort.Ints(ts)
	var ks []Kind
	for _, t := range ts {
		t := uint16(t)
		name := dns.TypeToString[t]
		if name == "" {
			name = "TYPE" + strconv.Itoa(int(t))
		}
		ks = append(ks, Kind{Name: name, Type: t, Build: func() dns.RR {
			rr := dns.TypeToRR[t]()
			Populate(rr, t)
			return rr
		}})
	}
	ks = append(ks, Kind{Name: "RFC3597", Type: 65000, Build: func() dns.RR {
		rr := &dns.RFC3597{}
		Populate(rr, 65000)
		return rr
	}})
	return ks
}

const (
	hexVal    = "a1b2c3d4e5f60718"                 // 8 octets
	b64Val    = "AQIDBAUGBwgJ"                     // 9 octets
	b32Val    = "0123456789ABCDEFGHIJKLMNOPQRSTUV" // 20 octets, base32hex
	hexOctets = 8
	b64Octets = 9
	b32Octets = 20
)

// Populate fills every field of rr: every slice-typed field non-empty, every EDNS0
// option kind, every SVCB parameter kind, APL prefixes of both families; names carry
// upper-case letters.  The result packs.
func Populate(rr dns.RR, t uint16) {
	v := reflect.ValueOf(rr).Elem()
	h := rr.Header()
	*h = dns.RR_Header{Name: "Host.Example.ORG.", Rrtype: t, Class: dns.ClassINET, Ttl: 3600}
	fillStruct(v, 0)
	switch x := rr.(type) {
	case *dns.OPT:
		x.Hdr.Name = "."
		x.Hdr.Class = 1232
		x.Hdr.Ttl = 0x00038005 // extended RCODE 0, EDNS version 3, DO, Z bits 0x0005: everything Pack must leave alone is non-zero
	case *dns.IPSECKEY:
		x.GatewayType = dns.IPSECGatewayIPv6
		x.GatewayAddr = net.IP{0x20, 0x01, 0x0d, 0xb8, 0, 0, 0, 0, 0, 0, 0, 0, 0, 0, 0, 0x35}
		x.GatewayHost = ""
	case *dns.AMTRELAY:
		x.GatewayType = dns.IPSECGatewayIPv4
		x.GatewayAddr = net.IP{192, 0, 2, 53}
		x.GatewayHost = ""
	case *dns.NSEC3:
		x.Hash = 1
	case *dns.SVCB:
		x.Priority = 1
	case *dns.HTTPS:
		x.Priority = 1
	case *dns.LOC:
		x.Version = 0
	}
}

func fillStruct(v reflect.Value, depth int) {
	t := v.Type()
	for i := 0; i < t.NumField(); i++ {
		f := t.Field(i)
		fv := v.Field(i)
		if f.Type == hdrType {
			continue
		}
		if !fv.CanSet() {
			continue
		}
		tag := f.Tag.Get("dns")
		size := ""
		if k := strings.IndexByte(tag, ':'); k >= 0 {
			tag, size = tag[:k], tag[k+1:]
		}
		n := i + 1
		switch fv.Kind() {
		case reflect.Struct:
			fillStruct(fv, depth+1)
		case reflect.Bool:
			fv.SetBool(true)
		case reflect.Uint8, reflect.Uint16, reflect.Uint32, reflect.Uint64:
			if fv.Uint() == 0 { // a size field may have been set by the field it measures
				fv.SetUint(uint64(n))
			}
		case reflect.String:
			octets := 0
			switch tag {
			case "domain-name", "cdomain-name":
				fv.SetString("F" + strconv.Itoa(n) + ".Example.ORG.")
			case "hex":
				fv.SetString(hexVal)
			case "size-hex":
				fv.SetString(hexVal)
				octets = hexOctets
			case "base64":
				fv.SetString(b64Val)
			case "size-base64":
				fv.SetString(b64Val)
				octets = b64Octets
			case "size-base32":
				fv.SetString(b32Val)
				octets = b32Octets
			case "octet":
				fv.SetString("Octet-Text" + strconv.Itoa(n))
			case "any":
				fv.SetString("Any\x00Data")
			case "ipsechost", "amtrelayhost":
				fv.SetString("Gw.Example.ORG.")
			default:
				fv.SetString("Text" + strconv.Itoa(n))
			}
			if size != "" {
				v.FieldByName(size).SetUint(uint64(octets))
			}
		case reflect.Slice:
			fv.Set(reflect.ValueOf(sliceFor(f.Type, tag)).Convert(f.Type))
		case reflect.Ptr:
			if f.Type.Elem().Kind() == reflect.Struct {
				p := reflect.New(f.Type.Elem())
				fillStruct(p.Elem(), depth+1)
				fv.Set(p)
			}
		case reflect.Interface:
			if !fv.IsNil() && fv.Elem().Kind() == reflect.Ptr && fv.Elem().Elem().Kind() == reflect.Struct {
				fillStruct(fv.Elem().Elem(), depth+1)
			}
		}
	}
}

func sliceFor(t reflect.Type, tag string) interface{} {
	switch tag {
	case "a", "-":
		return net.IP{192, 0, 2, 53}
	case "aaaa":
		return net.IP{0x20, 0x01, 0x0d, 0xb8, 0, 0, 0, 0, 0, 0, 0, 0, 0, 0, 0, 0x35}
	case "txt":
		return []string{"Alpha", "beta gamma", strings.Repeat("Mx", 127) + "Z", "Z"} // the third one has the maximum length (255)
	case "domain-name":
		return []string{"Rvs1.Example.ORG.", "rvs2.example.org."}
	case "nsec":
		return []uint16{1, 2, 15, 46, 257}
	case "opt":
		return Options()
	case "pairs":
		return Pairs()
	case "apl":
		return Prefixes()
	}
	switch t.Elem().Kind() {
	case reflect.Uint8:
		return []byte{0xde, 0xad, 0xbe, 0xef, 0x01}
	case reflect.String:
		return []string{"TagOne", "tag two"}
	}
	return reflect.MakeSlice(t, 0, 0).Interface()
}

// Options returns one option of every kind edns.go knows (two subnets: both families).
func Options() []dns.EDNS0 {
	return []dns.EDNS0{
		&dns.EDNS0_NSID{Code: dns.EDNS0NSID, Nsid: "a1b2c3"},
		&dns.EDNS0_SUBNET{Code: dns.EDNS0SUBNET, Family: 1, SourceNetmask: 24, SourceScope: 0, Address: net.IP{192, 0, 2, 0}},
		&dns.EDNS0_SUBNET{Code: dns.EDNS0SUBNET, Family: 2, SourceNetmask: 56, SourceScope: 0,
			Address: net.IP{0x20, 0x01, 0x0d, 0xb8, 0, 0x11, 0x22, 0, 0, 0, 0, 0, 0, 0, 0, 0}},
		&dns.EDNS0_SUBNET{Code: dns.EDNS0SUBNET, Family: 1, SourceNetmask: 32, SourceScope: 0, Address: net.IP{192, 0, 2, 77}},
		&dns.EDNS0_SUBNET{Code: dns.EDNS0SUBNET, Family: 1, SourceNetmask: 0, SourceScope: 0, Address: net.IP{0, 0, 0, 0}},
		&dns.EDNS0_SUBNET{Code: dns.EDNS0SUBNET, Family: 2, SourceNetmask: 128, SourceScope: 0,
			Address: net.IP{0x20, 0x01, 0x0d, 0xb8, 0, 0, 0, 0, 0, 0, 0, 0, 0, 0, 0, 0x53}},
		&dns.EDNS0_COOKIE{Code: dns.EDNS0COOKIE, Cookie: "0102030405060708"},
		&dns.EDNS0_UL{Code: dns.EDNS0UL, Lease: 3600, KeyLease: 7200},
		&dns.EDNS0_LLQ{Code: dns.EDNS0LLQ, Version: 1, Opcode: 1, Error: 0, Id: 0x0102030405060708, LeaseLife: 600},
		&dns.EDNS0_DAU{Code: dns.EDNS0DAU, AlgCode: []uint8{8, 13, 15}},
		&dns.EDNS0_DHU{Code: dns.EDNS0DHU, AlgCode: []uint8{1, 2}},
		&dns.EDNS0_N3U{Code: dns.EDNS0N3U, AlgCode: []uint8{1}},
		&dns.EDNS0_EXPIRE{Code: dns.EDNS0EXPIRE, Expire: 86400},
		&dns.EDNS0_LOCAL{Code: 65001, Data: []byte{1, 2, 3, 4}},
		&dns.EDNS0_TCP_KEEPALIVE{Code: dns.EDNS0TCPKEEPALIVE, Timeout: 100},
		&dns.EDNS0_PADDING{Padding: []byte{9, 9, 9, 9, 9, 9}},
		&dns.EDNS0_EDE{InfoCode: dns.ExtendedErrorCodeBlocked, ExtraText: "Blocked By Policy"},
		&dns.EDNS0_ESU{Code: dns.EDNS0ESU, Uri: "sip:User@Example.ORG"},
		&dns.EDNS0_REPORTING{Code: dns.EDNS0REPORTING, AgentDomain: "Agent.Example.ORG."},
		&dns.EDNS0_ZONEVERSION{Code: dns.EDNS0ZONEVERSION, LabelCount: 2, Type: 0, Version: "\x00\x00\x30\x39"},
	}
}

// Pairs returns one SVCB parameter of every kind svcb.go knows, in key order.
func Pairs() []dns.SVCBKeyValue {
	return []dns.SVCBKeyValue{
		&dns.SVCBMandatory{Code: []dns.SVCBKey{dns.SVCB_ALPN, dns.SVCB_PORT}},
		&dns.SVCBAlpn{Alpn: []string{"h2", "H3"}},
		&dns.SVCBNoDefaultAlpn{},
		&dns.SVCBPort{Port: 8443},
		&dns.SVCBIPv4Hint{Hint: []net.IP{{192, 0, 2, 1}, {192, 0, 2, 2}}},
		&dns.SVCBECHConfig{ECH: []byte{0xfe, 0x0d, 0, 1, 2, 3}},
		&dns.SVCBIPv6Hint{Hint: []net.IP{
			{0x20, 0x01, 0x0d, 0xb8, 0, 0, 0, 0, 0, 0, 0, 0, 0, 0, 0, 1},
			{0x20, 0x01, 0x0d, 0xb8, 0, 0, 0, 0, 0, 0, 0, 0, 0, 0, 0, 2}}},
		&dns.SVCBDoHPath{Template: "/dns-query{?dns}"},
		&dns.SVCBOhttp{},
		&dns.SVCBLocal{KeyCode: 65400, Data: []byte{7, 7, 7}},
	}
}

// Prefixes returns APL prefixes of both families in both shapes the codec knows: the
// address shortened (trailing zero octets stripped on the wire) and at full length.
func Prefixes() []dns.APLPrefix {
	return []dns.APLPrefix{
		{Negation: false, Network: net.IPNet{IP: net.IP{192, 0, 2, 0}, Mask: net.CIDRMask(24, 32)}},
		{Negation: true, Network: net.IPNet{IP: net.IP{192, 0, 2, 77}, Mask: net.CIDRMask(32, 32)}},
		{Negation: true, Network: net.IPNet{IP: net.IP{0x20, 0x01, 0x0d, 0xb8, 0, 0, 0, 0, 0, 0, 0, 0, 0, 0, 0, 0}, Mask: net.CIDRMask(32, 128)}},
		{Negation: false, Network: net.IPNet{IP: net.IP{0x20, 0x01, 0x0d, 0xb8, 0, 0, 0, 0, 0, 0, 0, 0, 0, 0, 0, 0x53}, Mask: net.CIDRMask(128, 128)}},
		{Negation: false, Network: net.IPNet{IP: net.IP{0, 0, 0, 0}, Mask: net.CIDRMask(0, 32)}},
	}
}

// ---------------------------------------------------------------------------
// variants of the fully populated instance

func sliceCells(rr dns.RR) []Cell {
	_, cells := WalkCells(rr)
	var out []Cell
	for _, c := range cells {
		if c.Kind == reflect.Slice && !strings.HasSuffix(c.Path, "[append]") && c.V.Len() > 0 {
			out = append(out, c)
		}
	}
	return out
}

// LowerOwner: the owner in lower case (names in the RDATA keep their mixed case).
func LowerOwner(rr dns.RR) { rr.Header().Name = strings.ToLower(rr.Header().Name) }

// Unsort reverses every list of the record (type bitmaps, texts, options, SVCB parameters,
// APL prefixes, ...; octet strings are values, not lists, and keep their order).
func Unsort(rr dns.RR) (changed bool) { return UnsortIf(rr, nil) }

// UnsortIf reverses list by list and asks keep (if not nil) after each whether to keep it.
func UnsortIf(rr dns.RR, keep func() bool) (changed bool) {
	for _, c := range sliceCells(rr) {
		v := c.V
		if v.Type().Elem().Kind() == reflect.Uint8 || v.Len() < 2 {
			continue
		}
		rev := func() {
			tmp := reflect.New(v.Type().Elem()).Elem()
			for i, j := 0, v.Len()-1; i < j; i, j = i+1, j-1 {
				tmp.Set(v.Index(i))
				v.Index(i).Set(v.Index(j))
				v.Index(j).Set(tmp)
			}
		}
		rev()
		if keep != nil && !keep() {
			rev()
			continue
		}
		changed = true
	}
	return
}

// EmptyCap makes slices empty but keeps their capacity (s = s[:0]): the slices of scalars
// and strings, and with containers also the slices of options / parameters / prefixes.
// keep (optional) is asked after each change whether to keep it.
func EmptyCap(rr dns.RR, containers bool, keep func() bool) (changed bool) {
	for _, c := range sliceCells(rr) {
		v := c.V
		if !containers && !scalarKind(v.Type().Elem().Kind()) {
			continue
		}
		old := reflect.New(v.Type()).Elem()
		old.Set(v)
		v.Set(v.Slice(0, 0))
		if keep != nil && !keep() {
			v.Set(old)
			continue
		}
		changed = true
	}
	return
}

// AltSpell gives every field of the RDATA that has more than one accepted spelling in a
// hand-built record another one than Populate's (the canonical one that Unpack and the parser
// produce): the empty salt of NSEC3 / NSEC3PARAM as "-" (with SaltLength 0), hex fields in upper
// case, base32hex fields in lower case, the first letter of an embedded name as \DDD.  The value
// -- what Pack writes -- is that of some well-formed record; only the spelling is unusual, which
// is what tempts an operation to normalise its argument in place.
func AltSpell(rr dns.RR) (changed bool) {
	_, cells := WalkCells(rr)
	for _, c := range cells {
		if c.Ref || c.Kind != reflect.String || strings.Contains(c.Path, ".Hdr.") {
			continue
		}
		old := c.V.String()
		nw := old
		switch {
		case c.Tag == "size-hex" && strings.HasSuffix(c.Path, "Salt"):
			nw = "-"
			if f := reflect.ValueOf(rr).Elem().FieldByName("SaltLength"); f.IsValid() && f.CanSet() {
				f.SetUint(0)
			}
		case c.Tag == "hex" || c.Tag == "size-hex":
			nw = strings.ToUpper(old)
		case c.Tag == "base32" || c.Tag == "size-base32":
			nw = strings.ToLower(old)
		case c.Tag == "domain-name" || c.Tag == "cdomain-name":
			if len(old) > 1 && (old[0] >= 'A' && old[0] <= 'Z' || old[0] >= 'a' && old[0] <= 'z') {
				nw = fmt.Sprintf("\\%03d%s", old[0], old[1:])
			}
		}
		if nw != old {
			c.V.SetString(nw)
			changed = true
		}
	}
	return
}

func roundTrips(rr dns.RR) bool {
	b := make([]byte, dns.Len(rr)+64)
	off, err := dns.PackRR(rr, b, 0, nil, false)
	if err != nil {
		return false
	}
	_, off2, err := dns.UnpackRR(b[:off], 0)
	return err == nil && off2 == off
}

// Variant is a kind derived from a fully populated one.
type Variant struct {
	Kind
	// BuildWire builds the instance whose packing is the wire input for Unpack (nil: the
	// instance itself; for the empty-with-capacity variants: as many slices emptied as the
	// record tolerates while still packing and unpacking, so that zero-length fields are
	// followed by more octets)
	BuildWire func() dns.RR
}

// Variants returns the kind itself and its variants: #lc (lower-case owner), #unsorted,
// #altspell (RDATA fields in another accepted spelling, see AltSpell),
// #emptycap (leaf slices len 0 / cap > 0), #emptyall (container slices too).
func Variants(k Kind) []Variant {
	vs := []Variant{{Kind: k}}
	add := func(suffix string, f func(dns.RR) bool, wire func() dns.RR) {
		if !f(k.Build()) {
			return
		}
		vs = append(vs, Variant{Kind: Kind{Name: k.Name + suffix, Type: k.Type, Build: func() dns.RR {
			rr := k.Build()
			f(rr)
			return rr
		}}, BuildWire: wire})
	}
	add("#lc", func(rr dns.RR) bool { LowerOwner(rr); return true }, nil)
	add("#unsorted", Unsort, nil)
	add("#altspell", AltSpell, nil)
	greedy := func(containers bool) func() dns.RR {
		return func() dns.RR {
			rr := k.Build()
			EmptyCap(rr, containers, func() bool { return roundTrips(rr) })
			return rr
		}
	}
	add("#emptycap", func(rr dns.RR) bool { return EmptyCap(rr, false, nil) }, greedy(false))
	add("#emptyall", func(rr dns.RR) bool {
		has := false
		for _, c := range sliceCells(rr) {
			if !scalarKind(c.V.Type().Elem().Kind()) {
				has = true
			}
		}
		return has && EmptyCap(rr, true, nil)
	}, greedy(true))
	return vs
}
