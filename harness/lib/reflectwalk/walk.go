// Package reflectwalk observes Go object graphs for property C16 (and builds fully
// populated records for C16/C20).
//
// Walk computes, for one root value, the list of MUTABLE backing stores reachable
// from it -- pointees, slice backing arrays (base .. base+cap*elemsize), maps -- in
// depth-first order, each with its address interval and a shallow rendering of its
// content (scalars and strings inline; references rendered by shape only, their
// targets being regions of their own).  Go strings are immutable and are content,
// not regions.  The rendering is a deep printer written for this purpose: it shows
// every field, exported or not, and does not call String().
//
// Documented bookkeeping (RR_Header.Rdlength, the extended-RCODE octet in the TTL of
// an OPT header) is rendered into Snap.Bk instead of the region content.
//
// Cells enumerates every individually writable location of the graph (scalar leaves,
// string fields, slice elements, slice headers, pointers, interfaces, map entries)
// with a mutate/revert pair.
package reflectwalk

import (
	"fmt"
	"reflect"
	"sort"
	"strconv"
	"strings"
	"unsafe"

	"github.com/miekg/dns"
)

// Part is one backing store as the traversal met it.
type Part struct {
	Path   string  // concrete path from the root, e.g. *.Option[1].(*dns.EDNS0_SUBNET)*.Address[]
	Name   string  // type-level name, e.g. edns0-subnet-address (component of finding keys)
	Kind   string  // ptr | slice | map
	Lo, Hi uintptr // [Lo, Hi): the whole store (slices: base .. base+cap*elemsize)
	HiLen  uintptr // [Lo, HiLen): the part the value lives in (slices: base .. base+len*elemsize)
	Exact  string  // shallow content, nil and empty slices distinguished
	Norm   string  // shallow content, nil and empty slices identified
}

// Region is a maximal set of overlapping parts of one object (e.g. the sub-slices
// of one allocation that SVCBIPv4Hint.unpack creates).
type Region struct {
	Lo, Hi uintptr
	Name   string
	Paths  []string
	Exact  string
	Norm   string
}

// Snap is the observable state of one object.
type Snap struct {
	Regions []Region // overlapping stores merged (whole capacity)
	Parts   []Part   // every store as met, depth-first
	Bk      string   // documented bookkeeping, rendered apart
	exact   string
	norm    string
}

// Exact is the deep snapshot used for "unchanged" comparisons.
func (s *Snap) Exact() string {
	if s.exact != "" {
		return s.exact
	}
	var b strings.Builder
	for i := range s.Regions {
		b.WriteString(s.Regions[i].Exact)
		b.WriteByte('\n')
	}
	s.exact = b.String()
	return s.exact
}

// Norm is the value projection used for "copy equals original".
func (s *Snap) Norm() string {
	if s.norm != "" {
		return s.norm
	}
	var b strings.Builder
	for i := range s.Parts {
		if s.Parts[i].HiLen <= s.Parts[i].Lo { // an empty slice has no value, whatever its capacity (nil == empty)
			continue
		}
		b.WriteString(s.Parts[i].Norm)
		b.WriteByte('\n')
	}
	s.norm = b.String()
	return s.norm
}

// FirstDiff names the first region whose exact content differs between two snapshots
// of the same object ("" if none).
func FirstDiff(a, b *Snap) (name, path string) {
	n := len(a.Regions)
	if len(b.Regions) < n {
		n = len(b.Regions)
	}
	for i := 0; i < n; i++ {
		if a.Regions[i].Exact != b.Regions[i].Exact {
			return a.Regions[i].Name, a.Regions[i].Paths[0]
		}
	}
	if len(a.Regions) != len(b.Regions) {
		return "shape", "region count"
	}
	return "", ""
}

// Cell is one writable location.
type Cell struct {
	Path    string
	Name    string        // name of the region that holds the cell
	Part    int           // index of the holding region (Snap.Regions)
	RawPart int           // index of the holding part (Snap.Parts)
	Ref     bool          // slice header / pointer / interface / map entry
	Tag     string        // the dns:"..." tag of the enclosing struct field (without :size)
	Kind    reflect.Kind  // kind of the location
	V       reflect.Value // the location itself (settable)
	Safe    int           // >0: a persistent change here keeps the record packable (1 = octet, 2 = uint16 list, 3 = text)
	Mutate  func() (revert func())
}

type walker struct {
	parts   []Part
	cells   []Cell
	bk      strings.Builder
	seen    map[seenKey]int
	doCells bool
	safe    int // class of the slice element being rendered (see Cell.Safe)
	tag     string
}

// pth is a path built lazily: most paths are never printed.
type pth struct {
	up  *pth
	seg string
	idx int // >= 0: "[idx]" follows seg
}

func (p *pth) String() string {
	if p == nil {
		return ""
	}
	if p.idx >= 0 {
		return p.up.String() + p.seg + "[" + strconv.Itoa(p.idx) + "]"
	}
	return p.up.String() + p.seg
}

func (p *pth) add(seg string) *pth       { return &pth{p, seg, -1} }
func (p *pth) at(seg string, i int) *pth { return &pth{p, seg, i} }

var lnames = map[string]string{}

type seenKey struct {
	lo uintptr
	t  reflect.Type
}

var hdrType = reflect.TypeOf(dns.RR_Header{})

func lname(s string) string {
	if v, ok := lnames[s]; ok {
		return v
	}
	v := strings.ToLower(strings.ReplaceAll(s, "_", "-"))
	lnames[s] = v
	return v
}

func join(owner, fld string) string {
	if owner == "" {
		return fld
	}
	if fld == "" {
		return owner
	}
	return owner + "-" + fld
}

// Walk observes root (a pointer, or an interface holding one).
func Walk(root interface{}) *Snap {
	w := &walker{seen: map[seenKey]int{}}
	w.root(root)
	return w.snap()
}

// WalkCells observes root and also enumerates its writable cells.  Cell.Part indexes
// are translated to region indexes of the returned snapshot.
func WalkCells(root interface{}) (*Snap, []Cell) {
	w := &walker{seen: map[seenKey]int{}, doCells: true}
	w.root(root)
	s, m := w.snapMap()
	for i := range w.cells {
		w.cells[i].RawPart = w.cells[i].Part
		w.cells[i].Part = m[w.cells[i].Part]
	}
	return s, w.cells
}

func (w *walker) root(root interface{}) {
	v := reflect.ValueOf(root)
	var ex, no strings.Builder
	w.value(v, nil, "", "", &ex, &no, -1)
}

func (w *walker) snap() *Snap { s, _ := w.snapMap(); return s }

// snapMap merges overlapping parts into regions (order: first appearance).
func (w *walker) snapMap() (*Snap, []int) {
	n := len(w.parts)
	parent := make([]int, n)
	for i := range parent {
		parent[i] = i
	}
	var find func(int) int
	find = func(i int) int {
		for parent[i] != i {
			parent[i] = parent[parent[i]]
			i = parent[i]
		}
		return i
	}
	idx := make([]int, n)
	for i := range idx {
		idx[i] = i
	}
	sort.Slice(idx, func(a, b int) bool { return w.parts[idx[a]].Lo < w.parts[idx[b]].Lo })
	// sweep: a part overlapping the running union joins it
	if n > 0 {
		cur := idx[0]
		hi := w.parts[cur].Hi
		for _, j := range idx[1:] {
			if w.parts[j].Lo < hi {
				a, b := find(cur), find(j)
				if a < b {
					parent[b] = a
				} else {
					parent[a] = b
				}
				if w.parts[j].Hi > hi {
					hi = w.parts[j].Hi
				}
			} else {
				cur = j
				hi = w.parts[j].Hi
			}
		}
	}
	s := &Snap{Bk: w.bk.String(), Parts: w.parts}
	m := make([]int, n)
	at := map[int]int{}
	for i := 0; i < n; i++ {
		r := find(i)
		k, ok := at[r]
		if !ok {
			k = len(s.Regions)
			at[r] = k
			s.Regions = append(s.Regions, Region{Lo: w.parts[i].Lo, Hi: w.parts[i].Hi, Name: w.parts[i].Name})
		}
		m[i] = k
		g := &s.Regions[k]
		if w.parts[i].Lo < g.Lo {
			g.Lo = w.parts[i].Lo
		}
		if w.parts[i].Hi > g.Hi {
			g.Hi = w.parts[i].Hi
		}
		g.Paths = append(g.Paths, w.parts[i].Path)
		g.Exact += w.parts[i].Path + "=" + w.parts[i].Exact + ";"
		g.Norm += w.parts[i].Norm + ";"
	}
	return s, m
}

func settable(v reflect.Value) reflect.Value {
	if v.CanSet() {
		return v
	}
	if v.CanAddr() {
		return reflect.NewAt(v.Type(), unsafe.Pointer(v.UnsafeAddr())).Elem()
	}
	return v
}

func (w *walker) addCell(v reflect.Value, pp *pth, name string, part int, ref bool, safe int) {
	if !w.doCells || !v.CanAddr() || part < 0 {
		return
	}
	v = settable(v)
	if !v.CanSet() {
		return
	}
	w.cells = append(w.cells, Cell{Path: pp.String(), Name: name, Part: part, Ref: ref, Safe: safe, Tag: w.tag, Kind: v.Kind(), V: v, Mutate: func() func() {
		old := reflect.New(v.Type()).Elem()
		old.Set(v)
		switch v.Kind() {
		case reflect.Bool:
			v.SetBool(!v.Bool())
		case reflect.Int, reflect.Int8, reflect.Int16, reflect.Int32, reflect.Int64:
			v.SetInt(v.Int() ^ 1)
		case reflect.Uint, reflect.Uint8, reflect.Uint16, reflect.Uint32, reflect.Uint64, reflect.Uintptr:
			if safe == 2 {
				v.SetUint(v.Uint() + 1) // keeps a sorted type list sorted when applied to its last element
			} else {
				v.SetUint(v.Uint() ^ 1)
			}
		case reflect.Float32, reflect.Float64:
			v.SetFloat(v.Float() + 1)
		case reflect.String:
			if safe == 3 {
				v.SetString("x" + v.String()) // still a name / a text
			} else {
				v.SetString(v.String() + "~")
			}
		default: // references: drop them
			v.Set(reflect.Zero(v.Type()))
		}
		return func() { v.Set(old) }
	}})
}

// value renders v into the content of the current part (ex/no) and opens new parts
// for the stores v refers to.  owner/fld give the type-level name of v.
func (w *walker) value(v reflect.Value, path *pth, owner, fld string, ex, no *strings.Builder, part int) {
	name := join(owner, fld)
	switch v.Kind() {
	case reflect.Bool, reflect.Int, reflect.Int8, reflect.Int16, reflect.Int32, reflect.Int64,
		reflect.Uint, reflect.Uint8, reflect.Uint16, reflect.Uint32, reflect.Uint64, reflect.Uintptr,
		reflect.Float32, reflect.Float64:
		s := scalar(v) // the raw number, never a String() method
		ex.WriteString(s)
		no.WriteString(s)
		w.addCell(v, path, w.partName(part), part, false, w.safe)
	case reflect.String:
		s := strconv.Quote(v.String())
		ex.WriteString(s)
		no.WriteString(s)
		w.addCell(v, path, w.partName(part), part, false, w.safe)
	case reflect.Array:
		ex.WriteByte('[')
		no.WriteByte('[')
		for i := 0; i < v.Len(); i++ {
			w.value(v.Index(i), path.at("", i), owner, fld, ex, no, part)
			ex.WriteByte(',')
			no.WriteByte(',')
		}
		ex.WriteByte(']')
		no.WriteByte(']')
	case reflect.Struct:
		if v.Type() == hdrType {
			w.header(v, path, ex, no, part)
			return
		}
		t := v.Type()
		o2, f2 := owner, fld
		sv := w.safe
		w.safe = 0
		defer func() { w.safe = sv }()
		if fld == "" && t.Name() != "" { // element / pointee of a named struct type: it owns the fields below
			o2 = lname(t.Name())
		}
		ex.WriteByte('{')
		no.WriteByte('{')
		for i := 0; i < t.NumField(); i++ {
			f := t.Field(i)
			ex.WriteString(f.Name + ":")
			no.WriteString(f.Name + ":")
			ff := f2
			if !f.Anonymous {
				ff = join(f2, lname(f.Name))
			}
			tg := w.tag
			if w.doCells {
				if t := f.Tag.Get("dns"); t != "" {
					if k := strings.IndexByte(t, ':'); k >= 0 {
						t = t[:k]
					}
					w.tag = t
				} else if !f.Anonymous {
					w.tag = ""
				}
			}
			w.value(v.Field(i), path.add("."+f.Name), o2, ff, ex, no, part)
			w.tag = tg
			ex.WriteByte(' ')
			no.WriteByte(' ')
		}
		ex.WriteByte('}')
		no.WriteByte('}')
	case reflect.Slice:
		if v.IsNil() {
			ex.WriteString("nil[]")
			no.WriteString("[0]")
			return
		}
		fmt.Fprintf(ex, "[%d]", v.Len())
		fmt.Fprintf(no, "[%d]", v.Len())
		w.addCell(v, path, w.partName(part), part, true, 0)
		esz := v.Type().Elem().Size()
		if v.Cap() == 0 || esz == 0 {
			return
		}
		lo := v.Pointer()
		hi := lo + uintptr(v.Cap())*esz
		me := len(w.parts)
		w.parts = append(w.parts, Part{Path: path.String() + "[]", Name: name, Kind: "slice", Lo: lo, Hi: hi, HiLen: lo + uintptr(v.Len())*esz})
		var e2, n2 strings.Builder
		eo, ef := owner, join(fld, "elem")
		if et := v.Type().Elem(); et.Kind() == reflect.Struct && et.Name() != "" {
			eo, ef = lname(et.Name()), ""
		} else if et.Kind() == reflect.Interface || et.Kind() == reflect.Ptr {
			eo, ef = "", ""
		}
		sv := w.safe
		for i := 0; i < v.Len(); i++ {
			w.safe = 0
			switch v.Type().Elem().Kind() {
			case reflect.Uint8:
				w.safe = 1
			case reflect.Uint16:
				if i == v.Len()-1 {
					w.safe = 2
				}
			case reflect.String:
				w.safe = 3
			}
			w.value(v.Index(i), path.at("", i), eo, ef, &e2, &n2, me)
			e2.WriteByte(',')
			n2.WriteByte(',')
		}
		w.safe = sv
		// the hidden capacity [len:cap] is reachable by reslicing and by append: it is part of
		// the exact snapshot (not of the value) for slices of scalars and strings
		if v.Cap() > v.Len() && scalarKind(v.Type().Elem().Kind()) {
			full := v.Slice(0, v.Cap())
			e2.WriteString("|hidden:")
			for i := v.Len(); i < v.Cap(); i++ {
				if el := full.Index(i); el.Kind() == reflect.String {
					e2.WriteString(strconv.Quote(el.String()))
				} else {
					e2.WriteString(scalar(el))
				}
				e2.WriteByte(',')
			}
			w.addAppendCell(v, path, name, me)
		} else if v.Cap() > v.Len() {
			// hidden elements that are references (records, options): which ones they are (by
			// address), not what they hold -- shifting or dropping elements inside the backing
			// array shows here
			switch v.Type().Elem().Kind() {
			case reflect.Struct: // e.g. the questions behind len(m.Question): their scalar and string fields
				full := v.Slice(0, v.Cap())
				e2.WriteString("|hidden:")
				for i := v.Len(); i < v.Cap(); i++ {
					shallowStruct(full.Index(i), &e2)
					e2.WriteByte(',')
				}
			case reflect.Interface, reflect.Ptr:
				full := v.Slice(0, v.Cap())
				e2.WriteString("|hidden:")
				for i := v.Len(); i < v.Cap(); i++ {
					el := full.Index(i)
					if el.Kind() == reflect.Interface && !el.IsNil() {
						el = el.Elem()
					}
					if el.Kind() == reflect.Ptr && !el.IsNil() {
						e2.WriteString(el.Type().String() + "@" + strconv.FormatUint(uint64(el.Pointer()), 16))
					} else {
						e2.WriteString("nil")
					}
					e2.WriteByte(',')
				}
			}
		}
		w.parts[me].Exact = e2.String()
		w.parts[me].Norm = n2.String()
	case reflect.Ptr:
		if v.IsNil() {
			ex.WriteString("nil*")
			no.WriteString("nil*")
			return
		}
		ex.WriteString("*" + v.Type().Elem().String() + "@" + strconv.FormatUint(uint64(v.Pointer()), 16)) // identity of the pointee: exact snapshot only
		no.WriteString("*" + v.Type().Elem().String())
		w.addCell(v, path, w.partName(part), part, true, 0)
		sz := v.Type().Elem().Size()
		lo := v.Pointer()
		k := seenKey{lo, v.Type()}
		if j, ok := w.seen[k]; ok {
			fmt.Fprintf(ex, "^%d", j)
			fmt.Fprintf(no, "^%d", j)
			return
		}
		var e2, n2 strings.Builder
		me := part
		if sz > 0 {
			me = len(w.parts)
			w.seen[k] = me
			pn := lname(v.Type().Elem().Name())
			if pn == "" {
				pn = join(name, "pointee")
			}
			w.parts = append(w.parts, Part{Path: path.String() + "*", Name: pn, Kind: "ptr", Lo: lo, Hi: lo + sz, HiLen: lo + sz})
			w.value(v.Elem(), path.add("*"), "", "", &e2, &n2, me)
			w.parts[me].Exact = e2.String()
			w.parts[me].Norm = n2.String()
		}
	case reflect.Interface:
		if v.IsNil() {
			ex.WriteString("nil-iface")
			no.WriteString("nil-iface")
			return
		}
		w.addCell(v, path, w.partName(part), part, true, 0)
		d := v.Elem()
		ex.WriteString("(" + d.Type().String() + ")")
		no.WriteString("(" + d.Type().String() + ")")
		w.value(d, path.add(".("+d.Type().String()+")"), owner, fld, ex, no, part)
	case reflect.Map:
		if v.IsNil() {
			ex.WriteString("nil-map")
			no.WriteString("map[0]")
			return
		}
		fmt.Fprintf(ex, "map[%d]", v.Len())
		fmt.Fprintf(no, "map[%d]", v.Len())
		w.addCell(v, path, w.partName(part), part, true, 0)
		lo := v.Pointer()
		k := seenKey{lo, v.Type()}
		if _, ok := w.seen[k]; ok {
			return
		}
		me := len(w.parts)
		w.seen[k] = me
		w.parts = append(w.parts, Part{Path: path.String() + "{}", Name: name, Kind: "map", Lo: lo, Hi: lo + 8, HiLen: lo + 8})
		type kv struct {
			k   string
			v   reflect.Value
			key reflect.Value
		}
		var ents []kv
		it := v.MapRange()
		for it.Next() {
			ents = append(ents, kv{fmt.Sprintf("%#v", it.Key().Interface()), it.Value(), it.Key()})
		}
		sort.Slice(ents, func(a, b int) bool { return ents[a].k < ents[b].k })
		var e2, n2 strings.Builder
		for _, e := range ents {
			e2.WriteString(e.k + "=>")
			n2.WriteString(e.k + "=>")
			w.value(e.v, path.add("{"+e.k+"}"), owner, join(fld, "value"), &e2, &n2, me)
			e2.WriteByte(',')
			n2.WriteByte(',')
			if w.doCells {
				mv, key, val := v, e.key, e.v
				w.cells = append(w.cells, Cell{Path: path.String() + "{" + e.k + "}", Name: name, Part: me, Ref: true, Mutate: func() func() {
					mv.SetMapIndex(key, reflect.Value{})
					return func() { mv.SetMapIndex(key, val) }
				}})
			}
		}
		w.parts[me].Exact = e2.String()
		w.parts[me].Norm = n2.String()
	case reflect.Func:
		if v.IsNil() {
			ex.WriteString("nil-func")
			no.WriteString("nil-func")
		} else {
			ex.WriteString("func")
			no.WriteString("func")
		}
	default:
		ex.WriteString(v.Kind().String())
		no.WriteString(v.Kind().String())
	}
}

// shallowStruct renders the scalar and string fields of a struct (nested structs too); references
// are shown by nil-ness only.
func shallowStruct(v reflect.Value, b *strings.Builder) {
	b.WriteByte('{')
	for i := 0; i < v.NumField(); i++ {
		f := v.Field(i)
		switch {
		case f.Kind() == reflect.String:
			b.WriteString(strconv.Quote(f.String()))
		case scalarKind(f.Kind()):
			b.WriteString(scalar(f))
		case f.Kind() == reflect.Struct:
			shallowStruct(f, b)
		case f.Kind() == reflect.Slice || f.Kind() == reflect.Ptr || f.Kind() == reflect.Interface || f.Kind() == reflect.Map:
			if f.IsNil() {
				b.WriteString("nil")
			} else {
				b.WriteString("ref")
			}
		}
		b.WriteByte(' ')
	}
	b.WriteByte('}')
}

func scalarKind(k reflect.Kind) bool {
	switch k {
	case reflect.Bool, reflect.Int, reflect.Int8, reflect.Int16, reflect.Int32, reflect.Int64,
		reflect.Uint, reflect.Uint8, reflect.Uint16, reflect.Uint32, reflect.Uint64, reflect.Uintptr,
		reflect.Float32, reflect.Float64, reflect.String:
		return true
	}
	return false
}

// addAppendCell: an append within the capacity of a slice -- writes the element after the
// last one and lengthens the header.
func (w *walker) addAppendCell(v reflect.Value, pp *pth, name string, part int) {
	if !w.doCells || !v.CanAddr() {
		return
	}
	v = settable(v)
	if !v.CanSet() {
		return
	}
	w.cells = append(w.cells, Cell{Path: pp.String() + "[append]", Name: name, Part: part, Ref: true, Tag: w.tag, Kind: reflect.Slice, V: v, Mutate: func() func() {
		old := reflect.New(v.Type()).Elem()
		old.Set(v)
		n := v.Len()
		nv := v.Slice(0, n+1)
		el := nv.Index(n)
		oldEl := reflect.New(el.Type()).Elem()
		oldEl.Set(el)
		switch el.Kind() {
		case reflect.Bool:
			el.SetBool(!el.Bool())
		case reflect.String:
			el.SetString(el.String() + "~")
		case reflect.Float32, reflect.Float64:
			el.SetFloat(el.Float() + 1)
		case reflect.Int, reflect.Int8, reflect.Int16, reflect.Int32, reflect.Int64:
			el.SetInt(el.Int() ^ 1)
		default:
			el.SetUint(el.Uint() ^ 1)
		}
		v.Set(nv)
		return func() {
			el.Set(oldEl)
			v.Set(old)
		}
	}})
}

func scalar(v reflect.Value) string {
	switch v.Kind() {
	case reflect.Bool:
		return strconv.FormatBool(v.Bool())
	case reflect.Int, reflect.Int8, reflect.Int16, reflect.Int32, reflect.Int64:
		return strconv.FormatInt(v.Int(), 10)
	case reflect.Float32, reflect.Float64:
		return strconv.FormatFloat(v.Float(), 'g', -1, 64)
	default:
		return strconv.FormatUint(v.Uint(), 10)
	}
}

func (w *walker) partName(part int) string {
	if part < 0 || part >= len(w.parts) {
		return ""
	}
	return w.parts[part].Name
}

// header renders an RR_Header: RDLENGTH, and for OPT the extended-RCODE octet of the
// TTL, are documented bookkeeping and go to Bk.
func (w *walker) header(v reflect.Value, pp *pth, ex, no *strings.Builder, part int) {
	path := pp.String()
	h := v.Interface().(dns.RR_Header)
	ttl := h.Ttl
	w.bk.WriteString(path + ".Rdlength=" + strconv.Itoa(int(h.Rdlength)) + ";")
	if h.Rrtype == dns.TypeOPT {
		w.bk.WriteString(path + ".extrcode=" + strconv.Itoa(int(ttl>>24)) + ";")
		ttl &= 0x00FFFFFF
	}
	s := "{Name:" + strconv.Quote(h.Name) + " Rrtype:" + strconv.Itoa(int(h.Rrtype)) + " Class:" + strconv.Itoa(int(h.Class)) + " Ttl:" + strconv.FormatUint(uint64(ttl), 10) + "}"
	ex.WriteString(s)
	no.WriteString(s)
	if w.doCells && v.CanAddr() {
		pn := w.partName(part)
		w.addCell(v.FieldByName("Name"), pp.add(".Name"), pn, part, false, 0)
		w.addCell(v.FieldByName("Rrtype"), pp.add(".Rrtype"), pn, part, false, 0)
		w.addCell(v.FieldByName("Class"), pp.add(".Class"), pn, part, false, 0)
		w.addCell(v.FieldByName("Ttl"), pp.add(".Ttl"), pn, part, false, 0)
	}
}

// Overlap reports every pair (region of a, region of b) that overlaps.
func Overlap(a, b *Snap) (pairs [][2]int) {
	type iv struct {
		lo, hi uintptr
		i      int
	}
	bs := make([]iv, 0, len(b.Regions))
	for i, r := range b.Regions {
		bs = append(bs, iv{r.Lo, r.Hi, i})
	}
	sort.Slice(bs, func(x, y int) bool { return bs[x].lo < bs[y].lo })
	for i, r := range a.Regions {
		// regions of one object are pairwise disjoint after merging, so bs is sorted by hi as well
		k := sort.Search(len(bs), func(k int) bool { return bs[k].hi > r.Lo })
		for ; k < len(bs) && bs[k].lo < r.Hi; k++ {
			pairs = append(pairs, [2]int{i, bs[k].i})
		}
	}
	return pairs
}

// OverlapBuf reports the regions of s that overlap the octets of buf (full capacity).
func OverlapBuf(s *Snap, buf []byte) (hits []int) {
	if cap(buf) == 0 {
		return nil
	}
	lo := uintptr(unsafe.Pointer(unsafe.SliceData(buf)))
	hi := lo + uintptr(cap(buf))
	for i, r := range s.Regions {
		if r.Lo < hi && lo < r.Hi {
			hits = append(hits, i)
		}
	}
	return hits
}

// BufInterval is the address interval of a buffer's backing array.
func BufInterval(buf []byte) (lo, hi uintptr) {
	if cap(buf) == 0 {
		return 0, 0
	}
	lo = uintptr(unsafe.Pointer(unsafe.SliceData(buf)))
	return lo, lo + uintptr(cap(buf))
}
