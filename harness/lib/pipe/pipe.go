// Package pipe holds the in-memory transports of the TSIG / zone-transfer harness
// (properties C11, C15): a scripted stream connection for the receiving side and a
// one-shot listener over net.Pipe for driving a real dns.Server.
package pipe

import (
	"encoding/binary"
	"io"
	"net"
	"os"
	"sync"
	"time"
)

// Conn is the client end of a scripted TCP-like stream.  Inbound octets are fed by
// the test; once they are exhausted a Read returns io.EOF (peer closed, EOF = true)
// or, at once and without waiting, the deadline error (peer silent, EOF = false), so
// a receiver that keeps reading after the end of the script fails deterministically
// and immediately.
type Conn struct {
	mu      sync.Mutex
	rbuf    []byte
	EOF     bool
	MaxRead int      // largest number of octets handed out per Read (0 = unlimited): TCP segmentation
	Bounds  []int    // stream offsets (from the first octet ever fed) no Read crosses: segment boundaries
	pos     int      // stream offset of the next octet to be read
	Written [][]byte // every Write, in order
	OnWrite func(c *Conn, p []byte)
	Closed  int // number of Close calls
	Reads   int // number of Read calls that found the script exhausted
}

func New() *Conn { return &Conn{} }

// Feed appends inbound octets.
func (c *Conn) Feed(p []byte) {
	c.mu.Lock()
	c.rbuf = append(c.rbuf, p...)
	c.mu.Unlock()
}

// Frame prefixes a DNS message with its two-octet length (RFC 1035 4.2.2).
func Frame(p []byte) []byte {
	b := make([]byte, 2+len(p))
	binary.BigEndian.PutUint16(b, uint16(len(p)))
	copy(b[2:], p)
	return b
}

func (c *Conn) Read(p []byte) (int, error) {
	c.mu.Lock()
	defer c.mu.Unlock()
	if c.Closed > 0 {
		return 0, net.ErrClosed
	}
	if len(p) == 0 {
		return 0, nil
	}
	if len(c.rbuf) == 0 {
		c.Reads++
		if c.EOF {
			return 0, io.EOF
		}
		return 0, os.ErrDeadlineExceeded
	}
	n := len(p)
	if n > len(c.rbuf) {
		n = len(c.rbuf)
	}
	if c.MaxRead > 0 && n > c.MaxRead {
		n = c.MaxRead
	}
	for _, b := range c.Bounds {
		if b > c.pos && b < c.pos+n {
			n = b - c.pos
		}
	}
	copy(p, c.rbuf[:n])
	c.rbuf = c.rbuf[n:]
	c.pos += n
	return n, nil
}

func (c *Conn) Write(p []byte) (int, error) {
	c.mu.Lock()
	if c.Closed > 0 {
		c.mu.Unlock()
		return 0, net.ErrClosed
	}
	q := append([]byte(nil), p...)
	c.Written = append(c.Written, q)
	f := c.OnWrite
	c.mu.Unlock()
	if f != nil {
		f(c, q)
	}
	return len(p), nil
}

func (c *Conn) Close() error {
	c.mu.Lock()
	c.Closed++
	c.mu.Unlock()
	return nil
}

// IsClosed reports whether Close was called at least once.
func (c *Conn) IsClosed() bool {
	c.mu.Lock()
	defer c.mu.Unlock()
	return c.Closed > 0
}

// Unread is the number of scripted octets nobody read.
func (c *Conn) Unread() int {
	c.mu.Lock()
	defer c.mu.Unlock()
	return len(c.rbuf)
}

type addr struct{}

func (addr) Network() string { return "tcp" }
func (addr) String() string  { return "pipe" }

func (c *Conn) LocalAddr() net.Addr                { return addr{} }
func (c *Conn) RemoteAddr() net.Addr               { return addr{} }
func (c *Conn) SetDeadline(t time.Time) error      { return nil }
func (c *Conn) SetReadDeadline(t time.Time) error  { return nil }
func (c *Conn) SetWriteDeadline(t time.Time) error { return nil }

// Listener hands out the server ends of net.Pipe connections.
type Listener struct {
	ch     chan net.Conn
	once   sync.Once
	closed chan struct{}
}

func NewListener() *Listener {
	return &Listener{ch: make(chan net.Conn), closed: make(chan struct{})}
}

// Dial returns the client end of a fresh connection whose server end Accept yields.
func (l *Listener) Dial() (net.Conn, error) {
	a, b := net.Pipe()
	select {
	case l.ch <- b:
		return a, nil
	case <-l.closed:
		return nil, net.ErrClosed
	}
}

func (l *Listener) Accept() (net.Conn, error) {
	select {
	case c := <-l.ch:
		return c, nil
	case <-l.closed:
		return nil, net.ErrClosed
	}
}

func (l *Listener) Close() error {
	l.once.Do(func() { close(l.closed) })
	return nil
}

func (l *Listener) Addr() net.Addr { return addr{} }

// ReadFrame reads one length-prefixed message from a stream.
func ReadFrame(c io.Reader) ([]byte, error) {
	var l [2]byte
	if _, err := io.ReadFull(c, l[:]); err != nil {
		return nil, err
	}
	p := make([]byte, binary.BigEndian.Uint16(l[:]))
	if _, err := io.ReadFull(c, p); err != nil {
		return nil, err
	}
	return p, nil
}

// PacketConn is an in-memory datagram socket for a server under test: Deliver hands it a datagram
// "from" an address, everything the server writes appears on Out.
type PacketConn struct {
	in     chan dgram
	Out    chan []byte
	mu     sync.Mutex
	dl     time.Time
	wake   chan struct{}
	closed chan struct{}
	once   sync.Once
}

type dgram struct {
	p    []byte
	from net.Addr
}

func NewPacketConn() *PacketConn {
	return &PacketConn{in: make(chan dgram, 64), Out: make(chan []byte, 1024), wake: make(chan struct{}), closed: make(chan struct{})}
}

// Deliver queues one inbound datagram.
func (c *PacketConn) Deliver(p []byte) {
	c.in <- dgram{append([]byte(nil), p...), addr{}}
}

func (c *PacketConn) ReadFrom(p []byte) (int, net.Addr, error) {
	for {
		c.mu.Lock()
		dl, wake := c.dl, c.wake
		c.mu.Unlock()
		var timer <-chan time.Time
		if !dl.IsZero() {
			d := time.Until(dl)
			if d <= 0 {
				return 0, nil, os.ErrDeadlineExceeded
			}
			timer = time.After(d)
		}
		select {
		case d := <-c.in:
			return copy(p, d.p), d.from, nil
		case <-c.closed:
			return 0, nil, net.ErrClosed
		case <-timer:
			return 0, nil, os.ErrDeadlineExceeded
		case <-wake: // the deadline changed
		}
	}
}

func (c *PacketConn) WriteTo(p []byte, a net.Addr) (int, error) {
	select {
	case <-c.closed:
		return 0, net.ErrClosed
	case c.Out <- append([]byte(nil), p...):
		return len(p), nil
	}
}

func (c *PacketConn) Close() error {
	c.once.Do(func() { close(c.closed) })
	return nil
}

func (c *PacketConn) LocalAddr() net.Addr { return addr{} }

func (c *PacketConn) SetReadDeadline(t time.Time) error {
	c.mu.Lock()
	c.dl = t
	close(c.wake)
	c.wake = make(chan struct{})
	c.mu.Unlock()
	return nil
}
func (c *PacketConn) SetDeadline(t time.Time) error      { return c.SetReadDeadline(t) }
func (c *PacketConn) SetWriteDeadline(t time.Time) error { return nil }
