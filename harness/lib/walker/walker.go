// Package walker is an independent reader of DNS messages for property C04: it cuts the
// octets of a message into the PART STREAM of spec/Compress.tla -- opaque ranges, RDLENGTH
// fields and names (literal labels, pointer target, the full name after following the
// pointers, whether the position may be compressed).  It is written from the rules of
// spec/Framing.tla and spec/Names.tla (RFC 1035 s.4.1) and is driven by the RDATA layout table
// exported from spec/WireRR.tla; it uses no decoding code of the library under test.
//
// The walker is a search aid, not an oracle: TLC re-checks that a stream lies exactly on the
// octets (Compress!Tiles), re-derives every full name from the hints (Compress!NameOK) and, for
// small messages, compares the whole stream with its own walk (Compress!StreamOf).
package walker

import (
	"encoding/json"
	"fmt"

	"verifharness/lib/hx"
	"verifharness/lib/wire"
)

// Part covers the octets [A, Z) of the message.
type Part struct {
	K    string // "o" opaque, "l" RDLENGTH, "n" name
	A, Z int
	// k = "n"
	Lits   []hx.B
	Ptr    int
	C      bool
	Name   []hx.B
	Tk, Tj int // the pointer targets label Tj (1-based; len(Lits)+1 = the octet after the labels) of part Tk (1-based)
	T      int // RR type the name belongs to, 0 in the question section
	// k = "l"
	V, N int
}

func (p Part) MarshalJSON() ([]byte, error) {
	switch p.K {
	case "o":
		return json.Marshal(map[string]interface{}{"k": "o", "a": p.A, "z": p.Z})
	case "l":
		return json.Marshal(map[string]interface{}{"k": "l", "a": p.A, "z": p.Z, "v": p.V, "n": p.N})
	}
	lits, name := p.Lits, p.Name
	if lits == nil {
		lits = []hx.B{}
	}
	if name == nil {
		name = []hx.B{}
	}
	return json.Marshal(map[string]interface{}{"k": "n", "a": p.A, "z": p.Z, "lits": lits, "ptr": p.Ptr, "c": p.C,
		"name": name, "tk": p.Tk, "tj": p.Tj, "t": p.T})
}

func (p *Part) UnmarshalJSON(b []byte) error {
	var m struct {
		K    string `json:"k"`
		A    int    `json:"a"`
		Z    int    `json:"z"`
		Lits []hx.B `json:"lits"`
		Ptr  int    `json:"ptr"`
		C    bool   `json:"c"`
		Name []hx.B `json:"name"`
		Tk   int    `json:"tk"`
		Tj   int    `json:"tj"`
		T    int    `json:"t"`
		V    int    `json:"v"`
		N    int    `json:"n"`
	}
	if err := json.Unmarshal(b, &m); err != nil {
		return err
	}
	*p = Part{K: m.K, A: m.A, Z: m.Z, Lits: m.Lits, Ptr: m.Ptr, C: m.C, Name: m.Name, Tk: m.Tk, Tj: m.Tj, T: m.T, V: m.V, N: m.N}
	return nil
}

type target struct{ k, j int }

type walk struct {
	b      []byte
	l      *wire.Layout
	parts  []Part
	starts map[int]target // offset of a label (or of the octet after the last literal label) of an earlier name part
}

var fixedWidth = map[string]int{"u32": 4, "u48": 6, "u64": 8, "a": 4, "aaaa": 16}

const maxName = 255

// decode follows Names!DN: labels up to a root octet, pointers followed, loops / reserved label
// types / overruns / names beyond 255 octets refused.
func (w *walk) decode(off int) ([]hx.B, error) {
	var labels []hx.B
	wire := 1
	seen := map[int]bool{}
	for {
		if off >= len(w.b) {
			return nil, fmt.Errorf("name runs past the end at %d", off)
		}
		c := int(w.b[off])
		switch {
		case c == 0:
			return labels, nil
		case c < 64:
			if off+1+c > len(w.b) {
				return nil, fmt.Errorf("label runs past the end at %d", off)
			}
			wire += 1 + c
			if wire > maxName {
				return nil, fmt.Errorf("name longer than 255 octets at %d", off)
			}
			labels = append(labels, hx.FromBytes(w.b[off+1:off+1+c]))
			off += 1 + c
		case c >= 192:
			if off+1 >= len(w.b) {
				return nil, fmt.Errorf("pointer runs past the end at %d", off)
			}
			t := (c-192)<<8 | int(w.b[off+1])
			if seen[t] {
				return nil, fmt.Errorf("pointer loop at %d", off)
			}
			seen[t] = true
			off = t
		default:
			return nil, fmt.Errorf("reserved label type at %d", off)
		}
	}
}

// name reads the name part at off: its literal labels and how it ends.
func (w *walk) name(off int, c bool, t int) (int, error) {
	p := Part{K: "n", A: off, Ptr: -1, C: c, T: t}
	o := off
	var lab []int // offsets of the literal labels
	for {
		if o >= len(w.b) {
			return 0, fmt.Errorf("name runs past the end at %d", o)
		}
		x := int(w.b[o])
		if x == 0 {
			lab = append(lab, o)
			o++
			break
		}
		if x >= 192 {
			if o+1 >= len(w.b) {
				return 0, fmt.Errorf("pointer runs past the end at %d", o)
			}
			p.Ptr = (x-192)<<8 | int(w.b[o+1])
			lab = append(lab, o)
			o += 2
			break
		}
		if x >= 64 {
			return 0, fmt.Errorf("reserved label type at %d", o)
		}
		if o+1+x > len(w.b) {
			return 0, fmt.Errorf("label runs past the end at %d", o)
		}
		lab = append(lab, o)
		p.Lits = append(p.Lits, hx.FromBytes(w.b[o+1:o+1+x]))
		o += 1 + x
	}
	p.Z = o
	full, err := w.decode(off)
	if err != nil {
		return 0, err
	}
	p.Name = full
	if p.Ptr >= 0 {
		if tg, ok := w.starts[p.Ptr]; ok {
			p.Tk, p.Tj = tg.k, tg.j
		}
	}
	w.parts = append(w.parts, p)
	idx := len(w.parts)
	for j, lo := range lab {
		if _, dup := w.starts[lo]; !dup {
			w.starts[lo] = target{idx, j + 1}
		}
	}
	return o, nil
}

func (w *walk) opaque(a, z int) {
	w.parts = append(w.parts, Part{K: "o", A: a, Z: z})
}

func (w *walk) u16(off int) int { return int(w.b[off])<<8 | int(w.b[off+1]) }

// rdata walks the fields of type t in [off, end) in layout order.
func (w *walk) rdata(t, off, end int) error {
	ints := map[string]int{}
	fixed := func(n int) error {
		if off+n > end {
			return fmt.Errorf("RDATA of type %d too short at %d", t, off)
		}
		w.opaque(off, off+n)
		off += n
		return nil
	}
	var err error
	for _, e := range w.l.FieldsOf(t) {
		if off > end {
			return fmt.Errorf("RDATA of type %d overrun", t)
		}
		switch {
		case e.K == "u8":
			if off+1 > end {
				return fmt.Errorf("RDATA of type %d too short at %d", t, off)
			}
			ints[e.N] = int(w.b[off])
			err = fixed(1)
		case e.K == "u16":
			if off+2 > end {
				return fmt.Errorf("RDATA of type %d too short at %d", t, off)
			}
			ints[e.N] = w.u16(off)
			err = fixed(2)
		case fixedWidth[e.K] > 0:
			err = fixed(fixedWidth[e.K])
		case e.K == "name" || e.K == "cname":
			off, err = w.name(off, e.K == "cname", t)
		case e.K == "str":
			if off+1 > end {
				return fmt.Errorf("RDATA of type %d too short at %d", t, off)
			}
			err = fixed(1 + int(w.b[off]))
		case e.K == "gateway":
			switch ints[e.Of] % e.Mod {
			case 0:
			case 1:
				err = fixed(4)
			case 2:
				err = fixed(16)
			case 3:
				off, err = w.name(off, false, t)
			default:
				return fmt.Errorf("gateway type %d", ints[e.Of])
			}
		case e.K == "names":
			for off < end && err == nil {
				off, err = w.name(off, false, t)
			}
		case e.Sz != "":
			err = fixed(ints[e.Sz])
		default: // runs to the end of RDATA; not looked into
			if off < end {
				err = fixed(end - off)
			}
		}
		if err != nil {
			return err
		}
	}
	if off != end {
		return fmt.Errorf("RDATA of type %d ends at %d, the layout reads up to %d", t, end, off)
	}
	return nil
}

// Walk cuts a whole message (strict: section counts honoured, all octets consumed).
func Walk(l *wire.Layout, b []byte) ([]Part, error) {
	if len(b) < 12 {
		return nil, fmt.Errorf("no header")
	}
	w := &walk{b: b, l: l, starts: map[int]target{}}
	qd := w.u16(4)
	rrs := w.u16(6) + w.u16(8) + w.u16(10)
	off := 12
	var err error
	for i := 0; i < qd; i++ {
		if off, err = w.name(off, true, 0); err != nil {
			return nil, err
		}
		if off+4 > len(b) {
			return nil, fmt.Errorf("question runs past the end")
		}
		w.opaque(off, off+4)
		off += 4
	}
	for i := 0; i < rrs; i++ {
		// the type is known only after the owner: read it first
		o := off
		for {
			if o >= len(b) {
				return nil, fmt.Errorf("owner runs past the end")
			}
			x := int(b[o])
			if x == 0 {
				o++
				break
			}
			if x >= 192 {
				o += 2
				break
			}
			if x >= 64 {
				return nil, fmt.Errorf("reserved label type at %d", o)
			}
			o += 1 + x
		}
		if o+10 > len(b) {
			return nil, fmt.Errorf("record header runs past the end")
		}
		t := w.u16(o)
		if off, err = w.name(off, true, t); err != nil {
			return nil, err
		}
		if off != o {
			return nil, fmt.Errorf("owner length disagreement at %d", off)
		}
		rdlen := w.u16(off + 8)
		w.opaque(off, off+8)
		li := len(w.parts)
		w.parts = append(w.parts, Part{K: "l", A: off + 8, Z: off + 10, V: rdlen})
		off += 10
		end := off + rdlen
		if end > len(b) {
			return nil, fmt.Errorf("RDLENGTH runs past the end")
		}
		if rdlen > 0 {
			if err = w.rdata(t, off, end); err != nil {
				return nil, err
			}
		}
		w.parts[li].N = len(w.parts) - li - 1
		off = end
	}
	if off != len(b) {
		return nil, fmt.Errorf("%d octets after the last record", len(b)-off)
	}
	return w.parts, nil
}
