// Package sched turns a run of the real dns.Server into a totally ordered event log
// (record) and lets a controller force an order of its critical sections (gates).
//
// Events: every hook event of the library (build tag verif), every fakenet report
// and every harness-side observation goes through Run.emit, which takes the global
// sequence number under Run.mu.  The caller is inside the critical section that
// produced the effect (srv.lock for record hooks, the object's mutex for fakenet),
// so events on one piece of state are numbered in the order of their effects.
//
// Gates: in gated mode every gate hook, every fakenet gate and the harness' own
// handler park the calling goroutine until the controller releases it.  Gates are
// never under a held lock, so a parked goroutine cannot block another action.
//
// Quiescence is decided from one runtime.Stack(all) snapshot: every goroutine of the
// process except the caller is in a blocked wait state.  It is exact, not a time-out
// guess: nothing can run until the controller acts (the only timers are the
// one-hour read deadlines).
package sched

import (
	"bytes"
	"fmt"
	"math/rand"
	"runtime"
	"strconv"
	"strings"
	"sync"
	"time"

	"github.com/miekg/dns"

	"verifharness/lib/fakenet"
)

// Event is one line of the trace Trace_Server.tla reads.  Every field is always
// present (the TLA+ records are uniform): ids are 0 and Res is "-" when unused.
type Event struct {
	Seq int    `json:"seq"`
	Ev  string `json:"ev"`
	P   int    `json:"p"` // starter / serve loop
	C   int    `json:"c"` // connection
	H   int    `json:"h"` // shutdown caller
	K   int    `json:"k"` // packet
	L   int    `json:"l"` // listener
	V   int    `json:"v"` // a boolean or count
	Res string `json:"res"`
}

// Role names the specification process a goroutine plays.
type Role struct {
	Kind string // "s" starter/serve loop, "w" connection worker, "k" packet worker, "h" shutdown caller
	ID   int
}

func (r Role) String() string { return r.Kind + strconv.Itoa(r.ID) }

// Park describes where a goroutine is held.
type Park struct {
	Role Role
	Gid  int64
	Kind string // gate name
	ch   chan string
}

// Run is the state of one recorded run.  One Run is active at a time (dns.VerifHook
// is a package variable).
type Run struct {
	Mode string // "tcp" | "pc" | "udp"
	Srv  *dns.Server

	mu     sync.Mutex
	seq    int
	events []Event
	roles  map[int64]Role
	parked map[int64]*Park
	conns  map[uintptr]*fakenet.Conn
	connID map[int]*fakenet.Conn
	lsns   map[int]*fakenet.Listener
	PC     *fakenet.PacketConn
	gated  bool
	free   bool // gates stopped parking (drive to completion)
	debug  []string

	yield  int // per-mille probability of a yield/sleep in a hook (record mode)
	rng    *rand.Rand
	rngMu  sync.Mutex
	exited map[Role]bool
	// OnRecord, when set, is called for every record hook event after it was logged.
	// It runs inside the library's critical section and must not block.
	OnRecord func(ev string)
}

var (
	curMu sync.RWMutex
	cur   *Run
)

// NewRun installs a fresh run as the target of the library hooks.
func NewRun(mode string, seed int64, gated bool, yieldPermille int) *Run {
	r := &Run{Mode: mode, roles: map[int64]Role{}, parked: map[int64]*Park{}, conns: map[uintptr]*fakenet.Conn{},
		connID: map[int]*fakenet.Conn{}, lsns: map[int]*fakenet.Listener{}, gated: gated, yield: yieldPermille,
		rng: rand.New(rand.NewSource(seed)), exited: map[Role]bool{}}
	curMu.Lock()
	cur = r
	curMu.Unlock()
	dns.VerifHook = hook
	return r
}

// Detach stops the run from receiving hook events.
func (r *Run) Detach() {
	curMu.Lock()
	if cur == r {
		cur = nil
	}
	curMu.Unlock()
}

func current() *Run {
	curMu.RLock()
	defer curMu.RUnlock()
	return cur
}

// Goid returns the id of the calling goroutine.
func Goid() int64 {
	var buf [64]byte
	n := runtime.Stack(buf[:], false)
	// "goroutine 123 ["
	s := buf[len("goroutine "):n]
	i := bytes.IndexByte(s, ' ')
	id, _ := strconv.ParseInt(string(s[:i]), 10, 64)
	return id
}

// Bind declares the calling goroutine to play role.
func (r *Run) Bind(role Role) {
	g := Goid()
	r.mu.Lock()
	r.roles[g] = role
	r.mu.Unlock()
}

// RoleOf returns the role bound to goroutine g.
func (r *Run) RoleOf(g int64) (Role, bool) {
	r.mu.Lock()
	defer r.mu.Unlock()
	x, ok := r.roles[g]
	return x, ok
}

// NewConn / NewListener / NewPacketConn create observed fakenet objects.
func (r *Run) NewConn(id int) *fakenet.Conn {
	c := fakenet.NewConn(id, r)
	r.mu.Lock()
	r.conns[dns.VerifID(c)] = c
	r.connID[id] = c
	r.mu.Unlock()
	return c
}

func (r *Run) NewListener(id int) *fakenet.Listener {
	l := fakenet.NewListener(id, r)
	r.mu.Lock()
	r.lsns[id] = l
	r.mu.Unlock()
	return l
}

func (r *Run) NewPacketConn() *fakenet.PacketConn {
	r.PC = fakenet.NewPacketConn(1, r)
	return r.PC
}

func (r *Run) Conn(id int) *fakenet.Conn { r.mu.Lock(); defer r.mu.Unlock(); return r.connID[id] }

func (r *Run) Listener(id int) *fakenet.Listener { r.mu.Lock(); defer r.mu.Unlock(); return r.lsns[id] }

// Emit appends an event; the sequence number is taken here.
func (r *Run) Emit(e Event) {
	if e.Res == "" {
		e.Res = "-"
	}
	r.mu.Lock()
	r.seq++
	e.Seq = r.seq
	r.events = append(r.events, e)
	r.mu.Unlock()
}

// Events returns a copy of the log.
func (r *Run) Events() []Event {
	r.mu.Lock()
	defer r.mu.Unlock()
	return append([]Event(nil), r.events...)
}

// Has reports whether an event ev of starter p is in the log.
func (r *Run) Has(ev string, p int) bool {
	r.mu.Lock()
	defer r.mu.Unlock()
	for _, e := range r.events {
		if e.Ev == ev && e.P == p {
			return true
		}
	}
	return false
}

// NEvents returns the length of the log.
func (r *Run) NEvents() int { r.mu.Lock(); defer r.mu.Unlock(); return len(r.events) }

// Dbg appends to the debug log.
func (r *Run) Dbg(f string, a ...interface{}) {
	r.mu.Lock()
	if len(r.debug) < 4000 {
		r.debug = append(r.debug, fmt.Sprintf(f, a...))
	}
	r.mu.Unlock()
}

// Debug returns the gate/debug log (not part of the trace).
func (r *Run) Debug() []string {
	r.mu.Lock()
	defer r.mu.Unlock()
	return append([]string(nil), r.debug...)
}

func (r *Run) maybeYield() {
	if r.yield == 0 {
		return
	}
	r.rngMu.Lock()
	x := r.rng.Intn(1000)
	d := r.rng.Intn(300)
	r.rngMu.Unlock()
	if x < r.yield {
		if x%3 == 0 {
			time.Sleep(time.Duration(d) * time.Microsecond)
		} else {
			runtime.Gosched()
		}
	}
}

// ---------------------------------------------------------------- gates

func (r *Run) park(role Role, g int64, kind string) {
	r.mu.Lock()
	if !r.gated || r.free {
		r.mu.Unlock()
		r.maybeYield()
		return
	}
	p := &Park{Role: role, Gid: g, Kind: kind, ch: make(chan string, 1)}
	r.parked[g] = p
	if len(r.debug) < 4000 {
		r.debug = append(r.debug, "park "+role.String()+" "+kind)
	}
	r.mu.Unlock()
	<-p.ch
}

// ParkHere parks the calling goroutine at a harness-defined gate and returns the
// command given on release ("" in free mode).
func (r *Run) ParkHere(role Role, kind string) string {
	g := Goid()
	r.mu.Lock()
	if !r.gated || r.free {
		r.mu.Unlock()
		r.maybeYield()
		return ""
	}
	p := &Park{Role: role, Gid: g, Kind: kind, ch: make(chan string, 1)}
	r.parked[g] = p
	if len(r.debug) < 4000 {
		r.debug = append(r.debug, "park "+role.String()+" "+kind)
	}
	r.mu.Unlock()
	return <-p.ch
}

// Parked returns where role is held, or nil.
func (r *Run) Parked(role Role) *Park {
	r.mu.Lock()
	defer r.mu.Unlock()
	for _, p := range r.parked {
		if p.Role == role {
			return p
		}
	}
	return nil
}

// AllParked lists the held goroutines.
func (r *Run) AllParked() []Park {
	r.mu.Lock()
	defer r.mu.Unlock()
	var o []Park
	for _, p := range r.parked {
		o = append(o, *p)
	}
	return o
}

// Release lets the goroutine of role continue, handing it cmd.
func (r *Run) Release(role Role, cmd string) bool {
	r.mu.Lock()
	var p *Park
	for g, q := range r.parked {
		if q.Role == role {
			p = q
			delete(r.parked, g)
			break
		}
	}
	if p != nil && len(r.debug) < 4000 {
		r.debug = append(r.debug, "release "+role.String()+" "+p.Kind+" "+cmd)
	}
	r.mu.Unlock()
	if p == nil {
		return false
	}
	p.ch <- cmd
	return true
}

// FreeRun stops gating: every held goroutine is released and gates no longer park.
func (r *Run) FreeRun() {
	r.mu.Lock()
	r.free = true
	ps := r.parked
	r.parked = map[int64]*Park{}
	r.mu.Unlock()
	for _, p := range ps {
		p.ch <- ""
	}
}

// ---------------------------------------------------------------- quiescence

// GoInfo is one goroutine of a stack snapshot.
type GoInfo struct {
	ID    int64
	State string
	Stack string
}

// Snapshot parses runtime.Stack(all).
func Snapshot() []GoInfo {
	buf := make([]byte, 1<<16)
	for {
		n := runtime.Stack(buf, true)
		if n < len(buf) {
			buf = buf[:n]
			break
		}
		buf = make([]byte, 2*len(buf))
	}
	var out []GoInfo
	for _, blk := range strings.Split(string(buf), "\n\n") {
		if !strings.HasPrefix(blk, "goroutine ") {
			continue
		}
		nl := strings.IndexByte(blk, '\n')
		head := blk
		if nl >= 0 {
			head = blk[:nl]
		}
		rest := head[len("goroutine "):]
		sp := strings.IndexByte(rest, ' ')
		id, _ := strconv.ParseInt(rest[:sp], 10, 64)
		st := rest[sp+1:]
		st = strings.TrimSuffix(strings.TrimPrefix(st, "["), "]:")
		if i := strings.IndexByte(st, ','); i >= 0 {
			st = st[:i]
		}
		out = append(out, GoInfo{ID: id, State: st, Stack: blk})
	}
	return out
}

func blockedState(s string) bool {
	switch s {
	case "chan receive", "chan send", "select", "semacquire", "sync.Cond.Wait", "sync.Mutex.Lock",
		"sync.RWMutex.RLock", "sync.RWMutex.Lock", "sync.WaitGroup.Wait", "IO wait", "select (no cases)",
		"chan receive (nil chan)", "chan send (nil chan)", "finalizer wait", "GC worker (idle)", "GC sweep wait", "GC scavenge wait",
		"force gc (idle)", "debug call", "cleanup wait":
		return true
	}
	return false
}

// Quiet reports whether every goroutine except the caller (and except, optionally,
// goroutines whose stack contains one of ignore) is blocked.
func Quiet(ignore ...string) (bool, []GoInfo) {
	me := Goid()
	snap := Snapshot()
	for _, g := range snap {
		if g.ID == me || blockedState(g.State) {
			continue
		}
		skip := false
		for _, ig := range ignore {
			if strings.Contains(g.Stack, ig) {
				skip = true
			}
		}
		if !skip {
			return false, snap
		}
	}
	return true, snap
}

// WaitQuiet polls until the process is quiescent; false on timeout.
func WaitQuiet(timeout time.Duration, ignore ...string) (bool, []GoInfo) {
	dead := time.Now().Add(timeout)
	n := 0
	for {
		ok, snap := Quiet(ignore...)
		if ok {
			// twice in a row: a goroutine woken by a timer callback between snapshots shows up
			ok2, snap2 := Quiet(ignore...)
			if ok2 {
				return true, snap2
			}
			_ = snap
		}
		if time.Now().After(dead) {
			_, snap := Quiet(ignore...)
			return false, snap
		}
		n++
		if n < 50 {
			runtime.Gosched()
		} else {
			time.Sleep(50 * time.Microsecond)
		}
	}
}

// ServerGoroutines returns the goroutines of a snapshot that run library server code.
func ServerGoroutines(snap []GoInfo) []GoInfo {
	var o []GoInfo
	for _, g := range snap {
		if strings.Contains(g.Stack, "dns.(*Server).") {
			o = append(o, g)
		}
	}
	return o
}

// ---------------------------------------------------------------- the library hook

func hook(ev string, srv *dns.Server, a, b uintptr) {
	r := current()
	if r == nil || (r.Srv != nil && srv != r.Srv) {
		return
	}
	g := Goid()
	role, known := r.RoleOf(g)
	switch ev {
	case dns.VerifGateConnStart:
		r.mu.Lock()
		c := r.conns[a]
		if c != nil {
			role = Role{"w", c.ID}
			r.roles[g] = role
			known = true
		}
		r.mu.Unlock()
		if known { // WStart has no effect but the pc: logged when the worker actually starts
			r.park(role, g, ev)
			r.Emit(Event{Ev: "w.start", C: role.ID})
			return
		}
	case dns.VerifGatePktStart:
		if r.PC != nil {
			if k := r.PC.PacketOfBuf(a); k != 0 {
				role = Role{"k", k}
				r.mu.Lock()
				r.roles[g] = role
				r.mu.Unlock()
				known = true
			}
		}
	}
	if strings.HasPrefix(ev, "gate.") {
		if known {
			r.park(role, g, ev)
		} else {
			r.maybeYield()
		}
		return
	}
	if !known {
		return // e.g. the controller reading srv.VerifStarted()
	}
	e := Event{Ev: ev}
	switch role.Kind {
	case "s":
		e.P = role.ID
	case "w":
		e.C = role.ID
	case "k":
		e.K = role.ID
	case "h":
		e.H = role.ID
	}
	switch ev {
	case dns.VerifEvIsStarted:
		e.V = int(a)
		if role.Kind == "s" {
			e.Ev = "s.isstarted"
		} else if role.Kind == "w" {
			e.Ev = "w.isstarted"
		} else {
			return
		}
	case dns.VerifEvReadDL:
		e.V = int(b)
	case dns.VerifEvConnReg, dns.VerifEvConnUnreg:
		r.mu.Lock()
		if c := r.conns[a]; c != nil {
			e.C = c.ID
		}
		r.mu.Unlock()
	case dns.VerifEvShutUnlock:
		e.V = int(a)
	case dns.VerifEvAction, dns.VerifEvPoolGet, dns.VerifEvPoolPut:
		return // not part of the C13 trace
	case dns.VerifEvWorkerExit:
		r.mu.Lock()
		r.exited[role] = true
		r.mu.Unlock()
	}
	r.Emit(e)
	if f := r.OnRecord; f != nil {
		f(ev)
	}
	r.maybeYield()
}

// Exited reports whether the worker goroutine of role passed its last hook.
func (r *Run) Exited(role Role) bool { r.mu.Lock(); defer r.mu.Unlock(); return r.exited[role] }

// ---------------------------------------------------------------- fakenet.Observer

func (r *Run) Event(kind string, obj interface{}, arg string, n int) {
	g := Goid()
	role, _ := r.RoleOf(g)
	e := Event{Ev: kind, Res: arg}
	switch role.Kind {
	case "s":
		e.P = role.ID
	case "h":
		e.H = role.ID
	case "k":
		e.K = role.ID
	}
	switch o := obj.(type) {
	case *fakenet.Listener:
		e.L = o.ID
		if kind == "lsn.accept" || kind == "cli.connect" {
			e.C = n
		}
	case *fakenet.Conn:
		e.C = o.ID
		e.V = n
	case *fakenet.PacketConn:
		if kind == "pc.read" || kind == "cli.pkt" {
			e.K = n
		}
	}
	r.Emit(e)
}

func (r *Run) Gate(kind string, obj interface{}) {
	g := Goid()
	role, known := r.RoleOf(g)
	if !known {
		return
	}
	r.park(role, g, "fn."+kind)
}
