// Package hx holds what every harness command shares: trace/vector I/O in the JSON
// dialect the TLA+ specifications speak (octet strings are arrays of integers),
// result summaries, seeding.
package hx

import (
	"bufio"
	"bytes"
	"encoding/json"
	"fmt"
	"math/rand"
	"os"
	"strconv"
	"strings"
)

// B is an octet string as the specification sees it: a sequence of integers 0..255.
type B []int

func FromBytes(b []byte) B {
	r := make(B, len(b))
	for i, c := range b {
		r[i] = int(c)
	}
	return r
}

func FromString(s string) B { return FromBytes([]byte(s)) }

func (b B) Bytes() []byte {
	r := make([]byte, len(b))
	for i, c := range b {
		r[i] = byte(c)
	}
	return r
}

func (b B) String() string { return string(b.Bytes()) }

// Mismatch is a discrepancy between the specification and the observed behaviour of
// the real code on one concrete case.
type Mismatch struct {
	Key  string      `json:"key"`  // finding key: call site + clause (+ parameter class)
	What string      `json:"what"` // one line for humans
	Case interface{} `json:"case"` // enough to re-execute
}

// Summary is printed as the last stdout line of every harness command.
type Summary struct {
	Evaluations int           `json:"evaluations"`
	Nontrivial  int           `json:"distinct_nontrivial"`
	Samples     []interface{} `json:"samples"`
	Mismatches  []Mismatch    `json:"mismatches"`
	Notes       map[string]interface{} `json:"notes,omitempty"`
	perKey      map[string]int
}

func (s *Summary) Sample(x interface{}) {
	if len(s.Samples) < 4 {
		s.Samples = append(s.Samples, x)
	}
}

// Mis records a mismatch; at most 3 cases per key are kept.
func (s *Summary) Mis(key, what string, c interface{}) {
	if s.perKey == nil {
		s.perKey = map[string]int{}
	}
	s.perKey[key]++
	if s.perKey[key] <= 3 {
		s.Mismatches = append(s.Mismatches, Mismatch{key, what, c})
	}
}

func (s *Summary) Note(k string, v interface{}) {
	if s.Notes == nil {
		s.Notes = map[string]interface{}{}
	}
	s.Notes[k] = v
}

func (s *Summary) Print() {
	if s.Samples == nil {
		s.Samples = []interface{}{}
	}
	if s.Mismatches == nil {
		s.Mismatches = []Mismatch{}
	}
	if s.perKey != nil {
		s.Note("mismatch_counts", s.perKey)
	}
	b, err := json.Marshal(s)
	if err != nil {
		Die("marshal summary: %v", err)
	}
	fmt.Println(string(b))
}

// Die is an infrastructure failure (exit 3; the driver maps any non-zero exit to exit 2).
func Die(f string, a ...interface{}) {
	fmt.Fprintf(os.Stderr, "harness: "+f+"\n", a...)
	os.Exit(3)
}

func Seed() int64 {
	v, err := strconv.ParseInt(strings.TrimSpace(os.Getenv("VERIF_SEED")), 10, 64)
	if err != nil {
		return 1
	}
	return v
}

func Rand() *rand.Rand { return rand.New(rand.NewSource(Seed())) }

func Thorough() bool { return os.Getenv("VERIF_TIER") == "thorough" }

// ReadNDJSON calls f for every line of path, decoded into a fresh *T.
func ReadNDJSON[T any](path string, f func(i int, v *T)) {
	fh, err := os.Open(path)
	if err != nil {
		Die("open %s: %v", path, err)
	}
	defer fh.Close()
	sc := bufio.NewScanner(fh)
	sc.Buffer(make([]byte, 1<<20), 1<<28)
	i := 0
	for sc.Scan() {
		ln := sc.Bytes()
		if len(ln) == 0 {
			continue
		}
		var v T
		if ln[0] == '"' { // Emit() lines: a TLA+ string literal holding JSON
			var inner string
			if err := json.Unmarshal(ln, &inner); err != nil {
				Die("%s line %d: %v", path, i+1, err)
			}
			ln = []byte(inner)
		}
		if err := json.Unmarshal(ln, &v); err != nil {
			Die("%s line %d: %v: %.200s", path, i+1, err, ln)
		}
		f(i, &v)
		i++
	}
	if err := sc.Err(); err != nil {
		Die("read %s: %v", path, err)
	}
}

// Writer writes ndjson trace events.
type Writer struct {
	f *os.File
	w *bufio.Writer
	N int
}

func NewWriter(path string) *Writer {
	f, err := os.Create(path)
	if err != nil {
		Die("create %s: %v", path, err)
	}
	return &Writer{f: f, w: bufio.NewWriterSize(f, 1<<20)}
}

func (w *Writer) Emit(v interface{}) {
	b, err := json.Marshal(v)
	if err != nil {
		Die("marshal event: %v", err)
	}
	// the TLA+ Json module has no null: nil slices are empty sequences
	b = bytes.ReplaceAll(b, []byte(":null"), []byte(":[]"))
	w.w.Write(b)
	w.w.WriteByte('\n')
	w.N++
}

func (w *Writer) Close() {
	w.w.Flush()
	w.f.Close()
}

// Catch runs f and reports a panic as a string ("" = no panic).
func Catch(f func()) (p string) {
	defer func() {
		if r := recover(); r != nil {
			p = fmt.Sprint(r)
		}
	}()
	f()
	return ""
}
