------------------------------ MODULE Framing ------------------------------
(* Message framing (RFC 1035 section 4.1): header, question entries, resource  *)
(* record headers, RDLENGTH -- everything a reader needs to know where each    *)
(* record lies, without interpreting RDATA.  Property C02: whatever the        *)
(* decoders accept must be explained by this walk of the input.                *)
EXTENDS Names

U16At(b, off) == b[off + 1] * 256 + b[off + 2]          \* off is 0-based

HeaderOK(b) == Len(b) >= 12
Hdr(b) == [id |-> U16At(b, 0), bits |-> U16At(b, 2), qd |-> U16At(b, 4), an |-> U16At(b, 6),
           ns |-> U16At(b, 8), ar |-> U16At(b, 10)]

(* A question entry at off.  The library is lenient: an entry that ends with   *)
(* the message right after the name, or after QTYPE, is accepted with zeros    *)
(* for the missing fields (lenient = TRUE admits that).                        *)
QuestionAt(b, off) ==
  LET d == DecName(b, off) IN
  IF ~d.ok THEN [ok |-> FALSE, why |-> d.why]
  ELSE IF d.next + 4 <= Len(b) THEN
         [ok |-> TRUE, name |-> d.name, qtype |-> U16At(b, d.next), qclass |-> U16At(b, d.next + 2), next |-> d.next + 4]
  ELSE IF d.next = Len(b) THEN [ok |-> TRUE, name |-> d.name, qtype |-> 0, qclass |-> 0, next |-> d.next]
  ELSE IF d.next + 2 = Len(b) THEN [ok |-> TRUE, name |-> d.name, qtype |-> U16At(b, d.next), qclass |-> 0, next |-> d.next + 2]
  ELSE [ok |-> FALSE, why |-> "short"]

(* A resource record at off: owner, TYPE, CLASS, TTL (4 octets), RDLENGTH and  *)
(* RDLENGTH octets of RDATA, all inside the input.                             *)
RRAt(b, off) ==
  LET d == DecName(b, off) IN
  IF ~d.ok THEN [ok |-> FALSE, why |-> d.why]
  ELSE IF d.next + 10 > Len(b) THEN [ok |-> FALSE, why |-> "short"]
  ELSE LET rdlen == U16At(b, d.next + 8) IN
       IF d.next + 10 + rdlen > Len(b) THEN [ok |-> FALSE, why |-> "rdlength"]
       ELSE [ok |-> TRUE, owner |-> d.name, type |-> U16At(b, d.next), class |-> U16At(b, d.next + 2),
             ttl |-> Sub(b, d.next + 5, d.next + 8), rdlen |-> rdlen, rdstart |-> d.next + 10,
             next |-> d.next + 10 + rdlen]

RECURSIVE WalkQ(_, _, _, _)
WalkQ(b, off, k, acc) ==       \* up to k questions from off
  IF k = 0 \/ off >= Len(b) THEN [ok |-> TRUE, qs |-> acc, next |-> off]
  ELSE LET q == QuestionAt(b, off) IN
       IF ~q.ok THEN [ok |-> FALSE, qs |-> acc, next |-> off, why |-> q.why]
       ELSE WalkQ(b, q.next, k - 1, Append(acc, q))

RECURSIVE WalkRR(_, _, _, _)
WalkRR(b, off, k, acc) ==      \* the maximal list of at most k records that lie inside the input from off
  IF k = 0 \/ off >= Len(b) THEN acc
  ELSE LET r == RRAt(b, off) IN
       IF ~r.ok THEN acc ELSE WalkRR(b, r.next, k - 1, Append(acc, r))

(* The observation of an ACCEPTED decode (harness event):                      *)
(*   qs:  <<nameText, qtype, qclass>>...   rrs: <<ownerText, type, class, ttl4, rdlen>>... in section order *)
(*   names: every domain name found anywhere in the result (text)              *)
WellFormed(b, e) ==
  /\ HeaderOK(b)
  /\ LET h == Hdr(b)
         wq == WalkQ(b, 12, Len(e.qs), <<>>)
     IN /\ Len(e.qs) <= h.qd
        /\ wq.ok /\ Len(wq.qs) = Len(e.qs)
        /\ \A i \in 1..Len(e.qs) : e.qs[i] = <<Present(wq.qs[i].name), wq.qs[i].qtype, wq.qs[i].qclass>>
        /\ Len(e.rrs) <= h.an + h.ns + h.ar
        /\ LET wr == WalkRR(b, wq.next, Len(e.rrs), <<>>) IN
           /\ Len(wr) = Len(e.rrs)
           /\ \A i \in 1..Len(e.rrs) :
                e.rrs[i] = <<Present(wr[i].owner), wr[i].type, wr[i].class, wr[i].ttl, wr[i].rdlen>>
  /\ \A i \in 1..Len(e.names) : Accept(FqdnSpec(e.names[i]))

(* Must-reject classification for a message whose first question name starts  *)
(* at offset 12: no reading of RFC 1035 accepts a name that loops, uses the    *)
(* reserved label types, exceeds 255 octets or runs past the end of the input. *)
(* Bounded work: the statement requires work bounded by a fixed multiple of   *)
(* the input length "regardless of the compression pointers the input claims".*)
(* A name has at most 127 labels, so no legitimate encoding needs more than   *)
(* 127 pointer hops; a decoder that follows unboundedly long acyclic chains   *)
(* does work proportional to (names x chain length).  The specification       *)
(* therefore requires chains of more than MaxHops hops to be refused, with a  *)
(* generous MaxHops (twice what any name needs; the library stops at 126).    *)
MaxHops == 255

NameVerdict(b, off) ==
  LET d == DecName(b, off) IN
  IF d.ok /\ d.hops > MaxHops THEN [v |-> "reject", name |-> <<>>, hops |-> d.hops, why |-> "hops"]
  ELSE IF d.ok THEN [v |-> "ok", name |-> d.name, hops |-> d.hops, why |-> "-"]
  ELSE [v |-> "reject", name |-> <<>>, hops |-> 0, why |-> d.why]

(* Bounded memory: "allocates memory bounded by a fixed multiple of the input  *)
(* length regardless of the section counts, RDLENGTHs and compression pointers *)
(* the input claims".  The multiple is generous (a 5-octet question becomes a  *)
(* struct with a string, slices grow by doubling); the additive term is what a *)
(* call costs on an empty input (receiver, error value, header) and is kept    *)
(* well below what any 16-bit length field can claim (65535 elements of one    *)
(* octet), so that an allocation that follows a CLAIM instead of the input is  *)
(* visible on a 30-octet input whatever the element size.  n = input length,   *)
(* the bound is in octets allocated by one call (steady state: lazily built    *)
(* tables of the first call do not count).                                     *)
AllocK == 512
AllocC == 4096
AllocBound(n) == AllocK * n + AllocC
=============================================================================
