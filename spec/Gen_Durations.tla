----------------------------- MODULE Gen_Durations -----------------------------
(* Vectors for X13.                                                               *)
(*  "ttl"    every text of <= 3 pieces (numbers around 2^32 / 2^64, units in both *)
(*           cases, junk) that holds a digit + number-unit-number-unit texts      *)
(*  "gtok"   TYPEnnn / CLASSnnn spellings x number texts                          *)
(*  "mnem"   every type of WireRR!Layout with its mnemonic, some codes without,   *)
(*           and the classes                                                      *)
(*  "rdata"  \# <length> <hex words> for an unknown type and for A, MX, TXT       *)
EXTENDS Durations, GenBase

CONSTANT Mode
VARIABLES v

RECURSIVE SetToSeq(_)
SetToSeq(S) == IF S = {} THEN <<>> ELSE LET e == CHOOSE x \in S : TRUE IN <<e>> \o SetToSeq(S \ {e})

Sym == << <<48>>, <<49>>, <<51, 48>>, <<48, 48, 55>>, <<53, 57>>,
          <<52, 50, 57, 52, 57, 54, 55, 50, 57, 53>>, <<52, 50, 57, 52, 57, 54, 55, 50, 57, 54>>,                       \* 2^32-1, 2^32
          <<49, 56, 52, 52, 54, 55, 52, 52, 48, 55, 51, 55, 48, 57, 53, 53, 49, 54, 49, 55>>,                           \* 2^64+1
          <<51, 48, 53, 48, 48, 53, 54, 56, 57, 48, 52, 57, 52, 52>>, <<55, 49, 48, 49>>, <<55, 49, 48, 50>>,             \* 30500568904944 7101 7102
          <<115>>, <<77>>, <<104>>, <<68>>, <<119>>, <<120>>, <<45>>, <<46>> >>                                           \* s M h D w x - .
TextOf(q) == Concat([i \in 1..Len(q) |-> Sym[q[i]]])
HasDigit(t) == \E i \in 1..Len(t) : IsDigit(t[i])
Nums3 == {2, 3, 6}  Units5 == 12..16
TTLTexts(x) == { t \in { TextOf(q) : q \in UNION { [1..k -> 1..Len(Sym)] : k \in 1..3 } } : HasDigit(t) }
               \cup { TextOf(<<a, u, b, w>>) : a \in Nums3, b \in Nums3, u \in Units5, w \in Units5 }

Prefixes == [t |-> { <<84, 89, 80, 69>>, <<116, 121, 112, 101>>, <<84, 121, 112, 69>> },
             c |-> { <<67, 76, 65, 83, 83>>, <<99, 108, 97, 115, 115>> }]
NumTexts == { <<>>, <<48>>, <<49>>, <<48, 49>>, <<50, 53, 53>>, <<54, 53, 50, 56, 48>>, <<54, 53, 53, 51, 53>>, <<54, 53, 53, 51, 54>>,
              <<57, 57, 57, 57, 57, 57, 57, 57, 57, 57, 57, 57, 57, 57, 57, 57, 57, 57, 57, 57>>, <<43, 49>>, <<45, 49>>, <<49, 120>>, <<49, 46, 48>>,
              <<48, 48, 48, 48, 48, 49, 54>> }

MnemCodes == DOMAIN Layout \cup {0, 100, 65280, 65534, 65535}
Lens  == { <<>>, <<48>>, <<49>>, <<50>>, <<51>>, <<52>>, <<53>>, <<48, 51>>, <<120>>, <<45, 49>> }
Hexes == { <<>>, << <<54, 49>> >>, << <<54, 49, 54, 50>> >>, << <<54, 49, 54, 50, 54, 51>> >>, << <<54, 49>>, <<54, 50, 54, 51>> >>,
           << <<54, 49, 54, 50, 54>> >>, << <<54, 49, 54, 50, 122, 122>> >>, << <<54, 49, 54, 50, 54, 65>> >>,
           << <<99, 48, 48, 48, 48, 50, 48, 49>> >>, << <<99, 48, 48, 48, 48, 50>> >>, << <<99, 48, 48, 48, 48, 50, 48, 49, 48, 48>> >>,
           << <<48, 48, 48, 97, 48, 48>> >>, << <<48, 48, 48, 97>> >>, << <<48, 48, 48, 97, 48, 48, 48, 48>> >>,
           << <<48, 51, 54, 49, 54, 50, 54, 51>> >>, << <<48, 52, 54, 49>> >> }

Init ==
  \/ Mode = "ttl"   /\ v \in TTLTexts(0)
  \/ Mode = "gtok"  /\ \E k \in {"t", "c"} : \E p \in Prefixes[k], d \in NumTexts : v = <<k, p \o d>>
  \/ Mode = "mnem"  /\ ((\E c \in MnemCodes : v = <<"t", c>>) \/ (\E c \in DOMAIN ClassNames \cup {0, 5, 253, 65535} : v = <<"c", c>>))
  \/ Mode = "rdata" /\ \E t \in {65280, 1, 15, 16}, l \in Lens, h \in Hexes : v = <<t, (IF l = <<>> THEN <<>> ELSE <<l>>) \o h>>
Next == UNCHANGED v

Out ==
  CASE Mode = "ttl"   -> Emit([kind |-> "ttl", text |-> v, adm |-> SetToSeq(TTLAdm(v))])
    [] Mode = "gtok"  -> Emit([kind |-> "gtok", what |-> v[1], tok |-> v[2],
                               adm |-> SetToSeq(GenericAdm(v[2], IF v[1] = "t" THEN TTYPE ELSE TCLASS))])
    [] Mode = "mnem"  -> Emit([kind |-> "mnem", what |-> v[1], code |-> v[2],
                               names |-> IF v[1] = "t" THEN (IF v[2] \in DOMAIN Layout THEN << Layout[v[2]].name >> ELSE <<>>)
                                         ELSE (IF v[2] \in DOMAIN ClassNames THEN << ClassNames[v[2]] >> ELSE <<>>),
                               generic |-> IF v[1] = "t" THEN TypeGeneric(v[2]) ELSE ClassGeneric(v[2])])
    [] Mode = "rdata" -> Emit([kind |-> "rdata", t |-> v[1], words |-> v[2], adm |-> SetToSeq(GenericRdataAdm(v[1], v[2]))])
=============================================================================
