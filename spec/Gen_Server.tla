----------------------------- MODULE Gen_Server -----------------------------
(* Exports behaviours of Server.tla for the gated replay (harness `server      *)
(* replay'): run with -simulate, one worker.  Every state visited appends one   *)
(* JSON line {lvl, act, proj} to vectors.ndjson; a line with lvl = 1 starts a   *)
(* new behaviour.  `act' is the label of the action that led to the state,      *)
(* `proj' the part of the state the harness can observe on the real server at   *)
(* quiescence (compared after each realised step).                              *)
EXTENDS Server, GenBase

Proj == [ started |-> started,
          nconns  |-> Cardinality(conns),
          inh     |-> Cardinality({c \in C : wpc[c] = "inh"}) + Cardinality({k \in K : kpc[k] \in {"inh", "replied"}}),
          dl      |-> [c \in C |-> dl[c]],
          copen   |-> [c \in C |-> copen[c]],
          lsnopen |-> [x \in Lsn |-> lsnOpen[x]],
          pcopen  |-> pcOpen,
          pcdl    |-> pcDL ]

Export == Emit([lvl |-> TLCGet("level"), act |-> act, proj |-> Proj])
=============================================================================
