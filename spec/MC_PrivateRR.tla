---------------------------- MODULE MC_PrivateRR ----------------------------
(* The registry machine explored to depth Depth: every sequence of PrivateHandle *)
(* / PrivateHandleRemove over 2 registrable codes (+ 1 never registered), three  *)
(* spellings (one lower case, one a standard type's mnemonic) and two generators.*)
EXTENDS PrivateRR

CONSTANT Depth

VARIABLES s, n, last

Actions ==
  { [op |-> "handle", sp |-> sp, mn |-> UpperOf[sp], code |-> c, gen |-> g] : sp \in DOMAIN UpperOf, c \in {65280, 65281}, g \in {"A", "B"} }
  \cup { [op |-> "remove", sp |-> "", mn |-> "", code |-> c, gen |-> ""] : c \in CodeSet }
TextOf(k) == <<115, 48 + k>>

Init == s = InitState /\ n = 0 /\ last = [op |-> "none", sp |-> "", mn |-> "", code |-> 0, gen |-> ""]
Next == /\ n < Depth
        /\ \E a \in Actions : s' = Make(Apply(s, a), TextOf(n + 1)) /\ last' = a
        /\ n' = n + 1

Resolvable ==      \* a live registration can always be read by its mnemonic and nothing resolves to a removed code
  /\ \A c \in CodeSet : IsReg(s.reg, c) => c \in S2TAdm(s, s.reg[c].mn)
  /\ \A c \in CodeSet, j \in 1..Len(Mnems) : ~IsReg(s.reg, c) => c \notin S2TAdm(s, Mnems[j])
  /\ \A j \in 1..Len(Mnems) : S2TAdm(s, Mnems[j]) # {}
StandardSafe ==    \* a standard mnemonic is never unknown, and is the standard type's alone once nobody borrows it
  \A m \in DOMAIN Standard :
    /\ Standard[m] \in S2TAdm(s, m) /\ 0 \notin S2TAdm(s, m)
    /\ (Owners(s.reg, m) = {} /\ ~\E p \in s.stale : p[1] = m) => S2TAdm(s, m) = { Standard[m] }
Bookkeeping ==
  /\ \A p \in s.stale : IsReg(s.reg, p[2]) /\ s.reg[p[2]].mn # p[1]
  /\ \A m \in s.shared : Owners(s.reg, m) # {}
  /\ (last.op = "remove" => ~IsReg(s.reg, last.code))
  /\ (last.op = "handle" => s.reg[last.code] = [mn |-> last.mn, gen |-> last.gen])
  /\ \A c \in CodeSet : Remove(Remove(s, c), c) = Remove(s, c)
  /\ \A c \in CodeSet : ~IsReg(s.reg, c) => Remove(s, c) = s
Records ==
  \A i \in 1..Len(s.live) :
    LET r == s.live[i]  v == LiveView(s, r) IN
    /\ v.len = 13 + Len(Rdata(r.gen, r.text)) /\ Len(v.wire) = v.len
    /\ UnRdata(r.gen, Rdata(r.gen, r.text)) = r.text
    /\ (IsReg(s.reg, r.code) /\ s.reg[r.code].gen = r.gen => v.re.text = r.text)
    /\ (~IsReg(s.reg, r.code) => v.re.k = "rfc3597" /\ v.typetext = "TYPE" \o ToString(r.code))
    /\ ObsOK(s, [Obs(s) EXCEPT !.s2t = [j \in 1..Len(Mnems) |-> CHOOSE x \in S2TAdm(s, Mnems[j]) : TRUE],
                               !.parse = [j \in 1..Len(Mnems) |-> CHOOSE x \in ParseAdm(s, Mnems[j]) : TRUE]])
Witness == ~(n = Depth /\ s.shared # {} /\ s.stale # {})     \* violated = such a state is reached (run by hand)
=============================================================================
