CONSTANTS
  MaxLabel = 63
  MaxName = 255
  MaxOff = 16384
  Mode = "compress"
  Tier = 0
  Shard = 0
  NShards = 1
  CMode = "types"
  CShard = 0
  CNShards = 1
INIT CInit
NEXT CNext
INVARIANT COut
