CONSTANTS
  MaxLabel = 63
  MaxName = 255
INIT Init
NEXT Next
INVARIANTS NumInv CodeInv Anchors
CHECK_DEADLOCK FALSE
