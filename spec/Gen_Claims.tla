----------------------------- MODULE Gen_Claims -----------------------------
(* Property C02, the allocation / rejection clause on lying inner lengths: every *)
(* case of Claims!Shapes x tails x claims x {nothing, a record} behind is one    *)
(* state; the vector carries the message octets, the spec's verdict and the      *)
(* spec's allocation bound for that input length.  Wide = TRUE is the thorough   *)
(* universe (more tails and claim values).                                       *)
EXTENDS Claims, GenBase

CONSTANTS Shard, NShards, Wide

VARIABLE v

OKShapes == { s \in Shapes : ShapeOK(s) }

\* the universe is not vacuous: every kind of claim occurs, the sized fields are the ones the RFCs have
ASSUME \A k \in {"sized", "str", "window", "apl", "opt", "svcb", "alpn", "rdlen"} : \E s \in OKShapes : s.kind = k
ASSUME { <<s.t, s.i>> : s \in { x \in OKShapes : x.kind = "sized" } }
         = { <<50, 5>>, <<50, 7>>, <<51, 5>>, <<55, 4>>, <<55, 5>>, <<249, 7>>, <<249, 9>>, <<250, 5>>, <<250, 9>> }
ASSUME AllocBound(64) < 65535          \* a one-octet-per-element allocation of a 16-bit claim is visible on a 64-octet input

CaseIdx(c) == c.t + 7 * c.i + 13 * c.claim + 31 * c.tail + c.behind

Init == \/ \E s \in OKShapes : \E c \in CasesOf(s, Wide) : CaseIdx(c) % NShards = Shard /\ v = c
        \/ Shard = 0 /\ v = [kind |-> "limits"]      \* not a case: the constants of the allocation bound, for the recorder
Next == UNCHANGED v

Limits == [place |-> "limits", bytes |-> <<>>, allock |-> AllocK, allocc |-> AllocC]
Out == Emit(IF v.kind = "limits" THEN Limits ELSE ClaimVec(v))
=============================================================================
