--------------------------- MODULE Trace_SvcbText ---------------------------
(* Events from harness `svcbtext record`: the RDATA part of the real String()   *)
(* of random SVCB / HTTPS records and the real PackRR octets of the same record *)
(* (trusted through C01).  The reader must read the text to those octets.       *)
(*  string  [text, wire]                                                        *)
EXTENDS SvcbText, TraceBase

VARIABLE l
Ev == Trace[l]

Judge(e) ==
  CASE e.ev = "string" -> LET r == ReadSvcb(e.text) IN r.ok /\ r.wire = e.wire
    [] OTHER -> FALSE

Init == l = 1 /\ HWInit
Next == /\ l <= Len(Trace)
        /\ IF Judge(Ev) THEN TRUE ELSE MarkBad(l)
        /\ HW(l)
        /\ l' = l + 1
=============================================================================
