CONSTANTS
  MaxLabel = 63
  MaxName = 255
INIT Init
NEXT Next
INVARIANTS Anchors Shape Reasons
CHECK_DEADLOCK FALSE
