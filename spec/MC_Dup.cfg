INIT Init
NEXT Next
INVARIANTS Equivalence DedupProps
