CONSTANTS
  MaxLabel = 63
  MaxName = 255
INIT Init
NEXT Next
INVARIANTS Equivalence DedupProps ExtProps
