----------------------------- MODULE Gen_Reverse -----------------------------
(* Vectors for X04.  Every text is built here and judged by Reverse!ParseAddr /  *)
(* IsStamp, so the parser specifications are what the real code is compared to.  *)
(*  "v4"      boundary octets^4, canonical dotted quad                           *)
(*  "v6"      16-octet patterns x spellings (full, upper case, short, "::" over  *)
(*            every all-zero run, dotted-quad tail)                              *)
(*  "v4text"  1..5 fields of {"", 0, 1, 01, 255, 256, 1a, 1000} joined by dots   *)
(*  "v6text"  n groups, optional "::" at position p, optional quad tail, and     *)
(*            small malformed pieces                                             *)
(*  "stamp"   boundary years x month/day x time of day (valid and invalid)       *)
(*  "origin"  (s, origin) pairs for AddOrigin / TrimDomainName                   *)
EXTENDS Reverse, GenBase

SetToSeq(S) == LET RECURSIVE F(_) F(T) == IF T = {} THEN <<>> ELSE LET e == CHOOSE e \in T : TRUE IN <<e>> \o F(T \ {e}) IN F(S)

CONSTANTS Mode, Shard, NShards

VARIABLES v

B == {0, 1, 9, 10, 99, 100, 255}
G == { <<0, 0>>, <<255, 255>>, <<13, 184>>, <<0, 10>> }
V6S(x) == { g1 \o g2 \o g3 \o g4 \o g5 \o g6 \o g7 \o g8 :
          g1 \in {<<0, 0>>, <<32, 1>>, <<254, 128>>}, g2 \in G, g3 \in {<<0, 0>>, <<0, 10>>}, g4 \in {<<0, 0>>}, g5 \in {<<0, 0>>, <<255, 255>>},
          g6 \in {<<0, 0>>, <<255, 255>>}, g7 \in {<<0, 0>>, <<192, 0>>}, g8 \in {<<0, 0>>, <<2, 1>>} }
Spellings(a) ==
  { FullText(a), Upper(FullText(a)), ShortText(a), QuadTailText(a) }
  \cup UNION { { EllText(a, i, j) : j \in { k \in 1..8 : EllOK(a, i, k) } } : i \in 1..8 }

F4 == { <<>>, <<48>>, <<49>>, <<48, 49>>, <<50, 53, 53>>, <<50, 53, 54>>, <<49, 97>>, <<49, 48, 48, 48>> }
V4Texts(n) == UNION { { JoinWith(fs, 46) : fs \in [1..k -> F4] } : k \in 1..n }     \* parameterised: TLC evaluates constants eagerly

One == <<49>>
Ones(n) == [i \in 1..n |-> One]
Quad == <<49, 46, 50, 46, 51, 46, 52>>
\* n groups "1", "::" before group p+1 (p = -1: none), optional quad tail
V6Shape(n, p, tail) ==
  LET head == JoinWith(Ones(IF p < 0 THEN n ELSE p), 58)
      rest == JoinWith(Ones(IF p < 0 THEN 0 ELSE n - p) \o (IF tail THEN <<Quad>> ELSE <<>>), 58)
  IN IF p < 0 THEN (IF tail THEN (IF n = 0 THEN Quad ELSE head \o <<58>> \o Quad) ELSE head)
     ELSE head \o <<58, 58>> \o rest
V6Odd == { <<>>, <<58>>, <<58, 58>>, <<58, 58, 58>>, <<58, 58, 49, 58, 58>>, <<49, 58, 58, 49, 58, 58, 49>>, <<58, 49>>, <<49, 58>>,
           <<49, 58, 58, 103>>, <<49, 50, 51, 52, 53, 58, 58>>, <<58, 58, 49, 37, 101>>, <<58, 58, 49, 46, 50, 46, 51>>,
           <<58, 58, 49, 46, 50, 46, 51, 46, 52, 58, 49>>, <<58, 58, 50, 53, 54, 46, 49, 46, 49, 46, 49>>,
           <<58, 58, 102, 102, 102, 102, 58, 49, 57, 50, 46, 48, 46, 50, 46, 49>>,            \* ::ffff:192.0.2.1 (mapped)
           <<58, 58, 70, 70, 70, 70, 58, 49, 48, 46, 48, 46, 48, 46, 50, 53, 53>>,            \* ::FFFF:10.0.0.255
           <<58, 58, 49, 57, 50, 46, 48, 46, 50, 46, 49>>,                                      \* ::192.0.2.1 (compatible, not mapped)
           <<32, 58, 58, 49>>, <<58, 58, 49, 32>>, <<58, 58, 48, 49, 46, 50, 46, 51, 46, 52>> }
V6Texts(x) == { V6Shape(n, p, t) : n \in 0..9, p \in -1..9, t \in BOOLEAN } \cup V6Odd

Two(n) == << 48 + (n \div 10), 48 + (n % 10) >>
Year4(yy) == << 48 + (yy \div 1000), 48 + ((yy \div 100) % 10), 48 + ((yy \div 10) % 10), 48 + (yy % 10) >>
Years == {1, 1900, 1901, 1969, 1970, 1999, 2000, 2004, 2026, 2037, 2038, 2100, 2105, 2106, 2107, 2174, 2175, 2242, 2243, 2379, 9999}
MDs == { <<1, 1>>, <<1, 19>>, <<2, 7>>, <<2, 28>>, <<2, 29>>, <<2, 30>>, <<3, 1>>, <<4, 30>>, <<4, 31>>, <<12, 13>>, <<12, 31>>,
         <<13, 1>>, <<0, 1>>, <<1, 0>>, <<1, 32>> }
Times == { <<0, 0, 0>>, <<3, 14, 7>>, <<3, 14, 8>>, <<6, 28, 15>>, <<6, 28, 16>>, <<20, 45, 52>>, <<23, 59, 59>>,
           <<24, 0, 0>>, <<23, 60, 0>>, <<23, 59, 60>> }
Stamps(x) == { Year4(y) \o Two(md[1]) \o Two(md[2]) \o Two(t[1]) \o Two(t[2]) \o Two(t[3]) : y \in Years, md \in MDs, t \in Times }
StampOdd == { <<>>, <<50, 48, 50, 54>>, Year4(2026) \o Two(1) \o Two(1) \o Two(0) \o Two(0) \o <<48>>,
              Year4(2026) \o Two(1) \o Two(1) \o Two(0) \o Two(0) \o Two(0) \o <<48>>,
              Year4(2026) \o Two(1) \o Two(1) \o Two(0) \o Two(0) \o <<48, 120>>,
              <<32>> \o Year4(2026) \o Two(1) \o Two(1) \o Two(0) \o Two(0) \o Two(0),
              <<45>> \o Year4(26) \o Two(1) \o Two(1) \o Two(0) \o Two(0) \o <<48>>,
              <<49, 51, 48, 49, 56, 52, 53, 51, 49, 48>> }       \* a plain number of seconds is not this function's input form

Foo == <<102, 111, 111>>  Org == <<111, 114, 105, 103, 105, 110>>  Bb == <<98>>
Ss == { <<>>, At, Foo, Foo \o Dot, Foo \o Dot \o Bb, Foo \o Dot \o Bb \o Dot, Foo \o Dot \o Org, Foo \o Dot \o Org \o Dot,
        Org, Org \o Dot, Upper(Org) \o Dot, Dot, Bb \o Dot \o Foo \o Dot \o Upper(Org), Foo \o Org, Foo \o Org \o Dot,
        Foo \o <<92, 46>> \o Org \o Dot }                         \* foo\.origin.  (an escaped dot is no label boundary)
Os == { <<>>, Dot, Org, Org \o Dot, Upper(Org), Bb \o Dot, Foo \o Dot \o Org \o Dot }

InShardOf(t) == (Len(t) + SumSeq(t)) % NShards = Shard

Init ==
  \/ Mode = "v4"     /\ \E a \in [1..4 -> B] : v = QuadText(a) /\ InShardOf(a)
  \/ Mode = "v6"     /\ \E a \in V6S(0) : InShardOf(a) /\ v \in Spellings(a)
  \/ Mode = "v4text" /\ v \in V4Texts(5) /\ InShardOf(v)
  \/ Mode = "v6text" /\ v \in V6Texts(0)
  \/ Mode = "stamp"  /\ v \in Stamps(0) \cup StampOdd
  \/ Mode = "origin" /\ \E s \in Ss, o \in Os : v = <<s, o>>
Next == UNCHANGED v

AddrVector(t) ==
  LET p == ParseAddr(t) IN
  [kind |-> "addr", text |-> t, ok |-> p.ok, arpa |-> IF p.ok THEN SetToSeq(ReverseAdm(p.v)) ELSE <<>>]
StampVector(s) ==
  [kind |-> "stamp", text |-> s, ok |-> IsStamp(s), t |-> IF IsStamp(s) THEN StampValue(s) ELSE <<0, 0>>]
OriginVector(p) ==
  [kind |-> "origin", s |-> p[1], origin |-> p[2], add |-> AddOriginFull(p[1], p[2]), trim |-> SetToSeq(TrimAdm(p[1], p[2]))]

Out == CASE Mode \in {"v4", "v6", "v4text", "v6text"} -> Emit(AddrVector(v))
         [] Mode = "stamp"  -> Emit(StampVector(v))
         [] Mode = "origin" -> Emit(OriginVector(v))
=============================================================================
