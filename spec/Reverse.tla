------------------------------ MODULE Reverse ------------------------------
(* Small utilities around names:                                                *)
(*  1. ReverseAddr: the reverse-lookup name of an IP address                    *)
(*       IPv4  RFC 1035 s.3.5   d.c.b.a.in-addr.arpa.   (decimal, no leading 0) *)
(*       IPv6  RFC 3596 s.2.5   32 nibbles, least significant first, ip6.arpa.  *)
(*     with the textual address forms of RFC 4291 s.2.2 (IPv6) and dotted quad  *)
(*     (IPv4) stated as a parser over octets (ParseAddr).                       *)
(*  2. dnsutil.AddOrigin / TrimDomainName in full (C19 binds the common case):  *)
(*     the zone-file conventions "@" = apex, "" handled, origin with or without *)
(*     final dot.                                                               *)
(*  3. RRSIG time stamps (RFC 4034 s.3.2: YYYYMMDDHHmmSS in UTC; s.3.1.5: the   *)
(*     field is 32 bits, seconds since the epoch modulo 2^32, RFC 1982 serial   *)
(*     arithmetic): TimeToString / StringToTime.  32-bit quantities are pairs   *)
(*     of 16-bit limbs <<hi, lo>> (TLC integers are 32-bit signed).             *)
(* Text is a sequence of character codes.                                       *)
EXTENDS Names

-----------------------------------------------------------------------------
(* 1. Addresses                                                                 *)

RECURSIVE SplitOn(_, _, _, _)
SplitOn(s, sep, i, cur) ==         \* fields of s between occurrences of sep (empty fields kept)
  IF i > Len(s) THEN << cur >>
  ELSE IF s[i] = sep THEN << cur >> \o SplitOn(s, sep, i + 1, <<>>)
  ELSE SplitOn(s, sep, i + 1, Append(cur, s[i]))
Fields(s, sep) == SplitOn(s, sep, 1, <<>>)

RECURSIVE DecVal(_)
DecVal(f) == IF f = <<>> THEN 0 ELSE DecVal(SubSeq(f, 1, Len(f) - 1)) * 10 + (f[Len(f)] - 48)

\* one field of a dotted quad: 1..3 digits, no leading zero (AMBIG elsewhere: octal), at most 255
IsQuadField(f) == /\ Len(f) \in 1..3 /\ \A i \in 1..Len(f) : IsDigit(f[i])
                  /\ (Len(f) > 1 => f[1] # 48)
                  /\ DecVal(f) <= 255
ParseV4(s) ==
  LET fs == Fields(s, 46) IN
  IF Len(fs) = 4 /\ \A i \in 1..4 : IsQuadField(fs[i]) THEN [ok |-> TRUE, v |-> [i \in 1..4 |-> DecVal(fs[i])]]
  ELSE [ok |-> FALSE]

HexVal(c) == IF c >= 48 /\ c <= 57 THEN c - 48 ELSE IF c >= 97 /\ c <= 102 THEN c - 87 ELSE IF c >= 65 /\ c <= 70 THEN c - 55 ELSE -1
IsGroup(f) == Len(f) \in 1..4 /\ \A i \in 1..Len(f) : HexVal(f[i]) >= 0
RECURSIVE HexNum(_)
HexNum(f) == IF f = <<>> THEN 0 ELSE HexNum(SubSeq(f, 1, Len(f) - 1)) * 16 + HexVal(f[Len(f)])
GroupOctets(f) == << HexNum(f) \div 256, HexNum(f) % 256 >>

Zeros(n) == [i \in 1..n |-> 0]

(* RFC 4291 s.2.2: 1. x:x:x:x:x:x:x:x  2. "::" once, for one or more groups of  *)
(* zeros  3. x:x:x:x:x:x:d.d.d.d                                                *)
ParseV6(s) ==
  LET fs0 == Fields(s, 58)
      n0  == Len(fs0) IN
  IF n0 < 3 THEN [ok |-> FALSE]                                   \* fewer than two colons
  ELSE
  LET lead  == fs0[1] = <<>>
      trail == fs0[n0] = <<>>
      okEnds == (lead => fs0[2] = <<>>) /\ (trail => fs0[n0 - 1] = <<>>)     \* a colon at either end is half of "::"
      fs == SubSeq(fs0, IF lead THEN 2 ELSE 1, IF trail THEN n0 - 1 ELSE n0)
      n  == Len(fs)
      E  == { i \in 1..n : fs[i] = <<>> }                          \* ellipsis positions
      hasQuad == n >= 1 /\ \E j \in 1..Len(fs[n]) : fs[n][j] = 46
      quad == IF hasQuad THEN ParseV4(fs[n]) ELSE [ok |-> FALSE]
      ng == IF hasQuad THEN n - 1 ELSE n                            \* fields that must be groups or the ellipsis
      groupsOK == \A i \in 1..ng : i \in E \/ IsGroup(fs[i])
      octs(i) == IF i \in E THEN <<>> ELSE GroupOctets(fs[i])
      explicit == 2 * (ng - Cardinality(E)) + (IF hasQuad THEN 4 ELSE 0)
  IN IF ~okEnds \/ n < 1 \/ Cardinality(E) > 1 \/ (hasQuad /\ ~quad.ok) \/ ~groupsOK THEN [ok |-> FALSE]
     ELSE IF E = {} THEN
        (IF explicit = 16 THEN [ok |-> TRUE, v |-> Concat([i \in 1..ng |-> octs(i)]) \o (IF hasQuad THEN quad.v ELSE <<>>)]
         ELSE [ok |-> FALSE])
     ELSE IF explicit > 14 THEN [ok |-> FALSE]                      \* "::" stands for at least one group
     ELSE LET e == CHOOSE i \in E : TRUE IN
          [ok |-> TRUE,
           v |-> Concat([i \in 1..(e - 1) |-> octs(i)]) \o Zeros(16 - explicit)
                 \o Concat([i \in 1..(ng - e) |-> octs(e + i)]) \o (IF hasQuad THEN quad.v ELSE <<>>)]

HasColon(s) == \E i \in 1..Len(s) : s[i] = 58
ParseAddr(s) == IF HasColon(s) THEN ParseV6(s) ELSE ParseV4(s)

DecText(b) == IF b >= 100 THEN << 48 + (b \div 100), 48 + ((b \div 10) % 10), 48 + (b % 10) >>
              ELSE IF b >= 10 THEN << 48 + (b \div 10), 48 + (b % 10) >> ELSE << 48 + b >>
HexDigit(n) == IF n < 10 THEN 48 + n ELSE 87 + n
InAddrArpa == <<105, 110, 45, 97, 100, 100, 114, 46, 97, 114, 112, 97, 46>>      \* "in-addr.arpa."
Ip6Arpa    == <<105, 112, 54, 46, 97, 114, 112, 97, 46>>                         \* "ip6.arpa."

ReverseV4(a) == Concat([i \in 1..4 |-> DecText(a[5 - i]) \o <<46>>]) \o InAddrArpa
ReverseV6(a) == Concat([i \in 1..16 |-> << HexDigit(a[17 - i] % 16), 46, HexDigit(a[17 - i] \div 16), 46 >>]) \o Ip6Arpa

\* AMBIG: an IPv4-mapped IPv6 address (::ffff:a.b.c.d, RFC 4291 s.2.5.5.2) is an IPv6
\* address (ip6.arpa) that stands for an IPv4 node (in-addr.arpa): both are admitted.
Mapped(a) == Len(a) = 16 /\ SubSeq(a, 1, 10) = Zeros(10) /\ a[11] = 255 /\ a[12] = 255
ReverseAdm(a) == IF Len(a) = 4 THEN { ReverseV4(a) }
                 ELSE IF Mapped(a) THEN { ReverseV6(a), ReverseV4(SubSeq(a, 13, 16)) }
                 ELSE { ReverseV6(a) }

\* the names are compared as names: ASCII case does not matter
ReverseOK(text, ok, arpa) ==
  LET p == ParseAddr(text) IN
  /\ ok = p.ok
  /\ ok => Lower(arpa) \in ReverseAdm(p.v)

-----------------------------------------------------------------------------
(* 2. dnsutil.AddOrigin / TrimDomainName                                        *)
At == <<64>>        \* "@"
Dot == <<46>>

\* AddOrigin: "adds origin to s if s is not already a FQDN ... If origin does not end with
\* a ".", the result won't either ... "@" represents the apex"; the table in its comment:
\*  ("foo.", "origin.") -> "foo."    ("foo", "origin.") -> "foo.origin."   ("foo", "origin") -> "foo.origin"
\*  ("foo", ".") -> "foo."  ("foo.", ".") -> "foo."  ("@", "origin.") -> "origin."  ("", "origin.") -> "origin."
\*  ("foo", "") -> "foo"
AddOriginFull(s, origin) ==
  IF IsFqdnSpec(s) THEN s
  ELSE IF origin = <<>> THEN s
  ELSE IF s = At \/ s = <<>> THEN origin
  ELSE IF origin = Dot THEN s \o Dot
  ELSE s \o Dot \o origin

\* TrimDomainName: "trims origin from s if s is a subdomain.  This function will never
\* return "", but returns "@" instead ... If the return value ends in a ".", the domain was
\* not the suffix.  origin can end in "." or not.  Either way the results should be the same."
\* "Someone is using TrimDomainName(s, ".") to remove a dot if it exists."
\* Stated on labels; s and origin are well-formed names (Parse .st = "ok").
TrimRoot(s) == IF s = Dot THEN At                                                \* the apex of the root zone
               ELSE IF IsFqdnSpec(s) THEN SubSeq(s, 1, Len(s) - 1) ELSE s
TrimSpec(s, origin) ==
  IF s = <<>> THEN At
  ELSE IF origin = Dot THEN TrimRoot(s)
  ELSE LET ps == Parse(FqdnSpec(s))  po == Parse(FqdnSpec(origin))
           ns == Len(ps.labels)  no == Len(po.labels) IN
       IF no = 0 THEN TrimRoot(s)                                                \* origin "" = "." ("can end in . or not")
       ELSE IF CommonSuffix(ps.labels, po.labels) # no THEN s                    \* not a subdomain: unchanged
       ELSE IF ns = no THEN At
       ELSE SubSeq(s, 1, ps.starts[ns - no + 1] - 1)                             \* the text before the dot that precedes origin
                                                                                 \* (starts are 0-based offsets)
\* AMBIG: the empty origin ("nothing to append" for AddOrigin) may also leave s as it is
TrimAdm(s, origin) == IF origin = <<>> /\ s # <<>> THEN { TrimSpec(s, origin), s } ELSE { TrimSpec(s, origin) }
-----------------------------------------------------------------------------
(* 3. Time stamps                                                               *)
L32(x) == << x \div 65536, x % 65536 >>                    \* 0 <= x < 2^31
AddL(a, b) == LET lo == a[2] + b[2] IN << (a[1] + b[1] + (lo \div 65536)) % 65536, lo % 65536 >>
NegL(b) == AddL(<< 65535 - b[1], 65535 - b[2] >>, <<0, 1>>)
SubL(a, b) == AddL(a, NegL(b))
MulSmall(a, k) == LET lo == a[2] * k IN << (a[1] * k + (lo \div 65536)) % 65536, lo % 65536 >>    \* k < 2^15, modulo 2^32
Mul86400(a) == MulSmall(MulSmall(a, 675), 128)

IsLeap(y) == (y % 4 = 0 /\ y % 100 # 0) \/ y % 400 = 0
DaysInMonth(y, m) == IF m = 2 THEN (IF IsLeap(y) THEN 29 ELSE 28) ELSE IF m \in {4, 6, 9, 11} THEN 30 ELSE 31

\* days from 0000-03-01 to y-m-d in the proleptic Gregorian calendar (y >= 1)
Days0(y, m, d) ==
  LET yy == IF m <= 2 THEN y - 1 ELSE y
      era == yy \div 400
      yoe == yy - era * 400
      mp == (m + 9) % 12
      doy == ((153 * mp + 2) \div 5) + d - 1
  IN era * 146097 + yoe * 365 + (yoe \div 4) - (yoe \div 100) + doy
EpochDays0 == 719468                                       \* Days0(1970, 1, 1)

\* seconds since 1970-01-01T00:00:00Z modulo 2^32
Unix32(y, m, d, hh, mm, ss) ==
  SubL(AddL(Mul86400(L32(Days0(y, m, d))), L32(hh * 3600 + mm * 60 + ss)), Mul86400(L32(EpochDays0)))

Num(s, a, b) == DecVal(SubSeq(s, a, b))
StampFields(s) == [y |-> Num(s, 1, 4), m |-> Num(s, 5, 6), d |-> Num(s, 7, 8), hh |-> Num(s, 9, 10), mm |-> Num(s, 11, 12), ss |-> Num(s, 13, 14)]
\* YYYYMMDDHHmmSS, a real date and time of day (no leap second: the field counts POSIX seconds)
IsStamp(s) ==
  /\ Len(s) = 14 /\ \A i \in 1..14 : IsDigit(s[i])
  /\ LET f == StampFields(s) IN
     /\ f.y >= 1 /\ f.m \in 1..12 /\ f.d >= 1 /\ f.d <= DaysInMonth(f.y, f.m)
     /\ f.hh <= 23 /\ f.mm <= 59 /\ f.ss <= 59
StampValue(s) == LET f == StampFields(s) IN Unix32(f.y, f.m, f.d, f.hh, f.mm, f.ss)

\* StringToTime(s) = (value, error)
StringToTimeOK(s, ok, t) == /\ ok = IsStamp(s)
                            /\ ok => t = StampValue(s)
\* TimeToString(t): ANY stamp that denotes t modulo 2^32 (which of them depends on the
\* reader's clock, RFC 1982; the check is independent of the wall clock)
TimeToStringOK(t, s) == IsStamp(s) /\ StampValue(s) = t

-----------------------------------------------------------------------------
(* Spellings of an address (inputs of the bounded checks; RFC 4291 s.2.2,       *)
(* RFC 5952).  a = 4 or 16 octets.                                              *)
RECURSIVE JoinWith(_, _)
JoinWith(fs, sep) == IF fs = <<>> THEN <<>> ELSE IF Len(fs) = 1 THEN fs[1] ELSE fs[1] \o <<sep>> \o JoinWith(Tail(fs), sep)
QuadText(a) == JoinWith([i \in 1..4 |-> DecText(a[i])], 46)
GroupVal(a, i) == a[2 * i - 1] * 256 + a[2 * i]
Hex4(v) == << HexDigit(v \div 4096), HexDigit((v \div 256) % 16), HexDigit((v \div 16) % 16), HexDigit(v % 16) >>
RECURSIVE StripZeros(_)
StripZeros(h) == IF Len(h) > 1 /\ h[1] = 48 THEN StripZeros(Tail(h)) ELSE h
HexShort(v) == StripZeros(Hex4(v))
Upper(s) == [i \in 1..Len(s) |-> IF s[i] >= 97 /\ s[i] <= 122 THEN s[i] - 32 ELSE s[i]]
FullText(a)  == JoinWith([i \in 1..8 |-> Hex4(GroupVal(a, i))], 58)
ShortText(a) == JoinWith([i \in 1..8 |-> HexShort(GroupVal(a, i))], 58)
\* groups i..j (all zero) written as "::"
EllOK(a, i, j) == i <= j /\ \A k \in i..j : GroupVal(a, k) = 0
EllText(a, i, j) == JoinWith([k \in 1..(i - 1) |-> HexShort(GroupVal(a, k))], 58) \o <<58, 58>>
                    \o JoinWith([k \in 1..(8 - j) |-> HexShort(GroupVal(a, j + k))], 58)
\* the last 32 bits as a dotted quad
QuadTailText(a) == JoinWith([i \in 1..6 |-> HexShort(GroupVal(a, i))], 58) \o <<58>> \o QuadText(SubSeq(a, 13, 16))
=============================================================================
