------------------------------ MODULE MC_Stream ------------------------------
(* Stream.tla on itself: up to MaxFrames frames of sizes in Sizes (one of     *)
(* them above MaxBody), every chunking, short reads, a short write at every   *)
(* offset, the stream cut at every offset.  kind = "id": the reply-ID machine *)
(* against its closed form for every inbox of length <= 4 and every deadline. *)
(* ReadFullSem = FALSE swaps in the reader that takes one Read for the whole  *)
(* body: the run must then FAIL (non-vacuity; the driver requires it).        *)
EXTENDS Stream

CONSTANTS Sizes, MaxFrames, ReadFullSem

VARIABLES kind, s, tr, inbox, dl, id
vars == <<kind, s, tr, inbox, dl, id>>

IdU == {"mine", "other", "other2"}
Stale(n) == [i \in 1..n |-> IF i % 2 = 1 THEN "other" ELSE "other2"]
Inboxes == UNION { [1..n -> IdU] : n \in 0..4 }
             \cup { Stale(n) \o <<"mine">> : n \in {8, 9, 10, 16} } \cup { Stale(n) : n \in {8, 9, 10, 16} }      \* no bound on the skipping

Init ==
  \/ kind = "stream" /\ s = SInit /\ tr = "stream" /\ inbox = <<>> /\ dl = 0 /\ id = IdInit
  \/ kind = "id" /\ s = SInit /\ tr \in {"stream", "dgram"} /\ inbox \in Inboxes /\ dl \in (0..4) \cup {Len(inbox) - 1, Len(inbox)} /\ dl >= 0 /\ dl <= Len(inbox) /\ id = IdInit

StreamNext ==
  \/ \E n \in Sizes : CanWrite(s) /\ s.next <= MaxFrames /\ s' = WriteFrame(s, n)
  \/ \E n \in Sizes : \E j \in 0..(n + 1) : CanWrite(s) /\ s.next <= MaxFrames /\ n <= MaxBody /\ s' = ShortWrite(s, n, j)
  \/ \E j \in 1..Len(s.wire) : CanDeliver(s, j) /\ s' = Deliver(s, j)
  \/ CanCut(s) /\ s' = Cut(s)
  \/ \E j \in 1..Len(s.avail) : CanRead(s, j) /\ s' = (IF ReadFullSem THEN Read(s, j) ELSE ReadOnce(s, j))
  \/ CanSeeEnd(s) /\ s' = SeeEnd(s)

Next ==
  \/ kind = "stream" /\ StreamNext /\ UNCHANGED <<kind, tr, inbox, dl, id>>
  \/ /\ kind = "id" /\ UNCHANGED <<kind, s, tr, inbox, dl>>
     /\ \/ IdCanRecv(id, inbox, dl) /\ id' = IdRecv(id, tr, inbox, "mine")
        \/ IdCanExpire(id, inbox, dl) /\ id' = IdExpire(id)

-----------------------------------------------------------------------------
StreamSound == kind = "stream" => Sound(s)

\* when the reader has seen the end, it has delivered exactly what the closed form says
\* (sizes of all frames that were put on the wire, whole or in part, in order; e = octets the reader consumed)
OnWire == LET ids == { m \in 1..Len(s.size) : m \notin s.refused } IN
          SelectSeq([m \in 1..Len(s.size) |-> m], LAMBDA m : m \in ids)
Consumed == SumSeq([i \in 1..Len(s.out) |-> Len(s.out[i]) + 2]) + Len(s.rbuf) + (IF s.ph = "body" THEN 2 ELSE 0)
ClosedForm ==
  kind = "stream" /\ s.rd \in {"eof", "err"} =>
    LET sizes == [i \in 1..Len(OnWire) |-> s.size[OnWire[i]]]
        r == ReaderResult(sizes, Consumed) IN
    /\ Len(s.out) = r.delivered
    /\ (s.rd = "eof" <=> r.final = "eof")

\* the header-decoding reader (h = 1: the empty body is the runt of this universe): what it hands out when it carries on
\* is the closed form HdrReader.carryon; giving up at the first runt yields a prefix of it
HdrClosedForm ==
  kind = "stream" /\ s.rd \in {"eof", "err"} =>
    LET sizes == [i \in 1..Len(OnWire) |-> s.size[OnWire[i]]]
        r == HdrReader(sizes, Consumed, 1) IN
    /\ HdrView(s, 1) = [i \in 1..Len(r.carryon) |-> BodyOf(OnWire[r.carryon[i]], sizes[r.carryon[i]])]
    /\ Len(r.stop) <= Len(r.carryon) /\ \A i \in 1..Len(r.stop) : r.stop[i] = r.carryon[i]
    /\ (\A i \in 1..Len(sizes) : sizes[i] >= 1) => r.stop = r.carryon

IdAgrees ==
  kind = "id" /\ id.res # "pending" =>
    LET r == IdResult(tr, inbox, dl, "mine") IN id.res = r.res /\ id.idx = r.idx
IdShape ==
  kind = "id" =>
    /\ (id.res = "ok" => inbox[id.idx] = "mine")
    /\ (id.res = "errid" => tr = "stream" /\ id.idx = 1 /\ inbox[1] # "mine")
    /\ (tr = "dgram" => id.res # "errid")
=============================================================================
