INIT Init
NEXT Next
INVARIANTS TypeOK NothingSet TimeoutOverrides OwnSetting DialerPriority Independent ContextEarliest Monotone Dial Buffers
CHECK_DEADLOCK FALSE
