------------------------------- MODULE Update -------------------------------
(* Dynamic update messages (RFC 2136): what each helper of update.go must put   *)
(* into the prerequisite section (= answer section, s.2.4) and the update       *)
(* section (= authority section, s.2.5) for a given resource record, and the    *)
(* zone section / header SetUpdate makes (s.2.2, 2.3).                          *)
(*                                                                            *)
(* A record is seen at the framing level (Framing!RRAt):                        *)
(*      [owner, type, class, ttl (4 octets), rdata (octets)]                    *)
(* The table is stated twice, independently:                                    *)
(*   Row / Result     sender side, s.2.4.1-2.4.5 and 2.5.1-2.5.4                *)
(*   PrereqMeaning / UpdateMeaning   receiver side, s.3.2 and s.3.4.1/3.4.2     *)
(* and MC_Update checks that the receiver reads every row as what the sender    *)
(* meant.                                                                       *)
EXTENDS Framing

ClassNONE == 254
ClassANY  == 255
TypeANY   == 255
TypeSOA   == 6
ClassINET == 1
OpcodeUpdate == 5
Zero4 == <<0, 0, 0, 0>>

Frame(owner, type, class, ttl, rdata) == [owner |-> owner, type |-> type, class |-> class, ttl |-> ttl, rdata |-> rdata]

(* --------------------------------------------------------------------------- *)
(* Sender side.  One row per helper:                                            *)
(*   sec    "pr" prerequisite (answer) / "up" update (authority)                *)
(*   type   "rr" the record's TYPE / "ANY"                                      *)
(*   class  "zone" the zone's class / "ANY" / "NONE"                            *)
(*   ttl    "zero" / "rr" the record's TTL                                      *)
(*   rdata  TRUE: the record's RDATA, FALSE: RDLENGTH 0                         *)
R(sec, type, class, ttl, rdata) == [sec |-> sec, type |-> type, class |-> class, ttl |-> ttl, rdata |-> rdata]
Table ==
  [ RRsetUsed    |-> R("pr", "rr",  "ANY",  "zero", FALSE),      \* 2.4.1 RRset exists (value independent)
    Used         |-> R("pr", "rr",  "zone", "zero", TRUE),       \* 2.4.2 RRset exists (value dependent)
    RRsetNotUsed |-> R("pr", "rr",  "NONE", "zero", FALSE),      \* 2.4.3 RRset does not exist
    NameUsed     |-> R("pr", "ANY", "ANY",  "zero", FALSE),      \* 2.4.4 name is in use
    NameNotUsed  |-> R("pr", "ANY", "NONE", "zero", FALSE),      \* 2.4.5 name is not in use
    Insert       |-> R("up", "rr",  "zone", "rr",   TRUE),       \* 2.5.1 add to an RRset
    RemoveRRset  |-> R("up", "rr",  "ANY",  "zero", FALSE),      \* 2.5.2 delete an RRset
    RemoveName   |-> R("up", "ANY", "ANY",  "zero", FALSE),      \* 2.5.3 delete all RRsets from a name
    Remove       |-> R("up", "rr",  "NONE", "zero", TRUE) ]      \* 2.5.4 delete an RR from an RRset
Helpers == DOMAIN Table

Result(h, zclass, r) ==
  LET row == Table[h] IN
  Frame(r.owner,
        IF row.type = "ANY" THEN TypeANY ELSE r.type,
        CASE row.class = "zone" -> zclass [] row.class = "ANY" -> ClassANY [] row.class = "NONE" -> ClassNONE,
        IF row.ttl = "zero" THEN Zero4 ELSE r.ttl,
        IF row.rdata THEN r.rdata ELSE <<>>)

\* a call = [h, rrs]: the helper applied to a list of records, in order
Results(call, zclass) == [i \in 1..Len(call.rrs) |-> Result(call.h, zclass, call.rrs[i])]

RECURSIVE Section(_, _, _)
Section(sec, calls, zclass) ==        \* the records the calls put into one section, in call order
  IF calls = <<>> THEN <<>>
  ELSE (IF Table[Head(calls).h].sec = sec THEN Results(Head(calls), zclass) ELSE <<>>) \o Section(sec, Tail(calls), zclass)

\* SetUpdate(z): opcode UPDATE, QR = 0, zone section = one entry (z, SOA, IN); s.2.3
\* the header bits of a message that was otherwise zero
UpdateBits == OpcodeUpdate * 2048
ZoneEntry(z) == [name |-> z, qtype |-> TypeSOA, qclass |-> ClassINET]

(* --------------------------------------------------------------------------- *)
(* Receiver side (RFC 2136 s.3.2.1-3.2.5: prerequisites; s.3.4.1: prescan,      *)
(* s.3.4.2: update).  "FORMERR" = the record is not a legal one.                *)
PrereqMeaning(f, zclass) ==
  IF f.class = ClassANY THEN
       IF f.ttl # Zero4 \/ f.rdata # <<>> THEN "FORMERR"
       ELSE IF f.type = TypeANY THEN "name-in-use" ELSE "rrset-exists"
  ELSE IF f.class = ClassNONE THEN
       IF f.ttl # Zero4 \/ f.rdata # <<>> THEN "FORMERR"
       ELSE IF f.type = TypeANY THEN "name-not-in-use" ELSE "rrset-does-not-exist"
  ELSE IF f.class = zclass THEN
       IF f.ttl # Zero4 THEN "FORMERR" ELSE "rrset-exists-value"
  ELSE "FORMERR"

UpdateMeaning(f, zclass) ==
  IF f.class = zclass THEN (IF f.type = TypeANY THEN "FORMERR" ELSE "add")          \* meta-types cannot be added
  ELSE IF f.class = ClassANY THEN
       IF f.ttl # Zero4 \/ f.rdata # <<>> THEN "FORMERR"
       ELSE IF f.type = TypeANY THEN "delete-name" ELSE "delete-rrset"
  ELSE IF f.class = ClassNONE THEN
       IF f.ttl # Zero4 \/ f.type = TypeANY THEN "FORMERR" ELSE "delete-rr"
  ELSE "FORMERR"

Intent ==
  [ RRsetUsed |-> "rrset-exists", Used |-> "rrset-exists-value", RRsetNotUsed |-> "rrset-does-not-exist",
    NameUsed |-> "name-in-use", NameNotUsed |-> "name-not-in-use",
    Insert |-> "add", RemoveRRset |-> "delete-rrset", RemoveName |-> "delete-name", Remove |-> "delete-rr" ]

(* --------------------------------------------------------------------------- *)
(* The packed message, walked with Framing.  b = octets, zone = labels.         *)
FrameOfWalk(b, r) == Frame(r.owner, r.type, r.class, r.ttl, Sub(b, r.rdstart + 1, r.rdstart + r.rdlen))

\* a stand-alone packed record (the helper's input), as a frame
FrameOfRR(b) == LET r == RRAt(b, 0) IN
                IF r.ok /\ r.next = Len(b) THEN [ok |-> TRUE, f |-> FrameOfWalk(b, r)] ELSE [ok |-> FALSE]

\* b is the update message <id, zone, zclass, pr, up> without compression
IsUpdateMsg(b, id, zone, zclass, pr, up) ==
  /\ HeaderOK(b)
  /\ LET h == Hdr(b) IN
     /\ h.id = id /\ h.bits = UpdateBits
     /\ h.qd = 1 /\ h.an = Len(pr) /\ h.ns = Len(up) /\ h.ar = 0
     /\ LET q == QuestionAt(b, 12) IN
        /\ q.ok /\ q.name = zone /\ q.qtype = TypeSOA /\ q.qclass = zclass
        /\ q.next = 12 + WireLen(zone) + 4
        /\ LET want == pr \o up
               wr == WalkRR(b, q.next, Len(want), <<>>) IN
           /\ Len(wr) = Len(want)
           /\ \A i \in 1..Len(want) : FrameOfWalk(b, wr[i]) = want[i]
           /\ (IF want = <<>> THEN q.next ELSE wr[Len(wr)].next) = Len(b)
           /\ \A i \in 1..Len(want) :                                   \* no compression ("BIND9 cannot handle" it)
                wr[i].next - (IF i = 1 THEN q.next ELSE wr[i - 1].next) = WireLen(want[i].owner) + 10 + Len(want[i].rdata)
=============================================================================
