CONSTANTS
  Mode = "tcp"
  NStart = 2
  NLsn = 2
  NShut = 2
  NConns = 2
  MaxReq = 1
  NPkts = 0
  CtxMayExpire = FALSE
  PlainShut = {}
  DeadlinesMayFire = FALSE
  ClientMayClose = FALSE
  HandlerMayClose = FALSE
  HandlerMayHijack = FALSE
  StartMayFail = FALSE
  SpareFields = FALSE
  SeqRestart = TRUE
  Bug = "none"
  TrackAct = TRUE
INIT Init
NEXT Next

CHECK_DEADLOCK FALSE
INVARIANT Export

