-------------------------- MODULE Gen_ClientConfig --------------------------
(* Vectors for X03.                                                             *)
(*  Mode "parse":  every sequence of at most N lines of the alphabet; expected  *)
(*                 = the admissible configurations (one per AMBIG policy,       *)
(*                 duplicates merged).  With failAt: the reader fails after     *)
(*                 that many lines -> expected an error.                        *)
(*  Mode "names":  name shape x ndots x search list -> the list of names.       *)
EXTENDS ClientConfig, GenBase, SequencesExt

CONSTANTS Mode, N, Shard, NShards

VARIABLES v

LinesOf(q) == [i \in 1..Len(q) |-> LineAlphabet[q[i]]]
RECURSIVE Sum(_)
Sum(s) == IF s = <<>> THEN 0 ELSE Head(s) + Sum(Tail(s))
InShard(q) == Sum([i \in 1..Len(q) |-> i * q[i]]) % NShards = Shard

Names == { [labels |-> l, fq |-> f] :
             l \in { <<"a">>, <<"www", "b">>, <<"a", "b", "c">>, <<"a", "b", "c", "d">> }, f \in BOOLEAN }
         \cup { [labels |-> <<>>, fq |-> TRUE] }
SearchLists == { <<>>, <<ExOrg>>, <<SubDot>>, <<ExOrg, SubDot>>, <<Root>>, <<ExOrg, Root>>, <<Root, SubDot, Dom(<<"b", "test">>, FALSE)>> }
Ndots == {0, 1, 2, 3, 4, 15}

Init ==
  \/ Mode = "parse" /\ \E q \in UNION { [1..k -> 1..Len(LineAlphabet)] : k \in 0..N } :
                          /\ InShard(q)
                          /\ \E f \in {0} \cup (IF Len(q) > 0 /\ Len(q) <= 2 THEN 1..Len(q) ELSE {}) : v = [q |-> q, failAt |-> f]
  \/ Mode = "names" /\ \E nm \in Names, nd \in Ndots, sl \in SearchLists : v = [nm |-> nm, nd |-> nd, sl |-> sl]
Next == UNCHANGED v

ParseVector(c) ==
  LET L == LinesOf(c.q)
      fa == IF c.failAt = 0 THEN Len(L) + 1 ELSE c.failAt IN
  [kind |-> "parse", lines |-> L, failAt |-> c.failAt,          \* failAt = k > 0: the reader delivers k-1 lines, then fails
   err |-> ReadFails(L, fa),
   exp |-> IF ReadFails(L, fa) THEN <<>> ELSE SetToSeq(Admissible(L))]

NamesVector(c) ==
  [kind |-> "names", labels |-> c.nm.labels, fq |-> c.nm.fq, ndots |-> c.nd,
   search |-> [i \in 1..Len(c.sl) |-> Text(c.sl[i])],
   exp |-> SetToSeq(NameListAdm(c.nd, c.sl, c.nm))]

Out == CASE Mode = "parse" -> Emit(ParseVector(v))
         [] Mode = "names" -> Emit(NamesVector(v))
=============================================================================
