CONSTANTS
  Mode = "pc"
  NStart = 1
  NLsn = 1
  NShut = 1
  NConns = 0
  MaxReq = 0
  NPkts = 3
  CtxMayExpire = TRUE
  PlainShut = {}
  DeadlinesMayFire = FALSE
  ClientMayClose = FALSE
  HandlerMayClose = FALSE
  HandlerMayHijack = FALSE
  StartMayFail = FALSE
  SpareFields = FALSE
  SeqRestart = FALSE
  Bug = "none"
  TrackAct = TRUE
INIT Init
NEXT Next
VIEW View
CHECK_DEADLOCK FALSE
INVARIANTS TypeOK GracefulReturn RepliesDelivered ServeReturnsNil OneLoopPerGeneration LockDiscipline NoCrash PromptUnblock NothingLeft
PROPERTIES NoHandlerStartAfterShutdownReturned StartTwiceErrors ShutdownNotStartedErrors FailedStartLeavesStopped
