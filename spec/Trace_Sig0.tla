----------------------------- MODULE Trace_Sig0 -----------------------------
(* Validates events recorded from the real SIG(0) code against Sig0.tla.       *)
(*                                                                             *)
(* Pass 1, "sign" events (harness `sig0 record`): the inputs of SIG.Sign (the  *)
(* message as packed before signing, the SIG fields) and its result.  The spec *)
(* judges the layout of the result and writes to emit.ndjson, per event: the   *)
(* octets that are signed, the hash to apply, the specified result with a      *)
(* placeholder signature, and the tamper regions.  The harness (`sig0 finish`) *)
(* checks the REAL signature over THESE octets with the standard library,      *)
(* builds a second, independently signed message from the specified result,    *)
(* and runs the real Verify on originals, tampered and truncated copies.       *)
(*                                                                             *)
(* Pass 2, "verify" events (written by `sig0 finish`): received octets, key     *)
(* owner, the time of the call, whether the primitive accepts the signature    *)
(* over the specification's signed octets, and what the real Verify said.      *)
(*                                                                             *)
(* All events are pure observations: a wrong one is marked bad, its finding    *)
(* key goes to register 3, the cursor moves on.                                *)
EXTENDS Sig0, TraceBase, CSV

VARIABLE l

Ev == Trace[l]
EmitX(rec) == CSVWrite("%1$s", <<ToJson(rec)>>, "emit.ndjson")
Zeros(n) == [i \in 1..n |-> 0]

\* the SIG value held more than the five fields Sign reads (a header, type covered / labels / original TTL): filed apart
Preset(e) == IF "preset" \in DOMAIN e /\ e.preset # "" THEN ":preset-sig-struct" ELSE ""

SignKey(e) ==
  LET p == Parse(e.signer) IN
  IF p.st # "ok" \/ ~p.fq \/ ~ValidName(p.labels) THEN "trace/sign-signer-not-a-name"
  ELSE IF ~Walk(e.msg).ok THEN "trace/sign-message-not-walkable"
  ELSE
    LET f   == [alg |-> e.alg, exp |-> e.exp, inc |-> e.inc, keytag |-> e.keytag, signer |-> p.labels]
        rs  == SigRdataSans(f)
        L   == Len(e.msg)
        lf  == IF e.ok THEN LayoutFault(e.msg, f, e.out) ELSE ":none"
        \* the signature field holds one signature of the algorithm's length (RFC 3110 / 6605 / 8080): e.siglen octets
        flt == IF lf = "" /\ Len(e.out) - (L + 11 + Len(rs)) # e.siglen THEN ":signature-length" ELSE lf
        rsOut == IF flt = "" THEN Sub(e.out, L + 12, L + 11 + Len(rs)) ELSE rs     \* the RDATA as sent (AMBIG: case of the signer)
    IN IF EmitX([id |-> e.id, kind |-> "sign", hash |-> SigHash(e.alg), realok |-> (flt = ""),
                 signed |-> SignedOctets(e.msg, rsOut), sigoff |-> L + 11 + Len(rs),
                 specout |-> Output(e.msg, rs, Zeros(e.siglen)), specsigned |-> SignedOctets(e.msg, rs),
                 regions |-> Regions(e.msg, rs, e.siglen), fields |-> RdataFields(e.msg, rs)])
       THEN IF ~e.ok THEN "sig0/sign-" \o e.errclass \o (IF e.compress THEN "-compressed" ELSE "") \o Preset(e)
            \* the octets handed back are the caller's: a later Sign (same process, any SIG value) does not touch them
            ELSE IF "stable" \in DOMAIN e /\ ~e.stable THEN "sig0/sign-result-changed-by-later-sign"
            ELSE IF flt # "" THEN (IF e.reused /\ flt = ":signature-length" THEN "sig0/sign-reused-sig-struct" ELSE "sig0/sign-layout" \o flt \o Preset(e))
            ELSE ""
       ELSE "trace/emit"

\* Verify was called on a SIG value that differs from the record in the message (event field rr): filed apart
OtherStruct(e, v) ==
  IF "rr" \in DOMAIN e /\ (e.rr.inc # v.inc \/ e.rr.exp # v.exp \/ e.rr.keytag # v.keytag) THEN ":other-sig-struct" ELSE ""
RR0 == [inc |-> <<>>, exp |-> <<>>, keytag |-> 0, signer |-> <<>>]

VerifyKey(e) ==
  LET v == View(e.buf)  p == Parse(e.keyowner) IN
  IF p.st # "ok" \/ ~p.fq THEN "trace/verify-keyowner-not-a-name"
  ELSE IF ~e.unchanged THEN "sig0/verify-modifies-input"       \* Verify reads its input: the caller's octets are the same after the call, whatever it returns
  ELSE IF ~v.ok THEN (IF e.accepted THEN "sig0/verify-accepts-invalid:malformed" ELSE "")
  ELSE IF v.signed # e.signed THEN "trace/verify-signed-octets-differ"       \* sigvalid would be about other octets
  ELSE
    LET want == e.keyok /\ VerifyOn(IF "rr" \in DOMAIN e THEN e.rr ELSE RR0, e.buf, p.labels, e.now, e.sigvalid) IN      \* a KEY that is not the signer's key (here: not a key at all) never verifies
    IF e.accepted = want THEN ""
    ELSE IF want THEN (IF OtherStruct(e, v) = "" /\ v.ar >= 257 THEN "sig0/verify-arcount-high-byte" ELSE "sig0/verify-rejects-valid" \o OtherStruct(e, v))
    ELSE "sig0/verify-accepts-invalid:" \o
         (IF ~e.keyok THEN "malformed-key"
          ELSE IF ~e.sigvalid THEN "signature"
          ELSE IF LowerName(v.signer) # LowerName(p.labels) THEN "signer"
          ELSE IF LexLess(v.exp, v.inc) THEN "inverted-window"
          ELSE IF ~LE4(v.inc, e.now) THEN "not-yet-valid" ELSE "expired") \o OtherStruct(e, v)

Key(e) == CASE e.ev = "sign"   -> SignKey(e)
            [] e.ev = "verify" -> VerifyKey(e)
            [] OTHER -> "trace/unknown-event"

Bad(key) == MarkBad(l) /\ TLCSet(3, Append(TLCGet(3), key))
Init == l = 1 /\ HWInit /\ TLCSet(3, <<>>)
Next == /\ l <= Len(Trace)
        /\ LET k == Key(Ev) IN IF k = "" THEN TRUE ELSE Bad(k)
        /\ HW(l)
        /\ l' = l + 1

Accepted18 == PrintT("VP:keys=" \o ToJson(TLCGet(3))) /\ Accepted
=============================================================================
