----------------------------- MODULE MC_Present -----------------------------
(* Present.tla checked on itself: every text of length <= StrLen over Chars   *)
(* (and every octet string of length <= OctLen over Octs) is one state.       *)
EXTENDS Present

CONSTANTS Chars, StrLen,
          Octs, OctLen        \* octet strings for the RenderVal round trip

VARIABLES kind, s

\* texts grow one character per step, so that TLC's workers share the universe
Init == kind \in {"text", "octs"} /\ s = <<>>
Next == /\ UNCHANGED kind
        /\ \/ kind = "text" /\ Len(s) < StrLen /\ \E c \in Chars : s' = Append(s, c)
           \/ kind = "octs" /\ Len(s) < OctLen /\ \E c \in Octs : s' = Append(s, c)

WellFormedResult(L) ==
  /\ L.ill \in {"", "close", "open", "quote"}
  /\ \A i \in 1..Len(L.toks) : L.toks[i].k \in {"tok", "sp", "nl"}
  /\ \A i \in 1..Len(L.toks) : L.toks[i].k = "tok" /\ ~L.toks[i].q => L.toks[i].raw # <<>>
  /\ L.ill = "" => (L.toks = <<>> \/ L.toks[Len(L.toks)].k = "nl")        \* every entry is terminated
  /\ L.ill = "" => L.depth = 0 /\ L.mode = "blank" /\ L.esc = 0
  /\ \A i \in 1..Len(L.toks) : L.toks[i].k = "sp" => (i = 1 \/ L.toks[i-1].k = "nl")   \* sp only begins an entry

\* the lexer is total and its result is well formed
Total == kind = "text" => WellFormedResult(Lex(s))

\* canonical rendering of the token stream lexes to the same token stream
RoundTrip ==
  kind = "text" =>
    LET L == Lex(s) IN
    (L.ill = "" /\ ~L.odd) =>
      LET R == Lex(Render(L.toks)) IN R.toks = L.toks /\ R.ill = "" /\ ~R.amb /\ ~R.odd

\* a comment does not change the token stream: wherever the text can be cut outside
\* quotes / escapes / comments, "<cut>LF" and "<cut>;a("LF" read the same; and a
\* comment appended to the text changes nothing
Cmt == <<cSEMI, 97, cLPAR, cQUOTE>>
CommentsTransparent ==
  kind = "text" =>
    \A p \in 0..Len(s) :
      LET a == Take(s, p)  b == Drop(s, p)  A == LexPrefix(a) IN
      (A.ill = "" /\ A.mode \in {"blank", "token"} /\ A.esc = 0) =>
        LET x == Lex(a \o <<cLF>> \o b)  y == Lex(a \o Cmt \o <<cLF>> \o b) IN
        /\ y.toks = x.toks /\ y.ill = x.ill
        /\ (p = Len(s) => Items(Lex(a \o Cmt).toks) = Items(Lex(a).toks) /\ Lex(a \o Cmt).ill = Lex(a).ill)

\* parentheses do not change the items: a well-formed text wrapped in "( " ... " )" has
\* the same items, and exactly one entry
ParensTransparent ==
  kind = "text" =>
    LET L == Lex(s)  E == LexPrefix(s) IN
    (L.ill = "" /\ E.mode \in {"blank", "token"} /\ E.esc = 0) =>
      LET W == Lex(<<97, cSP, cLPAR, cSP>> \o s \o <<cSP, cRPAR>>) IN
      /\ W.ill = ""
      /\ Items(W.toks) = <<Tok(<<97>>, <<97>>, FALSE)>> \o Items(L.toks)
      /\ Len(Entries(W.toks)) = 1

\* what makes a text ill-formed, stated independently of the machine: count quotes and
\* parentheses that are live (outside comments, escapes and strings)
RECURSIVE Scan(_, _, _, _, _, _)
Scan(t, i, inq, inc, esc, depth) ==     \* -> <<"close" seen, inq at end, depth at end>>
  IF i > Len(t) THEN <<FALSE, inq, depth>>
  ELSE LET c == t[i] IN
    IF inc THEN Scan(t, i + 1, inq, c # cLF, 0, depth)
    ELSE IF esc = 1 THEN Scan(t, i + 1, inq, FALSE, IF IsDigit(c) THEN 2 ELSE 0, depth)
    ELSE IF esc \in {2, 3} /\ IsDigit(c) THEN Scan(t, i + 1, inq, FALSE, IF esc = 2 THEN 3 ELSE 0, depth)
    ELSE IF c = cBSL THEN Scan(t, i + 1, inq, FALSE, 1, depth)
    ELSE IF c = cQUOTE THEN Scan(t, i + 1, ~inq, FALSE, 0, depth)
    ELSE IF inq THEN Scan(t, i + 1, inq, FALSE, 0, depth)
    ELSE IF c = cSEMI THEN Scan(t, i + 1, inq, TRUE, 0, depth)
    ELSE IF c = cLPAR THEN Scan(t, i + 1, inq, FALSE, 0, depth + 1)
    ELSE IF c = cRPAR THEN (IF depth = 0 THEN <<TRUE, inq, depth>> ELSE Scan(t, i + 1, inq, FALSE, 0, depth - 1))
    ELSE Scan(t, i + 1, inq, FALSE, 0, depth)
IllIndependent ==
  kind = "text" =>
    LET r == Scan(s, 1, FALSE, FALSE, 0, 0)  L == Lex(s) IN
    L.ill = (IF r[1] THEN "close" ELSE IF r[2] THEN "quote" ELSE IF r[3] > 0 THEN "open" ELSE "")

\* every octet string has a spelling, quoted and unquoted, that denotes it
ValRoundTrip ==
  kind = "octs" =>
    \A q \in BOOLEAN :
      (q \/ s # <<>>) =>
        LET L == Lex(RenderVal(s, q)) IN
        /\ L.ill = "" /\ ~L.odd /\ ~L.amb
        /\ Len(Items(L.toks)) = 1 /\ Items(L.toks)[1].v = s /\ Items(L.toks)[1].q = q

\* token interpreters on fixed examples (ASCII written out)
Examples ==
  /\ TTLOf(<<51, 54, 48, 48>>) = [ok |-> TRUE, big |-> FALSE, v |-> 3600]                  \* 3600
  /\ TTLOf(<<49, 104, 51, 48, 109>>).v = 5400                                               \* 1h30m
  /\ TTLOf(<<49, 87, 50, 68>>).v = 777600                                                   \* 1W2D
  /\ TTLOf(<<49, 104, 51, 48>>).v = 3630                                                    \* 1h30
  /\ ~TTLOf(<<104>>).ok /\ ~TTLOf(<<49, 104, 104>>).ok /\ ~TTLOf(<<49, 120>>).ok /\ ~TTLOf(<<>>).ok
  /\ TTLOf(<<57, 57, 57, 57, 57, 119>>).big                                                 \* 99999w
  /\ TTLOf(<<52, 50, 57, 52, 57, 54, 55, 50, 57, 53>>).big                                  \* 4294967295
  /\ TTLOf(<<50, 49, 52, 55, 52, 56, 51, 54, 52, 55>>) = [ok |-> TRUE, big |-> FALSE, v |-> 2147483647]
  /\ DecOf(<<50, 49, 52, 55, 52, 56, 51, 54, 52, 56>>).big                                  \* 2147483648
  /\ ClassOf(<<105, 110>>) = 1 /\ ClassOf(<<67, 72>>) = 3 /\ ClassOf(<<99, 108, 97, 115, 115, 55>>) = 7
  /\ ClassOf(<<65>>) = -1
  /\ TypeOf(<<109, 120>>) = 15 /\ TypeOf(<<84, 89, 80, 69, 54, 53, 53, 51, 53>>) = 65535 /\ TypeOf(<<73, 78>>) = -1
  /\ TypeOf(<<84, 89, 80, 69, 54, 53, 53, 51, 54>>) = -1
  /\ IP4Of(<<49, 48, 46, 48, 46, 48, 46, 50, 53, 53>>) = [ok |-> TRUE, v |-> <<10, 0, 0, 255>>]
  /\ ~IP4Of(<<49, 48, 46, 48, 46, 48>>).ok /\ ~IP4Of(<<49, 46, 50, 46, 51, 46, 50, 53, 54>>).ok
  /\ U16Of(<<54, 53, 53, 51, 53>>).ok /\ ~U16Of(<<54, 53, 53, 51, 54>>).ok
=============================================================================
