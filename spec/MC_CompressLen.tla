--------------------------- MODULE MC_CompressLen ---------------------------
(* Bounded exhaustive check of CompressLen on itself, with the pointer limit   *)
(* lowered (MaxOff = 4, 6, 9 in three runs) so that it is crossed inside tiny  *)
(* plans.  Labels are single octets over {a, A, e, d}: e (0xC8) is spelled     *)
(* \200 (4 characters), d (a dot inside a label) is spelled \. (2 characters). *)
(* Every plan  name skip name skip name [skip name]  is one state.             *)
EXTENDS CompressLen

CONSTANT Scale         \* 0: 3-name plans over 13 names (quick); 1: 3-name plans over 21 names plus 4-name plans over 7 names

VARIABLES plan, valid, phase

Alpha == {97, 65, 200, 46}
Names1 == { << <<x>> >> : x \in Alpha }
Names2 == { << <<x>>, <<y>> >> : x \in Alpha, y \in {97, 200} }
Names3 == { << <<x>>, <<y>>, <<z>> >> : x \in {97, 200}, y \in {97, 46}, z \in {97, 200} }
NameSet  == IF Scale >= 1 THEN { <<>> } \cup Names1 \cup Names2 \cup Names3
            ELSE { <<>> } \cup Names1
                 \cup { << <<97>>, <<97>> >>, << <<200>>, <<97>> >>, << <<65>>, <<97>> >>, << <<97>>, <<200>> >>, << <<46>>, <<200>> >> }
                 \cup { << <<97>>, <<97>>, <<97>> >>, << <<97>>, <<200>>, <<97>> >>, << <<200>>, <<46>>, <<97>> >> }
NameSetS == { <<>>, << <<97>> >>, << <<200>> >>, << <<97>>, <<97>> >>, << <<200>>, <<97>> >>, << <<65>>, <<97>> >>,
              << <<97>>, <<200>>, <<97>> >> }
Skips == {0, 1, 3}

P3 == { << NameItem(n1, c1), SkipItem(s1), NameItem(n2, c2), SkipItem(s2), NameItem(n3, c3) >> :
          n1 \in NameSet, n2 \in NameSet, n3 \in NameSet, c1 \in BOOLEAN, c2 \in BOOLEAN, c3 \in BOOLEAN, s1 \in Skips, s2 \in {0, 3} }
P4 == { << NameItem(n1, TRUE), SkipItem(s1), NameItem(n2, c2), SkipItem(s2), NameItem(n3, c3), SkipItem(0), NameItem(n4, TRUE) >> :
          n1 \in NameSetS, n2 \in NameSetS, n3 \in NameSetS, n4 \in NameSetS, c2 \in BOOLEAN, c3 \in BOOLEAN, s1 \in Skips, s2 \in {0, 3} }

Init == /\ phase = 0
        /\ plan \in (IF Scale >= 1 THEN P3 \cup P4 ELSE P3)
        /\ valid \in (IF Scale >= 1 THEN BOOLEAN ELSE {TRUE})
Next == phase = 0 /\ phase' = 1 /\ UNCHANGED <<plan, valid>>

Uncompressed == SumSeq([i \in 1..Len(plan) |-> IF plan[i].k = "skip" THEN plan[i].len ELSE WireLen(plan[i].n)])
EscapeFree   == \A i \in 1..Len(plan) : plan[i].k = "name" => NameEscapeFree(plan[i].n)

NeverUnder == phase = 1 => LenImpl(plan, 0, valid) >= PackImpl(plan, 0, valid)
Exact      == phase = 1 /\ EscapeFree => LenImpl(plan, 0, valid) = PackImpl(plan, 0, valid)
NoLonger   == phase = 1 => PackImpl(plan, 0, valid) <= Uncompressed /\ LenImpl(plan, 0, valid) <= Uncompressed
NoMapExact == phase = 1 /\ ~valid => LenImpl(plan, 0, valid) = Uncompressed /\ PackImpl(plan, 0, valid) = Uncompressed

\* non-vacuity, checked once with "-coverage" in mind: these must be FALSE somewhere (violated as invariants)
SomeCompression == phase = 1 => PackImpl(plan, 0, valid) = Uncompressed
SomeOverEstimate == phase = 1 => LenImpl(plan, 0, valid) = PackImpl(plan, 0, valid)
=============================================================================
