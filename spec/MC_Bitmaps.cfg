CONSTANTS
  MaxLabel = 63
  MaxName = 255
INIT Init
NEXT Next
INVARIANTS SetInv RawInv AplInv AplRawInv SizeInv HexInv
CHECK_DEADLOCK FALSE
