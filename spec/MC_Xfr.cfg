INIT Init
NEXT Next
INVARIANTS UniqueEnd MachineIsGrammar NoFaultNoError FaultIsReported RunAgrees Out

CONSTANTS
  MaxRecs = 1
  SerialIds = {2, 3, 4}
  TsigModes = {FALSE, TRUE}
  Empties = TRUE
  EmitBehaviours = FALSE
  Shard = 0
  NShards = 1
