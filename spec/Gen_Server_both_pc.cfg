CONSTANTS
  Mode = "pc"
  NStart = 1
  NLsn = 1
  NShut = 1
  NConns = 0
  MaxReq = 0
  NPkts = 1
  CtxMayExpire = TRUE
  PlainShut = {}
  DeadlinesMayFire = FALSE
  ClientMayClose = FALSE
  HandlerMayClose = FALSE
  HandlerMayHijack = FALSE
  StartMayFail = FALSE
  SpareFields = TRUE
  SeqRestart = FALSE
  Bug = "none"
  TrackAct = TRUE
INIT Init
NEXT Next

CHECK_DEADLOCK FALSE
INVARIANT Export

