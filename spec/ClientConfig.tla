---------------------------- MODULE ClientConfig ----------------------------
(* resolv.conf(5) as read by ClientConfigFromReader, and the search-list        *)
(* expansion of ClientConfig.NameList.                                          *)
(*                                                                            *)
(* A file is a sequence of lines; a line is [ws, toks, pad]:                    *)
(*   ws    the line starts with white space                                     *)
(*   toks  its white-space separated tokens                                     *)
(*   pad   that many more characters follow on a comment line (its length is    *)
(*         irrelevant)                                                          *)
(* A token is [k, s, n, labels, dot]:                                           *)
(*   k = "word"  the text s                 (keywords, addresses, flags)        *)
(*   k = "cmt"   the text s, which begins with `#' or `;'                       *)
(*   k = "opt"   the text s ":" n           (s = "ndots" ..., n an integer)     *)
(*   k = "dom"   a domain: labels joined by dots, plus a final dot if `dot'     *)
(*               (labels = <<>>, dot = TRUE is the root ".")                    *)
(*                                                                            *)
(* resolv.conf(5):                                                              *)
(*  - "Lines that contain a semicolon (;) or hash character (#) in the first    *)
(*    column are treated as comments."                                          *)
(*  - "The keyword and value must appear on a single line, and the keyword      *)
(*    (e.g., nameserver) must start the line.  The value follows the keyword,   *)
(*    separated by white space."                                                *)
(*  - nameserver: one address per keyword, several keywords allowed             *)
(*  - domain / search: "mutually exclusive.  If more than one instance of these *)
(*    keywords is present, the last instance wins."                             *)
(*  - options ndots:n  default 1, "silently capped to 15"; timeout:n default 5  *)
(*    (RES_TIMEOUT), "silently capped to 30"; attempts:n default 2              *)
(*    (RES_DFLRETRY), "silently capped to 5"                                    *)
(* AMBIG points are decided by a policy record pol; the checks admit the result *)
(* under every policy:                                                          *)
(*   pol.cap   timeout / attempts above 30 / 5 are capped (man page) or kept    *)
(*             (the resolver of Go's net package, which the library follows)    *)
(*   pol.bare  a `domain' / `search' keyword without value empties the search   *)
(*             list, or is ignored like any malformed line                      *)
(*   pol.lws   a keyword after leading white space is still a keyword (lenient) *)
(*             or not ("must start the line")                                   *)
EXTENDS Integers, Sequences, FiniteSets, TLC

Word(s)        == [k |-> "word", s |-> s,  n |-> 0, labels |-> <<>>, dot |-> FALSE]
Cmt(s)         == [k |-> "cmt",  s |-> s,  n |-> 0, labels |-> <<>>, dot |-> FALSE]
Opt(s, n)      == [k |-> "opt",  s |-> s,  n |-> n, labels |-> <<>>, dot |-> FALSE]
Dom(ls, dot)   == [k |-> "dom",  s |-> "", n |-> 0, labels |-> ls,   dot |-> dot]
Line(ws, toks) == [ws |-> ws, toks |-> toks, pad |-> 0]

RECURSIVE Join(_)
Join(ls) == IF ls = <<>> THEN "" ELSE IF Len(ls) = 1 THEN ls[1] ELSE ls[1] \o "." \o Join(Tail(ls))

\* the text of a token in value position
Text(t) == IF t.k = "dom" THEN Join(t.labels) \o (IF t.dot THEN "." ELSE "") ELSE t.s

Pols == [cap : BOOLEAN, bare : BOOLEAN, lws : BOOLEAN]

Default == [servers |-> <<>>, search |-> <<>>, port |-> "53", ndots |-> 1, timeout |-> 5, attempts |-> 2]

Min2(a, b) == IF a < b THEN a ELSE b
Clamp(n, lo, hi) == IF n < lo THEN lo ELSE IF n > hi THEN hi ELSE n
Floor1Cap(n, hi, cap) == IF n < 1 THEN 1 ELSE IF cap /\ n > hi THEN hi ELSE n   \* a time-out / try count below 1 is 1

StepOpt(c, t, pol) ==
  IF t.k # "opt" THEN c                                     \* rotate, unknown flags: no effect here
  ELSE CASE t.s = "ndots"    -> [c EXCEPT !.ndots = Clamp(t.n, 0, 15)]
         [] t.s = "timeout"  -> [c EXCEPT !.timeout = Floor1Cap(t.n, 30, pol.cap)]
         [] t.s = "attempts" -> [c EXCEPT !.attempts = Floor1Cap(t.n, 5, pol.cap)]
         [] OTHER -> c

RECURSIVE StepOpts(_, _, _)
StepOpts(c, ts, pol) == IF ts = <<>> THEN c ELSE StepOpts(StepOpt(c, Head(ts), pol), Tail(ts), pol)

IsComment(ln) == ~ln.ws /\ ln.toks # <<>> /\ ln.toks[1].k = "cmt"

\* search lists keep the structured tokens (NameList needs the labels)
StepLine(c, ln, pol) ==
  IF ln.toks = <<>> \/ IsComment(ln) THEN c
  ELSE IF ln.ws /\ ~pol.lws THEN c
  ELSE LET kw == ln.toks[1]  args == Tail(ln.toks) IN
       IF kw.k # "word" THEN c
       ELSE CASE kw.s = "nameserver" -> IF args = <<>> THEN c ELSE [c EXCEPT !.servers = Append(@, Text(args[1]))]
              [] kw.s = "domain"     -> IF args = <<>> THEN (IF pol.bare THEN [c EXCEPT !.search = <<>>] ELSE c)
                                        ELSE [c EXCEPT !.search = <<args[1]>>]
              [] kw.s = "search"     -> IF args = <<>> THEN (IF pol.bare THEN [c EXCEPT !.search = <<>>] ELSE c)
                                        ELSE [c EXCEPT !.search = args]
              [] kw.s = "options"    -> StepOpts(c, args, pol)
              [] OTHER -> c

RECURSIVE Fold(_, _, _)
Fold(c, lines, pol) == IF lines = <<>> THEN c ELSE Fold(StepLine(c, Head(lines), pol), Tail(lines), pol)

ParseConf(lines, pol) == Fold(Default, lines, pol)

\* the configuration as the API shows it: search list as texts
CfgText(c) == [c EXCEPT !.search = [i \in 1..Len(c.search) |-> Text(c.search[i])]]

Admissible(lines) == { CfgText(ParseConf(lines, pol)) : pol \in Pols }

\* the reader fails after `failAt' lines were delivered (failAt > Len(lines): never):
\* "ClientConfigFromReader works like ClientConfigFromFile": an I/O error is an error.
ReadFails(lines, failAt) == failAt <= Len(lines)

-----------------------------------------------------------------------------
(* NameList(name): the names to try, in order.  resolv.conf(5), `search' and    *)
(* `ndots': a name with at least ndots dots is tried as it is first, then with  *)
(* each element of the search list appended; with fewer dots the search list    *)
(* comes first.  A fully qualified name (final dot) is only tried as it is.     *)
(* A name is [labels, fq]; labels # <<>> unless fq (the empty text is no name). *)
(* Search-list elements are "dom" tokens: with or without final dot they denote *)
(* the same domain, "." is the root.                                            *)
Fq(labels) == IF labels = <<>> THEN "." ELSE Join(labels) \o "."

NameList(ndots, search, nm) ==
  IF nm.fq THEN << Fq(nm.labels) >>
  ELSE LET dots == Len(nm.labels) - 1
           asis == << Fq(nm.labels) >>
           sfx  == [i \in 1..Len(search) |-> Fq(nm.labels \o search[i].labels)]
       IN IF dots >= ndots THEN asis \o sfx ELSE sfx \o asis

\* AMBIG: the root as a search-list element ("search .") yields the name itself once
\* more; a resolver may also leave it out (Go's net package drops it when reading).
NotRoot(t) == t.labels # <<>>
NameListAdm(ndots, search, nm) == { NameList(ndots, search, nm), NameList(ndots, SelectSeq(search, NotRoot), nm) }

-----------------------------------------------------------------------------
(* The line alphabet of the bounded checks (MC_, Gen_).                         *)
W(s) == Word(s)
ExOrg  == Dom(<<"example", "org">>, FALSE)
SubDot == Dom(<<"sub", "example", "org">>, TRUE)
Root   == Dom(<<>>, TRUE)
LongComment == [ws |-> FALSE, toks |-> <<Cmt("#")>>, pad |-> 70000]
LineAlphabet ==
  << Line(FALSE, <<W("nameserver"), W("10.0.0.1")>>),
     Line(FALSE, <<W("nameserver"), W("2001:db8::1"), W("extra")>>),
     Line(FALSE, <<W("nameserver")>>),
     Line(FALSE, <<W("domain"), ExOrg>>),
     Line(FALSE, <<W("domain"), Dom(<<"a", "test">>, FALSE), Dom(<<"b", "test">>, FALSE)>>),
     Line(FALSE, <<W("domain")>>),
     Line(FALSE, <<W("search"), ExOrg, SubDot>>),
     Line(FALSE, <<W("search"), Root>>),
     Line(FALSE, <<W("search")>>),
     Line(FALSE, <<W("options"), Opt("ndots", 3)>>),
     Line(FALSE, <<W("options"), Opt("ndots", 0), Opt("timeout", 1)>>),
     Line(FALSE, <<W("options"), Opt("ndots", 16), Opt("attempts", 9)>>),
     Line(FALSE, <<W("options"), Opt("ndots", -1), Opt("timeout", 0), Opt("attempts", 0)>>),
     Line(FALSE, <<W("options"), Opt("timeout", 31), W("rotate")>>),
     Line(FALSE, <<W("options"), Opt("attempts", 5), Opt("timeout", 30), Opt("unknown", 1), Opt("ndots", 15)>>),
     Line(FALSE, <<Cmt("#"), W("nameserver"), W("10.9.9.9")>>),
     Line(FALSE, <<Cmt(";options"), Opt("ndots", 7)>>),
     Line(FALSE, <<Cmt("#nameserver"), W("10.9.9.8")>>),
     Line(FALSE, <<>>),
     Line(TRUE,  <<>>),
     Line(TRUE,  <<W("nameserver"), W("10.0.0.2")>>),
     Line(TRUE,  <<Cmt("#"), W("search"), ExOrg>>),
     Line(FALSE, <<W("sortlist"), W("10.0.0.0/8")>>),
     LongComment >>
=============================================================================
