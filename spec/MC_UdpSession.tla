---------------------------- MODULE MC_UdpSession ----------------------------
(* UdpSession.tla on itself: ancillary data built from every combination of     *)
(* control messages below, whole and cut at every length.                        *)
EXTENDS UdpSession

VARIABLES parts, cut

A4 == { <<127, 0, 0, 1>>, <<127, 0, 0, 2>>, <<0, 0, 0, 0>>, <<192, 0, 2, 2>> }
A6 == { Zeros(15) \o <<1>>, <<253, 0>> \o Zeros(13) \o <<2>>, Zeros(10) \o <<255, 255, 127, 0, 0, 2>>, Zeros(16) }
Msgs == { Pktinfo4(i, <<0, 0, 0, 0>>, a) : i \in {0, 1, 2}, a \in A4 } \cup { Pktinfo6(a, i) : i \in {0, 3}, a \in A6 }
          \cup { Cmsg(LvlIP, TypTTL, LE32(64)), Cmsg(LvlIPv6, TypHopLimit, LE32(64)), Cmsg(1, 29, Zeros(16)),
                 Cmsg(LvlIP, TypPktinfo4, Zeros(8)), Cmsg(LvlIPv6, TypPktinfo6, Zeros(12)) }
Init == /\ parts \in UNION { [1..n -> Msgs] : n \in 0..2 }
        /\ cut \in {-1, 0, 1, 8, 15, 16, 17, 24, 27, 28, 31, 33, 39, 41}
Next == UNCHANGED << parts, cut >>

Whole == Concat(parts)
Buf == IF cut = -1 \/ cut > Len(Whole) THEN Whole ELSE Take(Whole, cut)
Infos == { i \in 1..Len(parts) : \E a \in A4, x \in {0, 1, 2} : parts[i] = Pktinfo4(x, <<0, 0, 0, 0>>, a) } \cup
         { i \in 1..Len(parts) : \E a \in A6, x \in {0, 3} : parts[i] = Pktinfo6(a, x) }

\* the reply the specification itself would build
Reply(d) == IF d = <<>> THEN <<>> ELSE IF IsV4(d) THEN Pktinfo4(0, AsV4(d), <<0, 0, 0, 0>>) ELSE Pktinfo6(d, 0)

RoundTrip == cut = -1 =>
  /\ Cmsgs(Whole).ok /\ Len(Cmsgs(Whole).ms) = Len(parts)
  /\ Cardinality(Dsts(Whole)) <= Cardinality(Infos)
  /\ (Infos = {} <=> Dsts(Whole) = {})
  /\ \A d \in DstAdm(Whole) : DstOK(Whole, d) /\ SourceOK(Whole, Reply(d))
  /\ (Infos = {} => DstAdm(Whole) = { <<>> } /\ SourceOK(Whole, <<>>) /\ ~SourceOK(Whole, Reply(<<127, 0, 0, 1>>)))
  /\ (Infos # {} => ~DstOK(Whole, <<>>) /\ ~SourceOK(Whole, <<>>))
\* a reply never names another address, the other family, or carries more than the packet-info
Strict == cut = -1 /\ Cardinality(Dsts(Whole)) = 1 =>
  LET d == CHOOSE d \in Dsts(Whole) : TRUE IN
  /\ ~SourceOK(Whole, Reply(<<10, 9, 8, 7>>))
  /\ ~SourceOK(Whole, Reply(d) \o Cmsg(LvlIP, TypTTL, LE32(1)))
  /\ (IsV4(d) => ~SourceOK(Whole, Pktinfo6(Zeros(10) \o <<255, 255>> \o AsV4(d), 0)))            \* IPv4 is answered as IPv4
  /\ (~IsV4(d) => ~SourceOK(Whole, Pktinfo4(0, Sub(d, 13, 16), <<0, 0, 0, 0>>)))
  /\ (IsV4(d) /\ AsV4(d) # <<0, 0, 0, 0>> => ~SourceOK(Whole, Pktinfo4(0, <<0, 0, 0, 0>>, AsV4(d))))                       \* the address sits in ipi_spec_dst
  /\ ExchangeOK(d, Whole, d, <<127, 0, 0, 1>>, <<127, 0, 0, 1>>)
  /\ ~ExchangeOK(d, Whole, <<127, 0, 0, 9>>, <<127, 0, 0, 1>>, <<127, 0, 0, 1>>)
\* cut buffers: total, and whatever is admitted was in the whole buffer
Cuts == /\ DstAdm(Buf) # {}
        /\ \A d \in DstAdm(Buf) : d = <<>> \/ d \in Dsts(Whole) \/ ~Cmsgs(Buf).ok \/ Len(Buf) < Len(Whole)
        /\ (Len(Buf) < HdrLen => DstAdm(Buf) = { <<>> })
=============================================================================
