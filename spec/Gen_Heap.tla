------------------------------ MODULE Gen_Heap ------------------------------
(* Behaviour export for C16: every operation sequence of length N over the     *)
(* alphabet {Copy(original), Copy(latest), Mutate(original), Mutate(latest),   *)
(* the read-only operations on the latest object, Unpack, Scribble}, following *)
(* the region discipline of Heap.tla.  One JSON line per sequence; each step   *)
(* carries what the specification predicts: the live objects, their abstract   *)
(* regions (pairwise disjoint, never the buffer's), their abstract values, the *)
(* objects whose value changed (`chg'), those whose bookkeeping may have       *)
(* changed (`bkmay') and, for Copy, the pair that must be equal.  The harness  *)
(* executes the sequence on every record type and on whole messages and        *)
(* compares the real heap with these predictions after each step.              *)
(*                                                                             *)
(* Alphabet "copyto": the sequences that contain a CopyTo INTO A LIVE OBJECT,  *)
(* over {Copy, Alias(original | latest; how = "all": shallow struct copy,      *)
(* "one": one section assigned), CopyTo(a, b) for every ordered pair of live   *)
(* objects whose target shares memory with nobody but its source, Mutate       *)
(* (original | latest), Pack, Copy as read-only operation,                     *)
(* Unpack}.  Slot 1 of an object is its root store (never shared by an alias), *)
(* slot 2 its nested stores (shared by both kinds of alias).  Executed on      *)
(* whole messages.                                                             *)
EXTENDS Heap, GenBase

CONSTANTS N, NSlots,
          Alphabet   \* "base" | "copyto"

VARIABLES S, hist, nextc

Flip(c) == -c - 1                                  \* "every octet inverted": an involution
BufValid(T) == T.mem[T.buf] >= 0
MaxReg(T) == CHOOSE r \in DOMAIN T.mem : \A q \in DOMAIN T.mem : q <= r
FreshSeq(T, k) == [i \in 1..k |-> MaxReg(T) + i]
NextObj(T) == CHOOSE o \in Obj \ T.live : \A q \in Obj \ T.live : o <= q
Latest(T) == CHOOSE o \in T.live : \A q \in T.live : q <= o
U(c, i) == 1000 * i + 100 + c

RECURSIVE SortedSeq(_)
SortedSeq(s) == IF s = {} THEN <<>> ELSE LET m == CHOOSE x \in s : \A y \in s : x <= y IN <<m>> \o SortedSeq(s \ {m})

SortedPairs(al) == LET prs == { <<a, b>> \in Obj \X Obj : a < b /\ {a, b} \in al }
                        key(q) == 100 * q[1] + q[2]
                        ks == SortedSeq({ key(q) : q \in prs }) IN
                    [i \in 1..Len(ks) |-> << ks[i] \div 100, ks[i] % 100 >>]

Init ==
  /\ S = [slots |-> [o \in Obj |-> IF o = 1 THEN [i \in 1..NSlots |-> i] ELSE <<>>],
          mem   |-> [r \in 1..(NSlots + 1) |-> r],
          bk    |-> [o \in Obj |-> 0],
          live  |-> {1},
          buf   |-> NSlots + 1,
          al    |-> {}]
  /\ hist = <<>>
  /\ nextc = NSlots + 2

\* The argument STATES in which a read-only operation is executed: the specification's prediction (nothing but the
\* bookkeeping changes) holds in every state of the arguments, and an operation that normalises, caches or
\* post-processes does so only in some.  Verifying: the TTL of the RRset (and of the RRSIG) equals the signature's
\* original TTL (just signed), lies below it (the records aged in a cache), or above it (raised after signing / signed
\* with a lower original TTL: RFC 4035 5.3.3 tells a RESOLVER to lower it -- not Verify to do so in its arguments).
\* The verification succeeds in all three (the canonical form carries the original TTL); a fourth state makes it fail
\* (one octet of the signature changed).
ROStates(op) == IF op = "Verify" THEN << "ttl=orig", "ttl<orig", "ttl>orig", "bad-signature" >> ELSE << >>

Rec(opname, ro, x, y, slot, T, tgt, bkmay) ==
  [op |-> opname, ro |-> ro, states |-> ROStates(ro), x |-> x, y |-> y, slot |-> IF opname \in {"alias"} THEN 0 ELSE slot,
   how |-> IF opname = "alias" THEN slot ELSE "",
   live  |-> SortedSeq(T.live),
   regs  |-> [o \in Obj |-> T.slots[o]],
   vals  |-> [o \in Obj |-> Value(T, o)],
   buf   |-> T.buf,
   bufok |-> BufValid(T),
   chg   |-> SortedSeq({ o \in S.live : Value(T, o) # Value(S, o) }),
   tgt   |-> SortedSeq(tgt),
   bkmay |-> SortedSeq(bkmay),
   eq    |-> IF opname \in {"copy", "alias", "copyto"} THEN <<y, x>> ELSE <<>>,
   al    |-> SortedPairs(T.al),
   disj  |-> Disjoint(T)]

Do(opname, ro, x, y, slot, T, tgt, bkmay) ==
  /\ S' = T
  /\ hist' = Append(hist, Rec(opname, ro, x, y, slot, T, tgt, bkmay))

Copy(x) == /\ Obj \ S.live # {}
           /\ LET p == [x |-> x, y |-> NextObj(S), ns |-> FreshSeq(S, Len(S.slots[x]))] IN
              /\ CopyShape(S, p) /\ CopyDisc(S, p)
              /\ Do("copy", "", x, p.y, 0, CopyPost(S, p), {}, {})
           /\ UNCHANGED nextc

Unpack == /\ Obj \ S.live # {} /\ BufValid(S)
          /\ LET p == [y |-> NextObj(S), ns |-> FreshSeq(S, NSlots),
                       cs |-> [i \in 1..NSlots |-> U(S.mem[S.buf], i)], b |-> 0] IN
             /\ UnpackShape(S, p) /\ UnpackDisc(S, p)
             /\ Do("unpack", "", 0, p.y, 0, UnpackPost(S, p), {}, {})
          /\ UNCHANGED nextc

Mutate(x) == LET slot == 1 + (Len(hist) % NSlots)
                 r == S.slots[x][slot]
                 p == [x |-> x, r |-> r, c |-> nextc, b |-> S.bk[x], pb |-> [o \in Sharers(S, x, r) |-> S.bk[o]]] IN
             /\ MutateShape(S, p)
             /\ Do("mutate", "", x, 0, slot, MutatePost(S, p), Targets(S, "mutate", p), {})
             /\ nextc' = nextc + 1

\* the caller's shallow copy: slot 1 (the root store) is the new object's own, slot 2 is shared
Alias(x, how) == /\ Obj \ S.live # {}
                 /\ LET f == FreshSeq(S, Len(S.slots[x]))
                        p == [x |-> x, y |-> NextObj(S), ns |-> [i \in 1..Len(f) |-> IF i >= 2 THEN S.slots[x][i] ELSE f[i]]] IN
                    /\ AliasShape(S, p) /\ AliasDisc(S, p)
                    /\ Do("alias", "", x, p.y, how, AliasPost(S, p), {}, {})
                 /\ UNCHANGED nextc

\* Msg.CopyTo into the live object t: new regions for everything
CopyTo(x, t) == LET p == [x |-> x, t |-> t, ns |-> FreshSeq(S, Len(S.slots[x]))] IN
                /\ CopyToShape(S, p) /\ CopyToDisc(S, p)
                /\ Do("copyto", "", x, t, 0, CopyToPost(S, p), {t}, {t})
                /\ UNCHANGED nextc

Scribble == LET p == [c |-> Flip(S.mem[S.buf])] IN
            /\ ScribbleShape(S, p)
            /\ Do("scribble", "", 0, 0, 0, ScribblePost(S, p), {}, {})
            /\ UNCHANGED nextc

RO(op) == LET x  == Latest(S)
              xs == IF op = "IsDuplicate" THEN {x, 1} ELSE {x}
              p  == [op |-> op, xs |-> xs, nb |-> [o \in ROArgs(S, xs) |-> S.bk[o]]] IN
          /\ ROShape(S, p)
          /\ Do("ro", op, x, IF op = "IsDuplicate" THEN 1 ELSE 0, 0, ROPost(S, p), {}, ROArgs(S, xs))
          /\ UNCHANGED nextc

NextCopyTo ==
        /\ Len(hist) < N
        /\ \/ Copy(1)
           \/ (Latest(S) # 1 /\ Copy(Latest(S)))
           \/ \E how \in {"all", "one"} : Alias(1, how) \/ (Latest(S) # 1 /\ Alias(Latest(S), how))
           \* (into targets that share memory with nobody but -- possibly -- the source: what a CopyTo that uses the target's
           \*  storage again does to THIRD objects the caller aliased to the target is AMBIG, see Heap!CopyToDisc)
           \/ \E a \in S.live, b \in S.live : a # b /\ Partners(S, {b}) \subseteq {a} /\ CopyTo(a, b)
           \/ Mutate(1)
           \/ (Latest(S) # 1 /\ Mutate(Latest(S)))
           \/ RO("Pack") \/ RO("Copy")
           \/ Unpack

Next == IF Alphabet = "copyto" THEN NextCopyTo ELSE
        /\ Len(hist) < N
        /\ \/ Copy(1)
           \/ (Latest(S) # 1 /\ Copy(Latest(S)))
           \/ Mutate(1)
           \/ (Latest(S) # 1 /\ Mutate(Latest(S)))
           \/ \E op \in ROOps : RO(op)
           \/ Unpack
           \/ Scribble

\* every exported behaviour satisfies the specification's own invariants (a failure here is a spec bug)
Sound == \A k \in 1..Len(hist) : hist[k].disj /\ (\A j \in 1..Len(hist[k].chg) : hist[k].chg[j] \in { hist[k].tgt[i] : i \in 1..Len(hist[k].tgt) })

HasCopyTo == \E k \in 1..Len(hist) : hist[k].op = "copyto"
Out == IF Len(hist) = N /\ (Alphabet = "copyto" => HasCopyTo) THEN Emit([ops |-> hist]) ELSE TRUE
=============================================================================
