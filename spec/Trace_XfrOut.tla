----------------------------- MODULE Trace_XfrOut -----------------------------
(* Events of real Transfer.Out calls (harness `xfrout run'), judged by           *)
(* XfrOut.tla.  A trace is a concatenation of calls; each starts with `req'.     *)
(*  req     [octets, sig, failat]  the request as sent; how it was signed with    *)
(*          respect to the server's secret table; the transport's fault          *)
(*  send    [rrs, err, big]   the producer starts handing an envelope over (rrs: *)
(*          its records, each packed on its own; not given for `big')            *)
(*  frame   [octets, now]     one Write that reached the transport               *)
(*  wfail                     the transport refused a Write                      *)
(*  blocked                   Out's goroutine is parked in the channel receive   *)
(*  close                     the producer closes the channel                    *)
(*  ret     [err]             Out returned ("" = nil)                            *)
(*  stuck                     Out has returned, the hand-over cannot complete    *)
(* The harness serialises producer and Out (after every hand-over it waits until *)
(* Out is parked in the receive or has returned), so the order is total.         *)
(* For every signed frame a line [i, first, digest, mac] goes to vectors.ndjson: *)
(* `xfrout judge' applies crypto/hmac (the MAC is uninterpreted here).           *)
EXTENDS XfrOut, TraceBase, GenBase

VARIABLES l, o, skip
Ev == Trace[l]

ReqOf(e) ==
  LET m == e.octets
      q1 == SkipQ(m, 12)
      p == SplitTsig(m)
      signed == p.st = "ok" IN
  [id |-> MsgId(m), opcode |-> (m[3] \div 8) % 16, rd |-> m[3] % 2 = 1, cd |-> (m[4] \div 16) % 2 = 1,
   qd |-> IF QdCount(m) > 0 THEN 1 ELSE 0, qsec |-> IF QdCount(m) > 0 THEN Sub(m, 13, q1) ELSE <<>>,
   sig |-> e.sig,
   mac |-> IF signed THEN p.t.mac ELSE <<>>, key |-> IF signed THEN p.t.key ELSE <<>>,
   alg |-> IF signed THEN p.t.alg ELSE <<>>, fudge |-> IF signed THEN p.t.fudge ELSE 0]
ReqOK(e) == /\ Len(e.octets) >= 12 /\ (QdCount(e.octets) > 0 => SkipQ(e.octets, 12) > 0)
            /\ e.sig \in {"none", "good", "bad", "nokey"}
            /\ (e.sig = "none" <=> SplitTsig(e.octets).st # "ok")

\* -> [ok, o] ; the frame event also writes the judge's line
Step(e) ==
  CASE e.ev = "send"    -> [ok |-> CanPut(o) \/ (o.st = "returned" /\ o.pend = <<>> /\ o.ch = "open"),
                            o |-> Put(o, [rrs |-> e.rrs, err |-> e.err, big |-> e.big])]
    [] e.ev = "frame"   -> IF ~(CanTake(o) /\ "sent" \in Outcomes(o)) THEN [ok |-> FALSE, o |-> o]
                           ELSE LET r == ReadFrame(o, o.pend[1], e.octets, e.now) IN
                                IF ~r.ok THEN [ok |-> FALSE, o |-> o]
                                ELSE [ok |-> (r.signed => Emit([i |-> e.i, first |-> ~o.sess.timers, digest |-> r.digest, mac |-> r.mac])),
                                      o |-> TakeEnv(o, "sent", r.mac)]
    [] e.ev = "wfail"   -> [ok |-> CanTake(o) /\ "refused" \in Outcomes(o), o |-> [o EXCEPT !.broken = TRUE]]
    [] e.ev = "ret"     -> IF e.err = ""
                           THEN [ok |-> CanReturnNil(o), o |-> ReturnNil(o)]
                           ELSE [ok |-> CanTake(o) /\ (o.broken \/ "error" \in Outcomes(o)), o |-> [Fail(o) EXCEPT !.pend = <<>>]]
    [] e.ev = "blocked" -> [ok |-> Waiting(o), o |-> o]
    [] e.ev = "close"   -> [ok |-> CanClose(o), o |-> Close(o)]
    [] e.ev = "stuck"   -> [ok |-> o.st = "returned" /\ o.err # "" /\ o.pend # <<>>, o |-> o]
    [] OTHER -> [ok |-> FALSE, o |-> o]

Init == l = 1 /\ o = Start([id |-> 0, opcode |-> 0, rd |-> FALSE, cd |-> FALSE, qd |-> 0, qsec |-> <<>>, sig |-> "none", mac |-> <<>>,
                            key |-> <<>>, alg |-> <<>>, fudge |-> 0], 0) /\ skip = TRUE /\ HWInit

Next ==
  /\ l <= Len(Trace)
  /\ HW(l)
  /\ l' = l + 1
  /\ IF Ev.ev = "req"
     THEN IF ReqOK(Ev) THEN o' = Start(ReqOf(Ev), Ev.failat) /\ skip' = FALSE
          ELSE MarkBad(l) /\ skip' = TRUE /\ o' = o
     ELSE IF skip THEN UNCHANGED << o, skip >>
     ELSE LET r == Step(Ev) IN
          IF r.ok THEN o' = r.o /\ skip' = FALSE
          ELSE MarkBad(l) /\ skip' = TRUE /\ o' = o
=============================================================================
